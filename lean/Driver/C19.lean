/-
  C19 driver commands (one case per line):

    c19explore <gen|ref|old> <micro|macro> <limit> <allowed faults, comma separated or -> <scenario>
        → `ok <n> <code>*`            closed set of reachable states (codes), none bad
        → `bad <kind> <n> ; <thread>*` a shortest schedule into a bad / deadlocked state
        → `err <why>`
    c19replay <gen|ref> <scenario> ; <thread>*
        → `<status> | <thread.call.Exc>* | D<ids> I<ids> T<ids> | <overlap 0/1> | <faults>
           | <free/held> <excl/noexcl> | <micro steps> | <thread.call of the discards that removed>`
    c19code <gen|ref> <scenario>      → length of each thread's flat code
    c19conf <gen|ref|old> <scenario>  → `<conformant 0/1> <disciplined 0/1>`

  scenario = `D<ids> I<ids> T<ids> E<ids>` then, per thread, `|` followed by calls
  `<method>.<key>.<throwAt>`; ids are single digits.
-/
import MongoModel.RWLockExplore
import MongoModel.RWLockConf
import Generated.RWLockProtocol
import Generated.LockDiscipline
open MongoModel.RWLock

namespace Driver.C19

def methodOfName : String → Option Method
  | "contains" => some .contains | "getItem" => some .getItem | "setItem" => some .setItem
  | "delItem" => some .delItem | "discard" => some .discard | "len" => some .len | "documents" => some .documents
  | "isEmpty" => some .isEmpty | "expireDocuments" => some .expireDocuments
  | "removeExpired" => some .removeExpired | "createIndex" => some .createIndex
  | "createIndexTtl" => some .createIndexTtl | "dropIndex" => some .dropIndex
  | _ => none

def digits (s : String) : List Nat := (s.toList.drop 1).map fun c => c.toNat - '0'.toNat

def parseCall (tok : String) : Option Call :=
  match tok.splitOn "." with
  | [m, k, th] => match methodOfName m with
    | some m => some { m := m, key := k.toNat!, throwAt := th.toNat! }
    | none => none
  | _ => none

/-- split at `|` tokens -/
def splitBars (ts : List String) : List (List String) :=
  ts.foldr (fun t acc => match acc with
    | [] => if t == "|" then [[], []] else [[t]]
    | g :: gs => if t == "|" then [] :: g :: gs else (t :: g) :: gs) [[]]

def parseScenario (ts : List String) : Option Scenario :=
  match splitBars ts with
  | [d, i, t, e] :: progs =>
    match progs.mapM (fun p => p.mapM parseCall) with
    | some ps => some { docs0 := digits d, idx0 := digits i, ttl0 := digits t, expired := digits e,
                        progs := ps }
    | none => none
  | _ => none

def pick (which : String) : Protocol × Discipline :=
  if which == "ref" then (referenceProtocol, referenceDiscipline)
  else if which == "old" then (referenceProtocol, unrepairedDiscipline)   -- before `ttl-index-race` was fixed
  else (MongoModel.Generated.protocol, MongoModel.Generated.discipline)

def showIds (p : String) (xs : List Nat) : String := p ++ String.join (xs.map toString)


/-! printing a `Cfg` as a Lean term (for the certificate files) -/
def leanBool (b : Bool) : String := if b then "true" else "false"
def leanLock : LockId → String
  | .noReaders => ".noReaders" | .noWriters => ".noWriters" | .readersQueue => ".readersQueue"
  | .readMutex => ".readMutex" | .writeMutex => ".writeMutex"
def leanCtr : Ctr → String
  | .readCtr => ".readCtr" | .writeCtr => ".writeCtr"
def leanDict : Dict → String
  | .docs => ".docs" | .indexes => ".indexes" | .ttl => ".ttl"
def leanKey : Key → String
  | .lit n => s!"(.lit {n})" | .collHead => ".collHead"
def leanInt (i : Int) : String := if i < 0 then s!"({i})" else s!"{i}"
def leanInstr : Instr → String
  | .acq l => s!".acq {leanLock l}" | .rel l => s!".rel {leanLock l}"
  | .inc c => s!".inc {leanCtr c}" | .dec c => s!".dec {leanCtr c}"
  | .acqIf c k l => s!".acqIf {leanCtr c} {leanInt k} {leanLock l}"
  | .relIf c k l => s!".relIf {leanCtr c} {leanInt k} {leanLock l}"
  | .unknown => ".unknown"
  | .read d => s!".read {leanDict d}"
  | .getItem d k => s!".getItem {leanDict d} {leanKey k}"
  | .setItem d k => s!".setItem {leanDict d} {leanKey k}"
  | .delItem d k n => s!".delItem {leanDict d} {leanKey k} {leanBool n}"
  | .popItem d k => s!".popItem {leanDict d} {leanKey k}"
  | .collect => ".collect"
  | .iterBegin d => s!".iterBegin {leanDict d}" | .iterNext d => s!".iterNext {leanDict d}"
  | .loopEnd d => s!".loopEnd {leanDict d}"
  | .snapshot d => s!".snapshot {leanDict d}" | .snapNext d => s!".snapNext {leanDict d}"
  | .snapEnd d => s!".snapEnd {leanDict d}"
  | .yield n => s!".yield {n}" | .collNext => ".collNext" | .collEnd => ".collEnd"
  | .skip n => s!".skip {n}" | .reraise => ".reraise" | .handler => ".handler"
def leanPhase : Phase → String
  | .out => ".out" | .acq w j => s!".acq {leanBool w} {j}" | .body w => s!".body {leanBool w}"
  | .rel w r j => s!".rel {leanBool w} {leanBool r} {j}"
def leanTInstr (i : TInstr) : String :=
  "⟨" ++ leanPhase i.ph ++ ", " ++ leanBool i.start ++ ", " ++ leanInstr i.op ++ "⟩"
def leanList (xs : List String) : String := "[" ++ ", ".intercalate xs ++ "]"
def leanNats (xs : List Nat) : String := leanList (xs.map toString)
def leanCfg (c : Cfg) : String :=
  "{ reentrant := " ++ leanList (c.reentrant.map leanBool) ++ ", expired := " ++ leanNats c.expired
    ++ ", docs0 := " ++ leanNats c.docs0 ++ ", idx0 := " ++ leanNats c.idx0 ++ ", ttl0 := "
    ++ leanNats c.ttl0 ++ ", codes := "
    ++ leanList (c.codes.map fun code => leanList (code.map leanTInstr)) ++ " }"

def statusOf (cfg : Cfg) (s : State) : String :=
  if allDone cfg s then "completed" else if deadlocked cfg s then "deadlock" else "running"

def handle (ts : List String) : Option (List String) :=
  match ts with
  | "c19explore" :: which :: gran :: limit :: allowed :: rest =>
    match parseScenario rest with
    | none => some ["err", "scenario"]
    | some sc =>
      let (P, D) := pick which
      let cfg := mkCfg P D sc
      let al := if allowed == "-" then [] else (allowed.splitOn ",").filterMap faultOfName
      let r := if gran == "macro" then exploreMacro al cfg limit.toNat!
               else explore al cfg limit.toNat!
      if r.truncated then some ["err", "limit"]
      else match r.bad with
        | some (k, sched) => some (["bad", k, toString r.size, ";"] ++ sched.map toString)
        | none => some ["ok", toString r.size]
  | "c19replay" :: which :: rest =>
    let (scTs, schedTs) := rest.span (· != ";")
    match parseScenario scTs with
    | none => some ["err", "scenario"]
    | some sc =>
      let (P, D) := pick which
      let cfg := mkCfg P D sc
      let tr := replaySchedule cfg ((schedTs.drop 1).map String.toNat!)
      let evs := tr.events.toList.map fun (t, c, e) => s!"{t}.{c}.{excName e}"
      let faults := tr.s.ths.filterMap (·.fault) |>.map faultName
      some ([statusOf cfg tr.s, "|"] ++ evs ++ ["|", showIds "D" tr.s.sh.docs,
        showIds "I" tr.s.sh.idx, showIds "T" tr.s.sh.ttl, "|", if tr.overlap then "1" else "0", "|"]
        ++ faults ++ ["|", if locksFree tr.s then "free" else "held",
                       if tr.excl then "excl" else "noexcl", "|"]
        ++ tr.micro.toList.map toString
        ++ ["|"] ++ tr.removed.toList.map fun (t, c) => s!"{t}.{c}")
  | ["c19proto", which, n, limit] =>
    let (P, _) := pick which
    let r := pexplore P n.toNat! limit.toNat!
    if !r.encodable then some ["err", "state-not-encodable"]
    else if r.truncated then some ["err", "limit"]
    else match r.bad with
      | some (k, sched) =>
        some (["bad", k, toString r.codes.size, ";"] ++ sched.map fun (t, l) => s!"{t}.{labName l}")
      | none =>
        some (["ok", toString r.codes.size] ++ r.codes.toList.map fun bs => toString (packL bs))
  | "c19cfg" :: which :: rest =>
    match parseScenario rest with
    | none => some ["err", "scenario"]
    | some sc =>
      let (P, D) := pick which
      some [leanCfg (mkCfg P D sc)]
  | "c19conf" :: which :: rest =>
    match parseScenario rest with
    | none => some ["err", "scenario"]
    | some sc =>
      let (P, D) := pick which
      let cfg := mkCfg P D sc
      let b (x : Bool) : String := if x then "1" else "0"
      some [b (cfg.conformant P), b cfg.disciplined]
  | "c19code" :: which :: rest =>
    match parseScenario rest with
    | none => some ["err", "scenario"]
    | some sc =>
      let (P, D) := pick which
      some ((mkCfg P D sc).codes.map fun c => toString c.length)
  | _ => none

end Driver.C19

namespace Driver
def handleC19 : List String → Option (List String) := Driver.C19.handle
end Driver
