/-
  Proofs.C12Combine — what `_combine_projection_spec` builds from a collision-free flat
  specification: a tree that represents the set of paths (`Rep`).
-/
import Proofs.C12Sub

namespace MongoModel.Proofs.C12
open MongoModel MongoModel.Spec.Proj

/-- no path is a prefix of (or equal to) another -/
def NoColl (ps : List Path) : Prop := ps.Pairwise (fun p q => ¬ p <+: q ∧ ¬ q <+: p)

/-- the tree `cs` represents the set of paths `ps` -/
inductive Rep : PSpec → List Path → Prop
  | mk (cs : PSpec) (ps : List Path)
      (hnone : ∀ k, tget k cs = none → tailsOf k ps = [])
      (hleaf : ∀ k v, tget k cs = some (.leaf v) → [] ∈ tailsOf k ps)
      (hnode1 : ∀ k sub, tget k cs = some (.node sub) → [] ∉ tailsOf k ps)
      (hnode2 : ∀ k sub, tget k cs = some (.node sub) → tailsOf k ps ≠ [])
      (hnode3 : ∀ k sub, tget k cs = some (.node sub) → Rep sub (tailsOf k ps)) : Rep cs ps

theorem Rep.none_iff {cs : PSpec} {ps : List Path} (h : Rep cs ps) (k : String) :
    tget k cs = none ↔ tailsOf k ps = [] := by
  cases h with
  | mk _ _ hnone hleaf _ hnode2 _ =>
    constructor
    · exact hnone k
    · intro e
      cases ht : tget k cs with
      | none => rfl
      | some t =>
        cases t with
        | leaf v => have := hleaf k v ht; simp [e] at this
        | node sub => exact absurd e (hnode2 k sub ht)

theorem Rep.leaf_iff {cs : PSpec} {ps : List Path} (h : Rep cs ps) (k : String) :
    (∃ v, tget k cs = some (.leaf v)) ↔ [] ∈ tailsOf k ps := by
  cases h with
  | mk _ _ hnone hleaf hnode1 _ _ =>
    constructor
    · rintro ⟨v, hv⟩; exact hleaf k v hv
    · intro e
      cases ht : tget k cs with
      | none => have := hnone k ht; simp [this] at e
      | some t =>
        cases t with
        | leaf v => exact ⟨v, rfl⟩
        | node sub => exact absurd e (hnode1 k sub ht)

theorem Rep.node {cs : PSpec} {ps : List Path} (h : Rep cs ps) {k : String} {sub : PSpec}
    (ht : tget k cs = some (.node sub)) :
    [] ∉ tailsOf k ps ∧ tailsOf k ps ≠ [] ∧ Rep sub (tailsOf k ps) := by
  cases h with
  | mk _ _ _ _ h1 h2 h3 => exact ⟨h1 k sub ht, h2 k sub ht, h3 k sub ht⟩

/-! ### items and their remainders -/

def tailsItems (k : String) (items : Items) : Items :=
  items.filterMap (fun it => match it.1 with
    | h :: t => if h = k then some (t, it.2) else none
    | [] => none)

theorem tailsItems_paths (k : String) (items : Items) :
    (tailsItems k items).map (·.1) = tailsOf k (items.map (·.1)) := by
  induction items with
  | nil => rfl
  | cons it r ih =>
    obtain ⟨p, v⟩ := it
    cases p with
    | nil => simpa [tailsItems, tailsOf] using ih
    | cons h t =>
      by_cases e : h = k
      · simpa [tailsItems, tailsOf, e] using ih
      · simpa [tailsItems, tailsOf, e] using ih

theorem tailsItems_append (k : String) (a b : Items) :
    tailsItems k (a ++ b) = tailsItems k a ++ tailsItems k b := by
  simp [tailsItems, List.filterMap_append]

theorem mem_tailsItems {k : String} {items : Items} {t : List String} {v : Val} :
    (t, v) ∈ tailsItems k items ↔ (k :: t, v) ∈ items := by
  simp only [tailsItems, List.mem_filterMap]
  constructor
  · rintro ⟨⟨p, v'⟩, hm, h⟩
    cases p with
    | nil => simp at h
    | cons h' t' =>
      simp only at h
      split at h
      · next e => cases h; subst e; exact hm
      · cases h
  · intro hm
    exact ⟨(k :: t, v), hm, by simp⟩

theorem tailsItems_single_ne {f k : String} (t : List String) (v : Val) (h : f ≠ k) :
    tailsItems k [(f :: t, v)] = [] := by simp [tailsItems, h]

theorem tailsItems_single_eq (f : String) (t : List String) (v : Val) :
    tailsItems f [(f :: t, v)] = [(t, v)] := by simp [tailsItems]

/-! ### slots -/

theorem sget_sset_same (f : String) (s : Slot) : ∀ acc : Slots, sget f (sset f s acc) = some s
  | [] => by simp [sset, sget]
  | (k', s') :: r => by
    by_cases e : k' = f
    · simp [sset, sget, e]
    · simp [sset, sget, e, sget_sset_same f s r]

theorem sget_sset_other {k f : String} (s : Slot) (hk : k ≠ f) :
    ∀ acc : Slots, sget k (sset f s acc) = sget k acc
  | [] => by simp [sset, sget, Ne.symm hk]
  | (k', s') :: r => by
    by_cases e : k' = f
    · subst e; simp [sset, sget, Ne.symm hk]
    · by_cases e2 : k' = k
      · subst e2; simp [sset, sget, e]
      · simp [sset, sget, e, e2, sget_sset_other s hk r]

theorem sget_append_single (k f : String) (s : Slot) : ∀ acc : Slots,
    sget k (acc ++ [(f, s)]) = (match sget k acc with
      | some x => some x
      | none => if f = k then some s else none)
  | [] => by simp [sget]
  | (k', s') :: r => by
    by_cases e : k' = k
    · simp [sget, e]
    · simp [sget, e, sget_append_single k f s r]

theorem keys_sset (f : String) (s : Slot) : ∀ acc : Slots,
    (sset f s acc).map (·.1) = if (sget f acc).isSome then acc.map (·.1) else acc.map (·.1) ++ [f]
  | [] => by simp [sset, sget]
  | (k', s') :: r => by
    by_cases e : k' = f
    · simp [sset, sget, e]
    · simp only [sset, sget, e, if_false, List.map_cons, keys_sset f s r]
      split <;> simp

theorem sget_none_not_mem {f : String} : ∀ {acc : Slots}, sget f acc = none → f ∉ acc.map (·.1)
  | [], _ => by simp
  | (k', s') :: r, h => by
    simp only [sget] at h
    split at h
    · cases h
    · next e =>
      simp only [List.map_cons, List.mem_cons, not_or]
      exact ⟨fun e' => e e'.symm, sget_none_not_mem h⟩

theorem sget_of_mem {f : String} {s : Slot} : ∀ {acc : Slots},
    (acc.map (·.1)).Nodup → (f, s) ∈ acc → sget f acc = some s
  | [], _, h => by simp at h
  | (k', s') :: r, hn, h => by
    simp only [List.map_cons, List.nodup_cons] at hn
    rcases List.mem_cons.mp h with e | h
    · cases e; simp [sget]
    · have : k' ≠ f := by
        intro e; subst e
        exact hn.1 (List.mem_map.mpr ⟨(k', s), h, rfl⟩)
      simp [sget, this, sget_of_mem hn.2 h]

theorem sget_mem {f : String} {s : Slot} : ∀ {acc : Slots}, sget f acc = some s → (f, s) ∈ acc
  | [], h => by simp [sget] at h
  | (k', s') :: r, h => by
    simp only [sget] at h
    split at h
    · next e => cases h; subst e; simp
    · exact List.mem_cons_of_mem _ (sget_mem h)

/-- the state of the first loop after the items `done` -/
structure Inv (acc : Slots) (done : Items) : Prop where
  nodup : (acc.map (·.1)).Nodup
  none : ∀ k, sget k acc = none → tailsItems k done = []
  leaf : ∀ k v, sget k acc = some (.leaf v) → tailsItems k done = [([], v)]
  sub : ∀ k its, sget k acc = some (.sub its) →
    its = tailsItems k done ∧ its ≠ [] ∧ ∀ it ∈ its, it.1 ≠ []

theorem inv_nil : Inv [] [] :=
  ⟨by simp, fun _ _ => rfl, fun _ _ h => by simp [sget] at h, fun _ _ h => by simp [sget] at h⟩

theorem nodup_sset {f : String} {s : Slot} {acc : Slots} (h : (acc.map (·.1)).Nodup) :
    ((sset f s acc).map (·.1)).Nodup := by
  rw [keys_sset]
  split
  · exact h
  · next hs =>
    have : sget f acc = none := by
      cases hx : sget f acc with
      | none => rfl
      | some _ => simp [hx] at hs
    exact List.nodup_append.mpr ⟨h, by simp, by
      intro a ha b hb; simp at hb; subst hb
      exact fun e => sget_none_not_mem this (e ▸ ha)⟩

theorem step_inv {agg : Bool} {acc : Slots} {done : Items} {p : List String} {v : Val}
    (hI : Inv acc done) (hp : p ≠ [])
    (hc : ∀ q ∈ done.map (·.1), ¬ p <+: q ∧ ¬ q <+: p) :
    ∃ acc', combineStep agg acc (p, v) = .ok acc' ∧ Inv acc' (done ++ [(p, v)]) := by
  cases p with
  | nil => exact absurd rfl hp
  | cons f r =>
    cases r with
    | nil =>
      -- a plain key: nothing with this head may have been seen
      have hempty : tailsItems f done = [] := by
        apply List.eq_nil_iff_forall_not_mem.mpr
        rintro ⟨t, w⟩ hm
        have hm' := mem_tailsItems.mp hm
        have := (hc (f :: t) (List.mem_map.mpr ⟨_, hm', rfl⟩)).1
        exact this (by simp)
      have hnone : sget f acc = none := by
        cases hs : sget f acc with
        | none => rfl
        | some s =>
          cases s with
          | leaf v' => have := hI.leaf f v' hs; simp [hempty] at this
          | sub its => have := hI.sub f its hs; exact absurd (this.1.trans hempty) this.2.1
      refine ⟨sset f (.leaf v) acc, by simp [combineStep, hnone], ?_⟩
      refine ⟨nodup_sset hI.nodup, ?_, ?_, ?_⟩
      · intro k hk
        by_cases e : k = f
        · subst e; simp [sget_sset_same] at hk
        · rw [sget_sset_other _ e] at hk
          rw [tailsItems_append, hI.none k hk, tailsItems_single_ne _ _ (Ne.symm e)]; rfl
      · intro k v' hk
        by_cases e : k = f
        · subst e
          rw [sget_sset_same] at hk; cases hk
          rw [tailsItems_append, hempty, tailsItems_single_eq]; rfl
        · rw [sget_sset_other _ e] at hk
          rw [tailsItems_append, hI.leaf k v' hk, tailsItems_single_ne _ _ (Ne.symm e)]; rfl
      · intro k its hk
        by_cases e : k = f
        · subst e; rw [sget_sset_same] at hk; cases hk
        · rw [sget_sset_other _ e] at hk
          have := hI.sub k its hk
          refine ⟨?_, this.2⟩
          rw [tailsItems_append, ← this.1, tailsItems_single_ne _ _ (Ne.symm e)]; simp
    | cons g r =>
      -- a dotted key: the bare base field may not have been seen
      have hnoleaf : ∀ w, ([], w) ∉ tailsItems f done := by
        intro w hm
        have hm' := mem_tailsItems.mp hm
        have := (hc [f] (List.mem_map.mpr ⟨_, hm', rfl⟩)).2
        exact this (by simp)
      have hnew : tailsItems f [(f :: g :: r, v)] = [(g :: r, v)] := by simp [tailsItems]
      cases hs : sget f acc with
      | none =>
        refine ⟨acc ++ [(f, .sub [(g :: r, v)])], by simp [combineStep, hs], ?_⟩
        have hkeys : ((acc ++ [(f, Slot.sub [(g :: r, v)])]).map (·.1)).Nodup := by
          simp only [List.map_append, List.map_cons, List.map_nil]
          exact List.nodup_append.mpr ⟨hI.nodup, by simp, by
            intro a ha b hb; simp at hb; subst hb
            exact fun e => sget_none_not_mem hs (e ▸ ha)⟩
        refine ⟨hkeys, ?_, ?_, ?_⟩
        · intro k hk
          rw [sget_append_single] at hk
          cases hx : sget k acc with
          | some x => simp [hx] at hk
          | none =>
            simp only [hx] at hk
            split at hk
            · cases hk
            · next e => rw [tailsItems_append, hI.none k hx, tailsItems_single_ne _ _ e]; rfl
        · intro k v' hk
          rw [sget_append_single] at hk
          cases hx : sget k acc with
          | some x =>
            simp only [hx] at hk; cases hk
            have e : f ≠ k := by intro e; subst e; simp [hs] at hx
            rw [tailsItems_append, hI.leaf k v' hx, tailsItems_single_ne _ _ e]; rfl
          | none =>
            simp only [hx] at hk
            split at hk <;> cases hk
        · intro k its hk
          rw [sget_append_single] at hk
          cases hx : sget k acc with
          | some x =>
            simp only [hx] at hk; cases hk
            have e : f ≠ k := by intro e; subst e; simp [hs] at hx
            have := hI.sub k its hx
            refine ⟨?_, this.2⟩
            rw [tailsItems_append, ← this.1, tailsItems_single_ne _ _ e]; simp
          | none =>
            simp only [hx] at hk
            split at hk
            · next e =>
              cases hk; subst e
              refine ⟨?_, by simp, by simp⟩
              rw [tailsItems_append, hI.none f hx, hnew]; rfl
            · cases hk
      | some s =>
        cases s with
        | leaf v' =>
          have := hI.leaf f v' hs
          exact absurd (this ▸ List.mem_singleton.mpr rfl) (hnoleaf v')
        | sub its =>
          have hsub := hI.sub f its hs
          refine ⟨sset f (.sub (its ++ [(g :: r, v)])) acc, by simp [combineStep, hs], ?_⟩
          refine ⟨nodup_sset hI.nodup, ?_, ?_, ?_⟩
          · intro k hk
            by_cases e : k = f
            · subst e; simp [sget_sset_same] at hk
            · rw [sget_sset_other _ e] at hk
              rw [tailsItems_append, hI.none k hk, tailsItems_single_ne _ _ (Ne.symm e)]; rfl
          · intro k v' hk
            by_cases e : k = f
            · subst e; rw [sget_sset_same] at hk; cases hk
            · rw [sget_sset_other _ e] at hk
              rw [tailsItems_append, hI.leaf k v' hk, tailsItems_single_ne _ _ (Ne.symm e)]; rfl
          · intro k its' hk
            by_cases e : k = f
            · subst e
              rw [sget_sset_same] at hk; cases hk
              refine ⟨by rw [tailsItems_append, ← hsub.1, hnew], by simp, ?_⟩
              intro it hit
              rcases List.mem_append.mp hit with h | h
              · exact hsub.2.2 it h
              · simp at h; subst h; simp
            · rw [sget_sset_other _ e] at hk
              have := hI.sub k its' hk
              refine ⟨?_, this.2⟩
              rw [tailsItems_append, ← this.1, tailsItems_single_ne _ _ (Ne.symm e)]; simp

/-! ### the first loop, the second loop, the whole -/

theorem loop_inv (agg : Bool) : ∀ (rest : Items) (acc : Slots) (done : Items), Inv acc done →
    (∀ it ∈ rest, it.1 ≠ []) → NoColl ((done ++ rest).map (·.1)) →
    ∃ acc', combineLoop agg acc rest = .ok acc' ∧ Inv acc' (done ++ rest)
  | [], acc, done, hI, _, _ => ⟨acc, rfl, by simpa using hI⟩
  | (p, v) :: rest, acc, done, hI, hne, hc => by
    have hc' : ∀ q ∈ done.map (·.1), ¬ p <+: q ∧ ¬ q <+: p := by
      unfold NoColl at hc
      rw [List.map_append, List.pairwise_append] at hc
      intro q hq
      have := hc.2.2 q hq p (by simp)
      exact ⟨this.2, this.1⟩
    obtain ⟨acc1, h1, hI1⟩ := step_inv (agg := agg) (v := v) hI (hne (p, v) (by simp)) hc'
    obtain ⟨acc', h2, hI2⟩ := loop_inv agg rest acc1 (done ++ [(p, v)]) hI1
      (fun it h => hne it (by simp [h])) (by simpa using hc)
    exact ⟨acc', by simp [combineLoop, h1, bind, Except.bind, h2], by simpa using hI2⟩

theorem finish_ok (rec : Items → R PSpec) : ∀ slots : Slots,
    (∀ f its, (f, Slot.sub its) ∈ slots → ∃ s, rec its = .ok s) →
    ∃ cs, finishSlots rec slots = .ok cs ∧
      (∀ k, sget k slots = none → tget k cs = none) ∧
      (∀ k v, sget k slots = some (.leaf v) → tget k cs = some (.leaf v)) ∧
      (∀ k its, sget k slots = some (.sub its) →
        ∃ s, rec its = .ok s ∧ tget k cs = some (.node s))
  | [], _ => ⟨[], rfl, fun _ _ => rfl, fun _ _ h => by simp [sget] at h,
      fun _ _ h => by simp [sget] at h⟩
  | (f, .leaf v) :: r, h => by
    obtain ⟨cs, h0, h1, h2, h3⟩ := finish_ok rec r (fun f' its hm => h f' its (by simp [hm]))
    refine ⟨(f, .leaf v) :: cs, by simp [finishSlots, h0, bind, Except.bind, pure, Except.pure],
      ?_, ?_, ?_⟩
    · intro k hk
      simp only [sget] at hk
      split at hk
      · cases hk
      · next e => simp [tget, e, h1 k hk]
    · intro k v' hk
      simp only [sget] at hk
      split at hk
      · next e => cases hk; simp [tget, e]
      · next e => simp [tget, e, h2 k v' hk]
    · intro k its hk
      simp only [sget] at hk
      split at hk
      · cases hk
      · next e => simpa [tget, e] using h3 k its hk
  | (f, .sub its0) :: r, h => by
    obtain ⟨cs, h0, h1, h2, h3⟩ := finish_ok rec r (fun f' its hm => h f' its (by simp [hm]))
    obtain ⟨s0, hs0⟩ := h f its0 (by simp)
    refine ⟨(f, .node s0) :: cs,
      by simp [finishSlots, hs0, h0, bind, Except.bind, pure, Except.pure], ?_, ?_, ?_⟩
    · intro k hk
      simp only [sget] at hk
      split at hk
      · cases hk
      · next e => simp [tget, e, h1 k hk]
    · intro k v' hk
      simp only [sget] at hk
      split at hk
      · cases hk
      · next e => simp [tget, e, h2 k v' hk]
    · intro k its hk
      simp only [sget] at hk
      split at hk
      · next e => cases hk; exact ⟨s0, hs0, by simp [tget, e]⟩
      · next e => simpa [tget, e] using h3 k its hk

theorem le_maxLen : ∀ {items : Items} {it : List String × Val}, it ∈ items →
    it.1.length ≤ maxLen items
  | (p, v) :: r, it, h => by
    rcases List.mem_cons.mp h with e | h
    · subst e; simp [maxLen]; omega
    · have := le_maxLen h; simp [maxLen]; omega

theorem maxLen_le {n : Nat} : ∀ {items : Items}, (∀ it ∈ items, it.1.length ≤ n) →
    maxLen items ≤ n
  | [], _ => by simp [maxLen]
  | (p, v) :: r, h => by
    have h1 := h (p, v) (by simp)
    have h2 := maxLen_le (items := r) (fun it hm => h it (by simp [hm]))
    simp [maxLen]; simp at h1; omega

theorem noColl_tailsOf {ps : List Path} (k : String) (h : NoColl ps) : NoColl (tailsOf k ps) := by
  unfold NoColl tailsOf at *
  rw [List.pairwise_filterMap]
  refine h.imp ?_
  intro p q hpq b hb b' hb'
  cases p with
  | nil => simp at hb
  | cons hp tp =>
    cases q with
    | nil => simp at hb'
    | cons hq tq =>
      simp only at hb hb'
      split at hb
      · next e1 =>
        split at hb'
        · next e2 =>
          cases hb; cases hb'; subst e1; subst e2
          exact ⟨fun hh => hpq.1 (by simpa using hh), fun hh => hpq.2 (by simpa using hh)⟩
        · cases hb'
      · cases hb

/-- **what `_combine_projection_spec` builds**: on a collision-free specification it succeeds
    and the tree represents exactly the given set of paths -/
theorem combine_rep (agg : Bool) : ∀ (n : Nat) (items : Items), maxLen items ≤ n →
    (∀ it ∈ items, it.1 ≠ []) → NoColl (items.map (·.1)) →
    ∃ cs, combine agg (n + 1) items = .ok cs ∧ Rep cs (items.map (·.1)) := by
  intro n
  induction n using Nat.strongRecOn with
  | ind n ih =>
    intro items hlen hne hc
    obtain ⟨slots, hloop, hI⟩ := loop_inv agg items [] [] inv_nil hne (by simpa using hc)
    simp only [List.nil_append] at hI
    -- every collected group is a smaller, collision-free specification
    have hgroup : ∀ f its, (f, Slot.sub its) ∈ slots →
        ∃ m, n = m + 1 ∧ maxLen its ≤ m ∧ (∀ it ∈ its, it.1 ≠ []) ∧
          NoColl (its.map (·.1)) ∧ its = tailsItems f items := by
      intro f its hm
      have hs := sget_of_mem hI.nodup hm
      obtain ⟨he, hne', hall⟩ := hI.sub f its hs
      have hbound : ∀ it ∈ its, it.1.length + 1 ≤ n := by
        intro it hit
        obtain ⟨t, v⟩ := it
        rw [he] at hit
        have := le_maxLen (mem_tailsItems.mp hit)
        simp at this ⊢; omega
      obtain ⟨it0, hit0⟩ := List.exists_mem_of_ne_nil _ hne'
      have h0 := hbound it0 hit0
      have h0' : it0.1.length ≠ 0 := by
        intro e; exact hall it0 hit0 (List.length_eq_zero_iff.mp e)
      refine ⟨n - 1, by omega, maxLen_le (fun it hit => by have := hbound it hit; omega), hall,
        ?_, he⟩
      rw [he, tailsItems_paths]
      exact noColl_tailsOf f hc
    obtain ⟨cs, hfin, h1, h2, h3⟩ := finish_ok (combine agg n) slots (by
      intro f its hm
      obtain ⟨m, hn, hl, hne', hc', _⟩ := hgroup f its hm
      subst hn
      obtain ⟨s, hs, _⟩ := ih m (by omega) its hl hne' hc'
      exact ⟨s, hs⟩)
    refine ⟨cs, by simp [combine, hloop, bind, Except.bind, hfin], ?_⟩
    have hnodeCase : ∀ k sub, tget k cs = some (.node sub) →
        ∃ its s, sget k slots = some (.sub its) ∧ combine agg n its = .ok s ∧
          tget k cs = some (.node s) := by
      intro k sub hk
      cases hs : sget k slots with
      | none => simp [h1 k hs] at hk
      | some s =>
        cases s with
        | leaf v' => simp [h2 k v' hs] at hk
        | sub its =>
          obtain ⟨s, hrec, ht⟩ := h3 k its hs
          exact ⟨its, s, rfl, hrec, ht⟩
    refine Rep.mk _ _ ?_ ?_ ?_ ?_ ?_
    · intro k hk
      cases hs : sget k slots with
      | none => rw [← tailsItems_paths, hI.none k hs]; rfl
      | some s =>
        cases s with
        | leaf v => simp [h2 k v hs] at hk
        | sub its => obtain ⟨s, _, ht⟩ := h3 k its hs; simp [ht] at hk
    · intro k v hk
      cases hs : sget k slots with
      | none => simp [h1 k hs] at hk
      | some s =>
        cases s with
        | leaf v' => rw [← tailsItems_paths, hI.leaf k v' hs]; simp
        | sub its => obtain ⟨s, _, ht⟩ := h3 k its hs; simp [ht] at hk
    · intro k sub hk
      obtain ⟨its, s, hs, _, ht⟩ := hnodeCase k sub hk
      obtain ⟨_, _, hall⟩ := hI.sub k its hs
      rw [← tailsItems_paths, ← (hI.sub k its hs).1]
      intro hm
      obtain ⟨it, hit, e⟩ := List.mem_map.mp hm
      exact hall it hit e
    · intro k sub hk
      obtain ⟨its, s, hs, _, ht⟩ := hnodeCase k sub hk
      obtain ⟨he, hne', _⟩ := hI.sub k its hs
      rw [← tailsItems_paths, ← he]
      intro e
      exact hne' (List.map_eq_nil_iff.mp e)
    · intro k sub hk
      obtain ⟨its, s, hs, hrec, ht⟩ := hnodeCase k sub hk
      rw [ht] at hk; cases hk
      obtain ⟨m, hn, hl, hne', hc', he⟩ := hgroup k its (sget_mem hs)
      subst hn
      obtain ⟨s', hs', hrep⟩ := ih m (by omega) its hl hne' hc'
      rw [hrec] at hs'; cases hs'
      rw [← tailsItems_paths, ← he]
      exact hrep

end MongoModel.Proofs.C12
