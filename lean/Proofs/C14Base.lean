/-
  Proofs.C14Base — collections without TTL indexes: the expiry passes are the identity;
  the single-document update loop (`multi = false`) rewrites the first selected entry only.
-/
import Spec.Single
import Proofs.C10

namespace MongoModel.Proofs.C14Lemmas
open MongoModel MongoModel.Spec
open MongoModel.Proofs.C10Lemmas MongoModel.Proofs.C09Lemmas

/-! ### no TTL index: nothing expires -/

theorem expire_nil (now : Int) (c : Coll) (hn : c.ttlIndexes = []) : expire now c = .ok c := by
  unfold expire; rw [hn]; rfl

theorem iter_nil (now : Int) (c c' : Coll) (f : Val) (ms : List Val) (hn : c.ttlIndexes = [])
    (h : iterDocuments now c f = .ok (c', ms)) : c' = c := by
  unfold iterDocuments at h
  have he := expire_nil now c hn
  simp only [bind, Except.bind, he] at h
  split at h
  · split at h
    · cases h
    · split at h
      · cases h
      · cases h; rfl
  · split at h
    · cases h
    · cases h; rfl

theorem foldUniques_nil (now : Int) (newData : Val) (l : List Index) (c c' : Coll)
    (hn : c.ttlIndexes = [])
    (h : l.foldlM (fun c ix =>
      if !ix.unique then pure c
      else do
        let kwargs ← valuesFor ix.keys newData
        let skip := ix.sparse && kwargs.all isNullCond
        if skip then pure c
        else do
          let filter := match ix.partialFilter with
            | some pfe => Val.doc [("$and", .arr [pfe, .doc kwargs])]
            | none => Val.doc kwargs
          let (c', ms) ← iterDocuments now c filter
          if ms.length > 1 then .error .dupKey else pure c') c = Except.ok c') : c' = c := by
  induction l generalizing c with
  | nil => simp only [List.foldlM_nil, pure, Except.pure] at h; cases h; rfl
  | cons ix l ih =>
    rw [List.foldlM_cons] at h
    simp only [bind, Except.bind] at h
    split at h
    · cases h
    · rename_i cm hcm
      have hcm' : cm = c := by
        split at hcm
        · cases hcm; rfl
        · split at hcm
          · cases hcm
          · split at hcm
            · cases hcm; rfl
            · split at hcm
              · cases hcm
              · rename_i r hr
                obtain ⟨c2, ms⟩ := r
                simp only at hcm
                split at hcm
                · cases hcm
                · cases hcm
                  exact iter_nil now c _ _ ms hn hr
      subst hcm'
      exact ih cm hn h

theorem ensure_nil (now : Int) (c c' : Coll) (d : Val) (hn : c.ttlIndexes = [])
    (h : ensureUniques now c d = .ok c') : c' = c :=
  foldUniques_nil now d c.indexes c c' hn h

theorem cleanDoc_nil (now : Int) (d : Val) : CleanDoc now [] d := by
  intro ix hix; cases hix

theorem linv_nil (now : Int) (c : Coll) (hn : c.ttlIndexes = []) (hd : DK c.docs) (hg : GK c.docs)
    (l : List (Val × Val)) (hl : ∀ p ∈ l, p ∈ c.docs) : LInv now [] l c :=
  ⟨hd, hg, hn, fun p hp => ⟨hl p hp, cleanDoc_nil now p.2⟩⟩

/-! ### the loop when nothing matches -/

theorem lookup_mem {c : Coll} {k cur : Val} (h : c.lookup k = some cur) :
    ∃ p ∈ c.docs, p.2 = cur := by
  unfold Coll.lookup at h
  cases hf : c.docs.find? (fun p => pyEq p.1 k) with
  | none => rw [hf] at h; cases h
  | some p =>
    rw [hf] at h
    exact ⟨p, List.mem_of_find?_eq_some hf, by simpa using h⟩

theorem loop_nomatch (now : Int) (spec document nowV : Val) (multi : Bool) (c : Coll)
    (hno : ∀ p ∈ c.docs, filterApplies spec p.2 = .ok false) :
    ∀ (l : List (Val × Val)) (m u : Nat),
      updateLoop now spec document nowV multi l c m u = (c, .ok (m, u)) := by
  intro l
  induction l with
  | nil => intro m u; simp [updateLoop]
  | cons kv rest ih =>
    intro m u
    obtain ⟨key, v⟩ := kv
    unfold updateLoop
    cases hl : c.lookup key with
    | none => exact ih m u
    | some cur =>
      obtain ⟨p, hp, rfl⟩ := lookup_mem hl
      dsimp only
      rw [hno p hp]
      exact ih m u

end MongoModel.Proofs.C14Lemmas
