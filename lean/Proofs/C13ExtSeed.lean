/-
  Proofs.C13ExtSeed — the upsert seed of a plain-equality filter (with or without an `_id`
  added) holds every pair of the filter, hence is matched by it.
-/
import Proofs.C13ExtMatch

set_option linter.unusedVariables false
set_option linter.unusedSimpArgs false

namespace MongoModel.Proofs.C13Ext
open MongoModel MongoModel.Spec MongoModel.Proofs.C13Lemmas

theorem dget_of_mem_nodup {k : String} {v : Val} : ∀ {fs : Fields}, (dkeys fs).Nodup → (k, v) ∈ fs →
    dget k fs = some v
  | [], _, hm => by cases hm
  | (k', v') :: r, hn, hm => by
    simp only [dkeys, List.map_cons, List.nodup_cons] at hn
    rcases List.mem_cons.1 hm with e | hm
    · cases e; simp [dget]
    · have : k' ≠ k := by
        intro e; subst e
        exact hn.1 (List.mem_map.2 ⟨(k', v), hm, rfl⟩)
      simp only [dget, this, if_false]
      exact dget_of_mem_nodup hn.2 hm

theorem holdsAll_self (ss : Fields) (hd : (dkeys ss).Nodup) : HoldsAll ss ss :=
  fun kv hm => dget_of_mem_nodup hd hm

theorem dget_none_of_not_mem {k : String} : ∀ {fs : Fields}, k ∉ dkeys fs → dget k fs = none
  | [], _ => rfl
  | (k', v') :: r, h => by
    simp only [dkeys, List.map_cons, List.mem_cons, not_or] at h
    have hne : ¬ k' = k := fun e => h.1 e.symm
    simp only [dget, hne, if_false]
    exact dget_none_of_not_mem h.2

theorem not_mem_of_dget_none {k : String} : ∀ {fs : Fields}, dget k fs = none → k ∉ dkeys fs
  | [], _ => by simp [dkeys]
  | (k', v') :: r, h => by
    by_cases e : k' = k
    · simp [dget, e] at h
    · simp only [dget, e, if_false] at h
      simp only [dkeys, List.map_cons, List.mem_cons, not_or]
      exact ⟨fun e' => e e'.symm, not_mem_of_dget_none h⟩

/-- adding an `_id` the filter does not have: the pairs of the filter stay, the keys stay distinct -/
theorem holdsAll_dset (ss : Fields) (k : String) (x : Val) (hd : (dkeys ss).Nodup)
    (hn : dget k ss = none) :
    HoldsAll ss (dset k x ss) ∧ (dkeys (dset k x ss)).Nodup := by
  have hnm := not_mem_of_dget_none hn
  rw [dset_fresh k x ss hnm]
  constructor
  · intro kv hm
    have hne : kv.1 ≠ k := by
      intro e; exact hnm (e ▸ List.mem_map.2 ⟨kv, hm, rfl⟩)
    have : dget kv.1 (ss ++ [(k, x)]) = dget kv.1 ss := by
      rw [← dset_fresh k x ss hnm, dget_dset_other kv.1 k x (Ne.symm hne)]
    rw [this]; exact dget_of_mem_nodup hd hm
  · simp only [dkeys, List.map_append, List.map_cons, List.map_nil]
    exact List.nodup_append.2 ⟨hd, by simp, fun a ha b hb => by
      simp only [List.mem_singleton] at hb; subst hb; intro e; subst e; exact hnm ha⟩

/-- setting a key to the value it already has changes nothing -/
theorem dset_same {k : String} {v : Val} : ∀ {fs : Fields}, dget k fs = some v → dset k v fs = fs
  | [], h => by simp [dget] at h
  | (k', v') :: r, h => by
    by_cases e : k' = k
    · subst e; simp only [dget, if_true, Option.some.injEq] at h; subst h; simp [dset]
    · simp only [dget, e, if_false] at h
      simp only [dset, e, if_false]; rw [dset_same h]

/-- the seed of a filter without operator keys is the document `keep ss []` -/
theorem seed_is_keep (ss : Fields) (hp : ∀ kv ∈ ss, kv.1.startsWith "$" = false) :
    (discardOps (.doc ss)).1 = .doc (keep ss []) := by
  rw [discardOps]
  cases ss with
  | nil => rfl
  | cons p r =>
    simp only [List.isEmpty_cons, Bool.false_eq_true, if_false]
    rw [discardFields_plain _ _ hp]

/-- the seed built from `ss'` holds every scalar pair `ss'` holds -/
theorem seed_holds (ss ss' : Fields) (hk : plainEqualities ss = true)
    (hp : ∀ kv ∈ ss', kv.1.startsWith "$" = false) (hd : (dkeys ss').Nodup)
    (hs : HoldsAll ss ss') :
    (discardOps (.doc ss')).1 = .doc (keep ss' []) ∧ HoldsAll ss (keep ss' []) := by
  refine ⟨seed_is_keep ss' hp, ?_⟩
  intro kv hm
  obtain ⟨_, _, h4⟩ := plainEq_entry hk hm
  rw [dget_keep kv.1 kv.2 ss' [] hd (hs kv hm), discardOps_scalar kv.2 h4]; rfl

theorem plainEq_nodollar {ss : Fields} (hk : plainEqualities ss = true) :
    ∀ kv ∈ ss, kv.1.startsWith "$" = false :=
  fun kv hm => (plainEq_entry hk hm).2.1

theorem plainEq_nodot {ss : Fields} (hk : plainEqualities ss = true) :
    ∀ kv ∈ ss, kv.1.toList.contains '.' = false :=
  fun kv hm => (plainEq_entry hk hm).1

theorem nodollar_dset (ss : Fields) (k : String) (x : Val) (hk : k.startsWith "$" = false)
    (hp : ∀ kv ∈ ss, kv.1.startsWith "$" = false) :
    ∀ kv ∈ dset k x ss, kv.1.startsWith "$" = false := by
  induction ss with
  | nil => intro kv hm; simp only [dset, List.mem_singleton] at hm; subst hm; exact hk
  | cons p r ih =>
    obtain ⟨k', v'⟩ := p
    intro kv hm
    simp only [dset] at hm
    split at hm
    · rcases List.mem_cons.1 hm with e | hm
      · subst e; exact hk
      · exact hp kv (List.mem_cons_of_mem _ hm)
    · rcases List.mem_cons.1 hm with e | hm
      · subst e; exact hp _ (List.mem_cons_self ..)
      · exact ih (fun kv h => hp kv (List.mem_cons_of_mem _ h)) kv hm

theorem nodot_dset (ss : Fields) (k : String) (x : Val) (hk : k.toList.contains '.' = false)
    (hp : ∀ kv ∈ ss, kv.1.toList.contains '.' = false) :
    ∀ kv ∈ dset k x ss, kv.1.toList.contains '.' = false := by
  induction ss with
  | nil => intro kv hm; simp only [dset, List.mem_singleton] at hm; subst hm; exact hk
  | cons p r ih =>
    obtain ⟨k', v'⟩ := p
    intro kv hm
    simp only [dset] at hm
    split at hm
    · rcases List.mem_cons.1 hm with e | hm
      · subst e; exact hk
      · exact hp kv (List.mem_cons_of_mem _ hm)
    · rcases List.mem_cons.1 hm with e | hm
      · subst e; exact hp _ (List.mem_cons_self ..)
      · exact ih (fun kv h => hp kv (List.mem_cons_of_mem _ h)) kv hm

theorem id_nodollar : ("_id" : String).startsWith "$" = false := by decide +kernel
theorem id_nodot : ("_id" : String).toList.contains '.' = false := by decide +kernel

/-- the seed of a plain-equality filter, whatever `_id` is chosen (the filter's own when it has
    one): the upsert seed exists and holds every pair of the filter -/
theorem seed_any_id (ss : Fields) (hk : plainEqualities ss = true) (hd : (dkeys ss).Nodup)
    (idv : Val) (hid : ∀ v, dget "_id" ss = some v → idv = v) :
    ∃ sf, upsertSeed ss idv = .ok (.doc sf) ∧ HoldsAll ss sf := by
  have hplain : ∀ kv ∈ dset "_id" idv ss,
      kv.1.toList.contains '.' = false ∧ kv.1.startsWith "$" = false := fun kv hm =>
    ⟨nodot_dset ss _ _ id_nodot (plainEq_nodot hk) kv hm,
     nodollar_dset ss _ _ id_nodollar (plainEq_nodollar hk) kv hm⟩
  refine ⟨_, upsertSeed_plain ss idv hplain, ?_⟩
  cases hg : dget "_id" ss with
  | some v =>
    rw [hid v hg, dset_same hg]
    exact (seed_holds ss ss hk (plainEq_nodollar hk) hd (holdsAll_self ss hd)).2
  | none =>
    obtain ⟨ha, hb⟩ := holdsAll_dset ss "_id" idv hd hg
    exact (seed_holds ss _ hk (nodollar_dset ss _ _ id_nodollar (plainEq_nodollar hk)) hb ha).2

/-- **the seed satisfies the filter**: for a filter of plain equality conditions with distinct
    keys (the empty field name included), whatever `_id` the upsert chooses — the filter's own, or
    any value when the filter has none — the seed is built without error and is matched by the
    filter -/
theorem seed_matches_filter (ss : Fields) (hk : plainEqualities ss = true) (hd : (dkeys ss).Nodup)
    (idv : Val) (hid : ∀ v, dget "_id" ss = some v → idv = v) :
    ∃ sf, upsertSeed ss idv = .ok (.doc sf) ∧ HoldsAll ss sf ∧
      filterApplies (.doc ss) (.doc sf) = .ok true := by
  obtain ⟨sf, h1, h2⟩ := seed_any_id ss hk hd idv hid
  exact ⟨sf, h1, h2, holds_matches ss sf hk h2⟩

end MongoModel.Proofs.C13Ext
