/-
  Proofs.C07 — the separation invariant is preserved by every covered step, hence by every
  history of covered steps; what separation buys (mutating held objects never reaches the store,
  an in-place edit of one stored document never shows in another); arguments stay as they were.
-/
import Proofs.C07Step

set_option linter.unusedSimpArgs false
set_option linter.unusedVariables false

namespace MongoModel.Proofs.C07
open MongoModel MongoModel.Heap

/-! ### the invariant in counting form -/

structure InvC (w : World) : Prop where
  nodup : ∀ a, cntL a w.store ≤ 1
  disj : ∀ a, 0 < cntL a w.store → cntL a w.held = 0
  cheld : ∀ a, 0 < cntL a w.cache → cntL a w.held = 0
  cstore : ∀ a, 0 < cntL a w.cache → cntL a w.store = 0
  bstore : ∀ a, 0 < cntL a w.store → a < w.next
  bheld : ∀ a, 0 < cntL a w.held → a < w.next
  bcache : ∀ a, 0 < cntL a w.cache → a < w.next

theorem invC_iff (w : World) : (Sep w ∧ Bounded w) ↔ InvC w := by
  constructor
  · rintro ⟨⟨h1, h2, h5⟩, ⟨h3, h4, h6⟩⟩
    refine ⟨?_, ?_, ?_, ?_, ?_, ?_, ?_⟩
    · exact List.nodup_iff_count.mp h1
    · intro a ha
      have := h2 a ((mem_idsL_iff a _).mpr ha)
      rw [mem_idsL_iff] at this; omega
    · intro a ha
      have := (h5 a ((mem_idsL_iff a _).mpr ha)).1
      rw [mem_idsL_iff] at this; omega
    · intro a ha
      have := (h5 a ((mem_idsL_iff a _).mpr ha)).2
      rw [mem_idsL_iff] at this; omega
    · intro a ha; exact h3 a ((mem_idsL_iff a _).mpr ha)
    · intro a ha; exact h4 a ((mem_idsL_iff a _).mpr ha)
    · intro a ha; exact h6 a ((mem_idsL_iff a _).mpr ha)
  · intro h
    refine ⟨⟨List.nodup_iff_count.mpr h.nodup, ?_, ?_⟩, ⟨?_, ?_, ?_⟩⟩
    · intro a ha hb
      have := h.disj a ((mem_idsL_iff a _).mp ha)
      rw [mem_idsL_iff] at hb; omega
    · intro a ha
      have h1 := h.cheld a ((mem_idsL_iff a _).mp ha)
      have h2 := h.cstore a ((mem_idsL_iff a _).mp ha)
      refine ⟨?_, ?_⟩
      · intro hb; rw [mem_idsL_iff] at hb; omega
      · intro hb; rw [mem_idsL_iff] at hb; omega
    · intro a ha; exact h.bstore a ((mem_idsL_iff a _).mp ha)
    · intro a ha; exact h.bheld a ((mem_idsL_iff a _).mp ha)
    · intro a ha; exact h.bcache a ((mem_idsL_iff a _).mp ha)

/-- a store that grew by fresh identities only keeps the invariant (held part and cache unchanged
    or grown by identities that are fresh, or already held / cached; a fresh identity goes to one
    of the three only) -/
theorem invC_of_growth (w : World) (st hd ch : List HVal) (n' : Nat) (h : InvC w)
    (hn : w.next ≤ n')
    (hst : ∀ a, cntL a st ≤ cntL a w.store + ind w.next n' a)
    (hhd : ∀ a, 0 < cntL a hd → 0 < cntL a w.held ∨ (w.next ≤ a ∧ a < n'))
    (hch : ∀ a, 0 < cntL a ch → 0 < cntL a w.cache ∨ (w.next ≤ a ∧ a < n'))
    (hsep : ∀ a, w.next ≤ a → 0 < cntL a st → cntL a hd = 0)
    (hsepCH : ∀ a, w.next ≤ a → 0 < cntL a ch → cntL a hd = 0)
    (hsepCS : ∀ a, w.next ≤ a → 0 < cntL a ch → cntL a st = 0) :
    InvC ⟨st, hd, ch, n'⟩ := by
  have hold : ∀ a, w.next ≤ a → cntL a w.store = 0 := by
    intro a ha
    rcases Nat.eq_zero_or_pos (cntL a w.store) with h0 | h0
    · exact h0
    · have := h.bstore a h0; omega
  have hcold : ∀ a, a < w.next → 0 < cntL a ch → 0 < cntL a w.cache := by
    intro a ha hc
    rcases hch a hc with h1 | h1
    · exact h1
    · omega
  refine ⟨?_, ?_, ?_, ?_, ?_, ?_, ?_⟩
  · intro a
    show cntL a st ≤ 1
    have := hst a
    have := h.nodup a
    have := ind_le_one w.next n' a
    by_cases hlt : a < w.next
    · rw [ind_of_lt hlt] at *; omega
    · have := hold a (by omega); omega
  · intro a ha
    show cntL a hd = 0
    have ha : 0 < cntL a st := ha
    by_cases hlt : a < w.next
    · have h1 := hst a
      rw [ind_of_lt hlt] at h1
      have h2 := h.disj a (by omega)
      rcases Nat.eq_zero_or_pos (cntL a hd) with h0 | h0
      · exact h0
      · rcases hhd a h0 with h3 | h3 <;> omega
    · exact hsep a (by omega) ha
  · intro a ha
    show cntL a hd = 0
    have ha : 0 < cntL a ch := ha
    by_cases hlt : a < w.next
    · have h2 := h.cheld a (hcold a hlt ha)
      rcases Nat.eq_zero_or_pos (cntL a hd) with h0 | h0
      · exact h0
      · rcases hhd a h0 with h3 | h3 <;> omega
    · exact hsepCH a (by omega) ha
  · intro a ha
    show cntL a st = 0
    have ha : 0 < cntL a ch := ha
    by_cases hlt : a < w.next
    · have h2 := h.cstore a (hcold a hlt ha)
      have h1 := hst a
      rw [ind_of_lt hlt] at h1
      omega
    · exact hsepCS a (by omega) ha
  · intro a ha
    show a < n'
    have ha : 0 < cntL a st := ha
    have h1 := hst a
    by_cases hlt : a < w.next
    · omega
    · have := hold a (by omega)
      have := ind_pos (lo := w.next) (hi := n') (a := a) (by omega)
      omega
  · intro a ha
    show a < n'
    have ha : 0 < cntL a hd := ha
    rcases hhd a ha with h3 | h3
    · have := h.bheld a h3; omega
    · omega
  · intro a ha
    show a < n'
    have ha : 0 < cntL a ch := ha
    rcases hch a ha with h3 | h3
    · have := h.bcache a h3; omega
    · omega

/-! ### each kind of step -/

theorem le_foldl_max : ∀ (l : List Nat) (m a : Nat), (a ∈ l ∨ a ≤ m) → a ≤ l.foldl max m := by
  intro l
  induction l with
  | nil =>
    intro m a h
    rcases h with h | h
    · simp at h
    · simpa using h
  | cons x r ih =>
    intro m a h
    simp only [List.foldl_cons]
    apply ih
    rcases h with h | h
    · rcases List.mem_cons.mp h with e | e
      · right; subst e; exact Nat.le_max_right _ _
      · left; exact e
    · right; exact Nat.le_trans h (Nat.le_max_left _ _)

theorem step_pass (T : Table) (w : World) (args : List HVal) (h : InvC w)
    (hs : (Step.pass args).safe T w = true) : InvC (step T w (.pass args)) := by
  simp only [Step.safe, List.all_eq_true, Bool.or_eq_true, List.contains_iff_mem,
    decide_eq_true_eq] at hs
  have hargs : ∀ a, 0 < cntL a args → 0 < cntL a w.held ∨ w.next ≤ a := by
    intro a ha
    rcases hs a ((mem_idsL_iff a _).mpr ha) with h1 | h1
    · left; exact (mem_idsL_iff a _).mp h1
    · right; exact h1
  have hmax : ∀ a, 0 < cntL a args → a < maxIdL args + 1 := by
    intro a ha
    have := le_foldl_max (idsL args) 0 a (Or.inl ((mem_idsL_iff a _).mpr ha))
    unfold maxIdL; omega
  simp only [step]
  refine ⟨h.nodup, ?_, ?_, h.cstore, ?_, ?_, ?_⟩
  · intro a ha
    show cntL a (w.held ++ args) = 0
    have ha : 0 < cntL a w.store := ha
    rw [cntL_append]
    have h1 := h.disj a ha
    have h2 := h.bstore a ha
    rcases Nat.eq_zero_or_pos (cntL a args) with h0 | h0
    · omega
    · rcases hargs a h0 with h3 | h3 <;> omega
  · intro a ha
    show cntL a (w.held ++ args) = 0
    have ha : 0 < cntL a w.cache := ha
    rw [cntL_append]
    have h1 := h.cheld a ha
    have h2 := h.bcache a ha
    rcases Nat.eq_zero_or_pos (cntL a args) with h0 | h0
    · omega
    · rcases hargs a h0 with h3 | h3 <;> omega
  · intro a ha
    show a < max w.next (maxIdL args + 1)
    have := h.bstore a ha
    have := Nat.le_max_left w.next (maxIdL args + 1)
    omega
  · intro a ha
    show a < max w.next (maxIdL args + 1)
    have ha : 0 < cntL a (w.held ++ args) := ha
    rw [cntL_append] at ha
    by_cases h0 : 0 < cntL a w.held
    · have := h.bheld a h0
      have := Nat.le_max_left w.next (maxIdL args + 1)
      omega
    · have := hmax a (by omega)
      have := Nat.le_max_right w.next (maxIdL args + 1)
      omega
  · intro a ha
    show a < max w.next (maxIdL args + 1)
    have := h.bcache a ha
    have := Nat.le_max_left w.next (maxIdL args + 1)
    omega

theorem step_mutate_scribble (w : World) (id : Nat) (keep : List (Option String))
    (add : List (String × Val)) (h : InvC w) : InvC (w.mutate id (scribbleFn keep add)) := by
  simp only [World.mutate]
  have hs := fun a => scribbleL_sub id keep add a w.store
  have hh := fun a => scribbleL_sub id keep add a w.held
  have hc := fun a => scribbleL_sub id keep add a w.cache
  refine ⟨?_, ?_, ?_, ?_, ?_, ?_, ?_⟩
  · intro a
    show cntL a (mutateL id (scribbleFn keep add) w.store) ≤ 1
    have := hs a; have := h.nodup a; omega
  · intro a ha
    show cntL a (mutateL id (scribbleFn keep add) w.held) = 0
    have ha : 0 < cntL a (mutateL id (scribbleFn keep add) w.store) := ha
    have := hs a; have := hh a
    have := h.disj a (by omega)
    omega
  · intro a ha
    show cntL a (mutateL id (scribbleFn keep add) w.held) = 0
    have ha : 0 < cntL a (mutateL id (scribbleFn keep add) w.cache) := ha
    have := hc a; have := hh a
    have := h.cheld a (by omega)
    omega
  · intro a ha
    show cntL a (mutateL id (scribbleFn keep add) w.store) = 0
    have ha : 0 < cntL a (mutateL id (scribbleFn keep add) w.cache) := ha
    have := hc a; have := hs a
    have := h.cstore a (by omega)
    omega
  · intro a ha
    have ha : 0 < cntL a (mutateL id (scribbleFn keep add) w.store) := ha
    have := hs a
    exact h.bstore a (by omega)
  · intro a ha
    have ha : 0 < cntL a (mutateL id (scribbleFn keep add) w.held) := ha
    have := hh a
    exact h.bheld a (by omega)
  · intro a ha
    have ha : 0 < cntL a (mutateL id (scribbleFn keep add) w.cache) := ha
    have := hc a
    exact h.bcache a (by omega)

theorem step_write (T : Table) (w : World) (temps : List (Pos × Nat × List Nat))
    (edits : List (Nat × NodeEdit)) (newDocs : List (Tpl × Pos)) (deletes : List Nat)
    (h : InvC w) (hs : (Step.write temps edits newDocs deletes).safe T w = true) :
    InvC (step T w (.write temps edits newDocs deletes)) := by
  simp only [Step.safe, Bool.and_eq_true] at hs
  obtain ⟨hs1, hs2⟩ := hs
  simp only [step]
  have hm0 := evalTemps_mono T w.held temps w.next
  obtain ⟨hm1, he⟩ := applyEdits_sub T ⟨w.store, w.held, (evalTemps T w.held temps w.next).1, w.cache⟩
    edits hs1 w.store (evalTemps T w.held temps w.next).2
  obtain ⟨hm2, hn⟩ := evalNewDocs_fresh T ⟨w.store, w.held, (evalTemps T w.held temps w.next).1, w.cache⟩
    newDocs hs2 (applyEdits T ⟨w.store, w.held, (evalTemps T w.held temps w.next).1, w.cache⟩ edits w.store
      (evalTemps T w.held temps w.next).2).2
  apply invC_of_growth w _ _ _ _ h (by omega)
  · intro a
    rw [cntL_append]
    have := dropIdxFrom_sub a deletes (applyEdits T ⟨w.store, w.held, (evalTemps T w.held temps w.next).1, w.cache⟩
      edits w.store (evalTemps T w.held temps w.next).2).1 0
    have := he a
    have := hn a
    have := ind_split a hm1 hm2
    have := ind_mono (lo := (evalTemps T w.held temps w.next).2)
      (hi := (evalNewDocs T ⟨w.store, w.held, (evalTemps T w.held temps w.next).1, w.cache⟩ newDocs
        (applyEdits T ⟨w.store, w.held, (evalTemps T w.held temps w.next).1, w.cache⟩ edits w.store
          (evalTemps T w.held temps w.next).2).2).2)
      (lo' := w.next)
      (hi' := (evalNewDocs T ⟨w.store, w.held, (evalTemps T w.held temps w.next).1, w.cache⟩ newDocs
        (applyEdits T ⟨w.store, w.held, (evalTemps T w.held temps w.next).1, w.cache⟩ edits w.store
          (evalTemps T w.held temps w.next).2).2).2) a hm0 (Nat.le_refl _)
    omega
  · intro a ha; left; exact ha
  · intro a ha; left; exact ha
  · intro a ha _
    rcases Nat.eq_zero_or_pos (cntL a w.held) with h0 | h0
    · exact h0
    · have := h.bheld a h0; omega
  · intro a ha hc
    have := h.bcache a hc; omega
  · intro a ha hc
    have := h.bcache a hc; omega

theorem step_read (T : Table) (w : World) (results : List Tpl) (h : InvC w)
    (hs : (Step.read results).safe T w = true) : InvC (step T w (.read results)) := by
  simp only [Step.safe] at hs
  simp only [step]
  obtain ⟨hm, hr⟩ := evalTpls_detached T ⟨w.store, w.held, [], w.cache⟩ results hs w.next
  apply invC_of_growth w _ _ _ _ h hm
  · intro a; omega
  · intro a ha
    rw [cntL_append] at ha
    by_cases h0 : 0 < cntL a w.held
    · left; exact h0
    · right
      have := hr a (by simpa using (by omega : cntL a w.held = 0))
      exact ind_pos (by omega)
  · intro a ha; left; exact ha
  · intro a ha hst
    have := h.bstore a hst
    omega
  · intro a ha hc
    have := h.bcache a hc; omega
  · intro a ha hc
    have := h.bcache a hc; omega

theorem step_fill (T : Table) (w : World) (results : List Tpl) (h : InvC w)
    (hs : (Step.fill results).safe T w = true) : InvC (step T w (.fill results)) := by
  simp only [Step.safe, List.all_eq_true, Bool.and_eq_true] at hs
  simp only [step]
  obtain ⟨hm, hr⟩ := evalTpls_copied T ⟨w.store, w.held, [], w.cache⟩ results
    (by simp only [List.all_eq_true]; intro t ht; exact (hs t ht).1) w.next
  apply invC_of_growth w _ _ _ _ h hm
  · intro a; omega
  · intro a ha; left; exact ha
  · intro a ha
    rw [cntL_append] at ha
    by_cases h0 : 0 < cntL a w.cache
    · left; exact h0
    · right
      have := hr a
      exact ind_pos (by omega)
  · intro a ha hst
    have := h.bstore a hst
    omega
  · intro a ha _
    rcases Nat.eq_zero_or_pos (cntL a w.held) with h0 | h0
    · exact h0
    · have := h.bheld a h0; omega
  · intro a ha _
    rcases Nat.eq_zero_or_pos (cntL a w.store) with h0 | h0
    · exact h0
    · have := h.bstore a h0; omega

theorem step_inv (T : Table) (w : World) (s : Step) (h : InvC w) (hs : s.safe T w = true) :
    InvC (step T w s) := by
  cases s with
  | pass args => exact step_pass T w args h hs
  | calleeWrite id keep add => simpa [step] using step_mutate_scribble w id keep add h
  | scribble id keep add => simpa [step] using step_mutate_scribble w id keep add h
  | write temps edits newDocs deletes => exact step_write T w temps edits newDocs deletes h hs
  | fill results => exact step_fill T w results h hs
  | read results => exact step_read T w results h hs

theorem run_inv (T : Table) : ∀ (steps : List Step) (w : World), InvC w → safeRun T w steps = true →
    InvC (run T w steps) := by
  intro steps
  induction steps with
  | nil => intro w h _; simpa [run] using h
  | cons s r ih =>
    intro w h hs
    simp only [safeRun, Bool.and_eq_true] at hs
    simp only [run]
    exact ih _ (step_inv T w s h hs.1) hs.2

theorem invC_empty : InvC World.empty := by
  refine ⟨?_, ?_, ?_, ?_, ?_, ?_, ?_⟩ <;> intro a <;> simp [World.empty]

/-! ### what separation buys -/

theorem mutate_held_noop (w : World) (id : Nat) (f : HVal → HVal) (hsep : Sep w)
    (hid : id ∈ idsL w.held) : (w.mutate id f).store = w.store := by
  simp only [World.mutate]
  apply mutateL_absent
  rcases Nat.eq_zero_or_pos (cntL id w.store) with h0 | h0
  · exact h0
  · exact absurd hid (hsep.2.1 id ((mem_idsL_iff id _).mpr h0))

/-- … nor what a cursor has cached -/
theorem mutate_held_keeps_cache (w : World) (id : Nat) (f : HVal → HVal) (hsep : Sep w)
    (hid : id ∈ idsL w.held) : (w.mutate id f).cache = w.cache := by
  simp only [World.mutate]
  apply mutateL_absent
  rcases Nat.eq_zero_or_pos (cntL id w.cache) with h0 | h0
  · exact h0
  · exact absurd hid (hsep.2.2 id ((mem_idsL_iff id _).mpr h0)).1

/-- an in-place edit of a stored document shows neither in what the caller holds nor in what a
    cursor has cached -/
theorem mutate_stored_keeps_rest (w : World) (id : Nat) (f : HVal → HVal) (hsep : Sep w)
    (hid : id ∈ idsL w.store) :
    (w.mutate id f).held = w.held ∧ (w.mutate id f).cache = w.cache := by
  simp only [World.mutate]
  refine ⟨mutateL_absent id f _ ?_, mutateL_absent id f _ ?_⟩
  · rcases Nat.eq_zero_or_pos (cntL id w.held) with h0 | h0
    · exact h0
    · exact absurd ((mem_idsL_iff id _).mpr h0) (hsep.2.1 id hid)
  · rcases Nat.eq_zero_or_pos (cntL id w.cache) with h0 | h0
    · exact h0
    · exact absurd hid (hsep.2.2 id ((mem_idsL_iff id _).mpr h0)).2

theorem mutate_one_doc_only (w : World) (id : Nat) (f : HVal → HVal) (hsep : Sep w)
    (i : Nat) (d : HVal) (hd : w.store[i]? = some d) (hid : id ∈ d.ids) :
    ∀ j, j ≠ i → (w.mutate id f).store[j]? = w.store[j]? := by
  intro j hj
  simp only [World.mutate]
  rw [mutateL_get]
  cases hj' : w.store[j]? with
  | none => simp
  | some d' =>
    simp only [Option.map_some, Option.some.injEq]
    apply (mutate_absent id f).1
    have h1 := cntL_two id w.store i j d d' (Ne.symm hj) hd hj'
    have h2 := List.nodup_iff_count.mp hsep.1 id
    have h3 := (mem_ids_iff id d).mp hid
    unfold cntL at h1
    omega

/-- steps other than the two kinds of in-place writes leave every held object as it was -/
theorem held_prefix (T : Table) (w : World) (s : Step)
    (hs : match s with | .calleeWrite .. => False | .scribble .. => False | _ => True) :
    ∀ (i : Nat) (v : HVal), w.held[i]? = some v → (step T w s).held[i]? = some v := by
  intro i v hv
  cases s with
  | pass args =>
    simp only [step]
    rw [List.getElem?_append_left (List.getElem?_eq_some_iff.mp hv).1]; exact hv
  | calleeWrite => exact absurd hs id
  | scribble => exact absurd hs id
  | write temps edits newDocs deletes => simpa [step] using hv
  | fill results => simpa [step] using hv
  | read results =>
    simp only [step]
    rw [List.getElem?_append_left (List.getElem?_eq_some_iff.mp hv).1]; exact hv

/-- an in-place write into the object with identity `id` leaves every held object that does not
    contain that object as it was -/
theorem calleeWrite_only (T : Table) (w : World) (id : Nat) (keep : List (Option String))
    (add : List (String × Val)) :
    ∀ (i : Nat) (v : HVal), w.held[i]? = some v → id ∉ v.ids →
      (step T w (.calleeWrite id keep add)).held[i]? = some v := by
  intro i v hv hid
  simp only [step, World.mutate]
  rw [mutateL_get, hv]
  simp only [Option.map_some, Option.some.injEq]
  apply (mutate_absent id _).1
  rw [mem_ids_iff] at hid; omega

/-! ### fresh copies -/

theorem fresh_disjoint (p : Prim) (hp : p.deep = true) (v : HVal) (n : Nat) :
    n ≤ (p.run v n).2 ∧ (∀ a, a ∈ (p.run v n).1.ids → n ≤ a ∧ a < (p.run v n).2) ∧
    (p.run v n).1.ids.Nodup ∧ (p.run v n).1.erase = v.erase := by
  refine ⟨run_mono p v n, ?_, ?_, run_erase p v n⟩
  · intro a ha
    rw [mem_ids_iff, run_deep p hp] at ha
    exact ind_pos ha
  · rw [List.nodup_iff_count]
    intro a
    have := run_deep p hp v n a
    have := ind_le_one n (p.run v n).2 a
    unfold cnt at *; omega

theorem fresh_chain (c : List Prim) (hc : chainDeep c = true) (v : HVal) (n : Nat) :
    n ≤ (runChain c v n).2 ∧ (∀ a, a ∈ (runChain c v n).1.ids → n ≤ a ∧ a < (runChain c v n).2) ∧
    (runChain c v n).1.ids.Nodup ∧ (runChain c v n).1.erase = v.erase := by
  refine ⟨chain_mono c v n, ?_, ?_, chain_erase c v n⟩
  · intro a ha
    rw [mem_ids_iff] at ha
    have := chain_deep c hc v n a
    exact ind_pos (by omega)
  · rw [List.nodup_iff_count]
    intro a
    have := chain_deep c hc v n a
    have := ind_le_one n (runChain c v n).2 a
    unfold cnt at *; omega

/-! ### steps that stay within rows that copy -/

theorem within_copied (T : Table) (e : Env) (ps : List Pos)
    (hps : ∀ p, p ∈ ps → chainDeep (T.disc p) = true) :
    (∀ t, Tpl.within ps t = true → Tpl.copied T e t = true) ∧
    (∀ ks, Tpl.withinKids ps ks = true → Tpl.copiedKids T e ks = true) := by
  apply Tpl.ind2
  · intro v _; simp [Tpl.copied]
  · intro pos src h
    simp only [Tpl.within, Bool.and_eq_true, List.contains_iff_mem] at h
    simp [Tpl.copied, hps pos h.1]
  · intro d kids ih h
    simp only [Tpl.within] at h
    simpa [Tpl.copied] using ih h
  · intro _; simp [Tpl.copiedKids]
  · intro k t r iht ihr h
    simp only [Tpl.withinKids, Bool.and_eq_true] at h
    simp [Tpl.copiedKids, iht h.1, ihr h.2]

theorem copied_detached (T : Table) (e : Env) :
    (∀ t, Tpl.copied T e t = true → Tpl.detached T e t = true) ∧
    (∀ ks, Tpl.copiedKids T e ks = true → Tpl.detachedKids T e ks = true) := by
  apply Tpl.ind2
  · intro v _; simp [Tpl.detached]
  · intro pos src h
    simp only [Tpl.copied] at h
    simp [Tpl.detached, h]
  · intro d kids ih h
    simp only [Tpl.copied] at h
    simpa [Tpl.detached] using ih h
  · intro _; simp [Tpl.detachedKids]
  · intro k t r iht ihr h
    simp only [Tpl.copiedKids, Bool.and_eq_true] at h
    simp [Tpl.detachedKids, iht h.1, ihr h.2]

theorem within_safe (T : Table) (ps : List Pos)
    (hps : ∀ p, p ∈ ps → chainDeep (T.disc p) = true)
    (w : World) (s : Step) (hw : s.within ps = true) (hc : s.callerOwns w = true) :
    s.safe T w = true := by
  cases s with
  | pass args => simpa [Step.safe, Step.callerOwns] using hc
  | calleeWrite id keep add => simp [Step.safe]
  | scribble id keep add => simp [Step.safe]
  | write temps edits newDocs deletes =>
    simp only [Step.within, Bool.and_eq_true, List.all_eq_true] at hw
    simp only [Step.safe, Bool.and_eq_true, List.all_eq_true]
    refine ⟨?_, ?_⟩
    · intro ie hie
      exact (within_copied T _ ps hps).2 _ (hw.1 ie hie)
    · intro tp htp
      have h := hw.2 tp htp
      simp only [List.contains_iff_mem] at h
      simp [hps tp.2 h]
  | fill results =>
    simp only [Step.within, Bool.and_eq_true, List.all_eq_true] at hw
    simp only [Step.safe, Bool.and_eq_true, List.all_eq_true]
    intro t ht
    exact ⟨(within_copied T _ ps hps).1 t (hw t ht).1, (hw t ht).2⟩
  | read results =>
    simp only [Step.within, Bool.and_eq_true, List.all_eq_true] at hw
    simp only [Step.safe, Bool.and_eq_true, List.all_eq_true]
    intro t ht
    exact ⟨(copied_detached T _).1 t ((within_copied T _ ps hps).1 t (hw t ht).1), (hw t ht).2⟩

theorem copying_rows (T : Table) (op : Op) (h : op.copying T = true) :
    ∀ p, p ∈ op.rows.filter Pos.final → chainDeep (T.disc p) = true := by
  intro p hp
  simp only [List.mem_filter] at hp
  simp only [Op.copying, List.all_eq_true] at h
  have := h p hp.1
  simp only [Bool.or_eq_true, Bool.not_eq_true'] at this
  rcases this with h1 | h1
  · rw [hp.2] at h1; cases h1
  · exact h1

/-! ### the real table copies at every final position -/

theorem final_rows_copy (tz : Bool) : ∀ p, p ∈ finalPositions →
    chainDeep ((disciplineFor tz).disc p) = true := by cases tz <;> decide

theorem wellFormed_safe (tz : Bool) (w : World) (s : Step) (hw : s.wellFormed = true)
    (hc : s.callerOwns w = true) : s.safe (disciplineFor tz) w = true :=
  within_safe (disciplineFor tz) finalPositions (final_rows_copy tz) w s hw hc

theorem wfRun_safeRun (tz : Bool) : ∀ (steps : List Step) (w : World), wfRun (disciplineFor tz) w steps = true →
    safeRun (disciplineFor tz) w steps = true := by
  intro steps
  induction steps with
  | nil => intro w _; simp [safeRun]
  | cons s r ih =>
    intro w h
    simp only [wfRun, Bool.and_eq_true] at h
    simp only [safeRun, Bool.and_eq_true]
    exact ⟨wellFormed_safe tz w s h.1.1 h.1.2, ih _ h.2⟩

/-! ### what a read hands out -/

theorem evalTpls_one (T : Table) (e : Env) (t : Tpl) (n : Nat) :
    (evalTpls T e [t] n).1 = [(evalTpl T e t n).1] := by
  simp [evalTpls]

/-- under a table that copies at every position of `ps`, the results of a read that stays within
    `ps` consist of fresh identities only, each once -/
theorem read_fresh_of (T : Table) (ps : List Pos) (hps : ∀ p, p ∈ ps → chainDeep (T.disc p) = true)
    (w : World) (results : List Tpl) (hw : (Step.read results).within ps = true) :
    ∃ new, (step T w (.read results)).held = w.held ++ new ∧ (idsL new).Nodup ∧
      ∀ a, a ∈ idsL new → w.next ≤ a ∧ a < (step T w (.read results)).next := by
  simp only [Step.within, List.all_eq_true, Bool.and_eq_true] at hw
  obtain ⟨hm, hr⟩ := evalTpls_copied T ⟨w.store, w.held, [], w.cache⟩ results
    (by simp only [List.all_eq_true]; intro t ht; exact (within_copied T _ ps hps).1 t (hw t ht).1)
    w.next
  refine ⟨(evalTpls T ⟨w.store, w.held, [], w.cache⟩ results w.next).1, by simp [step], ?_, ?_⟩
  · rw [List.nodup_iff_count]
    intro a
    have := hr a
    have := ind_le_one w.next (evalTpls T ⟨w.store, w.held, [], w.cache⟩ results w.next).2 a
    unfold cntL at *; omega
  · intro a ha
    rw [mem_idsL_iff] at ha
    have := hr a
    simp only [step]
    exact ind_pos (by omega)

theorem read_fresh (tz : Bool) (w : World) (results : List Tpl) (hw : (Step.read results).wellFormed = true) :
    ∃ new, (step (disciplineFor tz) w (.read results)).held = w.held ++ new ∧ (idsL new).Nodup ∧
      ∀ a, a ∈ idsL new → w.next ≤ a ∧ a < (step (disciplineFor tz) w (.read results)).next :=
  read_fresh_of (disciplineFor tz) finalPositions (final_rows_copy tz) w results hw

theorem mutateL_append (id : Nat) (f : HVal → HVal) : ∀ (l1 l2 : List HVal),
    mutateL id f (l1 ++ l2) = mutateL id f l1 ++ mutateL id f l2 := by
  intro l1
  induction l1 with
  | nil => intro l2; simp [mutateL]
  | cons v r ih => intro l2; simp [mutateL, ih]

/-- editing an object that a read has just handed out changes nothing else: not the store, not a
    cursor's cache, not any object the caller held before -/
theorem result_private (tz : Bool) (w : World) (hb : Bounded w) (results : List Tpl)
    (hw : (Step.read results).wellFormed = true) (id : Nat) (f : HVal → HVal)
    (hid : id ∈ idsL ((step (disciplineFor tz) w (.read results)).held.drop w.held.length)) :
    ((step (disciplineFor tz) w (.read results)).mutate id f).store = w.store ∧
    ((step (disciplineFor tz) w (.read results)).mutate id f).cache = w.cache ∧
    ((step (disciplineFor tz) w (.read results)).mutate id f).held.take w.held.length = w.held := by
  obtain ⟨new, hnew, _, hfresh⟩ := read_fresh tz w results hw
  rw [hnew, List.drop_left] at hid
  have hge := (hfresh id hid).1
  have absent : ∀ l : List HVal, (∀ a, a ∈ idsL l → a < w.next) → cntL id l = 0 := by
    intro l hl
    rcases Nat.eq_zero_or_pos (cntL id l) with h0 | h0
    · exact h0
    · have := hl id ((mem_idsL_iff id l).mpr h0); omega
  have hst : (step (disciplineFor tz) w (.read results)).store = w.store := by simp [step]
  have hca : (step (disciplineFor tz) w (.read results)).cache = w.cache := by simp [step]
  refine ⟨?_, ?_, ?_⟩
  · simp only [World.mutate, hst]; exact mutateL_absent id f _ (absent _ hb.1)
  · simp only [World.mutate, hca]; exact mutateL_absent id f _ (absent _ hb.2.2)
  · simp only [World.mutate, hnew, mutateL_append, mutateL_absent id f _ (absent _ hb.2.1)]
    simp

/-- what a cursor hands out again does not depend on what the caller did to anything it holds -/
theorem reread_unaffected (tz : Bool) (w : World) (id : Nat) (f : HVal → HVal) (hsep : Sep w)
    (hid : id ∈ idsL w.held) (i : Nat) (p : List Nat) :
    ∃ r, (step (disciplineFor tz) (w.mutate id f) (.read [.piece .cursorOut (.cache i p)])).held
        = (w.mutate id f).held ++ [r] ∧ r.erase = (getAt w.cache i p).erase := by
  refine ⟨_, by simp only [step, evalTpls_one]; rfl, ?_⟩
  simp only [evalTpl, Src.get, chain_erase, mutate_held_keeps_cache w id f hsep hid]


end MongoModel.Proofs.C07
