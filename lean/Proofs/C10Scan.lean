/-
  Proofs.C10Scan — the shared scan `iterDocuments` is `selectDocs` on the expired collection;
  `selectDocs` is a filter.
-/
import Spec.Counts
import Proofs.C09Expire
import Proofs.C18

namespace MongoModel.Proofs.C10Lemmas
open MongoModel MongoModel.Spec
open MongoModel.Proofs.C09Lemmas

/-! ### `filterMapM` against `selectDocs` -/

theorem filterMapM_select (f : Val) (l : List (Val × Val)) :
    l.filterMapM (fun p => do
      let b ← filterApplies f p.2
      pure (if b then some p.2 else none)) = (selectDocs f l).map (·.map (·.2)) := by
  induction l with
  | nil => rfl
  | cons p l ih =>
    rw [List.filterMapM_cons, ih]
    simp only [selectDocs]
    cases filterApplies f p.2 with
    | error e => rfl
    | ok b =>
      cases selectDocs f l with
      | error e => cases b <;> rfl
      | ok more => cases b <;> rfl

/-- the verdict of the matcher as a Boolean (an error counts as "no") -/
def matchB (f : Val) (p : Val × Val) : Bool :=
  match filterApplies f p.2 with
  | .ok true => true
  | _ => false

theorem select_cons (f : Val) (p : Val × Val) (l sel : List (Val × Val))
    (h : selectDocs f (p :: l) = .ok sel) :
    ∃ b more, filterApplies f p.2 = .ok b ∧ selectDocs f l = .ok more ∧
      sel = if b then p :: more else more := by
  simp only [selectDocs] at h
  cases hb : filterApplies f p.2 with
  | error e => rw [hb] at h; cases h
  | ok b =>
    rw [hb] at h
    cases hm : selectDocs f l with
    | error e => rw [hm] at h; cases h
    | ok more =>
      rw [hm] at h
      cases h
      exact ⟨b, more, rfl, rfl, rfl⟩

theorem select_filter (f : Val) (l sel : List (Val × Val)) (h : selectDocs f l = .ok sel) :
    sel = l.filter (matchB f) ∧ ∀ p ∈ l, filterApplies f p.2 = .ok (matchB f p) := by
  induction l generalizing sel with
  | nil => cases h; simp
  | cons p l ih =>
    obtain ⟨b, more, hb, hm, rfl⟩ := select_cons f p l sel h
    obtain ⟨h1, h2⟩ := ih more hm
    have hmb : matchB f p = b := by
      unfold matchB; rw [hb]; cases b <;> rfl
    constructor
    · rw [List.filter_cons, hmb, ← h1]
    · intro q hq
      rcases List.mem_cons.1 hq with rfl | hq
      · rw [hmb]; exact hb
      · exact h2 q hq

theorem select_sublist (f : Val) (l sel : List (Val × Val)) (h : selectDocs f l = .ok sel) :
    sel.Sublist l := by
  rw [(select_filter f l sel h).1]; exact List.filter_sublist

/-! ### the scan -/

theorem iter_eq (now : Int) (c c1 : Coll) (f : Val) (he : expire now c = .ok c1)
    (hne : c1.docs ≠ []) :
    iterDocuments now c f =
      (selectDocs f c1.docs).map (fun sel => (c1, sel.map (·.2))) := by
  unfold iterDocuments
  have hemp : c1.docs.isEmpty = false := by
    cases hd : c1.docs with
    | nil => exact absurd hd hne
    | cons a l => rfl
  rw [he]
  simp only [bind, Except.bind, hemp, Bool.false_eq_true, if_false]
  rw [expire_idem now c c1 he]
  simp only [pure, Except.pure]
  have := filterMapM_select f c1.docs
  simp only [bind, Except.bind, pure, Except.pure] at this
  rw [this]
  cases selectDocs f c1.docs <;> rfl

theorem patch_doc_twice (fs : Fields) : patchDT (patchDT (.doc fs)) = patchDT (.doc fs) :=
  MongoModel.Proofs.C18.patch_idem _

theorem patch_doc (fs : Fields) : patchDT (.doc fs) = .doc (patchFields fs) := by
  simp [patchDT, patch]

end MongoModel.Proofs.C10Lemmas
