/-
  Proofs.C14Cex — counterexamples to three statements of Props/C14.lean as first written
  (see ../COUNTEREXAMPLE_C14.md).
-/
import Spec.Single
import Proofs.C05
import Proofs.C01Values

namespace MongoModel.Proofs.C14Cex
open MongoModel MongoModel.Spec

/-! ### 1. a target `_id` that is not normalised (`patchDT tid ≠ tid`)

The second read of `_find_and_modify` goes through `find_one({'_id': tid})`, whose filter is
normalised (`patch_datetime_awareness_in_document`: milliseconds, naive): a stored `_id`
`datetime(…, microsecond=1500)` is not found again.  (No reachable state holds such an `_id`:
`insert` normalises the document.) -/

def cB : Coll := { docs := [(.date 1500 none, .doc [("_id", .date 1500 none)])] }

theorem cB_inv : IdInv cB :=
  ⟨List.pairwise_singleton _ _, fun p hp => by
    simp only [cB, List.mem_singleton] at hp; subst hp; exact ⟨_, rfl, by decide⟩⟩

theorem cB_good : GoodKeys cB := fun p hp => by
  simp only [cB, List.mem_singleton] at hp; subst hp
  exact ⟨MongoModel.Proofs.C05.scalar_symm _ rfl, by decide⟩

theorem fam_delete_spec_false :
    ¬ (∀ (cfg : Cfg) (now : Int) (c c1 c' : Coll) (fs : Fields) (proj : Val)
        (sort : Option SortSpec) (sel : List (Val × Val)) (target : Val) (tid : Val)
        (ret : Option Val),
        expire now c = .ok c1 → IdInv c → GoodKeys c → c.ttlIndexes = [] →
        selectDocs (patchDT (.doc fs)) c1.docs = .ok sel →
        firstSorted sort sel = .ok (some target) → idOf target = some tid →
        isScalar tid = true →
        findAndModify cfg now c (.doc fs) proj none false sort false = (c', .ok ret) →
        sameExcept tid c1.docs c'.docs ∧ c'.docs.length + 1 = c1.docs.length ∧
        copyOnlyFields target proj = .ok (ret.getD .null) ∧ ret.isSome) := by
  intro H
  have k : (match findAndModify {} 0 cB (.doc []) .null none false none false with
      | (_, .ok none) => true
      | _ => false) = true := by decide +kernel
  generalize hx : findAndModify {} 0 cB (.doc []) .null none false none false = x at k
  obtain ⟨c', r⟩ := x
  cases r with
  | error e => simp at k
  | ok ret =>
    cases ret with
    | some v => simp at k
    | none =>
      have := H {} 0 cB cB c' [] .null none cB.docs (.doc [("_id", .date 1500 none)])
        (.date 1500 none) none rfl cB_inv cB_good rfl rfl rfl rfl rfl hx
      exact absurd this.2.2.2 (by decide)

theorem fam_update_spec_false :
    ¬ (∀ (cfg : Cfg) (now : Int) (c c1 c' : Coll) (fs : Fields) (proj u : Val)
        (upsert after : Bool)
        (sort : Option SortSpec) (sel : List (Val × Val)) (target : Val) (tid : Val)
        (ret : Option Val),
        expire now c = .ok c1 → IdInv c → GoodKeys c → c.ttlIndexes = [] →
        selectDocs (patchDT (.doc fs)) c1.docs = .ok sel →
        firstSorted sort sel = .ok (some target) → idOf target = some tid →
        isScalar tid = true →
        findAndModify cfg now c (.doc fs) proj (some u) upsert sort after = (c', .ok ret) →
        sameExcept tid c1.docs c'.docs ∧ c'.docs.length = c1.docs.length ∧
        (after = false → copyOnlyFields target proj = .ok (ret.getD .null) ∧ ret.isSome) ∧
        (after = true → ∃ p' ∈ c'.docs, pyEq p'.1 tid = true ∧
            copyOnlyFields p'.2 proj = .ok (ret.getD .null))) := by
  intro H
  have k : (match findAndModify {} 0 cB (.doc []) .null
        (some (.doc [("$set", .doc [("x", .int 1)])])) false none false with
      | (_, .ok none) => true
      | _ => false) = true := by decide +kernel
  generalize hx : findAndModify {} 0 cB (.doc []) .null
    (some (.doc [("$set", .doc [("x", .int 1)])])) false none false = x at k
  obtain ⟨c', r⟩ := x
  cases r with
  | error e => simp at k
  | ok ret =>
    cases ret with
    | some v => simp at k
    | none =>
      have := H {} 0 cB cB c' [] .null _ false false none cB.docs
        (.doc [("_id", .date 1500 none)])
        (.date 1500 none) none rfl cB_inv cB_good rfl rfl rfl rfl rfl hx
      exact absurd (this.2.2.1 rfl).2 (by decide)

/-! ### 2. an array as store key

`{_id: 5}` also matches a document whose `_id` is the array `[5]` (array membership), so the second
read / the delete / the update by `_id` hit the document stored first.  (No reachable state has an
array as store key: `storeKey` rejects lists — unhashable.)  The statements stay false when
`patchDT tid = tid` is added. -/

def cA : Coll := { docs := [(.arr [.int 5], .doc [("_id", .arr [.int 5]), ("a", .int 0)]),
                            (.int 5, .doc [("_id", .int 5), ("a", .int 1)])] }

theorem symm_arr5 : SymmVal (.arr [.int 5]) := by
  intro w
  cases w with
  | arr ys =>
    cases ys with
    | nil => rfl
    | cons y ys' =>
      have h1 : pyEq (.int 5) y = pyEq y (.int 5) :=
        MongoModel.Proofs.C05.scalar_symm (.int 5) rfl y
      show pyEqList [.int 5] (y :: ys') = pyEqList (y :: ys') [.int 5]
      cases ys' <;> simp [pyEqList, h1]
  | date u o => cases o <;> rfl
  | _ => rfl

theorem cA_inv : IdInv cA := by
  refine ⟨?_, ?_⟩
  · simp only [KeysDistinct, cA, List.pairwise_cons, List.mem_singleton, forall_eq,
      List.not_mem_nil, false_imp_iff, implies_true, List.Pairwise.nil, and_true]
    decide
  · intro p hp
    simp only [cA, List.mem_cons, List.not_mem_nil, or_false] at hp
    rcases hp with rfl | rfl
    · exact ⟨_, rfl, by decide⟩
    · exact ⟨_, rfl, by decide⟩

theorem cA_good : GoodKeys cA := by
  intro p hp
  simp only [cA, List.mem_cons, List.not_mem_nil, or_false] at hp
  rcases hp with rfl | rfl
  · exact ⟨symm_arr5, by decide⟩
  · exact ⟨MongoModel.Proofs.C05.scalar_symm _ rfl, by decide⟩

theorem cA_sel : selectDocs (patchDT (.doc [("a", .int 1)])) cA.docs =
    .ok [(.int 5, .doc [("_id", .int 5), ("a", .int 1)])] := by
  have k : (match selectDocs (patchDT (.doc [("a", .int 1)])) cA.docs with
      | .ok [p] => Val.beq p.1 (.int 5) && Val.beq p.2 (.doc [("_id", .int 5), ("a", .int 1)])
      | _ => false) = true := by decide +kernel
  generalize selectDocs (patchDT (.doc [("a", .int 1)])) cA.docs = y at k
  cases y with
  | error e => simp at k
  | ok sel =>
    cases sel with
    | nil => simp at k
    | cons p t =>
      cases t with
      | cons _ _ => simp at k
      | nil =>
        simp only [Bool.and_eq_true] at k
        obtain ⟨a, b⟩ := p
        have h1 := MongoModel.Proofs.C01Lemmas.Val.eq_of_beq _ _ k.1
        have h2 := MongoModel.Proofs.C01Lemmas.Val.eq_of_beq _ _ k.2
        dsimp only at h1 h2
        rw [h1, h2]

theorem fam_delete_spec_false_array :
    ¬ (∀ (cfg : Cfg) (now : Int) (c c1 c' : Coll) (fs : Fields) (proj : Val)
        (sort : Option SortSpec) (sel : List (Val × Val)) (target : Val) (tid : Val)
        (ret : Option Val),
        expire now c = .ok c1 → IdInv c → GoodKeys c → c.ttlIndexes = [] →
        selectDocs (patchDT (.doc fs)) c1.docs = .ok sel →
        firstSorted sort sel = .ok (some target) → idOf target = some tid →
        isScalar tid = true → patchDT tid = tid →
        findAndModify cfg now c (.doc fs) proj none false sort false = (c', .ok ret) →
        sameExcept tid c1.docs c'.docs ∧ c'.docs.length + 1 = c1.docs.length ∧
        copyOnlyFields target proj = .ok (ret.getD .null) ∧ ret.isSome) := by
  intro H
  have k : (match findAndModify {} 0 cA (.doc [("a", .int 1)]) .null none false none false with
      | (c', .ok _) => c'.docs.all (fun p => pyEq p.1 (.int 5))
      | _ => false) = true := by decide +kernel
  generalize hx : findAndModify {} 0 cA (.doc [("a", .int 1)]) .null none false none false = x at k
  obtain ⟨c', r⟩ := x
  cases r with
  | error e => simp at k
  | ok ret =>
    dsimp only at k
    have hs : selectDocs (patchDT (.doc [("a", .int 1)])) cA.docs =
        .ok [(.int 5, .doc [("_id", .int 5), ("a", .int 1)])] := cA_sel
    have := (H {} 0 cA cA c' [("a", .int 1)] .null none _ (.doc [("_id", .int 5), ("a", .int 1)])
      (.int 5) ret rfl cA_inv cA_good rfl hs rfl rfl rfl rfl hx).1.1
      (.arr [.int 5], .doc [("_id", .arr [.int 5]), ("a", .int 0)])
      (by simp [cA]) (by decide)
    have h5 := List.all_eq_true.1 k _ this
    exact absurd h5 (by decide)

/-! ### 3. `update_one_no_match_noop`: a call that raises before the scan

`_apply_update` raises the pre-5.0 "empty operator" WriteError before `_iter_documents` runs, so
the expiry pass never happens: the collection is returned as it was, expired documents included,
whereas the statement compares with the collection AFTER the pass. -/

def ixT : Index := { name := "t_1", keys := [("t", .int 1)], ttl := some (.int 0) }

def cC : Coll :=
  { docs := [(.int 1, .doc [("_id", .int 1), ("t", .date 0 none)]),
             (.int 2, .doc [("_id", .int 2)])],
    indexes := [ixT], ttlIndexes := [ixT] }

theorem update_one_no_match_noop_false :
    ¬ (∀ (cfg : Cfg) (now : Int) (c c1 c' : Coll) (fs : Fields) (u : Val)
        (r : R UpdateResult), expire now c = .ok c1 → c1.docs ≠ [] →
        selectDocs (patchDT (.doc fs)) c1.docs = .ok [] →
        applyUpdateColl cfg now c (.doc fs) u false false = (c', r) →
        c'.docs = c1.docs) := by
  intro H
  have k1 : (match expire 10000000 cC with
      | .ok c1 => c1.docs.length == 1 &&
        (match selectDocs (patchDT (.doc [("a", .int 1)])) c1.docs with
         | .ok [] => true
         | _ => false)
      | _ => false) = true := by decide +kernel
  cases he : expire 10000000 cC with
  | error e => rw [he] at k1; simp at k1
  | ok c1 =>
    rw [he] at k1
    simp only [Bool.and_eq_true, beq_iff_eq] at k1
    obtain ⟨hl, hsel⟩ := k1
    cases hs : selectDocs (patchDT (.doc [("a", .int 1)])) c1.docs with
    | error e => rw [hs] at hsel; simp at hsel
    | ok sel =>
      cases sel with
      | cons _ _ => rw [hs] at hsel; simp at hsel
      | nil =>
        have := H { preV5 := true } 10000000 cC c1 _ [("a", .int 1)] (.doc [("$set", .doc [])]) _
          he (by intro e; rw [e] at hl; cases hl) hs rfl
        have h2 : cC.docs.length = 2 := rfl
        rw [this, hl] at h2
        cases h2

end MongoModel.Proofs.C14Cex
