/-
  Proofs.C06Bridge — the look-up `_ensure_uniques` issues (`{key: {$eq: value}, …}`) is key
  equality on documents whose indexed paths are value paths.
-/
import Proofs.C06Scalar
import Proofs.C01Main

set_option linter.unusedSimpArgs false

namespace MongoModel.Proofs.C06Lemmas
open MongoModel MongoModel.Spec
open MongoModel.Proofs.C01Lemmas (applyFields_cons applyHead applyKey_single singleOp_pos leafOp_eq
  candsKey_of_keyOk ne_of_not_dollar)

/-! ### paths -/

theorem splitDotsChars_ne_nil (l cur : List Char) : splitDotsChars l cur ≠ [] := by
  induction l generalizing cur with
  | nil => simp [splitDotsChars]
  | cons c r ih =>
    simp only [splitDotsChars]
    split
    · simp
    · exact ih _

theorem splitDots_cons (k : String) : ∃ p ps, splitDots k = p :: ps := by
  cases h : splitDots k with
  | nil => exact absurd h (splitDotsChars_ne_nil _ _)
  | cons p ps => exact ⟨p, ps, rfl⟩

theorem cands_empty_doc (ps : List String) (p : String) : cands (p :: ps) (.doc []) = .ok [none] := by
  induction ps generalizing p with
  | nil => simp [cands, dget]
  | cons q qs ih => simp only [cands, dget, Option.getD_none]; exact ih q

/-- along a value path: exactly one candidate, the value `get_value_by_dot` finds (or NOTHING
    where it raises KeyError) -/
theorem path_value (ps : List String) (p : String) (d : Val) (h : valuePath (p :: ps) d = true) :
    (∃ v, isKeyable v = true ∧ getByDotParts (p :: ps) d = .ok v ∧ cands (p :: ps) d = .ok [some v]) ∨
    (getByDotParts (p :: ps) d = .error .keyErr ∧ cands (p :: ps) d = .ok [none]) := by
  induction ps generalizing p d with
  | nil =>
    cases d with
    | doc fs =>
      simp only [valuePath] at h
      cases hg : dget p fs with
      | none => right; simp [getByDotParts, cands, hg]
      | some v =>
        rw [hg] at h
        left; exact ⟨v, h, by simp [getByDotParts, hg], by simp [cands, hg]⟩
    | arr xs => simp [valuePath] at h
    | _ => right; simp [getByDotParts, cands]
  | cons q qs ih =>
    cases d with
    | doc fs =>
      simp only [valuePath] at h
      cases hg : dget p fs with
      | none =>
        right
        simp only [getByDotParts, cands, hg, Option.getD_none]
        exact ⟨trivial, cands_empty_doc qs q⟩
      | some v =>
        rw [hg] at h
        simp only [getByDotParts, cands, hg, Option.getD_some]
        exact ih q v h
    | arr xs => simp [valuePath] at h
    | _ => right; simp [getByDotParts, cands]

/-- the index-key component of a document at one field -/
def kv1 (k : String) (d : Val) : Val :=
  match getByDot d k with
  | .ok v => v
  | .error _ => .null

/-- the conditions `valueKeys` puts on a field name and the document -/
def okField (k : String) (d : Val) : Prop :=
  keyOk k = true ∧ k.startsWith "$" = false ∧ valuePath (splitDots k) d = true

theorem okField_get {k : String} {d : Val} (h : okField k d) :
    (∃ v, isKeyable v = true ∧ getByDot d k = .ok v ∧ candsKey k d = .ok [some v]) ∨
    (getByDot d k = .error .keyErr ∧ candsKey k d = .ok [none]) := by
  obtain ⟨h1, _, h3⟩ := h
  rw [candsKey_of_keyOk d h1]
  obtain ⟨p, ps, hp⟩ := splitDots_cons k
  unfold getByDot
  rw [hp] at h3 ⊢
  exact path_value ps p d h3

theorem kv1_keyable {k : String} {d : Val} (h : okField k d) : isKeyable (kv1 k d) = true := by
  unfold kv1
  rcases okField_get h with ⟨v, hv, hg, _⟩ | ⟨hg, _⟩ <;> rw [hg]
  · exact hv
  · rfl

theorem opEq_keyable {x : Val} (v : Val) (hx : isKeyable x = true) : opEq (some x) v = pyEq x v := by
  have := isKeyable_notArr hx
  cases x <;> simp [Val.isArr] at this <;> simp [opEq, operatorEq]

theorem opEq_none (v : Val) : opEq none v = pyEq .null v := by
  cases v <;> simp [opEq, operatorEq, pyEq]

/-- one item `(k, {$eq: v})` of the look-up on a document whose path `k` is a value path: the
    operand `v` is compared as data, whatever it is -/
theorem applyKey_eq {k : String} {e : Val} (v : Val) (h : okField k e) :
    applyKey (eqCond v) k e = .ok (pyEq (kv1 k e) v) := by
  unfold eqCond
  rw [applyKey_single "$eq" v k e (by decide)]
  unfold kv1
  rcases okField_get h with ⟨x, hx, hg, hc⟩ | ⟨hg, hc⟩
  · rw [hc, hg]
    simp only [Except.bind]
    rw [singleOp_pos "$eq" v _ (fun dv => opEq dv v) (by decide) (by decide) (by decide)
      (leafOp_eq v)]
    simp [opEq_keyable v hx]
  · rw [hc, hg]
    simp only [Except.bind]
    rw [singleOp_pos "$eq" v _ (fun dv => opEq dv v) (by decide) (by decide) (by decide)
      (leafOp_eq v)]
    simp [opEq_none]

theorem applyHead_field {k : String} (v e : Val) (hk : k.startsWith "$" = false) :
    applyHead k v e = applyKey v k e := by
  have n1 : k ≠ "$comment" := ne_of_not_dollar hk (by decide +kernel)
  have n2 : k ≠ "$or" := ne_of_not_dollar hk (by decide +kernel)
  have n3 : k ≠ "$and" := ne_of_not_dollar hk (by decide +kernel)
  have n4 : k ≠ "$nor" := ne_of_not_dollar hk (by decide +kernel)
  have n5 : k ≠ "$not" := ne_of_not_dollar hk (by decide +kernel)
  have n6 : k ≠ "$expr" := ne_of_not_dollar hk (by decide +kernel)
  have n7 : k ≠ "$text" := ne_of_not_dollar hk (by decide +kernel)
  have n8 : k ≠ "$where" := ne_of_not_dollar hk (by decide +kernel)
  have n9 : k ≠ "$jsonSchema" := ne_of_not_dollar hk (by decide +kernel)
  simp [applyHead, logicalKeys, topLevelOperators, n1, n2, n3, n4, n5, n6, n7, n8, n9, hk]

/-- the index key of a document over a key list -/
def kv (keys : List (String × Val)) (d : Val) : List Val := keys.map (fun k => kv1 k.1 d)

theorem keyVals_eq (ix : Index) (d : Val) : keyVals ix d = kv ix.keys d := rfl

/-- the `kwargs` of `_ensure_uniques` when the field names are distinct -/
def kwOf (keys : List (String × Val)) (d : Val) : Fields :=
  keys.map (fun k => (k.1, eqCond (kv1 k.1 d)))

def OkKeys (keys : List (String × Val)) (d : Val) : Prop := ∀ k ∈ keys, okField k.1 d

theorem kv_allKeyable {keys : List (String × Val)} {d : Val} (h : OkKeys keys d) :
    AllKeyable (kv keys d) := by
  intro v hv
  simp only [kv, List.mem_map] at hv
  obtain ⟨k, hk, rfl⟩ := hv
  exact kv1_keyable (h k hk)

/-- the look-up on a document whose indexed paths are value paths is key equality (nothing is
    asked of the NEW document's values beyond what makes `kv` its key: the operands are data) -/
theorem applyFields_kw (keys : List (String × Val)) (new e : Val) (he : OkKeys keys e) :
    applyFields (kwOf keys new) e = .ok (keyEq (kv keys e) (kv keys new)) := by
  induction keys with
  | nil => simp [kwOf, kv, applyFields]
  | cons k keys ih =>
    have he' : OkKeys keys e := fun k' h' => he k' (List.mem_cons_of_mem _ h')
    have h1 := he k (List.mem_cons_self ..)
    simp only [kwOf, kv, List.map_cons, keyEq_cons] at ih ⊢
    rw [applyFields_cons, applyHead_field _ _ h1.2.1, applyKey_eq _ h1]
    simp only [bind, Except.bind, pure, Except.pure]
    cases hq : pyEq (kv1 k.1 e) (kv1 k.1 new)
    · simp
    · simp only [if_true, Bool.true_and]
      exact ih he'

/-! ### `valuesFor` -/

theorem length_eraseDups_le : ∀ (l : List String), l.eraseDups.length ≤ l.length
  | [] => by simp
  | a :: as => by
    rw [List.eraseDups_cons]
    have h1 := length_eraseDups_le (as.filter fun b => !b == a)
    have h2 := List.length_filter_le (fun b => !b == a) as
    simp only [List.length_cons]; omega
termination_by l => l.length
decreasing_by simp only [List.length_cons]; exact Nat.lt_succ_of_le (List.length_filter_le _ _)

theorem nodup_of_eraseDups_length : ∀ (l : List String), l.eraseDups.length = l.length → l.Nodup
  | [], _ => List.nodup_nil
  | a :: as, h => by
    rw [List.eraseDups_cons] at h
    simp only [List.length_cons, Nat.add_right_cancel_iff] at h
    have h1 := length_eraseDups_le (as.filter fun b => !b == a)
    have h2 := List.length_filter_le (fun b => !b == a) as
    have hf : (as.filter fun b => !b == a).length = as.length := by omega
    have hall := List.length_filter_eq_length_iff.1 hf
    have hfe : as.filter (fun b => !b == a) = as := List.filter_eq_self.2 hall
    rw [hfe] at h
    refine List.nodup_cons.2 ⟨?_, nodup_of_eraseDups_length as h⟩
    intro hm
    have := hall a hm
    simp at this

theorem distinctFields_nodup {ix : Index} (h : distinctFields ix = true) :
    (ix.keys.map (·.1)).Nodup := by
  apply nodup_of_eraseDups_length
  simpa [distinctFields] using h

theorem dset_append {k : String} {v : Val} {acc : Fields} (h : k ∉ dkeys acc) :
    dset k v acc = acc ++ [(k, v)] := by
  induction acc with
  | nil => rfl
  | cons kv acc ih =>
    obtain ⟨k', v'⟩ := kv
    simp only [dkeys, List.map_cons, List.mem_cons, not_or] at h
    simp only [dset, Ne.symm h.1, if_false, List.cons_append]
    rw [ih h.2]

theorem valuesFor_go (keys : List (String × Val)) (d : Val) (acc : Fields) (hok : OkKeys keys d)
    (hnd : (keys.map (·.1)).Nodup) (hdis : ∀ k ∈ keys, k.1 ∉ dkeys acc) :
    keys.foldlM (fun acc kv =>
      match getByDot d kv.1 with
      | .ok v => Except.ok (dset kv.1 (eqCond v) acc)
      | .error .keyErr => .ok (dset kv.1 (eqCond .null) acc)
      | .error e => .error e) acc = .ok (acc ++ kwOf keys d) := by
  induction keys generalizing acc with
  | nil => simp [kwOf, pure, Except.pure]
  | cons k keys ih =>
    have hk := hok k (List.mem_cons_self ..)
    have hok' : OkKeys keys d := fun k' h' => hok k' (List.mem_cons_of_mem _ h')
    simp only [List.map_cons, List.nodup_cons] at hnd
    have hstep : (match getByDot d k.1 with
        | .ok v => Except.ok (dset k.1 (eqCond v) acc)
        | .error .keyErr => .ok (dset k.1 (eqCond .null) acc)
        | .error e => .error e) = .ok (acc ++ [(k.1, eqCond (kv1 k.1 d))]) := by
      unfold kv1
      rcases okField_get hk with ⟨v, _, hg, _⟩ | ⟨hg, _⟩ <;> rw [hg] <;>
        simp only [dset_append (hdis k (List.mem_cons_self ..))]
    rw [List.foldlM_cons, hstep]
    simp only [bind, Except.bind]
    rw [ih (acc ++ [(k.1, eqCond (kv1 k.1 d))]) hok' hnd.2]
    · simp [kwOf]
    · intro k' hk'
      simp only [dkeys, List.map_append, List.map_cons, List.map_nil, List.mem_append,
        List.mem_singleton, not_or]
      refine ⟨hdis k' (List.mem_cons_of_mem _ hk'), ?_⟩
      intro e
      exact hnd.1 (e ▸ List.mem_map_of_mem (f := (·.1)) hk')

theorem valuesFor_ok (keys : List (String × Val)) (d : Val) (hok : OkKeys keys d)
    (hnd : (keys.map (·.1)).Nodup) : valuesFor keys d = .ok (kwOf keys d) := by
  have h := valuesFor_go keys d [] hok hnd (by simp [dkeys])
  simp only [List.nil_append] at h
  exact h

theorem kwOf_all_null (keys : List (String × Val)) (d : Val) :
    (kwOf keys d).all isNullCond = (kv keys d).all isNull := by
  simp only [kwOf, kv, List.all_map]
  congr 1
  funext k
  simp only [Function.comp, isNullCond, eqCond]
  cases kv1 k.1 d <;> rfl

theorem okKeys_of_valueKeys {ix : Index} {d : Val} (h : valueKeys ix d = true) :
    OkKeys ix.keys d := by
  intro k hk
  simp only [valueKeys, List.all_eq_true, Bool.and_eq_true, Bool.not_eq_true'] at h
  obtain ⟨⟨⟨h1, h2⟩, _⟩, h4⟩ := h k hk
  exact ⟨h1, h2, h4⟩

/-! ### the query -/

/-- the filter `_ensure_uniques` passes to `_iter_documents` -/
def queryOf (ix : Index) (kw : Fields) : Val :=
  match ix.partialFilter with
  | some pfe => Val.doc [("$and", .arr [pfe, .doc kw])]
  | none => Val.doc kw

/-- the partial-filter half of `covers` -/
def pfOk (ix : Index) (d : Val) : Bool :=
  match ix.partialFilter with
  | none => true
  | some f => (match filterApplies f d with
    | .ok b => b
    | .error _ => false)

theorem covers_eq (ix : Index) (d : Val) :
    covers ix d = (!(ix.sparse && (kv ix.keys d).all isNull) && pfOk ix d) := rfl

/-- a document that passes the partial filter and has the key of `new` matches the query -/
theorem query_matches (ix : Index) (new e : Val) (he : OkKeys ix.keys e)
    (hp : pfOk ix e = true) (hk : keyEq (kv ix.keys e) (kv ix.keys new) = true) :
    filterApplies (queryOf ix (kwOf ix.keys new)) e = .ok true := by
  have hb := applyFields_kw ix.keys new e he
  rw [hk] at hb
  unfold queryOf pfOk at *
  cases hpf : ix.partialFilter with
  | none => simp only [filterApplies, applyVal]; exact hb
  | some f =>
    rw [hpf] at hp
    simp only at hp ⊢
    cases hf : filterApplies f e with
    | error x => rw [hf] at hp; cases hp
    | ok b =>
      rw [hf] at hp
      simp only at hp
      subst hp
      simp only [filterApplies] at hf
      simp only [filterApplies, applyVal]
      rw [applyFields_cons]
      simp [applyHead, logicalKeys, Val.truthy, allApply, hf, applyVal, hb, bind, Except.bind,
        pure, Except.pure, applyFields]

end MongoModel.Proofs.C06Lemmas
