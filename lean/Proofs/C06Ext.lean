/-
  Proofs.C06Ext — uniqueness (`UniqInv`) through the EXTENDED step (`stepX` / `stepXS`:
  find_one, find_one_and_update / _replace / _delete, bulk_write, the bulk builder, and every
  operation of `stepColl`) and through every history over all modelled operations (`Spec.runX`).

  Instance of the generic preservation of Proofs/C05ExtGen.lean with `P` = `Q` = the carried
  invariant `UniqS` ("uniqueness among the value-keyed, covered documents"), which every basic
  entry point preserves with no hypothesis; nothing is asked of the collections between the
  requests of a bulk.
-/
import Proofs.C06
import Proofs.C05ExtStep

set_option linter.unusedSimpArgs false
set_option linter.unusedVariables false

namespace MongoModel.Proofs.C06Ext
open MongoModel MongoModel.Spec MongoModel.Proofs.C06Lemmas MongoModel.Proofs.ExtGen

theorem sub_findOne (now : Int) (c : Coll) (f proj : Val) (sort : Option SortSpec) :
    Sub c (findOneColl now c f proj sort).1 := by
  unfold findOneColl
  extract_lets filter
  split
  · exact Sub.refl c
  · rename_i c1 ms h
    exact sub_iter h

/-- the basic entry points carry `UniqS` -/
theorem pres (cfg : Cfg) : Pres cfg UniqS UniqS where
  weaken := fun c h => h
  findP := fun now c f proj sort h => h.sub (sub_findOne now c f proj sort)
  findQ := fun now c f proj sort h => h.sub (sub_findOne now c f proj sort)
  del := fun now c f multi h => h.sub (sub_delete now c f multi)
  upd := fun now c f u up multi h => uniqS_applyUpdate cfg now c _ f u up multi _ h rfl
  step := fun now c op h => step_uniqS cfg now c op h

/-! ### one operation -/

/-- the carried invariant through the extended step: no hypothesis on the documents -/
theorem stepX_carried (cfg : Cfg) (now : Int) (c : Coll) (op : Val) (hU : UniqS c) :
    UniqS (stepX cfg now c op).1 :=
  stepX_pres (pres cfg) (fun _ => True) (fun c h _ => h) now c op hU (fun _ _ => trivial)

theorem stepX_uniq_inv_alt (cfg : Cfg) (now : Int) (c : Coll) (op : Val)
    (hu : UniqInv c) (hs' : ValueInv (stepX cfg now c op).1) : UniqInv (stepX cfg now c op).1 :=
  uniqInv_of_uniqS (stepX_carried cfg now c op (uniqS_of_uniqInv hu)) hs'

theorem stepX_uniq_inv_check (cfg : Cfg) (now : Int) (c : Coll) (op : Val)
    (h : (uniqB c && valB (stepX cfg now c op).1) = true) : UniqInv (stepX cfg now c op).1 := by
  simp only [Bool.and_eq_true] at h
  exact stepX_uniq_inv_alt cfg now c op ((uniqB_iff c).1 h.1) ((valB_iff _).1 h.2)

theorem stepXS_uniq_inv_alt (cfg : Cfg) (s : St) (op : Val)
    (hu : UniqInv s.c) (hs' : ValueInv (stepXS cfg s op).1.c) : UniqInv (stepXS cfg s op).1.c :=
  uniqInv_of_uniqS (stepXS_pres (pres cfg) (fun _ => True) (fun c h _ => h) s op
    (uniqS_of_uniqInv hu) (fun _ _ => trivial)) hs'

/-! ### histories -/

theorem reachableX_uniq_alt (cfg : Cfg) (ops : List Val)
    (hs : ValueInv (runX cfg ops).2.c) : UniqInv (runX cfg ops).2.c := by
  refine uniqInv_of_uniqS ?_ hs
  rw [runX_snd]
  exact history_pres (pres cfg) (fun _ => True) (fun c h _ => h)
    (fun s h => C06.observe_carried s h) ops {} (fun ix hix => by cases hix) (fun _ _ => trivial)

theorem reachableX_uniq_check (cfg : Cfg) (ops : List Val)
    (h : valB (runX cfg ops).2.c = true) : UniqInv (runX cfg ops).2.c :=
  reachableX_uniq_alt cfg ops ((valB_iff _).1 h)

/-! ### a duplicate key inside a bulk -/

/-- `InsertOne` of a document the single insert rejects with DuplicateKeyError: the executor
    reports a write error; with no TTL index and an `_id` in the document nothing changes (the
    created flag, which the rejected insert has set once more, was set already) -/
theorem bulkOne_insert_dup (cfg : Cfg) (now : Int) (c : Coll) (idx : Nat) (fs : Fields)
    (hnt : c.ttlIndexes = []) (hid : dhas "_id" fs = true) (hf : c.forceCreated = true)
    (h : insertDoc now c (.doc fs) = .error .dupKey) :
    bulkOne cfg now c idx (.arr [.str "InsertOne", .doc fs]) = (c, .writeErr .dupKey) := by
  have he : expire now c = .ok c := by unfold expire; rw [hnt]; rfl
  have hrej : insertRejected now c (.doc fs) = c := by
    unfold insertRejected
    simp only [hid, if_true, he]
    exact markStored_of_flag c _ hf
  simp only [bulkOne, stepColl, h, hrej]
  rfl

theorem bulk_dup_write_rejected (cfg : Cfg) (now : Int) (c : Coll) (idx : Nat) (d : Val)
    (ix : Index) (p : Val × Val)
    (hr : c.Recorded)
    (hs : ValueInv c) (hix : ix ∈ c.indexes) (hu : ix.unique = true) (hnt : c.ttlIndexes = [])
    (hp : p ∈ c.docs) (hcp : covers ix p.2 = true) (hcd : covers ix (patchDT d) = true)
    (hsd : valueKeys ix (patchDT d) = true)
    (heq : keyEq (keyVals ix p.2) (keyVals ix (patchDT d)) = true)
    (hid : ∃ fs, d = .doc fs ∧ dhas "_id" fs = true)
    (hk : ∃ k, storeKey (idOfDoc (patchDT d)) = .ok k)
    (hone : ∀ i ∈ c.indexes, i.unique = true → i = ix)
    (hpf : ∀ f, ix.partialFilter = some f → ∀ q ∈ c.docs, ∃ b, filterApplies f q.2 = .ok b) :
    bulkOne cfg now c idx (.arr [.str "InsertOne", d]) = (c, .writeErr .dupKey) := by
  have h := C06.dup_write_rejected_dupkey_alt now c d ix p hs hix hu hnt hp hcp hcd hsd heq hid hk hone hpf
  obtain ⟨fs, rfl, hid'⟩ := hid
  have hf : c.forceCreated = true := hr (Or.inr (List.ne_nil_of_mem hix))
  exact bulkOne_insert_dup cfg now c idx fs hnt hid' hf h

theorem bulk_dup_at_index (cfg : Cfg) (now : Int) (ordered : Bool) (c : Coll)
    (idx : Nat) (d : Val) (rest : List Val) (t : BulkTotals)
    (h : bulkOne cfg now c idx (.arr [.str "InsertOne", d]) = (c, .writeErr .dupKey)) :
    bulkLoop cfg now ordered (.arr [.str "InsertOne", d] :: rest) idx c t =
      if ordered then
        (c, .bulkErr ({ t with errors := t.errors ++
          [Val.doc [("index", .int idx), ("code", .int 11000)]] }).toVal)
      else
        bulkLoop cfg now ordered rest (idx + 1) c { t with errors := t.errors ++
          [Val.doc [("index", .int idx), ("code", .int 11000)]] } := by
  rw [bulkLoop, h]
  rfl

/-! ### the unrestricted statement fails (the `operator-like-value` witness inside a bulk) -/

def cexBulk : Val :=
  .arr [.str "bulk_write", .arr [.arr [.str "InsertOne", .doc [("_id", .int 2), ("a", .doc [("$size", .str "x")])]]],
    .bool true]

theorem cexBulk_after : uniqB (stepX {} 0 cexColl cexBulk).1 = false := by decide +kernel

theorem stepX_uniq_false :
    ¬ (∀ (cfg : Cfg) (now : Int) (c : Coll) (op : Val), UniqInv c → UniqInv (stepX cfg now c op).1) := by
  intro H
  have h1 := (uniqB_iff _).2 (H {} 0 cexColl cexBulk ((uniqB_iff _).1 cex_before.1))
  rw [cexBulk_after] at h1
  cases h1

end MongoModel.Proofs.C06Ext
