/-
  Proofs.C01Basic — connectives, the candidate loop, and the unconditional laws of C01.
-/
import Spec.MatchDomain

set_option linter.unusedSimpArgs false

namespace MongoModel.Proofs.C01Lemmas
open MongoModel MongoModel.Spec

/-! ### connectives -/

theorem and_is_conj (qs : List Val) (d : Val) (bs : List Bool)
    (h : qs.map (applyVal · d) = bs.map .ok) : allApply qs d = .ok (bs.all id) := by
  induction qs generalizing bs with
  | nil => cases bs <;> simp_all [allApply]
  | cons q qs ih =>
    cases bs with
    | nil => simp at h
    | cons b bs =>
      simp only [List.map_cons, List.cons.injEq] at h
      rw [allApply, h.1]
      cases b <;> simp [bind, Except.bind, pure, Except.pure, ih bs h.2]

theorem or_is_disj (qs : List Val) (d : Val) (bs : List Bool)
    (h : qs.map (applyVal · d) = bs.map .ok) : anyApply qs d = .ok (bs.any id) := by
  induction qs generalizing bs with
  | nil => cases bs <;> simp_all [anyApply]
  | cons q qs ih =>
    cases bs with
    | nil => simp at h
    | cons b bs =>
      simp only [List.map_cons, List.cons.injEq] at h
      rw [anyApply, h.1]
      cases b <;> simp [bind, Except.bind, pure, Except.pure, ih bs h.2]

theorem nor_is_neg_disj (qs : List Val) (d : Val) (bs : List Bool)
    (h : qs.map (applyVal · d) = bs.map .ok) : norApply qs d = .ok (!(bs.any id)) := by
  induction qs generalizing bs with
  | nil => cases bs <;> simp_all [norApply]
  | cons q qs ih =>
    cases bs with
    | nil => simp at h
    | cons b bs =>
      simp only [List.map_cons, List.cons.injEq] at h
      rw [norApply, h.1]
      cases b <;> simp [bind, Except.bind, pure, Except.pure, ih bs h.2]

/-! ### the candidate loop -/

/-- positive loop over a total predicate: `m` is "some candidate matched" -/
theorem candLoop_pos (g : Option Val → Bool) (cs : List (Option Val)) (m h : Bool) :
    ∃ h', candLoop (fun c => Except.ok (g c)) false cs m h
      = .ok (some (if cs.isEmpty then m else cs.any g, h')) := by
  induction cs generalizing m h with
  | nil => exact ⟨h, by simp [candLoop]⟩
  | cons c cs ih =>
    cases hg : g c with
    | true => exact ⟨h || c.isSome, by simp [candLoop, hg, bind, Except.bind, pure, Except.pure]⟩
    | false =>
      obtain ⟨h', e⟩ := ih false (h || c.isSome)
      refine ⟨h', ?_⟩
      simp only [candLoop, hg, bind, Except.bind, pure, Except.pure] at e ⊢
      simp only [Bool.and_true, Bool.false_eq_true, ↓reduceIte, Bool.not_false]
      rw [e]
      cases cs <;> simp [hg]

/-- negative loop over a total predicate: `none` iff some candidate fails -/
theorem candLoop_neg (g : Option Val → Bool) (cs : List (Option Val)) (m h : Bool) :
    candLoop (fun c => Except.ok (g c)) true cs m h
      = .ok (if cs.all g then some (if cs.isEmpty then m else true, h || cs.any Option.isSome)
             else none) := by
  induction cs generalizing m h with
  | nil => simp [candLoop]
  | cons c cs ih =>
    cases hg : g c with
    | false => simp [candLoop, hg, bind, Except.bind, pure, Except.pure]
    | true =>
      simp only [candLoop, hg, bind, Except.bind, pure, Except.pure]
      simp only [Bool.not_true, Bool.and_false, Bool.false_eq_true, ↓reduceIte]
      rw [ih true (h || c.isSome)]
      cases cs <;> simp [hg, Bool.or_assoc]

/-- a loop whose test raises on every candidate raises as soon as there is a candidate -/
theorem candLoop_err (f : Option Val → R Bool) (e : Err) (neg : Bool) (c : Option Val)
    (cs : List (Option Val)) (m h : Bool) (hf : f c = .error e) :
    candLoop f neg (c :: cs) m h = .error e := by
  simp [candLoop, hf, bind, Except.bind]

theorem candLoop_congr (f g : Option Val → R Bool) (neg : Bool) (cs : List (Option Val))
    (m h : Bool) (hfg : ∀ c ∈ cs, f c = g c) : candLoop f neg cs m h = candLoop g neg cs m h := by
  induction cs generalizing m h with
  | nil => simp [candLoop]
  | cons c cs ih =>
    simp only [candLoop]
    rw [hfg c (by simp)]
    cases g c with
    | error e => rfl
    | ok b =>
      simp only [bind, Except.bind]
      rw [ih _ _ (fun c hc => hfg c (by simp [hc]))]


/-! ### a single leaf operator under a key -/

theorem bind_ite_id (r : R Bool) :
    (do let b ← r; if b = true then (Except.ok true : R Bool) else pure false) = r := by
  rcases r with _ | b
  · rfl
  · cases b <;> rfl

theorem opsAll_single (op : String) (sv : Val) (key : String) (d : Val) (dv : Option Val)
    (h1 : op ≠ "$all") (h2 : op ≠ "$elemMatch") (h3 : op ≠ "$not") :
    opsAll [(op, sv)] key d dv = leafOp op sv dv := by
  cases sv <;> simp [opsAll, h1, h2, h3, bind_ite_id]

/-- what `applyKey` computes for a one-operator condition, given the candidates -/
def singleOp (op : String) (sv : Val) (cs : List (Option Val)) : R Bool := do
  let neg := op = "$ne" || op = "$nin"
  if (op = "$exists" && pyEq sv (.bool false)) && cs.isEmpty then pure true
  else do
    let r ← candLoop (leafOp op sv) neg cs false false
    match r with
    | none => pure false
    | some (m, h) => pure (!(!m && (h || !neg)))

def leafOps : List String :=
  ["$eq", "$ne", "$gt", "$gte", "$lt", "$lte", "$in", "$nin", "$exists", "$size"]

theorem applyKey_single (op : String) (sv : Val) (key : String) (d : Val)
    (hop : op ∈ leafOps) :
    applyKey (.doc [(op, sv)]) key d = (candsKey key d).bind (singleOp op sv) := by
  have hs : op.startsWith "$" = true := by
    simp only [leafOps, List.mem_cons, List.not_mem_nil, or_false] at hop
    rcases hop with h | h | h | h | h | h | h | h | h | h <;> subst h <;> decide +kernel
  have h1 : op ≠ "$all" := by intro e; subst e; simp [leafOps] at hop
  have h2 : op ≠ "$elemMatch" := by intro e; subst e; simp [leafOps] at hop
  have h3 : op ≠ "$not" := by intro e; subst e; simp [leafOps] at hop
  have h4 : op ≠ "$options" := by intro e; subst e; simp [leafOps] at hop
  have hck : checkUnknownOps [op] = .ok () := by
    simp only [leafOps, List.mem_cons, List.not_mem_nil, or_false] at hop
    rcases hop with h | h | h | h | h | h | h | h | h | h <;> subst h <;> decide
  have hpe : pyEq (Val.doc [(op, sv)]) (Val.doc [("$exists", Val.bool false)])
      = (decide (op = "$exists") && pyEq sv (Val.bool false)) := by
    by_cases h : op = "$exists"
    · subst h; simp [pyEq, pyEqFields, dget]
    · have h' : ¬ "$exists" = op := fun e => h e.symm
      simp [pyEq, pyEqFields, dget, h, h']
  have hany : ([op].any fun k => k != "$ne" && k != "$nin")
      = !(decide (op = "$ne") || decide (op = "$nin")) := by
    by_cases a : op = "$ne" <;> by_cases b : op = "$nin" <;> simp [a, b]
  have hio : isOpsFilter (.doc [(op, sv)]) = true := by simp [isOpsFilter, hs]
  have hopt : (isOpsFilter (Val.doc [(op, sv)]) &&
      ((dkeys [(op, sv)]).contains "$options" && (dkeys [(op, sv)]).contains "$regex")) = false := by
    simp [dkeys, Ne.symm h4]
  rw [applyKey]
  simp only [hopt, Bool.false_eq_true, ↓reduceIte]
  simp only [hio, ↓reduceIte, dkeys, List.map_cons, List.map_nil, hck, bind, Except.bind]
  cases candsKey key d with
  | error e => rfl
  | ok cs =>
    simp only [Except.bind, singleOp, opsAll_single op sv key d _ h1 h2 h3, hpe, hany]
    simp [Ne.symm h1, pure, Except.pure, eq_comm (a := "$ne"), eq_comm (a := "$nin")]
    rfl


/-! ### the leaf operators as functions of the candidate -/

theorem leafOp_eq (sv : Val) : leafOp "$eq" sv = fun dv => Except.ok (opEq dv sv) := by
  funext dv; simp [leafOp, pure, Except.pure]
theorem leafOp_ne (sv : Val) : leafOp "$ne" sv = fun dv => Except.ok (opNe dv sv) := by
  funext dv; simp [leafOp, pure, Except.pure]
theorem leafOp_in (sv : Val) : leafOp "$in" sv = fun dv => opIn dv sv := by
  funext dv; simp [leafOp, pure, Except.pure]
theorem leafOp_nin (sv : Val) : leafOp "$nin" sv = fun dv => (opIn dv sv).map (!·) := by
  funext dv; simp [leafOp, pure, Except.pure]
theorem leafOp_exists (sv : Val) :
    leafOp "$exists" sv = fun dv => Except.ok (sv.truthy == dv.isSome) := by
  funext dv; simp [leafOp, pure, Except.pure]
theorem leafOp_gt (sv : Val) : leafOp "$gt" sv = fun dv => opCmp .gt dv sv := by
  funext dv; simp [leafOp, pure, Except.pure]
theorem leafOp_gte (sv : Val) : leafOp "$gte" sv = fun dv => opCmp .gte dv sv := by
  funext dv; simp [leafOp, pure, Except.pure]
theorem leafOp_lt (sv : Val) : leafOp "$lt" sv = fun dv => opCmp .lt dv sv := by
  funext dv; simp [leafOp, pure, Except.pure]
theorem leafOp_lte (sv : Val) : leafOp "$lte" sv = fun dv => opCmp .lte dv sv := by
  funext dv; simp [leafOp, pure, Except.pure]
theorem leafOp_size (sv : Val) : leafOp "$size" sv = fun dv => Except.ok (opSize dv sv) := by
  funext dv; simp [leafOp, pure, Except.pure]

theorem opNe_eq_not_opEq (dv : Option Val) (sv : Val) : opNe dv sv = !opEq dv sv := by
  unfold opNe opEq
  split
  · split
    · rfl
    · simp [List.all_eq_not_any_not]
  · rfl

/-- `singleOp` for a total positive test -/
theorem singleOp_pos (op : String) (sv : Val) (cs : List (Option Val)) (g : Option Val → Bool)
    (h1 : op ≠ "$ne") (h2 : op ≠ "$nin") (h3 : op ≠ "$exists")
    (hg : leafOp op sv = fun dv => Except.ok (g dv)) :
    singleOp op sv cs = .ok (cs.any g) := by
  obtain ⟨h', e⟩ := candLoop_pos g cs false false
  simp only [singleOp, h1, h2, h3, hg, e, decide_false, Bool.false_and, Bool.or_false,
    Bool.false_eq_true, ↓reduceIte, bind, Except.bind, pure, Except.pure]
  cases cs <;> simp

/-- `singleOp` for a total negated test (`$ne`, `$nin`) -/
theorem singleOp_neg (op : String) (sv : Val) (cs : List (Option Val)) (g : Option Val → Bool)
    (h1 : op = "$ne" ∨ op = "$nin")
    (hg : leafOp op sv = fun dv => Except.ok (g dv)) :
    singleOp op sv cs = .ok (cs.all g) := by
  have h3 : op ≠ "$exists" := by rcases h1 with h | h <;> subst h <;> decide
  have hn : (decide (op = "$ne") || decide (op = "$nin")) = true := by
    rcases h1 with h | h <;> subst h <;> decide
  simp only [singleOp, h3, hn, hg, candLoop_neg, decide_false, Bool.false_and,
    Bool.false_eq_true, ↓reduceIte, bind, Except.bind, pure, Except.pure]
  by_cases ha : cs.all g = true
  · cases cs <;> simp_all
  · simp [ha]


/-! ### the unconditional laws -/

theorem ne_eq_not_eq (key : String) (v d : Val) :
    applyKey (.doc [("$ne", v)]) key d = (applyKey (.doc [("$eq", v)]) key d).map (!·) := by
  rw [applyKey_single _ _ _ _ (by decide), applyKey_single _ _ _ _ (by decide)]
  cases candsKey key d with
  | error e => rfl
  | ok cs =>
    simp only [Except.bind]
    rw [singleOp_neg "$ne" v cs (fun dv => opNe dv v) (Or.inl rfl) (leafOp_ne v),
      singleOp_pos "$eq" v cs (fun dv => opEq dv v) (by decide) (by decide) (by decide)
        (leafOp_eq v)]
    simp [Except.map, opNe_eq_not_opEq, List.all_eq_not_any_not]

theorem singleOp_nil_in (v : Val) : singleOp "$in" v [] = .ok false := by
  simp [singleOp, candLoop, bind, Except.bind, pure, Except.pure]

theorem singleOp_nil_nin (v : Val) : singleOp "$nin" v [] = .ok true := by
  simp [singleOp, candLoop, bind, Except.bind, pure, Except.pure]

theorem nin_eq_not_in (key : String) (v d : Val) :
    applyKey (.doc [("$nin", v)]) key d = (applyKey (.doc [("$in", v)]) key d).map (!·) := by
  rw [applyKey_single _ _ _ _ (by decide), applyKey_single _ _ _ _ (by decide)]
  cases candsKey key d with
  | error e => rfl
  | ok cs =>
    simp only [Except.bind]
    by_cases hv : ∃ ss, v = .arr ss
    · obtain ⟨ss, rfl⟩ := hv
      let g : Option Val → Bool := fun dv =>
        if dv.isNone && pyIn .null ss then true
        else (forceList dv).any (fun c => match c with | some x => pyIn x ss | none => false)
      have hin : leafOp "$in" (.arr ss) = fun dv => Except.ok (g dv) := by
        rw [leafOp_in]; funext dv; simp only [opIn, g]; split <;> rfl
      have hnin : leafOp "$nin" (.arr ss) = fun dv => Except.ok (!g dv) := by
        rw [leafOp_nin]; funext dv; simp only [opIn, g]; split <;> rfl
      rw [singleOp_neg "$nin" _ cs _ (Or.inr rfl) hnin,
        singleOp_pos "$in" _ cs _ (by decide) (by decide) (by decide) hin]
      simp [Except.map, List.all_eq_not_any_not]
    · have hop : ∀ dv, opIn dv v = .error .opFail := by
        intro dv; cases v <;> first | rfl | exact absurd ⟨_, rfl⟩ hv
      cases cs with
      | nil => rw [singleOp_nil_in, singleOp_nil_nin]; rfl
      | cons c cs =>
        have e1 : singleOp "$in" v (c :: cs) = .error .opFail := by
          simp only [singleOp]
          rw [candLoop_err _ .opFail _ _ _ _ _ (by rw [leafOp_in]; exact hop c)]
          simp [bind, Except.bind]
        have e2 : singleOp "$nin" v (c :: cs) = .error .opFail := by
          simp only [singleOp]
          rw [candLoop_err _ .opFail _ _ _ _ _ (by rw [leafOp_nin]; simp [hop c, Except.map])]
          simp [bind, Except.bind]
        rw [e1, e2]; rfl


/-- a positive loop over a test that does not depend on the candidate -/
theorem candLoop_const (r : R Bool) (c : Option Val) (cs : List (Option Val)) (m h : Bool) :
    ∃ h', candLoop (fun _ => r) false (c :: cs) m h = r.map (fun b => some (b, h')) := by
  cases r with
  | error e => exact ⟨h, by simp [candLoop, bind, Except.bind, Except.map]⟩
  | ok b =>
    obtain ⟨h', e⟩ := candLoop_pos (fun _ => b) (c :: cs) m h
    refine ⟨h', ?_⟩
    rw [e]; simp [Except.map]

theorem not_eq_neg (key : String) (gs : Fields) (d : Val) (cs : List (Option Val))
    (hc : candsKey key d = .ok cs) (hne : cs ≠ [])
    (hk : gs.all (fun kv => operatorMapKeys.contains kv.1 || logicalKeys.contains kv.1) = true) :
    applyKey (.doc [("$not", .doc gs)]) key d = (applyKey (.doc gs) key d).map (!·) := by
  have hck : checkUnknownOps ["$not"] = .ok () := by decide
  have hpe : pyEq (Val.doc [("$not", .doc gs)]) (Val.doc [("$exists", Val.bool false)]) = false := by
    simp [pyEq, pyEqFields, dget]
  have hs : "$not".startsWith "$" = true := by decide +kernel
  obtain ⟨c, cs', rfl⟩ : ∃ c cs', cs = c :: cs' := by
    cases cs with
    | nil => exact absurd rfl hne
    | cons c cs' => exact ⟨c, cs', rfl⟩
  obtain ⟨h', e⟩ := candLoop_const ((applyKey (.doc gs) key d).map (!·)) c cs' false false
  rw [applyKey.eq_1 key d [("$not", .doc gs)]]
  simp only [hc, bind, Except.bind, dkeys, List.map_cons, List.map_nil, hck, hpe, opsAll, hk,
    bind_ite_id]
  simp only [isOpsFilter, hs]
  generalize applyKey (Val.doc gs) key d = r at e ⊢
  rcases r with err | b
  · simp only [Except.map] at e ⊢
    simp [e, pure, Except.pure]
  · cases b <;> simp only [Except.map, Bool.not_true, Bool.not_false] at e ⊢ <;>
      simp [e, pure, Except.pure]

theorem null_eq_missing (key : String) (d : Val) (h : candsKey key d = .ok [none]) :
    applyKey .null key d = .ok true := by
  rw [applyKey.eq_2 _ _ _ (by intro fs e; cases e)]
  simp [h, bind, Except.bind, candLoop, plainMatch, pure, Except.pure]

/-! ### the operators of a condition are checked before the candidates are looked at -/

/-- a name that is neither in the operator table nor `$not` -/
def unknownOp (k : String) : Bool := !(operatorMapKeys.contains k) && k != "$not"

theorem checkUnknownOps_err (keys : List String) (h : keys.any unknownOp = true) :
    checkUnknownOps keys = .error .opFail ∨ checkUnknownOps keys = .error .notImpl := by
  have hne : (keys.filter unknownOp).isEmpty = false := by
    cases hf : keys.filter unknownOp with
    | nil =>
      rw [List.filter_eq_nil_iff] at hf
      obtain ⟨k, hk, hp⟩ := List.any_eq_true.mp h
      exact absurd hp (hf k hk)
    | cons _ _ => rfl
  have hne' : (keys.filter (fun k => !(operatorMapKeys.contains k) && k != "$not")).isEmpty = false := hne
  simp only [checkUnknownOps, hne', Bool.false_eq_true, ↓reduceIte]
  split <;> simp

/-- an operator condition whose check fails is rejected whatever the key reaches -/
theorem applyKey_check_err (fs : Fields) (key : String) (d : Val) (e : Err)
    (hops : isOpsFilter (.doc fs) = true)
    (hopt : ((dkeys fs).contains "$options" && (dkeys fs).contains "$regex") = false)
    (he : checkUnknownOps (dkeys fs) = .error e) :
    applyKey (.doc fs) key d = .error e := by
  rw [applyKey.eq_1]
  simp only [hops, hopt, Bool.and_false, Bool.false_eq_true, ↓reduceIte, he, bind, Except.bind]

theorem applyKey_unknown_op (fs : Fields) (key : String) (d : Val)
    (hops : isOpsFilter (.doc fs) = true)
    (hopt : ((dkeys fs).contains "$options" && (dkeys fs).contains "$regex") = false)
    (hunk : (dkeys fs).any unknownOp = true) :
    applyKey (.doc fs) key d = .error .opFail ∨ applyKey (.doc fs) key d = .error .notImpl := by
  rcases checkUnknownOps_err _ hunk with h | h
  · exact Or.inl (applyKey_check_err fs key d _ hops hopt h)
  · exact Or.inr (applyKey_check_err fs key d _ hops hopt h)

end MongoModel.Proofs.C01Lemmas
