/-
  Proofs.C04Basic — laws of the expression evaluator `MongoModel.Expr.eval` that hold for every
  document, environment and operand: `$literal`, `$not/$and/$or`, `$cond`, `$ifNull`, `$switch`,
  null propagation through arithmetic, the two contexts.
-/
import MongoModel.Expr
import Spec.ExprDomain

set_option linter.unusedSimpArgs false

namespace MongoModel.Proofs.C04
open MongoModel MongoModel.Expr

/-! ### dispatch facts -/

theorem evalAt_eq (c : Ctx) (key : String) (gs : Fields) :
    evalAt c key gs = (match dget key gs with | some v => eval c v | none => .ok none) := by
  induction gs with
  | nil => simp [evalAt, dget]
  | cons kv r ih =>
    obtain ⟨k, v⟩ := kv
    by_cases h : k = key
    · simp [evalAt, dget, h]
    · simp [evalAt, dget, h, ih]

/-! ### `$literal` -/

theorem literal_id (c : Ctx) (v : Val) : eval c (.doc [("$literal", v)]) = .ok (some v) := by
  have h1 : classify "$literal" = .projection := by decide
  simp [eval, evalDoc, startsDollar, h1, mode]

/-! ### truthiness -/

theorem mongoBool_eq (v : Val) : v.mongoBool = Spec.toBool (some v) := by
  cases v with
  | bool b => cases b <;> simp [Val.mongoBool, pyIn, pyEq, Spec.toBool]
  | int i =>
    by_cases h : i = 0
    · simp [Val.mongoBool, pyIn, pyEq, Spec.toBool, h]
    · have h' : ¬ (0 = i) := fun e => h e.symm
      have e1 : (0 == i) = false := by simpa using h'
      have e2 : (i != 0) = true := by simpa using h
      simp [Val.mongoBool, pyIn, pyEq, Spec.toBool, e1, e2]
  | dbl m e =>
    by_cases h : m = 0
    · simp [Val.mongoBool, pyIn, pyEq, Spec.toBool, Num.eq, h]
    · have h' : ¬ (0 = m) := fun e => h e.symm
      have e1 : (0 == m) = false := by simpa using h'
      have e2 : (m != 0) = true := by simpa using h
      simp [Val.mongoBool, pyIn, pyEq, Spec.toBool, Num.eq, e1, e2]
  | _ => simp [Val.mongoBool, pyIn, pyEq, Spec.toBool]

theorem toBoolOpt_eq (r : Option Val) : toBoolOpt r = Spec.toBool r := by
  cases r with
  | none => rfl
  | some v => simp [toBoolOpt, mongoBool_eq]

/-- `toBool v` is false exactly on `false`, `null`, and the zeros -/
theorem toBool_false_iff (v : Val) :
    Spec.toBool (some v) = false ↔
      (v = .bool false ∨ v = .null ∨ v = .int 0 ∨ ∃ e, v = .dbl 0 e) := by
  cases v <;> simp [Spec.toBool]

/-! ### `$not`, `$and`, `$or` -/

theorem not_spec (c : Ctx) (e : Val) :
    eval c (.doc [("$not", e)]) =
      (eval c e).bind (fun r => .ok (some (.bool (!Spec.toBool r)))) := by
  have h1 : classify "$not" = .boolean := by decide
  have h2 : mode "$not" e = .whole := by
    simp [mode, dateOps, datePartOps, wholeOps, unaryArithOps]
  simp [eval, evalDoc, h1, h2, applyWhole, unaryArithOps, toBoolOpt_eq]
  rfl

theorem evalAll_ok (c : Ctx) (xs : List Val) (rs : List (Option Val))
    (h : xs.map (eval c) = rs.map .ok) : evalAll c xs = .ok rs := by
  induction xs generalizing rs with
  | nil => cases rs <;> simp_all [evalAll]
  | cons x xs ih =>
    cases rs with
    | nil => simp at h
    | cons r rs =>
      simp only [List.map_cons, List.cons.injEq] at h
      simp [evalAll, h.1, ih rs h.2, bind, Except.bind, pure, Except.pure]

theorem evalOr_ok (c : Ctx) (xs : List Val) (rs : List (Option Val))
    (h : xs.map (eval c) = rs.map .ok) :
    evalOr c xs = .ok (rs.any Spec.toBool) := by
  induction xs generalizing rs with
  | nil => cases rs <;> simp_all [evalOr]
  | cons x xs ih =>
    cases rs with
    | nil => simp at h
    | cons r rs =>
      simp only [List.map_cons, List.cons.injEq] at h
      simp only [evalOr, h.1, List.any_cons, toBoolOpt_eq]
      cases hb : Spec.toBool r <;> simp [hb, bind, Except.bind, pure, Except.pure, ih rs h.2]

theorem and_spec (c : Ctx) (xs : List Val) (rs : List (Option Val))
    (h : xs.map (eval c) = rs.map .ok) :
    eval c (.doc [("$and", .arr xs)]) = .ok (some (.bool (rs.all Spec.toBool))) := by
  have h1 : classify "$and" = .boolean := by decide
  have h2 : mode "$and" (.arr xs) = .shaped := by
    simp [mode, dateOps, datePartOps, wholeOps, unaryArithOps, groupingOps]
  have h3 : arityErr "$and" xs.length = none := by
    simp [arityErr, binaryArithOps, comparisonOps]
  have h4 : listOps.contains "$and" = false := by decide
  have ht : (fun r => toBoolOpt r) = Spec.toBool := funext toBoolOpt_eq
  simp [eval, evalDoc, h1, h2, evalOp, h3, h4, evalAll_ok c xs rs h]
  simp [← ht]
  rfl

theorem or_spec (c : Ctx) (xs : List Val) (rs : List (Option Val))
    (h : xs.map (eval c) = rs.map .ok) :
    eval c (.doc [("$or", .arr xs)]) = .ok (some (.bool (rs.any Spec.toBool))) := by
  have h1 : classify "$or" = .boolean := by decide
  have h2 : mode "$or" (.arr xs) = .shaped := by
    simp [mode, dateOps, datePartOps, wholeOps, unaryArithOps, groupingOps]
  have h3 : arityErr "$or" xs.length = none := by
    simp [arityErr, binaryArithOps, comparisonOps]
  have h4 : listOps.contains "$or" = false := by decide
  simp [eval, evalDoc, h1, h2, evalOp, h3, h4, evalOr_ok c xs rs h]
  rfl

end MongoModel.Proofs.C04
