/-
  Proofs.C04Basic — laws of the expression evaluator `MongoModel.Expr.eval` that hold for every
  document, environment and operand: `$literal`, `$not/$and/$or`, `$cond`, `$ifNull`, `$switch`,
  null propagation through arithmetic, the two contexts.
-/
import MongoModel.Expr
import Spec.ExprDomain

set_option linter.unusedSimpArgs false

namespace MongoModel.Proofs.C04
open MongoModel MongoModel.Expr

/-! ### dispatch facts -/

theorem evalAt_eq (c : Ctx) (key : String) (gs : Fields) :
    evalAt c key gs = (match dget key gs with | some v => eval c v | none => .ok none) := by
  induction gs with
  | nil => simp [evalAt, dget]
  | cons kv r ih =>
    obtain ⟨k, v⟩ := kv
    by_cases h : k = key
    · simp [evalAt, dget, h]
    · simp [evalAt, dget, h, ih]

theorem eval_single (c : Ctx) (k : String) (v : Val) :
    eval c (.doc [(k, v)]) = evalDoc c [(k, v)] [] := by
  simp [eval]

/-- a field of a computed document: its value is evaluated; a missing value leaves the field out
    (`ignore_missing_keys`) or makes the whole document missing -/
theorem evalDoc_plain (c : Ctx) (k : String) (v : Val) (rest acc : Fields)
    (hk : classify k = .plain) :
    evalDoc c ((k, v) :: rest) acc =
      (eval c v).bind (fun r =>
        match r with
        | none => if c.ign then evalDoc c rest acc else .ok none
        | some x => evalDoc c rest (dset k x acc)) := by
  cases v <;>
  · rw [evalDoc]
    · simp only [hk]; rfl
    all_goals (intro xs h; cases h)

/-- how `eval` runs `{$op: v}`: an operator that takes one argument unwraps a one-item argument
    list, a variadic one wraps a bare operand, then the handler of the operator runs -/
theorem eval_op (c : Ctx) (k : String) (v : Val) (h1 : classify k ≠ .plain)
    (h2 : classify k ≠ .unknown) (h3 : classify k ≠ .notImpl) :
    eval c (.doc [(k, v)]) =
      if (unaryListOps.contains k && v.isArr) = true then
        (match v with
         | .arr xs => evalUnaryList c k xs
         | _ => .error .other)
      else if (variadicOps.contains k && !v.isArr) = true then
        (eval c v).bind (applyBare c.ign k)
      else
        match mode k v with
        | .const r => r
        | .whole => (eval c v).bind (applyWhole c.ign k)
        | .shaped => evalOp c k v := by
  rw [eval_single]
  cases v <;>
  · rw [evalDoc]
    · generalize classify k = cls at h1 h2 h3
      cases cls <;> simp at h1 h2 h3 <;> simp [Val.isArr] <;> rfl
    all_goals (intro xs h; cases h)

/-- the plain case: neither a one-item list for a unary operator nor a bare variadic operand -/
theorem eval_op_plain (c : Ctx) (k : String) (v : Val) (h1 : classify k ≠ .plain)
    (h2 : classify k ≠ .unknown) (h3 : classify k ≠ .notImpl)
    (hu : (unaryListOps.contains k && v.isArr) = false)
    (hv : (variadicOps.contains k && !v.isArr) = false) :
    eval c (.doc [(k, v)]) =
      match mode k v with
      | .const r => r
      | .whole => (eval c v).bind (applyWhole c.ign k)
      | .shaped => evalOp c k v := by
  rw [eval_op c k v h1 h2 h3, hu, hv]
  simp

/-- `{$op: [x]}` for an operator that takes exactly one argument -/
theorem eval_op_unary_list (c : Ctx) (k : String) (x : Val) (h1 : classify k ≠ .plain)
    (h2 : classify k ≠ .unknown) (h3 : classify k ≠ .notImpl)
    (hu : unaryListOps.contains k = true) :
    eval c (.doc [(k, .arr [x])]) =
      match mode k x with
      | .const r => r
      | .whole => (eval c x).bind (applyWhole c.ign k)
      | .shaped => evalOp c k x := by
  rw [eval_op c k _ h1 h2 h3]
  simp only [hu, Val.isArr, Bool.and_self, if_true, evalUnaryList]
  cases mode k x <;> rfl

/-- any other number of items is rejected -/
theorem eval_op_unary_arity (c : Ctx) (k : String) (xs : List Val) (h1 : classify k ≠ .plain)
    (h2 : classify k ≠ .unknown) (h3 : classify k ≠ .notImpl)
    (hu : unaryListOps.contains k = true) (hlen : xs.length ≠ 1) :
    eval c (.doc [(k, .arr xs)]) = .error .opFail := by
  rw [eval_op c k _ h1 h2 h3]
  simp only [hu, Val.isArr, Bool.and_self, if_true]
  match xs, hlen with
  | [], _ => rfl
  | [_], h => simp at h
  | _ :: _ :: _, _ => rfl

/-- an operator that is neither unary nor variadic (or a variadic one given a list) whose handler
    takes its argument apart -/
theorem eval_shaped (c : Ctx) (k : String) (v : Val) (h1 : classify k ≠ .plain)
    (h2 : classify k ≠ .unknown) (h3 : classify k ≠ .notImpl)
    (hu : unaryListOps.contains k = false)
    (hv : variadicOps.contains k = false ∨ v.isArr = true) (hm : mode k v = .shaped) :
    eval c (.doc [(k, v)]) = evalOp c k v := by
  rw [eval_op_plain c k v h1 h2 h3 (by rw [hu]; rfl)
    (by rcases hv with h | h <;> rw [h] <;> simp), hm]

/-- likewise for a handler that parses its whole argument -/
theorem eval_whole' (c : Ctx) (k : String) (v : Val) (h1 : classify k ≠ .plain)
    (h2 : classify k ≠ .unknown) (h3 : classify k ≠ .notImpl)
    (hu : unaryListOps.contains k = false ∨ v.isArr = false)
    (hv : variadicOps.contains k = false ∨ v.isArr = true) (hm : mode k v = .whole) :
    eval c (.doc [(k, v)]) = (eval c v).bind (applyWhole c.ign k) := by
  rw [eval_op_plain c k v h1 h2 h3 (by rcases hu with h | h <;> rw [h] <;> simp)
    (by rcases hv with h | h <;> rw [h] <;> simp), hm]

/-- an array literal evaluates to an array -/
theorem eval_arr (c : Ctx) (xs : List Val) :
    eval c (.arr xs) = (evalItems c xs).map (fun ys => some (.arr ys)) := by
  simp only [eval]
  cases evalItems c xs <;> rfl

theorem eval_arr_ok (c : Ctx) (xs : List Val) (r : Option Val) (h : eval c (.arr xs) = .ok r) :
    ∃ ys, r = some (.arr ys) := by
  rw [eval_arr] at h
  cases hi : evalItems c xs with
  | error e => simp [hi, Except.map] at h
  | ok ys => simp [hi, Except.map] at h; exact ⟨ys, h.symm⟩

/-! ### `$literal` -/

theorem literal_id (c : Ctx) (v : Val) : eval c (.doc [("$literal", v)]) = .ok (some v) := by
  rw [eval_op_plain c "$literal" v (by decide) (by decide) (by decide)
    (by rw [show unaryListOps.contains "$literal" = false by decide]; rfl)
    (by rw [show variadicOps.contains "$literal" = false by decide]; rfl)]
  simp [mode]

/-! ### truthiness -/

theorem mongoBool_eq (v : Val) : v.mongoBool = Spec.toBool (some v) := by
  cases v with
  | bool b => cases b <;> simp [Val.mongoBool, pyIn, pyEq, Spec.toBool]
  | int i =>
    by_cases h : i = 0
    · simp [Val.mongoBool, pyIn, pyEq, Spec.toBool, h]
    · have h' : ¬ (0 = i) := fun e => h e.symm
      have e1 : (0 == i) = false := by simpa using h'
      have e2 : (i != 0) = true := by simpa using h
      simp [Val.mongoBool, pyIn, pyEq, Spec.toBool, e1, e2]
  | dbl m e =>
    by_cases h : m = 0
    · simp [Val.mongoBool, pyIn, pyEq, Spec.toBool, Num.eq, h]
    · have h' : ¬ (0 = m) := fun e => h e.symm
      have e1 : (0 == m) = false := by simpa using h'
      have e2 : (m != 0) = true := by simpa using h
      simp [Val.mongoBool, pyIn, pyEq, Spec.toBool, Num.eq, e1, e2]
  | _ => simp [Val.mongoBool, pyIn, pyEq, Spec.toBool]

theorem toBoolOpt_eq (r : Option Val) : toBoolOpt r = Spec.toBool r := by
  cases r with
  | none => rfl
  | some v => simp [toBoolOpt, mongoBool_eq]

/-- `toBool v` is false exactly on `false`, `null`, and the zeros -/
theorem toBool_false_iff (v : Val) :
    Spec.toBool (some v) = false ↔
      (v = .bool false ∨ v = .null ∨ v = .int 0 ∨ ∃ e, v = .dbl 0 e) := by
  cases v <;> simp [Spec.toBool]

/-! ### `$not`, `$and`, `$or` -/

theorem not_whole (e : Val) : mode "$not" e = .whole := by
  simp [mode, dateOps, datePartOps, wholeOps, unaryArithOps]

theorem applyWhole_not (ign : Bool) :
    applyWhole ign "$not" = fun r => .ok (some (.bool (!Spec.toBool r))) := by
  funext r
  simp [applyWhole, unaryArithOps, toBoolOpt_eq]

/-- `{$not: e}` with `e` not written as a list -/
theorem not_spec (c : Ctx) (e : Val) (he : e.isArr = false) :
    eval c (.doc [("$not", e)]) =
      (eval c e).bind (fun r => .ok (some (.bool (!Spec.toBool r)))) := by
  rw [eval_op_plain c "$not" e (by decide) (by decide) (by decide) (by rw [he, Bool.and_false])
    (by rw [show variadicOps.contains "$not" = false by decide]; rfl), not_whole]
  simp only [applyWhole_not]

/-- `{$not: [x]}` is `$not` of `x` (it used to be the constant false: finding `arrayliteral`) -/
theorem not_list_spec (c : Ctx) (x : Val) :
    eval c (.doc [("$not", .arr [x])]) =
      (eval c x).bind (fun r => .ok (some (.bool (!Spec.toBool r)))) := by
  rw [eval_op_unary_list c "$not" x (by decide) (by decide) (by decide) (by decide), not_whole]
  simp only [applyWhole_not]

theorem evalAll_ok (c : Ctx) (xs : List Val) (rs : List (Option Val))
    (h : xs.map (eval c) = rs.map .ok) : evalAll c xs = .ok rs := by
  induction xs generalizing rs with
  | nil => cases rs <;> simp_all [evalAll]
  | cons x xs ih =>
    cases rs with
    | nil => simp at h
    | cons r rs =>
      simp only [List.map_cons, List.cons.injEq] at h
      simp [evalAll, h.1, ih rs h.2, bind, Except.bind, pure, Except.pure]

theorem evalOr_ok (c : Ctx) (xs : List Val) (rs : List (Option Val))
    (h : xs.map (eval c) = rs.map .ok) :
    evalOr c xs = .ok (rs.any Spec.toBool) := by
  induction xs generalizing rs with
  | nil => cases rs <;> simp_all [evalOr]
  | cons x xs ih =>
    cases rs with
    | nil => simp at h
    | cons r rs =>
      simp only [List.map_cons, List.cons.injEq] at h
      simp only [evalOr, h.1, List.any_cons, toBoolOpt_eq]
      cases hb : Spec.toBool r <;> simp [hb, bind, Except.bind, pure, Except.pure, ih rs h.2]

theorem and_spec (c : Ctx) (xs : List Val) (rs : List (Option Val))
    (h : xs.map (eval c) = rs.map .ok) :
    eval c (.doc [("$and", .arr xs)]) = .ok (some (.bool (rs.all Spec.toBool))) := by
  have h1 : classify "$and" = .boolean := by decide
  have h2 : mode "$and" (.arr xs) = .shaped := by
    simp [mode, dateOps, datePartOps, wholeOps, unaryArithOps, groupingOps]
  have h3 : arityErr "$and" xs.length = none := by
    simp [arityErr, binaryArithOps, comparisonOps]
  have h4 : listOps.contains "$and" = false := by decide
  have ht : (fun r => toBoolOpt r) = Spec.toBool := funext toBoolOpt_eq
  rw [eval_op_plain c "$and" _ (by decide) (by decide) (by decide)
    (by rw [show unaryListOps.contains "$and" = false by decide]; rfl)
    (by simp [Val.isArr]), h2]
  simp [evalOp, h3, h4, evalAll_ok c xs rs h]
  simp [← ht]
  rfl

theorem or_spec (c : Ctx) (xs : List Val) (rs : List (Option Val))
    (h : xs.map (eval c) = rs.map .ok) :
    eval c (.doc [("$or", .arr xs)]) = .ok (some (.bool (rs.any Spec.toBool))) := by
  have h1 : classify "$or" = .boolean := by decide
  have h2 : mode "$or" (.arr xs) = .shaped := by
    simp [mode, dateOps, datePartOps, wholeOps, unaryArithOps, groupingOps]
  have h3 : arityErr "$or" xs.length = none := by
    simp [arityErr, binaryArithOps, comparisonOps]
  have h4 : listOps.contains "$or" = false := by decide
  rw [eval_op_plain c "$or" _ (by decide) (by decide) (by decide)
    (by rw [show unaryListOps.contains "$or" = false by decide]; rfl)
    (by simp [Val.isArr]), h2]
  simp [evalOp, h3, h4, evalOr_ok c xs rs h]
  rfl

end MongoModel.Proofs.C04
