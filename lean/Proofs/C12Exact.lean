/-
  Proofs.C12Exact — the find-path projection (for a specification free of collisions and `$` components) is exactly the rule (`incl_exact`,
  `excl_exact`).
-/
import Proofs.C12Combine

namespace MongoModel.Proofs.C12
open MongoModel MongoModel.Spec.Proj

/-- no path uses the positional component `$` -/
def NoDollar (ps : List Path) : Prop := ∀ p ∈ ps, "$" ∉ p

theorem mem_tailsOf {k : String} {t : List String} {ps : List Path} :
    t ∈ tailsOf k ps ↔ k :: t ∈ ps := by
  simp only [tailsOf, List.mem_filterMap]
  constructor
  · rintro ⟨p, hm, h⟩
    cases p with
    | nil => simp at h
    | cons h' t' =>
      simp only at h
      split at h
      · next e => cases h; subst e; exact hm
      · cases h
  · intro hm
    exact ⟨k :: t, hm, by simp⟩

theorem noDollar_tailsOf {ps : List Path} (k : String) (h : NoDollar ps) :
    NoDollar (tailsOf k ps) := by
  intro t ht hd
  exact h _ (mem_tailsOf.mp ht) (List.mem_cons_of_mem _ hd)

theorem guard_ok {cs : PSpec} {ps : List Path} (hr : Rep cs ps) (hd : NoDollar ps) (incl : Bool) :
    positionalGuard cs incl = .ok () := by
  have : tget "$" cs = none := by
    rw [hr.none_iff]
    apply List.eq_nil_iff_forall_not_mem.mpr
    intro t ht
    exact hd _ (mem_tailsOf.mp ht) (by simp)
  simp [positionalGuard, thas, this]

mutual
  theorem fpFields_incl : ∀ (fs : Fields) (cs : PSpec) (ps : List Path), Rep cs ps → NoDollar ps →
      fpFields fs cs true = .ok (inclFields fs ps)
    | [], _, _, _, _ => by simp [fpFields, inclFields]
    | (k, .arr xs) :: rest, cs, ps, hr, hd => by
      have ih := fpFields_incl rest cs ps hr hd
      cases ht : tget k cs with
      | none =>
        have hts := (hr.none_iff k).mp ht
        simp [fpFields, inclFields, ht, hts, ih, bind, Except.bind, pure, Except.pure]
      | some t =>
        cases t with
        | leaf v =>
          have hts := (hr.leaf_iff k).mp ⟨v, ht⟩
          have hne : tailsOf k ps ≠ [] := fun e => by simp [e] at hts
          simp [fpFields, inclFields, ht, hts, hne, ih, bind, Except.bind, pure, Except.pure]
        | node sub =>
          obtain ⟨h1, h2, h3⟩ := hr.node ht
          have ihl := fpList_incl xs sub _ h3 (noDollar_tailsOf k hd)
          simp [fpFields, inclFields, inclVal, ht, h1, h2, ih, ihl,
            guard_ok h3 (noDollar_tailsOf k hd), bind, Except.bind, pure, Except.pure]
    | (k, .doc fs) :: rest, cs, ps, hr, hd => by
      have ih := fpFields_incl rest cs ps hr hd
      cases ht : tget k cs with
      | none =>
        have hts := (hr.none_iff k).mp ht
        simp [fpFields, inclFields, ht, hts, ih, bind, Except.bind, pure, Except.pure]
      | some t =>
        cases t with
        | leaf v =>
          have hts := (hr.leaf_iff k).mp ⟨v, ht⟩
          have hne : tailsOf k ps ≠ [] := fun e => by simp [e] at hts
          simp [fpFields, inclFields, ht, hts, hne, ih, bind, Except.bind, pure, Except.pure]
        | node sub =>
          obtain ⟨h1, h2, h3⟩ := hr.node ht
          have ihf := fpFields_incl fs sub _ h3 (noDollar_tailsOf k hd)
          simp [fpFields, inclFields, inclVal, ht, h1, h2, ih, ihf,
            guard_ok h3 (noDollar_tailsOf k hd), bind, Except.bind, pure, Except.pure]
    | (k, .null) :: rest, cs, ps, hr, hd => by
      have ih := fpFields_incl rest cs ps hr hd
      cases ht : tget k cs with
      | none =>
        have hts := (hr.none_iff k).mp ht
        simp [fpFields, inclFields, ht, hts, ih, bind, Except.bind, pure, Except.pure]
      | some t =>
        cases t with
        | leaf v =>
          have hts := (hr.leaf_iff k).mp ⟨v, ht⟩
          have hne : tailsOf k ps ≠ [] := fun e => by simp [e] at hts
          simp [fpFields, inclFields, ht, hts, hne, ih, bind, Except.bind, pure, Except.pure]
        | node sub =>
          obtain ⟨h1, h2, h3⟩ := hr.node ht
          simp [fpFields, inclFields, inclVal, ht, h1, h2, ih, bind, Except.bind, pure, Except.pure]
    | (k, .bool _) :: rest, cs, ps, hr, hd => by
      have ih := fpFields_incl rest cs ps hr hd
      cases ht : tget k cs with
      | none =>
        have hts := (hr.none_iff k).mp ht
        simp [fpFields, inclFields, ht, hts, ih, bind, Except.bind, pure, Except.pure]
      | some t =>
        cases t with
        | leaf v =>
          have hts := (hr.leaf_iff k).mp ⟨v, ht⟩
          have hne : tailsOf k ps ≠ [] := fun e => by simp [e] at hts
          simp [fpFields, inclFields, ht, hts, hne, ih, bind, Except.bind, pure, Except.pure]
        | node sub =>
          obtain ⟨h1, h2, h3⟩ := hr.node ht
          simp [fpFields, inclFields, inclVal, ht, h1, h2, ih, bind, Except.bind, pure, Except.pure]
    | (k, .int _) :: rest, cs, ps, hr, hd => by
      have ih := fpFields_incl rest cs ps hr hd
      cases ht : tget k cs with
      | none =>
        have hts := (hr.none_iff k).mp ht
        simp [fpFields, inclFields, ht, hts, ih, bind, Except.bind, pure, Except.pure]
      | some t =>
        cases t with
        | leaf v =>
          have hts := (hr.leaf_iff k).mp ⟨v, ht⟩
          have hne : tailsOf k ps ≠ [] := fun e => by simp [e] at hts
          simp [fpFields, inclFields, ht, hts, hne, ih, bind, Except.bind, pure, Except.pure]
        | node sub =>
          obtain ⟨h1, h2, h3⟩ := hr.node ht
          simp [fpFields, inclFields, inclVal, ht, h1, h2, ih, bind, Except.bind, pure, Except.pure]
    | (k, .dbl _ _) :: rest, cs, ps, hr, hd => by
      have ih := fpFields_incl rest cs ps hr hd
      cases ht : tget k cs with
      | none =>
        have hts := (hr.none_iff k).mp ht
        simp [fpFields, inclFields, ht, hts, ih, bind, Except.bind, pure, Except.pure]
      | some t =>
        cases t with
        | leaf v =>
          have hts := (hr.leaf_iff k).mp ⟨v, ht⟩
          have hne : tailsOf k ps ≠ [] := fun e => by simp [e] at hts
          simp [fpFields, inclFields, ht, hts, hne, ih, bind, Except.bind, pure, Except.pure]
        | node sub =>
          obtain ⟨h1, h2, h3⟩ := hr.node ht
          simp [fpFields, inclFields, inclVal, ht, h1, h2, ih, bind, Except.bind, pure, Except.pure]
    | (k, .str _) :: rest, cs, ps, hr, hd => by
      have ih := fpFields_incl rest cs ps hr hd
      cases ht : tget k cs with
      | none =>
        have hts := (hr.none_iff k).mp ht
        simp [fpFields, inclFields, ht, hts, ih, bind, Except.bind, pure, Except.pure]
      | some t =>
        cases t with
        | leaf v =>
          have hts := (hr.leaf_iff k).mp ⟨v, ht⟩
          have hne : tailsOf k ps ≠ [] := fun e => by simp [e] at hts
          simp [fpFields, inclFields, ht, hts, hne, ih, bind, Except.bind, pure, Except.pure]
        | node sub =>
          obtain ⟨h1, h2, h3⟩ := hr.node ht
          simp [fpFields, inclFields, inclVal, ht, h1, h2, ih, bind, Except.bind, pure, Except.pure]
    | (k, .date _ _) :: rest, cs, ps, hr, hd => by
      have ih := fpFields_incl rest cs ps hr hd
      cases ht : tget k cs with
      | none =>
        have hts := (hr.none_iff k).mp ht
        simp [fpFields, inclFields, ht, hts, ih, bind, Except.bind, pure, Except.pure]
      | some t =>
        cases t with
        | leaf v =>
          have hts := (hr.leaf_iff k).mp ⟨v, ht⟩
          have hne : tailsOf k ps ≠ [] := fun e => by simp [e] at hts
          simp [fpFields, inclFields, ht, hts, hne, ih, bind, Except.bind, pure, Except.pure]
        | node sub =>
          obtain ⟨h1, h2, h3⟩ := hr.node ht
          simp [fpFields, inclFields, inclVal, ht, h1, h2, ih, bind, Except.bind, pure, Except.pure]
    | (k, .oid _) :: rest, cs, ps, hr, hd => by
      have ih := fpFields_incl rest cs ps hr hd
      cases ht : tget k cs with
      | none =>
        have hts := (hr.none_iff k).mp ht
        simp [fpFields, inclFields, ht, hts, ih, bind, Except.bind, pure, Except.pure]
      | some t =>
        cases t with
        | leaf v =>
          have hts := (hr.leaf_iff k).mp ⟨v, ht⟩
          have hne : tailsOf k ps ≠ [] := fun e => by simp [e] at hts
          simp [fpFields, inclFields, ht, hts, hne, ih, bind, Except.bind, pure, Except.pure]
        | node sub =>
          obtain ⟨h1, h2, h3⟩ := hr.node ht
          simp [fpFields, inclFields, inclVal, ht, h1, h2, ih, bind, Except.bind, pure, Except.pure]
  theorem fpList_incl : ∀ (xs : List Val) (cs : PSpec) (ps : List Path), Rep cs ps → NoDollar ps →
      fpList xs cs true = .ok (inclList xs ps)
    | [], _, _, _, _ => by simp [fpList, inclList]
    | .doc fs :: xs, cs, ps, hr, hd => by
      have ih := fpList_incl xs cs ps hr hd
      have ihf := fpFields_incl fs cs ps hr hd
      simp [fpList, fpVal, inclList, inclVal, ih, ihf, bind, Except.bind, pure, Except.pure]
    | .arr zs :: xs, cs, ps, hr, hd => by
      have ih := fpList_incl xs cs ps hr hd
      have ihl := fpList_incl zs cs ps hr hd
      simp [fpList, fpVal, inclList, inclVal, ih, ihl, bind, Except.bind, pure, Except.pure]
    | .null :: xs, cs, ps, hr, hd => by
      have ih := fpList_incl xs cs ps hr hd
      simp [fpList, fpVal, inclList, inclVal, ih, bind, Except.bind, pure, Except.pure]
    | .bool _ :: xs, cs, ps, hr, hd => by
      have ih := fpList_incl xs cs ps hr hd
      simp [fpList, fpVal, inclList, inclVal, ih, bind, Except.bind, pure, Except.pure]
    | .int _ :: xs, cs, ps, hr, hd => by
      have ih := fpList_incl xs cs ps hr hd
      simp [fpList, fpVal, inclList, inclVal, ih, bind, Except.bind, pure, Except.pure]
    | .dbl _ _ :: xs, cs, ps, hr, hd => by
      have ih := fpList_incl xs cs ps hr hd
      simp [fpList, fpVal, inclList, inclVal, ih, bind, Except.bind, pure, Except.pure]
    | .str _ :: xs, cs, ps, hr, hd => by
      have ih := fpList_incl xs cs ps hr hd
      simp [fpList, fpVal, inclList, inclVal, ih, bind, Except.bind, pure, Except.pure]
    | .date _ _ :: xs, cs, ps, hr, hd => by
      have ih := fpList_incl xs cs ps hr hd
      simp [fpList, fpVal, inclList, inclVal, ih, bind, Except.bind, pure, Except.pure]
    | .oid _ :: xs, cs, ps, hr, hd => by
      have ih := fpList_incl xs cs ps hr hd
      simp [fpList, fpVal, inclList, inclVal, ih, bind, Except.bind, pure, Except.pure]
end

mutual
  theorem fpFields_excl : ∀ (fs : Fields) (cs : PSpec) (ps : List Path), Rep cs ps → NoDollar ps →
      fpFields fs cs false = .ok (exclFields fs ps)
    | [], _, _, _, _ => by simp [fpFields, exclFields]
    | (k, .arr xs) :: rest, cs, ps, hr, hd => by
      have ih := fpFields_excl rest cs ps hr hd
      cases ht : tget k cs with
      | none =>
        have hts := (hr.none_iff k).mp ht
        simp [fpFields, exclFields, ht, hts, ih, bind, Except.bind, pure, Except.pure]
      | some t =>
        cases t with
        | leaf v =>
          have hts := (hr.leaf_iff k).mp ⟨v, ht⟩
          have hne : tailsOf k ps ≠ [] := fun e => by simp [e] at hts
          simp [fpFields, exclFields, ht, hts, hne, ih, bind, Except.bind, pure, Except.pure]
        | node sub =>
          obtain ⟨h1, h2, h3⟩ := hr.node ht
          have ihl := fpList_excl xs sub _ h3 (noDollar_tailsOf k hd)
          simp [fpFields, exclFields, exclVal, ht, h1, h2, ih, ihl,
            guard_ok h3 (noDollar_tailsOf k hd), bind, Except.bind, pure, Except.pure]
    | (k, .doc fs) :: rest, cs, ps, hr, hd => by
      have ih := fpFields_excl rest cs ps hr hd
      cases ht : tget k cs with
      | none =>
        have hts := (hr.none_iff k).mp ht
        simp [fpFields, exclFields, ht, hts, ih, bind, Except.bind, pure, Except.pure]
      | some t =>
        cases t with
        | leaf v =>
          have hts := (hr.leaf_iff k).mp ⟨v, ht⟩
          have hne : tailsOf k ps ≠ [] := fun e => by simp [e] at hts
          simp [fpFields, exclFields, ht, hts, hne, ih, bind, Except.bind, pure, Except.pure]
        | node sub =>
          obtain ⟨h1, h2, h3⟩ := hr.node ht
          have ihf := fpFields_excl fs sub _ h3 (noDollar_tailsOf k hd)
          simp [fpFields, exclFields, exclVal, ht, h1, h2, ih, ihf,
            guard_ok h3 (noDollar_tailsOf k hd), bind, Except.bind, pure, Except.pure]
    | (k, .null) :: rest, cs, ps, hr, hd => by
      have ih := fpFields_excl rest cs ps hr hd
      cases ht : tget k cs with
      | none =>
        have hts := (hr.none_iff k).mp ht
        simp [fpFields, exclFields, ht, hts, ih, bind, Except.bind, pure, Except.pure]
      | some t =>
        cases t with
        | leaf v =>
          have hts := (hr.leaf_iff k).mp ⟨v, ht⟩
          have hne : tailsOf k ps ≠ [] := fun e => by simp [e] at hts
          simp [fpFields, exclFields, ht, hts, hne, ih, bind, Except.bind, pure, Except.pure]
        | node sub =>
          obtain ⟨h1, h2, h3⟩ := hr.node ht
          simp [fpFields, exclFields, exclVal, ht, h1, h2, ih, bind, Except.bind, pure, Except.pure]
    | (k, .bool _) :: rest, cs, ps, hr, hd => by
      have ih := fpFields_excl rest cs ps hr hd
      cases ht : tget k cs with
      | none =>
        have hts := (hr.none_iff k).mp ht
        simp [fpFields, exclFields, ht, hts, ih, bind, Except.bind, pure, Except.pure]
      | some t =>
        cases t with
        | leaf v =>
          have hts := (hr.leaf_iff k).mp ⟨v, ht⟩
          have hne : tailsOf k ps ≠ [] := fun e => by simp [e] at hts
          simp [fpFields, exclFields, ht, hts, hne, ih, bind, Except.bind, pure, Except.pure]
        | node sub =>
          obtain ⟨h1, h2, h3⟩ := hr.node ht
          simp [fpFields, exclFields, exclVal, ht, h1, h2, ih, bind, Except.bind, pure, Except.pure]
    | (k, .int _) :: rest, cs, ps, hr, hd => by
      have ih := fpFields_excl rest cs ps hr hd
      cases ht : tget k cs with
      | none =>
        have hts := (hr.none_iff k).mp ht
        simp [fpFields, exclFields, ht, hts, ih, bind, Except.bind, pure, Except.pure]
      | some t =>
        cases t with
        | leaf v =>
          have hts := (hr.leaf_iff k).mp ⟨v, ht⟩
          have hne : tailsOf k ps ≠ [] := fun e => by simp [e] at hts
          simp [fpFields, exclFields, ht, hts, hne, ih, bind, Except.bind, pure, Except.pure]
        | node sub =>
          obtain ⟨h1, h2, h3⟩ := hr.node ht
          simp [fpFields, exclFields, exclVal, ht, h1, h2, ih, bind, Except.bind, pure, Except.pure]
    | (k, .dbl _ _) :: rest, cs, ps, hr, hd => by
      have ih := fpFields_excl rest cs ps hr hd
      cases ht : tget k cs with
      | none =>
        have hts := (hr.none_iff k).mp ht
        simp [fpFields, exclFields, ht, hts, ih, bind, Except.bind, pure, Except.pure]
      | some t =>
        cases t with
        | leaf v =>
          have hts := (hr.leaf_iff k).mp ⟨v, ht⟩
          have hne : tailsOf k ps ≠ [] := fun e => by simp [e] at hts
          simp [fpFields, exclFields, ht, hts, hne, ih, bind, Except.bind, pure, Except.pure]
        | node sub =>
          obtain ⟨h1, h2, h3⟩ := hr.node ht
          simp [fpFields, exclFields, exclVal, ht, h1, h2, ih, bind, Except.bind, pure, Except.pure]
    | (k, .str _) :: rest, cs, ps, hr, hd => by
      have ih := fpFields_excl rest cs ps hr hd
      cases ht : tget k cs with
      | none =>
        have hts := (hr.none_iff k).mp ht
        simp [fpFields, exclFields, ht, hts, ih, bind, Except.bind, pure, Except.pure]
      | some t =>
        cases t with
        | leaf v =>
          have hts := (hr.leaf_iff k).mp ⟨v, ht⟩
          have hne : tailsOf k ps ≠ [] := fun e => by simp [e] at hts
          simp [fpFields, exclFields, ht, hts, hne, ih, bind, Except.bind, pure, Except.pure]
        | node sub =>
          obtain ⟨h1, h2, h3⟩ := hr.node ht
          simp [fpFields, exclFields, exclVal, ht, h1, h2, ih, bind, Except.bind, pure, Except.pure]
    | (k, .date _ _) :: rest, cs, ps, hr, hd => by
      have ih := fpFields_excl rest cs ps hr hd
      cases ht : tget k cs with
      | none =>
        have hts := (hr.none_iff k).mp ht
        simp [fpFields, exclFields, ht, hts, ih, bind, Except.bind, pure, Except.pure]
      | some t =>
        cases t with
        | leaf v =>
          have hts := (hr.leaf_iff k).mp ⟨v, ht⟩
          have hne : tailsOf k ps ≠ [] := fun e => by simp [e] at hts
          simp [fpFields, exclFields, ht, hts, hne, ih, bind, Except.bind, pure, Except.pure]
        | node sub =>
          obtain ⟨h1, h2, h3⟩ := hr.node ht
          simp [fpFields, exclFields, exclVal, ht, h1, h2, ih, bind, Except.bind, pure, Except.pure]
    | (k, .oid _) :: rest, cs, ps, hr, hd => by
      have ih := fpFields_excl rest cs ps hr hd
      cases ht : tget k cs with
      | none =>
        have hts := (hr.none_iff k).mp ht
        simp [fpFields, exclFields, ht, hts, ih, bind, Except.bind, pure, Except.pure]
      | some t =>
        cases t with
        | leaf v =>
          have hts := (hr.leaf_iff k).mp ⟨v, ht⟩
          have hne : tailsOf k ps ≠ [] := fun e => by simp [e] at hts
          simp [fpFields, exclFields, ht, hts, hne, ih, bind, Except.bind, pure, Except.pure]
        | node sub =>
          obtain ⟨h1, h2, h3⟩ := hr.node ht
          simp [fpFields, exclFields, exclVal, ht, h1, h2, ih, bind, Except.bind, pure, Except.pure]
  theorem fpList_excl : ∀ (xs : List Val) (cs : PSpec) (ps : List Path), Rep cs ps → NoDollar ps →
      fpList xs cs false = .ok (exclList xs ps)
    | [], _, _, _, _ => by simp [fpList, exclList]
    | .doc fs :: xs, cs, ps, hr, hd => by
      have ih := fpList_excl xs cs ps hr hd
      have ihf := fpFields_excl fs cs ps hr hd
      simp [fpList, fpVal, exclList, exclVal, ih, ihf, bind, Except.bind, pure, Except.pure]
    | .arr zs :: xs, cs, ps, hr, hd => by
      have ih := fpList_excl xs cs ps hr hd
      have ihl := fpList_excl zs cs ps hr hd
      simp [fpList, fpVal, exclList, exclVal, ih, ihl, bind, Except.bind, pure, Except.pure]
    | .null :: xs, cs, ps, hr, hd => by
      have ih := fpList_excl xs cs ps hr hd
      simp [fpList, fpVal, exclList, exclVal, ih, bind, Except.bind, pure, Except.pure]
    | .bool _ :: xs, cs, ps, hr, hd => by
      have ih := fpList_excl xs cs ps hr hd
      simp [fpList, fpVal, exclList, exclVal, ih, bind, Except.bind, pure, Except.pure]
    | .int _ :: xs, cs, ps, hr, hd => by
      have ih := fpList_excl xs cs ps hr hd
      simp [fpList, fpVal, exclList, exclVal, ih, bind, Except.bind, pure, Except.pure]
    | .dbl _ _ :: xs, cs, ps, hr, hd => by
      have ih := fpList_excl xs cs ps hr hd
      simp [fpList, fpVal, exclList, exclVal, ih, bind, Except.bind, pure, Except.pure]
    | .str _ :: xs, cs, ps, hr, hd => by
      have ih := fpList_excl xs cs ps hr hd
      simp [fpList, fpVal, exclList, exclVal, ih, bind, Except.bind, pure, Except.pure]
    | .date _ _ :: xs, cs, ps, hr, hd => by
      have ih := fpList_excl xs cs ps hr hd
      simp [fpList, fpVal, exclList, exclVal, ih, bind, Except.bind, pure, Except.pure]
    | .oid _ :: xs, cs, ps, hr, hd => by
      have ih := fpList_excl xs cs ps hr hd
      simp [fpList, fpVal, exclList, exclVal, ih, bind, Except.bind, pure, Except.pure]
end


end MongoModel.Proofs.C12
