/-
  Proofs.C12Exact — on D the find-path projection is exactly the rule (`incl_exact`,
  `excl_exact`).
-/
import Proofs.C12Combine

namespace MongoModel.Proofs.C12
open MongoModel MongoModel.Spec.Proj

/-- no path uses the positional component `$` -/
def NoDollar (ps : List Path) : Prop := ∀ p ∈ ps, "$" ∉ p

theorem mem_tailsOf {k : String} {t : List String} {ps : List Path} :
    t ∈ tailsOf k ps ↔ k :: t ∈ ps := by
  simp only [tailsOf, List.mem_filterMap]
  constructor
  · rintro ⟨p, hm, h⟩
    cases p with
    | nil => simp at h
    | cons h' t' =>
      simp only at h
      split at h
      · next e => cases h; subst e; exact hm
      · cases h
  · intro hm
    exact ⟨k :: t, hm, by simp⟩

theorem noDollar_tailsOf {ps : List Path} (k : String) (h : NoDollar ps) :
    NoDollar (tailsOf k ps) := by
  intro t ht hd
  exact h _ (mem_tailsOf.mp ht) (List.mem_cons_of_mem _ hd)

theorem guard_ok {cs : PSpec} {ps : List Path} (hr : Rep cs ps) (hd : NoDollar ps) (incl : Bool) :
    positionalGuard cs incl = .ok () := by
  have : tget "$" cs = none := by
    rw [hr.none_iff]
    apply List.eq_nil_iff_forall_not_mem.mpr
    intro t ht
    exact hd _ (mem_tailsOf.mp ht) (by simp)
  simp [positionalGuard, thas, this]

theorem append_nil_left {α} {a b : List α} (h : a ++ b = []) : a = [] := (List.append_eq_nil_iff.mp h).1
theorem append_nil_right {α} {a b : List α} (h : a ++ b = []) : b = [] := (List.append_eq_nil_iff.mp h).2

theorem desc_cond {ts : List Path} {x : List String} (h1 : [] ∉ ts) (h2 : ts ≠ [])
    (h : (if (ts.isEmpty || ts.contains []) = true then [] else x) = []) : x = [] := by
  have h' : ¬ ts = [] → ¬ [] ∈ ts → x = [] := by simpa using h
  exact h' h2 h1

mutual
  theorem fpFields_incl : ∀ (fs : Fields) (cs : PSpec) (ps : List Path), Rep cs ps → NoDollar ps →
      descFields fs ps true = [] → fpFields fs cs true = .ok (inclFields fs ps)
    | [], _, _, _, _, _ => by simp [fpFields, inclFields]
    | (k, .arr xs) :: rest, cs, ps, hr, hd, hD => by
      simp only [descFields] at hD
      have ih := fpFields_incl rest cs ps hr hd (append_nil_right hD)
      have hD1 := append_nil_left hD
      cases ht : tget k cs with
      | none =>
        have hts := (hr.none_iff k).mp ht
        simp [fpFields, inclFields, ht, hts, ih, bind, Except.bind, pure, Except.pure]
      | some t =>
        cases t with
        | leaf v =>
          have hts := (hr.leaf_iff k).mp ⟨v, ht⟩
          have hne : tailsOf k ps ≠ [] := fun e => by simp [e] at hts
          simp [fpFields, inclFields, ht, hts, hne, ih, bind, Except.bind, pure, Except.pure]
        | node sub =>
          obtain ⟨h1, h2, h3⟩ := hr.node ht
          simp only [descVal] at hD1
          have ihl := fpList_incl xs sub _ h3 (noDollar_tailsOf k hd) (desc_cond h1 h2 hD1)
          simp [fpFields, inclFields, inclVal, ht, h1, h2, ih, ihl, bind, Except.bind, pure,
            Except.pure]
    | (k, .doc fs) :: rest, cs, ps, hr, hd, hD => by
      simp only [descFields] at hD
      have ih := fpFields_incl rest cs ps hr hd (append_nil_right hD)
      have hD1 := append_nil_left hD
      cases ht : tget k cs with
      | none =>
        have hts := (hr.none_iff k).mp ht
        simp [fpFields, inclFields, ht, hts, ih, bind, Except.bind, pure, Except.pure]
      | some t =>
        cases t with
        | leaf v =>
          have hts := (hr.leaf_iff k).mp ⟨v, ht⟩
          have hne : tailsOf k ps ≠ [] := fun e => by simp [e] at hts
          simp [fpFields, inclFields, ht, hts, hne, ih, bind, Except.bind, pure, Except.pure]
        | node sub =>
          obtain ⟨h1, h2, h3⟩ := hr.node ht
          simp only [descVal] at hD1
          have ihf := fpFields_incl fs sub _ h3 (noDollar_tailsOf k hd) (desc_cond h1 h2 hD1)
          simp [fpFields, inclFields, inclVal, ht, h1, h2, ih, ihf,
            guard_ok h3 (noDollar_tailsOf k hd), bind, Except.bind, pure, Except.pure]
    | (k, .null) :: rest, cs, ps, hr, hd, hD => by
      simp only [descFields] at hD
      have ih := fpFields_incl rest cs ps hr hd (append_nil_right hD)
      cases ht : tget k cs with
      | none =>
        have hts := (hr.none_iff k).mp ht
        simp [fpFields, inclFields, ht, hts, ih, bind, Except.bind, pure, Except.pure]
      | some t =>
        cases t with
        | leaf v =>
          have hts := (hr.leaf_iff k).mp ⟨v, ht⟩
          have hne : tailsOf k ps ≠ [] := fun e => by simp [e] at hts
          simp [fpFields, inclFields, ht, hts, hne, ih, bind, Except.bind, pure, Except.pure]
        | node sub =>
          obtain ⟨h1, h2, h3⟩ := hr.node ht
          simp [fpFields, inclFields, inclVal, ht, h1, h2, ih]
    | (k, .bool _) :: rest, cs, ps, hr, hd, hD => by
      simp only [descFields] at hD
      have ih := fpFields_incl rest cs ps hr hd (append_nil_right hD)
      cases ht : tget k cs with
      | none =>
        have hts := (hr.none_iff k).mp ht
        simp [fpFields, inclFields, ht, hts, ih, bind, Except.bind, pure, Except.pure]
      | some t =>
        cases t with
        | leaf v =>
          have hts := (hr.leaf_iff k).mp ⟨v, ht⟩
          have hne : tailsOf k ps ≠ [] := fun e => by simp [e] at hts
          simp [fpFields, inclFields, ht, hts, hne, ih, bind, Except.bind, pure, Except.pure]
        | node sub =>
          obtain ⟨h1, h2, h3⟩ := hr.node ht
          simp [fpFields, inclFields, inclVal, ht, h1, h2, ih]
    | (k, .int _) :: rest, cs, ps, hr, hd, hD => by
      simp only [descFields] at hD
      have ih := fpFields_incl rest cs ps hr hd (append_nil_right hD)
      cases ht : tget k cs with
      | none =>
        have hts := (hr.none_iff k).mp ht
        simp [fpFields, inclFields, ht, hts, ih, bind, Except.bind, pure, Except.pure]
      | some t =>
        cases t with
        | leaf v =>
          have hts := (hr.leaf_iff k).mp ⟨v, ht⟩
          have hne : tailsOf k ps ≠ [] := fun e => by simp [e] at hts
          simp [fpFields, inclFields, ht, hts, hne, ih, bind, Except.bind, pure, Except.pure]
        | node sub =>
          obtain ⟨h1, h2, h3⟩ := hr.node ht
          simp [fpFields, inclFields, inclVal, ht, h1, h2, ih]
    | (k, .dbl _ _) :: rest, cs, ps, hr, hd, hD => by
      simp only [descFields] at hD
      have ih := fpFields_incl rest cs ps hr hd (append_nil_right hD)
      cases ht : tget k cs with
      | none =>
        have hts := (hr.none_iff k).mp ht
        simp [fpFields, inclFields, ht, hts, ih, bind, Except.bind, pure, Except.pure]
      | some t =>
        cases t with
        | leaf v =>
          have hts := (hr.leaf_iff k).mp ⟨v, ht⟩
          have hne : tailsOf k ps ≠ [] := fun e => by simp [e] at hts
          simp [fpFields, inclFields, ht, hts, hne, ih, bind, Except.bind, pure, Except.pure]
        | node sub =>
          obtain ⟨h1, h2, h3⟩ := hr.node ht
          simp [fpFields, inclFields, inclVal, ht, h1, h2, ih]
    | (k, .str _) :: rest, cs, ps, hr, hd, hD => by
      simp only [descFields] at hD
      have ih := fpFields_incl rest cs ps hr hd (append_nil_right hD)
      cases ht : tget k cs with
      | none =>
        have hts := (hr.none_iff k).mp ht
        simp [fpFields, inclFields, ht, hts, ih, bind, Except.bind, pure, Except.pure]
      | some t =>
        cases t with
        | leaf v =>
          have hts := (hr.leaf_iff k).mp ⟨v, ht⟩
          have hne : tailsOf k ps ≠ [] := fun e => by simp [e] at hts
          simp [fpFields, inclFields, ht, hts, hne, ih, bind, Except.bind, pure, Except.pure]
        | node sub =>
          obtain ⟨h1, h2, h3⟩ := hr.node ht
          simp [fpFields, inclFields, inclVal, ht, h1, h2, ih]
    | (k, .date _ _) :: rest, cs, ps, hr, hd, hD => by
      simp only [descFields] at hD
      have ih := fpFields_incl rest cs ps hr hd (append_nil_right hD)
      cases ht : tget k cs with
      | none =>
        have hts := (hr.none_iff k).mp ht
        simp [fpFields, inclFields, ht, hts, ih, bind, Except.bind, pure, Except.pure]
      | some t =>
        cases t with
        | leaf v =>
          have hts := (hr.leaf_iff k).mp ⟨v, ht⟩
          have hne : tailsOf k ps ≠ [] := fun e => by simp [e] at hts
          simp [fpFields, inclFields, ht, hts, hne, ih, bind, Except.bind, pure, Except.pure]
        | node sub =>
          obtain ⟨h1, h2, h3⟩ := hr.node ht
          simp [fpFields, inclFields, inclVal, ht, h1, h2, ih]
    | (k, .oid _) :: rest, cs, ps, hr, hd, hD => by
      simp only [descFields] at hD
      have ih := fpFields_incl rest cs ps hr hd (append_nil_right hD)
      cases ht : tget k cs with
      | none =>
        have hts := (hr.none_iff k).mp ht
        simp [fpFields, inclFields, ht, hts, ih, bind, Except.bind, pure, Except.pure]
      | some t =>
        cases t with
        | leaf v =>
          have hts := (hr.leaf_iff k).mp ⟨v, ht⟩
          have hne : tailsOf k ps ≠ [] := fun e => by simp [e] at hts
          simp [fpFields, inclFields, ht, hts, hne, ih, bind, Except.bind, pure, Except.pure]
        | node sub =>
          obtain ⟨h1, h2, h3⟩ := hr.node ht
          simp [fpFields, inclFields, inclVal, ht, h1, h2, ih]
  theorem fpList_incl : ∀ (xs : List Val) (cs : PSpec) (ps : List Path), Rep cs ps → NoDollar ps →
      descList xs ps true = [] → fpList xs cs true = .ok (inclList xs ps)
    | [], _, _, _, _, _ => by simp [fpList, inclList]
    | .doc fs :: xs, cs, ps, hr, hd, hD => by
      simp only [descList] at hD
      have ih := fpList_incl xs cs ps hr hd (append_nil_right hD)
      have ihf := fpFields_incl fs cs ps hr hd (append_nil_left hD)
      simp [fpList, fpVal, inclList, inclVal, ih, ihf, guard_ok hr hd, bind, Except.bind, pure,
        Except.pure]
    | .arr _ :: _, _, _, _, _, hD => by simp [descList] at hD
    | .null :: _, _, _, _, _, hD => by simp [descList] at hD
    | .bool _ :: _, _, _, _, _, hD => by simp [descList] at hD
    | .int _ :: _, _, _, _, _, hD => by simp [descList] at hD
    | .dbl _ _ :: _, _, _, _, _, hD => by simp [descList] at hD
    | .str _ :: _, _, _, _, _, hD => by simp [descList] at hD
    | .date _ _ :: _, _, _, _, _, hD => by simp [descList] at hD
    | .oid _ :: _, _, _, _, _, hD => by simp [descList] at hD
end

mutual
  theorem fpFields_excl : ∀ (fs : Fields) (cs : PSpec) (ps : List Path), Rep cs ps → NoDollar ps →
      descFields fs ps false = [] → fpFields fs cs false = .ok (exclFields fs ps)
    | [], _, _, _, _, _ => by simp [fpFields, exclFields]
    | (k, .arr xs) :: rest, cs, ps, hr, hd, hD => by
      simp only [descFields] at hD
      have ih := fpFields_excl rest cs ps hr hd (append_nil_right hD)
      have hD1 := append_nil_left hD
      cases ht : tget k cs with
      | none =>
        have hts := (hr.none_iff k).mp ht
        simp [fpFields, exclFields, ht, hts, ih, bind, Except.bind, pure, Except.pure]
      | some t =>
        cases t with
        | leaf v =>
          have hts := (hr.leaf_iff k).mp ⟨v, ht⟩
          have hne : tailsOf k ps ≠ [] := fun e => by simp [e] at hts
          simp [fpFields, exclFields, ht, hts, hne, ih, bind, Except.bind, pure, Except.pure]
        | node sub =>
          obtain ⟨h1, h2, h3⟩ := hr.node ht
          simp only [descVal] at hD1
          have ihl := fpList_excl xs sub _ h3 (noDollar_tailsOf k hd) (desc_cond h1 h2 hD1)
          simp [fpFields, exclFields, exclVal, ht, h1, h2, ih, ihl, bind, Except.bind, pure,
            Except.pure]
    | (k, .doc fs) :: rest, cs, ps, hr, hd, hD => by
      simp only [descFields] at hD
      have ih := fpFields_excl rest cs ps hr hd (append_nil_right hD)
      have hD1 := append_nil_left hD
      cases ht : tget k cs with
      | none =>
        have hts := (hr.none_iff k).mp ht
        simp [fpFields, exclFields, ht, hts, ih, bind, Except.bind, pure, Except.pure]
      | some t =>
        cases t with
        | leaf v =>
          have hts := (hr.leaf_iff k).mp ⟨v, ht⟩
          have hne : tailsOf k ps ≠ [] := fun e => by simp [e] at hts
          simp [fpFields, exclFields, ht, hts, hne, ih, bind, Except.bind, pure, Except.pure]
        | node sub =>
          obtain ⟨h1, h2, h3⟩ := hr.node ht
          simp only [descVal] at hD1
          have ihf := fpFields_excl fs sub _ h3 (noDollar_tailsOf k hd) (desc_cond h1 h2 hD1)
          simp [fpFields, exclFields, exclVal, ht, h1, h2, ih, ihf,
            guard_ok h3 (noDollar_tailsOf k hd), bind, Except.bind, pure, Except.pure]
    | (k, .null) :: rest, cs, ps, hr, hd, hD => by
      simp only [descFields] at hD
      have ih := fpFields_excl rest cs ps hr hd (append_nil_right hD)
      cases ht : tget k cs with
      | none =>
        have hts := (hr.none_iff k).mp ht
        simp [fpFields, exclFields, ht, hts, ih, bind, Except.bind, pure, Except.pure]
      | some t =>
        cases t with
        | leaf v =>
          have hts := (hr.leaf_iff k).mp ⟨v, ht⟩
          have hne : tailsOf k ps ≠ [] := fun e => by simp [e] at hts
          simp [fpFields, exclFields, ht, hts, hne, ih, bind, Except.bind, pure, Except.pure]
        | node sub =>
          obtain ⟨h1, h2, h3⟩ := hr.node ht
          have := desc_cond h1 h2 (append_nil_left hD)
          simp [descVal] at this
    | (k, .bool _) :: rest, cs, ps, hr, hd, hD => by
      simp only [descFields] at hD
      have ih := fpFields_excl rest cs ps hr hd (append_nil_right hD)
      cases ht : tget k cs with
      | none =>
        have hts := (hr.none_iff k).mp ht
        simp [fpFields, exclFields, ht, hts, ih, bind, Except.bind, pure, Except.pure]
      | some t =>
        cases t with
        | leaf v =>
          have hts := (hr.leaf_iff k).mp ⟨v, ht⟩
          have hne : tailsOf k ps ≠ [] := fun e => by simp [e] at hts
          simp [fpFields, exclFields, ht, hts, hne, ih, bind, Except.bind, pure, Except.pure]
        | node sub =>
          obtain ⟨h1, h2, h3⟩ := hr.node ht
          have := desc_cond h1 h2 (append_nil_left hD)
          simp [descVal] at this
    | (k, .int _) :: rest, cs, ps, hr, hd, hD => by
      simp only [descFields] at hD
      have ih := fpFields_excl rest cs ps hr hd (append_nil_right hD)
      cases ht : tget k cs with
      | none =>
        have hts := (hr.none_iff k).mp ht
        simp [fpFields, exclFields, ht, hts, ih, bind, Except.bind, pure, Except.pure]
      | some t =>
        cases t with
        | leaf v =>
          have hts := (hr.leaf_iff k).mp ⟨v, ht⟩
          have hne : tailsOf k ps ≠ [] := fun e => by simp [e] at hts
          simp [fpFields, exclFields, ht, hts, hne, ih, bind, Except.bind, pure, Except.pure]
        | node sub =>
          obtain ⟨h1, h2, h3⟩ := hr.node ht
          have := desc_cond h1 h2 (append_nil_left hD)
          simp [descVal] at this
    | (k, .dbl _ _) :: rest, cs, ps, hr, hd, hD => by
      simp only [descFields] at hD
      have ih := fpFields_excl rest cs ps hr hd (append_nil_right hD)
      cases ht : tget k cs with
      | none =>
        have hts := (hr.none_iff k).mp ht
        simp [fpFields, exclFields, ht, hts, ih, bind, Except.bind, pure, Except.pure]
      | some t =>
        cases t with
        | leaf v =>
          have hts := (hr.leaf_iff k).mp ⟨v, ht⟩
          have hne : tailsOf k ps ≠ [] := fun e => by simp [e] at hts
          simp [fpFields, exclFields, ht, hts, hne, ih, bind, Except.bind, pure, Except.pure]
        | node sub =>
          obtain ⟨h1, h2, h3⟩ := hr.node ht
          have := desc_cond h1 h2 (append_nil_left hD)
          simp [descVal] at this
    | (k, .str _) :: rest, cs, ps, hr, hd, hD => by
      simp only [descFields] at hD
      have ih := fpFields_excl rest cs ps hr hd (append_nil_right hD)
      cases ht : tget k cs with
      | none =>
        have hts := (hr.none_iff k).mp ht
        simp [fpFields, exclFields, ht, hts, ih, bind, Except.bind, pure, Except.pure]
      | some t =>
        cases t with
        | leaf v =>
          have hts := (hr.leaf_iff k).mp ⟨v, ht⟩
          have hne : tailsOf k ps ≠ [] := fun e => by simp [e] at hts
          simp [fpFields, exclFields, ht, hts, hne, ih, bind, Except.bind, pure, Except.pure]
        | node sub =>
          obtain ⟨h1, h2, h3⟩ := hr.node ht
          have := desc_cond h1 h2 (append_nil_left hD)
          simp [descVal] at this
    | (k, .date _ _) :: rest, cs, ps, hr, hd, hD => by
      simp only [descFields] at hD
      have ih := fpFields_excl rest cs ps hr hd (append_nil_right hD)
      cases ht : tget k cs with
      | none =>
        have hts := (hr.none_iff k).mp ht
        simp [fpFields, exclFields, ht, hts, ih, bind, Except.bind, pure, Except.pure]
      | some t =>
        cases t with
        | leaf v =>
          have hts := (hr.leaf_iff k).mp ⟨v, ht⟩
          have hne : tailsOf k ps ≠ [] := fun e => by simp [e] at hts
          simp [fpFields, exclFields, ht, hts, hne, ih, bind, Except.bind, pure, Except.pure]
        | node sub =>
          obtain ⟨h1, h2, h3⟩ := hr.node ht
          have := desc_cond h1 h2 (append_nil_left hD)
          simp [descVal] at this
    | (k, .oid _) :: rest, cs, ps, hr, hd, hD => by
      simp only [descFields] at hD
      have ih := fpFields_excl rest cs ps hr hd (append_nil_right hD)
      cases ht : tget k cs with
      | none =>
        have hts := (hr.none_iff k).mp ht
        simp [fpFields, exclFields, ht, hts, ih, bind, Except.bind, pure, Except.pure]
      | some t =>
        cases t with
        | leaf v =>
          have hts := (hr.leaf_iff k).mp ⟨v, ht⟩
          have hne : tailsOf k ps ≠ [] := fun e => by simp [e] at hts
          simp [fpFields, exclFields, ht, hts, hne, ih, bind, Except.bind, pure, Except.pure]
        | node sub =>
          obtain ⟨h1, h2, h3⟩ := hr.node ht
          have := desc_cond h1 h2 (append_nil_left hD)
          simp [descVal] at this
  theorem fpList_excl : ∀ (xs : List Val) (cs : PSpec) (ps : List Path), Rep cs ps → NoDollar ps →
      descList xs ps false = [] → fpList xs cs false = .ok (exclList xs ps)
    | [], _, _, _, _, _ => by simp [fpList, exclList]
    | .doc fs :: xs, cs, ps, hr, hd, hD => by
      simp only [descList] at hD
      have ih := fpList_excl xs cs ps hr hd (append_nil_right hD)
      have ihf := fpFields_excl fs cs ps hr hd (append_nil_left hD)
      simp [fpList, fpVal, exclList, exclVal, ih, ihf, guard_ok hr hd, bind, Except.bind, pure,
        Except.pure]
    | .arr _ :: _, _, _, _, _, hD => by simp [descList] at hD
    | .null :: _, _, _, _, _, hD => by simp [descList] at hD
    | .bool _ :: _, _, _, _, _, hD => by simp [descList] at hD
    | .int _ :: _, _, _, _, _, hD => by simp [descList] at hD
    | .dbl _ _ :: _, _, _, _, _, hD => by simp [descList] at hD
    | .str _ :: _, _, _, _, _, hD => by simp [descList] at hD
    | .date _ _ :: _, _, _, _, _, hD => by simp [descList] at hD
    | .oid _ :: _, _, _, _, _, hD => by simp [descList] at hD
end


end MongoModel.Proofs.C12
