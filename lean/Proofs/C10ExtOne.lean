/-
  Proofs.C10ExtOne — `update_one` / `replace_one`: the counts of the single-document update
  (collections without TTL index).
-/
import Proofs.C10ExtModified
import Proofs.C14Update

namespace MongoModel.Proofs.C10Ext
open MongoModel MongoModel.Spec
open MongoModel.Proofs.C10Lemmas MongoModel.Proofs.C09Lemmas MongoModel.Proofs.C14Lemmas
open MongoModel.Proofs.C08Lemmas

/-- the single-document loop over a snapshot whose first selected entry is `q`, when it succeeds -/
theorem loop_first_count (now : Int) (spec document nowV : Val) :
    ∀ (l : List (Val × Val)) (c : Coll) (m u : Nat) (q : Val × Val) (more : List (Val × Val))
      (c' : Coll) (m' u' : Nat),
      c.ttlIndexes = [] → DK l → LInv now [] l c → selectDocs spec l = .ok (q :: more) →
      updateLoop now spec document nowV false l c m u = (c', .ok (m', u')) →
      ∃ new, applyUpdate spec document nowV false q.2 = .ok new ∧ c' = c.setDoc q.1 new ∧
        m' = m + 1 ∧ u' = u + (if unchangedB new q.2 then 0 else 1) := by
  intro l
  induction l with
  | nil => intro c m u q more _ _ _ _ _ _ hs; cases hs
  | cons kv rest ih =>
    intro c m u q more c' m' u' hn hd hinv hs h
    have hl := hinv.lookup
    have hd' : DK rest := (List.pairwise_cons.1 hd).2
    obtain ⟨b, more', hb, hm, hsel⟩ := select_cons spec kv rest _ hs
    obtain ⟨key, v⟩ := kv
    have hb' : filterApplies spec v = .ok b := hb
    have hl' : c.lookup key = some v := hl
    cases b with
    | false =>
      simp only [Bool.false_eq_true, if_false] at hsel
      subst hsel
      have e : updateLoop now spec document nowV false ((key, v) :: rest) c m u =
          updateLoop now spec document nowV false rest c m u := by
        rw [updateLoop, hl']; dsimp only; rw [hb']
      rw [e] at h
      exact ih c m u q more c' m' u' hn hd' hinv.tail hm h
    | true =>
      simp only [if_true, List.cons.injEq] at hsel
      obtain ⟨rfl, _⟩ := hsel
      have h0 : updateLoop now spec document nowV false ((key, v) :: rest) c m u =
          updateLoop now spec document nowV false [(key, v)] c m u := by
        cases ha : applyUpdate spec document nowV false v with
        | error e =>
          rw [updateLoop, updateLoop, hl']; dsimp only; rw [hb']; dsimp only; rw [ha]
        | ok new =>
          rw [updateLoop_hit now spec document nowV false key v rest c m u v new hl' hb' ha,
            updateLoop_hit now spec document nowV false key v [] c m u v new hl' hb' ha]
          simp only [Bool.false_eq_true, if_false]
      have h1 : updateLoop now spec document nowV false [(key, v)] c m u = (c', .ok (m', u')) := by
        rw [← h0]; exact h
      rcases single_full now spec document nowV (key, v) c m u c' m' u' hn hl' h1 with
        ⟨hf, _⟩ | ⟨new, _, ha, rfl, rfl, rfl⟩
      · rw [hb'] at hf; cases hf
      · exact ⟨new, ha, rfl, rfl, rfl⟩

theorem lookup_setDoc (c : Coll) (q : Val × Val) (new : Val) (hd : DK c.docs) (hg : GK c.docs)
    (hq : q ∈ c.docs) : (c.setDoc q.1 new).lookup q.1 = some new := by
  have hk : c.hasKey q.1 = true := hasKey_of_mem hg hq
  have hmem : (q.1, new) ∈ (c.setDoc q.1 new).docs := by
    rw [setDoc_docs new hk]
    refine List.mem_map.2 ⟨q, hq, ?_⟩
    unfold setEntry; rw [(hg q hq).2]; rfl
  have hd1 : DK (c.setDoc q.1 new).docs := by
    rw [setDoc_docs new hk]; exact DK_map_setEntry _ _ hd
  have hg1 : GK (c.setDoc q.1 new).docs := by
    rw [setDoc_docs new hk]; exact GK_map_setEntry _ _ hg
  unfold Coll.lookup
  rw [find_of_mem hd1 hg1 hmem]
  rfl

theorem update_one_counts (cfg : Cfg) (now : Int) (c c' : Coll) (fs : Fields) (u : Val)
    (sel : List (Val × Val)) (res : UpdateResult)
    (hne : c.docs ≠ []) (hi : IdInv c) (hg : GoodKeys c) (hn : c.ttlIndexes = [])
    (hs : selectDocs (patchDT (.doc fs)) c.docs = .ok sel)
    (h : applyUpdateColl cfg now c (.doc fs) u false false = (c', .ok res)) :
    res.n = (sel.take 1).length ∧
    res.nModified = ((sel.take 1).filter (contentChangedAfter c')).length ∧
    res.upserted = none := by
  unfold applyUpdateColl at h
  extract_lets spec document nowV at h
  have hspec : spec = .doc (patchFields fs) := patch_doc fs
  have hs' : selectDocs spec c.docs = .ok sel := hs
  clear_value spec document nowV
  subst hspec
  rw [pre_nil now c _ hn hne] at h
  split at h
  · rename_i _ _ ss dfs hss
    split at h
    · cases h
    · dsimp only at h
      generalize hloop : updateLoop now (Val.doc (patchFields fs)) (Val.doc dfs) nowV false
        c.docs c 0 0 = lr at h
      obtain ⟨c3, r⟩ := lr
      dsimp only at h
      cases r with
      | error e => cases h
      | ok mu =>
        obtain ⟨matched, updated⟩ := mu
        simp only [Bool.not_false, Bool.true_or, if_true, Prod.mk.injEq, Except.ok.injEq] at h
        obtain ⟨rfl, rfl⟩ := h
        have hinv := linv_nil now c hn hi.1 hg c.docs (fun _ hp => hp)
        cases sel with
        | nil =>
          have hno : ∀ p ∈ c.docs, filterApplies (Val.doc (patchFields fs)) p.2 = .ok false := by
            intro p hp
            obtain ⟨h1, h2⟩ := select_filter _ _ _ hs'
            have := h2 p hp
            have hm : matchB (Val.doc (patchFields fs)) p = false := by
              have : p ∉ c.docs.filter (matchB (Val.doc (patchFields fs))) := by
                rw [← h1]; exact List.not_mem_nil
              simpa [List.mem_filter, hp] using this
            rw [hm] at this
            exact this
          rw [loop_nomatch now _ _ nowV false c hno c.docs 0 0] at hloop
          simp only [Prod.mk.injEq, Except.ok.injEq] at hloop
          obtain ⟨rfl, rfl, rfl⟩ := hloop
          exact ⟨rfl, rfl, rfl⟩
        | cons q more =>
          obtain ⟨new, _, rfl, rfl, rfl⟩ := loop_first_count now _ _ nowV c.docs c 0 0 q more c3
            matched updated hn hi.1 hinv hs' hloop
          have hq : q ∈ c.docs := (select_sublist _ _ _ hs').subset (List.mem_cons_self ..)
          refine ⟨rfl, ?_, rfl⟩
          simp only [List.take_succ_cons, List.take_zero, List.filter_cons, List.filter_nil,
            contentChangedAfter, lookup_setDoc c q new hi.1 hg hq]
          have : pyEq new q.2 = unchangedB new q.2 := rfl
          rw [this]
          cases unchangedB new q.2 <;> simp
  · cases h

end MongoModel.Proofs.C10Ext
