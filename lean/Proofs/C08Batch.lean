/-
  Proofs.C08Batch — `insert_many` against one-at-a-time inserts.
-/
import Proofs.C08Step

namespace MongoModel.Proofs.C08Lemmas
open MongoModel MongoModel.Spec

/-- the state left by one insert of a batch when it is rejected -/
def rejected (now : Int) (c : Coll) (fs : Fields) : Coll := insertRejected now c (.doc fs)

theorem ins1_ok (cfg : Cfg) (now : Int) (c c' : Coll) (fs : Fields) (id : Val)
    (h : insertDoc now c (.doc fs) = .ok (c', id)) :
    (stepColl cfg now c (.arr [.str "insert_one", .doc fs])).1 = c' := by
  rw [step_insert_one]; simp only [h]

theorem ins1_err (cfg : Cfg) (now : Int) (c : Coll) (fs : Fields) (e : Err)
    (h : insertDoc now c (.doc fs) = .error e) :
    (stepColl cfg now c (.arr [.str "insert_one", .doc fs])).1 = rejected now c fs := by
  rw [step_insert_one]; simp only [h]; rfl

theorem loop_cons_ok (now : Int) (ordered : Bool) (fs : Fields) (rest : List Val) (idx : Nat)
    (c c' : Coll) (ids errs : List Val) (n : Nat) (id : Val)
    (h : insertDoc now c (.doc fs) = .ok (c', id)) :
    insertManyLoop now ordered (.doc fs :: rest) idx c ids errs n =
      insertManyLoop now ordered rest (idx + 1) c' (ids ++ [id]) errs (n + 1) := by
  rw [insertManyLoop]; simp only [h]

theorem loop_cons_err (now : Int) (ordered : Bool) (fs : Fields) (rest : List Val) (idx : Nat)
    (c : Coll) (ids errs : List Val) (n : Nat) (e : Err)
    (h : insertDoc now c (.doc fs) = .error e) :
    insertManyLoop now ordered (.doc fs :: rest) idx c ids errs n =
      if e.isWriteError then
        if ordered then
          insertManyDone (rejected now c fs) ids
            (errs ++ [.doc [("index", .int idx), ("code", errCode e)]]) n
        else insertManyLoop now ordered rest (idx + 1) (rejected now c fs) ids
            (errs ++ [.doc [("index", .int idx), ("code", errCode e)]]) n
      else (rejected now c fs, .err e) := by
  rw [insertManyLoop]; simp only [h]; rfl

theorem seqInsert_cons (cfg : Cfg) (now : Int) (d : Val) (rest : List Val) (c : Coll) :
    seqInsert cfg now (d :: rest) c =
      seqInsert cfg now rest (stepColl cfg now c (.arr [.str "insert_one", d])).1 := rfl

theorem done_fst (c : Coll) (ids errs : List Val) (n : Nat) : (insertManyDone c ids errs n).1 = c := by
  unfold insertManyDone; split <;> rfl

theorem done_snoc (c : Coll) (ids errs : List Val) (x : Val) (n : Nat) :
    insertManyDone c ids (errs ++ [x]) n =
      (c, .bulkErr (.doc [("writeErrors", .arr (errs ++ [x])), ("nInserted", .int n)])) := by
  unfold insertManyDone; simp

theorem isDoc_cons {d : Val} {rest : List Val} (hd : (d :: rest).all Val.isDoc = true) :
    (∃ fs, d = .doc fs) ∧ rest.all Val.isDoc = true := by
  simp only [List.all_cons, Bool.and_eq_true] at hd
  refine ⟨?_, hd.2⟩
  cases d <;> simp [Val.isDoc] at hd
  exact ⟨_, rfl⟩

theorem loop_unordered (cfg : Cfg) (now : Int) (ds : List Val) (hd : ds.all Val.isDoc = true) :
    ∀ (idx : Nat) (c : Coll) (ids errs : List Val) (n : Nat),
      (∀ e, (insertManyLoop now false ds idx c ids errs n).2 ≠ .err e) →
      (insertManyLoop now false ds idx c ids errs n).1 = seqInsert cfg now ds c := by
  induction ds with
  | nil => intro idx c ids errs n _; rw [insertManyLoop, done_fst]; rfl
  | cons d rest ih =>
    obtain ⟨⟨fs, rfl⟩, hr⟩ := isDoc_cons hd
    intro idx c ids errs n hw
    rw [seqInsert_cons]
    cases hi : insertDoc now c (.doc fs) with
    | ok r =>
      obtain ⟨c', id⟩ := r
      rw [loop_cons_ok now false fs rest idx c c' ids errs n id hi] at hw ⊢
      rw [ins1_ok cfg now c c' fs id hi]
      exact ih hr _ _ _ _ _ hw
    | error e =>
      rw [loop_cons_err now false fs rest idx c ids errs n e hi] at hw ⊢
      rw [ins1_err cfg now c fs e hi]
      cases hwe : e.isWriteError with
      | true =>
        simp only [hwe, if_true, Bool.false_eq_true, if_false] at hw ⊢
        exact ih hr _ _ _ _ _ hw
      | false =>
        simp only [hwe, Bool.false_eq_true, if_false] at hw
        exact absurd rfl (hw e)

theorem loop_ordered (cfg : Cfg) (now : Int) (ds : List Val) (hd : ds.all Val.isDoc = true) :
    ∀ (idx : Nat) (c : Coll) (ids errs : List Val) (n : Nat),
      ∃ k, k ≤ ds.length ∧
        (insertManyLoop now true ds idx c ids errs n).1 = seqInsert cfg now (ds.take k) c ∧
        ((insertManyLoop now true ds idx c ids errs n).2.isErr = false → errs = [] ∧ k = ds.length) := by
  induction ds with
  | nil =>
    intro idx c ids errs n
    refine ⟨0, Nat.le_refl _, ?_, ?_⟩
    · rw [insertManyLoop, done_fst]; rfl
    · rw [insertManyLoop]; unfold insertManyDone
      cases errs <;> simp [Out.isErr]
  | cons d rest ih =>
    obtain ⟨⟨fs, rfl⟩, hr⟩ := isDoc_cons hd
    intro idx c ids errs n
    cases hi : insertDoc now c (.doc fs) with
    | ok r =>
      obtain ⟨c', id⟩ := r
      rw [loop_cons_ok now true fs rest idx c c' ids errs n id hi]
      obtain ⟨k, hk, hst, hfin⟩ := ih hr (idx + 1) c' (ids ++ [id]) errs (n + 1)
      refine ⟨k + 1, by simpa using hk, ?_, ?_⟩
      · rw [List.take_succ_cons, seqInsert_cons, ins1_ok cfg now c c' fs id hi]; exact hst
      · intro h; obtain ⟨h1, h2⟩ := hfin h; exact ⟨h1, by simp [h2]⟩
    | error e =>
      rw [loop_cons_err now true fs rest idx c ids errs n e hi]
      refine ⟨1, by simp, ?_, ?_⟩
      · rw [List.take_succ_cons, seqInsert_cons, ins1_err cfg now c fs e hi, List.take_zero]
        cases hwe : e.isWriteError with
        | true => simp only [if_true, done_fst]; rfl
        | false => simp only [Bool.false_eq_true, if_false]; rfl
      · cases hwe : e.isWriteError with
        | true => simp [done_snoc, Out.isErr]
        | false => simp [Out.isErr]

theorem loop_details (now : Int) (ds : List Val) :
    ∀ (idx : Nat) (c : Coll) (ids : List Val) (n : Nat) (details : Val), idx = n →
      (insertManyLoop now true ds idx c ids [] n).2 = .bulkErr details →
      ∃ (k : Int) (code : Val),
        details = .doc [("writeErrors", .arr [.doc [("index", .int k), ("code", code)]]),
                        ("nInserted", .int k)] := by
  induction ds with
  | nil =>
    intro idx c ids n details _ h
    rw [insertManyLoop] at h; simp [insertManyDone] at h
  | cons d rest ih =>
    intro idx c ids n details hn h
    unfold insertManyLoop at h
    split at h
    · exact ih _ _ _ _ _ (by omega) h
    · rename_i e hi
      dsimp only at h
      split at h
      · simp only [if_true, List.nil_append, insertManyDone, List.isEmpty_cons,
          Bool.false_eq_true, if_false, Out.bulkErr.injEq] at h
        subst h
        exact ⟨_, _, by rw [hn]⟩
      · cases h

end MongoModel.Proofs.C08Lemmas
