/-
  Proofs.C02ExtMain — a whole operator update is the sequential run of its entries
  (`applyOps_eq`, `flat_ok`, `flat_ok_conv`), every entry is local at the keys it addresses
  (`estep_local`), hence the whole update is the pointwise combination of its entries.
-/
import Spec.UpdateSpecExt
import Proofs.C02ExtOps

set_option linter.unusedSimpArgs false
set_option linter.unusedVariables false

namespace MongoModel.Proofs.C02Lemmas
open MongoModel MongoModel.Spec

/-! ### one operator of the loop -/

/-- what the operator loop does for the operator `k : v` (with `$`-keys in the update, so that the
    replacement branch is an error) -/
def opRun (spec now : Val) (wi : Bool) (k : String) (v : Val) (d : Val) : R Val :=
  match updaterOf k with
  | some u => updateFields u now v d
  | none =>
    if k = "$rename" then renameFields v d
    else if k = "$setOnInsert" then (if !wi then .ok d else updateFields .set now v d)
    else if k = "$currentDate" then updateFields .currentDate now v d
    else if k = "$addToSet" then eachField v d (addToSetField spec)
    else if k = "$pull" then eachField v d pullField
    else if k = "$pullAll" then eachField v d (pullAllField spec)
    else if k = "$push" then eachField v d (pushField spec)
    else .error .valueErr

theorem applyOps_eq (spec now : Val) (wi : Bool) (whole : Fields)
    (hw : whole.any (fun kv => kv.1.startsWith "$") = true) :
    ∀ (ops : Fields) (first : Bool) (d : Val),
      applyOps spec now wi whole ops first d =
        ops.foldlM (fun acc kv => opRun spec now wi kv.1 kv.2 acc) d
  | [], first, d => by simp only [applyOps, List.foldlM_nil]; rfl
  | (k, v) :: rest, first, d => by
    have ih := fun f d' => applyOps_eq spec now wi whole hw rest f d'
    cases hu : updaterOf k with
    | some u =>
      simp only [applyOps, List.foldlM_cons, hu, ih]
      rw [opRun]; simp only [hu]
    | none =>
      simp only [applyOps, List.foldlM_cons, hu]
      rw [opRun]; simp only [hu]
      by_cases h1 : k = "$rename"
      · simp only [if_pos h1, ih]
      simp only [if_neg h1]
      by_cases h2 : k = "$setOnInsert"
      · simp only [if_pos h2]
        by_cases h3 : (!wi) = true
        · simp only [if_pos h3, ih]; rfl
        · simp only [if_neg h3, ih]
      simp only [if_neg h2]
      by_cases h4 : k = "$currentDate"
      · simp only [if_pos h4, ih]
      simp only [if_neg h4]
      by_cases h5 : k = "$addToSet"
      · simp only [if_pos h5, ih]
      simp only [if_neg h5]
      by_cases h6 : k = "$pull"
      · simp only [if_pos h6, ih]
      simp only [if_neg h6]
      by_cases h7 : k = "$pullAll"
      · simp only [if_pos h7, ih]
      simp only [if_neg h7]
      by_cases h8 : k = "$push"
      · simp only [if_pos h8, ih]
      simp only [if_neg h8, replaceWhole_dollar whole _ hw]
      cases first <;> rfl

/-! ### entries -/

/-- the step of one entry: the operator with that single field -/
def estep (spec now : Val) (wi : Bool) (d : Val) (e : Entry) : R Val :=
  opRun spec now wi e.1 (.doc [(e.2.1, e.2.2)]) d

def entriesOf (k : String) (v : Val) : List Entry :=
  match v with
  | .doc body => body.map (fun fv => (k, fv.1, fv.2))
  | _ => []

theorem entries_cons (k : String) (v : Val) (rest : Fields) :
    entries ((k, v) :: rest) = entriesOf k v ++ entries rest := by
  simp only [entries, entriesOf, List.flatMap_cons]
  cases v <;> rfl

theorem addressed_single (e : Entry) : addressed (single e) = eheads e := by
  simp only [addressed, single, eheads, List.flatMap_cons, List.flatMap_nil, List.append_nil]
  rfl

theorem opAddr_eq (k : String) (v : Val) : opAddr k v = (entriesOf k v).flatMap eheads := by
  cases v with
  | doc body =>
    simp only [opAddr, entriesOf, List.flatMap_map, eheads]
    rfl
  | _ => simp only [opAddr, entriesOf, List.flatMap_nil]

theorem addressed_entries : ∀ (u : Fields), addressed u = (entries u).flatMap eheads
  | [] => by simp [addressed, entries]
  | (k, v) :: rest => by
    rw [addressed_cons, entries_cons, List.flatMap_append, addressed_entries rest, opAddr_eq]

/-- the update made of one entry runs that entry's step -/
theorem applyUpdate_single (spec now : Val) (wi : Bool) (e : Entry) (d : Val)
    (he : e.1.startsWith "$" = true) (hp : positionalUpdate (single e) = false) :
    applyUpdate spec (.doc (single e)) now wi d = estep spec now wi d e := by
  have hw : (single e).any (fun kv => kv.1.startsWith "$") = true := by
    simp [single, he]
  simp only [single] at hw hp ⊢
  simp only [applyUpdate, hp, Bool.false_eq_true, if_false]
  rw [applyOps_eq spec now wi _ hw]
  simp only [List.foldlM_cons, List.foldlM_nil, estep]
  exact bind_ok_id _

end MongoModel.Proofs.C02Lemmas

namespace MongoModel.Proofs.C02Lemmas
open MongoModel MongoModel.Spec

/-! ### the kinds of operators -/

/-- the four shapes `opRun k` can have -/
inductive OpKind (spec now : Val) (wi : Bool) (k : String) : Prop
  | fields (u : Updater) (hk : k ≠ "$rename")
      (h : ∀ v d, opRun spec now wi k v d = updateFields u now v d)
  | each (f : Val → String → Val → R Val)
      (h : ∀ v d, opRun spec now wi k v d = eachField v d f)
      (hl : ∀ p a, Local (eheads (k, p, a)) (fun d => f d p a))
  | skip (h : ∀ v d, opRun spec now wi k v d = .ok d)
  | unknown (hk : operatorNames.contains k = false)
      (h : ∀ v d, opRun spec now wi k v d = .error .valueErr)

theorem eheads_plain {k : String} (hk : k ≠ "$rename") (p : String) (a : Val) :
    eheads (k, p, a) = [headOf p] := by
  simp only [eheads, if_neg hk]

theorem updaterOf_ne_rename {k : String} {u : Updater} (h : updaterOf k = some u) :
    k ≠ "$rename" := by
  intro e; subst e
  have : updaterOf "$rename" = none := by decide +kernel
  rw [this] at h; cases h

theorem updaterOf_none_known {k : String} (hu : updaterOf k = none) (h1 : k ≠ "$rename")
    (h2 : k ≠ "$setOnInsert") (h4 : k ≠ "$currentDate") (h5 : k ≠ "$addToSet") (h6 : k ≠ "$pull")
    (h7 : k ≠ "$pullAll") (h8 : k ≠ "$push") : operatorNames.contains k = false := by
  have n1 : k ≠ "$set" := by intro e; subst e; revert hu; decide +kernel
  have n2 : k ≠ "$unset" := by intro e; subst e; revert hu; decide +kernel
  have n3 : k ≠ "$inc" := by intro e; subst e; revert hu; decide +kernel
  have n4 : k ≠ "$max" := by intro e; subst e; revert hu; decide +kernel
  have n5 : k ≠ "$min" := by intro e; subst e; revert hu; decide +kernel
  have n6 : k ≠ "$pop" := by intro e; subst e; revert hu; decide +kernel
  simp only [operatorNames, List.contains_cons, List.contains_nil, Bool.or_false, beq_iff_eq,
    n1, n2, n3, n4, n5, n6, h1, h2, h4, h5, h6, h7, h8, Bool.or_self, decide_false,
    beq_eq_false_iff_ne, ne_eq, not_false_eq_true, Bool.false_or]
  simp [*]

theorem opKind (spec now : Val) (wi : Bool) (k : String) : OpKind spec now wi k := by
  cases hu : updaterOf k with
  | some u =>
    exact .fields u (updaterOf_ne_rename hu) (fun v d => by simp only [opRun, hu])
  | none =>
    by_cases h1 : k = "$rename"
    · refine .each _ (fun v d => by simp only [opRun, hu, if_pos h1]; rfl) ?_
      intro p a
      subst h1
      exact (rename_single_local p a).congr
        (fun d => by simp only [renameFields, eachField_single])
    by_cases h2 : k = "$setOnInsert"
    · by_cases h3 : (!wi) = true
      · exact .skip (fun v d => by simp only [opRun, hu, if_neg h1, if_pos h2, if_pos h3])
      · exact .fields .set h1
          (fun v d => by simp only [opRun, hu, if_neg h1, if_pos h2, if_neg h3])
    by_cases h4 : k = "$currentDate"
    · exact .fields .currentDate h1
        (fun v d => by simp only [opRun, hu, if_neg h1, if_neg h2, if_pos h4])
    by_cases h5 : k = "$addToSet"
    · refine .each (addToSetField spec)
        (fun v d => by simp only [opRun, hu, if_neg h1, if_neg h2, if_neg h4, if_pos h5]) ?_
      intro p a; rw [eheads_plain h1]
      exact local_of_sameEdit (fun fs gs hg => addToSetField_same spec p a fs gs hg)
    by_cases h6 : k = "$pull"
    · refine .each pullField
        (fun v d => by
          simp only [opRun, hu, if_neg h1, if_neg h2, if_neg h4, if_neg h5, if_pos h6]) ?_
      intro p a; rw [eheads_plain h1]
      exact local_of_sameEdit (fun fs gs hg => pullField_same p a fs gs hg)
    by_cases h7 : k = "$pullAll"
    · refine .each (pullAllField spec)
        (fun v d => by
          simp only [opRun, hu, if_neg h1, if_neg h2, if_neg h4, if_neg h5, if_neg h6,
            if_pos h7]) ?_
      intro p a; rw [eheads_plain h1]
      exact local_of_sameEdit (fun fs gs hg => pullAllField_same spec p a fs gs hg)
    by_cases h8 : k = "$push"
    · refine .each (pushField spec)
        (fun v d => by
          simp only [opRun, hu, if_neg h1, if_neg h2, if_neg h4, if_neg h5, if_neg h6,
            if_neg h7, if_pos h8]) ?_
      intro p a; rw [eheads_plain h1]
      exact local_of_sameEdit (fun fs gs hg => pushField_same spec p a fs gs hg)
    exact .unknown (updaterOf_none_known hu h1 h2 h4 h5 h6 h7 h8)
      (fun v d => by
        simp only [opRun, hu, if_neg h1, if_neg h2, if_neg h4, if_neg h5, if_neg h6, if_neg h7,
          if_neg h8])

/-- every entry is local at the keys it addresses -/
theorem estep_local (spec now : Val) (wi : Bool) (e : Entry) :
    Local (eheads e) (fun d => estep spec now wi d e) := by
  obtain ⟨k, p, a⟩ := e
  simp only [estep]
  cases opKind spec now wi k with
  | fields u hk h =>
    rw [eheads_plain hk]
    exact (updateFields_single_local u now a p).congr (fun d => h _ d)
  | each f h hl =>
    refine (hl p a).congr (fun d => ?_)
    rw [h, eachField_single]
  | skip h => exact (Local.id _).congr (fun d => h _ d)
  | unknown hk h => exact (Local.fail _ _).congr (fun d => h _ d)

end MongoModel.Proofs.C02Lemmas
