/-
  Proofs.C04Spec7 — `eval_eq_spec`, part 7: named arguments, `$let` bindings, `$switch`
  branches, `$map`/`$filter` item loops, whole-argument operators.
-/
import Proofs.C04Spec6

set_option linter.unusedSimpArgs false
set_option linter.unnecessarySeqFocus false

namespace MongoModel.Proofs.C04
open MongoModel MongoModel.Expr MongoModel.Spec

/-! ### named arguments -/

theorem sAt_eq (root : Val) (env : Env) (key : String) (gs : Fields) (v : Val)
    (h : dget key gs = some v) : sAt root env key gs = sEval root env v := by
  induction gs with
  | nil => simp [dget] at h
  | cons kv r ih =>
    obtain ⟨k, w⟩ := kv
    by_cases hk : k = key
    · simp [dget, hk] at h; subst h; simp [sAt, hk]
    · simp [dget, hk] at h; simp [sAt, hk, ih h]

theorem rAt_eq (root : Val) (env : Env) (key : String) (gs : Fields) (v : Val)
    (h : dget key gs = some v) :
    rAt root env key gs = okReasons (sEval root env v) ++ rExpr root env v := by
  induction gs with
  | nil => simp [dget] at h
  | cons kv r ih =>
    obtain ⟨k, w⟩ := kv
    by_cases hk : k = key
    · simp [dget, hk] at h; subst h; simp [rAt, hk]
    · simp [dget, hk] at h; simp [rAt, hk, ih h]

theorem dget_mem' {k : String} {fs : Fields} {v : Val} (h : dget k fs = some v) : (k, v) ∈ fs := by
  induction fs with
  | nil => simp [dget] at h
  | cons kv r ih =>
    obtain ⟨a, b⟩ := kv
    by_cases ha : a = k
    · simp [dget, ha] at h; subst h; subst ha; simp
    · simp [dget, ha] at h; exact List.mem_cons_of_mem _ (ih h)

/-- the sub-expression under `key`: both sides evaluate it, and agree inside D -/
theorem at_agree (c : Ctx) (root : Val) (env : Env) (hr : EnvRel c root env) (key : String)
    (gs : Fields) (v : Val) (hg : dget key gs = some v) (hsub : AllSubFields Agrees gs)
    (h : rAt root env key gs = []) : evalAt c key gs = sAt root env key gs := by
  rw [evalAt_eq, hg, sAt_eq root env key gs v hg]
  rw [rAt_eq root env key gs v hg, List.append_eq_nil_iff] at h
  exact (hsub.mem (dget_mem' hg)).self c root env hr h.2 h.1

theorem at_ok (root : Val) (env : Env) (key : String) (gs : Fields) (v : Val)
    (hg : dget key gs = some v) (h : rAt root env key gs = []) :
    ∃ r, sAt root env key gs = .ok r := by
  rw [rAt_eq root env key gs v hg, List.append_eq_nil_iff] at h
  rw [sAt_eq root env key gs v hg]
  exact okReasons_nil _ h.1

theorem dhas_dget {k : String} {gs : Fields} (h : dhas k gs = true) : ∃ v, dget k gs = some v := by
  simp only [dhas] at h
  cases hd : dget k gs with
  | none => simp [hd] at h
  | some v => exact ⟨v, rfl⟩

/-! ### `$let` -/

theorem evalVarsAt_eq (c : Ctx) (gs vs : Fields) (h : dget "vars" gs = some (.doc vs)) :
    evalVarsAt c gs = evalVars c vs := by
  induction gs with
  | nil => simp [dget] at h
  | cons kv r ih =>
    obtain ⟨k, w⟩ := kv
    by_cases hk : k = "vars"
    · simp [dget, hk] at h; subst h; simp [evalVarsAt, hk]
    · simp [dget, hk] at h
      cases w <;> simp [evalVarsAt, hk, ih h]

theorem sVarsAt_eq (root : Val) (env : Env) (gs vs : Fields) (h : dget "vars" gs = some (.doc vs)) :
    sVarsAt root env gs = sVars root env vs := by
  induction gs with
  | nil => simp [dget] at h
  | cons kv r ih =>
    obtain ⟨k, w⟩ := kv
    by_cases hk : k = "vars"
    · simp [dget, hk] at h; subst h; simp [sVarsAt, hk]
    · simp [dget, hk] at h
      cases w <;> simp [sVarsAt, hk, ih h]

theorem rVarsAt_eq (root : Val) (env : Env) (gs vs : Fields) (h : dget "vars" gs = some (.doc vs)) :
    rVarsAt root env gs = rFields root env vs := by
  induction gs with
  | nil => simp [dget] at h
  | cons kv r ih =>
    obtain ⟨k, w⟩ := kv
    by_cases hk : k = "vars"
    · simp [dget, hk] at h; subst h; simp [rVarsAt, hk]
    · simp [dget, hk] at h
      cases w <;> simp [rVarsAt, hk, ih h]

/-- the variables of a `$let`: the same bindings on both sides, missing values included -/
theorem vars_agree (c : Ctx) (root : Val) (env : Env) (hr : EnvRel c root env) (vs : Fields)
    (hsub : AllSubFields Agrees vs) (h : rFields root env vs = []) :
    ∃ bs : Env, sVars root env vs = .ok bs ∧ evalVars c vs = .ok bs := by
  induction vs with
  | nil => exact ⟨[], rfl, rfl⟩
  | cons kv r ih =>
    obtain ⟨k, v⟩ := kv
    simp only [AllSubFields] at hsub
    have hkv := rFields_nil root env ((k, v) :: r) h k v (by simp)
    have hrest : rFields root env r = [] := by
      simp only [rFields, List.append_eq_nil_iff] at h; exact h.2
    obtain ⟨x, hx⟩ := okReasons_nil _ hkv.1
    have he := hsub.1.self c root env hr hkv.2 hkv.1
    obtain ⟨bs, hb, hb'⟩ := ih hsub.2 hrest
    exact ⟨(k, x) :: bs, by simp [sVars, hx, hb, bind, Except.bind, pure, Except.pure],
      by simp [evalVars, he, hx, hb', bind, Except.bind, pure, Except.pure]⟩

theorem EnvRel.bindAll {c : Ctx} {root : Val} {env : Env} (h : EnvRel c root env) (bs : Env) :
    EnvRel (c.bindAll bs) root (bs.reverse ++ env) := by
  induction bs generalizing c env with
  | nil => simpa [Ctx.bindAll] using h
  | cons kv r ih =>
    obtain ⟨k, v⟩ := kv
    have := ih (h.bindOpt k v)
    simpa [Ctx.bindAll, List.reverse_cons, List.append_assoc] using this

end MongoModel.Proofs.C04
