/-
  Proofs.C02ExtOps — every entry `(operator, path, argument)` of an update is a step that reads
  and writes the document only at the head of its path: on two documents holding the same value
  under that key it fails alike or makes the same edit (`SameEdit`).
-/
import Spec.UpdateSpecExt
import Proofs.C02ExtBase

set_option linter.unusedSimpArgs false
set_option linter.unusedVariables false

namespace MongoModel.Proofs.C02Lemmas
open MongoModel MongoModel.Spec

/-! ### the same edit of one key on two documents -/

/-- the two outcomes are the same error, or the same edit (nothing / `h := x` / delete `h`) of
    `fs` and of `gs` -/
inductive SameEdit (h : String) (fs gs : Fields) : R Val → R Val → Prop
  | err (e : Err) : SameEdit h fs gs (.error e) (.error e)
  | keep : SameEdit h fs gs (.ok (.doc fs)) (.ok (.doc gs))
  | set (x : Val) : SameEdit h fs gs (.ok (.doc (dset h x fs))) (.ok (.doc (dset h x gs)))
  | erase : SameEdit h fs gs (.ok (.doc (derase h fs))) (.ok (.doc (derase h gs)))

theorem SameEdit.bindSet (h : String) (fs gs : Fields) (X : R Val) :
    SameEdit h fs gs (X.bind (fun s => .ok (.doc (dset h s fs))))
      (X.bind (fun s => .ok (.doc (dset h s gs)))) := by
  cases X with
  | error e => exact .err e
  | ok s => exact .set s

theorem SameEdit.rel {h : String} {fs gs : Fields} {r s : R Val} (he : SameEdit h fs gs r s)
    (ha : Agree [h] fs gs) : Rel [h] fs gs r s := by
  have hp : proj h fs = proj h gs := ha h (List.mem_singleton.mpr rfl)
  have hne : ∀ k, k ∉ [h] → k ≠ h := fun k hk e => hk (List.mem_singleton.mpr e)
  cases he with
  | err e => exact .err e
  | keep => exact .ok fs gs ha (FrameP.refl _ _) (FrameP.refl _ _)
  | set x =>
    refine .ok _ _ ?_ (fun k hk => proj_dset_other x (hne k hk) fs)
      (fun k hk => proj_dset_other x (hne k hk) gs)
    intro k hk
    cases List.mem_singleton.mp hk
    rw [proj_dset_same, proj_dset_same, hp]
  | erase =>
    refine .ok _ _ ?_ (fun k hk => proj_derase_other (hne k hk) fs)
      (fun k hk => proj_derase_other (hne k hk) gs)
    intro k hk
    cases List.mem_singleton.mp hk
    rw [proj_derase_same, proj_derase_same, hp]

/-- a step whose outcome on a document is an edit of key `h` decided by the value under `h` is
    local at `h` -/
theorem local_of_sameEdit {h : String} {F : Val → R Val}
    (hF : ∀ fs gs, dget h fs = dget h gs → SameEdit h fs gs (F (.doc fs)) (F (.doc gs))) :
    Local [h] F :=
  fun fs gs ha => (hF fs gs (ha.dget (List.mem_singleton.mpr rfl))).rel ha

/-! ### the single-field updaters -/

theorem runUpdater_same (u : Updater) (now v : Val) (p : String) (fs gs : Fields)
    (hg : dget p fs = dget p gs) :
    SameEdit p fs gs (runUpdater u now (.doc fs) p v) (runUpdater u now (.doc gs) p v) := by
  cases u
  · exact .set v
  · exact .erase
  · simp only [runUpdater, ← hg]; exact SameEdit.bindSet _ _ _ _
  · simp only [runUpdater, ← hg]; exact SameEdit.bindSet _ _ _ _
  · simp only [runUpdater, ← hg]; exact SameEdit.bindSet _ _ _ _
  · -- pop
    simp only [runUpdater, ← hg]
    cases popSpec v with
    | error e => exact .err e
    | ok last =>
      simp only [bind, Except.bind]
      cases dget p fs with
      | none => exact .keep
      | some c =>
        cases c <;> first | exact .err _ | exact .set _
  · simp only [runUpdater]
    split
    · exact .err _
    · exact .set _

theorem usf_same (u : Updater) (now v : Val) (p : String) (rest : List String) (fs gs : Fields)
    (hg : dget p fs = dget p gs) :
    SameEdit p fs gs (updateSingleField u now v (p :: rest) (.doc fs))
      (updateSingleField u now v (p :: rest) (.doc gs)) := by
  cases rest with
  | nil => rw [usf_last, usf_last]; exact runUpdater_same u now v p fs gs hg
  | cons q rest =>
    rw [usf_doc, usf_doc, ← hg]
    cases dget p fs with
    | some sub => exact SameEdit.bindSet _ _ _ _
    | none =>
      by_cases hu : (u = .unset || u = .pop) = true
      · simp only [hu, if_true]; exact .keep
      · simp only [hu, if_false]; exact SameEdit.bindSet _ _ _ _

theorem bind_ok_id (x : R Val) : (x.bind fun d => Except.ok d) = x := by
  cases x <;> rfl

/-- one field of an `updateFields` operator, as an update of its own -/
theorem updateFields_single (u : Updater) (now a : Val) (p : String) (d : Val) :
    updateFields u now (.doc [(p, a)]) d =
      if hasDollarPart p then unmodelled
      else if !keyOk p then unmodelled
      else updateSingleField u now a (splitDots p) d := by
  simp only [updateFields, List.any_cons, List.any_nil, Bool.or_false, List.foldlM_cons,
    List.foldlM_nil]
  by_cases h1 : hasDollarPart p = true
  · simp only [h1, if_true]
  · simp only [h1, if_false, Bool.false_eq_true]
    exact bind_ok_id _

theorem updateFields_single_local (u : Updater) (now a : Val) (p : String) :
    Local [headOf p] (fun d => updateFields u now (.doc [(p, a)]) d) := by
  refine local_of_sameEdit ?_
  intro fs gs hg
  rw [updateFields_single, updateFields_single]
  by_cases h1 : hasDollarPart p = true
  · simp only [h1, if_true]; exact .err _
  · simp only [h1, if_false, Bool.false_eq_true]
    by_cases h2 : (!keyOk p) = true
    · simp only [h2, if_true]; exact .err _
    · simp only [h2, if_false, Bool.false_eq_true]
      rw [splitDots_cons]
      exact usf_same u now a _ _ fs gs hg

/-! ### `withSubdoc` -/

theorem withSubdoc_same (f : Val → String → R Val) (create : Bool) (p : String)
    (rest : List String) (fol : Bool) (ss : Val) (fs gs : Fields)
    (hf : SameEdit p fs gs (f (.doc fs) p) (f (.doc gs) p))
    (hg : dget p fs = dget p gs) :
    SameEdit p fs gs (withSubdoc f create (p :: rest) fol ss (.doc fs))
      (withSubdoc f create (p :: rest) fol ss (.doc gs)) := by
  cases rest with
  | nil =>
    simp only [withSubdoc]
    exact hf
  | cons q rest =>
    simp only [withSubdoc, ← hg]
    by_cases hc : (!create && (dget p fs).isNone) = true
    · simp only [hc, if_true]; exact .keep
    · simp only [hc, if_false, Bool.false_eq_true]
      generalize (ite ((!fol) = true) _ _ : Bool × Val × Bool) = t
      by_cases hb : t.2.2 = true
      · simp only [hb, if_true]; exact .err _
      · simp only [hb, if_false, Bool.false_eq_true]
        exact SameEdit.bindSet _ _ _ _

/-! ### the in-line array operators -/

theorem splitDots_shape (field : String) : ∃ rest, splitDots field = headOf field :: rest :=
  ⟨_, splitDots_cons field⟩

theorem docsAlong_congr (p q : String) (rest : List String) (fs gs : Fields)
    (hg : dget p fs = dget p gs) :
    docsAlong (p :: q :: rest) (.doc fs) = docsAlong (p :: q :: rest) (.doc gs) := by
  simp only [docsAlong, hg]

theorem addToSetField_same (spec : Val) (field : String) (value : Val) (fs gs : Fields)
    (hg : dget (headOf field) fs = dget (headOf field) gs) :
    SameEdit (headOf field) fs gs (addToSetField spec (.doc fs) field value)
      (addToSetField spec (.doc gs) field value) := by
  obtain ⟨rest, hsd⟩ := splitDots_shape field
  generalize headOf field = p at hsd hg ⊢
  simp only [addToSetField]
  by_cases h1 : hasDollarPart field = true
  · simp only [h1, if_true]; exact .err _
  simp only [h1, if_false, Bool.false_eq_true]
  by_cases h2 : (!keyOk field) = true
  · simp only [h2, if_true]; exact .err _
  simp only [h2, if_false, Bool.false_eq_true, hsd]
  cases rest with
  | nil =>
    simp only [← hg]
    exact SameEdit.bindSet _ _ _ _
  | cons q rest =>
    simp only []
    rw [docsAlong_congr p q rest fs gs hg]
    by_cases h3 : (!docsAlong (p :: q :: rest) (.doc gs)) = true
    · simp only [h3, if_true]; exact .err _
    · simp only [h3, if_false, Bool.false_eq_true]
      refine withSubdoc_same _ _ _ _ _ _ fs gs ?_ hg
      simp only [← hg]
      exact SameEdit.bindSet _ _ _ _

theorem pullField_same (field : String) (value : Val) (fs gs : Fields)
    (hg : dget (headOf field) fs = dget (headOf field) gs) :
    SameEdit (headOf field) fs gs (pullField (.doc fs) field value)
      (pullField (.doc gs) field value) := by
  obtain ⟨rest, hsd⟩ := splitDots_shape field
  generalize headOf field = p at hsd hg ⊢
  simp only [pullField]
  by_cases h1 : hasDollarPart field = true
  · simp only [h1, if_true]; exact .err _
  simp only [h1, if_false, Bool.false_eq_true]
  by_cases h2 : (!keyOk field) = true
  · simp only [h2, if_true]; exact .err _
  simp only [h2, if_false, Bool.false_eq_true, hsd, pullWalk, ← hg]
  cases dget p fs with
  | none => exact .keep
  | some sub => exact SameEdit.bindSet _ _ _ _

theorem pullAllField_same (spec : Val) (field : String) (value : Val) (fs gs : Fields)
    (hg : dget (headOf field) fs = dget (headOf field) gs) :
    SameEdit (headOf field) fs gs (pullAllField spec (.doc fs) field value)
      (pullAllField spec (.doc gs) field value) := by
  obtain ⟨rest, hsd⟩ := splitDots_shape field
  generalize headOf field = p at hsd hg ⊢
  simp only [pullAllField]
  by_cases h1 : hasDollarPart field = true
  · simp only [h1, if_true]; exact .err _
  simp only [h1, if_false, Bool.false_eq_true]
  by_cases h2 : (!keyOk field) = true
  · simp only [h2, if_true]; exact .err _
  simp only [h2, if_false, Bool.false_eq_true, hsd]
  cases rest with
  | nil =>
    simp only [← hg]
    cases dget p fs with
    | none => exact .keep
    | some cur => exact SameEdit.bindSet _ _ _ _
  | cons q rest =>
    simp only []
    refine withSubdoc_same _ _ _ _ _ _ fs gs ?_ hg
    simp only [pullAllAt, ← hg]
    cases dget p fs with
    | none => exact .keep
    | some cur => exact SameEdit.bindSet _ _ _ _

theorem pushField_same (spec : Val) (field : String) (value : Val) (fs gs : Fields)
    (hg : dget (headOf field) fs = dget (headOf field) gs) :
    SameEdit (headOf field) fs gs (pushField spec (.doc fs) field value)
      (pushField spec (.doc gs) field value) := by
  obtain ⟨rest, hsd⟩ := splitDots_shape field
  generalize headOf field = p at hsd hg ⊢
  simp only [pushField]
  by_cases h1 : hasDollarPart field = true
  · simp only [h1, if_true]; exact .err _
  simp only [h1, if_false, Bool.false_eq_true]
  by_cases h2 : (!keyOk field) = true
  · simp only [h2, if_true]; exact .err _
  simp only [h2, if_false, Bool.false_eq_true, hsd]
  refine withSubdoc_same _ _ _ _ _ _ fs gs ?_ hg
  simp only [← hg]
  exact SameEdit.bindSet _ _ _ _

/-- one field of an in-line operator, as an update of its own -/
theorem eachField_single (f : Val → String → Val → R Val) (p : String) (a d : Val) :
    eachField (.doc [(p, a)]) d f = f d p a := by
  simp only [eachField, List.foldlM_cons, List.foldlM_nil]
  exact bind_ok_id _

end MongoModel.Proofs.C02Lemmas

namespace MongoModel.Proofs.C02Lemmas
open MongoModel MongoModel.Spec

/-! ### `$rename`: two keys -/

/-- the top-level keys one entry addresses: the head of its path and, for `$rename`, the target -/
def eheads (e : Entry) : List String :=
  headOf e.2.1 :: (if e.1 = "$rename" then (match e.2.2 with | .str d => [d] | _ => []) else [])

theorem rename_single_local (p : String) (a : Val) :
    Local (eheads ("$rename", p, a)) (fun d => renameFields (.doc [(p, a)]) d) := by
  intro fs gs ha
  simp only [eheads, eq_self, if_true] at ha ⊢
  simp only [renameFields, eachField_single]
  cases a with
  | str dst =>
    by_cases hdots : (p.toList.contains '.' || dst.toList.contains '.') = true
    · simp only [hdots, if_true]; exact .err _
    · simp only [hdots, if_false, Bool.false_eq_true]
      simp only [Bool.or_eq_true, not_or, Bool.not_eq_true] at hdots
      have hp : headOf p = p := headOf_nodot p hdots.1
      simp only [hp] at ha ⊢
      have hsrc : proj p fs = proj p gs := ha p (by simp)
      have hdst : proj dst fs = proj dst gs := ha dst (by simp)
      rw [← dget_of_proj hsrc]
      cases hgx : dget p fs with
      | none => exact .ok fs gs ha (FrameP.refl _ _) (FrameP.refl _ _)
      | some x =>
        have hframe : ∀ hs : Fields, FrameP [p, dst] hs (dset dst x (derase p hs)) := by
          intro hs k hk
          simp only [List.mem_cons, List.not_mem_nil, or_false, not_or] at hk
          rw [proj_dset_other x hk.2, proj_derase_other hk.1]
        refine .ok _ _ ?_ (hframe fs) (hframe gs)
        intro k hk
        by_cases hkd : k = dst
        · subst hkd
          rw [proj_dset_same, proj_dset_same]
          by_cases hkp : k = p
          · subst hkp; rw [proj_derase_same, proj_derase_same, hsrc]
          · rw [proj_derase_other hkp, proj_derase_other hkp, hdst]
        · have hkp : k = p := by
            simp only [List.mem_cons, List.not_mem_nil, or_false] at hk
            rcases hk with h | h
            · exact h
            · exact absurd h hkd
          subst hkp
          rw [proj_dset_other x hkd, proj_dset_other x hkd, proj_derase_same, proj_derase_same,
            hsrc]
  | arr _ => exact .err _
  | doc _ => exact .err _
  | _ => simp only []; split <;> exact .err _

end MongoModel.Proofs.C02Lemmas
