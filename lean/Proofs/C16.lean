/-
  Proofs.C16 — lemmas for C16 (aggregation is read-only, leaves its arguments alone, repeatable).
-/
import MongoModel.AggHeap

namespace MongoModel.Proofs.C16
open MongoModel MongoModel.AggHeap

/-! ### the frame: a write to an object that does not occur in a value leaves the value alone -/

mutual
  theorem mutate_noop (p : Id → Bool) (id : Id) (f : Kids → Kids) (hid : p id = false) :
      ∀ v : HV, v.all p = true → mutate id f v = v
    | .atom _, _ => by simp [mutate]
    | .node i d kids, h => by
      simp only [HV.all, Bool.and_eq_true] at h
      have hne : i ≠ id := by
        intro e; rw [e, hid] at h; exact absurd h.1 (by simp)
      simp only [mutate, if_neg hne]
      rw [mutateKids_noop p id f hid kids h.2]
  theorem mutateKids_noop (p : Id → Bool) (id : Id) (f : Kids → Kids) (hid : p id = false) :
      ∀ ks : Kids, allKids p ks = true → mutateKids id f ks = ks
    | [], _ => by simp [mutateKids]
    | (k, v) :: r, h => by
      simp only [allKids, Bool.and_eq_true] at h
      simp only [mutateKids]
      rw [mutate_noop p id f hid v h.1, mutateKids_noop p id f hid r h.2]
end

theorem mutateL_noop (p : Id → Bool) (id : Id) (f : Kids → Kids) (hid : p id = false) :
    ∀ l : List HV, allL p l = true → mutateL id f l = l
  | [], _ => by simp [mutateL]
  | v :: r, h => by
    simp only [allL, Bool.and_eq_true] at h
    simp only [mutateL]
    rw [mutate_noop p id f hid v h.1, mutateL_noop p id f hid r h.2]

/-- every identity of every document of every collection satisfies `p` -/
def allColls (p : Id → Bool) : List (String × List HV) → Bool
  | [] => true
  | (_, l) :: r => allL p l && allColls p r

theorem mutateColls_noop (p : Id → Bool) (id : Id) (f : Kids → Kids) (hid : p id = false) :
    ∀ c : List (String × List HV), allColls p c = true → mutateColls id f c = c
  | [], _ => by simp [mutateColls]
  | (n, l) :: r, h => by
    simp only [allColls, Bool.and_eq_true] at h
    simp only [mutateColls]
    rw [mutateL_noop p id f hid l h.1, mutateColls_noop p id f hid r h.2]

/-! ### copies are made of new objects -/

mutual
  theorem deepTmp_tmp : ∀ (v : HV) (n : Nat), (deepTmp v n).1.all Id.isTmp = true
    | .atom _, _ => by simp [deepTmp, HV.all]
    | .node _ d kids, n => by
      simp only [deepTmp, HV.all, Id.isTmp, Bool.true_and]
      exact deepTmpKids_tmp kids (n + 1)
  theorem deepTmpKids_tmp : ∀ (ks : Kids) (n : Nat), allKids Id.isTmp (deepTmpKids ks n).1 = true
    | [], _ => by simp [deepTmpKids, allKids]
    | (k, v) :: r, n => by
      simp only [deepTmpKids, allKids, Bool.and_eq_true]
      exact ⟨deepTmp_tmp v n, deepTmpKids_tmp r _⟩
end

theorem deepTmpL_tmp : ∀ (l : List HV) (n : Nat), allL Id.isTmp (deepTmpL l n).1 = true
  | [], _ => by simp [deepTmpL, allL]
  | v :: r, n => by
    simp only [deepTmpL, allL, Bool.and_eq_true]
    exact ⟨deepTmp_tmp v n, deepTmpL_tmp r _⟩

theorem runL_deep_eq : ∀ (l : List HV) (n : Nat), Copy.runL .deep l n = deepTmpL l n
  | [], _ => by simp [Copy.runL, deepTmpL]
  | v :: r, n => by
    simp only [Copy.runL, deepTmpL, Copy.run]
    rw [runL_deep_eq r]

mutual
  theorem deepTmp_toVal : ∀ (v : HV) (n : Nat), (deepTmp v n).1.toVal = v.toVal
    | .atom _, _ => by simp [deepTmp]
    | .node _ true kids, n => by
      simp only [deepTmp, HV.toVal]; rw [(deepTmpKids_toVal kids (n + 1)).1]
    | .node _ false kids, n => by
      simp only [deepTmp, HV.toVal]; rw [(deepTmpKids_toVal kids (n + 1)).2]
  theorem deepTmpKids_toVal : ∀ (ks : Kids) (n : Nat),
      toFields (deepTmpKids ks n).1 = toFields ks ∧ toList (deepTmpKids ks n).1 = toList ks
    | [], _ => by simp [deepTmpKids]
    | (k, v) :: r, n => by
      simp only [deepTmpKids, toFields, toList]
      rw [deepTmp_toVal v n, (deepTmpKids_toVal r _).1, (deepTmpKids_toVal r _).2]
      exact ⟨rfl, rfl⟩
end

end MongoModel.Proofs.C16
