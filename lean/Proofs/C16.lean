/-
  Proofs.C16 — lemmas for C16 (aggregation is read-only, leaves its arguments alone, repeatable).
-/
import MongoModel.AggHeap

namespace MongoModel.Proofs.C16
open MongoModel MongoModel.AggHeap

/-! ### the frame: a write to an object that does not occur in a value leaves the value alone -/

mutual
  theorem mutate_noop (p : Id → Bool) (id : Id) (f : Kids → Kids) (hid : p id = false) :
      ∀ v : HV, v.all p = true → mutate id f v = v
    | .atom _, _ => by simp [mutate]
    | .node i d kids, h => by
      simp only [HV.all, Bool.and_eq_true] at h
      have hne : i ≠ id := by
        intro e; rw [e, hid] at h; exact absurd h.1 (by simp)
      simp only [mutate, if_neg hne]
      rw [mutateKids_noop p id f hid kids h.2]
  theorem mutateKids_noop (p : Id → Bool) (id : Id) (f : Kids → Kids) (hid : p id = false) :
      ∀ ks : Kids, allKids p ks = true → mutateKids id f ks = ks
    | [], _ => by simp [mutateKids]
    | (k, v) :: r, h => by
      simp only [allKids, Bool.and_eq_true] at h
      simp only [mutateKids]
      rw [mutate_noop p id f hid v h.1, mutateKids_noop p id f hid r h.2]
end

theorem mutateL_noop (p : Id → Bool) (id : Id) (f : Kids → Kids) (hid : p id = false) :
    ∀ l : List HV, allL p l = true → mutateL id f l = l
  | [], _ => by simp [mutateL]
  | v :: r, h => by
    simp only [allL, Bool.and_eq_true] at h
    simp only [mutateL]
    rw [mutate_noop p id f hid v h.1, mutateL_noop p id f hid r h.2]

/-- every identity of every document of every collection satisfies `p` -/
def allColls (p : Id → Bool) : List (String × List HV) → Bool
  | [] => true
  | (_, l) :: r => allL p l && allColls p r

theorem mutateColls_noop (p : Id → Bool) (id : Id) (f : Kids → Kids) (hid : p id = false) :
    ∀ c : List (String × List HV), allColls p c = true → mutateColls id f c = c
  | [], _ => by simp [mutateColls]
  | (n, l) :: r, h => by
    simp only [allColls, Bool.and_eq_true] at h
    simp only [mutateColls]
    rw [mutateL_noop p id f hid l h.1, mutateColls_noop p id f hid r h.2]

/-! ### copies are made of new objects -/

mutual
  theorem deepTmp_tmp : ∀ (v : HV) (n : Nat), (deepTmp v n).1.all Id.isTmp = true
    | .atom _, _ => by simp [deepTmp, HV.all]
    | .node _ d kids, n => by
      simp only [deepTmp, HV.all, Id.isTmp, Bool.true_and]
      exact deepTmpKids_tmp kids (n + 1)
  theorem deepTmpKids_tmp : ∀ (ks : Kids) (n : Nat), allKids Id.isTmp (deepTmpKids ks n).1 = true
    | [], _ => by simp [deepTmpKids, allKids]
    | (k, v) :: r, n => by
      simp only [deepTmpKids, allKids, Bool.and_eq_true]
      exact ⟨deepTmp_tmp v n, deepTmpKids_tmp r _⟩
end

theorem deepTmpL_tmp : ∀ (l : List HV) (n : Nat), allL Id.isTmp (deepTmpL l n).1 = true
  | [], _ => by simp [deepTmpL, allL]
  | v :: r, n => by
    simp only [deepTmpL, allL, Bool.and_eq_true]
    exact ⟨deepTmp_tmp v n, deepTmpL_tmp r _⟩

theorem runL_deep_eq : ∀ (l : List HV) (n : Nat), Copy.runL .deep l n = deepTmpL l n
  | [], _ => by simp [Copy.runL, deepTmpL]
  | v :: r, n => by
    simp only [Copy.runL, deepTmpL, Copy.run]
    rw [runL_deep_eq r]

mutual
  theorem deepTmp_toVal : ∀ (v : HV) (n : Nat), (deepTmp v n).1.toVal = v.toVal
    | .atom _, _ => by simp [deepTmp]
    | .node _ true kids, n => by
      simp only [deepTmp, HV.toVal]; rw [(deepTmpKids_toVal kids (n + 1)).1]
    | .node _ false kids, n => by
      simp only [deepTmp, HV.toVal]; rw [(deepTmpKids_toVal kids (n + 1)).2]
  theorem deepTmpKids_toVal : ∀ (ks : Kids) (n : Nat),
      toFields (deepTmpKids ks n).1 = toFields ks ∧ toList (deepTmpKids ks n).1 = toList ks
    | [], _ => by simp [deepTmpKids]
    | (k, v) :: r, n => by
      simp only [deepTmpKids, toFields, toList]
      rw [deepTmp_toVal v n, (deepTmpKids_toVal r _).1, (deepTmpKids_toVal r _).2]
      exact ⟨rfl, rfl⟩
end

/-! ### windows of run-local identities -/

/-- identities allocated by the running call with a number in `[b, m)` -/
def inR (b m : Nat) : Id → Bool
  | .tmp n => decide (b ≤ n) && decide (n < m)
  | _ => false

/-- every identity except the run-local ones numbered `≥ b` -/
def below (b : Nat) : Id → Bool
  | .tmp n => decide (n < b)
  | _ => true

theorem inR_mono {b b' m m' : Nat} (hb : b' ≤ b) (hm : m ≤ m') (i : Id) :
    inR b m i = true → inR b' m' i = true := by
  cases i <;> simp [inR] <;> omega

theorem inR_not_below {b m : Nat} (i : Id) : inR b m i = true → below b i = false := by
  cases i <;> simp [inR, below] <;> omega

theorem inR_below {b m : Nat} (i : Id) : inR b m i = true → below m i = true := by
  cases i <;> simp [inR, below]

theorem inR_isTmp {b m : Nat} (i : Id) : inR b m i = true → i.isTmp = true := by
  cases i <;> simp [inR, Id.isTmp]

theorem below_mono {b b' : Nat} (h : b ≤ b') (i : Id) : below b i = true → below b' i = true := by
  cases i <;> simp [below] <;> omega

theorem notTmp_below (b : Nat) (i : Id) : (!i.isTmp) = true → below b i = true := by
  cases i <;> simp [below, Id.isTmp]

theorem inR_tmp {b m n : Nat} (h1 : b ≤ n) (h2 : n < m) : inR b m (.tmp n) = true := by
  simp [inR]; omega

def allLL (p : Id → Bool) : List (List HV) → Bool
  | [] => true
  | l :: r => allL p l && allLL p r

mutual
  theorem all_mono {p q : Id → Bool} (h : ∀ i, p i = true → q i = true) :
      ∀ v : HV, v.all p = true → v.all q = true
    | .atom _, _ => by simp [HV.all]
    | .node i d kids, hv => by
      simp only [HV.all, Bool.and_eq_true] at hv ⊢
      exact ⟨h i hv.1, allKids_mono h kids hv.2⟩
  theorem allKids_mono {p q : Id → Bool} (h : ∀ i, p i = true → q i = true) :
      ∀ ks : Kids, allKids p ks = true → allKids q ks = true
    | [], _ => by simp [allKids]
    | (k, v) :: r, hv => by
      simp only [allKids, Bool.and_eq_true] at hv ⊢
      exact ⟨all_mono h v hv.1, allKids_mono h r hv.2⟩
end

theorem allL_mono {p q : Id → Bool} (h : ∀ i, p i = true → q i = true) :
    ∀ l : List HV, allL p l = true → allL q l = true
  | [], _ => by simp [allL]
  | v :: r, hv => by
    simp only [allL, Bool.and_eq_true] at hv ⊢
    exact ⟨all_mono h v hv.1, allL_mono h r hv.2⟩

theorem allLL_mono {p q : Id → Bool} (h : ∀ i, p i = true → q i = true) :
    ∀ l : List (List HV), allLL p l = true → allLL q l = true
  | [], _ => by simp [allLL]
  | v :: r, hv => by
    simp only [allLL, Bool.and_eq_true] at hv ⊢
    exact ⟨allL_mono h v hv.1, allLL_mono h r hv.2⟩

theorem allColls_mono {p q : Id → Bool} (h : ∀ i, p i = true → q i = true) :
    ∀ l : List (String × List HV), allColls p l = true → allColls q l = true
  | [], _ => by simp [allColls]
  | (_, v) :: r, hv => by
    simp only [allColls, Bool.and_eq_true] at hv ⊢
    exact ⟨allL_mono h v hv.1, allColls_mono h r hv.2⟩

theorem mutateLL_noop (p : Id → Bool) (id : Id) (f : Kids → Kids) (hid : p id = false) :
    ∀ l : List (List HV), allLL p l = true → mutateLL id f l = l
  | [], _ => by simp [mutateLL]
  | v :: r, h => by
    simp only [allLL, Bool.and_eq_true] at h
    simp only [mutateLL]
    rw [mutateL_noop p id f hid v h.1, mutateLL_noop p id f hid r h.2]

/-! ### list / dict operations keep `all p` -/

theorem allL_append (p : Id → Bool) : ∀ a b : List HV, allL p (a ++ b) = (allL p a && allL p b)
  | [], b => by simp [allL]
  | v :: r, b => by simp [allL, allL_append p r b, Bool.and_assoc]

theorem allLL_append (p : Id → Bool) : ∀ a b : List (List HV), allLL p (a ++ b) = (allLL p a && allLL p b)
  | [], b => by simp [allLL]
  | v :: r, b => by simp [allLL, allLL_append p r b, Bool.and_assoc]

theorem allL_getElem? {p : Id → Bool} : ∀ (l : List HV) (j : Nat) (v : HV),
    allL p l = true → l[j]? = some v → v.all p = true
  | [], _, _, _, h => by simp at h
  | x :: r, 0, v, hl, h => by
    simp only [allL, Bool.and_eq_true] at hl
    simp at h; subst h; exact hl.1
  | x :: r, j + 1, v, hl, h => by
    simp only [allL, Bool.and_eq_true] at hl
    simp at h; exact allL_getElem? r j v hl.2 h

theorem allL_set {p : Id → Bool} : ∀ (l : List HV) (j : Nat) (v : HV),
    allL p l = true → v.all p = true → allL p (l.set j v) = true
  | [], _, _, _, _ => by simp [allL]
  | x :: r, 0, v, hl, hv => by
    simp only [allL, Bool.and_eq_true] at hl
    simp [List.set, allL, hv, hl.2]
  | x :: r, j + 1, v, hl, hv => by
    simp only [allL, Bool.and_eq_true] at hl
    simp [List.set, allL, hl.1, allL_set r j v hl.2 hv]

theorem allL_take {p : Id → Bool} : ∀ (l : List HV) (n : Nat), allL p l = true → allL p (l.take n) = true
  | [], _, _ => by simp [allL]
  | x :: r, 0, _ => by simp [allL]
  | x :: r, n + 1, hl => by
    simp only [allL, Bool.and_eq_true] at hl
    simp [List.take, allL, hl.1, allL_take r n hl.2]

theorem allL_pick {p : Id → Bool} (l : List HV) (hl : allL p l = true) :
    ∀ idxs : List Nat, allL p (pick l idxs) = true
  | [] => by simp [pick, allL]
  | i :: r => by
    simp only [pick]
    split
    · next v hv => simp [allL, allL_getElem? l i v hl hv, allL_pick l hl r]
    · exact allL_pick l hl r

theorem allKids_kget {p : Id → Bool} (k : String) : ∀ (ks : Kids) (v : HV),
    allKids p ks = true → kget k ks = some v → v.all p = true
  | [], _, _, h => by simp [kget] at h
  | (k', x) :: r, v, hk, h => by
    simp only [allKids, Bool.and_eq_true] at hk
    simp only [kget] at h
    split at h
    · cases h; exact hk.1
    · exact allKids_kget k r v hk.2 h

theorem allKids_kset {p : Id → Bool} (k : String) (v : HV) (hv : v.all p = true) :
    ∀ ks : Kids, allKids p ks = true → allKids p (kset k v ks) = true
  | [], _ => by simp [kset, allKids, hv]
  | (k', x) :: r, hk => by
    simp only [allKids, Bool.and_eq_true] at hk
    simp only [kset]
    split
    · simp [allKids, hv, hk.2]
    · simp [allKids, hk.1, allKids_kset k v hv r hk.2]

theorem allKids_kdel {p : Id → Bool} (k : String) :
    ∀ ks : Kids, allKids p ks = true → allKids p (kdel k ks) = true
  | [], _ => by simp [kdel, allKids]
  | (k', x) :: r, hk => by
    simp only [allKids, Bool.and_eq_true] at hk
    simp only [kdel]
    split
    · exact hk.2
    · simp [allKids, hk.1, allKids_kdel k r hk.2]

theorem all_get {p : Id → Bool} (k : String) (x v : HV) (hx : x.all p = true)
    (h : x.get k = some v) : v.all p = true := by
  cases x with
  | atom _ => simp [HV.get] at h
  | node i d kids =>
    cases d
    · simp [HV.get] at h
    · simp only [HV.get] at h
      simp only [HV.all, Bool.and_eq_true] at hx
      exact allKids_kget k kids v hx.2 h

theorem all_setLocal {p : Id → Bool} (k : String) (x v : HV) (hx : x.all p = true)
    (hv : v.all p = true) : (x.setLocal k v).all p = true := by
  cases x with
  | atom _ => simpa [HV.setLocal] using hx
  | node i d kids =>
    simp only [HV.all, Bool.and_eq_true] at hx
    simp [HV.setLocal, HV.all, hx.1, allKids_kset k v hv kids hx.2]

theorem all_delLocal {p : Id → Bool} (k : String) (x : HV) (hx : x.all p = true) :
    (x.delLocal k).all p = true := by
  cases x with
  | atom _ => simpa [HV.delLocal] using hx
  | node i d kids =>
    simp only [HV.all, Bool.and_eq_true] at hx
    simp [HV.delLocal, HV.all, hx.1, allKids_kdel k kids hx.2]

theorem all_id? {p : Id → Bool} (x : HV) (id : Id) (hx : x.all p = true) (h : x.id? = some id) :
    p id = true := by
  cases x with
  | atom _ => simp [HV.id?] at h
  | node i d kids =>
    simp only [HV.all, Bool.and_eq_true] at hx
    simp [HV.id?] at h; subst h; exact hx.1

theorem allKids_mapList {p : Id → Bool} : ∀ l : List HV,
    allKids p (l.map (fun v => ("", v))) = allL p l
  | [] => by simp [allKids, allL]
  | v :: r => by simp [allKids, allL, allKids_mapList r]

theorem all_getPath {p : Id → Bool} : ∀ (path : List String) (x r : HV),
    x.all p = true → getPath path x = .ok (some r) → r.all p = true
  | [], x, r, hx, h => by simp [getPath] at h; subst h; exact hx
  | k :: path, .atom _, r, _, h => by simp [getPath] at h
  | k :: path, .node _ false _, r, _, h => by simp [getPath] at h
  | k :: path, .node i true kids, r, hx, h => by
    simp only [getPath] at h
    simp only [HV.all, Bool.and_eq_true] at hx
    split at h
    · next c hc => exact all_getPath path c r (allKids_kget k kids c hx.2 hc) h
    · simp at h

/-! ### in-place writes keep `all p` when what is written satisfies `p` -/

mutual
  theorem mutate_all {p : Id → Bool} (id : Id) (f : Kids → Kids)
      (hf : ∀ ks, allKids p ks = true → allKids p (f ks) = true) :
      ∀ v : HV, v.all p = true → (mutate id f v).all p = true
    | .atom _, _ => by simp [mutate, HV.all]
    | .node i d kids, h => by
      simp only [HV.all, Bool.and_eq_true] at h
      simp only [mutate]
      split
      · simp [HV.all, h.1, hf kids h.2]
      · simp [HV.all, h.1, mutateKids_all id f hf kids h.2]
  theorem mutateKids_all {p : Id → Bool} (id : Id) (f : Kids → Kids)
      (hf : ∀ ks, allKids p ks = true → allKids p (f ks) = true) :
      ∀ ks : Kids, allKids p ks = true → allKids p (mutateKids id f ks) = true
    | [], _ => by simp [mutateKids, allKids]
    | (k, v) :: r, h => by
      simp only [allKids, Bool.and_eq_true] at h
      simp [mutateKids, allKids, mutate_all id f hf v h.1, mutateKids_all id f hf r h.2]
end

theorem mutateL_all {p : Id → Bool} (id : Id) (f : Kids → Kids)
    (hf : ∀ ks, allKids p ks = true → allKids p (f ks) = true) :
    ∀ l : List HV, allL p l = true → allL p (mutateL id f l) = true
  | [], _ => by simp [mutateL, allL]
  | v :: r, h => by
    simp only [allL, Bool.and_eq_true] at h
    simp [mutateL, allL, mutate_all id f hf v h.1, mutateL_all id f hf r h.2]

/-! ### copies are allocated in the window -/

mutual
  theorem deepTmp_inR : ∀ (v : HV) (n : Nat),
      n ≤ (deepTmp v n).2 ∧ (deepTmp v n).1.all (inR n (deepTmp v n).2) = true
    | .atom _, n => by simp [deepTmp, HV.all]
    | .node _ d kids, n => by
      have h := deepTmpKids_inR kids (n + 1)
      simp only [deepTmp, HV.all, Bool.and_eq_true]
      refine ⟨by omega, inR_tmp (Nat.le_refl _) (by omega), ?_⟩
      exact allKids_mono (fun i hi => inR_mono (by omega) (Nat.le_refl _) i hi) _ h.2
  theorem deepTmpKids_inR : ∀ (ks : Kids) (n : Nat),
      n ≤ (deepTmpKids ks n).2 ∧ allKids (inR n (deepTmpKids ks n).2) (deepTmpKids ks n).1 = true
    | [], n => by simp [deepTmpKids, allKids]
    | (k, v) :: r, n => by
      have h1 := deepTmp_inR v n
      have h2 := deepTmpKids_inR r (deepTmp v n).2
      simp only [deepTmpKids, allKids, Bool.and_eq_true]
      exact ⟨by omega, all_mono (fun i hi => inR_mono (Nat.le_refl _) h2.1 i hi) _ h1.2,
        allKids_mono (fun i hi => inR_mono h1.1 (Nat.le_refl _) i hi) _ h2.2⟩
end

theorem deepTmp_win {b : Nat} (v : HV) (n : Nat) (hb : b ≤ n) :
    n ≤ (deepTmp v n).2 ∧ (deepTmp v n).1.all (inR b (deepTmp v n).2) = true :=
  ⟨(deepTmp_inR v n).1, all_mono (fun i hi => inR_mono hb (Nat.le_refl _) i hi) _ (deepTmp_inR v n).2⟩

theorem deepTmpL_win {b : Nat} : ∀ (l : List HV) (n : Nat), b ≤ n →
    n ≤ (deepTmpL l n).2 ∧ allL (inR b (deepTmpL l n).2) (deepTmpL l n).1 = true
  | [], n, _ => by simp [deepTmpL, allL]
  | v :: r, n, hb => by
    have h1 := deepTmp_win (b := b) v n hb
    have h2 := deepTmpL_win (b := b) r (deepTmp v n).2 (by omega)
    simp only [deepTmpL, allL, Bool.and_eq_true]
    exact ⟨by omega, all_mono (fun i hi => inR_mono (Nat.le_refl _) h2.1 i hi) _ h1.2, h2.2⟩

theorem shallowTmp_win {b : Nat} (v : HV) (n : Nat) (hb : b ≤ n) (hv : v.all (inR b n) = true) :
    n ≤ (shallowTmp v n).2 ∧ (shallowTmp v n).1.all (inR b (shallowTmp v n).2) = true := by
  cases v with
  | atom _ => simp [shallowTmp, HV.all]
  | node i d kids =>
    simp only [HV.all, Bool.and_eq_true] at hv
    simp only [shallowTmp, HV.all, Bool.and_eq_true]
    exact ⟨by omega, inR_tmp hb (by omega),
      allKids_mono (fun i hi => inR_mono (Nat.le_refl _) (by omega) i hi) _ hv.2⟩

theorem runL_shallow_win {b : Nat} : ∀ (l : List HV) (n : Nat), b ≤ n → allL (inR b n) l = true →
    n ≤ (Copy.runL .shallow l n).2 ∧
      allL (inR b (Copy.runL .shallow l n).2) (Copy.runL .shallow l n).1 = true
  | [], n, _, _ => by simp [Copy.runL, allL]
  | v :: r, n, hb, hl => by
    simp only [allL, Bool.and_eq_true] at hl
    have h1 := shallowTmp_win (b := b) v n hb hl.1
    have h2 := runL_shallow_win (b := b) r (shallowTmp v n).2 (by omega)
      (allL_mono (fun i hi => inR_mono (Nat.le_refl _) h1.1 i hi) _ hl.2)
    simp only [Copy.runL, Copy.run, allL, Bool.and_eq_true]
    exact ⟨by omega, all_mono (fun i hi => inR_mono (Nat.le_refl _) h2.1 i hi) _ h1.2, h2.2⟩

theorem nestNew_win {b : Nat} : ∀ (path : List String) (v : HV) (n : Nat), b ≤ n →
    v.all (inR b n) = true →
    n ≤ (nestNew path v n).2 ∧ (nestNew path v n).1.all (inR b (nestNew path v n).2) = true
  | [], v, n, _, hv => by simpa [nestNew] using hv
  | k :: r, v, n, hb, hv => by
    have h := nestNew_win (b := b) r v (n + 1) (by omega)
      (all_mono (fun i hi => inR_mono (Nat.le_refl _) (by omega) i hi) _ hv)
    simp only [nestNew, HV.all, allKids, Bool.and_eq_true, Bool.and_true]
    exact ⟨by omega, inR_tmp hb (by omega), h.2⟩

/-- every way of handing a value on keeps it inside the window -/
theorem copyRun_win {b : Nat} (c : Copy) (v : HV) (n : Nat) (hb : b ≤ n) (hv : v.all (inR b n) = true) :
    n ≤ (c.run v n).2 ∧ (c.run v n).1.all (inR b (c.run v n).2) = true := by
  cases c with
  | deep => exact deepTmp_win v n hb
  | shallow => exact shallowTmp_win v n hb hv
  | none => exact ⟨Nat.le_refl _, hv⟩

/-- the walk along a dotted name inside a private object: what it builds is made of the object,
    the value written and new objects -/
theorem setPathCopy_win {b : Nat} (c : Copy) (v : HV) : ∀ (path : List String) (x : HV) (n : Nat),
    b ≤ n → x.all (inR b n) = true → v.all (inR b n) = true →
    n ≤ (setPathCopy c v path x n).2 ∧
      (setPathCopy c v path x n).1.all (inR b (setPathCopy c v path x n).2) = true
  | [], x, n, _, hx, _ => by simpa [setPathCopy] using hx
  | [k], x, n, _, hx, hv => by
    simp only [setPathCopy]
    exact ⟨Nat.le_refl _, all_setLocal k x v hx hv⟩
  | k :: k2 :: r, x, n, hb, hx, hv => by
    simp only [setPathCopy]
    split
    · next i ks hg =>
      have hsub := all_get k x _ hx hg
      have hc := copyRun_win (b := b) c (.node i true ks) n hb hsub
      have hm : ∀ q, inR b n q = true → inR b (c.run (.node i true ks) n).2 q = true :=
        fun q hq => inR_mono (Nat.le_refl _) hc.1 q hq
      have ih := setPathCopy_win c v (k2 :: r) (c.run (.node i true ks) n).1
        (c.run (.node i true ks) n).2 (Nat.le_trans hb hc.1) hc.2 (all_mono hm _ hv)
      refine ⟨Nat.le_trans hc.1 ih.1, all_setLocal k x _ ?_ ih.2⟩
      exact all_mono (fun i hi => inR_mono (Nat.le_refl _) (Nat.le_trans hc.1 ih.1) i hi) _ hx
    · have hn := nestNew_win (b := b) (k2 :: r) v n hb hv
      exact ⟨hn.1, all_setLocal k x _
        (all_mono (fun i hi => inR_mono (Nat.le_refl _) hn.1 i hi) _ hx) hn.2⟩

/-! ### `_add_field`: what it builds is made of what was there, the value and new objects -/

mutual
  theorem addFieldV_win {b : Nat} (ci : Copy) : ∀ (x : HV) (new : HV) (ps : List String) (n : Nat),
      b ≤ n → x.all (inR b n) = true → new.all (inR b n) = true →
      n ≤ (addFieldV ci new x ps n).2 ∧
        (addFieldV ci new x ps n).1.all (inR b (addFieldV ci new x ps n).2) = true
    | x, new, [], n, _, _, hv => by
      cases x <;> simp only [addFieldV] <;> exact ⟨Nat.le_refl _, hv⟩
    | .atom a, new, p :: ps, n, hb, _, hv => by
      simp only [addFieldV]
      exact nestNew_win (b := b) (p :: ps) new n hb hv
    | .node i false items, new, p :: ps, n, hb, hx, hv => by
      simp only [HV.all, Bool.and_eq_true] at hx
      have hm : ∀ q, inR b n q = true → inR b (n + 1) q = true :=
        fun q hq => inR_mono (Nat.le_refl _) (Nat.le_succ _) q hq
      have h := addFieldItems_win (b := b) ci items new (p :: ps) (n + 1) (by omega)
        (allKids_mono hm _ hx.2) (all_mono hm _ hv)
      simp only [addFieldV, HV.all, Bool.and_eq_true]
      exact ⟨by omega, inR_tmp hb (by omega), h.2⟩
    | .node i true kids, new, p :: ps, n, hb, hx, hv => by
      simp only [HV.all, Bool.and_eq_true] at hx
      have hm : ∀ q, inR b n q = true → inR b (n + 1) q = true :=
        fun q hq => inR_mono (Nat.le_refl _) (Nat.le_succ _) q hq
      have h := addFieldKey_win (b := b) ci kids new p ps (n + 1) (by omega)
        (allKids_mono hm _ hx.2) (all_mono hm _ hv)
      simp only [addFieldV, HV.all, Bool.and_eq_true]
      exact ⟨by omega, inR_tmp hb (by omega), h.2⟩
  theorem addFieldItems_win {b : Nat} (ci : Copy) : ∀ (items : Kids) (new : HV) (ps : List String) (n : Nat),
      b ≤ n → allKids (inR b n) items = true → new.all (inR b n) = true →
      n ≤ (addFieldItems ci new items ps n).2 ∧
        allKids (inR b (addFieldItems ci new items ps n).2) (addFieldItems ci new items ps n).1 = true
    | [], new, ps, n, _, _, _ => by simp [addFieldItems, allKids]
    | (k, it) :: r, new, ps, n, hb, hi, hv => by
      simp only [allKids, Bool.and_eq_true] at hi
      have hc := copyRun_win (b := b) ci new n hb hv
      have hm1 : ∀ q, inR b n q = true → inR b (ci.run new n).2 q = true :=
        fun q hq => inR_mono (Nat.le_refl _) hc.1 q hq
      have h1 := addFieldV_win (b := b) ci it (ci.run new n).1 ps (ci.run new n).2
        (Nat.le_trans hb hc.1) (all_mono hm1 _ hi.1) hc.2
      have hm2 : ∀ q, inR b n q = true →
          inR b (addFieldV ci (ci.run new n).1 it ps (ci.run new n).2).2 q = true :=
        fun q hq => inR_mono (Nat.le_refl _) (Nat.le_trans hc.1 h1.1) q hq
      have h2 := addFieldItems_win (b := b) ci r new ps
        (addFieldV ci (ci.run new n).1 it ps (ci.run new n).2).2
        (Nat.le_trans hb (Nat.le_trans hc.1 h1.1)) (allKids_mono hm2 _ hi.2) (all_mono hm2 _ hv)
      simp only [addFieldItems, allKids, Bool.and_eq_true]
      exact ⟨Nat.le_trans (Nat.le_trans hc.1 h1.1) h2.1,
        all_mono (fun q hq => inR_mono (Nat.le_refl _) h2.1 q hq) _ h1.2, h2.2⟩
  theorem addFieldKey_win {b : Nat} (ci : Copy) : ∀ (kids : Kids) (new : HV) (p : String) (ps : List String) (n : Nat),
      b ≤ n → allKids (inR b n) kids = true → new.all (inR b n) = true →
      n ≤ (addFieldKey ci new p ps kids n).2 ∧
        allKids (inR b (addFieldKey ci new p ps kids n).2) (addFieldKey ci new p ps kids n).1 = true
    | [], new, p, ps, n, hb, _, hv => by
      have hn := nestNew_win (b := b) ps new n hb hv
      simp only [addFieldKey, allKids, Bool.and_true]
      exact hn
    | (k, v) :: r, new, p, ps, n, hb, hk, hv => by
      simp only [allKids, Bool.and_eq_true] at hk
      simp only [addFieldKey]
      split
      · have h1 := addFieldV_win (b := b) ci v new ps n hb hk.1 hv
        simp only [allKids, Bool.and_eq_true]
        exact ⟨h1.1, h1.2, allKids_mono (fun q hq => inR_mono (Nat.le_refl _) h1.1 q hq) _ hk.2⟩
      · have h2 := addFieldKey_win (b := b) ci r new p ps n hb hk.2 hv
        simp only [allKids, Bool.and_eq_true]
        exact ⟨h2.1, all_mono (fun q hq => inR_mono (Nat.le_refl _) h2.1 q hq) _ hk.1, h2.2⟩
end

theorem addFieldTop_win {b : Nat} (ci : Copy) (v : HV) (path : List String) (top : HV) (n : Nat)
    (hb : b ≤ n) (ht : top.all (inR b n) = true) (hv : v.all (inR b n) = true) :
    n ≤ (addFieldTop ci v path top n).2 ∧
      (addFieldTop ci v path top n).1.all (inR b (addFieldTop ci v path top n).2) = true := by
  unfold addFieldTop
  split
  · next p ps id kids =>
    simp only [HV.all, Bool.and_eq_true] at ht
    have h := addFieldKey_win (b := b) ci kids v p ps n hb ht.2 hv
    simp only [HV.all, Bool.and_eq_true]
    exact ⟨h.1, inR_mono (Nat.le_refl _) h.1 _ ht.1, h.2⟩
  · exact ⟨Nat.le_refl _, ht⟩

end MongoModel.Proofs.C16
