/-
  Proofs.C05ExtLoop — the generic preservation (`Proofs/C05ExtGen.lean`) through `bulkLoop`,
  `Builder.execute`, `executeTimes`, `bulkWrite`, `bulkBuilder`, `stepX`, `stepXS` and a whole
  history (`Spec.runX`, `Spec.traceX`).
-/
import Proofs.C05ExtGen
import Proofs.C15Once

set_option linter.unusedSimpArgs false
set_option linter.unusedVariables false

namespace MongoModel.Proofs.ExtGen
open MongoModel MongoModel.Spec

variable {cfg : Cfg} {P Q : Coll → Prop}

/-! ### the loop -/

theorem loop_nil_fst (cfg : Cfg) (now : Int) (ordered : Bool) (idx : Nat) (c : Coll) (t : BulkTotals) :
    (bulkLoop cfg now ordered [] idx c t).1 = c := by
  rw [bulkLoop]; split <;> rfl

/-- a bulk of one request leaves what its executor leaves, whatever the outcome -/
theorem loop_single_fst (cfg : Cfg) (now : Int) (ordered : Bool) (r : Val) (idx : Nat) (c : Coll)
    (t : BulkTotals) :
    (bulkLoop cfg now ordered [r] idx c t).1 = (bulkOne cfg now c idx r).1 := by
  rw [bulkLoop]
  generalize bulkOne cfg now c idx r = x
  obtain ⟨c', o⟩ := x
  cases o with
  | ok f => exact loop_nil_fst _ _ _ _ _ _
  | writeErr e =>
    simp only
    split
    · rfl
    · exact loop_nil_fst _ _ _ _ _ _
  | abort e => rfl

/-- the loop carries `Q`, provided the collections between the requests satisfy the bridge `G` -/
theorem bulkLoop_pres (H : Pres cfg P Q) (G : Coll → Prop) (hG : ∀ c, Q c → G c → P c)
    (now : Int) (ordered : Bool) :
    ∀ (reqs : List Val) (idx : Nat) (c : Coll) (t : BulkTotals), P c →
      (∀ n, G (bulkLoop cfg now ordered (reqs.take n) idx c t).1) →
      Q (bulkLoop cfg now ordered reqs idx c t).1 := by
  intro reqs
  induction reqs with
  | nil =>
    intro idx c t hP _
    rw [loop_nil_fst]; exact H.weaken _ hP
  | cons r rest ih =>
    intro idx c t hP hg
    have hQ1 := bulkOne_pres H now c idx r hP
    have hG1 : G (bulkOne cfg now c idx r).1 := by
      have := hg 1
      rwa [List.take_succ_cons, List.take_zero, loop_single_fst] at this
    have hP1 := hG _ hQ1 hG1
    have hgn : ∀ n, G (bulkLoop cfg now ordered (r :: rest.take n) idx c t).1 := by
      intro n
      have := hg (n + 1)
      rwa [List.take_succ_cons] at this
    rw [bulkLoop]
    generalize hx : bulkOne cfg now c idx r = x at hQ1 hP1
    obtain ⟨c', o⟩ := x
    cases o with
    | ok f =>
      simp only
      refine ih _ _ _ hP1 (fun n => ?_)
      have := hgn n
      rwa [bulkLoop, hx] at this
    | writeErr e =>
      cases ordered with
      | true => exact hQ1
      | false =>
        refine ih _ _ _ hP1 (fun n => ?_)
        have := hgn n
        rwa [bulkLoop, hx] at this
    | abort e => exact hQ1

/-! ### the builder -/

theorem execute_pres (H : Pres cfg P Q) (G : Coll → Prop) (hG : ∀ c, Q c → G c → P c)
    (now : Int) (c : Coll) (b : Builder) (hP : P c)
    (hg : ∀ n, G (bulkLoop cfg now b.ordered (b.reqs.take n) 0 c {}).1) :
    Q (b.execute cfg now c).1 := by
  unfold Builder.execute
  split
  · exact H.weaken _ hP
  · split
    · exact H.weaken _ hP
    · exact bulkLoop_pres H G hG now b.ordered b.reqs 0 c {} hP hg

theorem executeTimes_pres (H : Pres cfg P Q) (G : Coll → Prop) (hG : ∀ c, Q c → G c → P c)
    (now : Int) (n : Nat) (c : Coll) (b : Builder) (hP : P c)
    (hg : ∀ n, G (bulkLoop cfg now b.ordered (b.reqs.take n) 0 c {}).1) :
    Q (executeTimes cfg now n c b).1 := by
  cases n with
  | zero => exact H.weaken _ hP
  | succ n =>
    rw [C15Once.executeTimes_spec]
    exact execute_pres H G hG now c b hP hg

/-! ### `bulk_write`, the builder operation -/

theorem forM_take {α : Type} (f : α → R Unit) :
    ∀ (l : List α) (n : Nat), l.forM f = .ok () → (l.take n).forM f = .ok () := by
  intro l
  induction l with
  | nil => intro n h; simpa using h
  | cons a l ih =>
    intro n h
    cases n with
    | zero => rfl
    | succ n =>
      rw [List.take_succ_cons]
      have h' : (f a >>= fun _ => l.forM f) = .ok () := h
      show (f a >>= fun _ => (l.take n).forM f) = .ok ()
      cases ha : f a with
      | error e => rw [ha] at h'; cases h'
      | ok u =>
        rw [ha] at h'
        exact ih n h'

theorem precheck_take (reqs : List Val) (n : Nat) (h : bulkPrecheck reqs = .ok ()) :
    bulkPrecheck (reqs.take n) = .ok () :=
  forM_take _ reqs n h

/-- what `bulk_write` of a prefix leaves is what the loop over that prefix leaves -/
theorem bulkWrite_take_fst (cfg : Cfg) (now : Int) (c : Coll) (reqs : List Val) (ordered : Bool)
    (n : Nat) (h : bulkPrecheck reqs = .ok ()) :
    (bulkWrite cfg now c (reqs.take n) ordered).1 =
      (bulkLoop cfg now ordered (reqs.take n) 0 c {}).1 := by
  unfold bulkWrite
  rw [precheck_take reqs n h]
  simp only
  split
  · rename_i he
    have : reqs.take n = [] := by simpa using he
    rw [this, loop_nil_fst]
  · rfl

/-- the bridge hypothesis in terms of `bulk_write` of the prefixes (what `Spec.midColls` lists) -/
theorem mids_loop (G : Coll → Prop) (cfg : Cfg) (now : Int) (c : Coll) (reqs : List Val)
    (ordered : Bool) (h : bulkPrecheck reqs = .ok ())
    (hm : ∀ n, n < reqs.length + 1 → G (bulkWrite cfg now c (reqs.take n) ordered).1) :
    ∀ n, G (bulkLoop cfg now ordered (reqs.take n) 0 c {}).1 := by
  intro n
  by_cases hn : n < reqs.length + 1
  · rw [← bulkWrite_take_fst cfg now c reqs ordered n h]; exact hm n hn
  · have h1 : reqs.take n = reqs.take reqs.length := by
      rw [List.take_of_length_le (by omega), List.take_length]
    rw [h1, ← bulkWrite_take_fst cfg now c reqs ordered _ h]
    exact hm _ (by omega)

theorem bulkWrite_pres (H : Pres cfg P Q) (G : Coll → Prop) (hG : ∀ c, Q c → G c → P c)
    (now : Int) (c : Coll) (reqs : List Val) (ordered : Bool) (hP : P c)
    (hm : ∀ n, n < reqs.length + 1 → G (bulkWrite cfg now c (reqs.take n) ordered).1) :
    Q (bulkWrite cfg now c reqs ordered).1 := by
  unfold bulkWrite
  split
  · exact H.weaken _ hP
  · rename_i hp
    split
    · exact H.weaken _ hP
    · exact bulkLoop_pres H G hG now ordered reqs 0 c {} hP (mids_loop G cfg now c reqs ordered hp hm)

theorem bulkBuilder_pres (H : Pres cfg P Q) (G : Coll → Prop) (hG : ∀ c, Q c → G c → P c)
    (now : Int) (c : Coll) (reqs : List Val) (ordered : Bool) (times : Nat) (hP : P c)
    (hm : ∀ n, n < reqs.length + 1 → G (bulkWrite cfg now c (reqs.take n) ordered).1) :
    Q (bulkBuilder cfg now c reqs ordered times).1 := by
  unfold bulkBuilder
  split
  · exact H.weaken _ hP
  · rename_i hp
    have := executeTimes_pres H G hG now times c { reqs := reqs, ordered := ordered } hP
      (mids_loop G cfg now c reqs ordered hp hm)
    simp only
    split <;> exact this

end MongoModel.Proofs.ExtGen
