/-
  Proofs.C03Group — `$group`: `itertools.groupby` after a stable sort partitions the input by key.
  Part 1 is generic (any run-splitting of any list); part 2 needs the sort to make equal keys
  adjacent, i.e. a strict weak order whose ties are exactly the `==` of `groupby`.
-/
import Proofs.C03Basic
import Proofs.C11Sort

namespace MongoModel.Pipe.Proofs
open MongoModel MongoModel.Pipe MongoModel.Proofs.C11

/-! ### `sorted` returns a permutation -/

theorem pySorted_perm {α} (lt : α → α → R Bool) (rev : Bool) (xs out : List α)
    (h : pySorted lt rev xs = .ok out) : out.Perm xs := by
  unfold pySorted at h
  split at h
  · cases rev with
    | false => simp at h; subst h; exact isort_perm _ _
    | true =>
      simp at h; subst h
      exact (List.reverse_perm _).trans ((isort_perm _ _).trans (List.reverse_perm _))
  · split at h
    · cases h
    · cases h

/-! ### runs: no document lost, duplicated or moved (no hypothesis) -/

theorem groupGo_flatten (cur : Val) : ∀ (acc : List Val) (l : List (Val × Val)),
    (groupGo cur acc l).flatMap (·.2) = acc.reverse ++ l.map (·.2)
  | acc, [] => by simp [groupGo]
  | acc, (k, d) :: rest => by
    simp only [groupGo]
    split
    · rw [groupGo_flatten cur (d :: acc) rest]; simp
    · simp only [List.flatMap_cons, groupGo_flatten k [d] rest]; simp

theorem groupRuns_flatten : ∀ (l : List (Val × Val)),
    (groupRuns l).flatMap (·.2) = l.map (·.2)
  | [] => rfl
  | (k, d) :: rest => by simp [groupRuns, groupGo_flatten]

/-- the run starting at `cur`: everything up to the first key that is not `==` to it -/
theorem groupGo_eq (cur : Val) : ∀ (acc : List Val) (l : List (Val × Val)),
    groupGo cur acc l =
      (cur, acc.reverse ++ (l.takeWhile (fun p => pyEq cur p.1)).map (·.2)) ::
        groupRuns (l.dropWhile (fun p => pyEq cur p.1))
  | acc, [] => by simp [groupGo, groupRuns]
  | acc, (k, d) :: rest => by
    simp only [groupGo]
    by_cases h : pyEq cur k = true
    · simp only [h, if_true, List.takeWhile_cons, List.dropWhile_cons]
      rw [groupGo_eq cur (d :: acc) rest]; simp
    · simp only [h, List.takeWhile_cons, List.dropWhile_cons]
      simp [groupRuns]

theorem groupRuns_cons (k d : Val) (rest : List (Val × Val)) :
    groupRuns ((k, d) :: rest) =
      (k, d :: (rest.takeWhile (fun p => pyEq k p.1)).map (·.2)) ::
        groupRuns (rest.dropWhile (fun p => pyEq k p.1)) := by
  rw [groupRuns, groupGo_eq]
  simp only [List.reverse_cons, List.reverse_nil, List.nil_append, List.singleton_append]

/-! ### sorted input: the runs are the classes -/

/-- the keys `K` on which `groupby`'s `==` is the tie of the order the list was sorted by -/
structure KeyOrder (lt : Val → Val → Bool) (K : Val → Prop) : Prop where
  sw : StrictWeak lt
  eq_tie : ∀ a b, K a → K b → pyEq a b = tie lt a b

theorem KeyOrder.refl {lt K} (ko : KeyOrder lt K) {a : Val} (ha : K a) : pyEq a a = true := by
  rw [ko.eq_tie a a ha ha]; exact tie_self ko.sw a

theorem KeyOrder.symm {lt K} (ko : KeyOrder lt K) {a b : Val} (ha : K a) (hb : K b) :
    pyEq a b = pyEq b a := by
  rw [ko.eq_tie a b ha hb, ko.eq_tie b a hb ha]; simp [tie, Bool.and_comm]

theorem KeyOrder.trans {lt K} (ko : KeyOrder lt K) {a b c : Val} (ha : K a) (hb : K b) (hc : K c)
    (h1 : pyEq a b = true) (h2 : pyEq b c = true) : pyEq a c = true := by
  rw [ko.eq_tie _ _ ha hb] at h1
  rw [ko.eq_tie _ _ hb hc] at h2
  rw [ko.eq_tie _ _ ha hc]
  simp only [tie, Bool.and_eq_true, Bool.not_eq_true'] at h1 h2 ⊢
  exact ⟨ko.sw.negTrans c b a h2.1 h1.1, ko.sw.negTrans a b c h1.2 h2.2⟩

/-- in a sorted list the elements tied with the head form a prefix -/
theorem sorted_takeWhile_filter {lt : Val → Val → Bool} (sw : StrictWeak lt) (k : Val) :
    ∀ (rest : List (Val × Val)),
      Sorted (fun a b : Val × Val => lt a.1 b.1) rest → (∀ p ∈ rest, lt p.1 k = false) →
      rest.takeWhile (fun p => tie lt k p.1) = rest.filter (fun p => tie lt k p.1) ∧
      rest.dropWhile (fun p => tie lt k p.1) = rest.filter (fun p => !tie lt k p.1)
  | [], _, _ => by simp
  | p :: rest, hs, hk => by
    have hs' : Sorted (fun a b : Val × Val => lt a.1 b.1) rest := (List.pairwise_cons.mp hs).2
    have hp := (List.pairwise_cons.mp hs).1
    have hk' : ∀ q ∈ rest, lt q.1 k = false := fun q hq => hk q (List.mem_cons_of_mem _ hq)
    by_cases ht : tie lt k p.1 = true
    · obtain ⟨i1, i2⟩ := sorted_takeWhile_filter sw k rest hs' hk'
      simp [ht, i1, i2]
    · -- `p` is strictly after `k`; so is everything after `p`
      have hlt : lt k p.1 = true := by
        have h1 := hk p (List.mem_cons_self)
        simp only [tie, h1, Bool.not_false, Bool.and_true, Bool.not_eq_true', Bool.not_eq_false] at ht
        exact ht
      have hnone : ∀ q ∈ rest, tie lt k q.1 = false := by
        intro q hq
        have h2 : lt q.1 p.1 = false := hp q hq
        cases hkq : lt k q.1 with
        | true => simp [tie, hkq]
        | false =>
          have := sw.negTrans p.1 q.1 k h2 hkq
          rw [hlt] at this; cases this
      have hf1 : rest.filter (fun p => tie lt k p.1) = [] := by
        rw [List.filter_eq_nil_iff]; intro q hq; simp [hnone q hq]
      have hf2 : rest.filter (fun p => !tie lt k p.1) = rest := by
        rw [List.filter_eq_self]; intro q hq; simp [hnone q hq]
      simp [ht, hf1, hf2]

theorem filter_congr_mem {α} {p q : α → Bool} : ∀ (l : List α), (∀ x ∈ l, p x = q x) →
    l.filter p = l.filter q
  | [], _ => rfl
  | x :: xs, h => by
    simp only [List.filter_cons, h x (List.mem_cons_self),
      filter_congr_mem xs (fun y hy => h y (List.mem_cons_of_mem _ hy))]

theorem takeWhile_congr_mem {α} {p q : α → Bool} : ∀ (l : List α), (∀ x ∈ l, p x = q x) →
    l.takeWhile p = l.takeWhile q ∧ l.dropWhile p = l.dropWhile q
  | [], _ => by simp
  | x :: xs, h => by
    obtain ⟨i1, i2⟩ := takeWhile_congr_mem xs (fun y hy => h y (List.mem_cons_of_mem _ hy))
    simp only [List.takeWhile_cons, List.dropWhile_cons, h x (List.mem_cons_self), i1, i2]
    exact ⟨trivial, trivial⟩

/-- **the partition.** On a list sorted by an order whose ties are the `==` of `groupby`, the
    runs are exactly the key classes: keys pairwise different, each group = all the elements with
    that key in list order, every element's key has its group. -/
theorem groupRuns_sorted {lt : Val → Val → Bool} {K : Val → Prop} (ko : KeyOrder lt K) :
    ∀ (n : Nat) (l : List (Val × Val)), l.length ≤ n → (∀ p ∈ l, K p.1) →
      Sorted (fun a b : Val × Val => lt a.1 b.1) l →
      (groupRuns l).Pairwise (fun a b => pyEq a.1 b.1 = false) ∧
      (∀ r ∈ groupRuns l, (∃ p ∈ l, p.1 = r.1) ∧
        r.2 = (l.filter (fun p => pyEq r.1 p.1)).map (·.2)) ∧
      (∀ p ∈ l, ∃ r ∈ groupRuns l, pyEq r.1 p.1 = true)
  | _, [], _, _, _ => by simp [groupRuns]
  | 0, _ :: _, hn, _, _ => by simp at hn
  | n + 1, (k, d) :: rest, hn, hK, hs => by
    have hKk : K k := hK (k, d) (List.mem_cons_self)
    have hKr : ∀ p ∈ rest, K p.1 := fun p hp => hK p (List.mem_cons_of_mem _ hp)
    have hs' : Sorted (fun a b : Val × Val => lt a.1 b.1) rest := (List.pairwise_cons.mp hs).2
    have hk : ∀ p ∈ rest, lt p.1 k = false := (List.pairwise_cons.mp hs).1
    -- `==` against `k` is the tie on `rest`
    have heq : ∀ p ∈ rest, pyEq k p.1 = tie lt k p.1 := fun p hp => ko.eq_tie _ _ hKk (hKr p hp)
    obtain ⟨c1, c2⟩ := takeWhile_congr_mem rest heq
    obtain ⟨t1, t2⟩ := sorted_takeWhile_filter ko.sw k rest hs' hk
    have hf1 := filter_congr_mem rest heq
    have hf2 : rest.filter (fun p => !pyEq k p.1) = rest.filter (fun p => !tie lt k p.1) :=
      filter_congr_mem rest (fun p hp => by rw [heq p hp])
    have htw : rest.takeWhile (fun p => pyEq k p.1) = rest.filter (fun p => pyEq k p.1) := by
      rw [c1, t1, hf1]
    have hdw : rest.dropWhile (fun p => pyEq k p.1) = rest.filter (fun p => !pyEq k p.1) := by
      rw [c2, t2, hf2]
    rw [groupRuns_cons, htw, hdw]
    set dw := rest.filter (fun p => !pyEq k p.1) with hdwdef
    have hdwsub : dw.Sublist rest := List.filter_sublist
    have hdwmem : ∀ p, p ∈ dw ↔ p ∈ rest ∧ pyEq k p.1 = false := by
      intro p; simp [hdwdef, List.mem_filter]
    obtain ⟨ih1, ih2, ih3⟩ := groupRuns_sorted ko n dw
      (by have := hdwsub.length_le; simp at hn; omega)
      (fun p hp => hKr p ((hdwmem p).1 hp).1) (hs'.sublist hdwsub)
    refine ⟨?_, ?_, ?_⟩
    · refine List.pairwise_cons.mpr ⟨?_, ih1⟩
      intro r hr
      obtain ⟨⟨p, hp, hpk⟩, _⟩ := ih2 r hr
      rw [← hpk]; exact ((hdwmem p).1 hp).2
    · intro r hr
      rcases List.mem_cons.mp hr with rfl | hr
      · refine ⟨⟨(k, d), List.mem_cons_self, rfl⟩, ?_⟩
        simp [ko.refl hKk]
      · obtain ⟨⟨p, hp, hpk⟩, hg⟩ := ih2 r hr
        have hpr := (hdwmem p).1 hp
        have hKrk : K r.1 := hpk ▸ hKr p hpr.1
        have hkr : pyEq k r.1 = false := hpk ▸ hpr.2
        have hrk : pyEq r.1 k = false := by rw [ko.symm hKrk hKk]; exact hkr
        refine ⟨⟨p, List.mem_cons_of_mem _ hpr.1, hpk⟩, ?_⟩
        rw [hg, List.filter_cons]
        simp only [hrk, Bool.false_eq_true, if_false]
        congr 1
        rw [hdwdef, List.filter_filter]
        apply filter_congr_mem
        intro x hx
        cases hrx : pyEq r.1 x.1 with
        | false => simp
        | true =>
          cases hkx : pyEq k x.1 with
          | false => simp
          | true =>
            have hxr : pyEq x.1 r.1 = true := by rw [ko.symm (hKr x hx) hKrk]; exact hrx
            have := ko.trans hKk (hKr x hx) hKrk hkx hxr
            rw [hkr] at this; cases this
    · intro p hp
      rcases List.mem_cons.mp hp with rfl | hp
      · exact ⟨_, List.mem_cons_self, ko.refl hKk⟩
      · cases hkp : pyEq k p.1 with
        | true => exact ⟨_, List.mem_cons_self, hkp⟩
        | false =>
          obtain ⟨r, hr, hrp⟩ := ih3 p ((hdwmem p).2 ⟨hp, hkp⟩)
          exact ⟨r, List.mem_cons_of_mem _ hr, hrp⟩

end MongoModel.Pipe.Proofs
