/-
  Proofs.C13ExtClean — the document `expandDots` builds from prefix-free keys without operator
  components is clean along every key's path: each node on the way is a sub-document created by
  the expansion, with distinct, non-operator keys.
-/
import Proofs.C13ExtExpand
import Proofs.C13ExtDiscard
import Mathlib.Data.List.Pairwise

set_option linter.unusedVariables false
set_option linter.unusedSimpArgs false

namespace MongoModel.Proofs.C13Ext
open MongoModel MongoModel.Spec MongoModel.Proofs.C13Lemmas

/-- what `expandOne` does to the node at a proper prefix `π` of the new path: the next component
    is set in the sub-document there (an absent node counts as empty) -/
theorem expandOne_node (paths : List String) (v : Val) : ∀ (π : List String) (k : String)
    (rest pre : List String) (acc acc' : Fields),
    expandOne paths v (π ++ k :: rest) pre acc = .ok acc' →
    ∃ x fs0, getPath π (.doc acc') = some (.doc (dset k x fs0)) ∧
      (getPath π (.doc acc) = some (.doc fs0) ∨ (getPath π (.doc acc) = none ∧ fs0 = []))
  | [], k, rest, pre, acc, acc', h => by
    have hres : ∃ x, acc' = dset k x acc := by
      cases rest with
      | nil => simp only [List.nil_append, expandOne] at h; cases h; exact ⟨_, rfl⟩
      | cons r1 rest =>
        simp only [List.nil_append, expandOne] at h
        split at h
        · simp only [bind, Except.bind, pure, Except.pure] at h
          split at h
          · cases h
          · cases h; exact ⟨_, rfl⟩
        · simp only [bind, Except.bind, pure, Except.pure] at h
          split at h
          · cases h
          · cases h; exact ⟨_, rfl⟩
        · split at h <;> cases h
    obtain ⟨x, rfl⟩ := hres
    exact ⟨x, acc, rfl, Or.inl rfl⟩
  | a :: π, k, rest, pre, acc, acc', h => by
    have hshape : (a :: π) ++ k :: rest = a :: (π ++ k :: rest) := rfl
    rw [hshape] at h
    cases hπ : π ++ k :: rest with
    | nil => simp at hπ
    | cons r1 rest' =>
      rw [hπ] at h
      simp only [expandOne] at h
      split at h
      · rename_i hnone
        simp only [bind, Except.bind, pure, Except.pure] at h
        cases hs : expandOne paths v (r1 :: rest') (pre ++ [a]) [] with
        | error e => rw [hs] at h; cases h
        | ok sub =>
          rw [hs] at h; cases h
          rw [← hπ] at hs
          obtain ⟨x, fs0, h1, h2⟩ := expandOne_node paths v π k rest _ [] sub hs
          have hfs0 : fs0 = [] := by
            rcases h2 with h2 | h2
            · cases π with
              | nil => simp only [getPath, Option.some.injEq, Val.doc.injEq] at h2; exact h2.symm
              | cons b π' => rw [getPath_empty_doc] at h2; cases h2
            · exact h2.2
          subst hfs0
          refine ⟨x, [], ?_, Or.inr ⟨getPath_cons_none π hnone, rfl⟩⟩
          rw [getPath_cons_some π (dget_dset_self' a _ acc)]
          exact h1
      · rename_i sub0 hsome
        simp only [bind, Except.bind, pure, Except.pure] at h
        cases hs : expandOne paths v (r1 :: rest') (pre ++ [a]) sub0 with
        | error e => rw [hs] at h; cases h
        | ok sub =>
          rw [hs] at h; cases h
          rw [← hπ] at hs
          obtain ⟨x, fs0, h1, h2⟩ := expandOne_node paths v π k rest _ sub0 sub hs
          refine ⟨x, fs0, ?_, ?_⟩
          · rw [getPath_cons_some π (dget_dset_self' a _ acc)]; exact h1
          · rw [getPath_cons_some π hsome]; exact h2
      · split at h <;> cases h

theorem dkeys_dset (k : String) (x : Val) : ∀ fs : Fields,
    dkeys (dset k x fs) = if k ∈ dkeys fs then dkeys fs else dkeys fs ++ [k]
  | [] => by simp [dset, dkeys]
  | (k', v') :: r => by
    by_cases e : k' = k
    · subst e; simp [dset, dkeys]
    · have ih := dkeys_dset k x r
      simp only [dkeys] at ih ⊢
      simp only [dset, e, if_false, List.map_cons, ih, List.mem_cons, Ne.symm e, false_or]
      split <;> simp [*]

theorem nodup_dset (k : String) (x : Val) (fs : Fields) (h : (dkeys fs).Nodup) :
    (dkeys (dset k x fs)).Nodup := by
  rw [dkeys_dset]
  split
  · exact h
  · rename_i hk
    exact List.nodup_append.2 ⟨h, by simp, fun a ha b hb => by
      simp only [List.mem_singleton] at hb; subst hb; intro e; subst e; exact hk ha⟩

theorem mem_dkeys_dset {k k' : String} {x : Val} {fs : Fields} (h : k' ∈ dkeys (dset k x fs)) :
    k' = k ∨ k' ∈ dkeys fs := by
  rw [dkeys_dset] at h
  split at h
  · exact Or.inr h
  · rcases List.mem_append.1 h with h | h
    · exact Or.inr h
    · exact Or.inl (by simpa using h)

/-- every node of the accumulated document that is not at or below a finished path is a
    sub-document created by the expansion: distinct, non-operator keys, each leading to a
    finished path -/
def NodeInv (done : Fields) (acc : Fields) : Prop :=
  ∀ π x, getPath π (.doc acc) = some x → (∀ a ∈ done, ¬ splitDots a.1 <+: π) →
    ∃ fs, x = .doc fs ∧ (dkeys fs).Nodup ∧
      ∀ k ∈ dkeys fs, k.startsWith "$" = false ∧ ∃ a ∈ done, (π ++ [k]) <+: splitDots a.1

theorem nodeInv_nil : NodeInv [] [] := by
  intro π x hg _
  cases π with
  | nil => simp only [getPath, Option.some.injEq] at hg; subst hg; exact ⟨[], rfl, by simp [dkeys], by simp [dkeys]⟩
  | cons a t => rw [getPath_empty_doc] at hg; cases hg

theorem nodeInv_step (done acc acc' : Fields) (kv : String × Val) (paths pre : List String)
    (hex : expandOne paths kv.2 (splitDots kv.1) pre acc = .ok acc')
    (hinc : ∀ a ∈ done, Incomp (splitDots a.1) (splitDots kv.1))
    (hnd : ∀ part ∈ splitDots kv.1, part.startsWith "$" = false)
    (hI : NodeInv done acc) : NodeInv (done ++ [kv]) acc' := by
  intro π x hg hnp
  have hnp' : ¬ splitDots kv.1 <+: π := hnp kv (by simp)
  have hdone : ∀ a ∈ done, ¬ splitDots a.1 <+: π := fun a ha => hnp a (by simp [ha])
  by_cases hpre : π <+: splitDots kv.1
  · obtain ⟨t, ht⟩ := hpre
    cases t with
    | nil => rw [List.append_nil] at ht; exact absurd (ht ▸ List.prefix_refl _) hnp'
    | cons k rest =>
      rw [← ht] at hex
      obtain ⟨x', fs0, h1, h2⟩ := expandOne_node paths kv.2 π k rest pre acc acc' hex
      rw [h1] at hg
      cases hg
      have hk : k.startsWith "$" = false := hnd k (by rw [← ht]; simp)
      have hclean : (dkeys fs0).Nodup ∧ ∀ k' ∈ dkeys fs0, k'.startsWith "$" = false ∧
          ∃ a ∈ done, (π ++ [k']) <+: splitDots a.1 := by
        rcases h2 with h2 | ⟨_, rfl⟩
        · obtain ⟨fs, e, hn, hk'⟩ := hI π _ h2 hdone
          cases e; exact ⟨hn, hk'⟩
        · exact ⟨by simp [dkeys], by simp [dkeys]⟩
      refine ⟨_, rfl, nodup_dset k x' fs0 hclean.1, ?_⟩
      intro k' hk'
      rcases mem_dkeys_dset hk' with rfl | hk'
      · exact ⟨hk, kv, by simp, by rw [← ht]; exact ⟨rest, by simp⟩⟩
      · obtain ⟨h3, a, ha, h4⟩ := hclean.2 k' hk'
        exact ⟨h3, a, by simp [ha], h4⟩
  · rw [expandOne_frame paths kv.2 _ _ _ _ π hex ⟨hnp', hpre⟩] at hg
    obtain ⟨fs, e, hn, hk'⟩ := hI π x hg hdone
    refine ⟨fs, e, hn, ?_⟩
    intro k' hk''
    obtain ⟨h3, a, ha, h4⟩ := hk' k' hk''
    exact ⟨h3, a, by simp [ha], h4⟩

theorem fold_nodeInv : ∀ (ss done : Fields) (st st' : Fields × List String),
    ss.foldlM edStep st = .ok st' →
    ss.Pairwise (fun a b => Incomp (splitDots a.1) (splitDots b.1)) →
    (∀ a ∈ done, ∀ b ∈ ss, Incomp (splitDots a.1) (splitDots b.1)) →
    (∀ b ∈ ss, ∀ part ∈ splitDots b.1, part.startsWith "$" = false) →
    NodeInv done st.1 → NodeInv (done ++ ss) st'.1
  | [], done, st, st', h, _, _, _, hI => by
    simp only [List.foldlM_nil, pure, Except.pure] at h
    cases h
    simpa using hI
  | kv :: ss, done, st, st', h, hp, hc, hnd, hI => by
    rw [List.foldlM_cons] at h
    cases h1 : edStep st kv with
    | error e => rw [h1] at h; cases h
    | ok st1 =>
      rw [h1] at h
      simp only [bind, Except.bind] at h
      obtain ⟨paths, hex⟩ := edStep_ok st st1 kv h1
      obtain ⟨hp1, hp2⟩ := List.pairwise_cons.1 hp
      have hI1 := nodeInv_step done st.1 st1.1 kv paths [] hex
        (fun a ha => hc a ha kv (List.mem_cons_self ..)) (hnd kv (List.mem_cons_self ..)) hI
      have := fold_nodeInv ss (done ++ [kv]) st1 st' h hp2
        (by
          intro a ha b hb
          rcases List.mem_append.1 ha with ha | ha
          · exact hc a ha b (List.mem_cons_of_mem _ hb)
          · simp only [List.mem_singleton] at ha; subst ha; exact hp1 b hb)
        (fun b hb => hnd b (List.mem_cons_of_mem _ hb)) hI1
      simpa using this

theorem getPath_snoc : ∀ (p : List String) (part : String) (d x sub : Val),
    getPath p d = some x → getPath [part] x = some sub → getPath (p ++ [part]) d = some sub
  | [], part, d, x, sub, h1, h2 => by
    simp only [getPath, Option.some.injEq] at h1; subst h1; exact h2
  | a :: p, part, d, x, sub, h1, h2 => by
    cases d with
    | doc fs =>
      cases hd : dget a fs with
      | none => simp [getPath, hd] at h1
      | some v =>
        simp only [List.cons_append, getPath, hd] at h1 ⊢
        exact getPath_snoc p part v x sub h1 h2
    | arr xs =>
      simp only [List.cons_append, getPath] at h1 ⊢
      split at h1
      · rename_i i hi
        split at h1
        · cases h1
        · rename_i hneg
          simp only [hneg, if_false]
          split at h1
          · rename_i v hv
            exact getPath_snoc p part _ x sub h1 h2
          · cases h1
      · cases h1
    | _ => simp [getPath] at h1

/-- from the invariant: the path of a finished item is clean -/
theorem cleanAlong_of_inv (S acc : Fields)
    (hpair : S.Pairwise (fun a b => Incomp (splitDots a.1) (splitDots b.1)))
    (hI : NodeInv S acc) (a : String × Val) (ha : a ∈ S) :
    ∀ (rest π : List String) (x : Val), π ++ rest = splitDots a.1 →
      getPath π (.doc acc) = some x → cleanAlong rest x = true
  | [], _, _, _, _ => rfl
  | part :: rest, π, x, hsplit, hg => by
    have : Std.Symm (fun a b : String × Val => Incomp (splitDots a.1) (splitDots b.1)) :=
      ⟨fun _ _ h => h.symm⟩
    have hno : ∀ b ∈ S, ¬ splitDots b.1 <+: π := by
      intro b hb hpre
      have hπa : π <+: splitDots a.1 := ⟨part :: rest, hsplit⟩
      by_cases hab : b = a
      · subst hab
        have := List.IsPrefix.length_le hpre
        rw [← hsplit] at this
        simp at this
      · exact (hpair.forall hb ha hab).1 (hpre.trans hπa)
    obtain ⟨fs, rfl, hn, hk⟩ := hI π x hg hno
    have hall : fs.all (fun kv => !kv.1.startsWith "$") = true := by
      simp only [List.all_eq_true, Bool.not_eq_true']
      intro kv hm
      exact (hk kv.1 (List.mem_map.2 ⟨kv, hm, rfl⟩)).1
    simp only [cleanAlong, hn, decide_true, hall, Bool.and_self, Bool.true_and]
    cases hd : dget part fs with
    | none => rfl
    | some sub =>
      have hg' : getPath (π ++ [part]) (.doc acc) = some sub :=
        getPath_snoc π part _ _ sub hg (by simp [getPath, hd])
      exact cleanAlong_of_inv S acc hpair hI a ha rest (π ++ [part]) sub (by simpa using hsplit) hg'

/-- **the expanded filter is clean along every key's path** -/
theorem expand_clean (ss ex : Fields) (h : expandDots ss = .ok ex) (hp : prefixFree ss)
    (hnd : noDollarParts ss = true) :
    ∀ kv ∈ ss, cleanAlong (splitDots kv.1) (.doc ex) = true := by
  have hnd' : ∀ b ∈ ss, ∀ part ∈ splitDots b.1, part.startsWith "$" = false := by
    intro b hb part hpart
    have := List.all_eq_true.1 (List.all_eq_true.1 hnd b hb) part hpart
    simpa using this
  rw [expandDots_eq] at h
  cases hf : ss.foldlM edStep ([], []) with
  | error e => rw [hf] at h; cases h
  | ok st' =>
    rw [hf] at h
    cases h
    have hI := fold_nodeInv ss [] ([], []) st' hf hp (by simp) hnd' nodeInv_nil
    simp only [List.nil_append] at hI
    intro kv hkv
    exact cleanAlong_of_inv ss st'.1 hp hI kv hkv (splitDots kv.1) [] (.doc st'.1) rfl rfl

end MongoModel.Proofs.C13Ext
