/-
  Proofs.C04Fix3 — laws that the third batch of repairs made true: d10f41c (an operator of a fixed
  arity rejects any other number of arguments before evaluating them, a bare operand counting as
  one), 50b60be (`acc_bare_missing` in Proofs/C04Acc), b727c9f (`$toString` of a datetime).
-/
import Proofs.C04Fix2

set_option linter.unusedSimpArgs false
set_option linter.unnecessarySeqFocus false

namespace MongoModel.Proofs.C04
open MongoModel MongoModel.Expr MongoModel.Spec

theorem arityOps_cases (k : String) (h : arityOps.contains k = true) :
    k = "$cmp" ∨ k = "$eq" ∨ k = "$ne" ∨ k = "$gt" ∨ k = "$gte" ∨ k = "$lt" ∨ k = "$lte" ∨
    k = "$divide" ∨ k = "$log" ∨ k = "$mod" ∨ k = "$pow" ∨ k = "$subtract" ∨
    k = "$arrayElemAt" ∨ k = "$cond" ∨ k = "$ifNull" ∨ k = "$in" ∨ k = "$setEquals" ∨
    k = "$split" := by
  simpa [arityOps, comparisonOps, binaryArithOps] using h

theorem arityOps_known (k : String) (h : arityOps.contains k = true) :
    classify k ≠ .plain ∧ classify k ≠ .unknown ∧ classify k ≠ .notImpl ∧
      unaryListOps.contains k = false ∧ variadicOps.contains k = false := by
  rcases arityOps_cases k h with rfl | rfl | rfl | rfl | rfl | rfl | rfl | rfl | rfl | rfl | rfl
    | rfl | rfl | rfl | rfl | rfl | rfl | rfl <;> decide

theorem arityOps_mode (k : String) (h : arityOps.contains k = true) (v : Val) :
    mode k v = .shaped := by
  rcases arityOps_cases k h with rfl | rfl | rfl | rfl | rfl | rfl | rfl | rfl | rfl | rfl | rfl
    | rfl | rfl | rfl | rfl | rfl | rfl | rfl <;>
    simp [mode, dateOps, datePartOps, wholeOps, unaryArithOps, groupingOps]

/-- a list of the wrong length is rejected before any of its items is evaluated -/
theorem arity_list_error (c : Ctx) (k : String) (hk : arityOps.contains k = true) (xs : List Val)
    (h : arityErr k xs.length = some .opFail) :
    eval c (.doc [(k, .arr xs)]) = .error .opFail := by
  obtain ⟨h1, h2, h3, hu, _⟩ := arityOps_known k hk
  rw [eval_shaped c k _ h1 h2 h3 hu (Or.inr rfl) (arityOps_mode k hk _)]
  simp [evalOp, h]

/-- a bare operand counts as one argument: rejected, whatever it is (the document form of `$cond`
    apart) -/
theorem arity_bare_error (c : Ctx) (k : String) (hk : arityOps.contains k = true) (v : Val)
    (hv : v.isArr = false) (hc : k = "$cond" → v.isDoc = false) :
    eval c (.doc [(k, v)]) = .error .opFail := by
  obtain ⟨h1, h2, h3, hu, hva⟩ := arityOps_known k hk
  rw [eval_shaped c k _ h1 h2 h3 hu (Or.inl hva) (arityOps_mode k hk _)]
  have hsh : argShapeErr k v = .error .opFail := by
    unfold argShapeErr
    rw [if_pos hk]
  cases v with
  | arr xs => simp [Val.isArr] at hv
  | doc gs =>
    have hnc : ¬ k = "$cond" := fun e => by simpa [Val.isDoc] using hc e
    rcases arityOps_cases k hk with rfl | rfl | rfl | rfl | rfl | rfl | rfl | rfl | rfl | rfl | rfl
      | rfl | rfl | rfl | rfl | rfl | rfl | rfl <;>
      first
        | (exact absurd rfl hnc)
        | simp [evalOp, argShapeErr, arityOps, comparisonOps, binaryArithOps]
  | _ => all_goals (simp only [evalOp]; exact hsh)

/-! ### the rules reject it too -/

theorem sList_length (root : Val) (env : Env) (xs : List Val) (vs : List (Option Val))
    (h : sList root env xs = .ok vs) : vs.length = xs.length := by
  induction xs generalizing vs with
  | nil => simp [sList] at h; subst h; rfl
  | cons x r ih =>
    simp only [sList, bind, Except.bind] at h
    cases hx : sEval root env x with
    | error e => simp [hx] at h
    | ok v =>
      simp only [hx] at h
      cases hr : sList root env r with
      | error e => simp [hr] at h
      | ok ws =>
        simp only [hr, pure, Except.pure, Except.ok.injEq] at h
        subst h
        simp [ih ws hr]

/-- the operators of two arguments the rules know -/
def binaryRuleOps : List String :=
  ["$eq", "$ne", "$gt", "$gte", "$lt", "$lte", "$subtract", "$divide", "$mod", "$pow", "$in",
   "$arrayElemAt"]

theorem applyStrict_two (k : String) (hk : binaryRuleOps.contains k = true)
    (vs : List (Option Val)) (hlen : vs.length ≠ 2) : applyStrict k vs = .error .opFail := by
  simp only [binaryRuleOps, List.contains_cons, List.contains_nil, Bool.or_false, Bool.or_eq_true,
    beq_iff_eq] at hk
  match vs, hlen with
  | [], _ =>
    rcases hk with rfl | rfl | rfl | rfl | rfl | rfl | rfl | rfl | rfl | rfl | rfl | rfl <;>
      simp [applyStrict]
  | [_], _ =>
    rcases hk with rfl | rfl | rfl | rfl | rfl | rfl | rfl | rfl | rfl | rfl | rfl | rfl <;>
      simp [applyStrict]
  | [_, _], h => simp at h
  | _ :: _ :: _ :: _, _ =>
    rcases hk with rfl | rfl | rfl | rfl | rfl | rfl | rfl | rfl | rfl | rfl | rfl | rfl <;>
      simp [applyStrict]

/-- by the rules an operator of two arguments given another number of them has no value -/
theorem spec_arity_two (root : Val) (env : Env) (k : String) (hk : binaryRuleOps.contains k = true)
    (xs : List Val) (hlen : xs.length ≠ 2) (r : Option Val) :
    sOperator root env [(k, .arr xs)] ≠ .ok r := by
  have hst : strictOps.contains k = true := by
    simp only [binaryRuleOps, List.contains_cons, List.contains_nil, Bool.or_false, Bool.or_eq_true,
      beq_iff_eq] at hk
    rcases hk with rfl | rfl | rfl | rfl | rfl | rfl | rfl | rfl | rfl | rfl | rfl | rfl <;> decide
  have hlit : ¬ k = "$literal" := by
    intro e; subst e; revert hk; decide
  simp only [sOperator, hlit, if_false, hst, if_true, bind, Except.bind]
  cases hs : sList root env xs with
  | error e => simp
  | ok vs =>
    have := sList_length root env xs vs hs
    simp [applyStrict_two k hk vs (by omega)]

/-! ### `$toString` of a datetime -/

theorem toString_date (u : Int) : toStringOp (.date u none) = .ok (.str (isoZ u)) := rfl

end MongoModel.Proofs.C04
