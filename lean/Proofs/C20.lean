/-
  Proofs.C20 — lemmas about the dispatch structure of MongoModel.Vocab (unbounded: for every
  table, position and name) and about the opt-out switches.  The theorems over the regenerated
  tables are in Proofs/C20Tables.lean.
-/
import MongoModel.Vocab

namespace MongoModel.Proofs.C20
open MongoModel.Vocab

/-! ### membership helpers -/

theorem contains_false_of_not_mem {l : List Code} {k : Code} (h : k ∉ l) : l.contains k = false := by
  simpa using h

theorem beq_false_of_ne {a b : Code} (h : a ≠ b) : (a == b) = false := by
  simpa using h

/-- a name that is in no list of the chain hits nothing -/
theorem chainHit_none (k : Code) (ch : List (List Code × List Code))
    (h : k ∉ (ch.map (·.1)).flatten) : chainHit k ch = none := by
  induction ch with
  | nil => rfl
  | cons p rest ih =>
    obtain ⟨l, br⟩ := p
    simp only [List.map_cons, List.flatten_cons, List.mem_append, not_or] at h
    simp [chainHit, h.1, ih h.2]

theorem chainHit_some_mem (k : Code) (ch : List (List Code × List Code)) (b : Bool)
    (h : chainHit k ch = some b) : k ∈ (ch.map (·.1)).flatten := by
  induction ch with
  | nil => simp [chainHit] at h
  | cons p rest ih =>
    obtain ⟨l, br⟩ := p
    simp only [chainHit] at h
    simp only [List.map_cons, List.flatten_cons, List.mem_append]
    by_cases hc : k ∈ l
    · left; exact hc
    · simp [hc] at h; right; exact ih h

/-! ### the default branch raises -/

/-- **Unknown names raise.**  At EVERY position, a `$name` for which the position has no branch
    at all takes the default branch, which raises — `NotImplementedError` for stages and
    accumulators, OperationFailure / WriteError / ValueError elsewhere.  (The three positions
    that validated nothing — a condition whose path reaches no value, an update that matches no
    document, the clauses next to `$each` in `$addToSet` — are repaired in the library: 6c55e75,
    1244abc, 6c1d985.) -/
theorem unknown_raises (T : Tables Code) (pos : Position) (k : Code)
    (hop : isOp k = true) (hk : k ∉ recognised T pos) :
    dispatch T pos k = defaultRaise pos := by
  cases pos <;>
    simp only [recognised, List.mem_append, List.mem_cons, List.not_mem_nil,
      or_false, not_or] at hk
  -- queryField
  · obtain ⟨⟨h1, h2⟩, h3⟩ := hk
    simp [dispatch, dispatchC, fieldDispatch, classify, defaultRaise, hop,
      h1, h3, h2]
  -- queryFieldDeadEnd
  · obtain ⟨⟨h1, h2⟩, h3⟩ := hk
    simp [dispatch, dispatchC, deadEndDispatch, classify, defaultRaise, hop,
      h1, h3, h2]
  -- queryTop
  · obtain ⟨⟨⟨h1, h2⟩, h3⟩, h4⟩ := hk
    simp [dispatch, dispatchC, topDispatch, classify, defaultRaise, hop,
      h3, h4, h1,
      h2]
  -- queryNot
  · obtain ⟨h1, h2⟩ := hk
    simp [dispatch, dispatchC, notDispatch, classify, defaultRaise,
      h1, h2]
  -- queryElemMatch
  · obtain ⟨⟨⟨⟨⟨⟨h1, h2⟩, h3⟩, h4⟩, h5⟩, h6⟩, h7⟩ := hk
    simp [dispatch, dispatchC, elemMatchDispatch, topDispatch, fieldDispatch, classify,
      defaultRaise, hop, h3, h4,
      h5, h7, h1,
      h2, h6]
  -- updateOp
  · obtain ⟨h1, h2⟩ := hk
    simp [dispatch, dispatchC, updateDispatch, classify, defaultRaise,
      h1, h2]
  -- updateNoMatch
  · simp [dispatch, dispatchC, updateNoMatchDispatch, classify, defaultRaise,
      hk]
  -- pushModifier
  · simp [dispatch, dispatchC, pushDispatch, classify, defaultRaise,
      hk]
  -- addToSetModifier
  · simp [dispatch, dispatchC, addToSetDispatch, classify, defaultRaise,
      hk]
  -- stage
  · simp [dispatch, dispatchC, stageDispatch, classify, defaultRaise,
      hk]
  -- the four expression positions
  all_goals first
    | (obtain ⟨h1, h2⟩ := hk
       simp [dispatch, dispatchC, exprDispatch, classify, defaultRaise, hop,
         chainHit_none k T.exprChain h1, h2]
       done)
    | skip
  -- accumulator
  · simp [dispatch, dispatchC, accDispatch, classify, defaultRaise,
      hk]
  -- typeAlias
  · obtain ⟨h1, h2⟩ := hk
    simp [dispatch, dispatchC, typeDispatch, classify, defaultRaise,
      h1, h2]

/-- positions whose default branch does not even look at the `$`: any unrecognised key raises -/
def Position.strict : Position → Bool
  | .queryNot | .updateOp | .updateNoMatch | .pushModifier | .addToSetModifier | .stage
  | .accumulator | .typeAlias => true
  | _ => false

theorem unknown_raises_strict (T : Tables Code) (pos : Position) (k : Code)
    (hs : Position.strict pos = true) (hk : k ∉ recognised T pos) :
    dispatch T pos k = defaultRaise pos := by
  cases pos <;> simp only [Position.strict] at hs <;>
    simp only [recognised, List.mem_append, not_or] at hk
  all_goals first | exact absurd hs (by decide) | skip
  · obtain ⟨h1, h2⟩ := hk
    simp [dispatch, dispatchC, notDispatch, classify, defaultRaise,
      h1, h2]
  · obtain ⟨h1, h2⟩ := hk
    simp [dispatch, dispatchC, updateDispatch, classify, defaultRaise,
      h1, h2]
  · simp [dispatch, dispatchC, updateNoMatchDispatch, classify, defaultRaise,
      hk]
  · simp [dispatch, dispatchC, pushDispatch, classify, defaultRaise,
      hk]
  · have hne : k ≠ cEach := by simpa using hk
    simp [dispatch, dispatchC, addToSetDispatch, classify, defaultRaise,
      hne]
  · simp [dispatch, dispatchC, stageDispatch, classify, defaultRaise,
      hk]
  · simp [dispatch, dispatchC, accDispatch, classify, defaultRaise,
      hk]
  · obtain ⟨h1, h2⟩ := hk
    simp [dispatch, dispatchC, typeDispatch, classify, defaultRaise,
      h1, h2]

theorem defaultRaise_raises (pos : Position) : (defaultRaise pos).raises = true := by
  cases pos <;> rfl

/-- the full-strength form: whatever the tables, position and name -/
theorem unknown_raises_everywhere (T : Tables Code) (pos : Position) (k : Code)
    (hop : isOp k = true) (hk : k ∉ recognised T pos) : (dispatch T pos k).raises = true := by
  rw [unknown_raises T pos k hop hk]
  exact defaultRaise_raises pos

/-! ### where the structure ignores a name -/

theorem topDispatch_ignored {c : NameClass} (h : topDispatch c = .ignored) :
    c.logical = true ∧ c.logicalConst = true ∧ c.not_ = false := by
  unfold topDispatch at h
  split at h
  · cases h
  · split at h
    · split at h
      · rename_i hl hc
        simp only [Bool.and_eq_true, Bool.not_eq_true'] at hl
        exact ⟨hl.1, hc, hl.2⟩
      · cases h
    · split at h
      · cases h
      · split at h
        · cases h
        · split at h <;> cases h

theorem fieldDispatch_not_ignored (c : NameClass) : fieldDispatch c ≠ .ignored := by
  unfold fieldDispatch
  repeat' split
  all_goals simp

theorem exprDispatch_not_ignored (dec : Bool) (c : NameClass) : exprDispatch dec c ≠ .ignored := by
  unfold exprDispatch
  repeat' split
  all_goals simp

theorem deadEndDispatch_ignored {c : NameClass} (h : deadEndDispatch c = .ignored) :
    c.neNin = true := by
  unfold deadEndDispatch at h
  split at h
  · cases h
  · split at h
    · split at h
      · assumption
      · cases h
    · split at h <;> cases h

theorem updateNoMatchDispatch_ignored {c : NameClass} (h : updateNoMatchDispatch c = .ignored) :
    c.updateChecked = true ∧ c.updater = false ∧ c.updateInline = false := by
  unfold updateNoMatchDispatch at h
  split at h
  · cases h
  · split at h
    · cases h
    · rename_i h1 h2
      simp only [Bool.not_eq_true', Bool.not_eq_false] at h1
      simp only [Bool.or_eq_true, not_or, Bool.not_eq_true] at h2
      exact ⟨h1, h2.1, h2.2⟩

theorem accDispatch_ignored {c : NameClass} (h : accDispatch c = .ignored) :
    c.groupChecked = true ∧ c.grouping = false ∧ c.groupInline = false := by
  unfold accDispatch at h
  split at h
  · cases h
  · split at h
    · cases h
    · rename_i h1 h2
      simp only [Bool.not_eq_true', Bool.not_eq_false] at h1
      simp only [Bool.or_eq_true, not_or, Bool.not_eq_true] at h2
      exact ⟨h1, h2.1, h2.2⟩

/-- **The structure ignores a name only in the listed ways**: a connective of
    `LOGICAL_OPERATOR_MAP` other than `$not` whose value is always truthy at the top level of a
    filter or of an `$elemMatch` query; `$ne` / `$nin` on a path that reaches no value (their operand is not
    looked at); an update operator that the pre-check lets through and the operator loop has no
    branch for, when no document matches; an accumulator that the pre-check lets through and
    `_accumulate_group` has no branch for. -/
theorem ignored_only_structurally (T : Tables Code) (pos : Position) (k : Code)
    (h : dispatch T pos k = .ignored) :
    (k ∈ T.logicalConst ∧ k ∈ T.logicalOps ∧ k ≠ cNot ∧
      (pos = .queryTop ∨ pos = .queryElemMatch)) ∨
    (pos = .queryFieldDeadEnd ∧ (k = cNe ∨ k = cNin)) ∨
    (pos = .updateNoMatch ∧ k ∈ T.updateChecked ∧ k ∉ T.updaters ∧ k ∉ T.updateInline) ∨
    (pos = .accumulator ∧ k ∈ T.groupChecked ∧ k ∉ T.groupingMap ∧ k ∉ T.groupInline) := by
  cases pos <;> simp only [dispatch, dispatchC] at h
  case queryFieldDeadEnd =>
    right; left
    have := deadEndDispatch_ignored h
    simp only [classify, Bool.or_eq_true, beq_iff_eq] at this
    exact ⟨rfl, this⟩
  case updateNoMatch =>
    right; right; left
    have := updateNoMatchDispatch_ignored h
    simp only [classify, List.contains_eq_mem, decide_eq_true_eq, decide_eq_false_iff_not] at this
    exact ⟨rfl, this⟩
  case addToSetModifier => unfold addToSetDispatch at h; split at h <;> cases h
  case queryField => exact absurd h (fieldDispatch_not_ignored _)
  case queryTop =>
    left
    have := topDispatch_ignored h
    simp only [classify, List.contains_eq_mem, decide_eq_true_eq, beq_eq_false_iff_ne] at this
    exact ⟨this.2.1, this.1, this.2.2, Or.inl rfl⟩
  case queryNot =>
    unfold notDispatch at h
    split at h
    · exact absurd h (fieldDispatch_not_ignored _)
    · cases h
  case queryElemMatch =>
    left
    unfold elemMatchDispatch at h
    split at h
    · exact absurd h (fieldDispatch_not_ignored _)
    · have := topDispatch_ignored h
      simp only [classify, List.contains_eq_mem, decide_eq_true_eq, beq_eq_false_iff_ne] at this
      exact ⟨this.2.1, this.1, this.2.2, Or.inr rfl⟩
  case updateOp =>
    unfold updateDispatch at h
    split at h
    · cases h
    · split at h <;> cases h
  case pushModifier => unfold pushDispatch at h; split at h <;> cases h
  case stage => unfold stageDispatch at h; split at h <;> cases h
  case exprProject | exprAddFields | exprMatchExpr | exprGroupId =>
    exact absurd h (exprDispatch_not_ignored _ _)
  case accumulator =>
    right; right; right
    have := accDispatch_ignored h
    simp only [classify, List.contains_eq_mem, decide_eq_true_eq, decide_eq_false_iff_not] at this
    exact ⟨rfl, this⟩
  case typeAlias =>
    unfold typeDispatch at h
    split at h
    · cases h
    · split at h <;> cases h

/-- the names the code declares "valid but not implemented" raise NotImplementedError -/
theorem stage_none_raises (T : Tables Code) (k : Code) (h : k ∉ T.stagesImpl) :
    dispatch T .stage k = .raisesNotImplemented := by
  simp [dispatch, dispatchC, stageDispatch, classify, h]

theorem type_none_raises (T : Tables Code) (k : Code) (h : k ∉ T.typeImpl) (h' : k ∈ T.typeNone) :
    dispatch T .typeAlias k = .raisesNotImplemented := by
  simp [dispatch, dispatchC, typeDispatch, classify, h, h']

/-- all four expression positions go through one dispatcher -/
theorem expr_positions_agree (T : Tables Code) (k : Code) :
    dispatch T .exprAddFields k = dispatch T .exprProject k ∧
    dispatch T .exprMatchExpr k = dispatch T .exprProject k ∧
    dispatch T .exprGroupId k = dispatch T .exprProject k := ⟨rfl, rfl, rfl⟩

/-! ### from the per-row check to the per-entry statements -/

theorem row_ok_entries (T : Tables Code) (r : Row) (h : r.ok T = true) :
    ∀ e ∈ r.entries, enc e.name = e.code ∧ dispatch T e.pos e.code = e.disp := by
  intro e he
  simp only [Row.ok, Bool.and_eq_true, beq_iff_eq, decide_eq_true_eq, List.all_eq_true] at h
  obtain ⟨⟨h1, h2⟩, h3⟩ := h
  simp only [Row.entries, List.mem_map] at he
  obtain ⟨pd, hpd, rfl⟩ := he
  refine ⟨h1, ?_⟩
  simp only [dispatch, h2]
  exact h3 pd hpd

theorem rows_ok_entries (T : Tables Code) (rows : List Row)
    (h : rows.all (Row.ok T) = true) :
    ∀ e ∈ entriesOf rows, enc e.name = e.code ∧ dispatch T e.pos e.code = e.disp := by
  intro e he
  simp only [entriesOf, List.mem_flatMap] at he
  obtain ⟨r, hr, her⟩ := he
  exact row_ok_entries T r (List.all_eq_true.mp h r hr) e her

theorem chunks_all {α} (p : α → Bool) (chunks : List (List α))
    (h : chunks.all (fun c => c.all p) = true) : chunks.flatten.all p = true := by
  simp only [List.all_eq_true, List.mem_flatten] at *
  intro x ⟨c, hc, hx⟩
  exact h c hc x hx

theorem row_known_entries (kq : List (Position × Code)) (r : Row)
    (h : r.ignoredKnown kq = true) :
    ∀ e ∈ r.entries, e.disp = .ignored → (e.pos, e.code) ∈ kq := by
  intro e he hd
  simp only [Row.ignoredKnown, List.all_eq_true, Bool.or_eq_true, decide_eq_true_eq,
    List.contains_eq_mem] at h
  simp only [Row.entries, List.mem_map] at he
  obtain ⟨pd, hpd, rfl⟩ := he
  rcases h pd hpd with h1 | h1
  · exact absurd hd h1
  · exact h1

theorem rows_known_entries (kq : List (Position × Code)) (rows : List Row)
    (h : rows.all (Row.ignoredKnown kq) = true) :
    ∀ e ∈ entriesOf rows, e.disp = .ignored → (e.pos, e.code) ∈ kq := by
  intro e he
  simp only [entriesOf, List.mem_flatMap] at he
  obtain ⟨r, hr, her⟩ := he
  exact row_known_entries kq r (List.all_eq_true.mp h r hr) e her

/-! ### consumer sites of the shared dispatchers -/

theorem siteRow_ok_entries (T : Tables Code) (r : SiteRow) (h : r.ok T = true) :
    ∀ e ∈ r.entries, dispatch T e.pos e.code = e.disp ∨ e.disp.raises = true := by
  intro e he
  simp only [SiteRow.ok, Bool.and_eq_true, decide_eq_true_eq, List.all_eq_true,
    Bool.or_eq_true] at h
  obtain ⟨h2, h3⟩ := h
  simp only [SiteRow.entries, List.mem_map] at he
  obtain ⟨d, hd, rfl⟩ := he
  rcases h3 d hd with h4 | h4
  · left
    simp only [dispatch, h2]
    exact h4
  · exact Or.inr h4

theorem siteRows_ok_entries (T : Tables Code) (rows : List SiteRow)
    (h : rows.all (SiteRow.ok T) = true) :
    ∀ e ∈ siteEntriesOf rows, dispatch T e.pos e.code = e.disp ∨ e.disp.raises = true := by
  intro e he
  simp only [siteEntriesOf, List.mem_flatMap] at he
  obtain ⟨r, hr, her⟩ := he
  exact siteRow_ok_entries T r (List.all_eq_true.mp h r hr) e her

theorem siteRow_known_entries (known : List (Nat × Code)) (r : SiteRow)
    (h : r.ignoredKnown known = true) :
    ∀ e ∈ r.entries, e.disp = .ignored → (e.site, e.code) ∈ known := by
  intro e he hd
  simp only [SiteRow.ignoredKnown, List.all_eq_true, Bool.or_eq_true, decide_eq_true_eq,
    List.contains_eq_mem] at h
  simp only [SiteRow.entries, List.mem_map] at he
  obtain ⟨d, hdm, rfl⟩ := he
  rcases h d hdm with h1 | h1
  · exact absurd hd h1
  · exact h1

theorem siteRows_known_entries (known : List (Nat × Code)) (rows : List SiteRow)
    (h : rows.all (SiteRow.ignoredKnown known) = true) :
    ∀ e ∈ siteEntriesOf rows, e.disp = .ignored → (e.site, e.code) ∈ known := by
  intro e he
  simp only [siteEntriesOf, List.mem_flatMap] at he
  obtain ⟨r, hr, her⟩ := he
  exact siteRow_known_entries known r (List.all_eq_true.mp h r hr) e her

theorem siteRow_empty_entries (known : List Nat) (r : SiteRow)
    (h : r.emptyKnown known = true) :
    ∀ e ∈ r.entries, (e.disp.raises = true → e.onEmpty ≠ .notProbed) ∧
      (e.onEmpty = .silent → e.site ∈ known) := by
  intro e he
  simp only [SiteRow.emptyKnown, List.all_eq_true, Bool.and_eq_true, Bool.or_eq_true,
    Bool.not_eq_true', decide_eq_true_eq, List.contains_eq_mem] at h
  simp only [SiteRow.entries, List.mem_map] at he
  obtain ⟨d, hdm, rfl⟩ := he
  obtain ⟨h1, h2⟩ := h d hdm
  constructor
  · intro hr
    rcases h1 with h1 | h1
    · rw [hr] at h1; cases h1
    · exact h1
  · intro hs
    rcases h2 with h2 | h2
    · exact absurd hs h2
    · exact h2

theorem siteRows_empty_entries (known : List Nat) (rows : List SiteRow)
    (h : rows.all (SiteRow.emptyKnown known) = true) :
    ∀ e ∈ siteEntriesOf rows, (e.disp.raises = true → e.onEmpty ≠ .notProbed) ∧
      (e.onEmpty = .silent → e.site ∈ known) := by
  intro e he
  simp only [siteEntriesOf, List.mem_flatMap] at he
  obtain ⟨r, hr, her⟩ := he
  exact siteRow_empty_entries known r (List.all_eq_true.mp h r hr) e her

/-- at a site that follows its dispatcher (or raises), an unrecognised `$name` raises -/
theorem site_unknown_raises (T : Tables Code) (e : SiteEntry)
    (h : dispatch T e.pos e.code = e.disp ∨ e.disp.raises = true)
    (hop : isOp e.code = true) (hk : e.code ∉ recognised T e.pos) :
    e.disp.raises = true := by
  rcases h with h | h
  · rw [← h, unknown_raises T e.pos e.code hop hk]
    exact defaultRaise_raises e.pos
  · exact h

/-! ### `not_implemented.py` -/

theorem lookup_set (fs : Features) (f g : String) (b : Bool) :
    (fs.set f b).lookup g = if g = f then (fs.lookup g).map (fun _ => b) else fs.lookup g := by
  induction fs with
  | nil => simp [Features.set, List.lookup]
  | cons p rest ih =>
    obtain ⟨n, v⟩ := p
    simp only [Features.set, List.map_cons] at ih ⊢
    by_cases hn : n = f
    · subst hn
      by_cases hg : g = n
      · subst hg; simp [List.lookup]
      · have : (g == n) = false := by simpa using hg
        simp only [beq_self_eq_true, if_true, List.lookup, this, hg, if_false]
        simpa [hg] using ih
    · have hnf : (n == f) = false := by simpa using hn
      simp only [hnf, Bool.false_eq_true, if_false, List.lookup]
      by_cases hg : g = n
      · subst hg; simp [hn]
      · have : (g == n) = false := by simpa using hg
        simpa [this] using ih

/-- after `ignore_feature(f)` the guard of `f` lets the option through … -/
theorem ignore_then_passes (fs fs' : Features) (f : String) (h : ignoreFeature fs f = some fs') :
    raiseForFeature fs' f = .passes := by
  unfold ignoreFeature at h
  split at h
  · rename_i hs
    cases h
    obtain ⟨v, hv⟩ := Option.isSome_iff_exists.mp hs
    simp [raiseForFeature, lookup_set, hv]
  · cases h

/-- … after `warn_on_feature(f)` it raises NotImplementedError … -/
theorem warn_then_raises (fs fs' : Features) (f : String) (h : warnOnFeature fs f = some fs') :
    raiseForFeature fs' f = .raisesNotImplemented := by
  unfold warnOnFeature at h
  split at h
  · rename_i hs
    cases h
    obtain ⟨v, hv⟩ := Option.isSome_iff_exists.mp hs
    simp [raiseForFeature, lookup_set, hv]
  · cases h

/-- … and no other feature is affected. -/
theorem ignore_frame (fs fs' : Features) (f g : String) (hne : g ≠ f)
    (h : ignoreFeature fs f = some fs') : raiseForFeature fs' g = raiseForFeature fs g := by
  unfold ignoreFeature at h
  split at h
  · cases h; simp [raiseForFeature, lookup_set, hne]
  · cases h

theorem warn_frame (fs fs' : Features) (f g : String) (hne : g ≠ f)
    (h : warnOnFeature fs f = some fs') : raiseForFeature fs' g = raiseForFeature fs g := by
  unfold warnOnFeature at h
  split at h
  · cases h; simp [raiseForFeature, lookup_set, hne]
  · cases h

/-- a guarded option is let through iff the feature is opted out -/
theorem guard_passes_iff (fs : Features) (f : String) (b : Bool) (h : fs.lookup f = some b) :
    optionGuard fs f true = .passes ↔ b = true := by
  cases b <;> simp [optionGuard, raiseForFeature, h]

theorem guard_loud (fs : Features) (f : String) (h : fs.lookup f = some false) :
    optionGuard fs f true = .raisesNotImplemented := by
  simp [optionGuard, raiseForFeature, h]

/-- **Independent guards.**  In a sequence of independent guards over known features, a given
    option whose feature is not opted out makes the call raise NotImplementedError — wherever
    it stands in the sequence and whatever the other options and their opt-outs are. -/
theorem guardSeq_loud (fs : Features) (gs : List (String × Bool)) (f : String)
    (hknown : ∀ g ∈ gs, (fs.lookup g.1).isSome = true)
    (hmem : (f, true) ∈ gs) (hf : fs.lookup f = some false) :
    guardSeq fs gs = .raisesNotImplemented := by
  induction gs with
  | nil => simp at hmem
  | cons g rest ih =>
    obtain ⟨n, given⟩ := g
    have hn := hknown (n, given) (by simp)
    obtain ⟨v, hv⟩ := Option.isSome_iff_exists.mp hn
    simp only [guardSeq]
    cases given with
    | false =>
      have hne : (f, true) ≠ (n, false) := by simp
      have hm : (f, true) ∈ rest := by
        rcases List.mem_cons.mp hmem with h | h
        · exact absurd h hne
        · exact h
      simp only [optionGuard, Bool.false_eq_true, if_false]
      exact ih (fun g hg => hknown g (List.mem_cons_of_mem _ hg)) hm
    | true =>
      cases v with
      | false => simp [optionGuard, raiseForFeature, hv]
      | true =>
        have hnf : f ≠ n := by
          intro h; subst h; rw [hf] at hv; cases hv
        have hm : (f, true) ∈ rest := by
          rcases List.mem_cons.mp hmem with h | h
          · exact absurd (congrArg Prod.fst h) hnf
          · exact h
        simp only [optionGuard, if_true, raiseForFeature, hv]
        exact ih (fun g hg => hknown g (List.mem_cons_of_mem _ hg)) hm

end MongoModel.Proofs.C20
