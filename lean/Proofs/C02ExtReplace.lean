/-
  Proofs.C02ExtReplace — what a replacement yields, field by field, for ANY replacement document
  (`replace_spec` covers the replacement without `_id` and without duplicate keys), and exactly
  when a replacement is accepted.
-/
import Spec.UpdateSpecExt
import Proofs.C02Ops

set_option linter.unusedSimpArgs false
set_option linter.unusedVariables false

namespace MongoModel.Proofs.C02Lemmas
open MongoModel MongoModel.Spec

theorem dget_append (k : String) : ∀ (fs gs : Fields),
    dget k (fs ++ gs) = (match dget k fs with | some v => some v | none => dget k gs)
  | [], gs => rfl
  | (k', v) :: r, gs => by
    by_cases e : k' = k
    · simp [dget, e]
    · simp only [List.cons_append, dget, e, if_false]; exact dget_append k r gs

/-- `dict(pairs)`: later pairs win, keys not in the pairs keep the base value -/
theorem dget_foldl_dset (k : String) : ∀ (doc base : Fields),
    dget k (doc.foldl (fun acc kv => dset kv.1 kv.2 acc) base) =
      (match lastGet k doc with | some v => some v | none => dget k base)
  | [], base => rfl
  | (k', v) :: r, base => by
    simp only [List.foldl_cons]
    rw [dget_foldl_dset k r]
    simp only [lastGet, List.reverse_cons, dget_append]
    cases dget k r.reverse with
    | some w => rfl
    | none =>
      by_cases e : k' = k
      · subst e; simp [dget, dget_dset_same]
      · have e' : k ≠ k' := fun h => e h.symm
        simp [dget, e, dget_dset_other v e']

theorem dkeys_dset (k : String) (v : Val) : ∀ fs : Fields,
    dkeys (dset k v fs) = if k ∈ dkeys fs then dkeys fs else dkeys fs ++ [k]
  | [] => by simp [dset, dkeys]
  | (k', v') :: r => by
    by_cases e : k' = k
    · subst e; simp [dset, dkeys]
    · have e' : ¬ k = k' := fun h => e h.symm
      have ih := dkeys_dset k v r
      simp only [dkeys] at ih
      simp only [dset, e, if_false, dkeys, List.map_cons, List.mem_cons, e', false_or, ih]
      split <;> simp [*]

theorem nodup_dset (k : String) (v : Val) (fs : Fields) (h : (dkeys fs).Nodup) :
    (dkeys (dset k v fs)).Nodup := by
  rw [dkeys_dset]
  split
  · exact h
  · rename_i hk
    rw [List.nodup_append]
    refine ⟨h, by simp, ?_⟩
    intro a ha b hb
    simp only [List.mem_singleton] at hb
    subst hb
    exact fun e => hk (e ▸ ha)

theorem nodup_foldl_dset : ∀ (doc base : Fields), (dkeys base).Nodup →
    (dkeys (doc.foldl (fun acc kv => dset kv.1 kv.2 acc) base)).Nodup
  | [], base, h => h
  | (k, v) :: r, base, h => nodup_foldl_dset r _ (nodup_dset k v base h)

theorem head_dset (k : String) (v : Val) (fs : Fields) (h : fs ≠ []) :
    (dkeys (dset k v fs)).head? = (dkeys fs).head? ∧ dset k v fs ≠ [] := by
  cases fs with
  | nil => exact absurd rfl h
  | cons kv r =>
    obtain ⟨k', v'⟩ := kv
    simp only [dset]
    split
    · rename_i e; subst e; simp [dkeys]
    · simp [dkeys]

theorem head_foldl_dset : ∀ (doc base : Fields), base ≠ [] →
    (dkeys (doc.foldl (fun acc kv => dset kv.1 kv.2 acc) base)).head? = (dkeys base).head?
  | [], base, _ => rfl
  | (k, v) :: r, base, h => by
    simp only [List.foldl_cons]
    rw [head_foldl_dset r _ (head_dset k v base h).2, (head_dset k v base h).1]

/-- the replacement branch, unfolded -/
theorem replaceWhole_eq (doc existing : Fields) :
    replaceWhole doc (.doc existing) =
      if doc.any (fun kv => kv.1.startsWith "$") then .error .valueErr
      else match dget "_id" existing with
        | none => .ok (.doc (doc.foldl (fun acc kv => dset kv.1 kv.2 acc) []))
        | some x =>
          if pyEq ((lastGet "_id" doc).getD x) x then
            .ok (.doc (doc.foldl (fun acc kv => dset kv.1 kv.2 acc) [("_id", x)]))
          else .error .opFail := by
  simp only [replaceWhole]
  by_cases h : doc.any (fun kv => kv.1.startsWith "$") = true
  · simp only [h, if_true]
  · simp only [h, if_false, Bool.false_eq_true]
    cases hid : dget "_id" existing with
    | none => simp only []
    | some x =>
      simp only [dget_foldl_dset]
      cases hl : lastGet "_id" doc with
      | some nid =>
        simp only [Option.getD_some]
        by_cases hp : pyEq nid x = true <;> simp [hp]
      | none =>
        simp only [Option.getD_none, dget, if_true]
        by_cases hp : pyEq x x = true <;> simp [hp]

end MongoModel.Proofs.C02Lemmas

namespace MongoModel.Proofs.C02
open MongoModel MongoModel.Spec MongoModel.Proofs.C02Lemmas

theorem replace_then_get (doc existing fs' : Fields)
    (h : replaceWhole doc (.doc existing) = .ok (.doc fs')) :
    (∀ k, dget k fs' = match lastGet k doc with
        | some v => some v
        | none => if k = "_id" then dget "_id" existing else none) ∧
    (dkeys fs').Nodup ∧
    (∀ id, dget "_id" existing = some id →
      (dkeys fs').head? = some "_id" ∧ ∃ id', dget "_id" fs' = some id' ∧ pyEq id' id = true) := by
  rw [replaceWhole_eq] at h
  split at h
  · cases h
  cases hid : dget "_id" existing with
  | none =>
    simp only [hid] at h
    cases h
    refine ⟨?_, nodup_foldl_dset doc [] (by simp [dkeys]), fun id hc => by cases hc⟩
    intro k
    rw [dget_foldl_dset]
    cases lastGet k doc with
    | some v => rfl
    | none => by_cases e : k = "_id" <;> simp [e, dget, hid]
  | some x =>
    simp only [hid] at h
    split at h
    · rename_i hpe
      cases h
      refine ⟨?_, nodup_foldl_dset doc _ (by simp [dkeys]), ?_⟩
      · intro k
        rw [dget_foldl_dset]
        cases lastGet k doc with
        | some v => rfl
        | none =>
          by_cases e : k = "_id"
          · subst e; simp [dget]
          · have e' : ¬ "_id" = k := fun h => e h.symm
            simp [e, e', dget]
      · intro id hc
        cases hc
        refine ⟨by rw [head_foldl_dset doc _ (by simp)]; rfl, ?_⟩
        rw [dget_foldl_dset]
        cases hl : lastGet "_id" doc with
        | some nid => exact ⟨nid, rfl, by simpa [hl] using hpe⟩
        | none => exact ⟨x, by simp [dget], by simpa [hl] using hpe⟩
    · cases h

theorem replace_ok_iff (doc existing : Fields) :
    (∃ fs', replaceWhole doc (.doc existing) = .ok (.doc fs')) ↔
      (doc.all (fun kv => !kv.1.startsWith "$") = true ∧
       ∀ id, dget "_id" existing = some id → pyEq ((lastGet "_id" doc).getD id) id = true) := by
  rw [replaceWhole_eq]
  have hall : doc.all (fun kv => !kv.1.startsWith "$") = true ↔
      ¬ doc.any (fun kv => kv.1.startsWith "$") = true := by
    simp [List.all_eq_true, List.any_eq_true]
  rw [hall]
  by_cases h : doc.any (fun kv => kv.1.startsWith "$") = true
  · simp [h]
  · simp only [h, if_false, Bool.false_eq_true, not_false_eq_true, true_and]
    cases hid : dget "_id" existing with
    | none => simp
    | some x =>
      simp only [Option.some.injEq, forall_eq']
      by_cases hp : pyEq ((lastGet "_id" doc).getD x) x = true
      · simp [hp]
      · simp [hp]

end MongoModel.Proofs.C02
