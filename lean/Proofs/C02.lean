/-
  Proofs.C02 — lemmas and proofs behind Props/C02.lean.
-/
import Spec.UpdateSpec
import Spec.StoreInv

namespace MongoModel.Proofs.C02
open MongoModel MongoModel.Spec

theorem set_get (now v : Val) (parts : List String) (d d' : Val) (hp : parts ≠ [])
    (hw : writable parts d = true)
    (h : updateSingleField .set now v parts d = .ok d') : getPath parts d' = some v := by sorry

theorem set_total (now v : Val) (parts : List String) (d : Val) (hp : parts ≠ [])
    (hw : writable parts d = true) : ∃ d', updateSingleField .set now v parts d = .ok d' := by sorry

theorem set_pads_with_null (now v : Val) (xs : List Val) (i : Nat) :
    runUpdater .set now (.arr xs) (toString i) v = .ok (.arr (padSet xs i v)) := by sorry

theorem single_field_frame (u : Updater) (now v : Val) (p : String) (rest : List String)
    (fs fs' : Fields) (h : updateSingleField u now v (p :: rest) (.doc fs) = .ok (.doc fs')) :
    (∀ k, k ≠ p → dget k fs' = dget k fs) ∧
    (dkeys fs').filter (· ≠ p) = (dkeys fs).filter (· ≠ p) := by sorry

theorem unset_removes (now v : Val) (f : String) (fs : Fields) :
    runUpdater .unset now (.doc fs) f v = .ok (.doc (derase f fs)) ∧ dget f (derase f fs) = none ∨
    (∃ k, k ∈ dkeys fs ∧ k = f ∧ (dkeys fs).count f > 1) := by sorry

theorem inc_adds (now : Val) (f : String) (fs : Fields) (n k : Int) :
    (dget f fs = some (.int n) → runUpdater .inc now (.doc fs) f (.int k) = .ok (.doc (dset f (.int (n + k)) fs))) ∧
    (dget f fs = none → runUpdater .inc now (.doc fs) f (.int k) = .ok (.doc (dset f (.int k) fs))) := by sorry

theorem min_max_spec (now : Val) (f : String) (fs : Fields) (n k : Int) (h : dget f fs = some (.int n)) :
    runUpdater .max now (.doc fs) f (.int k) = .ok (.doc (dset f (.int (if k > n then k else n)) fs)) ∧
    runUpdater .min now (.doc fs) f (.int k) = .ok (.doc (dset f (.int (if k < n then k else n)) fs)) := by sorry

theorem pop_spec (now : Val) (f : String) (fs : Fields) (xs : List Val) (h : dget f fs = some (.arr xs)) :
    runUpdater .pop now (.doc fs) f (.int 1) = .ok (.doc (dset f (.arr xs.dropLast) fs)) ∧
    runUpdater .pop now (.doc fs) f (.int (-1)) = .ok (.doc (dset f (.arr (xs.drop 1)) fs)) := by sorry

theorem rename_spec (src dst : String) (fs : Fields) (x : Val)
    (hs : src.toList.contains '.' = false) (hd : dst.toList.contains '.' = false)
    (h : dget src fs = some x) :
    renameFields (.doc [(src, .str dst)]) (.doc fs) = .ok (.doc (dset dst x (derase src fs))) := by sorry

theorem pySlice_split (xs : List Val) (i : Int) :
    pySlice xs (some 0) (some i) ++ pySlice xs (some i) none = xs := by sorry

theorem push_keeps_order (xs es : List Val) (pos : Option Int) :
    ∃ k, pushValue (.arr xs) (.doc (("$each", .arr es) ::
        (match pos with | some p => [("$position", .int p)] | none => []))) =
      .ok (.arr (xs.take k ++ es ++ xs.drop k)) := by sorry

theorem push_appends (xs : List Val) (v : Val) (h : ∀ fs, v = .doc fs → dget "$each" fs = none) :
    pushValue (.arr xs) v = .ok (.arr (xs ++ [v])) := by sorry

theorem push_slice_spec (xs es : List Val) (n : Int) :
    pushValue (.arr xs) (.doc [("$each", .arr es), ("$slice", .int n)]) =
      .ok (.arr (if n < 0 then (xs ++ es).drop ((xs ++ es).length - n.natAbs)
                 else (xs ++ es).take n.toNat)) := by sorry

theorem addToSet_spec (xs es : List Val) (v : Val) (hv : ∀ fs, v = .doc fs → dget "$each" fs = none) :
    addToSetValue (.arr xs) (.doc [("$each", .arr es)]) =
      .ok (.arr (xs ++ es.filter (fun o => !pyIn o xs))) ∧
    addToSetValue (.arr xs) v = .ok (.arr (if pyIn v xs then xs else xs ++ [v])) := by sorry

theorem pullAll_spec (xs vs : List Val) :
    pullAllValue (.arr xs) (.arr vs) = .ok (.arr (xs.filter (fun o => !pyIn o vs))) := by sorry

theorem pull_spec (v : Val) (xs : List Val) (hv : isScalar v = true) (hx : xs.all isScalar = true) :
    pullList v xs = .ok (xs.filter (fun o => !pyEq v o)) := by sorry

theorem replace_spec (doc : Fields) (existing : Fields) (id : Val)
    (hid : dget "_id" existing = some id) (hn : dget "_id" doc = none)
    (hd : doc.all (fun kv => !kv.1.startsWith "$") = true) (hk : (dkeys doc).Nodup) :
    replaceWhole doc (.doc existing) = .ok (.doc (("_id", id) :: doc)) := by sorry

theorem untouched_fields (spec now : Val) (wasInsert : Bool) (u : Fields) (fs fs' : Fields)
    (hu : u.all (fun kv => kv.1.startsWith "$") = true) (hne : u ≠ [])
    (h : applyUpdate spec (.doc u) now wasInsert (.doc fs) = .ok (.doc fs')) :
    ∀ k, k ∉ addressed u → dget k fs' = dget k fs := by sorry

theorem empty_operator (fs : Fields) (op : String) (hop : updaterKeys.contains op = true)
    (h : dget op fs = some (.doc [])) :
    emptyOperatorCheck { preV5 := true } fs = .error .writeErr ∧
    emptyOperatorCheck { preV5 := false } fs = .ok () := by sorry

end MongoModel.Proofs.C02
