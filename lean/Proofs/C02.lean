/-
  Proofs.C02 — lemmas and proofs behind Props/C02.lean.
  The work is in Proofs/C02Basic.lean (paths, `$set`, top-level frame), Proofs/C02Ops.lean (the
  operators on one container, slices, `$pull`, replacement) and Proofs/C02Frame.lean (the frame of
  a whole operator update).
-/
import Spec.UpdateSpec
import Spec.StoreInv
import Proofs.C02Basic
import Proofs.C02Ops
import Proofs.C02Frame
import Proofs.C02PosFrame

namespace MongoModel.Proofs.C02
open MongoModel MongoModel.Spec MongoModel.Proofs.C02Lemmas

theorem set_get (now v : Val) (parts : List String) (d d' : Val) (hp : parts ≠ [])
    (hw : writable parts d = true)
    (h : updateSingleField .set now v parts d = .ok d') : getPath parts d' = some v := by
  obtain ⟨d'', h1, h2⟩ := set_get_total now v parts d hp hw
  rw [h1] at h; cases h; exact h2

theorem set_total (now v : Val) (parts : List String) (d : Val) (hp : parts ≠ [])
    (hw : writable parts d = true) : ∃ d', updateSingleField .set now v parts d = .ok d' := by
  obtain ⟨d', h1, _⟩ := set_get_total now v parts d hp hw
  exact ⟨d', h1⟩

theorem set_pads_with_null (now v : Val) (xs : List Val) (i : Nat) :
    runUpdater .set now (.arr xs) (toString i) v = .ok (.arr (padSet xs i v)) :=
  set_pad now v xs i

theorem single_field_frame (u : Updater) (now v : Val) (p : String) (rest : List String)
    (fs fs' : Fields) (h : updateSingleField u now v (p :: rest) (.doc fs) = .ok (.doc fs')) :
    (∀ k, k ≠ p → dget k fs' = dget k fs) ∧
    (dkeys fs').filter (· ≠ p) = (dkeys fs).filter (· ≠ p) := by
  obtain ⟨fs'', e, ht⟩ := usf_doc_touch u now v p rest fs _ h
  cases e
  exact ⟨fun k hk => ht.dget hk, ht.keys⟩

theorem unset_removes (now v : Val) (f : String) (fs : Fields) :
    runUpdater .unset now (.doc fs) f v = .ok (.doc (derase f fs)) ∧
    ((dkeys fs).count f ≤ 1 → dget f (derase f fs) = none) ∧
    (∀ k, k ≠ f → dget k (derase f fs) = dget k fs) :=
  ⟨rfl, fun h => dget_derase_self h, fun _ hk => dget_derase_other hk fs⟩

theorem inc_adds (now : Val) (f : String) (fs : Fields) (n k : Int) :
    (dget f fs = some (.int n) → runUpdater .inc now (.doc fs) f (.int k) = .ok (.doc (dset f (.int (n + k)) fs))) ∧
    (dget f fs = none → runUpdater .inc now (.doc fs) f (.int k) = .ok (.doc (dset f (.int k) fs))) :=
  ⟨inc_some now f fs n k, inc_none now f fs k⟩

theorem min_max_spec (now : Val) (f : String) (fs : Fields) (n k : Int) (h : dget f fs = some (.int n)) :
    runUpdater .max now (.doc fs) f (.int k) = .ok (.doc (dset f (.int (if k > n then k else n)) fs)) ∧
    runUpdater .min now (.doc fs) f (.int k) = .ok (.doc (dset f (.int (if k < n then k else n)) fs)) :=
  ⟨max_int now f fs n k h, min_int now f fs n k h⟩

theorem pop_spec (now : Val) (f : String) (fs : Fields) (xs : List Val) (h : dget f fs = some (.arr xs)) :
    runUpdater .pop now (.doc fs) f (.int 1) = .ok (.doc (dset f (.arr xs.dropLast) fs)) ∧
    runUpdater .pop now (.doc fs) f (.int (-1)) = .ok (.doc (dset f (.arr (xs.drop 1)) fs)) :=
  ⟨pop_last now f fs xs h, pop_first now f fs xs h⟩

theorem rename_spec (src dst : String) (fs : Fields) (x : Val)
    (hs : src.toList.contains '.' = false) (hd : dst.toList.contains '.' = false)
    (h : dget src fs = some x) :
    renameFields (.doc [(src, .str dst)]) (.doc fs) = .ok (.doc (dset dst x (derase src fs))) :=
  rename_one src dst fs x hs hd h

theorem pySlice_split (xs : List Val) (i : Int) :
    pySlice xs (some 0) (some i) ++ pySlice xs (some i) none = xs :=
  pySlice_split' xs i

theorem push_keeps_order (xs es : List Val) (pos : Option Int) :
    ∃ k, k ≤ xs.length ∧ pushValue (.arr xs) (.doc (("$each", .arr es) ::
        (match pos with | some p => [("$position", .int p)] | none => []))) =
      .ok (.arr (xs.take k ++ es ++ xs.drop k)) := by
  cases pos with
  | none => exact ⟨xs.length, Nat.le_refl _, by simp [push_each]⟩
  | some p => exact ⟨sliceBound xs.length p, sliceBound_le _ _, push_each_pos xs es p⟩

theorem push_position_spec (xs es : List Val) (p : Int) :
    pushValue (.arr xs) (.doc [("$each", .arr es), ("$position", .int p)]) =
      .ok (.arr (pySlice xs (some 0) (some p) ++ es ++ pySlice xs (some p) none)) := by
  rw [push_each_pos, pySlice_prefix, pySlice_suffix]

theorem push_appends (xs : List Val) (v : Val) (h : ∀ fs, v = .doc fs → dget "$each" fs = none) :
    pushValue (.arr xs) v = .ok (.arr (xs ++ [v])) :=
  push_plain xs v h

theorem push_slice_spec (xs es : List Val) (n : Int) :
    pushValue (.arr xs) (.doc [("$each", .arr es), ("$slice", .int n)]) =
      .ok (.arr (if n < 0 then (xs ++ es).drop ((xs ++ es).length - n.natAbs)
                 else (xs ++ es).take n.toNat)) :=
  push_each_slice xs es n

theorem addToSet_spec (xs es : List Val) (v : Val) (hv : ∀ fs, v = .doc fs → dget "$each" fs = none) :
    addToSetValue (.arr xs) (.doc [("$each", .arr es)]) = .ok (.arr (addAll xs es)) ∧
    addToSetValue (.arr xs) v = .ok (.arr (addOne xs v)) :=
  ⟨addToSet_each xs es, addToSet_plain xs v hv⟩

theorem addToSet_each_once (xs es : List Val) :
    ∃ added, addAll xs es = xs ++ added ∧
      (∀ o ∈ added, o ∈ es ∧ pyIn o xs = false) ∧
      added.Pairwise (fun a b => pyEq a b = false) := by
  obtain ⟨added, h1, h2, h3⟩ := addAll_once xs es [] (by simp) (by simp)
  refine ⟨added, by simpa [addAll] using h1, fun o ho => ?_, h3⟩
  obtain ⟨h4, h5⟩ := h2 o ho
  exact ⟨by simpa using h4, h5⟩

theorem min_max_array_spec (now : Val) (xs : List Val) (i : Nat) :
    (∀ n k : Int, xs[i]? = some (.int n) →
      runUpdater .max now (.arr xs) (toString i) (.int k) =
        .ok (.arr (xs.set i (.int (if k > n then k else n)))) ∧
      runUpdater .min now (.arr xs) (toString i) (.int k) =
        .ok (.arr (xs.set i (.int (if k < n then k else n))))) ∧
    (∀ v : Val, xs[i]? = none →
      runUpdater .max now (.arr xs) (toString i) v = .ok (.arr (padSet xs i v)) ∧
      runUpdater .min now (.arr xs) (toString i) v = .ok (.arr (padSet xs i v))) :=
  ⟨fun n k h => ⟨max_arr_int now xs i n k h, min_arr_int now xs i n k h⟩,
   fun v h => minmax_arr_pad now v xs i h⟩

theorem pull_path_spec (value : Val) (parts : List String) (d d' : Val)
    (h : pullWalk value parts d = .ok d') :
    (∀ xs, getPath parts d = some (.arr xs) →
      ∃ ys, pullList value xs = .ok ys ∧ getPath parts d' = some (.arr ys)) ∧
    ((∀ xs, getPath parts d ≠ some (.arr xs)) → d' = d) :=
  pullWalk_spec value parts d d' h

theorem pullAll_missing_path_noop (spec d : Val) (field : String) (value d' : Val)
    (hm : getPath (splitDots field) d = none)
    (h : pullAllField spec d field value = .ok d') : d' = d :=
  pullAll_missing_noop spec d field value d' hm h

theorem pullAll_spec (xs vs : List Val) :
    pullAllValue (.arr xs) (.arr vs) = .ok (.arr (xs.filter (fun o => !pyIn o vs))) := rfl

theorem pull_spec (v : Val) (xs : List Val) (hv : isScalar v = true) (hx : xs.all isScalar = true) :
    pullList v xs = .ok (xs.filter (fun o => !pyEq v o)) :=
  pull_scalar v xs hv hx

theorem replace_spec (doc : Fields) (existing : Fields) (id : Val)
    (hid : dget "_id" existing = some id) (hrefl : pyEq id id = true) (hn : dget "_id" doc = none)
    (hd : doc.all (fun kv => !kv.1.startsWith "$") = true) (hk : (dkeys doc).Nodup) :
    replaceWhole doc (.doc existing) = .ok (.doc (("_id", id) :: doc)) :=
  replace_fresh doc existing id hid hrefl hn hd hk

theorem untouched_fields (spec now : Val) (wasInsert : Bool) (u : Fields) (fs fs' : Fields)
    (hu : u.all (fun kv => kv.1.startsWith "$") = true) (hne : u ≠ [])
    (h : applyUpdate spec (.doc u) now wasInsert (.doc fs) = .ok (.doc fs')) :
    ∀ k, k ∉ addressed u → dget k fs' = dget k fs := by
  obtain ⟨fs'', e, hf⟩ := applyUpdate_frame spec now wasInsert u fs _ hu hne h
  cases e; exact hf

theorem update_stays_document (spec now : Val) (wasInsert : Bool) (u : Fields) (fs : Fields) (d' : Val)
    (hu : u.all (fun kv => kv.1.startsWith "$") = true) (hne : u ≠ [])
    (h : applyUpdate spec (.doc u) now wasInsert (.doc fs) = .ok d') : ∃ fs', d' = .doc fs' := by
  obtain ⟨fs', e, _⟩ := applyUpdate_frame spec now wasInsert u fs d' hu hne h
  exact ⟨fs', e⟩

theorem single_field_stays_document (u : Updater) (now v : Val) (p : String) (rest : List String)
    (fs : Fields) (d' : Val) (h : updateSingleField u now v (p :: rest) (.doc fs) = .ok d') :
    ∃ fs', d' = .doc fs' := by
  obtain ⟨fs', e, _⟩ := usf_doc_touch u now v p rest fs d' h
  exact ⟨fs', e⟩

theorem empty_operator (fs : Fields) (op : String) (hop : updaterKeys.contains op = true)
    (h : dget op fs = some (.doc [])) :
    emptyOperatorCheck { preV5 := true } fs = .error .writeErr ∧
    emptyOperatorCheck { preV5 := false } fs = .ok () :=
  empty_op fs op hop h

end MongoModel.Proofs.C02
