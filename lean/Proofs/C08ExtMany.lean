/-
  Proofs.C08ExtMany — `update_many` fails at document granularity: the loop is the iteration of
  the single-document update over the snapshot, stopped by the first one that raises (which
  changes nothing).
-/
import Spec.FailExt
import Proofs.C08Near
import Proofs.C14Base
import Proofs.C05Loop

namespace MongoModel.Proofs.C08Lemmas
open MongoModel MongoModel.Spec
open MongoModel.Proofs.C10Lemmas MongoModel.Proofs.C14Lemmas

/-- the single-document loop over one snapshot entry -/
theorem single_one (now : Int) (spec document nowV : Val) (key v0 : Val) (c : Coll) (m u : Nat) :
    updateLoop now spec document nowV false [(key, v0)] c m u =
      match c.lookup key with
      | none => (c, .ok (m, u))
      | some cur =>
        match filterApplies spec cur with
        | .error e => (c, .error e)
        | .ok false => (c, .ok (m, u))
        | .ok true =>
          match applyUpdate spec document nowV false cur with
          | .error e => (c, .error e)
          | .ok new =>
            if pyEq new cur then
              match ensureUniques now (c.setDoc key new) new with
              | .error e => (c, .error e)
              | .ok c2 => (c2, .ok (m + 1, u))
            else if !(pyEqOpt (idOf cur) (idOf new)) then (c, .error .writeErr)
            else
              match ensureUniques now (c.setDoc key new) new with
              | .error e => (c, .error e)
              | .ok c2 => (c2, .ok (m + 1, u + 1)) := by
  rw [updateLoop]
  cases c.lookup key with
  | none => simp only [updateLoop]
  | some cur =>
    dsimp only
    cases filterApplies spec cur with
    | error e => rfl
    | ok b =>
      cases b with
      | false => simp only [updateLoop]
      | true =>
        dsimp only
        cases applyUpdate spec document nowV false cur with
        | error e => rfl
        | ok new => rfl

theorem many_cons (now : Int) (spec document nowV : Val) (p : Val × Val) (rest : List (Val × Val))
    (c : Coll) (m u : Nat) :
    updateLoop now spec document nowV true (p :: rest) c m u =
      match updateLoop now spec document nowV false [p] c m u with
      | (_, .error e) => (c, .error e)
      | (c1, .ok (m1, u1)) => updateLoop now spec document nowV true rest c1 m1 u1 := by
  obtain ⟨key, v0⟩ := p
  rw [updateLoop, updateLoop]
  cases c.lookup key with
  | none => simp only [updateLoop]
  | some cur =>
    dsimp only
    cases filterApplies spec cur with
    | error e => rfl
    | ok b =>
      cases b with
      | false => simp only [updateLoop]
      | true =>
        dsimp only
        cases applyUpdate spec document nowV false cur with
        | error e => rfl
        | ok new =>
          dsimp only
          generalize pyEq new cur = b1
          cases b1 with
          | true =>
            simp only [if_true]
            cases ensureUniques now (c.setDoc key new) new <;> simp
          | false =>
            simp only [Bool.false_eq_true, if_false]
            generalize (!pyEqOpt _ _) = b2
            cases b2 with
            | true => rfl
            | false =>
              simp only [Bool.false_eq_true, if_false]
              cases ensureUniques now (c.setDoc key new) new <;> simp

/-! ### the declarative reading (no TTL index, well-behaved store keys) -/

/-- a failing single-document step fails the same way whatever the counters -/
theorem single_err_indep (now : Int) (spec document nowV : Val) (p : Val × Val) (c : Coll)
    (m u : Nat) (e : Err)
    (h : (updateLoop now spec document nowV false [p] c m u).2 = .error e) (m2 u2 : Nat) :
    updateLoop now spec document nowV false [p] c m2 u2 = (c, .error e) := by
  obtain ⟨key, v0⟩ := p
  rw [single_one] at h ⊢
  cases hl : c.lookup key with
  | none => rw [hl] at h; cases h
  | some cur =>
    rw [hl] at h
    dsimp only at h ⊢
    cases hf : filterApplies spec cur with
    | error e' => rw [hf] at h; cases h; rfl
    | ok b =>
      rw [hf] at h
      cases b with
      | false => cases h
      | true =>
        dsimp only at h ⊢
        cases ha : applyUpdate spec document nowV false cur with
        | error e' => rw [ha] at h; cases h; rfl
        | ok new =>
          rw [ha] at h
          dsimp only at h ⊢
          generalize pyEq new cur = b1 at h ⊢
          cases b1 with
          | true =>
            simp only [if_true] at h ⊢
            cases hu : ensureUniques now (c.setDoc key new) new with
            | error e' => rw [hu] at h; cases h; rfl
            | ok c2 => rw [hu] at h; cases h
          | false =>
            simp only [Bool.false_eq_true, if_false] at h ⊢
            generalize (!pyEqOpt _ _) = b2 at h ⊢
            cases b2 with
            | true => cases h; rfl
            | false =>
              simp only [Bool.false_eq_true, if_false] at h ⊢
              cases hu : ensureUniques now (c.setDoc key new) new with
              | error e' => rw [hu] at h; cases h; rfl
              | ok c2 => rw [hu] at h; cases h

theorem setDoc_indexes (c : Coll) (k d : Val) : (c.setDoc k d).indexes = c.indexes := by
  unfold Coll.setDoc; split <;> rfl

/-- rewriting the entry `p` of `done ++ p :: rest` touches that entry only -/
theorem setDoc_at (c : Coll) (done rest : List (Val × Val)) (p : Val × Val) (new : Val)
    (hc : c.docs = done ++ p :: rest) (hd : DK c.docs) (hg : GK c.docs) :
    (c.setDoc p.1 new).docs = done ++ (p.1, new) :: rest := by
  have hp : p ∈ c.docs := by rw [hc]; simp
  have hk : c.hasKey p.1 = true := by
    unfold Coll.hasKey
    rw [List.any_eq_true]
    exact ⟨p, hp, (hg p hp).2⟩
  rw [setDoc_docs new hk, hc, List.map_append, List.map_cons]
  rw [hc] at hd
  have hd' := List.pairwise_append.1 hd
  have h1 : done.map (setEntry p.1 new) = done := by
    conv => rhs; rw [← List.map_id done]
    apply List.map_congr_left
    intro a ha
    have : pyEq a.1 p.1 = false := hd'.2.2 a ha p (List.mem_cons_self ..)
    simp [setEntry, this]
  have h2 : rest.map (setEntry p.1 new) = rest := by
    conv => rhs; rw [← List.map_id rest]
    apply List.map_congr_left
    intro b hb
    have h0 : pyEq p.1 b.1 = false := (List.pairwise_cons.1 hd'.2.1).1 b hb
    have : pyEq b.1 p.1 = false := by rw [← (hg p hp).1 b.1]; exact h0
    simp [setEntry, this]
  rw [h1, h2]
  simp [setEntry, (hg p hp).2]

/-- what a successful single-document step does to the entry it visits -/
theorem single_spec (now : Int) (spec document nowV : Val) (p : Val × Val) (c : Coll)
    (done rest : List (Val × Val)) (m u : Nat) (c1 : Coll) (m1 u1 : Nat)
    (hc : c.docs = done ++ p :: rest) (hn : c.ttlIndexes = []) (hd : DK c.docs) (hg : GK c.docs)
    (h : updateLoop now spec document nowV false [p] c m u = (c1, .ok (m1, u1))) :
    ∃ p', Updated spec document nowV p p' ∧ c1.docs = done ++ p' :: rest ∧ c1.ttlIndexes = [] ∧
      c1.indexes = c.indexes ∧ DK c1.docs ∧ GK c1.docs := by
  have hp : p ∈ c.docs := by rw [hc]; simp
  have hl : c.lookup p.1 = some p.2 := by
    unfold Coll.lookup; rw [find_of_mem hd hg hp]; rfl
  have hk : c.hasKey p.1 = true := hasKey_of_lookup hl
  have key_step : ∀ (new : Val) (c2 : Coll), filterApplies spec p.2 = .ok true →
      applyUpdate spec document nowV false p.2 = .ok new →
      ensureUniques now (c.setDoc p.1 new) new = .ok c2 →
      ∃ p', Updated spec document nowV p p' ∧ c2.docs = done ++ p' :: rest ∧ c2.ttlIndexes = [] ∧
        c2.indexes = c.indexes ∧ DK c2.docs ∧ GK c2.docs := by
    intro new c2 hf ha hu
    have h2 : c2 = c.setDoc p.1 new := ensure_nil now _ c2 new (by rw [setDoc_ttl]; exact hn) hu
    subst h2
    refine ⟨(p.1, new), ⟨rfl, .inr ⟨hf, ha⟩⟩, setDoc_at c done rest p new hc hd hg, ?_, ?_, ?_, ?_⟩
    · rw [setDoc_ttl]; exact hn
    · exact setDoc_indexes _ _ _
    · rw [setDoc_docs new hk]; exact DK_map_setEntry _ _ hd
    · rw [setDoc_docs new hk]; exact GK_map_setEntry _ _ hg
  have same : (c, (Except.ok (m, u) : R (Nat × Nat))) = (c1, .ok (m1, u1)) →
      filterApplies spec p.2 = .ok false →
      ∃ p', Updated spec document nowV p p' ∧ c1.docs = done ++ p' :: rest ∧ c1.ttlIndexes = [] ∧
        c1.indexes = c.indexes ∧ DK c1.docs ∧ GK c1.docs := by
    intro h hf
    cases h
    exact ⟨p, ⟨rfl, .inl ⟨hf, rfl⟩⟩, hc, hn, rfl, hd, hg⟩
  obtain ⟨key, v0⟩ := p
  rw [single_one] at h
  simp only at hl
  rw [hl] at h
  dsimp only at h
  cases hf : filterApplies spec v0 with
  | error e' => rw [hf] at h; cases h
  | ok b =>
    rw [hf] at h
    cases b with
    | false => exact same h hf
    | true =>
      dsimp only at h
      cases ha : applyUpdate spec document nowV false v0 with
      | error e' => rw [ha] at h; cases h
      | ok new =>
        rw [ha] at h
        dsimp only at h
        generalize pyEq new v0 = b1 at h
        cases b1 with
        | true =>
          simp only [if_true] at h
          cases hu : ensureUniques now (c.setDoc key new) new with
          | error e' => rw [hu] at h; cases h
          | ok c2 =>
            rw [hu] at h
            simp only [Prod.mk.injEq] at h
            obtain ⟨rfl, _⟩ := h
            exact key_step new c2 hf ha hu
        | false =>
          simp only [Bool.false_eq_true, if_false] at h
          generalize (!pyEqOpt _ _) = b2 at h
          cases b2 with
          | true => cases h
          | false =>
            simp only [Bool.false_eq_true, if_false] at h
            cases hu : ensureUniques now (c.setDoc key new) new with
            | error e' => rw [hu] at h; cases h
            | ok c2 =>
              rw [hu] at h
              simp only [Prod.mk.injEq] at h
              obtain ⟨rfl, _⟩ := h
              exact key_step new c2 hf ha hu

end MongoModel.Proofs.C08Lemmas
