/-
  Proofs.C17Refine — the step refinement: on D, one step of the model and one step of the
  oracle keep the two states related and give equivalent outputs.
-/
import Proofs.C17Server

set_option linter.unusedSimpArgs false

namespace MongoModel.Proofs.C17
open MongoModel MongoModel.Catalog MongoModel.Spec.Catalog

theorem outEquiv_refl (o : Out) : OutEquiv o o := by
  cases o <;> simp [OutEquiv]

theorem outEquiv_of_eq {o o' : Out} (h : o = o') : OutEquiv o o' := h ▸ outEquiv_refl o

theorem outEquiv_names {l l' : List String} (h1 : l.Nodup) (h2 : l'.Nodup)
    (h : ∀ a, a ∈ l ↔ a ∈ l') : OutEquiv (.names l) (.names l') := by
  simp only [OutEquiv]; exact (List.perm_ext_iff_of_nodup h1 h2).mpr h

theorem upd_same {β : Type} (f : Nat → β) (k : Nat) (v : β) : upd f k v k = v := by simp [upd]
theorem upd_apply {β : Type} (f : Nat → β) (k i : Nat) (v : β) :
    upd f k v i = if i = k then v else f i := rfl

/-! ### moving the relation along updates -/

theorem rel_setStore {w : World} {s : SWorld} (hR : Rel w s) (i : Nat) (sv : Server) (st : SStore)
    (h1 : WFs sv) (h4 : RecS sv) (h2 : SWF st)
    (h3 : ∀ d n, toS (sv.coll d n) = alGet? (d, n) st) :
    Rel (w.setStore i sv) (upd s i st) := by
  obtain ⟨⟨hw1, hw2, hw3⟩, hs, hv⟩ := hR
  refine ⟨⟨?_, hw2, ?_⟩, ?_, ?_⟩
  · intro j; simp only [World.setStore, upd_apply]; split
    · exact h1
    · exact hw1 j
  · intro j; simp only [World.setStore, upd_apply]; split
    · exact h4
    · exact hw3 j
  · intro j; simp only [upd_apply]; split
    · exact h2
    · exact hs j
  · intro j d n; simp only [World.setStore, upd_apply]; split
    · exact h3 d n
    · exact hv j d n

theorem rel_setStore_left {w : World} {s : SWorld} (hR : Rel w s) (i : Nat) (sv : Server)
    (h1 : WFs sv) (h3 : ∀ d n, sv.coll d n = (w.store i).coll d n) :
    Rel (w.setStore i sv) s := by
  have := rel_setStore hR i sv (s i) h1 (recS_of_coll (hR.1.2.2 i) h3) (hR.2.1 i)
    (fun d n => by rw [h3]; exact hR.2.2 i d n)
  have e : upd s i (s i) = s := by
    funext j; simp only [upd_apply]; split
    · rename_i h; rw [h]
    · rfl
  rwa [e] at this

theorem rel_addDbCache {w : World} {s : SWorld} (hR : Rel w s) (c : Nat) (d : String) :
    Rel (addDbCache w c d) s := by
  unfold addDbCache; split
  · exact hR
  · exact hR

theorem rel_addCollCache {w : World} {s : SWorld} (hR : Rel w s) (c : Nat) (d n : String)
    (hv : validName n = true) : Rel (addCollCache w c d n) s := by
  unfold addCollCache; split
  · exact hR
  · obtain ⟨⟨hw1, hw2, hw3⟩, hs, hvw⟩ := hR
    refine ⟨⟨hw1, ?_, hw3⟩, hs, hvw⟩
    intro c' d' n' hm
    simp only [upd2] at hm
    split at hm
    · rcases List.mem_append.mp hm with hm | hm
      · rename_i hcd; exact hw2 c d n' hm
      · simp at hm; rw [hm]; exact hv
    · exact hw2 c' d' n' hm

theorem store_addDbCache (w : World) (c : Nat) (d : String) : (addDbCache w c d).store = w.store := by
  unfold addDbCache; split <;> rfl

theorem store_addCollCache (w : World) (c : Nat) (d n : String) :
    (addCollCache w c d n).store = w.store := by
  unfold addCollCache; split <;> rfl

/-! ### rename -/

theorem renameStep_refines (sv : Server) (st : SStore) (d n n' : String) (dt : Bool)
    (h1 : WFs sv) (h2 : SWF st) (h3 : ∀ d n, toS (sv.coll d n) = alGet? (d, n) st) :
    WFs (Catalog.renameStep sv d n n' dt).1 ∧ SWF (Spec.Catalog.renameStep st d n n' dt).1 ∧
    (∀ d' m, toS ((Catalog.renameStep sv d n n' dt).1.coll d' m) =
      alGet? (d', m) (Spec.Catalog.renameStep st d n n' dt).1) ∧
    (Catalog.renameStep sv d n n' dt).2 = (Spec.Catalog.renameStep st d n n' dt).2 := by
  unfold Catalog.renameStep Spec.Catalog.renameStep
  by_cases hv : validName n' = true
  swap
  · simp only [hv, Bool.not_false, if_true]
    exact ⟨h1, h2, h3, trivial⟩
  simp only [hv, Bool.not_true, Bool.false_eq_true, if_false]
  by_cases hnn : n = n'
  · -- renaming onto itself is refused, with or without dropTarget, whether the source exists or not
    subst hnn
    simp only [if_true]
    cases alGet? (d, n) st with
    | none => exact ⟨h1, h2, h3, rfl⟩
    | some c => exact ⟨h1, h2, h3, rfl⟩
  simp only [hnn, if_false]
  -- the two lazy creations change no lookup
  have t1 : ∀ d' m, (sv.setColl d n (sv.coll d n)).coll d' m = sv.coll d' m := coll_touch sv d n
  have w1 : WFs (sv.setColl d n (sv.coll d n)) := wfs_setColl h1 _ _ _
  generalize hs1 : sv.setColl d n (sv.coll d n) = s1 at t1 w1
  have t2 : ∀ d' m, (s1.setColl d n' (s1.coll d n')).coll d' m = sv.coll d' m := by
    intro d' m; rw [coll_touch, t1]
  have w2 : WFs (s1.setColl d n' (s1.coll d n')) := wfs_setColl w1 _ _ _
  generalize hs2 : s1.setColl d n' (s1.coll d n') = s2 at t2 w2
  rw [t1 d n]
  by_cases hsrc : (sv.coll d n).isCreated = true
  swap
  · -- the source does not exist
    have hnone : alGet? (d, n) st = none := by
      rw [← h3]; exact (toS_eq_none_iff _).mpr (by simpa using hsrc)
    simp only [hsrc, Bool.not_false, if_true, hnone]
    exact ⟨w1, h2, fun d' m => by rw [t1]; exact h3 d' m, trivial⟩
  have hsome : alGet? (d, n) st = some ⟨(sv.coll d n).docs, (sv.coll d n).indexes⟩ := by
    rw [← h3]; exact toS_created hsrc
  simp only [hsrc, Bool.not_true, Bool.false_eq_true, if_false, hsome]
  rw [t2 d n']
  have htgt : alHas (d, n') st = (sv.coll d n').isCreated := by
    unfold alHas; rw [← h3, toS_isSome]
  rw [htgt]
  -- the final move, from a state `sx` whose lookups are those of `sv` except possibly at n'
  have fin : ∀ (sx : Server), WFs sx → n ≠ n' →
      (∀ d' m, ¬ (d' = d ∧ m = n') → sx.coll d' m = sv.coll d' m) →
      WFs (sx.setDb d (renameIn (sx.db d) n n')) ∧
      ∀ d' m, toS ((sx.setDb d (renameIn (sx.db d) n n')).coll d' m) =
        alGet? (d', m) (alUpsert (d, n') ⟨(sv.coll d n).docs, (sv.coll d n).indexes⟩
          (alErase (d, n) st)) := by
    intro sx wx hne hx
    refine ⟨wfs_setDb wx d (wfdb_renameIn (wfdb_db wx d) n n'), ?_⟩
    intro d' m
    rw [coll_renameIn, alGet?_upsert, alGet?_erase]
    by_cases hd : d' = d
    · subst hd
      simp only [if_true]
      by_cases hm1 : m = n'
      · subst hm1
        have : sx.coll d' n = sv.coll d' n := hx d' n (by intro h; exact hne h.2)
        simp [this, toS_created hsrc]
      · by_cases hm2 : m = n
        · subst hm2; simp [hm1, toS_empty]
        · have e1 : ¬ ((d', m) = (d', n')) := by intro h; exact hm1 (Prod.ext_iff.mp h).2
          have e2 : ¬ ((d', m) = (d', n)) := by intro h; exact hm2 (Prod.ext_iff.mp h).2
          simp only [hm1, hm2, if_false, e1, e2]
          rw [hx d' m (by intro h; exact hm1 h.2)]; exact h3 d' m
    · have e1 : ¬ ((d', m) = (d, n')) := by intro h; exact hd (Prod.ext_iff.mp h).1
      have e2 : ¬ ((d', m) = (d, n)) := by intro h; exact hd (Prod.ext_iff.mp h).1
      simp only [hd, if_false, e1, e2]
      rw [hx d' m (by intro h; exact hd h.1)]; exact h3 d' m
  by_cases ht : (sv.coll d n').isCreated = true
  · simp only [ht, if_true, Bool.true_and]
    cases dt with
    | false =>
      simp only [Bool.false_eq_true, if_false, Bool.not_false, if_true]
      exact ⟨w2, h2, fun d' m => by rw [t2]; exact h3 d' m, trivial⟩
    | true =>
      simp only [if_true, Bool.not_true, Bool.false_eq_true, if_false]
      have hx : ∀ d' m, ¬ (d' = d ∧ m = n') →
          (s2.setColl d n' Coll.empty).coll d' m = sv.coll d' m := by
        intro d' m hne; rw [coll_setColl]; simp only [hne, if_false]; exact t2 d' m
      have := fin (s2.setColl d n' Coll.empty) (wfs_setColl w2 _ _ _) hnn hx
      exact ⟨this.1, swf_upsert (swf_erase h2 _) _ _, this.2, trivial⟩
  · simp only [ht, Bool.false_eq_true, if_false, Bool.false_and]
    have := fin s2 w2 hnn (fun d' m _ => t2 d' m)
    exact ⟨this.1, swf_upsert (swf_erase h2 _) _ _, this.2, trivial⟩


/-! ### the step -/

theorem created_iff_isSome {w : World} {s : SWorld} (hR : Rel w s) (i : Nat) (d n : String) :
    ((w.store i).coll d n).isCreated = (alGet? (d, n) (s i)).isSome := by
  rw [← hR.2.2 i d n, toS_isSome]

theorem coll_created_isSome {sv : Server} {d n : String} (h : (sv.coll d n).isCreated = true) :
    (alGet? n (sv.db d)).isSome = true := by
  unfold Server.coll at h
  cases hg : alGet? n (sv.db d) with
  | none => rw [hg] at h; simp [Coll.empty, Coll.isCreated] at h
  | some c => rfl

/-- dropping every created collection of `d`, from a server whose lookups are `sv`'s -/
theorem dropDb_refines {sv sx : Server} {st : SStore} (d : String)
    (hx : ∀ d' m, sx.coll d' m = sv.coll d' m)
    (h3 : ∀ d n, toS (sv.coll d n) = alGet? (d, n) st) (d' m : String) :
    toS ((sx.setDb d (dropAll (sx.db d))).coll d' m) = alGet? (d', m) (dropDb st d) := by
  rw [toS_coll_dropAll, alGet?_dropDb]
  by_cases hd : d' = d
  · simp [hd]
  · simp only [hd, if_false]; rw [hx]; exact h3 d' m

/-- `drop_database` on a name, against the oracle's -/
theorem dropDatabaseStep_refines (σ : Nat → Nat) {w : World} {s : SWorld} (c : Nat) (d : String)
    (hR : Rel w s) :
    Rel (dropDatabaseStep σ w c d).1 (upd s (σ c) (dropDb (s (σ c)) d)) ∧
    OutEquiv (dropDatabaseStep σ w c d).2 .ok := by
  have hW := hR.1
  simp only [dropDatabaseStep]
  have hx : ∀ d' m, ((w.store (σ c)).touchDb d).coll d' m = (w.store (σ c)).coll d' m :=
    fun d' m => coll_touchDb _ d d' m
  have wx : WFs ((w.store (σ c)).touchDb d) := wfs_touchDb (hW.1 _) d
  have rx : RecS ((w.store (σ c)).touchDb d) := recS_touchDb (hW.2.2 _) d
  split
  · refine ⟨rel_addDbCache (rel_setStore hR _ _ _
      (wfs_setDb wx d (wfdb_dropAll (wfdb_db wx d))) (recS_dropAll rx d) (swf_dropDb (hR.2.1 _) d)
      (fun d' m => dropDb_refines d hx (hR.2.2 _) d' m)) c d, outEquiv_refl _⟩
  · rename_i hnc
    refine ⟨rel_setStore hR _ _ _ wx rx (swf_dropDb (hR.2.1 _) d) ?_, outEquiv_refl _⟩
    intro d' m
    rw [alGet?_dropDb, hx]
    by_cases hd : d' = d
    · simp only [hd, if_true]
      apply (toS_eq_none_iff _).mpr
      cases hcc : ((w.store (σ c)).coll d m).isCreated
      · rfl
      · exfalso; apply hnc
        apply (dbCreated_iff (wfdb_db wx d)).mpr
        refine ⟨m, ?_⟩
        have := hx d m
        unfold Server.coll at this
        rw [this]; exact hcc
    · simp only [hd, if_false]; exact hR.2.2 _ d' m

theorem step_refines (σ : Nat → Nat) (w : World) (s : SWorld) (op : Op)
    (hR : Rel w s) (hD : inD σ w op = true) :
    Rel (Catalog.step σ w op).1 (Spec.Catalog.step σ s op).1 ∧
    OutEquiv (Catalog.step σ w op).2 (Spec.Catalog.step σ s op).2 := by
  have hW := hR.1
  cases op with
  | getDb c d =>
    simp only [Catalog.step, Spec.Catalog.step]
    split
    · exact ⟨hR, outEquiv_refl _⟩
    · refine ⟨rel_addDbCache (rel_setStore_left hR _ _ (wfs_touchDb (hW.1 _) d)
        (fun d' n => coll_touchDb _ d d' n)) c d, outEquiv_refl _⟩
  | getColl h n =>
    simp only [inD, handlesObtained, filterFalsy, Bool.not_false, Bool.and_true] at hD
    simp only [Catalog.step, Spec.Catalog.step, hD, Bool.not_true, Bool.false_eq_true, if_false]
    by_cases hc : (w.collCache h.client h.db).contains n = true
    · have hv : validName n = true := hW.2.1 _ _ _ (by simpa using hc)
      simp only [hc, if_true, hv]
      exact ⟨hR, outEquiv_refl _⟩
    · simp only [hc, Bool.false_eq_true, if_false]
      by_cases hv : validName n = true
      · simp only [hv, Bool.not_true, Bool.false_eq_true, if_false, if_true]
        exact ⟨rel_addCollCache hR _ _ _ hv, outEquiv_refl _⟩
      · simp only [hv, Bool.not_false, if_true, Bool.false_eq_true, if_false]
        exact ⟨hR, outEquiv_refl _⟩
  | coll h o =>
    simp only [inD, handlesObtained, filterFalsy, Bool.not_false, Bool.and_true,
      Bool.and_eq_true, Bool.not_eq_true'] at hD
    have hob := hD
    simp only [Catalog.step, Spec.Catalog.step, hob, Bool.not_true, Bool.false_eq_true, if_false]
    have hrec := hW.2.2 (σ h.client) h.db h.coll
    have hc := collOp_refines o ((w.store (σ h.client)).coll h.db h.coll) hrec
    rw [hR.2.2 (σ h.client) h.db h.coll] at hc
    refine ⟨rel_setStore hR _ _ _ (wfs_setColl (hW.1 _) _ _ _)
      (recS_setColl (hW.2.2 _) _ _ (collOp_recorded o _ hrec)) (swf_setOpt (hR.2.1 _) _ _) ?_,
      outEquiv_of_eq hc.2⟩
    intro d n
    rw [coll_setColl, alGet?_setOpt]
    by_cases hdn : d = h.db ∧ n = h.coll
    · have : (d, n) = (h.db, h.coll) := Prod.ext hdn.1 hdn.2
      simp only [hdn, and_self, if_true, this]; exact hc.1
    · have : ¬ ((d, n) = (h.db, h.coll)) := by
        intro e; exact hdn ⟨(Prod.ext_iff.mp e).1, (Prod.ext_iff.mp e).2⟩
      simp only [hdn, if_false, this]; exact hR.2.2 _ d n
  | collRename h n' dt =>
    simp only [inD, handlesObtained, filterFalsy, Bool.not_false, Bool.and_true,
      Bool.and_eq_true, Bool.not_eq_true'] at hD
    simp only [Catalog.step, Spec.Catalog.step, hD, Bool.not_true, Bool.false_eq_true, if_false]
    have := renameStep_refines (w.store (σ h.client)) (s (σ h.client)) h.db h.coll n' dt
      (hW.1 _) (hR.2.1 _) (hR.2.2 _)
    exact ⟨rel_setStore hR _ _ _ this.1 (recS_renameStep (hW.2.2 _) _ _ _ _) this.2.1 this.2.2.1,
      outEquiv_of_eq this.2.2.2⟩
  | renameCollection h n n' dt =>
    simp only [inD, handlesObtained, filterFalsy, Bool.not_false, Bool.and_true,
      Bool.and_eq_true, Bool.not_eq_true'] at hD
    simp only [Catalog.step, Spec.Catalog.step, hD, Bool.not_true, Bool.false_eq_true, if_false]
    have := renameStep_refines (w.store (σ h.client)) (s (σ h.client)) h.db n n' dt
      (hW.1 _) (hR.2.1 _) (hR.2.2 _)
    exact ⟨rel_setStore hR _ _ _ this.1 (recS_renameStep (hW.2.2 _) _ _ _ _) this.2.1 this.2.2.1,
      outEquiv_of_eq this.2.2.2⟩
  | createCollection h n =>
    simp only [inD, handlesObtained, filterFalsy, Bool.not_false, Bool.and_true,
      Bool.and_eq_true, Bool.not_eq_true'] at hD
    simp only [Catalog.step, Spec.Catalog.step, hD, Bool.not_true, Bool.false_eq_true, if_false]
    by_cases hv : validName n = true
    swap
    · simp only [hv, Bool.not_false, if_true]; exact ⟨hR, outEquiv_refl _⟩
    simp only [hv, Bool.not_true, Bool.false_eq_true, if_false]
    have hcr := created_iff_isSome hR (σ h.client) h.db n
    rw [contains_createdColls (hW.1 _)]
    by_cases hc : ((w.store (σ h.client)).coll h.db n).isCreated = true
    · have hh : alHas (h.db, n) (s (σ h.client)) = true := by unfold alHas; rw [← hcr]; exact hc
      simp only [hc, if_true, hh]
      exact ⟨hR, outEquiv_refl _⟩
    · have hh : alHas (h.db, n) (s (σ h.client)) = false := by
        unfold alHas; rw [← hcr]; simpa using hc
      simp only [hc, Bool.false_eq_true, if_false, hh]
      have he : (w.store (σ h.client)).coll h.db n = Coll.empty :=
        (isCreated_false_iff _).mp (by simpa using hc)
      refine ⟨rel_addCollCache (rel_setStore hR _ _ _ (wfs_setColl (hW.1 _) _ _ _)
        (recS_setColl (hW.2.2 _) _ _ (recorded_of_flag rfl))
        (swf_upsert (hR.2.1 _) _ _) ?_) _ _ _ hv, outEquiv_refl _⟩
      intro d m
      rw [coll_setColl, alGet?_upsert]
      by_cases hdn : d = h.db ∧ m = n
      · have : (d, m) = (h.db, n) := Prod.ext hdn.1 hdn.2
        simp only [hdn, and_self, if_true, this, he]
        simp [toS, Coll.empty, Coll.isCreated]
      · have : ¬ ((d, m) = (h.db, n)) := by
          intro e; exact hdn ⟨(Prod.ext_iff.mp e).1, (Prod.ext_iff.mp e).2⟩
        simp only [hdn, if_false, this]; exact hR.2.2 _ d m
  | dropCollection h t =>
    cases t with
    | byName n =>
      simp only [inD, handlesObtained, filterFalsy, Bool.not_false,
        Bool.and_true] at hD
      simp only [Catalog.step, Spec.Catalog.step, hD, Bool.not_true, Bool.false_eq_true, if_false]
      refine ⟨rel_setStore hR _ _ _ (wfs_setColl (hW.1 _) _ _ _)
        (recS_setColl (hW.2.2 _) _ _ recorded_empty) (swf_erase (hR.2.1 _) _) ?_,
        outEquiv_refl _⟩
      intro d m
      rw [coll_setColl, alGet?_erase]
      by_cases hdn : d = h.db ∧ m = n
      · have : (d, m) = (h.db, n) := Prod.ext hdn.1 hdn.2
        simp only [hdn, and_self, if_true, this, toS_empty]
      · have : ¬ ((d, m) = (h.db, n)) := by
          intro e; exact hdn ⟨(Prod.ext_iff.mp e).1, (Prod.ext_iff.mp e).2⟩
        simp only [hdn, if_false, this]; exact hR.2.2 _ d m
    | byHandle h' =>
      simp only [inD, handlesObtained, filterFalsy, Bool.not_false,
        Bool.and_true, Bool.and_eq_true] at hD
      obtain ⟨hob1, hob2⟩ := hD
      simp only [Catalog.step, Spec.Catalog.step, hob1, hob2, Bool.not_true, Bool.or_self,
        Bool.false_eq_true, if_false]
      refine ⟨rel_setStore hR _ _ _ (wfs_setColl (hW.1 _) _ _ _)
        (recS_setColl (hW.2.2 _) _ _ recorded_empty) (swf_erase (hR.2.1 _) _) ?_,
        outEquiv_refl _⟩
      intro d m
      rw [coll_setColl, alGet?_erase]
      by_cases hdn : d = h.db ∧ m = h'.coll
      · have : (d, m) = (h.db, h'.coll) := Prod.ext hdn.1 hdn.2
        simp only [hdn, and_self, if_true, this, toS_empty]
      · have : ¬ ((d, m) = (h.db, h'.coll)) := by
          intro e; exact hdn ⟨(Prod.ext_iff.mp e).1, (Prod.ext_iff.mp e).2⟩
        simp only [hdn, if_false, this]; exact hR.2.2 _ d m
  | listCollectionNames h f =>
    cases f with
    | none =>
      simp only [inD, handlesObtained, filterFalsy, Bool.not_false,
        Bool.and_true] at hD
      simp only [Catalog.step, Spec.Catalog.step, hD, Bool.not_true, Bool.false_eq_true, if_false]
      refine ⟨hR, outEquiv_names (nodup_listColls (hW.1 _) _) (nodup_slistColls (hR.2.1 _) _) ?_⟩
      intro a
      rw [mem_listColls (hW.1 _), mem_slistColls, created_iff_isSome hR]
    | some f =>
      simp only [inD, handlesObtained, filterFalsy, Bool.not_false,
        Bool.and_true, Bool.and_eq_true, Bool.not_eq_true'] at hD
      obtain ⟨hob, hfal⟩ := hD
      simp only [Catalog.step, Spec.Catalog.step, hob, hfal, Bool.not_true, Bool.false_eq_true,
        if_false]
      refine ⟨hR, outEquiv_names (nodup_listCollsFiltered (hW.1 _) _ _)
        ((nodup_slistColls (hR.2.1 _) _).filter _) ?_⟩
      intro a
      unfold listCollsFiltered
      rw [List.mem_filter, mem_slistColls, mem_listCollsFiltered (hW.1 _),
        ← created_iff_isSome hR]
      constructor
      · rintro ⟨h1, h2, h3⟩; exact ⟨⟨h1, h3⟩, h2⟩
      · rintro ⟨⟨h1, h3⟩, h2⟩; exact ⟨h1, h2, h3⟩
  | listDatabaseNames c =>
    simp only [Catalog.step, Spec.Catalog.step]
    refine ⟨hR, outEquiv_names (nodup_listDbs (hW.1 _)) (nodup_slistDbs _) ?_⟩
    intro a
    rw [mem_listDbs (hW.1 _), mem_slistDbs]
    constructor
    · rintro ⟨n, hn⟩; exact ⟨n, by rw [← created_iff_isSome hR]; exact hn⟩
    · rintro ⟨n, hn⟩; exact ⟨n, by rw [created_iff_isSome hR]; exact hn⟩
  | dropDatabase c t =>
    cases t with
    | byName d =>
      simp only [Catalog.step, Spec.Catalog.step]
      exact dropDatabaseStep_refines σ c d hR
    | byHandle h =>
      simp only [inD, handlesObtained, filterFalsy, Bool.not_false,
        Bool.and_true] at hD
      simp only [Catalog.step, Spec.Catalog.step, hD, Bool.not_true, Bool.false_eq_true, if_false]
      exact dropDatabaseStep_refines σ c h.db hR

end MongoModel.Proofs.C17
