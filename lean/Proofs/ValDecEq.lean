/-
  Proofs.ValDecEq — decidable equality of values, from the hand-written structural `Val.beq`
  (`deriving DecidableEq` does not go through the nested inductive).  Used to decide concrete
  instances (`decide +kernel`) of statements that speak of `=` between values.
-/
import Proofs.C01Values

namespace MongoModel.Proofs
open MongoModel MongoModel.Proofs.C01Lemmas

theorem beqFields_refl (fs : Fields) (ih : ∀ k v, (k, v) ∈ fs → Val.beq v v = true) :
    beqFields fs fs = true := by
  induction fs with
  | nil => rfl
  | cons kv fs ih2 =>
    obtain ⟨k, v⟩ := kv
    simp only [beqFields, Bool.and_eq_true, beq_self_eq_true, true_and]
    exact ⟨ih k v (by simp), ih2 (fun k v hm => ih k v (by simp [hm]))⟩

theorem beqList_refl (xs : List Val) (ih : ∀ x, x ∈ xs → Val.beq x x = true) :
    beqList xs xs = true := by
  induction xs with
  | nil => rfl
  | cons x xs ih2 =>
    simp only [beqList, Bool.and_eq_true]
    exact ⟨ih x (by simp), ih2 (fun x hm => ih x (by simp [hm]))⟩

theorem Val.beq_refl : ∀ a : Val, Val.beq a a = true := by
  intro a
  induction a using Val.ind with
  | hdoc fs ih => simp only [Val.beq]; exact beqFields_refl fs ih
  | harr xs ih => simp only [Val.beq]; exact beqList_refl xs ih
  | _ => simp [Val.beq]

/-- decidable equality of values -/
@[reducible] def valDecEq : DecidableEq Val := fun a b =>
  if h : Val.beq a b = true then isTrue (Val.eq_of_beq a b h)
  else isFalse (fun e => h (e ▸ Val.beq_refl a))

end MongoModel.Proofs
