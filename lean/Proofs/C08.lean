/-
  Proofs.C08 — lemmas and proofs behind Props/C08.lean.
-/
import Spec.StoreInv
import Proofs.C08Batch

namespace MongoModel.Proofs.C08
open MongoModel MongoModel.Spec MongoModel.Proofs.C08Lemmas

/-- a single-document write is not a `clock` operation: `step` runs `stepColl` at the clock -/
theorem step_single (cfg : Cfg) (s : St) (op : Val) (hs : singleWrite op = true) :
    step cfg s op =
      ({ s with c := (stepColl cfg s.now s.c op).1 }, (stepColl cfg s.now s.c op).2) := by
  unfold step
  split
  · simp [singleWrite] at hs
  · rfl

theorem failed_single_write_noop (cfg : Cfg) (s : St) (op : Val) (hs : singleWrite op = true)
    (he : (step cfg s op).2.isErr = true) :
    visible (step cfg s op).1 = visible s := by
  rw [step_single cfg s op hs] at he ⊢
  exact (single_fail_near cfg s.now s.c op hs he).visible

theorem failed_single_write_indexes (cfg : Cfg) (s : St) (op : Val) (hs : singleWrite op = true)
    (he : (step cfg s op).2.isErr = true) :
    (step cfg s op).1.c.indexes.map (·.name) = s.c.indexes.map (·.name) ∧
    (step cfg s op).1.c.ttlIndexes.map (·.name) = s.c.ttlIndexes.map (·.name) := by
  rw [step_single cfg s op hs] at he ⊢
  have h := (single_fail_near cfg s.now s.c op hs he).indexes
  exact ⟨by rw [h.1], by rw [h.2]⟩

theorem validation_before_mutation (cfg : Cfg) (now : Int) (c : Coll) (f u up : Val) (e : Err)
    (h : validateUpdate u = .error e) :
    stepColl cfg now c (.arr [.str "update_one", f, u, up]) = (c, .err e) ∧
    stepColl cfg now c (.arr [.str "update_many", f, u, up]) = (c, .err e) := by
  have h1 : stepColl cfg now c (.arr [.str "update_one", f, u, up]) =
      (match validateUpdate u with
       | .error e => (c, .err e)
       | .ok () =>
         let (c', r) := applyUpdateColl cfg now c f u (boolOf up) false
         (c', match r with | .ok x => .val (updateOut x) | .error e => .err e)) := rfl
  have h2 : stepColl cfg now c (.arr [.str "update_many", f, u, up]) =
      (match validateUpdate u with
       | .error e => (c, .err e)
       | .ok () =>
         let (c', r) := applyUpdateColl cfg now c f u (boolOf up) true
         (c', match r with | .ok x => .val (updateOut x) | .error e => .err e)) := rfl
  rw [h1, h2, h]
  exact ⟨rfl, rfl⟩

/-- an update document whose operator names are refused is refused by `_apply_update` before any
    document is looked for: the collection is the SAME (no expiry pass has run, the filter was
    not evaluated), whatever the filter and the flags -/
theorem precheck_before_lookup (cfg : Cfg) (now : Int) (c : Coll) (fs dfs : Fields) (f u : Val)
    (upsert multi : Bool) (e : Err) (hf : patchDT f = .doc fs) (hu : patchDT u = .doc dfs)
    (h : updatePrecheck cfg dfs = .error e) :
    applyUpdateColl cfg now c f u upsert multi = (c, .error e) := by
  unfold applyUpdateColl
  simp only [hf, hu, h]

theorem step_insert_many (cfg : Cfg) (now : Int) (c : Coll) (ds : List Val) (ordered : Val) :
    stepColl cfg now c (.arr [.str "insert_many", .arr ds, ordered]) =
      if ds.isEmpty then (c, .err .typeErr)
      else if !ds.all Val.isDoc then (c, .err .typeErr)
      else insertManyLoop now (boolOf ordered) ds 0 c [] [] 0 := rfl

theorem step_insert_many_ok (cfg : Cfg) (now : Int) (c : Coll) (ds : List Val) (b : Bool)
    (hne : ds ≠ []) (hd : ds.all Val.isDoc = true) :
    stepColl cfg now c (.arr [.str "insert_many", .arr ds, .bool b]) =
      insertManyLoop now b ds 0 c [] [] 0 := by
  rw [step_insert_many]
  have : ds.isEmpty = false := by cases ds <;> simp_all
  simp only [this, hd, Bool.false_eq_true, if_false, Bool.not_true]
  cases b <;> rfl

theorem unordered_all_successes (cfg : Cfg) (now : Int) (c : Coll) (ds : List Val)
    (hne : ds ≠ []) (hd : ds.all Val.isDoc = true)
    (hw : ∀ e, (stepColl cfg now c (.arr [.str "insert_many", .arr ds, .bool false])).2 ≠ .err e) :
    (stepColl cfg now c (.arr [.str "insert_many", .arr ds, .bool false])).1
      = seqInsert cfg now ds c := by
  rw [step_insert_many_ok cfg now c ds false hne hd] at hw ⊢
  exact loop_unordered cfg now ds hd 0 c [] [] 0 hw

theorem ordered_prefix (cfg : Cfg) (now : Int) (c : Coll) (ds : List Val)
    (hne : ds ≠ []) (hd : ds.all Val.isDoc = true) :
    ∃ k, k ≤ ds.length ∧
      (stepColl cfg now c (.arr [.str "insert_many", .arr ds, .bool true])).1
        = seqInsert cfg now (ds.take k) c ∧
      ((stepColl cfg now c (.arr [.str "insert_many", .arr ds, .bool true])).2.isErr = false →
        k = ds.length) := by
  rw [step_insert_many_ok cfg now c ds true hne hd]
  obtain ⟨k, hk, hst, hfin⟩ := loop_ordered cfg now ds hd 0 c [] [] 0
  exact ⟨k, hk, hst, fun h => (hfin h).2⟩

theorem ordered_error_details (cfg : Cfg) (now : Int) (c : Coll) (ds : List Val) (details : Val)
    (h : (stepColl cfg now c (.arr [.str "insert_many", .arr ds, .bool true])).2 = .bulkErr details) :
    ∃ k code, details = .doc [("writeErrors", .arr [.doc [("index", .int k), ("code", code)]]),
                              ("nInserted", .int k)] := by
  rw [step_insert_many] at h
  split at h
  · cases h
  · split at h
    · cases h
    · exact loop_details now ds 0 c [] 0 details rfl h

end MongoModel.Proofs.C08
