/-
  Proofs.C08 — lemmas and proofs behind Props/C08.lean.
-/
import Spec.StoreInv

namespace MongoModel.Proofs.C08
open MongoModel MongoModel.Spec

theorem failed_single_write_noop (cfg : Cfg) (s : St) (op : Val) (hs : singleWrite op = true)
    (he : (step cfg s op).2.isErr = true) :
    visible (step cfg s op).1 = visible s := by sorry

theorem failed_single_write_indexes (cfg : Cfg) (s : St) (op : Val) (hs : singleWrite op = true)
    (he : (step cfg s op).2.isErr = true) :
    (step cfg s op).1.c.indexes.map (·.name) = s.c.indexes.map (·.name) ∧
    (step cfg s op).1.c.ttlIndexes.map (·.name) = s.c.ttlIndexes.map (·.name) := by sorry

theorem validation_before_mutation (cfg : Cfg) (now : Int) (c : Coll) (f u up : Val) (e : Err)
    (h : validateUpdate u = .error e) :
    stepColl cfg now c (.arr [.str "update_one", f, u, up]) = (c, .err e) ∧
    stepColl cfg now c (.arr [.str "update_many", f, u, up]) = (c, .err e) := by sorry

theorem unordered_all_successes (cfg : Cfg) (now : Int) (c : Coll) (ds : List Val)
    (hne : ds ≠ []) (hd : ds.all Val.isDoc = true)
    (hw : ∀ e, (stepColl cfg now c (.arr [.str "insert_many", .arr ds, .bool false])).2 ≠ .err e) :
    (stepColl cfg now c (.arr [.str "insert_many", .arr ds, .bool false])).1
      = seqInsert cfg now ds c := by sorry

theorem ordered_prefix (cfg : Cfg) (now : Int) (c : Coll) (ds : List Val)
    (hne : ds ≠ []) (hd : ds.all Val.isDoc = true) :
    ∃ k, k ≤ ds.length ∧
      (stepColl cfg now c (.arr [.str "insert_many", .arr ds, .bool true])).1
        = seqInsert cfg now (ds.take k) c ∧
      ((stepColl cfg now c (.arr [.str "insert_many", .arr ds, .bool true])).2.isErr = false →
        k = ds.length) := by sorry

theorem ordered_error_details (cfg : Cfg) (now : Int) (c : Coll) (ds : List Val) (details : Val)
    (h : (stepColl cfg now c (.arr [.str "insert_many", .arr ds, .bool true])).2 = .bulkErr details) :
    ∃ k code, details = .doc [("writeErrors", .arr [.doc [("index", .int k), ("code", code)]]),
                              ("nInserted", .int k)] := by sorry

end MongoModel.Proofs.C08
