/-
  Proofs.C10Update — the update loop counts exactly the selected entries of its snapshot.
-/
import Proofs.C10Keys

namespace MongoModel.Proofs.C10Lemmas
open MongoModel MongoModel.Spec
open MongoModel.Proofs.C09Lemmas

/-! ### what the expiry passes inside `ensureUniques` can do -/

/-- no TTL index of `T` expires the document at `now` -/
def CleanDoc (now : Int) (T : List Index) (d : Val) : Prop :=
  ∀ ix ∈ T, ∀ f s, ixAction ix = .ok (some (f, s)) → meetsExpiry f s now d = false

theorem pass_keeps (now : Int) (l : List Index) (c c' : Coll) (h : pass now l c = .ok c')
    (p : Val × Val) (hp : p ∈ c.docs) (hc : CleanDoc now l p.2) : p ∈ c'.docs := by
  induction l generalizing c with
  | nil => rw [pass_nil] at h; cases h; exact hp
  | cons ix l ih =>
    have hc' : CleanDoc now l p.2 := fun ix' h' => hc ix' (List.mem_cons_of_mem _ h')
    rw [pass_cons] at h
    cases ha : ixAction ix with
    | error e => rw [ha] at h; cases h
    | ok o =>
      rw [ha] at h
      cases o with
      | none => exact ih c h hp hc'
      | some fs =>
        obtain ⟨f, s⟩ := fs
        refine ih _ h ?_ hc'
        simp only [filt, List.mem_filter]
        exact ⟨hp, by rw [hc ix (List.mem_cons_self ..) f s ha]; rfl⟩

/-- `c'` is `c` after some expiry passes at `now` -/
def Rel (now : Int) (c c' : Coll) : Prop :=
  c'.docs.Sublist c.docs ∧ c'.ttlIndexes = c.ttlIndexes ∧
  ∀ p ∈ c.docs, CleanDoc now c.ttlIndexes p.2 → p ∈ c'.docs

theorem Rel.refl (now : Int) (c : Coll) : Rel now c c :=
  ⟨List.Sublist.refl _, rfl, fun _ hp _ => hp⟩

theorem Rel.trans {now : Int} {a b c : Coll} (h1 : Rel now a b) (h2 : Rel now b c) : Rel now a c :=
  ⟨h2.1.trans h1.1, h2.2.1.trans h1.2.1,
    fun p hp hc => h2.2.2 p (h1.2.2 p hp hc) (by rw [h1.2.1]; exact hc)⟩

theorem Rel.ofExpire {now : Int} {c c' : Coll} (h : expire now c = .ok c') : Rel now c c' := by
  obtain ⟨h1, h2⟩ := expire_ok now c c' h
  exact ⟨h1, h2.2.1, fun p hp hc => pass_keeps now _ c c' h p hp hc⟩

theorem Rel.ofIter {now : Int} {c c' : Coll} {f : Val} {ms : List Val}
    (h : iterDocuments now c f = .ok (c', ms)) : Rel now c c' := by
  unfold iterDocuments at h
  cases h1 : expire now c with
  | error e => simp [h1, bind, Except.bind] at h
  | ok c1 =>
    simp only [h1, bind, Except.bind] at h
    have r1 : Rel now c c1 := Rel.ofExpire h1
    cases h2 : expire now c1 with
    | error e =>
      simp only [h2] at h
      split at h
      · split at h <;> cases h
      · cases h
    | ok c2 =>
      simp only [h2] at h
      have r2 := r1.trans (Rel.ofExpire h2)
      split at h
      · split at h
        · cases h
        · split at h
          · cases h
          · cases h; exact r2
      · split at h
        · cases h
        · cases h; exact r2

theorem Rel.foldUniques (now : Int) (newData : Val) (l : List Index) (c c' : Coll)
    (h : l.foldlM (fun c ix =>
      if !ix.unique then pure c
      else do
        let kwargs ← valuesFor ix.keys newData
        let skip := ix.sparse && kwargs.all isNullCond
        if skip then pure c
        else do
          let filter := match ix.partialFilter with
            | some pfe => Val.doc [("$and", .arr [pfe, .doc kwargs])]
            | none => Val.doc kwargs
          let (c', ms) ← iterDocuments now c filter
          if ms.length > 1 then .error .dupKey else pure c') c = Except.ok c') : Rel now c c' := by
  induction l generalizing c with
  | nil => simp only [List.foldlM_nil, pure, Except.pure] at h; cases h; exact Rel.refl _ _
  | cons ix l ih =>
    rw [List.foldlM_cons] at h
    simp only [bind, Except.bind] at h
    split at h
    · cases h
    · rename_i cm hcm
      refine Rel.trans ?_ (ih cm h)
      split at hcm
      · cases hcm; exact Rel.refl _ _
      · split at hcm
        · cases hcm
        · split at hcm
          · cases hcm; exact Rel.refl _ _
          · split at hcm
            · cases hcm
            · rename_i r hr
              obtain ⟨c2, ms⟩ := r
              simp only at hcm
              split at hcm
              · cases hcm
              · cases hcm
                exact Rel.ofIter hr

theorem Rel.ofEnsure {now : Int} {c c' : Coll} {d : Val}
    (h : ensureUniques now c d = .ok c') : Rel now c c' :=
  Rel.foldUniques now d c.indexes c c' h

/-! ### `setDoc` on a present key -/

theorem hasKey_of_lookup {c : Coll} {k cur : Val} (h : c.lookup k = some cur) :
    c.hasKey k = true := by
  unfold Coll.lookup at h
  cases hf : c.docs.find? (fun p => pyEq p.1 k) with
  | none => rw [hf] at h; cases h
  | some p =>
    unfold Coll.hasKey
    rw [List.any_eq_true]
    have hp : pyEq p.1 k = true := by
      have := List.find?_some hf
      exact this
    exact ⟨p, List.mem_of_find?_eq_some hf, hp⟩

/-- what `setDoc` does to one entry -/
def setEntry (k d : Val) (p : Val × Val) : Val × Val := if pyEq p.1 k then (p.1, d) else p

theorem setEntry_fst (k d : Val) (p : Val × Val) : (setEntry k d p).1 = p.1 := by
  unfold setEntry; split <;> rfl

theorem setDoc_docs {c : Coll} {k : Val} (d : Val) (h : c.hasKey k = true) :
    (c.setDoc k d).docs = c.docs.map (setEntry k d) := by
  unfold Coll.setDoc; rw [if_pos h]; rfl

theorem setDoc_ttl (c : Coll) (k d : Val) : (c.setDoc k d).ttlIndexes = c.ttlIndexes := by
  unfold Coll.setDoc; split <;> rfl

theorem DK_map_setEntry {l : List (Val × Val)} (k d : Val) (h : DK l) : DK (l.map (setEntry k d)) := by
  unfold DK at *
  rw [List.pairwise_map]
  exact h.imp (fun {a b} hab => by rw [setEntry_fst, setEntry_fst]; exact hab)

theorem GK_map_setEntry {l : List (Val × Val)} (k d : Val) (h : GK l) : GK (l.map (setEntry k d)) := by
  intro p hp
  obtain ⟨a, ha, rfl⟩ := List.mem_map.1 hp
  rw [setEntry_fst]
  exact h a ha

/-! ### the loop invariant -/

/-- keys of the current collection behave, its TTL indexes are `T`, and the entries of the
    snapshot still to be visited are in it, unchanged (and not expired by `T`) -/
structure LInv (now : Int) (T : List Index) (rest : List (Val × Val)) (c : Coll) : Prop where
  dk : DK c.docs
  gk : GK c.docs
  ttl : c.ttlIndexes = T
  mem : ∀ p ∈ rest, p ∈ c.docs ∧ CleanDoc now T p.2

theorem LInv.tail {now : Int} {T : List Index} {p : Val × Val} {rest : List (Val × Val)} {c : Coll}
    (h : LInv now T (p :: rest) c) : LInv now T rest c :=
  ⟨h.dk, h.gk, h.ttl, fun q hq => h.mem q (List.mem_cons_of_mem _ hq)⟩

theorem LInv.lookup {now : Int} {T : List Index} {p : Val × Val} {rest : List (Val × Val)} {c : Coll}
    (h : LInv now T (p :: rest) c) : c.lookup p.1 = some p.2 := by
  unfold Coll.lookup
  rw [find_of_mem h.dk h.gk (h.mem p (List.mem_cons_self ..)).1]
  rfl

theorem LInv.setDoc {now : Int} {T : List Index} {p : Val × Val} {rest : List (Val × Val)} {c : Coll}
    (h : LInv now T (p :: rest) c) (hd : DK (p :: rest)) (new : Val) :
    LInv now T rest (c.setDoc p.1 new) := by
  have hk := hasKey_of_lookup h.lookup
  have hp := (h.mem p (List.mem_cons_self ..)).1
  refine ⟨?_, ?_, ?_, ?_⟩
  · rw [setDoc_docs new hk]; exact DK_map_setEntry _ _ h.dk
  · rw [setDoc_docs new hk]; exact GK_map_setEntry _ _ h.gk
  · rw [setDoc_ttl]; exact h.ttl
  · intro q hq
    have hq' := h.mem q (List.mem_cons_of_mem _ hq)
    refine ⟨?_, hq'.2⟩
    rw [setDoc_docs new hk]
    refine List.mem_map.2 ⟨q, hq'.1, ?_⟩
    have h1 : pyEq p.1 q.1 = false := (List.pairwise_cons.1 hd).1 q hq
    have h2 : pyEq q.1 p.1 = false := by rw [← (h.gk p hp).1 q.1]; exact h1
    unfold setEntry
    rw [h2]
    rfl

theorem LInv.rel {now : Int} {T : List Index} {rest : List (Val × Val)} {c c2 : Coll}
    (h : LInv now T rest c) (hr : Rel now c c2) : LInv now T rest c2 :=
  ⟨h.dk.sublist hr.1, h.gk.subset (fun p hp => hr.1.subset hp), hr.2.1.trans h.ttl,
    fun q hq => ⟨hr.2.2 q (h.mem q hq).1 (by rw [h.ttl]; exact (h.mem q hq).2), (h.mem q hq).2⟩⟩

/-! ### the loop -/

theorem loop_count (now : Int) (spec document nowV : Val) (multi : Bool) (T : List Index) :
    ∀ (rest : List (Val × Val)) (c : Coll) (matched updated : Nat) (c' : Coll) (m' u' : Nat)
      (sel : List (Val × Val)),
      DK rest → LInv now T rest c → selectDocs spec rest = .ok sel →
      updateLoop now spec document nowV multi rest c matched updated = (c', .ok (m', u')) →
      updated ≤ matched →
      m' = matched + (if multi then sel.length else min sel.length 1) ∧ u' ≤ m' := by
  intro rest
  induction rest with
  | nil =>
    intro c matched updated c' m' u' sel _ _ hs h hle
    cases hs
    simp only [updateLoop, Prod.mk.injEq, Except.ok.injEq] at h
    obtain ⟨_, rfl, rfl⟩ := h
    cases multi <;> simp [hle]
  | cons kv rest ih =>
    intro c matched updated c' m' u' sel hd hinv hs h hle
    have hl := hinv.lookup
    have hd' : DK rest := (List.pairwise_cons.1 hd).2
    obtain ⟨b, more, hb, hm, rfl⟩ := select_cons spec kv rest sel hs
    have hset := fun new => hinv.setDoc hd new
    obtain ⟨key, v⟩ := kv
    have hb' : filterApplies spec v = .ok b := hb
    have hl' : c.lookup key = some v := hl
    unfold updateLoop at h
    rw [hl'] at h
    dsimp only at h
    rw [hb'] at h
    cases b with
    | false =>
      dsimp only at h
      exact ih c matched updated c' m' u' more hd' hinv.tail hm h hle
    | true =>
      dsimp only at h
      have hlen : (if multi = true then ((key, v) :: more).length else min ((key, v) :: more).length 1)
          = (if multi = true then more.length else 0) + 1 := by
        cases multi <;> simp <;> omega
      simp only [if_true]
      rw [hlen]
      cases ha : applyUpdate spec document nowV false v with
      | error e => rw [ha] at h; cases h
      | ok new =>
        rw [ha] at h
        dsimp only at h
        have hs0 : LInv now T rest (c.setDoc key new) := hset new
        by_cases hc : pyEq new v = true
        · rw [if_pos hc] at h
          -- the unique indexes are checked on the "unchanged" branch as well
          cases hu : ensureUniques now (c.setDoc key new) new with
          | error e => rw [hu] at h; cases h
          | ok c2 =>
            rw [hu] at h
            dsimp only at h
            have hs2 : LInv now T rest c2 := hs0.rel (Rel.ofEnsure hu)
            cases multi with
            | true =>
              simp only [if_true] at h ⊢
              have := ih _ (matched + 1) updated c' m' u' more hd' hs2 hm h (by omega)
              simp only [if_true] at this
              omega
            | false =>
              simp only [Bool.false_eq_true, if_false, Prod.mk.injEq, Except.ok.injEq] at h ⊢
              omega
        · rw [if_neg hc] at h
          generalize (!pyEqOpt _ _) = q at h
          cases q with
          | true => cases h
          | false =>
            simp only [Bool.false_eq_true, if_false] at h
            cases hu : ensureUniques now (c.setDoc key new) new with
            | error e => rw [hu] at h; cases h
            | ok c2 =>
              rw [hu] at h
              dsimp only at h
              have hs2 : LInv now T rest c2 := hs0.rel (Rel.ofEnsure hu)
              cases multi with
              | true =>
                simp only [if_true] at h ⊢
                have := ih _ (matched + 1) (updated + 1) c' m' u' more hd' hs2 hm h (by omega)
                simp only [if_true] at this
                omega
              | false =>
                simp only [Bool.false_eq_true, if_false, Prod.mk.injEq, Except.ok.injEq] at h ⊢
                omega

end MongoModel.Proofs.C10Lemmas
