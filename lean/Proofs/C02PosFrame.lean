/-
  Proofs.C02PosFrame — the positional branch of an operator update (`applyOpsPos`) edits the
  document at most at the top-level fields its paths start with, like every other operator step;
  `applyUpdate_frame` for both branches.
-/
import Proofs.C02Frame

set_option linter.unusedSimpArgs false
set_option linter.unusedVariables false

namespace MongoModel.Proofs.C02Lemmas
open MongoModel MongoModel.Spec

theorem bind_ok' {α β : Type} {x : R α} {g : α → R β} {d' : β}
    (h : (do let s ← x; g s) = Except.ok d') : ∃ s, x = .ok s ∧ g s = .ok d' := by
  cases x with
  | error e => cases h
  | ok s => exact ⟨s, rfl, h⟩

theorem bind_pure_ok' {α β : Type} {x : R α} {g : α → β} {d' : β}
    (h : (do let s ← x; pure (g s)) = Except.ok d') : ∃ s, d' = g s := by
  cases x with
  | error e => cases h
  | ok s => cases h; exact ⟨s, rfl⟩

theorem editTop_touch (h : String) (f : Val → R Val) (fs : Fields) (d' : Val)
    (hh : editTop h f (.doc fs) = .ok d') : ∃ fs', d' = .doc fs' ∧ Touch h fs fs' := by
  simp only [editTop] at hh
  split at hh
  · obtain ⟨s, rfl⟩ := bind_pure_ok hh
    exact ⟨_, rfl, .inr (.inl ⟨_, rfl⟩)⟩
  · simp [unmodelled] at hh

theorem applyAtSub_touch (u : Updater) (now : Val) (sub : SubRef) (last : String) (v : Val)
    (fs : Fields) (d' : Val) (head : String)
    (hs : ∀ h p, sub = .inside h p → h = head)
    (hh : applyAtSub u now sub last v (.doc fs) = .ok d') :
    ∃ fs', d' = .doc fs' ∧ Touch head fs fs' := by
  cases sub with
  | nil => simp [applyAtSub, unmodelled] at hh
  | untracked => simp [applyAtSub, unmodelled] at hh
  | gone c =>
    simp only [applyAtSub] at hh
    obtain ⟨s, _, h2⟩ := bind_ok hh
    cases h2; exact ⟨_, rfl, .inl rfl⟩
  | inside h p =>
    have := hs h p rfl
    subst this
    exact editTop_touch _ _ fs d' hh


theorem headOf_cons {k head : String} {rest : List String} (h : splitDots k = head :: rest) :
    headOf k = head := by simp [headOf, h]

theorem headD_eq_headOf (k : String) : (splitDots k).headD "" = headOf k := rfl

/-- one key of a positional operator document edits at most the field its path starts with -/
theorem posUpdaterKey_touch (u : Updater) (now spec : Val) (st st' : PosState) (k : String) (v : Val)
    (fs : Fields) (hd : st.d = .doc fs)
    (h : posUpdaterKey u now spec st k v = .ok st') :
    ∃ fs', st'.d = .doc fs' ∧ Touch (headOf k) fs fs' := by
  obtain ⟨d, sub, lost⟩ := st
  simp only at hd
  subst hd
  simp only [posUpdaterKey] at h
  split at h
  · cases h
  split at h
  · cases h
  split at h
  · -- a key without `$`
    obtain ⟨d1, h1, h2⟩ := bind_ok' h
    cases h2
    rw [splitDots_cons] at h1
    exact usf_doc_touch u now v _ _ fs d1 h1
  · split at h
    · rename_i head p2 more hsd
      rw [headOf_cons hsd]
      split at h
      · cases h
      · obtain ⟨t, ht, h⟩ := bind_ok' h
        split at h
        · -- carried container
          split at h
          · rename_i hh pp
            split at h
            · rename_i he
              obtain ⟨d1, h1, h2⟩ := bind_ok' h
              cases h2
              exact applyAtSub_touch u now _ _ v fs d1 head
                (fun h' p' e => by cases e; exact he) h1
            · cases h
          · obtain ⟨d1, h1, h2⟩ := bind_ok' h
            cases h2
            exact applyAtSub_touch u now _ _ v fs d1 head (fun h' p' e => by cases e) h1
          · cases h
        · -- a fresh walk
          split at h
          · rename_i fs0 ss hdv hsv
            cases hdv
            obtain ⟨ns, hns, h⟩ := bind_ok' h
            split at h
            · cases h
            · rename_i top htop
              obtain ⟨w, hw, h⟩ := bind_ok' h
              obtain ⟨cur, subspec, path⟩ := w
              simp only at h
              split at h
              · -- `f.$` on an array
                split at h
                · cases h; exact ⟨_, rfl, .inl rfl⟩
                · split at h
                  · obtain ⟨m, hm, h⟩ := bind_ok' h
                    split at h
                    · obtain ⟨d1, h1, h2⟩ := bind_ok' h
                      cases h2
                      split at h1
                      · exact editTop_touch _ _ _ d1 h1
                      · cases h1; exact ⟨_, rfl, .inl rfl⟩
                    · cases h; exact ⟨_, rfl, .inl rfl⟩
                  · cases h
              · obtain ⟨d1, h1, h2⟩ := bind_ok' h
                cases h2
                refine applyAtSub_touch u now _ _ v _ d1 head ?_ h1
                intro h' p' e
                split at e
                · cases e; rfl
                · cases e
          · cases h
    · cases h


/-! ### frames compose, with a state next to the document -/

theorem foldlM_frame_st {σ : Type} (docOf : σ → Val) (step : σ → (String × Val) → R σ)
    (keyOf : String × Val → List String)
    (hstep : ∀ s kv s' fs, docOf s = .doc fs → step s kv = .ok s' →
      ∃ fs', docOf s' = .doc fs' ∧ Frame (keyOf kv) fs fs') :
    ∀ (body : Fields) (s s' : σ) (fs : Fields), docOf s = .doc fs → body.foldlM step s = .ok s' →
      ∃ fs', docOf s' = .doc fs' ∧ Frame (body.flatMap keyOf) fs fs'
  | [], s, s', fs, hd, h => by
    simp only [List.foldlM_nil, pure, Except.pure] at h
    cases h; exact ⟨fs, hd, Frame.refl _ _⟩
  | kv :: body, s, s', fs, hd, h => by
    simp only [List.foldlM_cons] at h
    obtain ⟨s1, h1, h2⟩ := bind_ok' h
    obtain ⟨fs1, hd1, hf1⟩ := hstep s kv s1 fs hd h1
    obtain ⟨fs2, hd2, hf2⟩ := foldlM_frame_st docOf step keyOf hstep body s1 s' fs1 hd1 h2
    exact ⟨fs2, hd2, by simpa [List.flatMap_cons] using hf1.trans hf2⟩

theorem posFields_frame (u : Updater) (now spec v : Val) (fs : Fields) (sub sub' : SubRef)
    (d' : Val) (k : String) (h : posFields u now spec v (.doc fs) sub = .ok (d', sub')) :
    ∃ fs', d' = .doc fs' ∧ Frame (opAddr k v) fs fs' := by
  cases v with
  | doc body =>
    simp only [posFields] at h
    split at h
    · obtain ⟨st, hst, h2⟩ := bind_ok' h
      cases h2
      simp only [opAddr]
      refine foldlM_frame_st (fun (s : PosState) => s.d) _ _ ?_ body _ st fs rfl hst
      intro s kv s' fs0 hd0 h0
      obtain ⟨fs1, h1, ht⟩ := posUpdaterKey_touch u now spec s s' kv.1 kv.2 fs0 hd0 h0
      exact ⟨fs1, h1, ht.frame (by simp)⟩
    · obtain ⟨d1, h1, h2⟩ := bind_ok' h
      simp only [pure, Except.pure, Except.ok.injEq, Prod.mk.injEq] at h2
      obtain ⟨rfl, _⟩ := h2
      exact updateFields_frame u now (.doc body) fs d1 k h1
  | _ => simp [posFields] at h

theorem eachFieldS_frame (f : Val → SubRef → String → Val → R (Val × SubRef))
    (hf : ∀ fs s field value r, f (.doc fs) s field value = .ok r →
      ∃ fs', r.1 = .doc fs' ∧ Touch (headOf field) fs fs')
    (v : Val) (fs : Fields) (sub : SubRef) (r : Val × SubRef) (k : String)
    (h : eachFieldS v (.doc fs) sub f = .ok r) :
    ∃ fs', r.1 = .doc fs' ∧ Frame (opAddr k v) fs fs' := by
  cases v with
  | doc body =>
    simp only [eachFieldS] at h
    simp only [opAddr]
    refine foldlM_frame_st (fun (s : Val × SubRef) => s.1) _ _ ?_ body _ r fs rfl h
    intro s kv s' fs0 hd0 h0
    obtain ⟨d0, s0⟩ := s
    simp only at hd0
    subst hd0
    obtain ⟨fs1, h1, ht⟩ := hf fs0 s0 kv.1 kv.2 s' h0
    exact ⟨fs1, h1, ht.frame (by simp)⟩
  | _ => simp [eachFieldS] at h

/-! ### `_get_subdocument` with a `$` component -/

theorem withSubdocPos_doc_touch (f : Val → String → R Val) (create : Bool) (p : String)
    (rest : List String) (fol : Bool) (ss : Val) (fs : Fields) (d' : Val) (hp : p ≠ "$")
    (hf : rest = [] → ∀ d', f (.doc fs) p = .ok d' → ∃ fs', d' = .doc fs' ∧ Touch p fs fs')
    (h : withSubdocPos f create (p :: rest) fol ss (.doc fs) = .ok d') :
    ∃ fs', d' = .doc fs' ∧ Touch p fs fs' := by
  cases rest with
  | nil =>
    simp only [withSubdocPos, hp, if_false, withSubdoc] at h
    exact hf rfl d' h
  | cons q rest =>
    simp only [withSubdocPos, hp, if_false] at h
    split at h
    · cases h; exact ⟨_, rfl, .inl rfl⟩
    generalize (ite ((!fol) = true) _ _ : Bool × Val × Bool) = t at h
    by_cases hb : t.2.2 = true
    · rw [if_pos hb] at h; cases h
    · rw [if_neg hb] at h
      obtain ⟨s, rfl⟩ := bind_pure_ok h
      exact ⟨_, rfl, .inr (.inl ⟨_, rfl⟩)⟩

theorem head_ne_dollar {field : String} (h : onePositional field = true) : headOf field ≠ "$" := by
  simp only [onePositional, Bool.and_eq_true, bne_iff_ne, ne_eq] at h
  exact h.2

theorem addToSetFieldPos_touch (spec : Val) (fs : Fields) (field : String) (value d' : Val)
    (h : addToSetFieldPos spec (.doc fs) field value = .ok d') :
    ∃ fs', d' = .doc fs' ∧ Touch (headOf field) fs fs' := by
  simp only [addToSetFieldPos] at h
  split at h
  · exact addToSetField_touch spec fs field value d' h
  split at h
  · cases h
  · rename_i hone
    simp only [Bool.not_eq_true', Bool.not_eq_false] at hone
    split at h
    · cases h
    · rw [splitDots_cons] at h
      refine withSubdocPos_doc_touch _ _ _ _ _ _ fs d' (head_ne_dollar hone) ?_ h
      intro _ d'' h'
      simp only [addToSetAt] at h'
      obtain ⟨s, rfl⟩ := bind_pure_ok h'
      exact ⟨_, rfl, .inr (.inl ⟨_, rfl⟩)⟩

theorem pullAllFieldPos_touch (spec : Val) (fs : Fields) (field : String) (value d' : Val)
    (h : pullAllFieldPos spec (.doc fs) field value = .ok d') :
    ∃ fs', d' = .doc fs' ∧ Touch (headOf field) fs fs' := by
  simp only [pullAllFieldPos] at h
  split at h
  · exact pullAllField_touch spec fs field value d' h
  split at h
  · cases h
  · rename_i hone
    simp only [Bool.not_eq_true', Bool.not_eq_false] at hone
    rw [splitDots_cons] at h
    refine withSubdocPos_doc_touch _ _ _ _ _ _ fs d' (head_ne_dollar hone) ?_ h
    intro _ d'' h'
    simp only [pullAllAt] at h'
    split at h'
    · obtain ⟨s, rfl⟩ := bind_pure_ok h'
      exact ⟨_, rfl, .inr (.inl ⟨_, rfl⟩)⟩
    · cases h'; exact ⟨_, rfl, .inl rfl⟩

theorem pushFieldPos_touch (spec : Val) (fs : Fields) (field : String) (value d' : Val)
    (h : pushFieldPos spec (.doc fs) field value = .ok d') :
    ∃ fs', d' = .doc fs' ∧ Touch (headOf field) fs fs' := by
  simp only [pushFieldPos] at h
  split at h
  · exact pushField_touch spec fs field value d' h
  split at h
  · cases h
  · rename_i hone
    simp only [Bool.not_eq_true', Bool.not_eq_false] at hone
    rw [splitDots_cons] at h
    refine withSubdocPos_doc_touch _ _ _ _ _ _ fs d' (head_ne_dollar hone) ?_ h
    intro _ d'' h'
    simp only [pushAt] at h'
    obtain ⟨s, rfl⟩ := bind_pure_ok h'
    exact ⟨_, rfl, .inr (.inl ⟨_, rfl⟩)⟩

theorem pullPosAt_doc_touch (value : Val) (last : String) (ps : Fields) (d' : Val)
    (h : pullPosAt value last (.doc ps) = .ok d') :
    ∃ fs', d' = .doc fs' ∧ Touch last ps fs' := by
  simp only [pullPosAt] at h
  split at h
  · cases h
  · obtain ⟨s, rfl⟩ := bind_pure_ok' h
    exact ⟨_, rfl, .inr (.inl ⟨_, rfl⟩)⟩
  · cases h
  · cases h
  · cases h

theorem pullFieldPos_touch (spec : Val) (sub : SubRef) (fs : Fields) (field : String) (value : Val)
    (r : Val × SubRef) (h : pullFieldPos spec sub (.doc fs) field value = .ok r) :
    ∃ fs', r.1 = .doc fs' ∧ Touch (headOf field) fs fs' := by
  simp only [pullFieldPos] at h
  split at h
  · obtain ⟨d1, h1, h2⟩ := bind_ok' h
    cases h2
    exact pullField_touch fs field value d1 h1
  split at h
  · cases h
  · rename_i hk
    simp only [Bool.or_eq_true, Bool.not_eq_true', beq_iff_eq, not_or, Bool.not_eq_false] at hk
    obtain ⟨t, ht, h⟩ := bind_ok' h
    split at h
    · split at h
      · split at h
        · rename_i hh pp he
          obtain ⟨d1, h1, h2⟩ := bind_ok' h
          cases h2
          rw [headD_eq_headOf] at he
          subst he
          exact editTop_touch _ _ fs d1 h1
        · cases h
      · obtain ⟨_, _, h2⟩ := bind_ok' h
        cases h2; exact ⟨_, rfl, .inl rfl⟩
      · cases h
    · split at h
      · cases h
      · rename_i hone
        simp only [Bool.not_eq_true', Bool.not_eq_false] at hone
        obtain ⟨d1, h1, h2⟩ := bind_ok' h
        cases h2
        rw [splitDots_cons] at h1
        refine withSubdocPos_doc_touch _ _ _ _ _ _ fs d1 (head_ne_dollar hone) ?_ h1
        intro hr d'' h'
        rw [splitDots_cons, hr] at h'
        exact pullPosAt_doc_touch value _ fs d'' h'


/-! ### the operator loop with the carried container -/

theorem applyOpsPos_frame (spec now : Val) (wi : Bool) (whole : Fields)
    (hw : whole.any (fun kv => kv.1.startsWith "$") = true) :
    ∀ (ops : Fields) (first : Bool) (sub : SubRef) (fs : Fields) (d' : Val),
      applyOpsPos spec now wi whole ops first sub (.doc fs) = .ok d' →
      ∃ fs', d' = .doc fs' ∧ Frame (addressed ops) fs fs'
  | [], first, sub, fs, d', h => by
    simp only [applyOpsPos] at h
    cases h; exact ⟨fs, rfl, Frame.refl _ _⟩
  | (k, v) :: rest, first, sub, fs, d', h => by
    rw [addressed_cons]
    have key : ∀ (X : R (Val × SubRef)),
        (∀ r, X = .ok r → ∃ fs1, r.1 = .doc fs1 ∧ Frame (opAddr k v) fs fs1) →
        (do let r ← X; applyOpsPos spec now wi whole rest false r.2 r.1) = Except.ok d' →
        ∃ fs', d' = .doc fs' ∧ Frame (opAddr k v ++ addressed rest) fs fs' := by
      intro X hX hb
      obtain ⟨r, h1, h2⟩ := bind_ok' hb
      obtain ⟨fs1, hr, hf1⟩ := hX r h1
      rw [hr] at h2
      obtain ⟨fs2, rfl, hf2⟩ := applyOpsPos_frame spec now wi whole hw rest false r.2 fs1 d' h2
      exact ⟨fs2, rfl, hf1.trans hf2⟩
    have pf : ∀ (u : Updater) (r : Val × SubRef), posFields u now spec v (.doc fs) sub = .ok r →
        ∃ fs1, r.1 = .doc fs1 ∧ Frame (opAddr k v) fs fs1 := by
      intro u r hr
      obtain ⟨d1, s1⟩ := r
      exact posFields_frame u now spec v fs sub s1 d1 k hr
    simp only [applyOpsPos] at h
    split at h
    · rename_i u hu
      exact key _ (pf u) h
    · split at h
      · rename_i hk; subst hk
        obtain ⟨d1, h1, h2⟩ := bind_ok' h
        obtain ⟨fs1, rfl, hf1⟩ := renameFields_frame v fs d1 h1
        obtain ⟨fs2, rfl, hf2⟩ := applyOpsPos_frame spec now wi whole hw rest false _ fs1 d' h2
        exact ⟨fs2, rfl, hf1.trans hf2⟩
      split at h
      · split at h
        · obtain ⟨fs2, rfl, hf2⟩ := applyOpsPos_frame spec now wi whole hw rest first sub fs d' h
          refine ⟨fs2, rfl, ?_⟩
          intro k' hk'
          simp only [List.mem_append, not_or] at hk'
          exact hf2 k' hk'.2
        · exact key _ (pf .set) h
      split at h
      · exact key _ (pf .currentDate) h
      split at h
      · refine key _ (fun r hr => eachFieldS_frame _ ?_ v fs sub r k hr) h
        intro fs0 s0 f0 v0 r0 h0
        obtain ⟨d1, h1, h2⟩ := bind_ok' h0
        cases h2
        exact addToSetFieldPos_touch spec fs0 f0 v0 d1 h1
      split at h
      · refine key _ (fun r hr => eachFieldS_frame _ ?_ v fs sub r k hr) h
        intro fs0 s0 f0 v0 r0 h0
        exact pullFieldPos_touch spec s0 fs0 f0 v0 r0 h0
      split at h
      · refine key _ (fun r hr => eachFieldS_frame _ ?_ v fs sub r k hr) h
        intro fs0 s0 f0 v0 r0 h0
        obtain ⟨d1, h1, h2⟩ := bind_ok' h0
        cases h2
        exact pullAllFieldPos_touch spec fs0 f0 v0 d1 h1
      split at h
      · refine key _ (fun r hr => eachFieldS_frame _ ?_ v fs sub r k hr) h
        intro fs0 s0 f0 v0 r0 h0
        obtain ⟨d1, h1, h2⟩ := bind_ok' h0
        cases h2
        exact pushFieldPos_touch spec fs0 f0 v0 d1 h1
      split at h
      · rw [replaceWhole_dollar whole _ hw] at h; cases h
      · cases h

/-- **the frame of a whole operator update**, positional paths included: a successful update
    yields a document that reads as before under every top-level field no path starts with -/
theorem applyUpdate_frame (spec now : Val) (wasInsert : Bool) (u : Fields) (fs : Fields) (d' : Val)
    (hu : u.all (fun kv => kv.1.startsWith "$") = true) (hne : u ≠ [])
    (h : applyUpdate spec (.doc u) now wasInsert (.doc fs) = .ok d') :
    ∃ fs', d' = .doc fs' ∧ ∀ k, k ∉ addressed u → dget k fs' = dget k fs := by
  have hw : u.any (fun kv => kv.1.startsWith "$") = true := by
    cases u with
    | nil => exact absurd rfl hne
    | cons kv r =>
      simp only [List.all_cons, Bool.and_eq_true] at hu
      simp [hu.1]
  cases u with
  | nil => exact absurd rfl hne
  | cons kv r =>
    simp only [applyUpdate] at h
    split at h
    · exact applyOpsPos_frame spec now wasInsert _ hw _ true _ fs d' h
    · exact applyOps_frame spec now wasInsert _ hw _ true fs d' h

theorem updaterOf_positional {op : String} {u : Updater} (h : updaterOf op = some u) :
    positionalOperators.contains op = true := by
  simp only [updaterOf] at h
  split at h
  · rename_i e; subst e; decide +kernel
  split at h
  · rename_i e; subst e; decide +kernel
  split at h
  · rename_i e; subst e; decide +kernel
  split at h
  · rename_i e; subst e; decide +kernel
  split at h
  · rename_i e; subst e; decide +kernel
  split at h
  · rename_i e; subst e; decide +kernel
  · cases h

/-- an update without positional keys is the plain operator loop -/
theorem applyUpdate_plain (spec now : Val) (wi : Bool) (kv : String × Val) (r : Fields) (d : Val)
    (hp : positionalUpdate (kv :: r) = false) :
    applyUpdate spec (.doc (kv :: r)) now wi d = applyOps spec now wi (kv :: r) (kv :: r) true d := by
  simp only [applyUpdate, hp, Bool.false_eq_true, if_false]

end MongoModel.Proofs.C02Lemmas
