/-
  Proofs.C17Server — lemmas about one server store of the model and one spec store:
  lookups after updates, well-formedness (dict keys are unique), listings.
-/
import Proofs.C17Coll
import Mathlib.Data.List.Nodup

namespace MongoModel.Proofs.C17
open MongoModel MongoModel.Catalog MongoModel.Spec.Catalog

/-! ### well-formedness: keys are unique, as in a dict -/


theorem mem_upsert {α β : Type} [DecidableEq α] {k : α} {v : β} {l : List (α × β)} {p : α × β}
    (h : p ∈ alUpsert k v l) : p = (k, v) ∨ p ∈ l := by
  induction l with
  | nil => simp [alUpsert] at h; exact Or.inl h
  | cons q r ih =>
    obtain ⟨a, b⟩ := q
    by_cases hk : a = k
    · simp [alUpsert, hk] at h
      rcases h with h | h
      · exact Or.inl h
      · exact Or.inr (List.mem_cons_of_mem _ h)
    · simp [alUpsert, hk] at h
      rcases h with h | h
      · exact Or.inr (by rw [h]; exact List.mem_cons_self)
      · rcases ih h with h | h
        · exact Or.inl h
        · exact Or.inr (List.mem_cons_of_mem _ h)

theorem wfdb_nil : WFdb [] := by simp [WFdb, alKeys]
theorem wfs_nil : WFs [] := by simp [WFs, alKeys]

theorem wfdb_db {s : Server} (h : WFs s) (d : String) : WFdb (s.db d) := by
  unfold Server.db
  cases hg : alGet? d s with
  | none => exact wfdb_nil
  | some db => exact h.2 _ (alGet?_mem hg)

theorem wfs_setDb {s : Server} (h : WFs s) (d : String) {db : DbStore} (hdb : WFdb db) :
    WFs (s.setDb d db) := by
  refine ⟨nodup_upsert _ _ _ h.1, ?_⟩
  intro p hp
  rcases mem_upsert hp with hp | hp
  · rw [hp]; exact hdb
  · exact h.2 p hp

theorem wfs_setColl {s : Server} (h : WFs s) (d n : String) (c : Coll) : WFs (s.setColl d n c) :=
  wfs_setDb h d (nodup_upsert _ _ _ (wfdb_db h d))

theorem wfs_touchDb {s : Server} (h : WFs s) (d : String) : WFs (s.touchDb d) :=
  wfs_setDb h d (wfdb_db h d)

theorem wfdb_dropAll {db : DbStore} (h : WFdb db) : WFdb (dropAll db) := by
  unfold WFdb dropAll
  have := alKeys_mapVal (fun _ (c : Coll) => if c.isCreated then Coll.empty else c) db
  rw [this]; exact h

theorem wfdb_renameIn {db : DbStore} (h : WFdb db) (n n' : String) : WFdb (renameIn db n n') :=
  nodup_upsert _ _ _ (nodup_erase _ _ h)

/-! ### lookups after updates -/

theorem db_setDb (s : Server) (d d' : String) (db : DbStore) :
    (s.setDb d db).db d' = if d' = d then db else s.db d' := by
  unfold Server.db Server.setDb
  rw [alGet?_upsert]; split <;> simp

theorem coll_setDb (s : Server) (d d' n : String) (db : DbStore) :
    (s.setDb d db).coll d' n = if d' = d then (alGet? n db).getD Coll.empty else s.coll d' n := by
  unfold Server.coll
  rw [db_setDb]; split <;> rfl

theorem coll_setColl (s : Server) (d n d' n' : String) (c : Coll) :
    (s.setColl d n c).coll d' n' = if d' = d ∧ n' = n then c else s.coll d' n' := by
  unfold Server.setColl
  rw [coll_setDb]
  by_cases hd : d' = d
  · subst hd
    rw [alGet?_upsert]
    by_cases hn : n' = n
    · simp [hn]
    · simp [hn, Server.coll]
  · simp [hd]

theorem db_setColl (s : Server) (d n d' : String) (c : Coll) :
    (s.setColl d n c).db d' = if d' = d then alUpsert n c (s.db d) else s.db d' := by
  unfold Server.setColl; rw [db_setDb]

theorem coll_touch (s : Server) (d n d' n' : String) :
    (s.setColl d n (s.coll d n)).coll d' n' = s.coll d' n' := by
  rw [coll_setColl]; split
  · rename_i h; rw [h.1, h.2]
  · rfl

theorem db_touchDb (s : Server) (d d' : String) : (s.touchDb d).db d' = s.db d' := by
  unfold Server.touchDb; rw [db_setDb]; split
  · rename_i h; rw [h]
  · rfl

theorem coll_touchDb (s : Server) (d d' n : String) : (s.touchDb d).coll d' n = s.coll d' n := by
  unfold Server.coll; rw [db_touchDb]

theorem coll_dropAll (s : Server) (d d' n : String) :
    (s.setDb d (dropAll (s.db d))).coll d' n =
      if d' = d then (if (s.coll d n).isCreated then Coll.empty else s.coll d n) else s.coll d' n := by
  rw [coll_setDb]
  by_cases hd : d' = d
  · simp only [hd, if_true]
    unfold dropAll
    rw [alGet?_mapVal (fun _ (c : Coll) => if c.isCreated then Coll.empty else c)]
    unfold Server.coll
    cases alGet? n (s.db d) with
    | none => simp [Coll.empty, Coll.isCreated]
    | some c => simp
  · simp [hd]

theorem toS_coll_dropAll (s : Server) (d d' n : String) :
    toS ((s.setDb d (dropAll (s.db d))).coll d' n) = if d' = d then none else toS (s.coll d' n) := by
  rw [coll_dropAll]
  by_cases hd : d' = d
  · simp only [hd, if_true]
    by_cases hc : (s.coll d n).isCreated = true
    · simp [hc, toS_empty]
    · simp [hc]; exact (toS_eq_none_iff _).mpr (by simpa using hc)
  · simp [hd]

theorem coll_renameIn (s : Server) (d n n' d' m : String) :
    (s.setDb d (renameIn (s.db d) n n')).coll d' m =
      if d' = d then (if m = n' then s.coll d n else if m = n then Coll.empty else s.coll d m)
      else s.coll d' m := by
  rw [coll_setDb]
  by_cases hd : d' = d
  · simp only [hd, if_true]
    unfold renameIn
    rw [alGet?_upsert, alGet?_erase]
    by_cases h1 : m = n'
    · simp [h1, Server.coll]
    · by_cases h2 : m = n
      · subst h2; simp [h1]
      · simp [h1, h2, Server.coll]
  · simp [hd]

/-! ### existence stays recorded in every lookup -/

/-- existence is recorded in every collection store of the server -/
def RecS (s : Server) : Prop := ∀ d n, (s.coll d n).recorded = true

theorem recS_nil : RecS [] := by
  intro d n; simp [Server.coll, Server.db, alGet?, recorded_empty]

theorem recS_of_coll {s s' : Server} (h : RecS s) (e : ∀ d n, s'.coll d n = s.coll d n) :
    RecS s' := fun d n => by rw [e]; exact h d n

theorem recS_setColl {s : Server} (h : RecS s) (d n : String) {c : Coll}
    (hc : c.recorded = true) : RecS (s.setColl d n c) := by
  intro d' n'; rw [coll_setColl]; split
  · exact hc
  · exact h d' n'

theorem recS_touchDb {s : Server} (h : RecS s) (d : String) : RecS (s.touchDb d) :=
  recS_of_coll h (fun d' n => coll_touchDb s d d' n)

theorem recS_dropAll {s : Server} (h : RecS s) (d : String) :
    RecS (s.setDb d (dropAll (s.db d))) := by
  intro d' n; rw [coll_dropAll]; split
  · split
    · exact recorded_empty
    · exact h d n
  · exact h d' n

theorem recS_renameIn {s : Server} (h : RecS s) (d n n' : String) :
    RecS (s.setDb d (renameIn (s.db d) n n')) := by
  intro d' m; rw [coll_renameIn]; split
  · split
    · exact h d n
    · split
      · exact recorded_empty
      · exact h d m
  · exact h d' m

theorem recS_renameStep {sv : Server} (h : RecS sv) (d n n' : String) (dt : Bool) :
    RecS (Catalog.renameStep sv d n n' dt).1 := by
  have r1 : RecS (sv.setColl d n (sv.coll d n)) := recS_setColl h d n (h d n)
  have r2 : RecS ((sv.setColl d n (sv.coll d n)).setColl d n'
      ((sv.setColl d n (sv.coll d n)).coll d n')) := recS_setColl r1 d n' (r1 d n')
  have r3 := recS_setColl r2 d n' recorded_empty
  simp only [Catalog.renameStep]
  split
  · exact h
  split
  · exact h
  split
  · exact r1
  · split
    · split
      · exact recS_renameIn r3 d n n'
      · exact r2
    · exact recS_renameIn r2 d n n'

/-! ### listings of the model -/

theorem mem_createdColls {db : DbStore} (h : WFdb db) (n : String) :
    n ∈ createdColls db ↔ ((alGet? n db).getD Coll.empty).isCreated = true := by
  unfold createdColls
  constructor
  · intro hm
    obtain ⟨p, hp, hpn⟩ := List.mem_map.mp hm
    obtain ⟨hp1, hp2⟩ := List.mem_filter.mp hp
    obtain ⟨a, c⟩ := p
    simp at hpn; subst hpn
    rw [alGet?_of_mem h hp1]; simpa using hp2
  · intro hc
    cases hg : alGet? n db with
    | none => rw [hg] at hc; simp [Coll.empty, Coll.isCreated] at hc
    | some c =>
      rw [hg] at hc
      exact List.mem_map.mpr ⟨(n, c), List.mem_filter.mpr ⟨alGet?_mem hg, by simpa using hc⟩, rfl⟩

theorem nodup_createdColls {db : DbStore} (h : WFdb db) : (createdColls db).Nodup := by
  unfold createdColls
  exact h.sublist ((List.filter_sublist (l := db)).map _)

theorem mem_listColls {s : Server} (h : WFs s) (d n : String) :
    n ∈ s.listColls d ↔ (s.coll d n).isCreated = true ∧ isSystem n = false := by
  unfold Server.listColls
  rw [List.mem_filter, mem_createdColls (wfdb_db h d)]
  simp [Server.coll]

theorem nodup_listColls {s : Server} (h : WFs s) (d : String) : (s.listColls d).Nodup :=
  (nodup_createdColls (wfdb_db h d)).filter _

theorem dbCreated_iff {db : DbStore} (h : WFdb db) :
    dbCreated db = true ↔ ∃ n, ((alGet? n db).getD Coll.empty).isCreated = true := by
  unfold dbCreated
  rw [List.any_eq_true]
  constructor
  · rintro ⟨⟨a, c⟩, hp, hc⟩
    exact ⟨a, by rw [alGet?_of_mem h hp]; exact hc⟩
  · rintro ⟨n, hc⟩
    cases hg : alGet? n db with
    | none => rw [hg] at hc; simp [Coll.empty, Coll.isCreated] at hc
    | some c => rw [hg] at hc; exact ⟨(n, c), alGet?_mem hg, hc⟩

theorem mem_listDbs {s : Server} (h : WFs s) (d : String) :
    d ∈ s.listDbs ↔ ∃ n, (s.coll d n).isCreated = true := by
  unfold Server.listDbs
  constructor
  · intro hm
    obtain ⟨p, hp, hpn⟩ := List.mem_map.mp hm
    obtain ⟨hp1, hp2⟩ := List.mem_filter.mp hp
    obtain ⟨a, db⟩ := p
    simp at hpn; subst hpn
    have : s.db a = db := by unfold Server.db; rw [alGet?_of_mem h.1 hp1]; rfl
    unfold Server.coll; rw [this]
    exact (dbCreated_iff (h.2 _ hp1)).mp hp2
  · rintro ⟨n, hc⟩
    cases hg : alGet? d s with
    | none =>
      have : s.db d = [] := by unfold Server.db; rw [hg]; rfl
      unfold Server.coll at hc; rw [this] at hc; simp [alGet?, Coll.empty, Coll.isCreated] at hc
    | some db =>
      have hdb : s.db d = db := by unfold Server.db; rw [hg]; rfl
      refine List.mem_map.mpr ⟨(d, db), List.mem_filter.mpr ⟨alGet?_mem hg, ?_⟩, rfl⟩
      have := (dbCreated_iff (h.2 _ (alGet?_mem hg))).mpr ⟨n, by
        unfold Server.coll at hc; rw [hdb] at hc; exact hc⟩
      simpa using this

theorem nodup_listDbs {s : Server} (h : WFs s) : s.listDbs.Nodup := by
  unfold Server.listDbs
  exact h.1.sublist ((List.filter_sublist (l := s)).map _)

theorem contains_createdColls {s : Server} (h : WFs s) (d n : String) :
    (createdColls (s.db d)).contains n = (s.coll d n).isCreated := by
  have := mem_createdColls (wfdb_db h d) n
  cases hc : (s.coll d n).isCreated
  · cases hx : (createdColls (s.db d)).contains n
    · rfl
    · simp only [List.contains_eq_mem, decide_eq_true_eq] at hx
      have := this.mp hx
      unfold Server.coll at hc; rw [hc] at this; simp at this
  · simp only [List.contains_eq_mem, decide_eq_true_eq]
    exact this.mpr (by unfold Server.coll at hc; exact hc)

theorem mem_listCollsFiltered {s : Server} (h : WFs s) (d : String) (f : NameFilter) (n : String) :
    n ∈ s.listCollsFiltered d f ↔
      (s.coll d n).isCreated = true ∧ f.applies n = true ∧ isSystem n = false := by
  unfold Server.listCollsFiltered
  rw [List.mem_filter, mem_createdColls (wfdb_db h d)]
  simp [Server.coll]

theorem nodup_listCollsFiltered {s : Server} (h : WFs s) (d : String) (f : NameFilter) :
    (s.listCollsFiltered d f).Nodup :=
  (nodup_createdColls (wfdb_db h d)).filter _

/-! ### listings of the oracle -/

theorem mem_dedupNames (l : List String) (a : String) : a ∈ dedupNames l ↔ a ∈ l := by
  induction l with
  | nil => simp [dedupNames]
  | cons b r ih =>
    simp only [dedupNames]
    split
    · rename_i hb
      rw [ih]
      constructor
      · exact List.mem_cons_of_mem _
      · intro h
        rcases List.mem_cons.mp h with h | h
        · rw [h]; simpa using hb
        · exact h
    · simp [ih]

theorem nodup_dedupNames (l : List String) : (dedupNames l).Nodup := by
  induction l with
  | nil => simp [dedupNames]
  | cons b r ih =>
    simp only [dedupNames]
    split
    · exact ih
    · rename_i hb
      refine List.nodup_cons.mpr ⟨?_, ih⟩
      rw [mem_dedupNames]; simpa using hb

theorem mem_slistColls (st : SStore) (d n : String) :
    n ∈ listColls st d ↔ (alGet? (d, n) st).isSome = true ∧ isSystem n = false := by
  unfold listColls
  rw [List.mem_filter, alGet?_isSome_iff]
  simp only [List.mem_map, List.mem_filter, decide_eq_true_eq, Bool.not_eq_eq_eq_not,
    Bool.not_true]
  constructor
  · rintro ⟨⟨⟨a, b⟩, ⟨hk, ha⟩, hb⟩, hs⟩
    simp at ha hb; subst ha; subst hb
    exact ⟨hk, hs⟩
  · rintro ⟨hk, hs⟩
    exact ⟨⟨(d, n), ⟨hk, rfl⟩, rfl⟩, hs⟩

theorem nodup_slistColls {st : SStore} (h : SWF st) (d : String) : (listColls st d).Nodup := by
  unfold listColls
  refine List.Nodup.filter _ ?_
  refine List.Nodup.map_on ?_ (List.Nodup.filter _ h)
  intro x hx y hy hxy
  have hx' := (List.mem_filter.mp hx).2
  have hy' := (List.mem_filter.mp hy).2
  simp at hx' hy'
  exact Prod.ext (hx'.trans hy'.symm) hxy

theorem mem_slistDbs (st : SStore) (d : String) :
    d ∈ listDbs st ↔ ∃ n, (alGet? (d, n) st).isSome = true := by
  unfold listDbs
  rw [mem_dedupNames]
  simp only [alGet?_isSome_iff, List.mem_map]
  constructor
  · rintro ⟨⟨a, b⟩, hk, ha⟩
    simp at ha; subst ha; exact ⟨b, hk⟩
  · rintro ⟨n, hk⟩
    exact ⟨(d, n), hk, rfl⟩

theorem nodup_slistDbs (st : SStore) : (listDbs st).Nodup := nodup_dedupNames _

theorem alGet?_dropDb (st : SStore) (d : String) (k : Ns) :
    alGet? k (dropDb st d) = if k.1 = d then none else alGet? k st := by
  unfold dropDb
  have := alGet?_filter_key (fun (k : Ns) => decide (k.1 ≠ d)) k st
  simp only [decide_eq_true_eq] at this
  rw [this]
  by_cases h : k.1 = d <;> simp [h]

theorem swf_upsert {st : SStore} (h : SWF st) (k : Ns) (c : SColl) : SWF (alUpsert k c st) :=
  nodup_upsert _ _ _ h

theorem swf_erase {st : SStore} (h : SWF st) (k : Ns) : SWF (alErase k st) := nodup_erase _ _ h

theorem swf_setOpt {st : SStore} (h : SWF st) (k : Ns) (o : Option SColl) : SWF (setOpt st k o) := by
  cases o with
  | none => exact swf_erase h k
  | some c => exact swf_upsert h k c

theorem swf_dropDb {st : SStore} (h : SWF st) (d : String) : SWF (dropDb st d) :=
  nodup_filter _ _ h

theorem alGet?_setOpt (st : SStore) (k k' : Ns) (o : Option SColl) :
    alGet? k' (setOpt st k o) = if k' = k then o else alGet? k' st := by
  cases o with
  | none => simp [setOpt, alGet?_erase]
  | some c => simp [setOpt, alGet?_upsert]

end MongoModel.Proofs.C17
