/-
  Proofs.C08Step — a failed single-document write ends in a state "near" the one it started in.
-/
import Proofs.C08Near
import Proofs.C05Inv
namespace MongoModel.Proofs.C08Lemmas
open MongoModel MongoModel.Spec
open MongoModel.Proofs.C05Lemmas (insertDoc_eq insertCore)

/-! ### a rejected insert that had already stored its document met a (unique) index -/

theorem setDoc_indexes (c : Coll) (k d : Val) : (c.setDoc k d).indexes = c.indexes := by
  unfold Coll.setDoc; split <;> rfl

theorem ensureUniques_no_index (now : Int) (c : Coll) (d : Val) (h : c.indexes = []) :
    ensureUniques now c d = .ok c := by
  unfold ensureUniques; rw [h]; rfl

theorem insertCore_reject (now : Int) (c0 : Coll) (fs1 : Fields) (e : Err)
    (h : insertCore now c0 fs1 = .error e)
    (hs : (match storeKey (match patchDT (.doc fs1) with
              | .doc ds => (dget "_id" ds).getD .null | _ => .null), expire now c0 with
            | .ok key, .ok c1 => !c1.hasKey key
            | _, _ => false) = true) : c0.indexes ≠ [] := by
  intro hx
  unfold insertCore at h
  simp only [patchDT, patch, bind, Except.bind, pure, Except.pure] at h hs
  split at hs
  · rename_i key c1 hk he
    rw [hk] at h
    simp only [he] at h
    simp only [Bool.not_eq_true'] at hs
    have hi : (c1.storeDoc key (.doc (patchFields fs1))).indexes = [] := by
      rw [storeDoc_indexes, setDoc_indexes, (expire_fields now c0 c1 he).1, hx]
    rw [hs, ensureUniques_no_index now _ _ hi] at h
    simp at h
  · simp at hs

/-- a rejected insert that got as far as storing its document was rejected by the uniqueness
    check, so the collection has an index -/
theorem stored_reject_has_index (now : Int) (c : Coll) (d : Val) (e : Err)
    (hi : insertDoc now c d = .error e) (hs : insertStored now c d = true) : c.indexes ≠ [] := by
  cases d with
  | doc fs =>
    rw [insertDoc_eq] at hi
    unfold insertStored at hs
    by_cases hh : dhas "_id" fs = true
    · simp only [hh, if_true] at hi hs
      exact insertCore_reject now c fs e hi hs
    · simp only [hh, Bool.false_eq_true, if_false] at hi hs
      exact insertCore_reject now { c with nextOid := c.nextOid + 1 } _ e hi hs
  | _ => simp [insertStored] at hs

theorem near_pre (now : Int) (c c2 : Coll) (spec : Val)
    (h : (do
      let c1 ← expire now c
      if c1.docs.isEmpty then
        let _ ← filterApplies spec (.doc [])
      expire now c1) = Except.ok c2) : Near now c c2 := by
  cases h1 : expire now c with
  | error e => simp [h1, bind, Except.bind] at h
  | ok c1 =>
    simp only [h1, bind, Except.bind] at h
    have n1 : Near now c c1 := (Near.refl now c).expire h1
    split at h
    · split at h
      · cases h
      · exact n1.expire h
    · exact n1.expire h

theorem near_applyUpdate (cfg : Cfg) (now : Int) (c c' : Coll) (f u : Val) (up : Bool) (e : Err)
    (h : applyUpdateColl cfg now c f u up false = (c', .error e)) :
    Near now c c' := by
  unfold applyUpdateColl at h
  extract_lets spec document nowV at h
  clear_value spec document nowV
  split at h
  · rename_i ss dfs
    split at h
    · cases h; exact Near.refl _ _
    · split at h
      · cases h; exact Near.refl _ _
      · rename_i c2 hc2
        have n2 : Near now c c2 := near_pre now c c2 _ hc2
        split at h
        rename_i c3 r hloop
        have hs := updateLoop_single now (Val.doc ss) (Val.doc dfs) nowV c2.docs c2 0 0
        rw [hloop] at hs
        split at h
        · cases h
          rcases hs with hs | ⟨u', hs⟩
          · cases hs; exact n2
          · cases hs
        · split at h
          · cases h
          · rename_i matched updated hup
            have hm : matched = 0 := by
              cases up <;> simp at hup; exact hup
            subst hm
            have h3 : c3 = c2 := by
              rcases hs with hs | ⟨u', hs⟩
              · exact hs
              · simp at hs
            subst h3
            split at h
            rename_i idv c4 hid
            have h4 : Near now c c4 := by
              have : c4 = c3 ∨ c4 = { c3 with nextOid := c3.nextOid + 1 } := by
                repeat' split at hid
                all_goals cases hid
                all_goals simp
              rcases this with rfl | rfl
              · exact n2
              · exact n2.bump _
            cases hb : upsertDoc (Val.doc ss) (Val.doc dfs) nowV ss idv with
            | error e' => rw [hb] at h; cases h; exact h4
            | ok built =>
              rw [hb] at h
              dsimp only at h
              cases hi : insertDoc now c4 built with
              | error e' =>
                rw [hi] at h
                cases h
                exact h4.mark _ (fun hst =>
                  (h4.indexes.1 ▸ stored_reject_has_index now c4 built _ hi hst))
              | ok p => rw [hi] at h; cases h
  · cases h; exact Near.refl _ _

theorem near_delete (now : Int) (c c' : Coll) (f : Val) (multi : Bool) (e : Err)
    (h : deleteColl now c f multi = (c', .error e)) : c' = c := by
  unfold deleteColl at h
  extract_lets filter at h
  clear_value filter
  split at h
  · split at h
    · cases h; rfl
    · cases h
  · cases h; rfl

theorem step_insert_one (cfg : Cfg) (now : Int) (c : Coll) (d : Val) :
    stepColl cfg now c (.arr [.str "insert_one", d]) =
    (match d with
     | .doc _ =>
       (match insertDoc now c d with
        | .ok (c', id) => (c', .val id)
        | .error e => (insertRejected now c d, .err e))
     | _ => (c, .err .typeErr)) := rfl

/-- what a rejected insert leaves is near where it started -/
theorem near_insertRejected (now : Int) (c : Coll) (d : Val) (e : Err)
    (hi : insertDoc now c d = .error e) : Near now c (insertRejected now c d) := by
  have hb := stored_reject_has_index now c d e hi
  unfold insertRejected
  refine Near.mark (Near.expire' ?_) _ hb
  clear hi hb
  split
  · split
    · exact Near.refl _ _
    · exact (Near.refl _ _).bump _
  · exact Near.refl _ _

theorem near_insert_one (cfg : Cfg) (now : Int) (c : Coll) (d : Val)
    (_h : (stepColl cfg now c (.arr [.str "insert_one", d])).2.isErr = true) :
    Near now c (stepColl cfg now c (.arr [.str "insert_one", d])).1 := by
  rw [step_insert_one] at _h ⊢
  split
  · rename_i fs
    cases hi : insertDoc now c (.doc fs) with
    | ok r => simp [hi, Out.isErr] at _h
    | error e => exact near_insertRejected now c _ e hi
  · exact Near.refl _ _

theorem near_update_like (cfg : Cfg) (now : Int) (c : Coll) (f u : Val) (up : Bool) (v : R Unit)
    (_h : (match v with
      | .error e => (c, Out.err e)
      | .ok () =>
        let (c', r) := applyUpdateColl cfg now c f u up false
        (c', match r with | .ok x => Out.val (updateOut x) | .error e => Out.err e)).2.isErr = true) :
    Near now c (match v with
      | .error e => (c, Out.err e)
      | .ok () =>
        let (c', r) := applyUpdateColl cfg now c f u up false
        (c', match r with | .ok x => Out.val (updateOut x) | .error e => Out.err e)).1 := by
  cases v with
  | error e => exact Near.refl _ _
  | ok x =>
    cases ha : applyUpdateColl cfg now c f u up false with
    | mk c' r =>
      cases r with
      | ok x => simp [ha, Out.isErr] at _h
      | error e => simpa [ha] using near_applyUpdate cfg now c c' f u up e ha

theorem near_delete_one (cfg : Cfg) (now : Int) (c : Coll) (f : Val)
    (_h : (stepColl cfg now c (.arr [.str "delete_one", f])).2.isErr = true) :
    Near now c (stepColl cfg now c (.arr [.str "delete_one", f])).1 := by
  have hstep : stepColl cfg now c (.arr [.str "delete_one", f]) =
      ((deleteColl now c f false).1,
        match (deleteColl now c f false).2 with | .ok n => .val (.int n) | .error e => .err e) := rfl
  rw [hstep] at _h ⊢
  cases hd : deleteColl now c f false with
  | mk c' r =>
    cases r with
    | ok n => simp [hd, Out.isErr] at _h
    | error e =>
      have := near_delete now c c' f false e hd
      subst this
      exact Near.refl _ _

/-- every failed single-document write ends near where it started -/
theorem single_fail_near (cfg : Cfg) (now : Int) (c : Coll) (op : Val)
    (hs : singleWrite op = true) (he : (stepColl cfg now c op).2.isErr = true) :
    Near now c (stepColl cfg now c op).1 := by
  unfold singleWrite at hs
  split at hs
  · rename_i k rest
    simp only [Bool.or_eq_true, beq_iff_eq] at hs
    rcases hs with ((rfl | rfl) | rfl) | rfl
    · match rest, he with
      | [], _ => exact Near.refl _ _
      | [d], he => exact near_insert_one cfg now c d he
      | _ :: _ :: _, _ => exact Near.refl _ _
    · match rest, he with
      | [], _ => exact Near.refl _ _
      | [_], _ => exact Near.refl _ _
      | [_, _], _ => exact Near.refl _ _
      | [f, u, up], he => exact near_update_like cfg now c f u (boolOf up) (validateUpdate u) he
      | _ :: _ :: _ :: _ :: _, _ => exact Near.refl _ _
    · match rest, he with
      | [], _ => exact Near.refl _ _
      | [_], _ => exact Near.refl _ _
      | [_, _], _ => exact Near.refl _ _
      | [f, u, up], he => exact near_update_like cfg now c f u (boolOf up) (validateReplace u) he
      | _ :: _ :: _ :: _ :: _, _ => exact Near.refl _ _
    · match rest, he with
      | [], _ => exact Near.refl _ _
      | [f], he => exact near_delete_one cfg now c f he
      | _ :: _ :: _, _ => exact Near.refl _ _
  · cases hs

end MongoModel.Proofs.C08Lemmas
