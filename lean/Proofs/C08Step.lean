/-
  Proofs.C08Step — a failed single-document write ends in a state "near" the one it started in.
-/
import Proofs.C08Near
namespace MongoModel.Proofs.C08Lemmas
open MongoModel MongoModel.Spec

theorem near_pre (now : Int) (c c2 : Coll) (spec : Val)
    (h : (do
      let c1 ← expire now c
      if c1.docs.isEmpty then
        let _ ← filterApplies spec (.doc [])
      expire now c1) = Except.ok c2) : Near now c c2 := by
  cases h1 : expire now c with
  | error e => simp [h1, bind, Except.bind] at h
  | ok c1 =>
    simp only [h1, bind, Except.bind] at h
    have n1 : Near now c c1 := (Near.refl now c).expire h1
    split at h
    · split at h
      · cases h
      · exact n1.expire h
    · exact n1.expire h

theorem near_applyUpdate (cfg : Cfg) (now : Int) (c c' : Coll) (f u : Val) (up : Bool) (e : Err)
    (h : applyUpdateColl cfg now c f u up false = (c', .error e)) :
    Near now c c' := by
  unfold applyUpdateColl at h
  extract_lets spec document nowV at h
  clear_value spec document nowV
  split at h
  · rename_i ss dfs
    split at h
    · cases h; exact Near.refl _ _
    · split at h
      · cases h; exact Near.refl _ _
      · rename_i c2 hc2
        have n2 : Near now c c2 := near_pre now c c2 _ hc2
        split at h
        rename_i c3 r hloop
        have hs := updateLoop_single now (Val.doc ss) (Val.doc dfs) nowV c2.docs c2 0 0
        rw [hloop] at hs
        split at h
        · cases h
          rcases hs with hs | ⟨u', hs⟩
          · cases hs; exact n2
          · cases hs
        · split at h
          · cases h
          · rename_i matched updated hup
            have hm : matched = 0 := by
              cases up <;> simp at hup; exact hup
            subst hm
            have h3 : c3 = c2 := by
              rcases hs with hs | ⟨u', hs⟩
              · exact hs
              · simp at hs
            subst h3
            split at h
            rename_i idv c4 hid
            have h4 : Near now c c4 := by
              have : c4 = c3 ∨ c4 = { c3 with nextOid := c3.nextOid + 1 } := by
                repeat' split at hid
                all_goals cases hid
                all_goals simp
              rcases this with rfl | rfl
              · exact n2
              · exact n2.bump _
            split at h
            · cases h; exact h4
            · cases h
  · cases h; exact Near.refl _ _
theorem near_delete (now : Int) (c c' : Coll) (f : Val) (multi : Bool) (e : Err)
    (h : deleteColl now c f multi = (c', .error e)) : c' = c := by
  unfold deleteColl at h
  extract_lets filter at h
  clear_value filter
  split at h
  · split at h
    · cases h; rfl
    · cases h
  · cases h; rfl

theorem step_insert_one (cfg : Cfg) (now : Int) (c : Coll) (d : Val) :
    stepColl cfg now c (.arr [.str "insert_one", d]) =
    (match d with
     | .doc _ =>
       (match insertDoc now c d with
        | .ok (c', id) => (c', .val id)
        | .error e =>
          let c0 : Coll := match d with
            | .doc fs => if dhas "_id" fs then c else { c with nextOid := c.nextOid + 1 }
            | _ => c
          ((match expire now c0 with | .ok x => x | .error _ => c0), .err e))
     | _ => (c, .err .typeErr)) := rfl

theorem near_insert_one (cfg : Cfg) (now : Int) (c : Coll) (d : Val)
    (_h : (stepColl cfg now c (.arr [.str "insert_one", d])).2.isErr = true) :
    Near now c (stepColl cfg now c (.arr [.str "insert_one", d])).1 := by
  rw [step_insert_one] at _h ⊢
  split
  · rename_i fs
    cases hi : insertDoc now c (.doc fs) with
    | ok r => simp [hi, Out.isErr] at _h
    | error e =>
      dsimp only
      have h0 : Near now c (if dhas "_id" fs = true then c
          else { c with nextOid := c.nextOid + 1 }) := by
        split
        · exact Near.refl _ _
        · exact (Near.refl _ _).bump _
      exact h0.expire'
  · exact Near.refl _ _

theorem near_update_like (cfg : Cfg) (now : Int) (c : Coll) (f u : Val) (up : Bool) (v : R Unit)
    (_h : (match v with
      | .error e => (c, Out.err e)
      | .ok () =>
        let (c', r) := applyUpdateColl cfg now c f u up false
        (c', match r with | .ok x => Out.val (updateOut x) | .error e => Out.err e)).2.isErr = true) :
    Near now c (match v with
      | .error e => (c, Out.err e)
      | .ok () =>
        let (c', r) := applyUpdateColl cfg now c f u up false
        (c', match r with | .ok x => Out.val (updateOut x) | .error e => Out.err e)).1 := by
  cases v with
  | error e => exact Near.refl _ _
  | ok x =>
    cases ha : applyUpdateColl cfg now c f u up false with
    | mk c' r =>
      cases r with
      | ok x => simp [ha, Out.isErr] at _h
      | error e => simpa [ha] using near_applyUpdate cfg now c c' f u up e ha

theorem near_delete_one (cfg : Cfg) (now : Int) (c : Coll) (f : Val)
    (_h : (stepColl cfg now c (.arr [.str "delete_one", f])).2.isErr = true) :
    Near now c (stepColl cfg now c (.arr [.str "delete_one", f])).1 := by
  have hstep : stepColl cfg now c (.arr [.str "delete_one", f]) =
      ((deleteColl now c f false).1,
        match (deleteColl now c f false).2 with | .ok n => .val (.int n) | .error e => .err e) := rfl
  rw [hstep] at _h ⊢
  cases hd : deleteColl now c f false with
  | mk c' r =>
    cases r with
    | ok n => simp [hd, Out.isErr] at _h
    | error e =>
      have := near_delete now c c' f false e hd
      subst this
      exact Near.refl _ _

/-- every failed single-document write ends near where it started -/
theorem single_fail_near (cfg : Cfg) (now : Int) (c : Coll) (op : Val)
    (hs : singleWrite op = true) (he : (stepColl cfg now c op).2.isErr = true) :
    Near now c (stepColl cfg now c op).1 := by
  unfold singleWrite at hs
  split at hs
  · rename_i k rest
    simp only [Bool.or_eq_true, beq_iff_eq] at hs
    rcases hs with ((rfl | rfl) | rfl) | rfl
    · match rest, he with
      | [], _ => exact Near.refl _ _
      | [d], he => exact near_insert_one cfg now c d he
      | _ :: _ :: _, _ => exact Near.refl _ _
    · match rest, he with
      | [], _ => exact Near.refl _ _
      | [_], _ => exact Near.refl _ _
      | [_, _], _ => exact Near.refl _ _
      | [f, u, up], he => exact near_update_like cfg now c f u (boolOf up) (validateUpdate u) he
      | _ :: _ :: _ :: _ :: _, _ => exact Near.refl _ _
    · match rest, he with
      | [], _ => exact Near.refl _ _
      | [_], _ => exact Near.refl _ _
      | [_, _], _ => exact Near.refl _ _
      | [f, u, up], he => exact near_update_like cfg now c f u (boolOf up) (validateReplace u) he
      | _ :: _ :: _ :: _ :: _, _ => exact Near.refl _ _
    · match rest, he with
      | [], _ => exact Near.refl _ _
      | [f], he => exact near_delete_one cfg now c f he
      | _ :: _ :: _, _ => exact Near.refl _ _
  · cases hs

end MongoModel.Proofs.C08Lemmas
