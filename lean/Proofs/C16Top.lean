/-
  Proofs.C16Top — consequences of the invariant of Proofs.C16Inv for whole calls: read-only,
  `$facet` isolation, `$sample`, `$out`.
-/
import Proofs.C16Inv

namespace MongoModel.Proofs.C16
open MongoModel MongoModel.AggHeap

theorem allColls_eq_all (p : Id → Bool) : ∀ l : List (String × List HV),
    allColls p l = l.all (fun nl => allL p nl.2)
  | [] => by simp [allColls]
  | (n, d) :: r => by simp [allColls, allColls_eq_all p r]

/-- the window of the call starts where the copy of the pipeline ends -/
def base (s : State) : Nat := (deepTmp s.pipe 0).2

theorem dr_pipelineCopy : Dr.pipelineCopy = .deep := rfl

/-- `aggregate` starts in a world that satisfies the invariant: the call's copy of the pipeline
    was allocated first, the window of the working documents starts after it -/
theorem world_inv (s : State) (coll : String) (hp : s.persistent = true) :
    WInv (base s) (s.world Dr coll) ∧ (s.world Dr coll).out = [] := by
  simp only [State.persistent, Bool.and_eq_true] at hp
  refine ⟨?_, rfl⟩
  simp only [State.world, dr_source, dr_pipelineCopy, Copy.run, base]
  rw [runL_deep_eq]
  have hc := deepTmpL_win (b := (deepTmp s.pipe 0).2) (getColl coll s.colls) (deepTmp s.pipe 0).2
    (Nat.le_refl _)
  refine ⟨hc.1, hc.2, by simp [allL], ?_, all_mono (notTmp_below _) _ hp.2, ?_, by simp [allLL]⟩
  · rw [allColls_eq_all]; exact hp.1
  · exact all_mono (fun i hi => inR_below i hi) _ (deepTmp_inR s.pipe 0).2

/-- **the caller's pipeline object, every pipeline**: whatever the stages are — `$out` anywhere,
    `$lookup`, `$facet` — the object the caller passed is exactly what it was: the stages work on
    the call's own copy of it, and every in-place write goes to an object of the call -/
theorem aggregateStages_pipe (sem : Sem) (s : State) (coll : String) (stages : List Stage)
    (w : World) (hp : s.persistent = true)
    (h : aggregateStages Dr sem s coll stages = .ok w) : w.pipe = s.pipe := by
  have h0 := world_inv s coll hp
  exact (runStages_step sem stages _ _ w h0.1 h0.2 h).1.kept.pipe

/-- **read-only, all stages**: a pipeline without `$out` leaves every collection, every index
    entry, the store's counter and the caller's pipeline object exactly as they were -/
theorem aggregateStages_readonly (sem : Sem) (s : State) (coll : String) (stages : List Stage)
    (w : World) (hp : s.persistent = true) (hno : noOutStages stages = true)
    (h : aggregateStages Dr sem s coll stages = .ok w) :
    w.colls = s.colls ∧ w.idx = s.idx ∧ w.pipe = s.pipe ∧ w.nextSt = s.nextSt ∧
      allL Id.isTmp w.work = true := by
  have h0 := world_inv s coll hp
  have st := runStages_step sem stages _ _ w h0.1 h0.2 h
  have ss := st.2.2 hno
  exact ⟨ss.colls, ss.idx, st.1.kept.pipe, ss.nextSt,
    allL_mono (fun i hi => inR_isTmp i hi) _ st.1.inv.work⟩

/-! ### `$facet` -/

/-- two lists related element by element -/
inductive All2 {α β : Type} (R : α → β → Prop) : List α → List β → Prop
  | nil : All2 R [] []
  | cons {a : α} {b : β} {l₁ : List α} {l₂ : List β} : R a b → All2 R l₁ l₂ → All2 R (a :: l₁) (b :: l₂)

theorem All2.imp {α β : Type} {R S : α → β → Prop} (h : ∀ a b, R a b → S a b) :
    ∀ {l₁ : List α} {l₂ : List β}, All2 R l₁ l₂ → All2 S l₁ l₂
  | _, _, .nil => .nil
  | _, _, .cons hab r => .cons (h _ _ hab) (All2.imp h r)

theorem All2.length_eq {α β : Type} {R : α → β → Prop} :
    ∀ {l₁ : List α} {l₂ : List β}, All2 R l₁ l₂ → l₁.length = l₂.length
  | _, _, .nil => rfl
  | _, _, .cons _ r => by simp [All2.length_eq r]

/-- `br` run ALONE: on a fresh deep copy of `input` (numbered from some `n`), against the
    collections, catalog and pipeline object of `w`; `stk` is whatever enclosing stages keep alive -/
def BranchAlone (sem : Sem) (w : World) (input : List HV) (br : String × List Stage) (o : List HV) : Prop :=
  ∃ (n : Nat) (stk : List (List HV)) (ws' : World),
    runStages Dr sem { colls := w.colls, idx := w.idx, pipe := w.pipe, cpipe := w.cpipe, stack := stk,
                       work := (deepTmpL input n).1, out := [], nextTmp := (deepTmpL input n).2,
                       nextSt := w.nextSt } br.2 = .ok ws' ∧ o = ws'.work

theorem BranchAlone.congr {sem : Sem} {w v : World} {input : List HV} {br : String × List Stage}
    {o : List HV} (hc : v.colls = w.colls) (hi : v.idx = w.idx) (hp : v.pipe = w.pipe)
    (hq : v.cpipe = w.cpipe)
    (hn : v.nextSt = w.nextSt) (h : BranchAlone sem v input br o) : BranchAlone sem w input br o := by
  obtain ⟨n, stk, ws', h1, h2⟩ := h
  rw [hc, hi, hp, hq, hn] at h1
  exact ⟨n, stk, ws', h1, h2⟩

theorem runBranches_iso (sem : Sem) : ∀ (bs : List (String × List Stage)) (w w' : World)
    (input : List HV) (rest : List (List HV)), Alive w → w.out = [] → w.stack = input :: rest →
    noOutBranches bs = true → runBranches Dr sem w bs = .ok w' →
    All2 (BranchAlone sem w input) bs ((w'.stack.drop 1).take bs.length).reverse
  | [], w, w', input, rest, _, _, _, _, _ => by simp; exact All2.nil
  | (t, sub) :: r, w, w', input, rest, hal, ho, hstk, hno, hs => by
    simp only [noOutBranches, Bool.and_eq_true] at hno
    simp only [runBranches, hstk, dr_facetShares, Bool.not_false, Bool.true_and,
      Bool.false_eq_true, if_false] at hs
    split at hs
    · cases hs
    · rw [runL_deep_eq] at hs
      have hc := deepTmpL_win (b := w.nextTmp) input w.nextTmp (Nat.le_refl _)
      have h0 : WInv w.nextTmp { w with stack := input :: rest, work := (deepTmpL input w.nextTmp).1,
                                        nextTmp := (deepTmpL input w.nextTmp).2 } :=
        ⟨hc.1, hc.2, by rw [ho]; simp [allL], hal.colls, hal.pipe, hal.cpipe, by
          have := hal.stack; rw [hstk] at this; exact this⟩
      split at hs
      · next w1 h1 =>
        have s1 := runStages_step sem sub w.nextTmp _ w1 h0 ho h1
        have ss1 := s1.2.2 hno.1
        have hst1 : w1.stack = input :: rest := s1.1.kept.stack
        rw [hst1] at hs
        simp only at hs
        have hm1 : w.nextTmp ≤ w1.nextTmp := Nat.le_trans hc.1 s1.1.mono
        have hal1 : Alive { w1 with stack := input :: w1.work :: rest } := by
          have hstk0 := hal.stack
          rw [hstk] at hstk0
          simp only [allLL, Bool.and_eq_true] at hstk0
          refine ⟨s1.1.inv.colls, all_mono (below_mono hm1) _ s1.1.inv.pipe,
            all_mono (below_mono hm1) _ s1.1.inv.cpipe, ?_⟩
          simp only [allLL, Bool.and_eq_true]
          exact ⟨allL_mono (below_mono hm1) _ hstk0.1,
            allL_mono (fun i hi => inR_below i hi) _ s1.1.inv.work,
            allLL_mono (below_mono hm1) _ hstk0.2⟩
        have br := (runBranches_step sem r { w1 with stack := input :: w1.work :: rest } w' input
          (w1.work :: rest) hal1 s1.2.1 rfl hs).1
        have ih := runBranches_iso sem r { w1 with stack := input :: w1.work :: rest } w' input
          (w1.work :: rest) hal1 s1.2.1 rfl hno.2 hs
        have ⟨outs, hstk2, hlen, _⟩ := br.stack
        have e1 : (w'.stack.drop 1).take r.length = outs := by rw [hstk2, ← hlen]; simp
        have e2 : (w'.stack.drop 1).take (r.length + 1) = outs ++ [w1.work] := by
          rw [hstk2, ← hlen]; simp [List.take_append]
          exact List.take_of_length_le (Nat.le_succ _)
        rw [e1] at ih
        simp only [List.length_cons]
        rw [e2, List.reverse_append]
        simp only [List.reverse_cons, List.reverse_nil, List.nil_append, List.singleton_append]
        refine All2.cons ?_ (All2.imp (fun a b hab => ?_) ih)
        · rw [ho] at h1
          exact ⟨w.nextTmp, input :: rest, w1, h1, rfl⟩
        · exact BranchAlone.congr (w := w) ss1.colls ss1.idx s1.1.kept.pipe s1.1.kept.cpipe
            ss1.nextSt hab
      · cases hs

/-- **`$facet` isolation**: the stage returns one document `{title_j: outs_j}` where `outs_j` is
    what sub-pipeline `j` returns when run ALONE on a fresh deep copy of the stage's original
    input `w.work`, against the collections and the pipeline object as they were before the stage -/
theorem facet_isolated_stage (sem : Sem) (b : Nat) (w w' : World) (bs : List (String × List Stage))
    (h : WInv b w) (ho : w.out = []) (hno : noOutBranches bs = true)
    (hs : runStage Dr sem w (.facet bs) = .ok w') :
    ∃ (n : Nat) (outs : List (List HV)), w'.work = [facetDoc n (bs.map (·.1)) outs] ∧
      All2 (BranchAlone sem w w.work) bs outs := by
  simp only [runStage] at hs
  split at hs
  · next w2 hr =>
    cases hs
    have hal : Alive { w with stack := w.work :: w.stack } :=
      ⟨h.colls, all_mono (below_mono h.hb) _ h.pipe, all_mono (below_mono h.hb) _ h.cpipe, by
        simp only [allLL, Bool.and_eq_true]
        exact ⟨allL_mono (fun i hi => inR_below i hi) _ h.work, allLL_mono (below_mono h.hb) _ h.stack⟩⟩
    have iso := runBranches_iso sem bs { w with stack := w.work :: w.stack } w2 w.work w.stack
      hal ho rfl hno hr
    exact ⟨w2.nextTmp, _, rfl, All2.imp
      (fun a b hab => BranchAlone.congr (w := w) rfl rfl rfl rfl rfl hab) iso⟩
  · cases hs

/-! ### `$sample` -/

theorem pick_perm (l : List HV) {a b : List Nat} (h : a.Perm b) : (pick l a).Perm (pick l b) := by
  induction h with
  | nil => exact List.Perm.refl _
  | cons x _ ih =>
    cases h1 : l[x]? <;> simp only [pick, h1]
    · exact ih
    · exact ih.cons _
  | swap x y l' =>
    cases h1 : l[x]? <;> cases h2 : l[y]? <;> simp only [pick, h1, h2] <;>
      first | exact List.Perm.refl _ | exact List.Perm.swap _ _ _
  | trans _ _ ih1 ih2 => exact ih1.trans ih2

theorem pick_range' : ∀ (l pre : List HV), pick (pre ++ l) (List.range' pre.length l.length) = l
  | [], pre => by simp [pick]
  | x :: r, pre => by
    have hx : (pre ++ x :: r)[pre.length]? = some x := by simp
    have ih := pick_range' r (pre ++ [x])
    simp only [List.append_assoc, List.singleton_append, List.length_append, List.length_singleton] at ih
    simp only [List.length_cons, List.range'_succ, pick, hx, ih]

theorem pick_range (l : List HV) : pick l (List.range l.length) = l := by
  have := pick_range' l []
  simpa [List.range_eq_range'] using this

/-- `a` is a sub-multiset of `b`: a sub-list of a rearrangement of `b` -/
def SubMultiset {α : Type} (a b : List α) : Prop := ∃ l : List α, l.Perm b ∧ a.Sublist l

/-- **`$sample`** returns a sub-multiset of its input of size `min size |input|`, and touches
    nothing else (whatever permutation the shuffle draws) -/
theorem sample_stage (sem : Sem) (w w' : World) (loc : List Nat)
    (hperm : ∀ n, (sem.shuffle n).Perm (List.range n))
    (hs : runStage Dr sem w (.sample loc) = .ok w') :
    SubMultiset w'.work w.work ∧ w' = { w with work := w'.work } ∧
      ∃ (id : Id) (kids : Kids) (n : Int), subAt loc w.cpipe = some (.node id true kids) ∧
        kget "size" kids = some (.atom (.int n)) ∧ w'.work.length = min n.toNat w.work.length := by
  simp only [runStage, sampleStage, dr_samplePops, Bool.false_eq_true, if_false] at hs
  split at hs
  · next id kids hsub =>
    split at hs
    · next n hk =>
      split at hs
      · split at hs
        · cases hs
        · cases hs
          have hp : (pick w.work (sem.shuffle w.work.length)).Perm w.work := by
            have := pick_perm w.work (hperm w.work.length)
            rwa [pick_range] at this
          refine ⟨?_, rfl, id, kids, n, hsub, hk, ?_⟩
          · exact ⟨_, hp, List.take_sublist _ _⟩
          · simp only [List.length_take, hp.length_eq]
      · cases hs
    · cases hs
    · cases hs
    · cases hs
  · cases hs

/-! ### `$out` -/

theorem runStages_append (D : Disc) (sem : Sem) : ∀ (a c : List Stage) (w : World),
    runStages D sem w (a ++ c) = (runStages D sem w a).bind (fun w1 => runStages D sem w1 c)
  | [], c, w => by simp [runStages, Except.bind]
  | s :: a, c, w => by
    simp only [List.cons_append, runStages]
    cases runStage D sem w s with
    | error e => simp [Except.bind]
    | ok w1 => simp only [runStages_append D sem a c w1]

/-! ### `$out`: the target holds exactly the output -/

mutual
  theorem deepSt_toVal : ∀ (v : HV) (n : Nat), (deepSt v n).1.toVal = v.toVal
    | .atom _, _ => by simp [deepSt]
    | .node _ true kids, n => by
      simp only [deepSt, HV.toVal]; rw [(deepStKids_toVal kids (n + 1)).1]
    | .node _ false kids, n => by
      simp only [deepSt, HV.toVal]; rw [(deepStKids_toVal kids (n + 1)).2]
  theorem deepStKids_toVal : ∀ (ks : Kids) (n : Nat),
      toFields (deepStKids ks n).1 = toFields ks ∧ toList (deepStKids ks n).1 = toList ks
    | [], _ => by simp [deepStKids]
    | (k, v) :: r, n => by
      simp only [deepStKids, toFields, toList]
      rw [deepSt_toVal v n, (deepStKids_toVal r _).1, (deepStKids_toVal r _).2]
      exact ⟨rfl, rfl⟩
end

theorem toVals_append : ∀ a b : List HV, toVals (a ++ b) = toVals a ++ toVals b
  | [], b => by simp [toVals]
  | x :: r, b => by simp [toVals, toVals_append r b]

theorem getColl_setColl_same (t : String) (docs : List HV) : ∀ c : List (String × List HV),
    getColl t (setColl t docs c) = docs
  | [] => by simp [setColl, getColl]
  | (n, l) :: r => by
    simp only [setColl]
    split
    · next h => simp [getColl, h]
    · next h => simp [getColl, h, getColl_setColl_same t docs r]

theorem getColl_setColl_other (t x : String) (docs : List HV) (hx : x ≠ t) :
    ∀ c : List (String × List HV), getColl x (setColl t docs c) = getColl x c
  | [] => by simp [setColl, getColl, Ne.symm hx]
  | (n, l) :: r => by
    simp only [setColl]
    split
    · next h => subst h; simp [getColl, Ne.symm hx]
    · next h =>
      simp only [getColl]
      split
      · rfl
      · exact getColl_setColl_other t x docs hx r

theorem drop_of_getElem? {α : Type} : ∀ (l : List α) (j : Nat) (x : α), l[j]? = some x →
    l.drop j = x :: l.drop (j + 1)
  | [], _, _, h => by simp at h
  | a :: r, 0, x, h => by simp at h; simp [h]
  | a :: r, j + 1, x, h => by
    simp at h
    simpa using drop_of_getElem? r j x h

theorem dr_outStores : Dr.outStores = .deep := rfl

theorem outInsert_haveId (sem : Sem) (target : String) :
    ∀ (fuel : Nat) (w : World) (j : Nat) (w' : World), allHaveId w.work = true →
      w.work.length ≤ fuel + j → outInsert Dr sem target w fuel j = (w', none) →
      w'.work = w.work ∧ w'.pipe = w.pipe ∧ w'.idx = w.idx ∧
      (∀ c, c ≠ target → getColl c w'.colls = getColl c w.colls) ∧
      toVals (getColl target w'.colls) = toVals (getColl target w.colls) ++ toVals (w.work.drop j)
  | 0, w, j, w', _, hl, hs => by
    simp only [outInsert] at hs
    cases hs
    have : w.work.drop j = [] := List.drop_eq_nil_of_le (by omega)
    simp [this, toVals]
  | fuel + 1, w, j, w', ha, hl, hs => by
    simp only [outInsert] at hs
    split at hs
    · next hn =>
      cases hs
      have : w.work.drop j = [] := by
        apply List.drop_eq_nil_of_le
        exact List.getElem?_eq_none_iff.mp hn
      simp [this, toVals]
    · next doc hd =>
      have hdoc : doc.hasId = true := by
        have ha' := ha
        simp only [allHaveId, List.all_eq_true] at ha'
        exact ha' doc (List.mem_of_getElem? hd)
      split at hs
      · next id kids =>
        simp only [HV.hasId] at hdoc
        simp only [hdoc, if_true, hd, dr_outStores] at hs
        split at hs
        · cases hs
        · have ih := outInsert_haveId sem target fuel _ (j + 1) w' (by exact ha) (by simp only; omega) hs
          refine ⟨ih.1, ih.2.1, ih.2.2.1, fun c hc => ?_, ?_⟩
          · rw [ih.2.2.2.1 c hc]; exact getColl_setColl_other target c _ hc _
          · rw [ih.2.2.2.2]
            simp only [getColl_setColl_same, toVals_append, toVals, deepSt_toVal]
            rw [drop_of_getElem? w.work j _ hd]
            simp [toVals]
      · cases hs

/-- **`$out`** on documents that carry their `_id`: the target collection holds exactly the
    stage's input (as values, in order), every other collection is untouched, and the stage hands
    its input on — the same objects -/
theorem outStage_replaces (sem : Sem) (target : String) (w w' : World)
    (ha : allHaveId w.work = true) (hs : outStage Dr sem target w = .ok w') :
    w'.work = w.work ∧ toVals (getColl target w'.colls) = toVals w.work ∧
      ∀ c, c ≠ target → getColl c w'.colls = getColl c w.colls := by
  simp only [outStage] at hs
  split at hs
  · next w1 he =>
    cases hs
    simp only [outStageW] at he
    split at he
    · next hemp =>
      have h := outInsert_haveId sem target _ w 0 w' ha (by omega) he
      have h0 : getColl target w.colls = [] := List.isEmpty_iff.mp hemp
      refine ⟨h.1, ?_, h.2.2.2.1⟩
      rw [h.2.2.2.2, h0]; simp [toVals]
    · have h := outInsert_haveId sem target _
        { w with colls := setColl target [] w.colls, idx := dropIdx target w.idx } 0 w' ha
        (by simp only; omega) he
      refine ⟨h.1, ?_, fun c hc => ?_⟩
      · rw [h.2.2.2.2]; simp [getColl_setColl_same, toVals]
      · rw [h.2.2.2.1 c hc]; exact getColl_setColl_other target c [] hc _
  · cases hs

theorem aggregateStages_out_split (sem : Sem) (s : State) (coll target : String) (pre : List Stage)
    (w' : World) (h : aggregateStages Dr sem s coll (pre ++ [.out target]) = .ok w') :
    ∃ w, aggregateStages Dr sem s coll pre = .ok w ∧ outStage Dr sem target w = .ok w' := by
  simp only [aggregateStages] at h ⊢
  rw [runStages_append] at h
  cases h1 : runStages Dr sem (s.world Dr coll) pre with
  | error e => simp [h1, Except.bind] at h
  | ok w1 =>
    simp only [h1, Except.bind, runStages, runStage] at h
    refine ⟨w1, rfl, ?_⟩
    split at h
    · next w2 h2 => cases h; exact h2
    · cases h

/-! ### stages that write into nothing that was there before

  No invariant is needed here: these stages contain no in-place write at all, so EVERYTHING the
  world keeps alive — collections, catalog, the caller's pipeline object, and every list on the
  stack, in particular the stage's own input when the caller keeps it — is literally unchanged.
  The two facts about the discipline this rests on: `$sample` does not pop (`samplePops = false`)
  and `$addFields` copies every level of a dotted name (`addFieldsNested = .shallow`). -/

theorem setOut_same (D : Disc) (h2 : D.addFieldsNested = .shallow) (w : World) (j : Nat)
    (path : List String) (v : HV) (w' : World) (hs : setOut D w j path v = .ok w') :
    Same w w' ∧ w'.work = w.work := by
  simp only [setOut, h2] at hs
  split at hs
  · cases hs; exact ⟨⟨rfl, rfl, rfl, rfl, rfl, rfl⟩, rfl⟩
  · cases hs; exact ⟨Same.rfl' w, rfl⟩

theorem addField_same (D : Disc) (h2 : D.addFieldsNested = .shallow) (path : List String) (e : AExpr) :
    ∀ (fuel : Nat) (w : World) (j : Nat) (w' : World),
      addField D w path e fuel j = .ok w' → Same w w' ∧ w'.work = w.work
  | 0, w, j, w', hs => by simp only [addField] at hs; cases hs; exact ⟨Same.rfl' w, rfl⟩
  | fuel + 1, w, j, w', hs => by
    simp only [addField] at hs
    split at hs
    · cases hs; exact ⟨Same.rfl' w, rfl⟩
    · split at hs
      · cases hs
      · have ih := addField_same D h2 path e fuel _ (j + 1) w' hs
        exact ⟨⟨ih.1.colls, ih.1.idx, ih.1.pipe, ih.1.cpipe, ih.1.stack, ih.1.nextSt⟩, ih.2⟩
      · split at hs
        · next w1 hso =>
          have h1 := setOut_same D h2 _ j path _ w1 hso
          have ih := addField_same D h2 path e fuel w1 (j + 1) w' hs
          exact ⟨⟨ih.1.colls.trans h1.1.colls, ih.1.idx.trans h1.1.idx, ih.1.pipe.trans h1.1.pipe,
            ih.1.cpipe.trans h1.1.cpipe, ih.1.stack.trans h1.1.stack, ih.1.nextSt.trans h1.1.nextSt⟩,
            ih.2.trans h1.2⟩
        · cases hs

theorem addFieldsAll_same (D : Disc) (h2 : D.addFieldsNested = .shallow) :
    ∀ (fields : List (String × AExpr)) (w w' : World),
      addFieldsAll D w fields = .ok w' → Same w w' ∧ w'.work = w.work
  | [], w, w', hs => by simp only [addFieldsAll] at hs; cases hs; exact ⟨Same.rfl' w, rfl⟩
  | (f, e) :: r, w, w', hs => by
    simp only [addFieldsAll] at hs
    split at hs
    · next w1 h1 =>
      have s1 := addField_same D h2 (splitDots f) e _ w 0 w1 h1
      have s2 := addFieldsAll_same D h2 r w1 w' hs
      exact ⟨s1.1.trans s2.1, s2.2.trans s1.2⟩
    · cases hs

/-- **a stage of the class `Stage.pure` performs no in-place write**: in ANY world, whatever it
    holds and whoever shares objects with the documents the stage is handed -/
theorem runStage_pure_same (D : Disc) (h1 : D.samplePops = false) (h2 : D.addFieldsNested = .shallow)
    (sem : Sem) : ∀ (st : Stage) (w w' : World), st.pure = true → runStage D sem w st = .ok w' →
      Same w w' ∧ (w.out = [] → w'.out = [])
  | .select op opts, w, w', _, hs => by
    simp only [runStage] at hs
    split at hs
    · cases hs; exact ⟨⟨rfl, rfl, rfl, rfl, rfl, rfl⟩, id⟩
    · cases hs
  | .sample loc, w, w', _, hs => by
    simp only [runStage, sampleStage, h1, Bool.false_eq_true, if_false] at hs
    split at hs
    · split at hs
      · split at hs
        · split at hs
          · cases hs
          · cases hs; exact ⟨⟨rfl, rfl, rfl, rfl, rfl, rfl⟩, id⟩
        · cases hs
      · cases hs
      · cases hs
      · cases hs
    · cases hs
  | .addFields fields, w, w', _, hs => by
    simp only [runStage] at hs
    split at hs
    · cases hs
    · split at hs
      · next w1 ha =>
        cases hs
        have s1 := addFieldsAll_same D h2 fields _ w1 ha
        exact ⟨⟨s1.1.colls, s1.1.idx, s1.1.pipe, s1.1.cpipe, s1.1.stack, s1.1.nextSt⟩, fun _ => rfl⟩
      · cases hs
  | .project noId incl computed, w, w', _, hs => by
    simp only [runStage] at hs
    split at hs
    · cases hs; exact ⟨⟨rfl, rfl, rfl, rfl, rfl, rfl⟩, id⟩
    · cases hs
  | .unwind key preserve idx, w, w', _, hs => by
    simp only [runStage] at hs
    split at hs
    · cases hs
    · split at hs
      · cases hs
      · split at hs
        · cases hs
        · cases hs; exact ⟨⟨rfl, rfl, rfl, rfl, rfl, rfl⟩, id⟩
  | .replaceRoot e, w, w', _, hs => by
    simp only [runStage] at hs
    split at hs
    · cases hs; exact ⟨⟨rfl, rfl, rfl, rfl, rfl, rfl⟩, id⟩
    · cases hs
  | .count name, w, w', _, hs => by
    simp only [runStage] at hs
    split at hs
    · cases hs; exact ⟨⟨rfl, rfl, rfl, rfl, rfl, rfl⟩, id⟩
    · cases hs; exact ⟨⟨rfl, rfl, rfl, rfl, rfl, rfl⟩, id⟩
  | .lookup .., _, _, hp, _ => by simp [Stage.pure] at hp
  | .facet .., _, _, hp, _ => by simp [Stage.pure] at hp
  | .out .., _, _, hp, _ => by simp [Stage.pure] at hp
  | .fail .., _, _, hp, _ => by simp [Stage.pure] at hp

theorem runStages_pure_same (D : Disc) (h1 : D.samplePops = false) (h2 : D.addFieldsNested = .shallow)
    (sem : Sem) : ∀ (ss : List Stage) (w w' : World), pureStages ss = true →
      runStages D sem w ss = .ok w' → Same w w' ∧ (w.out = [] → w'.out = [])
  | [], w, w', _, hs => by simp only [runStages] at hs; cases hs; exact ⟨Same.rfl' w, id⟩
  | st :: r, w, w', hp, hs => by
    simp only [pureStages, List.all_cons, Bool.and_eq_true] at hp
    simp only [runStages] at hs
    split at hs
    · next w1 hw1 =>
      have s1 := runStage_pure_same D h1 h2 sem st w w1 hp.1 hw1
      have s2 := runStages_pure_same D h1 h2 sem r w1 w' (by simpa [pureStages] using hp.2) hs
      exact ⟨s1.1.trans s2.1, fun ho => s2.2 (s1.2 ho)⟩
    · cases hs

/-! ### `$facet` WITHOUT the per-branch copy, for sub-pipelines of non-writing stages -/

/-- `br` run alone on the list `input` ITSELF (the very objects the stage was handed), against
    the collections, catalog and pipeline object of `w` -/
def BranchShared (D : Disc) (sem : Sem) (w : World) (input : List HV) (br : String × List Stage)
    (o : List HV) : Prop :=
  ∃ (n : Nat) (stk : List (List HV)) (ws' : World),
    runStages D sem { colls := w.colls, idx := w.idx, pipe := w.pipe, cpipe := w.cpipe, stack := stk,
                      work := input, out := [], nextTmp := n, nextSt := w.nextSt } br.2 = .ok ws' ∧
      o = ws'.work

theorem BranchShared.congr {D : Disc} {sem : Sem} {w v : World} {input : List HV}
    {br : String × List Stage} {o : List HV} (hc : v.colls = w.colls) (hi : v.idx = w.idx)
    (hp : v.pipe = w.pipe) (hq : v.cpipe = w.cpipe) (hn : v.nextSt = w.nextSt)
    (h : BranchShared D sem v input br o) : BranchShared D sem w input br o := by
  obtain ⟨n, stk, ws', h1, h2⟩ := h
  rw [hc, hi, hp, hq, hn] at h1
  exact ⟨n, stk, ws', h1, h2⟩

/-- under a discipline that hands ONE list to all sub-pipelines, sub-pipelines of non-writing
    stages still all see the stage's input as it was: nobody writes into it -/
theorem runBranches_shared_iso (D : Disc) (h1 : D.samplePops = false)
    (h2 : D.addFieldsNested = .shallow) (h3 : D.facetSharesInput = true) (sem : Sem) :
    ∀ (bs : List (String × List Stage)) (w w' : World) (input : List HV) (rest : List (List HV)),
      w.out = [] → w.stack = input :: rest → pureBranches bs = true →
      runBranches D sem w bs = .ok w' →
      (w'.colls = w.colls ∧ w'.idx = w.idx ∧ w'.pipe = w.pipe ∧ w'.cpipe = w.cpipe ∧
        w'.nextSt = w.nextSt ∧ w'.out = []) ∧
      ∃ outs : List (List HV), w'.stack = input :: (outs ++ rest) ∧ outs.length = bs.length ∧
        All2 (BranchShared D sem w input) bs outs.reverse
  | [], w, w', input, rest, ho, hstk, _, hs => by
    simp only [runBranches] at hs; cases hs
    exact ⟨⟨rfl, rfl, rfl, rfl, rfl, ho⟩, [], by simpa using hstk, rfl, All2.nil⟩
  | (t, sub) :: r, w, w', input, rest, ho, hstk, hp, hs => by
    simp only [pureBranches, List.all_cons, Bool.and_eq_true] at hp
    simp only [runBranches, hstk, h3, Bool.not_true, Bool.false_and, Bool.false_eq_true, if_false,
      if_true] at hs
    split at hs
    · next w1 hw1 =>
      have s1 := runStages_pure_same D h1 h2 sem sub _ w1 hp.1 hw1
      have hst1 : w1.stack = input :: rest := s1.1.stack
      rw [hst1] at hs
      simp only at hs
      have ih := runBranches_shared_iso D h1 h2 h3 sem r { w1 with stack := input :: w1.work :: rest } w'
        input (w1.work :: rest) (s1.2 ho) rfl (by simpa [pureBranches] using hp.2) hs
      obtain ⟨⟨ic, ii, ip, iq, in_, io⟩, outs, hstk2, hlen, hall⟩ := ih
      refine ⟨⟨ic.trans s1.1.colls, ii.trans s1.1.idx, ip.trans s1.1.pipe, iq.trans s1.1.cpipe,
        in_.trans s1.1.nextSt, io⟩,
        outs ++ [w1.work], by rw [hstk2]; simp, by simp [hlen], ?_⟩
      rw [List.reverse_append]
      simp only [List.reverse_cons, List.reverse_nil, List.nil_append, List.singleton_append]
      refine All2.cons ?_ (All2.imp (fun a b hab => ?_) hall)
      · rw [ho] at hw1
        exact ⟨w.nextTmp, input :: rest, w1, hw1, rfl⟩
      · exact BranchShared.congr (w := w) s1.1.colls s1.1.idx s1.1.pipe s1.1.cpipe s1.1.nextSt hab
    · cases hs

/-- **`$facet` isolation by the stages' own discipline**: when every sub-pipeline consists of
    non-writing stages, the outputs are those of the sub-pipelines run alone on the stage's input
    itself — even under a discipline that hands all of them the same list — and the stage as a
    whole has written into nothing -/
theorem facet_shared_isolated_stage (D : Disc) (h1 : D.samplePops = false)
    (h2 : D.addFieldsNested = .shallow) (h3 : D.facetSharesInput = true) (sem : Sem) (w w' : World)
    (bs : List (String × List Stage)) (ho : w.out = []) (hp : pureBranches bs = true)
    (hs : runStage D sem w (.facet bs) = .ok w') :
    Same w w' ∧ ∃ (n : Nat) (outs : List (List HV)), w'.work = [facetDoc n (bs.map (·.1)) outs] ∧
      All2 (BranchShared D sem w w.work) bs outs := by
  simp only [runStage] at hs
  split at hs
  · next w2 hr =>
    cases hs
    have iso := runBranches_shared_iso D h1 h2 h3 sem bs { w with stack := w.work :: w.stack } w2
      w.work w.stack ho rfl hp hr
    obtain ⟨⟨ic, ii, ip, iq, in_, _⟩, outs, hstk, hlen, hall⟩ := iso
    have hdrop : w2.stack.drop (1 + bs.length) = w.stack := by
      rw [hstk, ← hlen, Nat.add_comm]; simp
    have htake : (w2.stack.drop 1).take bs.length = outs := by
      rw [hstk, ← hlen]; simp
    refine ⟨⟨ic, ii, ip, iq, hdrop, in_⟩, w2.nextTmp, _, rfl, ?_⟩
    rw [htake]
    exact All2.imp (fun a b hab => BranchShared.congr (w := w) rfl rfl rfl rfl rfl hab) hall
  · cases hs

/-! ### `tz_aware`: the results are handed out as a rebuild -/

theorem dr_resultCopy : Dr.resultCopy = .deep := rfl

theorem deepTmpL_toVals : ∀ (l : List HV) (n : Nat), toVals (deepTmpL l n).1 = toVals l
  | [], _ => by simp [deepTmpL, toVals]
  | v :: r, n => by simp [deepTmpL, toVals, deepTmp_toVal, deepTmpL_toVals r]

/-- the documents a `tz_aware` call hands out are made of objects allocated after every stage
    has finished — in ANY world — and equal the working documents as values -/
theorem handOut_tz (w : World) :
    allL (inR w.nextTmp (deepTmpL w.work w.nextTmp).2) (handOut Dr true w) = true ∧
    toVals (handOut Dr true w) = toVals w.work := by
  simp only [handOut, dr_resultCopy, if_true]
  rw [runL_deep_eq]
  exact ⟨(deepTmpL_win (b := w.nextTmp) w.work w.nextTmp (Nat.le_refl _)).2, deepTmpL_toVals _ _⟩

/-- the state a call leaves does not depend on `tz_aware` -/
theorem aggregateTz_state (D : Disc) (sem : Sem) (tz : Bool) (s s' : State) (coll : String)
    (out : List HV) (h : aggregateTz D sem tz s coll = .ok (out, s')) :
    ∃ w, aggregateStages D sem s coll (parsePipe s.pipe) = .ok w ∧ out = handOut D tz w ∧
      s' = w.state ∧ aggregate D sem s coll = .ok (w.work, s') := by
  simp only [aggregateTz] at h
  split at h
  · next w hw =>
    cases h
    exact ⟨w, hw, rfl, rfl, by simp [aggregate, aggregateStages, hw]⟩
  · cases h

/-- everything the call holds when its stages have finished lies below the counter: the window
    of the rebuilt results is disjoint from all of it -/
theorem aggregateStages_below (sem : Sem) (s : State) (coll : String) (stages : List Stage)
    (w : World) (hp : s.persistent = true)
    (h : aggregateStages Dr sem s coll stages = .ok w) :
    allL (below w.nextTmp) w.work = true ∧ allColls (below w.nextTmp) w.colls = true ∧
      w.pipe.all (below w.nextTmp) = true ∧ w.cpipe.all (below w.nextTmp) = true := by
  have h0 := world_inv s coll hp
  have st := (runStages_step sem stages _ _ w h0.1 h0.2 h).1.inv
  exact ⟨allL_mono (fun i hi => inR_below i hi) _ st.work,
    allColls_mono (fun i hi => notTmp_below _ i hi) _ st.colls,
    all_mono (below_mono st.hb) _ st.pipe, all_mono (below_mono st.hb) _ st.cpipe⟩

end MongoModel.Proofs.C16
