/-
  Proofs.C05Step — the (weak) invariant through every operation of `stepColl` / `step` / `run`.
-/
import Proofs.C05Loop

set_option linter.unusedSimpArgs false
set_option linter.unusedVariables false

namespace MongoModel.Proofs.C05Lemmas
open MongoModel MongoModel.Spec

theorem WInv.of_docs {c c' : Coll} (h : c'.docs = c.docs) (hi : WInv c) : WInv c' := by
  unfold WInv KeysDistinct at *; rw [h]; exact hi

/-- what the update loop needs of the collection it starts from -/
def UpdOK (c : Coll) : Prop := ∀ p ∈ c.docs, SymmVal p.1 ∧ TopOK p.2

theorem entU_init {c : Coll} (hi : IdInv c) (hg : UpdOK c) : ∀ q ∈ c.docs, EntU c q := by
  intro q hq
  obtain ⟨id, hid, hk⟩ := hi.2 q hq
  refine ⟨(hg q hq).1, (hg q hq).2, ⟨id, hid, hk⟩, q, hq, rfl, ?_⟩
  simp only [hid, pyEqOpt]
  have hs : SymmVal id := symm_closed (hg q hq).1 hk
  exact pyEq_trans _ _ _ (by rw [hs q.1]; exact hk) hk

theorem applyUpdateColl_winv (cfg : Cfg) (now : Int) (c : Coll) (f u : Val) (upsert multi : Bool)
    (hi : IdInv c) (hg : UpdOK c) : WInv (applyUpdateColl cfg now c f u upsert multi).1 := by
  cases hx : applyUpdateColl cfg now c f u upsert multi with
  | mk c' r =>
    obtain ⟨c3, h1, h2, h3⟩ := applyUpdateColl_spec cfg now c f u upsert multi c' r hx (entU_init hi hg)
    have w3 : WInv c3 := ⟨h2.keysDistinct hi.1, fun q hq => (h1 q hq).2.2.1.toW⟩
    rcases h3 with h3 | ⟨c4, built, c5, id, h4, h5, h6, _⟩
    · exact w3.of_docs h3
    · exact (insertDoc_winv now c4 built c5 id h5 (w3.of_docs h4)).of_docs h6

theorem insertManyLoop_winv (now : Int) (ordered : Bool) :
    ∀ (ds : List Val) (idx : Nat) (c : Coll) (ids errs : List Val) (n : Nat), WInv c →
      WInv (insertManyLoop now ordered ds idx c ids errs n).1 := by
  intro ds
  induction ds with
  | nil =>
    intro idx c ids errs n hi
    simp only [insertManyLoop, insertManyDone]
    split <;> exact hi
  | cons d rest ih =>
    intro idx c ids errs n hi
    unfold insertManyLoop
    split
    · rename_i c' id h
      exact ih _ _ _ _ _ (insertDoc_winv now c d c' id h hi)
    · rename_i e h
      have hr := WInv.sub (rejected_sub now c d) hi
      simp only
      split
      · split
        · simp only [insertManyDone]; split <;> exact hr
        · exact ih _ _ _ _ _ hr
      · exact hr

theorem stepColl_winv (cfg : Cfg) (now : Int) (c : Coll) (op : Val)
    (hi : IdInv c) (hg : UpdOK c) : WInv (stepColl cfg now c op).1 := by
  have hw : WInv c := IdInv.toW hi
  unfold stepColl
  split
  · -- insert_one
    split
    · split
      · rename_i c' id h
        exact insertDoc_winv now c _ c' id h hw
      · refine WInv.sub (c := c) ?_ hw
        exact rejected_sub now c (.doc _)
    · exact hw
  · -- insert_many
    split
    · exact hw
    · split
      · exact hw
      · exact insertManyLoop_winv now _ _ _ _ _ _ _ hw
  · split
    · exact hw
    · exact applyUpdateColl_winv cfg now c _ _ _ _ hi hg
  · split
    · exact hw
    · exact applyUpdateColl_winv cfg now c _ _ _ _ hi hg
  · split
    · exact hw
    · exact applyUpdateColl_winv cfg now c _ _ _ _ hi hg
  · exact WInv.sub (deleteColl_sub now c _ _) hw
  · exact WInv.sub (deleteColl_sub now c _ _) hw
  · exact WInv.sub (findColl_sub now c _) hw
  · exact WInv.sub (countColl_sub now c _ _ _) hw
  · exact WInv.sub (distinctColl_sub now c _ _) hw
  · split
    · exact hw
    · exact WInv.sub (createIndexColl_sub now c _) hw
  · exact WInv.sub (dropIndexColl_sub now c _) hw
  · exact WInv.sub (dropIndexesColl_sub c) hw
  · exact WInv.sub (dropColl_sub c) hw
  · exact hw

theorem step_winv (cfg : Cfg) (s : St) (op : Val) (hi : IdInv s.c) (hg : UpdOK s.c) :
    WInv (step cfg s op).1.c := by
  unfold step
  split
  · exact IdInv.toW hi
  · exact stepColl_winv cfg s.now s.c op hi hg

theorem observe_sub (s : St) : Sub (observe s).1.c s.c := by
  unfold observe
  split
  · rename_i c' h; exact expire_sub _ _ _ h
  · exact Sub.refl _

/-- the state component of `run` -/
def runSt (cfg : Cfg) (ops : List Val) (s : St) : St :=
  ops.foldl (fun s op => (observe (step cfg s op).1).1) s

theorem run_snd (cfg : Cfg) (ops : List Val) (s : St) : (run cfg ops s).2 = runSt cfg ops s := by
  unfold run runSt
  have : ∀ (ops : List Val) (acc : List (Out × Val)) (s : St),
      (ops.foldl (fun (acc : List (Out × Val) × St) op =>
        let (s1, out) := step cfg acc.2 op
        let (s2, obs) := observe s1
        (acc.1 ++ [(out, obs)], s2)) (acc, s)).2 =
      ops.foldl (fun s op => (observe (step cfg s op).1).1) s := by
    intro ops
    induction ops with
    | nil => intro acc s; rfl
    | cons op ops ih => intro acc s; simp only [List.foldl_cons]; exact ih _ _
  exact this ops [] s

end MongoModel.Proofs.C05Lemmas
