/-
  Proofs.C13ExtDiscard — `discardOps` at any depth: along a path whose nodes are sub-documents
  with distinct, non-operator keys, the seed holds at that path what is left of the value there
  (`seedOf`), or nothing.
-/
import Spec.UpsertExt
import Proofs.C13Seed

set_option linter.unusedVariables false
set_option linter.unusedSimpArgs false

namespace MongoModel.Proofs.C13Ext
open MongoModel MongoModel.Spec MongoModel.Proofs.C13Lemmas

/-- every node the path walks through is a sub-document with pairwise distinct keys none of which
    is an operator (the value the path ends at is not inspected) -/
def cleanAlong : List String → Val → Bool
  | [], _ => true
  | part :: rest, .doc fs =>
    decide ((dkeys fs).Nodup) && fs.all (fun kv => !kv.1.startsWith "$") &&
    (match dget part fs with
     | some sub => cleanAlong rest sub
     | none => true)
  | _ :: _, _ => false

/-- what an item's condition contributes to the seed: nothing when `_discard_operators` drops it
    (an operator document, a sub-document of operator documents), else what is left of it (a
    scalar: itself; `{$eq: x}`: `x`) -/
def seedOf (v : Val) : Option Val :=
  if (discardOps v).2 then none else some (discardOps v).1

theorem discardFields_true : ∀ (fs acc : Fields), (discardFields fs acc).2 = true →
    (discardFields fs acc).1 = .doc []
  | [], acc, h => by
    simp only [discardFields] at h ⊢
    cases acc with
    | nil => rfl
    | cons a l => simp at h
  | (k, v) :: rest, acc, h => by
    rw [discardFields] at h ⊢
    by_cases hk : k = "$eq"
    · simp [hk] at h
    · by_cases hd : k.startsWith "$" = true
      · simp only [hk, hd, if_false, if_true] at h ⊢
        exact discardFields_true rest acc h
      · simp only [hk, hd, if_false] at h ⊢
        cases hdo : discardOps v with
        | mk nv dis =>
          simp only [hdo] at h ⊢
          cases dis with
          | true => simp only [if_true] at h ⊢; exact discardFields_true rest acc h
          | false =>
            simp only [Bool.false_eq_true, if_false] at h ⊢
            exact discardFields_true rest _ h

/-- a discarded value leaves the empty document behind -/
theorem discardOps_true (v : Val) (h : (discardOps v).2 = true) : (discardOps v).1 = .doc [] := by
  cases v with
  | doc fs =>
    rw [discardOps] at h ⊢
    split
    · rename_i he; simp [he] at h
    · rename_i he; simp only [he, if_false] at h; exact discardFields_true fs [] h
  | _ => simp [discardOps] at h

theorem getPath_nil_doc (h : String) (t : List String) : getPath (h :: t) (.doc []) = none := by
  simp [getPath, dget]

theorem cleanAlong_cons {part : String} {rest : List String} {d : Val}
    (h : cleanAlong (part :: rest) d = true) :
    ∃ fs, d = .doc fs ∧ (dkeys fs).Nodup ∧ (∀ kv ∈ fs, kv.1.startsWith "$" = false) ∧
      ∀ sub, dget part fs = some sub → cleanAlong rest sub = true := by
  cases d with
  | doc fs =>
    simp only [cleanAlong, Bool.and_eq_true, decide_eq_true_eq, List.all_eq_true,
      Bool.not_eq_true'] at h
    refine ⟨fs, rfl, h.1.1, h.1.2, ?_⟩
    intro sub hs
    have := h.2
    rw [hs] at this
    exact this
  | _ => simp [cleanAlong] at h

/-- the seed of a clean node at one of its keys -/
theorem seed_node (fs : Fields) (part : String) (sub : Val) (hn : (dkeys fs).Nodup)
    (hp : ∀ kv ∈ fs, kv.1.startsWith "$" = false) (hs : dget part fs = some sub) :
    ∃ sf, (discardOps (.doc fs)).1 = .doc sf ∧
      dget part sf = if (discardOps sub).2 then none else some (discardOps sub).1 := by
  refine ⟨keep fs [], ?_, ?_⟩
  · rw [discardOps]
    cases fs with
    | nil => rfl
    | cons p r =>
      simp only [List.isEmpty_cons, Bool.false_eq_true, if_false]
      rw [discardFields_plain _ _ hp]
  · rw [dget_keep part sub fs [] hn hs]
    split <;> rfl

/-- **`discardOps` along a clean path** -/
theorem discard_path : ∀ (p : List String) (d v : Val), p ≠ [] → cleanAlong p d = true →
    getPath p d = some v → getPath p (discardOps d).1 = seedOf v
  | [], _, _, hp, _, _ => absurd rfl hp
  | [part], d, v, _, hc, hg => by
    obtain ⟨fs, rfl, hn, hnd, _⟩ := cleanAlong_cons hc
    cases hs : dget part fs with
    | none => simp [getPath, hs] at hg
    | some sub =>
      simp only [getPath, hs, Option.some.injEq] at hg
      subst hg
      obtain ⟨sf, h1, h2⟩ := seed_node fs part sub hn hnd hs
      rw [h1]
      by_cases hdis : (discardOps sub).2 = true
      · simp [getPath, seedOf, h2, hdis]
      · simp [getPath, seedOf, h2, hdis]
  | part :: r1 :: rest, d, v, _, hc, hg => by
    obtain ⟨fs, rfl, hn, hnd, hsubc⟩ := cleanAlong_cons hc
    cases hs : dget part fs with
    | none => simp [getPath, hs] at hg
    | some sub =>
      have hg' : getPath (r1 :: rest) sub = some v := by
        simpa [getPath, hs] using hg
      have ih := discard_path (r1 :: rest) sub v (by simp) (hsubc sub hs) hg'
      obtain ⟨sf, h1, h2⟩ := seed_node fs part sub hn hnd hs
      rw [h1]
      by_cases hdis : (discardOps sub).2 = true
      · rw [if_pos hdis] at h2
        rw [discardOps_true sub hdis, getPath_nil_doc] at ih
        rw [← ih]
        simp [getPath, h2]
      · rw [if_neg hdis] at h2
        rw [← ih]
        simp [getPath, h2]

theorem seedOf_scalar (v : Val) (h : isScalar v = true) : seedOf v = some v := by
  simp [seedOf, discardOps_scalar v h]

theorem seedOf_eq (x : Val) : seedOf (.doc [("$eq", x)]) = some x := by
  simp [seedOf, discardOps_eq]

theorem seedOf_ops (ops : Fields) (h : isOps ops = true) (he : dget "$eq" ops = none) :
    seedOf (.doc ops) = none := by
  simp [seedOf, discardOps_ops ops h he]

end MongoModel.Proofs.C13Ext
