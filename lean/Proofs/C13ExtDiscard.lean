/-
  Proofs.C13ExtDiscard — what `_discard_operators` leaves of one condition (`seedOf`): nothing of
  an operator document, the operand of `{$eq: x}`, a scalar itself; a discarded value leaves the
  empty document behind.
-/
import Spec.UpsertExt
import Proofs.C13Seed

set_option linter.unusedVariables false
set_option linter.unusedSimpArgs false

namespace MongoModel.Proofs.C13Ext
open MongoModel MongoModel.Spec MongoModel.Proofs.C13Lemmas

/-- what an item's condition contributes to the seed: nothing when `_discard_operators` drops it
    (an operator document, a sub-document of operator documents), else what is left of it (a
    scalar: itself; `{$eq: x}`: `x`) -/
def seedOf (v : Val) : Option Val :=
  if (discardOps v).2 then none else some (discardOps v).1

theorem discardFields_true : ∀ (fs acc : Fields), (discardFields fs acc).2 = true →
    (discardFields fs acc).1 = .doc []
  | [], acc, h => by
    simp only [discardFields] at h ⊢
    cases acc with
    | nil => rfl
    | cons a l => simp at h
  | (k, v) :: rest, acc, h => by
    rw [discardFields] at h ⊢
    by_cases hk : k = "$eq"
    · simp [hk] at h
    · by_cases hd : k.startsWith "$" = true
      · simp only [hk, hd, if_false, if_true] at h ⊢
        exact discardFields_true rest acc h
      · simp only [hk, hd, if_false] at h ⊢
        cases hdo : discardOps v with
        | mk nv dis =>
          simp only [hdo] at h ⊢
          cases dis with
          | true => simp only [if_true] at h ⊢; exact discardFields_true rest acc h
          | false =>
            simp only [Bool.false_eq_true, if_false] at h ⊢
            exact discardFields_true rest _ h

/-- a discarded value leaves the empty document behind -/
theorem discardOps_true (v : Val) (h : (discardOps v).2 = true) : (discardOps v).1 = .doc [] := by
  cases v with
  | doc fs =>
    rw [discardOps] at h ⊢
    split
    · rename_i he; simp [he] at h
    · rename_i he; simp only [he, if_false] at h; exact discardFields_true fs [] h
  | _ => simp [discardOps] at h

theorem seedOf_scalar (v : Val) (h : isScalar v = true) : seedOf v = some v := by
  simp [seedOf, discardOps_scalar v h]

theorem seedOf_eq (x : Val) : seedOf (.doc [("$eq", x)]) = some x := by
  simp [seedOf, discardOps_eq]

theorem seedOf_ops (ops : Fields) (h : isOps ops = true) (he : dget "$eq" ops = none) :
    seedOf (.doc ops) = none := by
  simp [seedOf, discardOps_ops ops h he]

end MongoModel.Proofs.C13Ext
