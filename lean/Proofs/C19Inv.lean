/-
  C19 (a) — the reference protocol, ANY number of threads: an inductive invariant of the
  protocol machine relating the two counters and the five locks to the positions of the threads
  (`MutexInv`), proved preserved by every action of every thread; exclusion, release-on-raise,
  no failing release and deadlock-freedom are corollaries.
-/
import Proofs.C19Lift
namespace MongoModel.RWLock

/-- the positions of the reference protocol (release after a raise = normal release) -/
inductive K
  | out | ra0 | ra1 | ra2 | ra3 | ra4 | ra5 | ra6 | ra7 | rb | rr0 | rr1 | rr2 | rr3
  | wa0 | wa1 | wa2 | wa3 | wa4 | wb | wr0 | wr1 | wr2 | wr3 | wr4 | bad
  deriving DecidableEq, Repr

def kOf : Phase → K
  | .out => .out
  | .acq false 0 => .ra0 | .acq false 1 => .ra1 | .acq false 2 => .ra2 | .acq false 3 => .ra3
  | .acq false 4 => .ra4 | .acq false 5 => .ra5 | .acq false 6 => .ra6 | .acq false 7 => .ra7
  | .body false => .rb
  | .rel false _ 0 => .rr0 | .rel false _ 1 => .rr1 | .rel false _ 2 => .rr2
  | .rel false _ 3 => .rr3
  | .acq true 0 => .wa0 | .acq true 1 => .wa1 | .acq true 2 => .wa2 | .acq true 3 => .wa3
  | .acq true 4 => .wa4
  | .body true => .wb
  | .rel true _ 0 => .wr0 | .rel true _ 1 => .wr1 | .rel true _ 2 => .wr2 | .rel true _ 3 => .wr3
  | .rel true _ 4 => .wr4
  | _ => .bad

/-- number of threads at positions of class `k` -/
def cnt (pos : List Phase) (k : K) : Nat := pos.countP fun p => kOf p == k

theorem cnt_set {pos : List Phase} {t : Nat} {p p' : Phase} (h : pos[t]? = some p) (k : K) :
    cnt (pos.set t p') k + (if kOf p = k then 1 else 0)
      = cnt pos k + (if kOf p' = k then 1 else 0) := by
  have ht : t < pos.length := by
    rcases Nat.lt_or_ge t pos.length with h' | h'
    · exact h'
    · simp [List.getElem?_eq_none h'] at h
  have hp : pos[t] = p := by
    rw [List.getElem?_eq_getElem ht] at h; exact Option.some.inj h
  unfold cnt
  rw [List.countP_set ht, hp]
  have hpos : (if kOf p = k then 1 else 0) ≤ List.countP (fun p => kOf p == k) pos := by
    split
    · rename_i hk
      exact List.countP_pos_iff.2 ⟨p, List.mem_of_getElem? h, by simp [hk]⟩
    · exact Nat.zero_le _
  simp only [beq_iff_eq]
  omega

theorem cnt_pos_of_mem {pos : List Phase} {t : Nat} {p : Phase} (h : pos[t]? = some p) :
    1 ≤ cnt pos (kOf p) :=
  List.countP_pos_iff.2 ⟨p, List.mem_of_getElem? h, by simp⟩

/-- two different threads at positions of classes in a set: the set's count is at least 2 -/
theorem cnt_two {pos : List Phase} {t u : Nat} {p q : Phase} (ht : pos[t]? = some p)
    (hu : pos[u]? = some q) (hne : t ≠ u) (f : K → Bool) (hp : f (kOf p) = true)
    (hq : f (kOf q) = true) : 2 ≤ pos.countP (fun x => f (kOf x)) :=
  countP_two (fun x => f (kOf x)) pos t u p q ht hu hne hp hq

/-! ### the `RWLock` state -/

theorem idx_lt (l : LockId) : l.idx < 5 := by cases l <;> decide

theorem idx_inj {l l' : LockId} (h : l.idx = l'.idx) : l = l' := by
  cases l <;> cases l' <;> simp [LockId.idx] at h ⊢

theorem lock_setLock (lk : Locks) (h : lk.locks.length = 5) (l l' : LockId) (x : LockSt) :
    (lk.setLock l x).lock l' = if l = l' then x else lk.lock l' := by
  unfold Locks.setLock Locks.lock
  simp only [List.getD_eq_getElem?_getD, List.getElem?_set]
  by_cases hl : l = l'
  · subst hl
    simp [h, idx_lt l]
  · have : l.idx ≠ l'.idx := fun e => hl (idx_inj e)
    simp [this, hl]

theorem setLock_len (lk : Locks) (l : LockId) (x : LockSt) :
    (lk.setLock l x).locks.length = lk.locks.length := by simp [Locks.setLock]

theorem setLock_rc (lk : Locks) (l : LockId) (x : LockSt) : (lk.setLock l x).rc = lk.rc := rfl
theorem setLock_wc (lk : Locks) (l : LockId) (x : LockSt) : (lk.setLock l x).wc = lk.wc := rfl

theorem setCtr_lock (lk : Locks) (c : Ctr) (v : Int) (l : LockId) :
    (lk.setCtr c v).lock l = lk.lock l := by cases c <;> rfl

/-- result of an `acquire` that goes through -/
theorem acquire_some {re : List Bool} {lk lk' : Locks} {t : Nat} {l : LockId}
    (h : acquire re lk t l = some lk') :
    (isReentrant re l = true ∧
      (((lk.lock l).count = 0 ∧ lk' = lk.setLock l ⟨t + 1, 1⟩) ∨
       ((lk.lock l).count ≠ 0 ∧ (lk.lock l).owner = t + 1 ∧
          lk' = lk.setLock l ⟨t + 1, (lk.lock l).count + 1⟩))) ∨
    (isReentrant re l = false ∧ (lk.lock l).count = 0 ∧ lk' = lk.setLock l ⟨0, 1⟩) := by
  unfold acquire at h
  simp only at h
  by_cases hr : isReentrant re l = true
  · simp only [hr, if_true] at h
    by_cases hc : (lk.lock l).count = 0
    · simp [hc] at h; exact Or.inl ⟨hr, Or.inl ⟨hc, h.symm⟩⟩
    · by_cases ho : (lk.lock l).owner = t + 1
      · simp [hc, ho] at h; exact Or.inl ⟨hr, Or.inr ⟨hc, ho, h.symm⟩⟩
      · simp [hc, ho] at h
  · have hr' : isReentrant re l = false := by simpa using hr
    simp only [hr', Bool.false_eq_true, if_false] at h
    by_cases hc : (lk.lock l).count = 0
    · simp [hc] at h; exact Or.inr ⟨hr', hc, h.symm⟩
    · simp [hc] at h

theorem acquire_none {re : List Bool} {lk : Locks} {t : Nat} {l : LockId}
    (h : acquire re lk t l = none) :
    (lk.lock l).count ≠ 0 ∧ (isReentrant re l = true → (lk.lock l).owner ≠ t + 1) := by
  unfold acquire at h
  simp only at h
  by_cases hr : isReentrant re l = true
  · simp only [hr, if_true] at h
    by_cases hc : (lk.lock l).count = 0
    · simp [hc] at h
    · by_cases ho : (lk.lock l).owner = t + 1
      · simp [hc, ho] at h
      · exact ⟨hc, fun _ => ho⟩
  · have hr' : isReentrant re l = false := by simpa using hr
    simp only [hr', Bool.false_eq_true, if_false] at h
    by_cases hc : (lk.lock l).count = 0
    · simp [hc] at h
    · exact ⟨hc, fun e => by rw [hr'] at e; exact absurd e (by decide)⟩

/-- `release` of a lock held exactly once by the releasing thread (or of a held plain lock) -/
theorem release_held {re : List Bool} {lk : Locks} {t : Nat} {l : LockId}
    (h : (isReentrant re l = true ∧ lk.lock l = ⟨t + 1, 1⟩) ∨
         (isReentrant re l = false ∧ (lk.lock l).count ≠ 0)) :
    release re lk t l = some (lk.setLock l {}) := by
  unfold release
  rcases h with ⟨hr, hl⟩ | ⟨hr, hc⟩
  · simp [hr, hl]
  · simp [hr, hc]

/-! ### the invariant -/

abbrev lRq := LockId.readersQueue
abbrev lNr := LockId.noReaders
abbrev lNw := LockId.noWriters
abbrev lRm := LockId.readMutex
abbrev lWm := LockId.writeMutex

/-- threads holding `readers_queue`, the read-switch mutex, the write-switch mutex -/
def sRq (pos : List Phase) : Nat :=
  cnt pos .ra1 + cnt pos .ra2 + cnt pos .ra3 + cnt pos .ra4 + cnt pos .ra5 + cnt pos .ra6
    + cnt pos .ra7
def sRm (pos : List Phase) : Nat :=
  cnt pos .ra3 + cnt pos .ra4 + cnt pos .ra5 + cnt pos .rr1 + cnt pos .rr2 + cnt pos .rr3
def sWm (pos : List Phase) : Nat :=
  cnt pos .wa1 + cnt pos .wa2 + cnt pos .wa3 + cnt pos .wr2 + cnt pos .wr3 + cnt pos .wr4
/-- threads counted by the read / write counter -/
def sRc (pos : List Phase) : Nat :=
  cnt pos .ra4 + cnt pos .ra5 + cnt pos .ra6 + cnt pos .ra7 + cnt pos .rb + cnt pos .rr0
    + cnt pos .rr1
def sWc (pos : List Phase) : Nat :=
  cnt pos .wa2 + cnt pos .wa3 + cnt pos .wa4 + cnt pos .wb + cnt pos .wr0 + cnt pos .wr1
    + cnt pos .wr2
/-- `no_writers`: held by a writer in its section, or by the group of readers past the switch -/
def sWnw (pos : List Phase) : Nat := cnt pos .wb + cnt pos .wr0
def sRp (pos : List Phase) : Nat :=
  cnt pos .ra5 + cnt pos .ra6 + cnt pos .ra7 + cnt pos .rb + cnt pos .rr0 + cnt pos .rr1
    + cnt pos .rr2
/-- `no_readers`: held by a reader in its entry section, or by the group of writers -/
def sRnr (pos : List Phase) : Nat :=
  cnt pos .ra2 + cnt pos .ra3 + cnt pos .ra4 + cnt pos .ra5 + cnt pos .ra6
def sWp (pos : List Phase) : Nat :=
  cnt pos .wa3 + cnt pos .wa4 + cnt pos .wb + cnt pos .wr0 + cnt pos .wr1 + cnt pos .wr2
    + cnt pos .wr3

def holdsRq : K → Bool
  | .ra1 | .ra2 | .ra3 | .ra4 | .ra5 | .ra6 | .ra7 => true
  | _ => false
def holdsRm : K → Bool
  | .ra3 | .ra4 | .ra5 | .rr1 | .rr2 | .rr3 => true
  | _ => false
def holdsWm : K → Bool
  | .wa1 | .wa2 | .wa3 | .wr2 | .wr3 | .wr4 => true
  | _ => false

/-- `mutex_inv`: counters and lock holders are determined by the positions of the threads -/
structure MutexInv (s : PState) : Prop where
  len : s.lk.locks.length = 5
  valid : cnt s.pos .bad = 0
  rq_le : sRq s.pos ≤ 1
  rq_free : sRq s.pos = 0 → s.lk.lock lRq = ⟨0, 0⟩
  rq_own : ∀ t p, s.pos[t]? = some p → holdsRq (kOf p) = true → s.lk.lock lRq = ⟨t + 1, 1⟩
  rm_le : sRm s.pos ≤ 1
  rm_free : sRm s.pos = 0 → s.lk.lock lRm = ⟨0, 0⟩
  rm_own : ∀ t p, s.pos[t]? = some p → holdsRm (kOf p) = true → s.lk.lock lRm = ⟨t + 1, 1⟩
  wm_le : sWm s.pos ≤ 1
  wm_free : sWm s.pos = 0 → s.lk.lock lWm = ⟨0, 0⟩
  wm_own : ∀ t p, s.pos[t]? = some p → holdsWm (kOf p) = true → s.lk.lock lWm = ⟨t + 1, 1⟩
  rc : s.lk.rc = Int.ofNat (sRc s.pos)
  wc : s.lk.wc = Int.ofNat (sWc s.pos)
  nw_le : sWnw s.pos + min 1 (sRp s.pos) ≤ 1
  nw : s.lk.lock lNw = ⟨0, sWnw s.pos + min 1 (sRp s.pos)⟩
  nr_le : sRnr s.pos + min 1 (sWp s.pos) ≤ 1
  nr : s.lk.lock lNr = ⟨0, sRnr s.pos + min 1 (sWp s.pos)⟩

theorem cnt_replicate_out (n : Nat) (k : K) :
    cnt (List.replicate n Phase.out) k = if k = .out then n else 0 := by
  unfold cnt
  by_cases hk : k = .out
  · subst hk; simp [kOf, List.countP_replicate]
  · have : ∀ p ∈ List.replicate n Phase.out, ¬ ((kOf p == k) = true) := by
      intro p hp
      rw [(List.mem_replicate.1 hp).2]
      simp only [kOf, beq_iff_eq]
      exact fun e => hk e.symm
    rw [List.countP_eq_zero.2 this]; simp [hk]

theorem mutexInv_init (n : Nat) : MutexInv (pinit n) := by
  have hc : ∀ k, cnt (pinit n).pos k = if k = .out then n else 0 := by
    intro k; simp [pinit, cnt_replicate_out]
  have hl : ∀ l, (pinit n).lk.lock l = ⟨0, 0⟩ := by
    intro l; cases l <;> rfl
  have hown : ∀ (t : Nat) (p : Phase), (pinit n).pos[t]? = some p → kOf p = .out := by
    intro t p hp
    simp only [pinit, List.getElem?_replicate] at hp
    split at hp <;> simp at hp
    subst hp; rfl
  refine ⟨by simp [pinit, Locks.init], by simp [hc], ?_, ?_, ?_, ?_, ?_, ?_, ?_, ?_, ?_, ?_, ?_,
    ?_, ?_, ?_, ?_⟩
  · simp [sRq, hc]
  · intro _; exact hl _
  · intro t p hp hh; rw [hown t p hp] at hh; simp [holdsRq] at hh
  · simp [sRm, hc]
  · intro _; exact hl _
  · intro t p hp hh; rw [hown t p hp] at hh; simp [holdsRm] at hh
  · simp [sWm, hc]
  · intro _; exact hl _
  · intro t p hp hh; rw [hown t p hp] at hh; simp [holdsWm] at hh
  · have : (pinit n).lk.rc = 0 := rfl
    rw [this]; simp [sRc, hc]
  · have : (pinit n).lk.wc = 0 := rfl
    rw [this]; simp [sWc, hc]
  · simp [sWnw, sRp, hc]
  · rw [hl]; simp [sWnw, sRp, hc]
  · simp [sRnr, sWp, hc]
  · rw [hl]; simp [sRnr, sWp, hc]

/-! ### preservation -/

/-- instantiate the count-update equation `h : ∀ k, cnt pos' k + [kOf p = k] = cnt pos k +
    [kOf p' = k]` at every class and evaluate the brackets -/
macro "inst_cnt" h:ident : tactic => `(tactic| (
  have c_out := $h K.out; have c_ra0 := $h K.ra0; have c_ra1 := $h K.ra1
  have c_ra2 := $h K.ra2; have c_ra3 := $h K.ra3; have c_ra4 := $h K.ra4
  have c_ra5 := $h K.ra5; have c_ra6 := $h K.ra6; have c_ra7 := $h K.ra7
  have c_rb := $h K.rb; have c_rr0 := $h K.rr0; have c_rr1 := $h K.rr1
  have c_rr2 := $h K.rr2; have c_rr3 := $h K.rr3; have c_wa0 := $h K.wa0
  have c_wa1 := $h K.wa1; have c_wa2 := $h K.wa2; have c_wa3 := $h K.wa3
  have c_wa4 := $h K.wa4; have c_wb := $h K.wb; have c_wr0 := $h K.wr0
  have c_wr1 := $h K.wr1; have c_wr2 := $h K.wr2; have c_wr3 := $h K.wr3
  have c_wr4 := $h K.wr4; have c_bad := $h K.bad
  simp only [kOf, reduceCtorEq, if_true, if_false, Nat.add_zero] at c_out c_ra0 c_ra1 c_ra2 c_ra3 c_ra4 c_ra5 c_ra6 c_ra7 c_rb c_rr0 c_rr1 c_rr2 c_rr3 c_wa0 c_wa1 c_wa2 c_wa3 c_wa4 c_wb c_wr0 c_wr1 c_wr2 c_wr3 c_wr4 c_bad))

/-- unfold the sums, then linear arithmetic over the class counts -/
macro "cnt_omega" : tactic => `(tactic| (
  simp only [sRq, sRm, sWm, sRc, sWc, sWnw, sRp, sRnr, sWp] at *
  omega))

theorem own_preserved {pos : List Phase} {t : Nat} {p' : Phase} {holds : K → Bool}
    {x x' : LockSt}
    (old : ∀ u q, pos[u]? = some q → holds (kOf q) = true → x = ⟨u + 1, 1⟩)
    (hnew : holds (kOf p') = true → x' = ⟨t + 1, 1⟩)
    (hkeep : ∀ u, u ≠ t → x = ⟨u + 1, 1⟩ → x' = ⟨u + 1, 1⟩) :
    ∀ u q, (pos.set t p')[u]? = some q → holds (kOf q) = true → x' = ⟨u + 1, 1⟩ := by
  intro u q hq hh
  by_cases hut : t = u
  · subst hut
    by_cases ht : t < pos.length
    · simp only [List.getElem?_set, ht, if_true, Option.some.injEq] at hq
      subst hq; exact hnew hh
    · simp [List.getElem?_set, ht] at hq
  · simp only [List.getElem?_set, hut, if_false] at hq
    exact hkeep u (Ne.symm hut) (old u q hq hh)

theorem mutexInv_begin {s : PState} (hinv : MutexInv s) {t : Nat} (w : Bool)
    (hp : s.pos[t]? = some .out) : MutexInv (s.setPos t (beginPos referenceProtocol w)) := by
  have hset := fun k => cnt_set (p' := beginPos referenceProtocol w) hp k
  have hcp := cnt_pos_of_mem hp
  obtain ⟨len, valid, rq_le, rq_free, rq_own, rm_le, rm_free, rm_own, wm_le, wm_free, wm_own, rc,
    wc, nw_le, nw, nr_le, nr⟩ := hinv
  cases w
  all_goals
    simp only [beginPos, referenceProtocol, Protocol.acqSeq, List.isEmpty_cons,
      Bool.false_eq_true, if_false, if_true] at hset ⊢
    inst_cnt hset
    simp only [kOf] at hcp
    simp only [PState.setPos]
    refine ⟨len, by cnt_omega, by cnt_omega, fun h => rq_free (by cnt_omega), ?_, by cnt_omega,
      fun h => rm_free (by cnt_omega), ?_, by cnt_omega, fun h => wm_free (by cnt_omega), ?_,
      ?_, ?_, by cnt_omega, ?_, by cnt_omega, ?_⟩
    · exact own_preserved rq_own (fun h => by simp [kOf, holdsRq] at h) (fun _ _ h => h)
    · exact own_preserved rm_own (fun h => by simp [kOf, holdsRm] at h) (fun _ _ h => h)
    · exact own_preserved wm_own (fun h => by simp [kOf, holdsWm] at h) (fun _ _ h => h)
    · show s.lk.rc = _; rw [rc]; congr 1; cnt_omega
    · show s.lk.wc = _; rw [wc]; congr 1; cnt_omega
    · show s.lk.lock lNw = _; rw [nw]; congr 1; cnt_omega
    · show s.lk.lock lNr = _; rw [nr]; congr 1; cnt_omega

/-! ### the holder sums as `countP`, existence of a holder -/

theorem cnt_cons (p : Phase) (ps : List Phase) (k : K) :
    cnt (p :: ps) k = cnt ps k + (if kOf p = k then 1 else 0) := by
  unfold cnt
  rw [List.countP_cons]
  simp only [beq_iff_eq]

theorem sum_eq_countP (f : K → Bool) (sum : List Phase → Nat)
    (hnil : sum [] = 0)
    (hcons : ∀ p ps, sum (p :: ps) = sum ps + (if f (kOf p) = true then 1 else 0)) :
    ∀ pos, sum pos = pos.countP (fun p => f (kOf p))
  | [] => by simp [hnil]
  | p :: ps => by
    rw [hcons, sum_eq_countP f sum hnil hcons ps, List.countP_cons]

theorem sRq_countP (pos : List Phase) : sRq pos = pos.countP (fun p => holdsRq (kOf p)) := by
  apply sum_eq_countP holdsRq sRq (by simp [sRq, cnt])
  intro p ps
  simp only [sRq, cnt_cons]
  cases kOf p <;> simp [holdsRq] <;> omega

theorem sRm_countP (pos : List Phase) : sRm pos = pos.countP (fun p => holdsRm (kOf p)) := by
  apply sum_eq_countP holdsRm sRm (by simp [sRm, cnt])
  intro p ps
  simp only [sRm, cnt_cons]
  cases kOf p <;> simp [holdsRm] <;> omega

theorem sWm_countP (pos : List Phase) : sWm pos = pos.countP (fun p => holdsWm (kOf p)) := by
  apply sum_eq_countP holdsWm sWm (by simp [sWm, cnt])
  intro p ps
  simp only [sWm, cnt_cons]
  cases kOf p <;> simp [holdsWm] <;> omega

theorem exists_holder {pos : List Phase} {f : K → Bool}
    (h : 1 ≤ pos.countP (fun p => f (kOf p))) :
    ∃ (u : Nat) (q : Phase), pos[u]? = some q ∧ f (kOf q) = true := by
  obtain ⟨q, hq, hf⟩ := List.countP_pos_iff.1 h
  obtain ⟨u, hu, rfl⟩ := List.getElem_of_mem hq
  exact ⟨u, _, List.getElem?_eq_getElem hu, hf⟩

/-- the state of a reentrant lock as a function of its holder sum -/
theorem lock_of_sum {pos : List Phase} {f : K → Bool} {sum : Nat} {x : LockSt}
    (hsum : sum = pos.countP (fun p => f (kOf p))) (hle : sum ≤ 1)
    (hfree : sum = 0 → x = ⟨0, 0⟩)
    (hown : ∀ (t : Nat) (p : Phase), pos[t]? = some p → f (kOf p) = true → x = ⟨t + 1, 1⟩) :
    x.count = sum ∧
    ∀ (t : Nat) (p : Phase), pos[t]? = some p → f (kOf p) = false → x.owner = t + 1 →
      x.count = 0 := by
  rcases Nat.eq_zero_or_pos sum with h0 | h1
  · rw [hfree h0]; exact ⟨h0.symm, fun _ _ _ _ _ => rfl⟩
  · obtain ⟨u, q, hu, hq⟩ := exists_holder (f := f) (by rw [← hsum]; exact h1)
    have hx := hown u q hu hq
    refine ⟨by rw [hx]; show 1 = sum; omega, ?_⟩
    intro t p ht hf ho
    rw [hx] at ho
    simp only at ho
    have : u = t := by omega
    subst this
    rw [hu] at ht
    simp only [Option.some.injEq] at ht
    subst ht; rw [hq] at hf; simp at hf

theorem MutexInv.rq_count {s : PState} (h : MutexInv s) :
    (s.lk.lock lRq).count = sRq s.pos ∧
    ∀ (t : Nat) (p : Phase), s.pos[t]? = some p → holdsRq (kOf p) = false →
      (s.lk.lock lRq).owner = t + 1 → (s.lk.lock lRq).count = 0 :=
  lock_of_sum (sRq_countP _) h.rq_le h.rq_free h.rq_own

theorem MutexInv.rm_count {s : PState} (h : MutexInv s) :
    (s.lk.lock lRm).count = sRm s.pos ∧
    ∀ (t : Nat) (p : Phase), s.pos[t]? = some p → holdsRm (kOf p) = false →
      (s.lk.lock lRm).owner = t + 1 → (s.lk.lock lRm).count = 0 :=
  lock_of_sum (sRm_countP _) h.rm_le h.rm_free h.rm_own

theorem MutexInv.wm_count {s : PState} (h : MutexInv s) :
    (s.lk.lock lWm).count = sWm s.pos ∧
    ∀ (t : Nat) (p : Phase), s.pos[t]? = some p → holdsWm (kOf p) = false →
      (s.lk.lock lWm).owner = t + 1 → (s.lk.lock lWm).count = 0 :=
  lock_of_sum (sWm_countP _) h.wm_le h.wm_free h.wm_own

theorem pstep_op_cases {P : Protocol} {s s' : PState} {t : Nat} {p : Phase} {ins : Instr}
    (hp : s.pos[t]? = some p) (hi : instrAt P p = some ins) (h : pstep P s t .op = some s') :
    (∃ lk', protoOp P.reentrant s.lk t ins = some (.ok lk') ∧
        s' = { lk := lk', pos := s.pos.set t (nextPos P p) }) ∨
    (protoOp P.reentrant s.lk t ins = some .error ∧ s' = s.setPos t .out) := by
  simp only [pstep, hp, hi] at h
  split at h
  · rename_i lk' hk
    simp only [Option.some.injEq] at h
    exact Or.inl ⟨lk', hk, h.symm⟩
  · rename_i hk
    simp only [Option.some.injEq] at h
    exact Or.inr ⟨hk, h.symm⟩
  · simp at h

/-- acquiring a reentrant lock that the thread does not hold: the lock was free -/
theorem acquire_reentrant_free {re : List Bool} {lk lk' : Locks} {t : Nat} {l : LockId}
    (hr : isReentrant re l = true) (hnot : (lk.lock l).owner = t + 1 → (lk.lock l).count = 0)
    (h : acquire re lk t l = some lk') :
    (lk.lock l).count = 0 ∧ lk' = lk.setLock l ⟨t + 1, 1⟩ := by
  rcases acquire_some h with ⟨_, ⟨hc, hl⟩ | ⟨hc, ho, _⟩⟩ | ⟨hr', _, _⟩
  · exact ⟨hc, hl⟩
  · exact absurd (hnot ho) hc
  · rw [hr] at hr'; simp at hr'

theorem acquire_plain {re : List Bool} {lk lk' : Locks} {t : Nat} {l : LockId}
    (hr : isReentrant re l = false) (h : acquire re lk t l = some lk') :
    (lk.lock l).count = 0 ∧ lk' = lk.setLock l ⟨0, 1⟩ := by
  rcases acquire_some h with ⟨hr', _⟩ | ⟨_, hc, hl⟩
  · rw [hr] at hr'; simp at hr'
  · exact ⟨hc, hl⟩

theorem ref_re_rq : isReentrant referenceProtocol.reentrant lRq = true := rfl
theorem ref_re_rm : isReentrant referenceProtocol.reentrant lRm = true := rfl
theorem ref_re_wm : isReentrant referenceProtocol.reentrant lWm = true := rfl
theorem ref_re_nr : isReentrant referenceProtocol.reentrant lNr = false := rfl
theorem ref_re_nw : isReentrant referenceProtocol.reentrant lNw = false := rfl

/-- RA0: `self._readers_queue.acquire()` -/
theorem inv_ra0 {s s' : PState} {t : Nat} (hinv : MutexInv s)
    (hp : s.pos[t]? = some (.acq false 0))
    (h : pstep referenceProtocol s t .op = some s') : MutexInv s' := by
  have hi : instrAt referenceProtocol (.acq false 0) = some (.acq lRq) := rfl
  have hcount := hinv.rq_count
  obtain ⟨len, valid, rq_le, rq_free, rq_own, rm_le, rm_free, rm_own, wm_le, wm_free, wm_own, rc,
    wc, nw_le, nw, nr_le, nr⟩ := hinv
  rcases pstep_op_cases hp hi h with ⟨lk', ho, rfl⟩ | ⟨ho, rfl⟩
  · simp only [protoOp, acqRes, Option.some.injEq] at ho
    split at ho <;> simp at ho
    subst ho
    rename_i lk' hacq
    obtain ⟨hc0, rfl⟩ := acquire_reentrant_free ref_re_rq (hcount.2 t _ hp rfl) hacq
    have hz : sRq s.pos = 0 := by rw [← hcount.1]; exact hc0
    have hnext : nextPos referenceProtocol (.acq false 0) = .acq false 1 := rfl
    rw [hnext]
    have hset := fun k => cnt_set (p' := Phase.acq false 1) hp k
    have hcp := cnt_pos_of_mem hp
    inst_cnt hset
    simp only [kOf] at hcp
    refine ⟨by simp [setLock_len, len], by cnt_omega, by cnt_omega, fun h => by cnt_omega, ?_,
      by cnt_omega, fun h => ?_, ?_, by cnt_omega, fun h => ?_, ?_, ?_, ?_, by cnt_omega, ?_,
      by cnt_omega, ?_⟩
    · exact own_preserved rq_own (fun _ => by simp [lock_setLock _ len])
        (fun u _ hu => by rw [rq_free hz] at hu; simp at hu)
    · simp only [lock_setLock _ len, reduceCtorEq, if_false]; exact rm_free (by cnt_omega)
    · exact own_preserved rm_own (fun h => by simp [kOf, holdsRm] at h)
        (fun _ _ h => by simpa [lock_setLock _ len] using h)
    · simp only [lock_setLock _ len, reduceCtorEq, if_false]; exact wm_free (by cnt_omega)
    · exact own_preserved wm_own (fun h => by simp [kOf, holdsWm] at h)
        (fun _ _ h => by simpa [lock_setLock _ len] using h)
    · show s.lk.rc = _; rw [rc]; congr 1; cnt_omega
    · show s.lk.wc = _; rw [wc]; congr 1; cnt_omega
    · simp only [lock_setLock _ len, reduceCtorEq, if_false]; rw [nw]; congr 1; cnt_omega
    · simp only [lock_setLock _ len, reduceCtorEq, if_false]; rw [nr]; congr 1; cnt_omega
  · simp only [protoOp, acqRes, Option.some.injEq] at ho
    split at ho <;> simp at ho

/-- how one step treats a reentrant lock: untouched, acquired by `t`, or released by `t` -/
def LockMove (b b' : Bool) (x x' : LockSt) (t : Nat) : Prop :=
  (b = b' ∧ x' = x) ∨ (b = false ∧ b' = true ∧ x.count = 0 ∧ x' = ⟨t + 1, 1⟩) ∨
  (b = true ∧ b' = false ∧ x' = ⟨0, 0⟩)

theorem reentrant_clauses {pos : List Phase} {t : Nat} {p p' : Phase} {f : K → Bool}
    {sum : List Phase → Nat} (hsum : ∀ pos, sum pos = pos.countP (fun p => f (kOf p)))
    {x x' : LockSt} (hp : pos[t]? = some p) (hle : sum pos ≤ 1)
    (hfree : sum pos = 0 → x = ⟨0, 0⟩)
    (hown : ∀ (u : Nat) (q : Phase), pos[u]? = some q → f (kOf q) = true → x = ⟨u + 1, 1⟩)
    (hmove : LockMove (f (kOf p)) (f (kOf p')) x x' t) :
    sum (pos.set t p') ≤ 1 ∧ (sum (pos.set t p') = 0 → x' = ⟨0, 0⟩) ∧
    (∀ (u : Nat) (q : Phase), (pos.set t p')[u]? = some q → f (kOf q) = true →
      x' = ⟨u + 1, 1⟩) := by
  have ht : t < pos.length := by
    rcases Nat.lt_or_ge t pos.length with h' | h'
    · exact h'
    · simp [List.getElem?_eq_none h'] at hp
  have hpe : pos[t] = p := by
    rw [List.getElem?_eq_getElem ht] at hp; exact Option.some.inj hp
  have hupd : sum (pos.set t p') + (if f (kOf p) = true then 1 else 0)
      = sum pos + (if f (kOf p') = true then 1 else 0) := by
    rw [hsum, hsum, List.countP_set ht, hpe]
    have : (if f (kOf p) = true then 1 else 0) ≤ pos.countP (fun p => f (kOf p)) := by
      split
      · rename_i hk
        exact List.countP_pos_iff.2 ⟨p, List.mem_of_getElem? hp, hk⟩
      · exact Nat.zero_le _
    omega
  have hcnt := lock_of_sum (hsum pos) hle hfree hown
  rcases hmove with ⟨hb, hx⟩ | ⟨hb, hb', hc, hx⟩ | ⟨hb, hb', hx⟩
  · rw [hb] at hupd
    have heq : sum (pos.set t p') = sum pos := by omega
    refine ⟨by omega, fun h => by rw [hx]; exact hfree (by omega), ?_⟩
    exact own_preserved hown (fun h => by rw [hx]; exact hown t p hp (by rw [hb]; exact h))
      (fun _ _ h => by rw [hx]; exact h)
  · rw [hb, hb'] at hupd
    simp only [Bool.false_eq_true, if_false, if_true] at hupd
    have h0 : sum pos = 0 := by rw [← hcnt.1]; exact hc
    refine ⟨by omega, fun h => by omega, ?_⟩
    exact own_preserved hown (fun _ => hx)
      (fun u _ hu => by rw [hu] at hc; simp at hc)
  · rw [hb, hb'] at hupd
    simp only [Bool.false_eq_true, if_false, if_true] at hupd
    refine ⟨by omega, fun _ => hx, ?_⟩
    exact own_preserved hown (fun h => by rw [hb'] at h; simp at h)
      (fun u hut hu => by
        have := hown t p hp hb
        rw [hu] at this
        simp only [LockSt.mk.injEq] at this
        omega)

theorem lockMove_same {b b' : Bool} {x x' : LockSt} {t : Nat} (hb : b = b') (hx : x' = x) :
    LockMove b b' x x' t := Or.inl ⟨hb, hx⟩

theorem mutexInv_mk {s : PState} (hinv : MutexInv s) {t : Nat} {p p' : Phase}
    (hp : s.pos[t]? = some p) {lk' : Locks} (hlen : lk'.locks.length = 5)
    (hrq : LockMove (holdsRq (kOf p)) (holdsRq (kOf p')) (s.lk.lock lRq) (lk'.lock lRq) t)
    (hrm : LockMove (holdsRm (kOf p)) (holdsRm (kOf p')) (s.lk.lock lRm) (lk'.lock lRm) t)
    (hwm : LockMove (holdsWm (kOf p)) (holdsWm (kOf p')) (s.lk.lock lWm) (lk'.lock lWm) t)
    (hvalid : cnt (s.pos.set t p') .bad = 0)
    (hrc : lk'.rc = Int.ofNat (sRc (s.pos.set t p')))
    (hwc : lk'.wc = Int.ofNat (sWc (s.pos.set t p')))
    (hnw_le : sWnw (s.pos.set t p') + min 1 (sRp (s.pos.set t p')) ≤ 1)
    (hnw : lk'.lock lNw = ⟨0, sWnw (s.pos.set t p') + min 1 (sRp (s.pos.set t p'))⟩)
    (hnr_le : sRnr (s.pos.set t p') + min 1 (sWp (s.pos.set t p')) ≤ 1)
    (hnr : lk'.lock lNr = ⟨0, sRnr (s.pos.set t p') + min 1 (sWp (s.pos.set t p'))⟩) :
    MutexInv { lk := lk', pos := s.pos.set t p' } := by
  obtain ⟨a1, a2, a3⟩ := reentrant_clauses sRq_countP hp hinv.rq_le hinv.rq_free hinv.rq_own hrq
  obtain ⟨b1, b2, b3⟩ := reentrant_clauses sRm_countP hp hinv.rm_le hinv.rm_free hinv.rm_own hrm
  obtain ⟨c1, c2, c3⟩ := reentrant_clauses sWm_countP hp hinv.wm_le hinv.wm_free hinv.wm_own hwm
  exact ⟨hlen, hvalid, a1, a2, a3, b1, b2, b3, c1, c2, c3, hrc, hwc, hnw_le, hnw, hnr_le, hnr⟩

/-- the count-update equations for a move `p → p'` of thread `t`, instantiated at every class -/
macro "move_counts" hp:ident p':term : tactic => `(tactic| (
  have hset := fun k => cnt_set (p' := $p') $hp k
  have hcp := cnt_pos_of_mem $hp
  inst_cnt hset
  simp only [kOf] at hcp))

/-- a lock other than the one just set is unchanged -/
macro "lock_frame" len:ident : tactic => `(tactic| (
  simp only [lock_setLock _ $len, setCtr_lock, reduceCtorEq, if_false, if_true]))

theorem acq_not_error {re : List Bool} {lk : Locks} {t : Nat} {l : LockId}
    (h : protoOp re lk t (.acq l) = some .error) : False := by
  simp only [protoOp, acqRes, Option.some.injEq] at h
  split at h <;> simp at h

theorem acq_ok {re : List Bool} {lk lk' : Locks} {t : Nat} {l : LockId}
    (h : protoOp re lk t (.acq l) = some (.ok lk')) : acquire re lk t l = some lk' := by
  simp only [protoOp, acqRes, Option.some.injEq] at h
  split at h <;> simp at h
  subst h; assumption

theorem rel_ok {re : List Bool} {lk lk' : Locks} {t : Nat} {l : LockId}
    (h : protoOp re lk t (.rel l) = some (.ok lk')) : release re lk t l = some lk' := by
  simp only [protoOp, relRes, Option.some.injEq] at h
  split at h <;> simp at h
  subst h; assumption

theorem rel_error {re : List Bool} {lk : Locks} {t : Nat} {l : LockId}
    (h : protoOp re lk t (.rel l) = some .error) : release re lk t l = none := by
  simp only [protoOp, relRes, Option.some.injEq] at h
  split at h <;> simp at h
  assumption

/-- RA1: `self._no_readers.acquire()` -/
theorem inv_ra1 {s s' : PState} {t : Nat} (hinv : MutexInv s)
    (hp : s.pos[t]? = some (.acq false 1))
    (h : pstep referenceProtocol s t .op = some s') : MutexInv s' := by
  have hi : instrAt referenceProtocol (.acq false 1) = some (.acq lNr) := rfl
  have hnext : nextPos referenceProtocol (.acq false 1) = .acq false 2 := rfl
  have len := hinv.len
  rcases pstep_op_cases hp hi h with ⟨lk', ho, rfl⟩ | ⟨ho, rfl⟩
  · obtain ⟨hc0, rfl⟩ := acquire_plain ref_re_nr (acq_ok ho)
    rw [hnext]
    move_counts hp (Phase.acq false 2)
    have hnr := hinv.nr; have hnrle := hinv.nr_le; have hv := hinv.valid
    have hrc := hinv.rc; have hwc := hinv.wc; have hnw := hinv.nw; have hnwle := hinv.nw_le
    rw [hnr] at hc0; simp only at hc0
    apply mutexInv_mk hinv hp (by simp [setLock_len, len])
    · exact lockMove_same rfl (by lock_frame len)
    · exact lockMove_same rfl (by lock_frame len)
    · exact lockMove_same rfl (by lock_frame len)
    · cnt_omega
    · show s.lk.rc = _; rw [hrc]; congr 1; cnt_omega
    · show s.lk.wc = _; rw [hwc]; congr 1; cnt_omega
    · cnt_omega
    · lock_frame len; rw [hnw]; congr 1; cnt_omega
    · cnt_omega
    · lock_frame len; congr 1; cnt_omega
  · exact (acq_not_error ho).elim

/-- RA2: `self._read_switch._mutex.acquire()` -/
theorem inv_ra2 {s s' : PState} {t : Nat} (hinv : MutexInv s)
    (hp : s.pos[t]? = some (.acq false 2))
    (h : pstep referenceProtocol s t .op = some s') : MutexInv s' := by
  have hi : instrAt referenceProtocol (.acq false 2) = some (.acq lRm) := rfl
  have hnext : nextPos referenceProtocol (.acq false 2) = .acq false 3 := rfl
  have len := hinv.len
  rcases pstep_op_cases hp hi h with ⟨lk', ho, rfl⟩ | ⟨ho, rfl⟩
  · obtain ⟨hc0, rfl⟩ := acquire_reentrant_free ref_re_rm (hinv.rm_count.2 t _ hp rfl) (acq_ok ho)
    rw [hnext]
    move_counts hp (Phase.acq false 3)
    have hnr := hinv.nr; have hnrle := hinv.nr_le; have hv := hinv.valid
    have hrc := hinv.rc; have hwc := hinv.wc; have hnw := hinv.nw; have hnwle := hinv.nw_le
    apply mutexInv_mk hinv hp (by simp [setLock_len, len])
    · exact lockMove_same rfl (by lock_frame len)
    · exact Or.inr (Or.inl ⟨rfl, rfl, hc0, by lock_frame len⟩)
    · exact lockMove_same rfl (by lock_frame len)
    · cnt_omega
    · show s.lk.rc = _; rw [hrc]; congr 1; cnt_omega
    · show s.lk.wc = _; rw [hwc]; congr 1; cnt_omega
    · cnt_omega
    · lock_frame len; rw [hnw]; congr 1; cnt_omega
    · cnt_omega
    · lock_frame len; rw [hnr]; congr 1; cnt_omega
  · exact (acq_not_error ho).elim

theorem MutexInv.nw_count {s : PState} (h : MutexInv s) :
    (s.lk.lock lNw).count = sWnw s.pos + min 1 (sRp s.pos) := by rw [h.nw]
theorem MutexInv.nr_count {s : PState} (h : MutexInv s) :
    (s.lk.lock lNr).count = sRnr s.pos + min 1 (sWp s.pos) := by rw [h.nr]

/-- all numeric facts of the invariant, for `cnt_omega` -/
macro "inv_facts" hinv:ident : tactic => `(tactic| (
  have hv := ($hinv).valid; have hrqle := ($hinv).rq_le; have hrmle := ($hinv).rm_le
  have hwmle := ($hinv).wm_le; have hrc := ($hinv).rc; have hwc := ($hinv).wc
  have hnwle := ($hinv).nw_le; have hnrle := ($hinv).nr_le
  have hnwc := ($hinv).nw_count; have hnrc := ($hinv).nr_count
  have hnw := ($hinv).nw; have hnr := ($hinv).nr
  simp only [Int.ofNat_eq_natCast] at hrc hwc))

/-- RA3: `self._counter += 1` (read switch) -/
theorem inv_ra3 {s s' : PState} {t : Nat} (hinv : MutexInv s)
    (hp : s.pos[t]? = some (.acq false 3))
    (h : pstep referenceProtocol s t .op = some s') : MutexInv s' := by
  have hi : instrAt referenceProtocol (.acq false 3) = some (.inc .readCtr) := rfl
  have hnext : nextPos referenceProtocol (.acq false 3) = .acq false 4 := rfl
  have len := hinv.len
  rcases pstep_op_cases hp hi h with ⟨lk', ho, rfl⟩ | ⟨ho, rfl⟩
  · simp only [protoOp, Option.some.injEq, PRes.ok.injEq] at ho
    subst ho
    rw [hnext]
    move_counts hp (Phase.acq false 4)
    inv_facts hinv
    apply mutexInv_mk hinv hp (by simp [setCtr_len, len])
    · exact lockMove_same rfl (by lock_frame len)
    · exact lockMove_same rfl (by lock_frame len)
    · exact lockMove_same rfl (by lock_frame len)
    · cnt_omega
    · show s.lk.rc + 1 = _; simp only [Int.ofNat_eq_natCast]; cnt_omega
    · show s.lk.wc = _; simp only [Int.ofNat_eq_natCast]; cnt_omega
    · cnt_omega
    · lock_frame len; rw [hinv.nw]; congr 1; cnt_omega
    · cnt_omega
    · lock_frame len; rw [hinv.nr]; congr 1; cnt_omega
  · simp [protoOp] at ho

/-- RA4: `if self._counter == 1: self._no_writers.acquire()` -/
theorem inv_ra4 {s s' : PState} {t : Nat} (hinv : MutexInv s)
    (hp : s.pos[t]? = some (.acq false 4))
    (h : pstep referenceProtocol s t .op = some s') : MutexInv s' := by
  have hi : instrAt referenceProtocol (.acq false 4) = some (.acqIf .readCtr 1 lNw) := rfl
  have hnext : nextPos referenceProtocol (.acq false 4) = .acq false 5 := rfl
  have len := hinv.len
  rcases pstep_op_cases hp hi h with ⟨lk', ho, rfl⟩ | ⟨ho, rfl⟩
  · simp only [protoOp, Option.some.injEq, Locks.ctr] at ho
    rw [hnext]
    move_counts hp (Phase.acq false 5)
    inv_facts hinv
    by_cases h1 : s.lk.rc = 1
    · simp only [h1, beq_self_eq_true, if_true, acqRes] at ho
      split at ho <;> simp at ho
      subst ho
      rename_i lk' hacq
      obtain ⟨hc0, rfl⟩ := acquire_plain ref_re_nw hacq
      apply mutexInv_mk hinv hp (by simp [setLock_len, len])
      · exact lockMove_same rfl (by lock_frame len)
      · exact lockMove_same rfl (by lock_frame len)
      · exact lockMove_same rfl (by lock_frame len)
      · cnt_omega
      · show s.lk.rc = _; simp only [Int.ofNat_eq_natCast]; cnt_omega
      · show s.lk.wc = _; simp only [Int.ofNat_eq_natCast]; cnt_omega
      · cnt_omega
      · lock_frame len; congr 1; cnt_omega
      · cnt_omega
      · lock_frame len; rw [hinv.nr]; congr 1; cnt_omega
    · have hne : (s.lk.rc == 1) = false := by simpa using h1
      simp only [hne, Bool.false_eq_true, if_false, PRes.ok.injEq] at ho
      subst ho
      apply mutexInv_mk hinv hp len
      · exact lockMove_same rfl rfl
      · exact lockMove_same rfl rfl
      · exact lockMove_same rfl rfl
      · cnt_omega
      · show s.lk.rc = _; simp only [Int.ofNat_eq_natCast]; cnt_omega
      · show s.lk.wc = _; simp only [Int.ofNat_eq_natCast]; cnt_omega
      · cnt_omega
      · rw [hinv.nw]; congr 1; cnt_omega
      · cnt_omega
      · rw [hinv.nr]; congr 1; cnt_omega
  · simp only [protoOp, Option.some.injEq] at ho
    split at ho
    · simp only [acqRes] at ho; split at ho <;> simp at ho
    · simp at ho

/-- the common part of a step that releases a lock: the release goes through -/
theorem rel_goes_through {re : List Bool} {lk : Locks} {t : Nat} {l : LockId} {r : PRes}
    (ho : protoOp re lk t (.rel l) = some r)
    (hheld : (isReentrant re l = true ∧ lk.lock l = ⟨t + 1, 1⟩) ∨
             (isReentrant re l = false ∧ (lk.lock l).count ≠ 0)) :
    r = .ok (lk.setLock l {}) := by
  have := release_held hheld
  simp only [protoOp, relRes, this, Option.some.injEq] at ho
  exact ho.symm

/-- RA5: `self._read_switch._mutex.release()` -/
theorem inv_ra5 {s s' : PState} {t : Nat} (hinv : MutexInv s)
    (hp : s.pos[t]? = some (.acq false 5))
    (h : pstep referenceProtocol s t .op = some s') : MutexInv s' := by
  have hi : instrAt referenceProtocol (.acq false 5) = some (.rel lRm) := rfl
  have hnext : nextPos referenceProtocol (.acq false 5) = .acq false 6 := rfl
  have len := hinv.len
  have hheld := hinv.rm_own t _ hp rfl
  rcases pstep_op_cases hp hi h with ⟨lk', ho, rfl⟩ | ⟨ho, rfl⟩
  · have := rel_goes_through ho (Or.inl ⟨ref_re_rm, hheld⟩)
    simp only [PRes.ok.injEq] at this
    subst this
    rw [hnext]
    move_counts hp (Phase.acq false 6)
    inv_facts hinv
    apply mutexInv_mk hinv hp (by simp [setLock_len, len])
    · exact lockMove_same rfl (by lock_frame len)
    · exact Or.inr (Or.inr ⟨rfl, rfl, by lock_frame len⟩)
    · exact lockMove_same rfl (by lock_frame len)
    · cnt_omega
    · show s.lk.rc = _; simp only [Int.ofNat_eq_natCast]; cnt_omega
    · show s.lk.wc = _; simp only [Int.ofNat_eq_natCast]; cnt_omega
    · cnt_omega
    · lock_frame len; rw [hinv.nw]; congr 1; cnt_omega
    · cnt_omega
    · lock_frame len; rw [hinv.nr]; congr 1; cnt_omega
  · have := rel_goes_through ho (Or.inl ⟨ref_re_rm, hheld⟩)
    simp at this

/-- RA6: `self._no_readers.release()` -/
theorem inv_ra6 {s s' : PState} {t : Nat} (hinv : MutexInv s)
    (hp : s.pos[t]? = some (.acq false 6))
    (h : pstep referenceProtocol s t .op = some s') : MutexInv s' := by
  have hi : instrAt referenceProtocol (.acq false 6) = some (.rel lNr) := rfl
  have hnext : nextPos referenceProtocol (.acq false 6) = .acq false 7 := rfl
  have len := hinv.len
  move_counts hp (Phase.acq false 7)
  inv_facts hinv
  have hheld : (s.lk.lock lNr).count ≠ 0 := by cnt_omega
  rcases pstep_op_cases hp hi h with ⟨lk', ho, rfl⟩ | ⟨ho, rfl⟩
  · have := rel_goes_through ho (Or.inr ⟨ref_re_nr, hheld⟩)
    simp only [PRes.ok.injEq] at this
    subst this
    rw [hnext]
    apply mutexInv_mk hinv hp (by simp [setLock_len, len])
    · exact lockMove_same rfl (by lock_frame len)
    · exact lockMove_same rfl (by lock_frame len)
    · exact lockMove_same rfl (by lock_frame len)
    · cnt_omega
    · show s.lk.rc = _; simp only [Int.ofNat_eq_natCast]; cnt_omega
    · show s.lk.wc = _; simp only [Int.ofNat_eq_natCast]; cnt_omega
    · cnt_omega
    · lock_frame len; rw [hinv.nw]; congr 1; cnt_omega
    · cnt_omega
    · lock_frame len; show (⟨0, 0⟩ : LockSt) = _; congr 1; cnt_omega
  · have := rel_goes_through ho (Or.inr ⟨ref_re_nr, hheld⟩)
    simp at this

/-- RA7: `self._readers_queue.release()`; the thread is now inside the reader section -/
theorem inv_ra7 {s s' : PState} {t : Nat} (hinv : MutexInv s)
    (hp : s.pos[t]? = some (.acq false 7))
    (h : pstep referenceProtocol s t .op = some s') : MutexInv s' := by
  have hi : instrAt referenceProtocol (.acq false 7) = some (.rel lRq) := rfl
  have hnext : nextPos referenceProtocol (.acq false 7) = .body false := rfl
  have len := hinv.len
  have hheld := hinv.rq_own t _ hp rfl
  rcases pstep_op_cases hp hi h with ⟨lk', ho, rfl⟩ | ⟨ho, rfl⟩
  · have := rel_goes_through ho (Or.inl ⟨ref_re_rq, hheld⟩)
    simp only [PRes.ok.injEq] at this
    subst this
    rw [hnext]
    move_counts hp (Phase.body false)
    inv_facts hinv
    apply mutexInv_mk hinv hp (by simp [setLock_len, len])
    · exact Or.inr (Or.inr ⟨rfl, rfl, by lock_frame len⟩)
    · exact lockMove_same rfl (by lock_frame len)
    · exact lockMove_same rfl (by lock_frame len)
    · cnt_omega
    · show s.lk.rc = _; simp only [Int.ofNat_eq_natCast]; cnt_omega
    · show s.lk.wc = _; simp only [Int.ofNat_eq_natCast]; cnt_omega
    · cnt_omega
    · lock_frame len; rw [hinv.nw]; congr 1; cnt_omega
    · cnt_omega
    · lock_frame len; rw [hinv.nr]; congr 1; cnt_omega
  · have := rel_goes_through ho (Or.inl ⟨ref_re_rq, hheld⟩)
    simp at this

/-- RR0: `self._read_switch._mutex.acquire()` on the way out (normally or after a raise) -/
theorem inv_rr0 {s s' : PState} {t : Nat} {r : Bool} (hinv : MutexInv s)
    (hp : s.pos[t]? = some (.rel false r 0))
    (h : pstep referenceProtocol s t .op = some s') : MutexInv s' := by
  have hi : instrAt referenceProtocol (.rel false r 0) = some (.acq lRm) := by cases r <;> rfl
  have hnext : nextPos referenceProtocol (.rel false r 0) = .rel false r 1 := by cases r <;> rfl
  have len := hinv.len
  rcases pstep_op_cases hp hi h with ⟨lk', ho, rfl⟩ | ⟨ho, rfl⟩
  · obtain ⟨hc0, rfl⟩ := acquire_reentrant_free ref_re_rm (hinv.rm_count.2 t _ hp rfl) (acq_ok ho)
    rw [hnext]
    move_counts hp (Phase.rel false r 1)
    inv_facts hinv
    apply mutexInv_mk hinv hp (by simp [setLock_len, len])
    · exact lockMove_same rfl (by lock_frame len)
    · exact Or.inr (Or.inl ⟨rfl, rfl, hc0, by lock_frame len⟩)
    · exact lockMove_same rfl (by lock_frame len)
    · cnt_omega
    · show s.lk.rc = _; simp only [Int.ofNat_eq_natCast]; cnt_omega
    · show s.lk.wc = _; simp only [Int.ofNat_eq_natCast]; cnt_omega
    · cnt_omega
    · lock_frame len; rw [hinv.nw]; congr 1; cnt_omega
    · cnt_omega
    · lock_frame len; rw [hinv.nr]; congr 1; cnt_omega
  · exact (acq_not_error ho).elim

/-- RR1: `self._counter -= 1` (read switch) -/
theorem inv_rr1 {s s' : PState} {t : Nat} {r : Bool} (hinv : MutexInv s)
    (hp : s.pos[t]? = some (.rel false r 1))
    (h : pstep referenceProtocol s t .op = some s') : MutexInv s' := by
  have hi : instrAt referenceProtocol (.rel false r 1) = some (.dec .readCtr) := by
    cases r <;> rfl
  have hnext : nextPos referenceProtocol (.rel false r 1) = .rel false r 2 := by cases r <;> rfl
  have len := hinv.len
  rcases pstep_op_cases hp hi h with ⟨lk', ho, rfl⟩ | ⟨ho, rfl⟩
  · simp only [protoOp, Option.some.injEq, PRes.ok.injEq] at ho
    subst ho
    rw [hnext]
    move_counts hp (Phase.rel false r 2)
    inv_facts hinv
    apply mutexInv_mk hinv hp (by simp [setCtr_len, len])
    · exact lockMove_same rfl (by lock_frame len)
    · exact lockMove_same rfl (by lock_frame len)
    · exact lockMove_same rfl (by lock_frame len)
    · cnt_omega
    · show s.lk.rc - 1 = _; simp only [Int.ofNat_eq_natCast]; cnt_omega
    · show s.lk.wc = _; simp only [Int.ofNat_eq_natCast]; cnt_omega
    · cnt_omega
    · lock_frame len; rw [hinv.nw]; congr 1; cnt_omega
    · cnt_omega
    · lock_frame len; rw [hinv.nr]; congr 1; cnt_omega
  · simp [protoOp] at ho

/-- RR2: `if self._counter == 0: self._no_writers.release()` -/
theorem inv_rr2 {s s' : PState} {t : Nat} {r : Bool} (hinv : MutexInv s)
    (hp : s.pos[t]? = some (.rel false r 2))
    (h : pstep referenceProtocol s t .op = some s') : MutexInv s' := by
  have hi : instrAt referenceProtocol (.rel false r 2) = some (.relIf .readCtr 0 lNw) := by
    cases r <;> rfl
  have hnext : nextPos referenceProtocol (.rel false r 2) = .rel false r 3 := by cases r <;> rfl
  have len := hinv.len
  move_counts hp (Phase.rel false r 3)
  inv_facts hinv
  have hheld : (s.lk.lock lNw).count ≠ 0 := by cnt_omega
  rcases pstep_op_cases hp hi h with ⟨lk', ho, rfl⟩ | ⟨ho, rfl⟩
  · rw [hnext]
    simp only [protoOp, Locks.ctr] at ho
    by_cases h0 : s.lk.rc = 0
    · simp only [h0, beq_self_eq_true, if_true] at ho
      have := rel_goes_through (r := .ok lk') (l := lNw) (t := t)
        (by simpa [protoOp] using ho) (Or.inr ⟨ref_re_nw, hheld⟩)
      simp only [PRes.ok.injEq] at this
      subst this
      apply mutexInv_mk hinv hp (by simp [setLock_len, len])
      · exact lockMove_same rfl (by lock_frame len)
      · exact lockMove_same rfl (by lock_frame len)
      · exact lockMove_same rfl (by lock_frame len)
      · cnt_omega
      · show s.lk.rc = _; simp only [Int.ofNat_eq_natCast]; cnt_omega
      · show s.lk.wc = _; simp only [Int.ofNat_eq_natCast]; cnt_omega
      · cnt_omega
      · lock_frame len; show (⟨0, 0⟩ : LockSt) = _; congr 1; cnt_omega
      · cnt_omega
      · lock_frame len; rw [hinv.nr]; congr 1; cnt_omega
    · have hne : (s.lk.rc == 0) = false := by simpa using h0
      simp only [hne, Bool.false_eq_true, if_false, Option.some.injEq, PRes.ok.injEq] at ho
      subst ho
      apply mutexInv_mk hinv hp len
      · exact lockMove_same rfl rfl
      · exact lockMove_same rfl rfl
      · exact lockMove_same rfl rfl
      · cnt_omega
      · show s.lk.rc = _; simp only [Int.ofNat_eq_natCast]; cnt_omega
      · show s.lk.wc = _; simp only [Int.ofNat_eq_natCast]; cnt_omega
      · cnt_omega
      · rw [hinv.nw]; congr 1; cnt_omega
      · cnt_omega
      · rw [hinv.nr]; congr 1; cnt_omega
  · simp only [protoOp, Locks.ctr, Option.some.injEq] at ho
    by_cases h0 : s.lk.rc = 0
    · simp only [h0, beq_self_eq_true, if_true] at ho
      have := rel_goes_through (r := .error) (l := lNw) (t := t)
        (by simp only [protoOp, ho]) (Or.inr ⟨ref_re_nw, hheld⟩)
      simp at this
    · have hne : (s.lk.rc == 0) = false := by simpa using h0
      simp [hne] at ho

/-- RR3: `self._read_switch._mutex.release()`; the thread has left the section -/
theorem inv_rr3 {s s' : PState} {t : Nat} {r : Bool} (hinv : MutexInv s)
    (hp : s.pos[t]? = some (.rel false r 3))
    (h : pstep referenceProtocol s t .op = some s') : MutexInv s' := by
  have hi : instrAt referenceProtocol (.rel false r 3) = some (.rel lRm) := by cases r <;> rfl
  have hnext : nextPos referenceProtocol (.rel false r 3) = .out := by cases r <;> rfl
  have len := hinv.len
  have hheld := hinv.rm_own t _ hp rfl
  rcases pstep_op_cases hp hi h with ⟨lk', ho, rfl⟩ | ⟨ho, rfl⟩
  · have := rel_goes_through ho (Or.inl ⟨ref_re_rm, hheld⟩)
    simp only [PRes.ok.injEq] at this
    subst this
    rw [hnext]
    move_counts hp Phase.out
    inv_facts hinv
    apply mutexInv_mk hinv hp (by simp [setLock_len, len])
    · exact lockMove_same rfl (by lock_frame len)
    · exact Or.inr (Or.inr ⟨rfl, rfl, by lock_frame len⟩)
    · exact lockMove_same rfl (by lock_frame len)
    · cnt_omega
    · show s.lk.rc = _; simp only [Int.ofNat_eq_natCast]; cnt_omega
    · show s.lk.wc = _; simp only [Int.ofNat_eq_natCast]; cnt_omega
    · cnt_omega
    · lock_frame len; rw [hinv.nw]; congr 1; cnt_omega
    · cnt_omega
    · lock_frame len; rw [hinv.nr]; congr 1; cnt_omega
  · have := rel_goes_through ho (Or.inl ⟨ref_re_rm, hheld⟩)
    simp at this

/-- WA0: `self._write_switch._mutex.acquire()` -/
theorem inv_wa0 {s s' : PState} {t : Nat} (hinv : MutexInv s)
    (hp : s.pos[t]? = some (.acq true 0))
    (h : pstep referenceProtocol s t .op = some s') : MutexInv s' := by
  have hi : instrAt referenceProtocol (.acq true 0) = some (.acq lWm) := rfl
  have hnext : nextPos referenceProtocol (.acq true 0) = Phase.acq true 1 := rfl
  have len := hinv.len
  rcases pstep_op_cases hp hi h with ⟨lk', ho, rfl⟩ | ⟨ho, rfl⟩
  · obtain ⟨hc0, rfl⟩ := acquire_reentrant_free ref_re_wm (hinv.wm_count.2 t _ hp rfl) (acq_ok ho)
    rw [hnext]
    move_counts hp (Phase.acq true 1)
    inv_facts hinv
    apply mutexInv_mk hinv hp (by simp [setLock_len, len])
    · exact lockMove_same rfl (by lock_frame len)
    · exact lockMove_same rfl (by lock_frame len)
    · exact Or.inr (Or.inl ⟨rfl, rfl, hc0, by lock_frame len⟩)
    · cnt_omega
    · show s.lk.rc = _; simp only [Int.ofNat_eq_natCast]; cnt_omega
    · show s.lk.wc = _; simp only [Int.ofNat_eq_natCast]; cnt_omega
    · cnt_omega
    · lock_frame len; rw [hinv.nw]; congr 1; cnt_omega
    · cnt_omega
    · lock_frame len; rw [hinv.nr]; congr 1; cnt_omega
  · exact (acq_not_error ho).elim

/-- WA1: `self._counter += 1` (write switch) -/
theorem inv_wa1 {s s' : PState} {t : Nat} (hinv : MutexInv s)
    (hp : s.pos[t]? = some (.acq true 1))
    (h : pstep referenceProtocol s t .op = some s') : MutexInv s' := by
  have hi : instrAt referenceProtocol (.acq true 1) = some (.inc .writeCtr) := rfl
  have hnext : nextPos referenceProtocol (.acq true 1) = Phase.acq true 2 := rfl
  have len := hinv.len
  rcases pstep_op_cases hp hi h with ⟨lk', ho, rfl⟩ | ⟨ho, rfl⟩
  · simp only [protoOp, Option.some.injEq, PRes.ok.injEq] at ho
    subst ho
    rw [hnext]
    move_counts hp (Phase.acq true 2)
    inv_facts hinv
    apply mutexInv_mk hinv hp (by simp [setCtr_len, len])
    · exact lockMove_same rfl (by lock_frame len)
    · exact lockMove_same rfl (by lock_frame len)
    · exact lockMove_same rfl (by lock_frame len)
    · cnt_omega
    · show s.lk.rc = _; simp only [Int.ofNat_eq_natCast]; cnt_omega
    · show s.lk.wc + 1 = _; simp only [Int.ofNat_eq_natCast]; cnt_omega
    · cnt_omega
    · lock_frame len; rw [hinv.nw]; congr 1; cnt_omega
    · cnt_omega
    · lock_frame len; rw [hinv.nr]; congr 1; cnt_omega
  · simp [protoOp] at ho

/-- WA2: `if self._counter == 1: self._no_readers.acquire()` -/
theorem inv_wa2 {s s' : PState} {t : Nat} (hinv : MutexInv s)
    (hp : s.pos[t]? = some (.acq true 2))
    (h : pstep referenceProtocol s t .op = some s') : MutexInv s' := by
  have hi : instrAt referenceProtocol (.acq true 2) = some (.acqIf .writeCtr 1 lNr) := rfl
  have hnext : nextPos referenceProtocol (.acq true 2) = Phase.acq true 3 := rfl
  have len := hinv.len
  rcases pstep_op_cases hp hi h with ⟨lk', ho, rfl⟩ | ⟨ho, rfl⟩
  · simp only [protoOp, Option.some.injEq, Locks.ctr] at ho
    rw [hnext]
    move_counts hp (Phase.acq true 3)
    inv_facts hinv
    by_cases h1 : s.lk.wc = 1
    · simp only [h1, beq_self_eq_true, if_true, acqRes] at ho
      split at ho <;> simp at ho
      subst ho
      rename_i lk' hacq
      obtain ⟨hc0, rfl⟩ := acquire_plain ref_re_nr hacq
      apply mutexInv_mk hinv hp (by simp [setLock_len, len])
      · exact lockMove_same rfl (by lock_frame len)
      · exact lockMove_same rfl (by lock_frame len)
      · exact lockMove_same rfl (by lock_frame len)
      · cnt_omega
      · show s.lk.rc = _; simp only [Int.ofNat_eq_natCast]; cnt_omega
      · show s.lk.wc = _; simp only [Int.ofNat_eq_natCast]; cnt_omega
      · cnt_omega
      · lock_frame len; rw [hinv.nw]; congr 1; cnt_omega
      · cnt_omega
      · lock_frame len; congr 1; cnt_omega
    · have hne : (s.lk.wc == 1) = false := by simpa using h1
      simp only [hne, Bool.false_eq_true, if_false, PRes.ok.injEq] at ho
      subst ho
      apply mutexInv_mk hinv hp len
      · exact lockMove_same rfl rfl
      · exact lockMove_same rfl rfl
      · exact lockMove_same rfl rfl
      · cnt_omega
      · show s.lk.rc = _; simp only [Int.ofNat_eq_natCast]; cnt_omega
      · show s.lk.wc = _; simp only [Int.ofNat_eq_natCast]; cnt_omega
      · cnt_omega
      · rw [hinv.nw]; congr 1; cnt_omega
      · cnt_omega
      · rw [hinv.nr]; congr 1; cnt_omega
  · simp only [protoOp, Option.some.injEq] at ho
    split at ho
    · simp only [acqRes] at ho; split at ho <;> simp at ho
    · simp at ho

/-- WA3: `self._write_switch._mutex.release()` -/
theorem inv_wa3 {s s' : PState} {t : Nat} (hinv : MutexInv s)
    (hp : s.pos[t]? = some (.acq true 3))
    (h : pstep referenceProtocol s t .op = some s') : MutexInv s' := by
  have hi : instrAt referenceProtocol (.acq true 3) = some (.rel lWm) := rfl
  have hnext : nextPos referenceProtocol (.acq true 3) = Phase.acq true 4 := rfl
  have len := hinv.len
  have hheld := hinv.wm_own t _ hp rfl
  rcases pstep_op_cases hp hi h with ⟨lk', ho, rfl⟩ | ⟨ho, rfl⟩
  · have := rel_goes_through ho (Or.inl ⟨ref_re_wm, hheld⟩)
    simp only [PRes.ok.injEq] at this
    subst this
    rw [hnext]
    move_counts hp (Phase.acq true 4)
    inv_facts hinv
    apply mutexInv_mk hinv hp (by simp [setLock_len, len])
    · exact lockMove_same rfl (by lock_frame len)
    · exact lockMove_same rfl (by lock_frame len)
    · exact Or.inr (Or.inr ⟨rfl, rfl, by lock_frame len⟩)
    · cnt_omega
    · show s.lk.rc = _; simp only [Int.ofNat_eq_natCast]; cnt_omega
    · show s.lk.wc = _; simp only [Int.ofNat_eq_natCast]; cnt_omega
    · cnt_omega
    · lock_frame len; rw [hinv.nw]; congr 1; cnt_omega
    · cnt_omega
    · lock_frame len; rw [hinv.nr]; congr 1; cnt_omega
  · have := rel_goes_through ho (Or.inl ⟨ref_re_wm, hheld⟩)
    simp at this

/-- WA4: `self._no_writers.acquire()`; the thread is now inside the writer section -/
theorem inv_wa4 {s s' : PState} {t : Nat} (hinv : MutexInv s)
    (hp : s.pos[t]? = some (.acq true 4))
    (h : pstep referenceProtocol s t .op = some s') : MutexInv s' := by
  have hi : instrAt referenceProtocol (.acq true 4) = some (.acq lNw) := rfl
  have hnext : nextPos referenceProtocol (.acq true 4) = Phase.body true := rfl
  have len := hinv.len
  rcases pstep_op_cases hp hi h with ⟨lk', ho, rfl⟩ | ⟨ho, rfl⟩
  · obtain ⟨hc0, rfl⟩ := acquire_plain ref_re_nw (acq_ok ho)
    rw [hnext]
    move_counts hp (Phase.body true)
    inv_facts hinv
    apply mutexInv_mk hinv hp (by simp [setLock_len, len])
    · exact lockMove_same rfl (by lock_frame len)
    · exact lockMove_same rfl (by lock_frame len)
    · exact lockMove_same rfl (by lock_frame len)
    · cnt_omega
    · show s.lk.rc = _; simp only [Int.ofNat_eq_natCast]; cnt_omega
    · show s.lk.wc = _; simp only [Int.ofNat_eq_natCast]; cnt_omega
    · cnt_omega
    · lock_frame len; congr 1; cnt_omega
    · cnt_omega
    · lock_frame len; rw [hinv.nr]; congr 1; cnt_omega
  · exact (acq_not_error ho).elim

/-- WR0: `self._no_writers.release()` (normally or after a raise) -/
theorem inv_wr0 {s s' : PState} {t : Nat} {r : Bool} (hinv : MutexInv s)
    (hp : s.pos[t]? = some (.rel true r 0))
    (h : pstep referenceProtocol s t .op = some s') : MutexInv s' := by
  have hi : instrAt referenceProtocol (.rel true r 0) = some (.rel lNw) := by cases r <;> rfl
  have hnext : nextPos referenceProtocol (.rel true r 0) = Phase.rel true r 1 := by cases r <;> rfl
  have len := hinv.len
  move_counts hp (Phase.rel true r 1)
  inv_facts hinv
  have hheld : (s.lk.lock lNw).count ≠ 0 := by cnt_omega
  rcases pstep_op_cases hp hi h with ⟨lk', ho, rfl⟩ | ⟨ho, rfl⟩
  · have := rel_goes_through ho (Or.inr ⟨ref_re_nw, hheld⟩)
    simp only [PRes.ok.injEq] at this
    subst this
    rw [hnext]
    apply mutexInv_mk hinv hp (by simp [setLock_len, len])
    · exact lockMove_same rfl (by lock_frame len)
    · exact lockMove_same rfl (by lock_frame len)
    · exact lockMove_same rfl (by lock_frame len)
    · cnt_omega
    · show s.lk.rc = _; simp only [Int.ofNat_eq_natCast]; cnt_omega
    · show s.lk.wc = _; simp only [Int.ofNat_eq_natCast]; cnt_omega
    · cnt_omega
    · lock_frame len; show (⟨0, 0⟩ : LockSt) = _; congr 1; cnt_omega
    · cnt_omega
    · lock_frame len; rw [hinv.nr]; congr 1; cnt_omega
  · have := rel_goes_through ho (Or.inr ⟨ref_re_nw, hheld⟩)
    simp at this

/-- WR1: `self._write_switch._mutex.acquire()` on the way out -/
theorem inv_wr1 {s s' : PState} {t : Nat} {r : Bool} (hinv : MutexInv s)
    (hp : s.pos[t]? = some (.rel true r 1))
    (h : pstep referenceProtocol s t .op = some s') : MutexInv s' := by
  have hi : instrAt referenceProtocol (.rel true r 1) = some (.acq lWm) := by cases r <;> rfl
  have hnext : nextPos referenceProtocol (.rel true r 1) = Phase.rel true r 2 := by cases r <;> rfl
  have len := hinv.len
  rcases pstep_op_cases hp hi h with ⟨lk', ho, rfl⟩ | ⟨ho, rfl⟩
  · obtain ⟨hc0, rfl⟩ := acquire_reentrant_free ref_re_wm (hinv.wm_count.2 t _ hp rfl) (acq_ok ho)
    rw [hnext]
    move_counts hp (Phase.rel true r 2)
    inv_facts hinv
    apply mutexInv_mk hinv hp (by simp [setLock_len, len])
    · exact lockMove_same rfl (by lock_frame len)
    · exact lockMove_same rfl (by lock_frame len)
    · exact Or.inr (Or.inl ⟨rfl, rfl, hc0, by lock_frame len⟩)
    · cnt_omega
    · show s.lk.rc = _; simp only [Int.ofNat_eq_natCast]; cnt_omega
    · show s.lk.wc = _; simp only [Int.ofNat_eq_natCast]; cnt_omega
    · cnt_omega
    · lock_frame len; rw [hinv.nw]; congr 1; cnt_omega
    · cnt_omega
    · lock_frame len; rw [hinv.nr]; congr 1; cnt_omega
  · exact (acq_not_error ho).elim

/-- WR2: `self._counter -= 1` (write switch) -/
theorem inv_wr2 {s s' : PState} {t : Nat} {r : Bool} (hinv : MutexInv s)
    (hp : s.pos[t]? = some (.rel true r 2))
    (h : pstep referenceProtocol s t .op = some s') : MutexInv s' := by
  have hi : instrAt referenceProtocol (.rel true r 2) = some (.dec .writeCtr) := by cases r <;> rfl
  have hnext : nextPos referenceProtocol (.rel true r 2) = Phase.rel true r 3 := by cases r <;> rfl
  have len := hinv.len
  rcases pstep_op_cases hp hi h with ⟨lk', ho, rfl⟩ | ⟨ho, rfl⟩
  · simp only [protoOp, Option.some.injEq, PRes.ok.injEq] at ho
    subst ho
    rw [hnext]
    move_counts hp (Phase.rel true r 3)
    inv_facts hinv
    apply mutexInv_mk hinv hp (by simp [setCtr_len, len])
    · exact lockMove_same rfl (by lock_frame len)
    · exact lockMove_same rfl (by lock_frame len)
    · exact lockMove_same rfl (by lock_frame len)
    · cnt_omega
    · show s.lk.rc = _; simp only [Int.ofNat_eq_natCast]; cnt_omega
    · show s.lk.wc - 1 = _; simp only [Int.ofNat_eq_natCast]; cnt_omega
    · cnt_omega
    · lock_frame len; rw [hinv.nw]; congr 1; cnt_omega
    · cnt_omega
    · lock_frame len; rw [hinv.nr]; congr 1; cnt_omega
  · simp [protoOp] at ho

/-- WR3: `if self._counter == 0: self._no_readers.release()` -/
theorem inv_wr3 {s s' : PState} {t : Nat} {r : Bool} (hinv : MutexInv s)
    (hp : s.pos[t]? = some (.rel true r 3))
    (h : pstep referenceProtocol s t .op = some s') : MutexInv s' := by
  have hi : instrAt referenceProtocol (.rel true r 3) = some (.relIf .writeCtr 0 lNr) := by cases r <;> rfl
  have hnext : nextPos referenceProtocol (.rel true r 3) = Phase.rel true r 4 := by cases r <;> rfl
  have len := hinv.len
  move_counts hp (Phase.rel true r 4)
  inv_facts hinv
  have hheld : (s.lk.lock lNr).count ≠ 0 := by cnt_omega
  rcases pstep_op_cases hp hi h with ⟨lk', ho, rfl⟩ | ⟨ho, rfl⟩
  · rw [hnext]
    simp only [protoOp, Locks.ctr] at ho
    by_cases h0 : s.lk.wc = 0
    · simp only [h0, beq_self_eq_true, if_true] at ho
      have := rel_goes_through (r := .ok lk') (l := lNr) (t := t)
        (by simpa [protoOp] using ho) (Or.inr ⟨ref_re_nr, hheld⟩)
      simp only [PRes.ok.injEq] at this
      subst this
      apply mutexInv_mk hinv hp (by simp [setLock_len, len])
      · exact lockMove_same rfl (by lock_frame len)
      · exact lockMove_same rfl (by lock_frame len)
      · exact lockMove_same rfl (by lock_frame len)
      · cnt_omega
      · show s.lk.rc = _; simp only [Int.ofNat_eq_natCast]; cnt_omega
      · show s.lk.wc = _; simp only [Int.ofNat_eq_natCast]; cnt_omega
      · cnt_omega
      · lock_frame len; rw [hinv.nw]; congr 1; cnt_omega
      · cnt_omega
      · lock_frame len; show (⟨0, 0⟩ : LockSt) = _; congr 1; cnt_omega
    · have hne : (s.lk.wc == 0) = false := by simpa using h0
      simp only [hne, Bool.false_eq_true, if_false, Option.some.injEq, PRes.ok.injEq] at ho
      subst ho
      apply mutexInv_mk hinv hp len
      · exact lockMove_same rfl rfl
      · exact lockMove_same rfl rfl
      · exact lockMove_same rfl rfl
      · cnt_omega
      · show s.lk.rc = _; simp only [Int.ofNat_eq_natCast]; cnt_omega
      · show s.lk.wc = _; simp only [Int.ofNat_eq_natCast]; cnt_omega
      · cnt_omega
      · rw [hinv.nw]; congr 1; cnt_omega
      · cnt_omega
      · rw [hinv.nr]; congr 1; cnt_omega
  · simp only [protoOp, Locks.ctr, Option.some.injEq] at ho
    by_cases h0 : s.lk.wc = 0
    · simp only [h0, beq_self_eq_true, if_true] at ho
      have := rel_goes_through (r := .error) (l := lNr) (t := t)
        (by simp only [protoOp, ho]) (Or.inr ⟨ref_re_nr, hheld⟩)
      simp at this
    · have hne : (s.lk.wc == 0) = false := by simpa using h0
      simp [hne] at ho

/-- WR4: `self._write_switch._mutex.release()`; the thread has left the section -/
theorem inv_wr4 {s s' : PState} {t : Nat} {r : Bool} (hinv : MutexInv s)
    (hp : s.pos[t]? = some (.rel true r 4))
    (h : pstep referenceProtocol s t .op = some s') : MutexInv s' := by
  have hi : instrAt referenceProtocol (.rel true r 4) = some (.rel lWm) := by cases r <;> rfl
  have hnext : nextPos referenceProtocol (.rel true r 4) = Phase.out := by cases r <;> rfl
  have len := hinv.len
  have hheld := hinv.wm_own t _ hp rfl
  rcases pstep_op_cases hp hi h with ⟨lk', ho, rfl⟩ | ⟨ho, rfl⟩
  · have := rel_goes_through ho (Or.inl ⟨ref_re_wm, hheld⟩)
    simp only [PRes.ok.injEq] at this
    subst this
    rw [hnext]
    move_counts hp (Phase.out)
    inv_facts hinv
    apply mutexInv_mk hinv hp (by simp [setLock_len, len])
    · exact lockMove_same rfl (by lock_frame len)
    · exact lockMove_same rfl (by lock_frame len)
    · exact Or.inr (Or.inr ⟨rfl, rfl, by lock_frame len⟩)
    · cnt_omega
    · show s.lk.rc = _; simp only [Int.ofNat_eq_natCast]; cnt_omega
    · show s.lk.wc = _; simp only [Int.ofNat_eq_natCast]; cnt_omega
    · cnt_omega
    · lock_frame len; rw [hinv.nw]; congr 1; cnt_omega
    · cnt_omega
    · lock_frame len; rw [hinv.nr]; congr 1; cnt_omega
  · have := rel_goes_through ho (Or.inl ⟨ref_re_wm, hheld⟩)
    simp at this


theorem mutexInv_leave {s : PState} (hinv : MutexInv s) {t : Nat} (w r : Bool)
    (hp : s.pos[t]? = some (.body w)) :
    MutexInv (s.setPos t (leavePos referenceProtocol w r)) := by
  have len := hinv.len
  have hnext : leavePos referenceProtocol w r = .rel w r 0 := by cases w <;> cases r <;> rfl
  rw [hnext]
  cases w
  · move_counts hp (Phase.rel false r 0)
    inv_facts hinv
    apply mutexInv_mk hinv hp len
    · exact lockMove_same rfl rfl
    · exact lockMove_same rfl rfl
    · exact lockMove_same rfl rfl
    · cnt_omega
    · show s.lk.rc = _; simp only [Int.ofNat_eq_natCast]; cnt_omega
    · show s.lk.wc = _; simp only [Int.ofNat_eq_natCast]; cnt_omega
    · cnt_omega
    · rw [hinv.nw]; congr 1; cnt_omega
    · cnt_omega
    · rw [hinv.nr]; congr 1; cnt_omega
  · move_counts hp (Phase.rel true r 0)
    inv_facts hinv
    apply mutexInv_mk hinv hp len
    · exact lockMove_same rfl rfl
    · exact lockMove_same rfl rfl
    · exact lockMove_same rfl rfl
    · cnt_omega
    · show s.lk.rc = _; simp only [Int.ofNat_eq_natCast]; cnt_omega
    · show s.lk.wc = _; simp only [Int.ofNat_eq_natCast]; cnt_omega
    · cnt_omega
    · rw [hinv.nw]; congr 1; cnt_omega
    · cnt_omega
    · rw [hinv.nr]; congr 1; cnt_omega

/-- `mutex_inv` is preserved by every action of every thread -/
theorem mutexInv_step {s s' : PState} {t : Nat} {lab : Lab} (hinv : MutexInv s)
    (h : pstep referenceProtocol s t lab = some s') : MutexInv s' := by
  cases hp : s.pos[t]? with
  | none => simp [pstep, hp] at h
  | some p =>
    cases lab with
    | begin w =>
      simp only [pstep, hp] at h
      split at h
      · rename_i hout
        have : p = .out := by simpa using hout
        subst this
        simp only [Option.some.injEq] at h
        subst h
        exact mutexInv_begin hinv w hp
      · simp at h
    | leave r =>
      simp only [pstep, hp] at h
      split at h
      · simp only [Option.some.injEq] at h
        subst h
        exact mutexInv_leave hinv _ r hp
      · simp at h
    | op =>
      have hnone : ∀ q, s.pos[t]? = some q → instrAt referenceProtocol q = none → False := by
        intro q hq hi
        simp [pstep, hq, hi] at h
      cases p with
      | out => exact (hnone _ hp rfl).elim
      | body w => exact (hnone _ hp rfl).elim
      | acq w j =>
        cases w with
        | false =>
          match j, hp with
          | 0, hp => exact inv_ra0 hinv hp h
          | 1, hp => exact inv_ra1 hinv hp h
          | 2, hp => exact inv_ra2 hinv hp h
          | 3, hp => exact inv_ra3 hinv hp h
          | 4, hp => exact inv_ra4 hinv hp h
          | 5, hp => exact inv_ra5 hinv hp h
          | 6, hp => exact inv_ra6 hinv hp h
          | 7, hp => exact inv_ra7 hinv hp h
          | j + 8, hp => exact (hnone _ hp rfl).elim
        | true =>
          match j, hp with
          | 0, hp => exact inv_wa0 hinv hp h
          | 1, hp => exact inv_wa1 hinv hp h
          | 2, hp => exact inv_wa2 hinv hp h
          | 3, hp => exact inv_wa3 hinv hp h
          | 4, hp => exact inv_wa4 hinv hp h
          | j + 5, hp => exact (hnone _ hp rfl).elim
      | rel w r j =>
        cases w with
        | false =>
          match j, hp with
          | 0, hp => exact inv_rr0 hinv hp h
          | 1, hp => exact inv_rr1 hinv hp h
          | 2, hp => exact inv_rr2 hinv hp h
          | 3, hp => exact inv_rr3 hinv hp h
          | j + 4, hp => exact (hnone _ hp (by cases r <;> rfl)).elim
        | true =>
          match j, hp with
          | 0, hp => exact inv_wr0 hinv hp h
          | 1, hp => exact inv_wr1 hinv hp h
          | 2, hp => exact inv_wr2 hinv hp h
          | 3, hp => exact inv_wr3 hinv hp h
          | 4, hp => exact inv_wr4 hinv hp h
          | j + 5, hp => exact (hnone _ hp (by cases r <;> rfl)).elim

/-- the invariant holds in every reachable state, for ANY number of threads -/
theorem mutexInv_reach {n : Nat} : ∀ s, PReach referenceProtocol n s → MutexInv s := by
  intro s hr
  induction hr with
  | init => exact mutexInv_init n
  | step _ hstep ih => exact mutexInv_step ih hstep

/-! ### corollaries: exclusion, nothing leaked -/

theorem kOf_acq_ne_body (w : Bool) (j : Nat) : kOf (.acq w j) ≠ .wb ∧ kOf (.acq w j) ≠ .rb := by
  cases w <;> rcases j with _ | _ | _ | _ | _ | _ | _ | _ | _ <;> simp [kOf]

theorem kOf_rel_ne_body (w r : Bool) (j : Nat) :
    kOf (.rel w r j) ≠ .wb ∧ kOf (.rel w r j) ≠ .rb := by
  cases w <;> rcases j with _ | _ | _ | _ | _ | _ <;> simp [kOf]

theorem isWBody_eq (p : Phase) : isWBody p = (kOf p == .wb) := by
  cases p with
  | out => rfl
  | body w => cases w <;> rfl
  | acq w j => simp [isWBody, (kOf_acq_ne_body w j).1]
  | rel w r j => simp [isWBody, (kOf_rel_ne_body w r j).1]

theorem isBody_eq (p : Phase) : isBody p = (kOf p == .wb || kOf p == .rb) := by
  cases p with
  | out => rfl
  | body w => cases w <;> rfl
  | acq w j => simp [isBody, (kOf_acq_ne_body w j).1, (kOf_acq_ne_body w j).2]
  | rel w r j => simp [isBody, (kOf_rel_ne_body w r j).1, (kOf_rel_ne_body w r j).2]

theorem countP_isWBody (pos : List Phase) : pos.countP isWBody = cnt pos .wb := by
  unfold cnt; congr 1; funext p; exact isWBody_eq p

theorem countP_isBody (pos : List Phase) : pos.countP isBody = cnt pos .wb + cnt pos .rb := by
  induction pos with
  | nil => rfl
  | cons p ps ih =>
    simp only [List.countP_cons, cnt_cons, ih, isBody_eq]
    cases kOf p <;> simp <;> omega

/-- at most one writer inside; a writer inside excludes every reader -/
theorem inv_exclusion {s : PState} (hinv : MutexInv s) :
    cnt s.pos .wb ≤ 1 ∧ (1 ≤ cnt s.pos .wb → cnt s.pos .rb = 0) := by
  have h := hinv.nw_le
  simp only [sWnw, sRp] at h
  constructor <;> omega

theorem ble_false {a b : Nat} (h : ¬ a ≤ b) : Nat.ble a b = false := by
  cases hb : Nat.ble a b with
  | false => rfl
  | true => exact absurd (Nat.le_of_ble_eq_true hb) h

theorem inv_not_violated {s : PState} (hinv : MutexInv s) : pexclusionViolated s = false := by
  have ⟨h1, h2⟩ := inv_exclusion hinv
  unfold pexclusionViolated
  rw [countP_isWBody, countP_isBody]
  by_cases hw : 1 ≤ cnt s.pos .wb
  · have := h2 hw
    rw [ble_false (a := 2) (by omega)]; simp
  · rw [ble_false (a := 1) hw]; simp

theorem cnt_zero_of_all_out {pos : List Phase} (h : pos.all (· == .out) = true) (k : K)
    (hk : k ≠ .out) : cnt pos k = 0 := by
  unfold cnt
  apply List.countP_eq_zero.2
  intro p hp
  simp only [List.all_eq_true, beq_iff_eq] at h
  rw [h p hp]
  simp only [kOf, beq_iff_eq]
  exact fun e => hk e.symm

/-- when every thread is outside its sections — however the sections ended — every lock is free
    and both counters are zero -/
theorem inv_not_leaked {s : PState} (hinv : MutexInv s) : pleaked s = false := by
  cases hall : s.pos.all (· == .out) with
  | false => simp [pleaked, hall]
  | true =>
    have hz := fun k hk => cnt_zero_of_all_out hall k hk
    have z : ∀ k : K, k ≠ .out → cnt s.pos k = 0 := hz
    have hrq := hinv.rq_free (by simp [sRq, z])
    have hrm := hinv.rm_free (by simp [sRm, z])
    have hwm := hinv.wm_free (by simp [sWm, z])
    have hnw := hinv.nw; have hnr := hinv.nr
    have hrc := hinv.rc; have hwc := hinv.wc
    simp [sWnw, sRp, sRnr, sWp, sRc, sWc, z] at hnw hnr hrc hwc
    have hfree : s.lk.free = true := by
      simp only [Locks.free, Bool.and_eq_true, List.all_eq_true, beq_iff_eq, hrc, hwc, and_true]
      intro x hx
      obtain ⟨i, hi, rfl⟩ := List.getElem_of_mem hx
      rw [hinv.len] at hi
      have hl : ∀ (l : LockId) (j : Nat) (hj : j < s.lk.locks.length), l.idx = j →
          s.lk.locks[j] = s.lk.lock l := by
        intro l j hj hlj
        subst hlj
        simp [Locks.lock, List.getD_eq_getElem?_getD, List.getElem?_eq_getElem hj]
      match i, hi with
      | 0, _ => rw [hl lNr 0 _ rfl, hnr]
      | 1, _ => rw [hl lNw 1 _ rfl, hnw]
      | 2, _ => rw [hl lRq 2 _ rfl, hrq]
      | 3, _ => rw [hl lRm 3 _ rfl, hrm]
      | 4, _ => rw [hl lWm 4 _ rfl, hwm]
    simp [pleaked, hfree]

/-! ### no failing release, no deadlock — any number of threads -/

/-- when a thread at a position of class `k` cannot move, this is what the state looks like -/
def blockedCond (s : PState) : K → Prop
  | .out => True
  | .ra0 => 1 ≤ sRq s.pos
  | .ra1 => 1 ≤ sRnr s.pos + min 1 (sWp s.pos)
  | .ra2 | .rr0 => 1 ≤ sRm s.pos
  | .ra4 => s.lk.rc = 1 ∧ 1 ≤ sWnw s.pos + min 1 (sRp s.pos)
  | .wa0 | .wr1 => 1 ≤ sWm s.pos
  | .wa2 => s.lk.wc = 1 ∧ 1 ≤ sRnr s.pos + min 1 (sWp s.pos)
  | .wa4 => 1 ≤ sWnw s.pos + min 1 (sRp s.pos)
  | _ => False

def notBlocked : Option PRes → Bool
  | some .blocked => false
  | some _ => true
  | none => false

theorem canMoveAt_eq {lk : Locks} {t : Nat} {p : Phase} {ins : Instr}
    (hi : instrAt referenceProtocol p = some ins) :
    canMoveAt referenceProtocol lk t p
      = notBlocked (protoOp referenceProtocol.reentrant lk t ins) := by
  cases p with
  | out => simp [instrAt] at hi
  | body w => simp [instrAt] at hi
  | acq w j =>
    simp only [canMoveAt, hi]
    cases protoOp referenceProtocol.reentrant lk t ins with
    | none => rfl
    | some r => cases r <;> rfl
  | rel w r j =>
    simp only [canMoveAt, hi]
    cases protoOp referenceProtocol.reentrant lk t ins with
    | none => rfl
    | some r => cases r <;> rfl

theorem canMove_acq {lk : Locks} {t : Nat} {p : Phase} {l : LockId}
    (hi : instrAt referenceProtocol p = some (.acq l))
    (h : canMoveAt referenceProtocol lk t p = false) : (lk.lock l).count ≠ 0 := by
  rw [canMoveAt_eq hi] at h
  simp only [protoOp, acqRes] at h
  cases hn : acquire referenceProtocol.reentrant lk t l with
  | none => exact (acquire_none hn).1
  | some lk' => simp [hn, notBlocked] at h

theorem canMove_acqIf {lk : Locks} {t : Nat} {p : Phase} {c : Ctr} {k : Int} {l : LockId}
    (hi : instrAt referenceProtocol p = some (.acqIf c k l))
    (h : canMoveAt referenceProtocol lk t p = false) :
    lk.ctr c = k ∧ (lk.lock l).count ≠ 0 := by
  rw [canMoveAt_eq hi] at h
  simp only [protoOp] at h
  by_cases hc : lk.ctr c = k
  · simp only [hc, beq_self_eq_true, if_true, acqRes] at h
    cases hn : acquire referenceProtocol.reentrant lk t l with
    | none => exact ⟨hc, (acquire_none hn).1⟩
    | some lk' => simp [hn, notBlocked] at h
  · have : (lk.ctr c == k) = false := by simpa using hc
    simp [this, notBlocked] at h

/-- positions whose instruction never blocks -/
theorem canMove_other {lk : Locks} {t : Nat} {p : Phase} {ins : Instr}
    (hi : instrAt referenceProtocol p = some ins)
    (hins : (∃ l, ins = .rel l) ∨ (∃ c, ins = .inc c) ∨ (∃ c, ins = .dec c) ∨
            (∃ c k l, ins = .relIf c k l)) :
    canMoveAt referenceProtocol lk t p = true := by
  rw [canMoveAt_eq hi]
  rcases hins with ⟨l, rfl⟩ | ⟨c, rfl⟩ | ⟨c, rfl⟩ | ⟨c, k, l, rfl⟩
  · simp only [protoOp, relRes]; split <;> rfl
  · rfl
  · rfl
  · simp only [protoOp, relRes]; split <;> (try split) <;> rfl

theorem stuck_cond {s : PState} (hinv : MutexInv s) {t : Nat} {p : Phase}
    (hp : s.pos[t]? = some p) (h : canMoveAt referenceProtocol s.lk t p = false) :
    blockedCond s (kOf p) := by
  have hbad : kOf p ≠ .bad := by
    intro hk
    have := cnt_pos_of_mem hp
    rw [hk, hinv.valid] at this
    exact absurd this (by decide)
  have hrq := hinv.rq_count.1; have hrm := hinv.rm_count.1; have hwm := hinv.wm_count.1
  have hnw := hinv.nw_count; have hnr := hinv.nr_count
  have mv : ∀ {ins : Instr}, instrAt referenceProtocol p = some ins →
      ((∃ l, ins = .rel l) ∨ (∃ c, ins = .inc c) ∨ (∃ c, ins = .dec c) ∨
        (∃ c k l, ins = .relIf c k l)) → False := by
    intro ins hi hins
    rw [canMove_other hi hins] at h; simp at h
  cases p with
  | out => trivial
  | body w => simp [canMoveAt] at h
  | acq w j =>
    cases w with
    | false =>
      match j, hp, h, hbad, @mv with
      | 0, _, h, _, _ => have := canMove_acq (l := lRq) rfl h; show 1 ≤ sRq s.pos; omega
      | 1, _, h, _, _ =>
        have := canMove_acq (l := lNr) rfl h
        show 1 ≤ sRnr s.pos + min 1 (sWp s.pos); omega
      | 2, _, h, _, _ => have := canMove_acq (l := lRm) rfl h; show 1 ≤ sRm s.pos; omega
      | 3, _, _, _, mv => exact (mv (ins := .inc .readCtr) rfl (Or.inr (Or.inl ⟨_, rfl⟩))).elim
      | 4, _, h, _, _ =>
        have := canMove_acqIf (c := .readCtr) (k := 1) (l := lNw) rfl h
        exact ⟨this.1, by have := this.2; omega⟩
      | 5, _, _, _, mv => exact (mv (ins := .rel lRm) rfl (Or.inl ⟨_, rfl⟩)).elim
      | 6, _, _, _, mv => exact (mv (ins := .rel lNr) rfl (Or.inl ⟨_, rfl⟩)).elim
      | 7, _, _, _, mv => exact (mv (ins := .rel lRq) rfl (Or.inl ⟨_, rfl⟩)).elim
      | j + 8, _, _, hbad, _ => exact absurd rfl hbad
    | true =>
      match j, hp, h, hbad, @mv with
      | 0, _, h, _, _ => have := canMove_acq (l := lWm) rfl h; show 1 ≤ sWm s.pos; omega
      | 1, _, _, _, mv => exact (mv (ins := .inc .writeCtr) rfl (Or.inr (Or.inl ⟨_, rfl⟩))).elim
      | 2, _, h, _, _ =>
        have := canMove_acqIf (c := .writeCtr) (k := 1) (l := lNr) rfl h
        exact ⟨this.1, by have := this.2; omega⟩
      | 3, _, _, _, mv => exact (mv (ins := .rel lWm) rfl (Or.inl ⟨_, rfl⟩)).elim
      | 4, _, h, _, _ =>
        have := canMove_acq (l := lNw) rfl h
        show 1 ≤ sWnw s.pos + min 1 (sRp s.pos); omega
      | j + 5, _, _, hbad, _ => exact absurd rfl hbad
  | rel w r j =>
    cases w with
    | false =>
      match j, hp, h, hbad, @mv with
      | 0, _, h, _, _ =>
        have := canMove_acq (l := lRm) (by cases r <;> rfl) h
        show 1 ≤ sRm s.pos; omega
      | 1, _, _, _, mv =>
        exact (mv (ins := .dec .readCtr) (by cases r <;> rfl) (Or.inr (Or.inr (Or.inl ⟨_, rfl⟩)))).elim
      | 2, _, _, _, mv =>
        exact (mv (ins := .relIf .readCtr 0 lNw) (by cases r <;> rfl)
          (Or.inr (Or.inr (Or.inr ⟨_, _, _, rfl⟩)))).elim
      | 3, _, _, _, mv => exact (mv (ins := .rel lRm) (by cases r <;> rfl) (Or.inl ⟨_, rfl⟩)).elim
      | j + 4, _, _, hbad, _ => exact absurd rfl hbad
    | true =>
      match j, hp, h, hbad, @mv with
      | 0, _, _, _, mv => exact (mv (ins := .rel lNw) (by cases r <;> rfl) (Or.inl ⟨_, rfl⟩)).elim
      | 1, _, h, _, _ =>
        have := canMove_acq (l := lWm) (by cases r <;> rfl) h
        show 1 ≤ sWm s.pos; omega
      | 2, _, _, _, mv =>
        exact (mv (ins := .dec .writeCtr) (by cases r <;> rfl) (Or.inr (Or.inr (Or.inl ⟨_, rfl⟩)))).elim
      | 3, _, _, _, mv =>
        exact (mv (ins := .relIf .writeCtr 0 lNr) (by cases r <;> rfl)
          (Or.inr (Or.inr (Or.inr ⟨_, _, _, rfl⟩)))).elim
      | 4, _, _, _, mv => exact (mv (ins := .rel lWm) (by cases r <;> rfl) (Or.inl ⟨_, rfl⟩)).elim
      | j + 5, _, _, hbad, _ => exact absurd rfl hbad

theorem exists_of_cnt {pos : List Phase} {k : K} (h : 1 ≤ cnt pos k) :
    ∃ (t : Nat) (p : Phase), pos[t]? = some p ∧ kOf p = k := by
  obtain ⟨q, hq, hf⟩ := List.countP_pos_iff.1 h
  obtain ⟨u, hu, rfl⟩ := List.getElem_of_mem hq
  exact ⟨u, _, List.getElem?_eq_getElem hu, by simpa using hf⟩

theorem kOf_out {p : Phase} (h : kOf p = .out) : p = .out := by
  cases p with
  | out => rfl
  | body w => cases w <;> simp [kOf] at h
  | acq w j => cases w <;> rcases j with _ | _ | _ | _ | _ | _ | _ | _ | _ <;> simp [kOf] at h
  | rel w r j => cases w <;> rcases j with _ | _ | _ | _ | _ | _ <;> simp [kOf] at h

/-- deadlock-freedom of the reference protocol for ANY number of threads: in a state satisfying
    the invariant, if some thread is in the middle of the protocol then one of those can move -/
theorem inv_no_deadlock {s : PState} (hinv : MutexInv s) :
    pdeadlocked referenceProtocol s = false := by
  cases hd : pdeadlocked referenceProtocol s with
  | false => rfl
  | true =>
    exfalso
    simp only [pdeadlocked, Bool.and_eq_true, List.any_eq_true, bne_iff_ne] at hd
    obtain ⟨⟨p0, hp0, hne0⟩, hall⟩ := hd
    have hstuck : ∀ (t : Nat) (p : Phase), s.pos[t]? = some p →
        canMoveAt referenceProtocol s.lk t p = false := by
      intro t p hp
      have := allIdx_spec _ _ _ hall t p hp
      simpa using this
    have F : ∀ k, cnt s.pos k = 0 ∨ blockedCond s k := by
      intro k
      rcases Nat.eq_zero_or_pos (cnt s.pos k) with h0 | h1
      · exact Or.inl h0
      · obtain ⟨t, p, hp, hk⟩ := exists_of_cnt h1
        exact Or.inr (hk ▸ stuck_cond hinv hp (hstuck t p hp))
    obtain ⟨u, hu, rfl⟩ := List.getElem_of_mem hp0
    have hc0 := cnt_pos_of_mem (List.getElem?_eq_getElem hu)
    have hk0 : kOf s.pos[u] ≠ .out := fun e => hne0 (kOf_out e)
    have f_ra0 := F .ra0; have f_ra1 := F .ra1; have f_ra2 := F .ra2; have f_ra3 := F .ra3
    have f_ra4 := F .ra4; have f_ra5 := F .ra5; have f_ra6 := F .ra6; have f_ra7 := F .ra7
    have f_rb := F .rb; have f_rr0 := F .rr0; have f_rr1 := F .rr1; have f_rr2 := F .rr2
    have f_rr3 := F .rr3; have f_wa0 := F .wa0; have f_wa1 := F .wa1; have f_wa2 := F .wa2
    have f_wa3 := F .wa3; have f_wa4 := F .wa4; have f_wb := F .wb; have f_wr0 := F .wr0
    have f_wr1 := F .wr1; have f_wr2 := F .wr2; have f_wr3 := F .wr3; have f_wr4 := F .wr4
    have f_bad := F .bad
    simp only [blockedCond, or_false] at f_ra0 f_ra1 f_ra2 f_ra3 f_ra4 f_ra5 f_ra6 f_ra7 f_rb f_rr0 f_rr1 f_rr2 f_rr3 f_wa0 f_wa1 f_wa2 f_wa3 f_wa4 f_wb f_wr0 f_wr1 f_wr2 f_wr3 f_wr4 f_bad
    have hrc := hinv.rc; have hwc := hinv.wc
    have hrqle := hinv.rq_le; have hrmle := hinv.rm_le; have hwmle := hinv.wm_le
    have hnwle := hinv.nw_le; have hnrle := hinv.nr_le
    simp only [Int.ofNat_eq_natCast] at hrc hwc
    simp only [sRq, sRm, sWm, sRc, sWc, sWnw, sRp, sRnr, sWp] at *
    have hv := hinv.valid
    have z_ra4 : cnt s.pos .ra4 = 0 := by
      rcases f_ra4 with h | ⟨h1, h2⟩
      · exact h
      · omega
    have z_ra2 : cnt s.pos .ra2 = 0 := by
      rcases f_ra2 with h | h
      · exact h
      · omega
    have z_rr0 : cnt s.pos .rr0 = 0 := by
      rcases f_rr0 with h | h
      · exact h
      · omega
    have z_wa4 : cnt s.pos .wa4 = 0 := by
      rcases f_wa4 with h | h
      · exact h
      · omega
    have z_wr1 : cnt s.pos .wr1 = 0 := by
      rcases f_wr1 with h | h
      · exact h
      · rcases f_wa2 with h' | ⟨h1, h2⟩
        · omega
        · omega
    have z_ra1 : cnt s.pos .ra1 = 0 := by
      rcases f_ra1 with h | h
      · exact h
      · omega
    have z_ra0 : cnt s.pos .ra0 = 0 := by
      rcases f_ra0 with h | h
      · exact h
      · omega
    have z_wa2 : cnt s.pos .wa2 = 0 := by
      rcases f_wa2 with h | ⟨h1, h2⟩
      · exact h
      · omega
    have z_wa0 : cnt s.pos .wa0 = 0 := by
      rcases f_wa0 with h | h
      · exact h
      · omega
    cases hk : kOf s.pos[u] <;> rw [hk] at hc0 <;> first
      | omega
      | exact absurd hk hk0

/-- the instruction kinds that cannot raise -/
theorem relErr_never {lk : Locks} {t : Nat} {p : Phase} {ins : Instr}
    (hi : instrAt referenceProtocol p = some ins)
    (hins : (∃ l, ins = .acq l) ∨ (∃ c, ins = .inc c) ∨ (∃ c, ins = .dec c) ∨
            (∃ c k l, ins = .acqIf c k l)) :
    relErrAt referenceProtocol lk t p = false := by
  simp only [relErrAt, hi]
  rcases hins with ⟨l, rfl⟩ | ⟨c, rfl⟩ | ⟨c, rfl⟩ | ⟨c, k, l, rfl⟩
  · simp only [protoOp, acqRes]; split <;> simp
  · simp [protoOp]
  · simp [protoOp]
  · simp only [protoOp, acqRes]; split <;> (try split) <;> simp

theorem relErr_rel {lk : Locks} {t : Nat} {p : Phase} {l : LockId}
    (hi : instrAt referenceProtocol p = some (.rel l))
    (hheld : (isReentrant referenceProtocol.reentrant l = true ∧ lk.lock l = ⟨t + 1, 1⟩) ∨
             (isReentrant referenceProtocol.reentrant l = false ∧ (lk.lock l).count ≠ 0)) :
    relErrAt referenceProtocol lk t p = false := by
  simp only [relErrAt, hi, protoOp, relRes, release_held hheld]
  simp

theorem relErr_relIf {lk : Locks} {t : Nat} {p : Phase} {c : Ctr} {k : Int} {l : LockId}
    (hi : instrAt referenceProtocol p = some (.relIf c k l))
    (hheld : (isReentrant referenceProtocol.reentrant l = false ∧ (lk.lock l).count ≠ 0)) :
    relErrAt referenceProtocol lk t p = false := by
  simp only [relErrAt, hi, protoOp, relRes, release_held (Or.inr hheld)]
  split <;> simp

theorem no_err_at {s : PState} (hinv : MutexInv s) {t : Nat} {p : Phase}
    (hp : s.pos[t]? = some p) : relErrAt referenceProtocol s.lk t p = false := by
  have hcp := cnt_pos_of_mem hp
  have hnw := hinv.nw_count; have hnr := hinv.nr_count
  cases p with
  | out => rfl
  | body w => rfl
  | acq w j =>
    cases w with
    | false =>
      match j, hp, hcp with
      | 0, _, _ => exact relErr_never (ins := .acq lRq) rfl (Or.inl ⟨_, rfl⟩)
      | 1, _, _ => exact relErr_never (ins := .acq lNr) rfl (Or.inl ⟨_, rfl⟩)
      | 2, _, _ => exact relErr_never (ins := .acq lRm) rfl (Or.inl ⟨_, rfl⟩)
      | 3, _, _ => exact relErr_never (ins := .inc .readCtr) rfl (Or.inr (Or.inl ⟨_, rfl⟩))
      | 4, _, _ =>
        exact relErr_never (ins := .acqIf .readCtr 1 lNw) rfl (Or.inr (Or.inr (Or.inr ⟨_, _, _, rfl⟩)))
      | 5, hp, _ => exact relErr_rel (l := lRm) rfl (Or.inl ⟨rfl, hinv.rm_own t _ hp rfl⟩)
      | 6, _, hcp =>
        refine relErr_rel (l := lNr) rfl (Or.inr ⟨rfl, ?_⟩)
        simp only [kOf] at hcp; simp only [sRnr] at hnr; omega
      | 7, hp, _ => exact relErr_rel (l := lRq) rfl (Or.inl ⟨rfl, hinv.rq_own t _ hp rfl⟩)
      | j + 8, _, _ => rfl
    | true =>
      match j, hp, hcp with
      | 0, _, _ => exact relErr_never (ins := .acq lWm) rfl (Or.inl ⟨_, rfl⟩)
      | 1, _, _ => exact relErr_never (ins := .inc .writeCtr) rfl (Or.inr (Or.inl ⟨_, rfl⟩))
      | 2, _, _ =>
        exact relErr_never (ins := .acqIf .writeCtr 1 lNr) rfl (Or.inr (Or.inr (Or.inr ⟨_, _, _, rfl⟩)))
      | 3, hp, _ => exact relErr_rel (l := lWm) rfl (Or.inl ⟨rfl, hinv.wm_own t _ hp rfl⟩)
      | 4, _, _ => exact relErr_never (ins := .acq lNw) rfl (Or.inl ⟨_, rfl⟩)
      | j + 5, _, _ => rfl
  | rel w r j =>
    cases w with
    | false =>
      match j, hp, hcp with
      | 0, _, _ => exact relErr_never (ins := .acq lRm) (by cases r <;> rfl) (Or.inl ⟨_, rfl⟩)
      | 1, _, _ =>
        exact relErr_never (ins := .dec .readCtr) (by cases r <;> rfl) (Or.inr (Or.inr (Or.inl ⟨_, rfl⟩)))
      | 2, _, hcp =>
        refine relErr_relIf (c := .readCtr) (k := 0) (l := lNw) (by cases r <;> rfl) ⟨rfl, ?_⟩
        have hk : kOf (Phase.rel false r 2) = .rr2 := rfl
        rw [hk] at hcp; simp only [sRp] at hnw; omega
      | 3, hp, _ =>
        exact relErr_rel (l := lRm) (by cases r <;> rfl) (Or.inl ⟨rfl, hinv.rm_own t _ hp rfl⟩)
      | j + 4, _, _ => cases r <;> rfl
    | true =>
      match j, hp, hcp with
      | 0, _, hcp =>
        refine relErr_rel (l := lNw) (by cases r <;> rfl) (Or.inr ⟨rfl, ?_⟩)
        have hk : kOf (Phase.rel true r 0) = .wr0 := rfl
        rw [hk] at hcp; simp only [sWnw] at hnw; omega
      | 1, _, _ => exact relErr_never (ins := .acq lWm) (by cases r <;> rfl) (Or.inl ⟨_, rfl⟩)
      | 2, _, _ =>
        exact relErr_never (ins := .dec .writeCtr) (by cases r <;> rfl) (Or.inr (Or.inr (Or.inl ⟨_, rfl⟩)))
      | 3, _, hcp =>
        refine relErr_relIf (c := .writeCtr) (k := 0) (l := lNr) (by cases r <;> rfl) ⟨rfl, ?_⟩
        have hk : kOf (Phase.rel true r 3) = .wr3 := rfl
        rw [hk] at hcp; simp only [sWp] at hnr; omega
      | 4, hp, _ =>
        exact relErr_rel (l := lWm) (by cases r <;> rfl) (Or.inl ⟨rfl, hinv.wm_own t _ hp rfl⟩)
      | j + 5, _, _ => cases r <;> rfl

theorem anyIdx_false {α} (p : Nat → α → Bool) : ∀ (xs : List α) (i : Nat),
    (∀ j x, xs[j]? = some x → p (i + j) x = false) → anyIdx p i xs = false
  | [], _, _ => rfl
  | y :: ys, i, h => by
    simp only [anyIdx, Bool.or_eq_false_iff]
    refine ⟨by simpa using h 0 y rfl, anyIdx_false p ys (Nat.add i 1) (fun j x hx => ?_)⟩
    have := h (j + 1) x (by simpa using hx)
    have e : Nat.add i 1 + j = i + (j + 1) := by show i + 1 + j = _; omega
    rwa [e]

theorem inv_no_error {s : PState} (hinv : MutexInv s) : prelError referenceProtocol s = false := by
  unfold prelError
  apply anyIdx_false
  intro j x hx
  simpa using no_err_at hinv hx

/-- the reference protocol is good for EVERY number of threads -/
theorem reference_good (n : Nat) : PGood referenceProtocol n := by
  intro s hr
  have hinv := mutexInv_reach s hr
  refine ⟨?_, inv_no_deadlock hinv⟩
  simp only [pbad, inv_not_violated hinv, inv_no_error hinv, inv_not_leaked hinv, Bool.or_self]

end MongoModel.RWLock
