/-
  Proofs.C05Loop — the update loop: every entry keeps its key, its `_id` up to `==`, and the
  shape of a Python dict, provided the store keys are values on which `==` is symmetric.
-/
import Proofs.C05Update
import Mathlib.Data.List.Perm.Subperm

set_option linter.unusedSimpArgs false
set_option linter.unusedVariables false

namespace MongoModel.Proofs.C05Lemmas
open MongoModel MongoModel.Spec

theorem mem_dkeys_of_dget {k : String} {fs : Fields} {v : Val} (h : dget k fs = some v) :
    k ∈ dkeys fs := by
  have := dget_mem h
  simp only [dkeys, List.mem_map]
  exact ⟨(k, v), this, rfl⟩

theorem dget_of_mem_dkeys {k : String} {fs : Fields} (h : k ∈ dkeys fs) : ∃ v, dget k fs = some v := by
  simp only [dkeys, List.mem_map] at h
  obtain ⟨⟨k', v⟩, hm, rfl⟩ := h
  exact mem_dget hm

/-- dict equality of two dicts transports the presence of a key backwards (pigeonhole) -/
theorem pyEq_doc_id (nf cf : Fields) (k : String) (idc : Val)
    (h : pyEq (.doc nf) (.doc cf) = true) (hn : (dkeys nf).Nodup) (hc : dget k cf = some idc) :
    ∃ idn, dget k nf = some idn ∧ pyEq idn idc = true := by
  rw [pyEq_doc_iff] at h
  obtain ⟨hl, hf⟩ := h
  have hsub : dkeys nf ⊆ dkeys cf := by
    intro x hx
    obtain ⟨v, hv⟩ := dget_of_mem_dkeys hx
    obtain ⟨v', hv', _⟩ := hf x v (dget_mem hv)
    exact mem_dkeys_of_dget hv'
  have hperm := (List.subperm_of_subset hn hsub).perm_of_length_le (by simp [dkeys, hl])
  have hk : k ∈ dkeys nf := hperm.symm.subset (mem_dkeys_of_dget hc)
  obtain ⟨idn, hidn⟩ := dget_of_mem_dkeys hk
  obtain ⟨v', hv', he⟩ := hf k idn (dget_mem hidn)
  rw [hc] at hv'; cases hv'
  exact ⟨idn, hidn, he⟩

/-- what the loop maintains for every entry, relative to the collection `c0` it started from -/
def EntU (c0 : Coll) (q : Val × Val) : Prop :=
  SymmVal q.1 ∧ TopOK q.2 ∧ EntS q ∧
    ∃ q0 ∈ c0.docs, q0.1 = q.1 ∧ pyEqOpt (idOf q0.2) (idOf q.2) = true

/-- keys of `c` form a sublist of those of `c0` -/
def KS (c c0 : Coll) : Prop := (c.docs.map (·.1)).Sublist (c0.docs.map (·.1))

theorem KS.of_sub {c c1 c0 : Coll} (hs : Sub c c1) (h : KS c1 c0) : KS c c0 :=
  List.Sublist.trans (List.Sublist.map _ hs) h

theorem KS.refl (c : Coll) : KS c c := List.Sublist.refl _

theorem KS.keysDistinct {c c0 : Coll} (h : KS c c0) (hd : KeysDistinct c0) : KeysDistinct c := by
  unfold KeysDistinct at *
  have e : ∀ l : List (Val × Val), l.Pairwise (fun a b => pyEq a.1 b.1 = false) ↔
      (l.map (·.1)).Pairwise (fun a b => pyEq a b = false) := by
    intro l; rw [List.pairwise_map]
  rw [e] at *
  exact List.Pairwise.sublist h hd

/-- the `_id` of the rewritten document is `==` to the key of the entry it was computed from -/
theorem rewrite_id (c0 : Coll) (q1 : Val × Val) (new : Val) (h1 : EntU c0 q1) (hnew : TopOK new)
    (hA : pyEq new q1.2 = true ∨ pyEqOpt (idOf q1.2) (idOf new) = true) :
    ∃ idn, idOf new = some idn ∧ pyEq q1.1 idn = true := by
  obtain ⟨hs, ⟨cf, hcf, _⟩, ⟨id1, hid1, hk1⟩, _⟩ := h1
  obtain ⟨nf, rfl, hnn⟩ := hnew
  have hs1 : SymmVal id1 := symm_closed hs hk1
  rcases hA with hA | hA
  · rw [hcf] at hA hid1
    simp only [idOf] at hid1
    obtain ⟨idn, h2, h3⟩ := pyEq_doc_id nf cf "_id" id1 hA hnn hid1
    refine ⟨idn, h2, pyEq_trans _ _ _ hk1 ?_⟩
    rw [hs1 idn]; exact h3
  · rw [hid1] at hA
    cases hn : idOf (Val.doc nf) with
    | none => simp [hn, pyEqOpt] at hA
    | some idn =>
      simp only [hn, pyEqOpt] at hA
      exact ⟨idn, rfl, pyEq_trans _ _ _ hk1 hA⟩

theorem setDoc_entU (c0 c : Coll) (κ cur new : Val) (hc : ∀ q ∈ c.docs, EntU c0 q)
    (hl : c.lookup κ = some cur) (hnew : TopOK new)
    (hA : pyEq new cur = true ∨ pyEqOpt (idOf cur) (idOf new) = true) :
    ∀ q ∈ (c.setDoc κ new).docs, EntU c0 q := by
  obtain ⟨q1, hq1, hk1, rfl⟩ := lookup_some c κ cur hl
  obtain ⟨idn, hidn, hkn⟩ := rewrite_id c0 q1 new (hc q1 hq1) hnew hA
  have hs1 : SymmVal q1.1 := (hc q1 hq1).1
  have hκ1 : pyEq κ q1.1 = true := by rw [← hs1 κ]; exact hk1
  rw [setDoc_present c κ new (lookup_hasKey c κ _ hl)]
  intro q hq
  simp only [List.mem_map] at hq
  obtain ⟨p, hp, rfl⟩ := hq
  split
  · rename_i hpk
    obtain ⟨hsp, _, ⟨idp, hidp, hkp⟩, ⟨p0, hp0, hp0k, hp0i⟩⟩ := hc p hp
    have hpn : pyEq p.1 idn = true := pyEq_trans _ _ _ (pyEq_trans _ _ _ hpk hκ1) hkn
    refine ⟨hsp, hnew, ⟨idn, hidn, hpn⟩, p0, hp0, hp0k, ?_⟩
    simp only [hidn]
    rw [hidp] at hp0i
    cases h0 : idOf p0.2 with
    | none => simp [h0, pyEqOpt] at hp0i
    | some id0 =>
      simp only [h0, pyEqOpt] at hp0i ⊢
      have hsi : SymmVal idp := symm_closed hsp hkp
      have : pyEq idp p.1 = true := by rw [hsi p.1]; exact hkp
      exact pyEq_trans _ _ _ hp0i (pyEq_trans _ _ _ this hpn)
  · exact hc p hp

theorem updateLoop_inv (now : Int) (spec document nowV : Val) (multi : Bool) (c0 : Coll) :
    ∀ (pending : List (Val × Val)) (c : Coll) (m u : Nat) (c' : Coll) (r : R (Nat × Nat)),
      updateLoop now spec document nowV multi pending c m u = (c', r) →
      (∀ q ∈ c.docs, EntU c0 q) → KS c c0 →
      (∀ q ∈ c'.docs, EntU c0 q) ∧ KS c' c0 := by
  intro pending
  induction pending with
  | nil =>
    intro c m u c' r h hc hk
    simp [updateLoop] at h
    obtain ⟨rfl, _⟩ := h
    exact ⟨hc, hk⟩
  | cons kd rest ih =>
    obtain ⟨key, d0⟩ := kd
    intro c m u c' r h hc hk
    unfold updateLoop at h
    split at h
    · exact ih _ _ _ _ _ h hc hk
    · rename_i cur hl
      split at h
      · cases h; exact ⟨hc, hk⟩
      · exact ih _ _ _ _ _ h hc hk
      · split at h
        · cases h; exact ⟨hc, hk⟩
        · rename_i new hnew
          obtain ⟨q1, hq1, hk1, hq1c⟩ := lookup_some c key cur hl
          have hcurTop : TopOK cur := by rw [← hq1c]; exact (hc q1 hq1).2.1
          have hnewTop : TopOK new := applyUpdate_top _ _ _ _ _ _ hcurTop hnew
          have hkeys : KS (c.setDoc key new) c0 := by
            unfold KS; rw [setDoc_present_keys c key new (lookup_hasKey c key _ hl)]; exact hk
          by_cases hun : pyEq new cur = true
          · rw [if_pos hun] at h
            simp only at h
            have hA : pyEq new cur = true := hun
            have hc' := setDoc_entU c0 c key cur new hc hl hnewTop (Or.inl hA)
            -- the unique indexes are checked on the "unchanged" branch as well
            cases hu : ensureUniques now (c.setDoc key new) new with
            | error e => simp only [hu] at h; cases h; exact ⟨hc, hk⟩
            | ok c2 =>
              simp only [hu] at h
              have hs2 := ensureUniques_sub _ _ _ _ hu
              split at h
              · exact ih _ _ _ _ _ h (all_sub hs2 hc') (KS.of_sub hs2 hkeys)
              · cases h; exact ⟨all_sub hs2 hc', KS.of_sub hs2 hkeys⟩
          · rw [if_neg hun] at h
            simp only at h
            change (if (!pyEqOpt (idOf cur) (idOf new)) = true then _ else _) = _ at h
            by_cases hid : pyEqOpt (idOf cur) (idOf new) = true
            · simp only [hid, Bool.not_true, Bool.false_eq_true, if_false] at h
              have hc' := setDoc_entU c0 c key cur new hc hl hnewTop (Or.inr hid)
              cases hu : ensureUniques now (c.setDoc key new) new with
              | error e => simp only [hu] at h; cases h; exact ⟨hc, hk⟩
              | ok c2 =>
                simp only [hu] at h
                have hs2 := ensureUniques_sub _ _ _ _ hu
                split at h
                · exact ih _ _ _ _ _ h (all_sub hs2 hc') (KS.of_sub hs2 hkeys)
                · cases h; exact ⟨all_sub hs2 hc', KS.of_sub hs2 hkeys⟩
            · simp only [hid, Bool.not_false, if_true] at h
              cases h; exact ⟨hc, hk⟩

/-! ### `applyUpdateColl` cut into pieces -/

/-- the `_id` of the upsert seed and the collection after a possible id generation -/
def upsertIdv (ss dfs : Fields) (c3 : Coll) : Val × Coll :=
  match dget "_id" ss with
  | some v => (v, c3)
  | none => (match dget "_id" dfs with
    | some w => (w, c3)
    | none => (Val.oid c3.nextOid, { c3 with nextOid := c3.nextOid + 1 }))

theorem upsertIdv_docs (ss dfs : Fields) (c3 : Coll) : (upsertIdv ss dfs c3).2.docs = c3.docs := by
  unfold upsertIdv
  repeat' split
  all_goals rfl

def preLoop (now : Int) (c : Coll) (spec : Val) : R Coll := do
  let c1 ← expire now c
  if c1.docs.isEmpty then
    let _ ← filterApplies spec (.doc [])
  expire now c1

theorem preLoop_sub (now : Int) (c : Coll) (spec : Val) (c2 : Coll) (h : preLoop now c spec = .ok c2) :
    Sub c2 c := by
  unfold preLoop at h
  simp only [bind, Except.bind] at h
  cases h1 : expire now c with
  | error e => simp [h1] at h
  | ok c1 =>
    simp only [h1] at h
    refine Sub.trans ?_ (expire_sub now c c1 h1)
    split at h
    · split at h
      · cases h
      · exact expire_sub now c1 c2 h
    · exact expire_sub now c1 c2 h

def afterLoop (now : Int) (spec document nowV : Val) (ss dfs : Fields) (upsert : Bool)
    (c3 : Coll) (r : R (Nat × Nat)) : Coll × R UpdateResult :=
  match r with
  | .error e => (c3, .error e)
  | .ok (matched, updated) =>
    if !upsert || matched > 0 then
      (c3, .ok ⟨matched, if matched > 0 then updated else 0, none, matched > 0⟩)
    else
      let ic := upsertIdv ss dfs c3
      match upsertDoc spec document nowV ss ic.1 with
      | .error e => (ic.2, .error e)
      | .ok built =>
        match insertDoc now ic.2 built with
        | .error e => (ic.2.markStored (insertStored now ic.2 built), .error e)
        | .ok (c5, newId) => (c5, .ok ⟨1, 0, some newId, false⟩)

theorem applyUpdateColl_eq (cfg : Cfg) (now : Int) (c : Coll) (spec0 document0 : Val)
    (upsert multi : Bool) :
    applyUpdateColl cfg now c spec0 document0 upsert multi =
      match patchDT spec0, patchDT document0 with
      | .doc ss, .doc dfs =>
        (match updatePrecheck cfg dfs with
        | .error e => (c, .error e)
        | .ok () =>
          match preLoop now c (patchDT spec0) with
          | .error e => (c, .error e)
          | .ok c2 =>
            afterLoop now (patchDT spec0) (patchDT document0) (patchDT (.date now none)) ss dfs upsert
              (updateLoop now (patchDT spec0) (patchDT document0) (patchDT (.date now none)) multi c2.docs c2 0 0).1
              (updateLoop now (patchDT spec0) (patchDT document0) (patchDT (.date now none)) multi c2.docs c2 0 0).2)
      | _, _ => (c, .error .typeErr) := by
  unfold applyUpdateColl
  simp only
  split
  · rename_i ss dfs h1 h2
    rw [h1, h2]
    simp only
    cases updatePrecheck cfg dfs with
    | error e => rfl
    | ok u =>
      simp only
      show (match preLoop now c (Val.doc ss) with
        | .error e => _
        | .ok c2 => _) = _
      cases preLoop now c (Val.doc ss) with
      | error e => rfl
      | ok c2 =>
        simp only
        generalize updateLoop now (Val.doc ss) (Val.doc dfs) (patchDT (Val.date now none)) multi c2.docs c2 0 0 = lr
        obtain ⟨c3, r3⟩ := lr
        unfold afterLoop
        cases r3 with
        | error e => rfl
        | ok mu =>
          obtain ⟨matched, updated⟩ := mu
          simp only
          split
          · rfl
          · rfl
  · rename_i h
    split
    · rename_i ss dfs h1 h2; exact absurd h2 (h ss dfs h1)
    · rfl

theorem afterLoop_spec (now : Int) (spec document nowV : Val) (ss dfs : Fields) (upsert : Bool)
    (c3 : Coll) (r3 : R (Nat × Nat)) (c' : Coll) (r : R UpdateResult)
    (h : afterLoop now spec document nowV ss dfs upsert c3 r3 = (c', r)) :
    c'.docs = c3.docs ∨ ∃ c4 built c5 id, c4.docs = c3.docs ∧
      insertDoc now c4 built = .ok (c5, id) ∧ c'.docs = c5.docs ∧
      ∃ res, r = .ok res ∧ res.upserted = some id := by
  unfold afterLoop at h
  cases r3 with
  | error e => cases h; exact Or.inl rfl
  | ok mu =>
    obtain ⟨matched, updated⟩ := mu
    simp only at h
    split at h
    · cases h; exact Or.inl rfl
    · have hd := upsertIdv_docs ss dfs c3
      generalize upsertIdv ss dfs c3 = ic at h hd
      cases hb : upsertDoc spec document nowV ss ic.1 with
      | error e => simp only [hb] at h; cases h; exact Or.inl hd
      | ok built =>
        simp only [hb] at h
        cases hi : insertDoc now ic.2 built with
        | error e =>
          simp only [hi] at h; cases h
          exact Or.inl (by rw [markStored_docs]; exact hd)
        | ok p =>
          obtain ⟨c5, newId⟩ := p
          simp only [hi] at h
          cases h
          exact Or.inr ⟨ic.2, built, _, newId, hd, hi, rfl, _, rfl, rfl⟩

theorem applyUpdateColl_spec (cfg : Cfg) (now : Int) (c : Coll) (f u : Val) (upsert multi : Bool)
    (c' : Coll) (r : R UpdateResult)
    (h : applyUpdateColl cfg now c f u upsert multi = (c', r))
    (hc : ∀ q ∈ c.docs, EntU c q) :
    ∃ c3, (∀ q ∈ c3.docs, EntU c q) ∧ KS c3 c ∧
      (c'.docs = c3.docs ∨ ∃ c4 built c5 id, c4.docs = c3.docs ∧
        insertDoc now c4 built = .ok (c5, id) ∧ c'.docs = c5.docs ∧
        ∃ res, r = .ok res ∧ res.upserted = some id) := by
  rw [applyUpdateColl_eq] at h
  split at h
  · split at h
    · cases h; exact ⟨c, hc, KS.refl c, Or.inl rfl⟩
    · split at h
      · cases h; exact ⟨c, hc, KS.refl c, Or.inl rfl⟩
      · rename_i c2 hpre
        have hs2 := preLoop_sub now c _ c2 hpre
        obtain ⟨h1, h2⟩ := updateLoop_inv now _ _ _ multi c c2.docs c2 0 0 _ _ rfl
          (all_sub hs2 hc) (KS.of_sub hs2 (KS.refl c))
        exact ⟨_, h1, h2, afterLoop_spec _ _ _ _ _ _ _ _ _ _ _ h⟩
  · cases h; exact ⟨c, hc, KS.refl c, Or.inl rfl⟩

end MongoModel.Proofs.C05Lemmas
