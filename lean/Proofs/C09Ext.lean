/-
  Proofs.C09Ext — expired documents are invisible to the operations of `stepX` as well:
  find_one, find_one_and_*, bulk_write and the bulk builders all begin with the expiry pass.
-/
import Spec.TtlExt
import Proofs.C09Ops
import Proofs.C15Once
import Proofs.C08ExtFam

namespace MongoModel.Proofs.C09Lemmas
open MongoModel MongoModel.Spec

section
variable {now : Int} {c c' : Coll}

theorem findOne_agree (h : expire now c = .ok c') (f proj : Val) (sort : Option SortSpec) :
    Agree c c' (findOneColl now c f proj sort) (findOneColl now c' f proj sort) := by
  unfold findOneColl
  dsimp only
  rw [iter_eq h]
  generalize iterDocuments now c' _ = r
  cases r with
  | error e => exact .inr ⟨e, rfl, rfl⟩
  | ok r => exact .inl rfl

theorem go_agree (h : expire now c = .ok c') (cfg : Cfg) (q proj : Val) (upd : Option Val)
    (upsert : Bool) (sort : Option SortSpec) (after : Bool) :
    Agree c c' (findAndModify.go cfg now c q proj upd upsert sort after)
      (findAndModify.go cfg now c' q proj upd upsert sort after) := by
  unfold findAndModify.go
  rcases findOne_agree h q .null sort with he | ⟨e, h1, h2⟩
  · rw [he]; exact .inl rfl
  · rw [h1, h2]; exact .inr ⟨e, rfl, rfl⟩

theorem fam_agree (h : expire now c = .ok c') (cfg : Cfg) (q proj : Val) (upd : Option Val)
    (upsert : Bool) (sort : Option SortSpec) (after : Bool) :
    Agree c c' (findAndModify cfg now c q proj upd upsert sort after)
      (findAndModify cfg now c' q proj upd upsert sort after) := by
  unfold findAndModify
  cases upd with
  | none => exact go_agree h cfg q proj none upsert sort after
  | some u =>
    dsimp only
    split
    · exact go_agree h cfg q proj (some u) upsert sort after
    · split
      · exact .inr ⟨_, rfl, rfl⟩
      · exact go_agree h cfg q proj (some u) upsert sort after

def outOpt : R (Option Val) → Out
  | .ok v => .val (optVal v)
  | .error e => .err e

theorem stepX_find_one (cfg : Cfg) (now : Int) (c : Coll) (f proj sortV : Val) :
    stepX cfg now c (.arr [.str "find_one", f, proj, sortV]) =
      match sortSpecOf sortV with
      | .error e => (c, .err e)
      | .ok sort => ((findOneColl now c f proj sort).1, outOpt (findOneColl now c f proj sort).2) := rfl

open MongoModel.Proofs.C08Lemmas in
theorem famStep_eq (cfg : Cfg) (now : Int) (c : Coll) (query proj : Val) (update : Option Val)
    (sortV : Val) (upsert after : Bool) :
    famStep cfg now c query proj update sortV upsert after =
      match query with
      | .doc _ =>
        (match sortSpecOf sortV with
         | .error e => (c, .err e)
         | .ok sort =>
           ((findAndModify cfg now c query proj update upsert sort after).1,
            outOpt (findAndModify cfg now c query proj update upsert sort after).2))
      | _ => (c, .err .typeErr) := by
  cases query <;> rfl

open MongoModel.Proofs.C08Lemmas in
theorem famStep_rel (h : expire now c = .ok c') (cfg : Cfg) (query proj : Val)
    (update : Option Val) (sortV : Val) (upsert after : Bool) :
    Rel now (famStep cfg now c query proj update sortV upsert after)
      (famStep cfg now c' query proj update sortV upsert after) := by
  rw [famStep_eq, famStep_eq]
  split
  · split
    · exact rel_base h _
    · exact rel_of_agree h outOpt (fam_agree h cfg _ proj update upsert _ after)
  · exact rel_base h _

/-! ### bulk -/

/-- two runs of an executor: identical, or both stopped before touching their collection -/
def AgreeB (c c' : Coll) (x y : Coll × BulkOut) : Prop :=
  x = y ∨ ∃ o, x = (c, o) ∧ y = (c', o)

theorem updB_agree (h : expire now c = .ok c') (cfg : Cfg) (f u : Val) (up multi : Bool)
    (g : UpdateResult → BulkTotals → BulkTotals) :
    AgreeB c c'
      (match applyUpdateColl cfg now c f u up multi with
       | (c1, r) =>
         match r with
         | .error e => (c1, if e.isWriteError then BulkOut.writeErr e else .abort e)
         | .ok res => (c1, .ok (g res)))
      (match applyUpdateColl cfg now c' f u up multi with
       | (c1, r) =>
         match r with
         | .error e => (c1, if e.isWriteError then BulkOut.writeErr e else .abort e)
         | .ok res => (c1, .ok (g res))) := by
  rcases update_agree h cfg f u up multi with he | ⟨e, h1, h2⟩
  · rw [he]; exact .inl rfl
  · rw [h1, h2]; exact .inr ⟨_, rfl, rfl⟩

theorem delB_agree (h : expire now c = .ok c') (f : Val) (multi : Bool) :
    AgreeB c c'
      (match bulkOne.deleteBulk now c f multi with
       | (c1, .ok n) => (c1, BulkOut.ok (fun t => { t with nRemoved := t.nRemoved + n }))
       | (c1, .error e) => (c1, if e.isWriteError then .writeErr e else .abort e))
      (match bulkOne.deleteBulk now c' f multi with
       | (c1, .ok n) => (c1, BulkOut.ok (fun t => { t with nRemoved := t.nRemoved + n }))
       | (c1, .error e) => (c1, if e.isWriteError then .writeErr e else .abort e)) := by
  unfold bulkOne.deleteBulk
  cases f with
  | doc fs =>
    dsimp only
    rcases delete_agree h (.doc fs) multi with he | ⟨e, h1, h2⟩
    · rw [he]; exact .inl rfl
    · rw [h1, h2]; exact .inr ⟨_, rfl, rfl⟩
  | _ => exact .inr ⟨_, rfl, rfl⟩

theorem insB_agree (h : expire now c = .ok c') (cfg : Cfg) (d : Val) :
    AgreeB c c'
      (match stepColl cfg now c (.arr [.str "insert_one", d]) with
       | (c1, .val _) => (c1, BulkOut.ok (fun t => { t with nInserted := t.nInserted + 1 }))
       | (c1, .err e) => (c1, if e.isWriteError then .writeErr e else .abort e)
       | (c1, .bulkErr _) => (c1, .abort .bulk))
      (match stepColl cfg now c' (.arr [.str "insert_one", d]) with
       | (c1, .val _) => (c1, BulkOut.ok (fun t => { t with nInserted := t.nInserted + 1 }))
       | (c1, .err e) => (c1, if e.isWriteError then .writeErr e else .abort e)
       | (c1, .bulkErr _) => (c1, .abort .bulk)) := by
  simp only [step_insert_one]
  cases d with
  | doc fs =>
    simp only []
    rw [insertDoc_eq h, insErrState_eq h]
    exact .inl rfl
  | _ => exact .inr ⟨_, rfl, rfl⟩

theorem bulkOne_agree (h : expire now c = .ok c') (cfg : Cfg) (idx : Nat) (req : Val) :
    AgreeB c c' (bulkOne cfg now c idx req) (bulkOne cfg now c' idx req) := by
  unfold bulkOne
  split
  · exact insB_agree h cfg _
  · exact updB_agree h cfg _ _ _ _ _
  · exact updB_agree h cfg _ _ _ _ _
  · exact updB_agree h cfg _ _ _ _ _
  · exact delB_agree h _ _
  · exact delB_agree h _ _
  · exact .inr ⟨_, rfl, rfl⟩

end
end MongoModel.Proofs.C09Lemmas
