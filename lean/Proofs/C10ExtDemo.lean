/-
  Proofs.C10ExtDemo — decidable checks that discharge the invariant hypotheses of the C10
  extension theorems on concrete collections (for the non-vacuity examples).
-/
import Spec.CountsExt
import Proofs.C05Ext

namespace MongoModel.Proofs.C10Ext
open MongoModel MongoModel.Spec

/-- `IdInv` and `GoodKeys` by evaluation (scalar store keys, dict-shaped documents) -/
theorem inv_check (c : Coll)
    (h : (MongoModel.Proofs.C05Ext.idInvB c && MongoModel.Proofs.C05Ext.goodCollB c) = true) :
    IdInv c ∧ GoodKeys c := by
  simp only [Bool.and_eq_true] at h
  refine ⟨(MongoModel.Proofs.C05Ext.idInvB_iff c).1 h.1, ?_⟩
  intro p hp
  have := MongoModel.Proofs.C05Ext.goodColl_of_B c h.2 p hp
  exact ⟨this.1, this.2.1⟩

/-- the invariant on every collection between the requests of a bulk issued one at a time -/
def alongB (cfg : Cfg) (now : Int) (reqs : List Val) (c : Coll) : Bool :=
  (List.range reqs.length).all (fun k =>
    MongoModel.Proofs.C05Ext.idInvB (seqOps cfg now ((reqs.take k).map asSingle) c) &&
    MongoModel.Proofs.C05Ext.goodCollB (seqOps cfg now ((reqs.take k).map asSingle) c))

theorem along_check (cfg : Cfg) (now : Int) (reqs : List Val) (c : Coll)
    (h : alongB cfg now reqs c = true) :
    ∀ k < reqs.length, IdInv (seqOps cfg now ((reqs.take k).map asSingle) c) ∧
      GoodKeys (seqOps cfg now ((reqs.take k).map asSingle) c) := by
  intro k hk
  unfold alongB at h
  rw [List.all_eq_true] at h
  exact inv_check _ (h k (List.mem_range.2 hk))

end MongoModel.Proofs.C10Ext
