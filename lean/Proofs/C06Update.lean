/-
  Proofs.C06Update — the carried invariant through `_apply_update`: the checked branch, the
  "unchanged by `==`" branch (no uniqueness check in the code), the loop and the upsert.
-/
import Proofs.C06Ops

set_option linter.unusedSimpArgs false

namespace MongoModel.Proofs.C06Lemmas
open MongoModel MongoModel.Spec

/-! ### store keys -/

/-- pairwise different under `==`, in both orientations -/
def KS (ks : List Val) : Prop := ks.Pairwise (fun a b => pyEq a b = false ∧ pyEq b a = false)

theorem keysDistinctSym_of {c : Coll} (h : KeysDistinct c) (hs : ∀ p ∈ c.docs, SymmVal p.1) :
    KeysDistinctSym c := by
  unfold KeysDistinctSym
  unfold KeysDistinct at h
  rw [List.pairwise_iff_forall_sublist] at h ⊢
  intro a b hab
  have := h hab
  exact ⟨this, by rw [← hs a (pair_mem hab).1 b.1]; exact this⟩

theorem ks_of_sym {c : Coll} (h : KeysDistinctSym c) : KS (c.docs.map (·.1)) := by
  unfold KS
  rw [List.pairwise_map]
  exact h

theorem ks_count {K : List Val} (hK : KS K) {k : Val} (hk : k ∈ K) :
    (K.filter (fun x => pyEq x k)).length ≤ 1 := by
  induction K with
  | nil => cases hk
  | cons a K ih =>
    unfold KS at hK
    rw [List.pairwise_cons] at hK
    rcases List.mem_cons.1 hk with rfl | hm
    · have : K.filter (fun x => pyEq x k) = [] := by
        rw [List.filter_eq_nil_iff]
        intro b hb
        simp [(hK.1 b hb).2]
      rw [List.filter_cons, this]
      split <;> simp
    · rw [List.filter_cons, (hK.1 k hm).1]
      simpa using ih hK.2 hm

theorem entry_count {K : List Val} (hK : KS K) {k : Val} (hk : k ∈ K) {docs : List (Val × Val)}
    (hs : (docs.map (·.1)).Sublist K) : (docs.filter (fun p => pyEq p.1 k)).length ≤ 1 := by
  have h1 := ks_count hK hk
  have h2 : ((docs.map (·.1)).filter (fun x => pyEq x k)).length ≤ 1 :=
    Nat.le_trans (hs.filter _).length_le h1
  rw [List.filter_map, List.length_map] at h2
  exact h2

theorem eq_of_count_le_one {α : Type} {l : List α} {x y : α} (h : l.length ≤ 1) (hx : x ∈ l)
    (hy : y ∈ l) : x = y := by
  match l, h with
  | [z], _ =>
    rw [List.mem_singleton] at hx hy
    rw [hx, hy]
  | [], _ => cases hx

/-! ### the partial filters do not tell `==`-equal documents apart -/

theorem pfOk_stable {c : Coll} (hP : PfStable c) {ix : Index} (hix : ix ∈ c.indexes)
    (hu : ix.unique = true) {new cur : Val} (hw : wfVal new = true) (he : pyEq new cur = true)
    (h : pfOk ix new = true) : pfOk ix cur = true := by
  unfold pfOk at h ⊢
  cases hf : ix.partialFilter with
  | none => rfl
  | some f =>
    rw [hf] at h
    simp only at h ⊢
    cases hn : filterApplies f new with
    | error e => rw [hn] at h; cases h
    | ok b =>
      rw [hn] at h
      simp only at h
      subst h
      rw [hP ix hix hu f hf cur new hw he hn]

theorem scalarKeys_of_okKeys {ix : Index} {new cur : Val} (h : scalarKeys ix new = true)
    (hc : OkKeys ix.keys cur) : scalarKeys ix cur = true := by
  simp only [scalarKeys, List.all_eq_true, Bool.and_eq_true] at h ⊢
  intro k hk
  exact ⟨(h k hk).1, (hc k hk).2.2⟩

/-- a good document `==` to another one (on the left): the other one is good, with an equal key -/
theorem good_of_pyEq {c : Coll} (hP : PfStable c) {ix : Index} (hix : ix ∈ c.indexes)
    (hu : ix.unique = true) {new cur : Val} (he : pyEq new cur = true) {x y : Val}
    (hg : good ix (x, new) = true) :
    good ix (y, cur) = true ∧ keyEq (kv ix.keys new) (kv ix.keys cur) = true ∧
      OkKeys ix.keys new ∧ OkKeys ix.keys cur := by
  obtain ⟨hw, hs, hc⟩ := good_iff.1 hg
  simp only at hw hs hc
  have okn := okKeys_of_scalarKeys hs
  obtain ⟨okc, hk⟩ := okKeys_pyEq hw he okn
  refine ⟨good_iff.2 ⟨wf_of_pyEq new cur hw he, scalarKeys_of_okKeys hs okc, ?_⟩, hk, okn, okc⟩
  simp only
  rw [covers_eq, Bool.and_eq_true, Bool.not_eq_true'] at hc ⊢
  refine ⟨?_, pfOk_stable hP hix hu hw he hc.2⟩
  cases hsp : ix.sparse with
  | false => rfl
  | true =>
    rw [hsp, Bool.true_and] at hc
    simp only [Bool.true_and]
    cases hn : (kv ix.keys cur).all isNull with
    | false => rfl
    | true =>
      have := keyEq_all_null (kv_allScalar okn) hk hn
      rw [this] at hc
      exact absurd hc.1 (by simp)

/-! ### the "unchanged" branch -/

theorem lookup_some {c : Coll} {k cur : Val} (h : c.lookup k = some cur) :
    ∃ p ∈ c.docs, pyEq p.1 k = true ∧ p.2 = cur := by
  unfold Coll.lookup at h
  cases hf : c.docs.find? (fun p => pyEq p.1 k) with
  | none => rw [hf] at h; cases h
  | some p =>
    rw [hf] at h
    simp only [Option.map_some, Option.some.injEq] at h
    exact ⟨p, List.mem_of_find?_eq_some hf, by simpa using List.find?_some hf, h⟩

theorem hasKey_of_lookup {c : Coll} {k cur : Val} (h : c.lookup k = some cur) :
    c.hasKey k = true := by
  obtain ⟨p, hp, hk, _⟩ := lookup_some h
  unfold Coll.hasKey
  exact List.any_eq_true.2 ⟨p, hp, hk⟩

theorem setDoc_keys {c : Coll} {k : Val} (d : Val) (h : c.hasKey k = true) :
    (c.setDoc k d).docs.map (·.1) = c.docs.map (·.1) := by
  rw [setDoc_docs_map d h, List.map_map]
  apply List.map_congr_left
  intro p _
  simp only [Function.comp]
  split <;> rfl

/-- storing a document that is `==` to the one it replaces (no `_ensure_uniques`) -/
theorem uniqS_silent {c : Coll} {k cur new : Val} (hU : UniqS c) (hP : PfStable c)
    (h1 : (c.docs.filter (fun p => pyEq p.1 k)).length ≤ 1)
    (hl : c.lookup k = some cur) (he : pyEq new cur = true) : UniqS (c.setDoc k new) := by
  have hk := hasKey_of_lookup hl
  obtain ⟨p, hp, hpk, hpc⟩ := lookup_some hl
  have hpf : p ∈ c.docs.filter (fun p => pyEq p.1 k) := List.mem_filter.2 ⟨hp, hpk⟩
  intro ix hix hu hd a b hab ga gb
  rw [setDoc_indexes] at hix
  rw [setDoc_docs_map new hk] at hab
  obtain ⟨a0, b0, hl0, ea, eb⟩ := pair_of_sublist_map hab
  obtain ⟨ma, mb⟩ := pair_mem hl0
  by_cases ta : pyEq a0.1 k = true
  · have ha0 : a0 = p := eq_of_count_le_one h1 (List.mem_filter.2 ⟨ma, ta⟩) hpf
    by_cases tb : pyEq b0.1 k = true
    · exfalso
      have : [a0, b0].Sublist (c.docs.filter (fun p => pyEq p.1 k)) :=
        sublist_pair_filter.2 ⟨hl0, ta, tb⟩
      have := this.length_le
      simp at this
      omega
    · simp only [ta, if_true] at ea
      simp only [tb] at eb
      subst ea; subst eb
      have hcur : a0.2 = cur := by rw [ha0]; exact hpc
      obtain ⟨g0, hke, okn, okc⟩ := good_of_pyEq hP hix hu he (y := a0.1) ga
      have g0' : good ix a0 = true := by
        have : a0 = (a0.1, cur) := by rw [← hcur]
        rw [this]; exact g0
      have hr := hU ix hix hu hd a0 b hl0 g0' gb
      unfold Rk at hr ⊢
      rw [keyVals_eq, keyVals_eq] at hr ⊢
      rw [hcur] at hr
      have okb := okKeys_of_scalarKeys (good_iff.1 gb).2.1
      simp only
      rw [keyEq_congr_left (kv_allScalar okn) (kv_allScalar okc) (kv_allScalar okb) hke]
      exact hr
  · simp only [ta] at ea
    by_cases tb : pyEq b0.1 k = true
    · have hb0 : b0 = p := eq_of_count_le_one h1 (List.mem_filter.2 ⟨mb, tb⟩) hpf
      simp only [tb, if_true] at eb
      subst ea; subst eb
      have hcur : b0.2 = cur := by rw [hb0]; exact hpc
      obtain ⟨g0, hke, okn, okc⟩ := good_of_pyEq hP hix hu he (y := b0.1) gb
      have g0' : good ix b0 = true := by
        have : b0 = (b0.1, cur) := by rw [← hcur]
        rw [this]; exact g0
      have hr := hU ix hix hu hd a b0 hl0 ga g0'
      unfold Rk at hr ⊢
      rw [keyVals_eq, keyVals_eq] at hr ⊢
      rw [hcur] at hr
      have oka := okKeys_of_scalarKeys (good_iff.1 ga).2.1
      simp only
      rw [keyEq_symm (kv_allScalar oka) (kv_allScalar okn),
        keyEq_congr_left (kv_allScalar okn) (kv_allScalar okc) (kv_allScalar oka) hke,
        keyEq_symm (kv_allScalar okc) (kv_allScalar oka)]
      exact hr
    · simp only [tb] at eb
      subst ea; subst eb
      exact hU ix hix hu hd a b hl0 ga gb

/-! ### the loop -/

theorem pfStable_of_indexes {c c' : Coll} (h : PfStable c) (hi : c'.indexes = c.indexes) :
    PfStable c' := by
  intro ix hix
  rw [hi] at hix
  exact h ix hix

theorem pyEq_of_ordered {a b : Val} (h : pyEqOrdered a b = true) : pyEq a b = true := by
  unfold pyEqOrdered at h
  split at h
  · simp only [Bool.and_eq_true] at h; exact h.1
  · exact h

theorem updateLoop_inv (K : List Val) (hK : KS K) (now : Int) (spec document nowV : Val)
    (multi : Bool) (snap : List (Val × Val)) (c : Coll) (m u : Nat)
    (hsnap : ∀ p ∈ snap, p.1 ∈ K) (hkeys : (c.docs.map (·.1)).Sublist K)
    (hU : UniqS c) (hP : PfStable c) :
    UniqS (updateLoop now spec document nowV multi snap c m u).1 ∧
    (updateLoop now spec document nowV multi snap c m u).1.indexes = c.indexes := by
  induction snap generalizing c m u with
  | nil => unfold updateLoop; exact ⟨hU, rfl⟩
  | cons kv rest ih =>
    obtain ⟨key, v⟩ := kv
    have hrest : ∀ p ∈ rest, p.1 ∈ K := fun p hp => hsnap p (List.mem_cons_of_mem _ hp)
    have hkey : key ∈ K := hsnap (key, v) (List.mem_cons_self ..)
    unfold updateLoop
    cases hl : c.lookup key with
    | none => exact ih c m u hrest hkeys hU hP
    | some cur =>
      dsimp only
      cases hf : filterApplies spec cur with
      | error e => exact ⟨hU, rfl⟩
      | ok b =>
        cases b with
        | false => exact ih c m u hrest hkeys hU hP
        | true =>
          dsimp only
          cases ha : applyUpdate spec document nowV false cur with
          | error e => exact ⟨hU, rfl⟩
          | ok new =>
            dsimp only
            have hhas := hasKey_of_lookup hl
            by_cases hb : (if c.isOD key then pyEqOrdered new cur else pyEq new cur) = true
            · rw [if_pos hb]
              have he : pyEq new cur = true := by
                split at hb
                · exact pyEq_of_ordered hb
                · exact hb
              have hU0 : UniqS (c.setDoc key new) :=
                uniqS_silent hU hP (entry_count hK hkey hkeys) hl he
              have hi0 : (c.setDoc key new).indexes = c.indexes := setDoc_indexes c key new
              have hk0 : ((c.setDoc key new).docs.map (·.1)).Sublist K := by
                rw [setDoc_keys new hhas]; exact hkeys
              cases multi with
              | true =>
                simp only [if_true]
                obtain ⟨r1, r2⟩ := ih (c.setDoc key new) (m + 1) u hrest hk0 hU0
                  (pfStable_of_indexes hP hi0)
                exact ⟨r1, r2.trans hi0⟩
              | false => exact ⟨hU0, hi0⟩
            · rw [if_neg hb]
              generalize (!pyEqOpt _ _) = q
              cases q with
              | true => exact ⟨hU, rfl⟩
              | false =>
                simp only [Bool.false_eq_true, if_false]
                cases hu : ensureUniques now (c.setDoc key new) new with
                | error e => exact ⟨hU, rfl⟩
                | ok c2 =>
                  dsimp only
                  have hU2 : UniqS c2 := uniqS_checked_write hU hu
                  obtain ⟨hs2, hi2⟩ := sub_ensure hu
                  have hi2' : c2.indexes = c.indexes := hi2.trans (setDoc_indexes c key new)
                  have hk2 : (c2.docs.map (·.1)).Sublist K := by
                    refine (hs2.map _).trans ?_
                    rw [setDoc_keys new hhas]; exact hkeys
                  cases multi with
                  | true =>
                    simp only [if_true]
                    obtain ⟨r1, r2⟩ := ih c2 (m + 1) (u + 1) hrest hk2 hU2
                      (pfStable_of_indexes hP hi2')
                    exact ⟨r1, r2.trans hi2'⟩
                  | false => exact ⟨hU2, hi2'⟩

/-! ### `_apply_update` -/

theorem sub_pre (now : Int) (c c2 : Coll) (spec : Val)
    (h : (do
      let c1 ← expire now c
      if c1.docs.isEmpty then
        let _ ← filterApplies spec (.doc [])
      expire now c1) = Except.ok c2) : Sub c c2 := by
  cases h1 : expire now c with
  | error e => simp [h1, bind, Except.bind] at h
  | ok c1 =>
    simp only [h1, bind, Except.bind] at h
    have n1 : Sub c c1 := sub_expire h1
    split at h
    · split at h
      · cases h
      · exact n1.trans (sub_expire h)
    · exact n1.trans (sub_expire h)

theorem uniqS_applyUpdate (cfg : Cfg) (now : Int) (c c' : Coll) (f u : Val) (up multi : Bool)
    (r : R UpdateResult) (hU : UniqS c) (hP : PfStable c) (hK : KeysDistinctSym c)
    (h : applyUpdateColl cfg now c f u up multi = (c', r)) : UniqS c' := by
  unfold applyUpdateColl at h
  extract_lets spec document nowV at h
  clear_value spec document nowV
  split at h
  · rename_i ss dfs
    split at h
    · cases h; exact hU
    · split at h
      · cases h; exact hU
      · rename_i c2 hc2
        have n2 : Sub c c2 := sub_pre now c c2 _ hc2
        have hU2 := hU.sub n2
        have hP2 := pfStable_of_indexes hP n2.2
        have hK2 : KS (c2.docs.map (·.1)) := by
          unfold KS
          rw [List.pairwise_map]
          exact List.Pairwise.sublist n2.1 hK
        split at h
        rename_i c3 r3 hloop
        obtain ⟨hU3, hi3⟩ := updateLoop_inv (c2.docs.map (·.1)) hK2 now (Val.doc ss) (Val.doc dfs)
          nowV multi c2.docs c2 0 0 (fun p hp => List.mem_map_of_mem (f := (·.1)) hp)
          (List.Sublist.refl _) hU2 hP2
        rw [hloop] at hU3 hi3
        simp only at hU3 hi3
        split at h
        · cases h; exact hU3
        · split at h
          · cases h; exact hU3
          · split at h
            rename_i idv c4 hid
            have h4 : UniqS c4 := by
              have : c4 = c3 ∨ c4 = { c3 with nextOid := c3.nextOid + 1 } := by
                repeat' split at hid
                all_goals cases hid
                all_goals simp
              rcases this with rfl | rfl
              · exact hU3
              · exact hU3
            split at h
            · cases h; exact h4
            · rename_i c5 newId hins
              have h5 : UniqS c5 := by
                simp only [bind, Except.bind] at hins
                split at hins
                · cases hins
                · split at hins
                  · cases hins
                  · exact uniqS_insertDoc h4 hins
              cases h
              split
              · exact h5
              · exact h5
  · cases h; exact hU

end MongoModel.Proofs.C06Lemmas
