/-
  Proofs.C06Update — the carried invariant through `_apply_update`: both branches of the change
  test ("modified" and "unchanged by `==`") store the edited document and run `_ensure_uniques`;
  the loop and the upsert.
-/
import Proofs.C06Ops

set_option linter.unusedSimpArgs false

namespace MongoModel.Proofs.C06Lemmas
open MongoModel MongoModel.Spec

/-! ### the loop -/

theorem updateLoop_inv (now : Int) (spec document nowV : Val)
    (multi : Bool) (snap : List (Val × Val)) (c : Coll) (m u : Nat) (hU : UniqS c) :
    UniqS (updateLoop now spec document nowV multi snap c m u).1 := by
  induction snap generalizing c m u with
  | nil => unfold updateLoop; exact hU
  | cons kv rest ih =>
    obtain ⟨key, v⟩ := kv
    unfold updateLoop
    cases hl : c.lookup key with
    | none => exact ih c m u hU
    | some cur =>
      dsimp only
      cases hf : filterApplies spec cur with
      | error e => exact hU
      | ok b =>
        cases b with
        | false => exact ih c m u hU
        | true =>
          dsimp only
          cases ha : applyUpdate spec document nowV false cur with
          | error e => exact hU
          | ok new =>
            dsimp only
            by_cases hb : pyEq new cur = true
            · -- "unchanged by `==`": stored and checked all the same
              rw [if_pos hb]
              cases hu : ensureUniques now (c.setDoc key new) new with
              | error e => exact hU
              | ok c2 =>
                dsimp only
                have hU2 : UniqS c2 := uniqS_checked_write hU hu
                cases multi with
                | true => simp only [if_true]; exact ih c2 (m + 1) u hU2
                | false => exact hU2
            · rw [if_neg hb]
              generalize (!pyEqOpt _ _) = q
              cases q with
              | true => exact hU
              | false =>
                simp only [Bool.false_eq_true, if_false]
                cases hu : ensureUniques now (c.setDoc key new) new with
                | error e => exact hU
                | ok c2 =>
                  dsimp only
                  have hU2 : UniqS c2 := uniqS_checked_write hU hu
                  cases multi with
                  | true => simp only [if_true]; exact ih c2 (m + 1) (u + 1) hU2
                  | false => exact hU2

/-! ### `_apply_update` -/

theorem sub_pre (now : Int) (c c2 : Coll) (spec : Val)
    (h : (do
      let c1 ← expire now c
      if c1.docs.isEmpty then
        let _ ← filterApplies spec (.doc [])
      expire now c1) = Except.ok c2) : Sub c c2 := by
  cases h1 : expire now c with
  | error e => simp [h1, bind, Except.bind] at h
  | ok c1 =>
    simp only [h1, bind, Except.bind] at h
    have n1 : Sub c c1 := sub_expire h1
    split at h
    · split at h
      · cases h
      · exact n1.trans (sub_expire h)
    · exact n1.trans (sub_expire h)

theorem uniqS_applyUpdate (cfg : Cfg) (now : Int) (c c' : Coll) (f u : Val) (up multi : Bool)
    (r : R UpdateResult) (hU : UniqS c)
    (h : applyUpdateColl cfg now c f u up multi = (c', r)) : UniqS c' := by
  unfold applyUpdateColl at h
  extract_lets spec document nowV at h
  clear_value spec document nowV
  split at h
  · rename_i ss dfs
    split at h
    · cases h; exact hU
    · split at h
      · cases h; exact hU
      · rename_i c2 hc2
        have n2 : Sub c c2 := sub_pre now c c2 _ hc2
        have hU2 := hU.sub n2
        split at h
        rename_i c3 r3 hloop
        have hU3 := updateLoop_inv now (Val.doc ss) (Val.doc dfs) nowV multi c2.docs c2 0 0 hU2
        rw [hloop] at hU3
        simp only at hU3
        split at h
        · cases h; exact hU3
        · split at h
          · cases h; exact hU3
          · split at h
            rename_i idv c4 hid
            have h4 : UniqS c4 := by
              have : c4 = c3 ∨ c4 = { c3 with nextOid := c3.nextOid + 1 } := by
                repeat' split at hid
                all_goals cases hid
                all_goals simp
              rcases this with rfl | rfl
              · exact hU3
              · exact hU3
            cases hb : upsertDoc (Val.doc ss) (Val.doc dfs) nowV ss idv with
            | error e' => rw [hb] at h; cases h; exact h4
            | ok built =>
              rw [hb] at h
              dsimp only at h
              cases hins : insertDoc now c4 built with
              | error e' => rw [hins] at h; cases h; exact uniqS_markStored h4 _
              | ok p =>
                obtain ⟨c5, newId⟩ := p
                rw [hins] at h
                have h5 : UniqS c5 := uniqS_insertDoc h4 hins
                cases h
                exact h5
  · cases h; exact hU

end MongoModel.Proofs.C06Lemmas
