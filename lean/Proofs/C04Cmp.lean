/-
  Proofs.C04Cmp — the comparison operators: `$gt/$gte/$lt/$lte` are the four readings of one
  three-way comparison (`bsonCmp`), and on flat values without a boolean/number clash `$eq` is its
  third outcome, so exactly one of `$lt`, `$eq`, `$gt` holds.
-/
import Proofs.C04Ctx

set_option linter.unusedSimpArgs false

namespace MongoModel.Proofs.C04
open MongoModel MongoModel.Expr MongoModel.Spec

/-- `bson_compare(op, a, b)` with `can_compare_types=True` reads the three-way comparison -/
theorem bsonCompare_eq (op : CmpOp) (a b : Val) :
    bsonCompare op a b true = (bsonCmp a b).map op.holds := by
  cases a <;> cases b <;> simp [bsonCompare, bsonCmp, Val.tc, Except.map]

theorem ordering_ops (a b : Val) (o : Ordering) (h : bsonCmp a b = .ok o) :
    compareOp "$lt" a b = .ok (.bool (o == .lt)) ∧ compareOp "$gt" a b = .ok (.bool (o == .gt)) ∧
    compareOp "$lte" a b = .ok (.bool (o != .gt)) ∧ compareOp "$gte" a b = .ok (.bool (o != .lt)) := by
  simp [compareOp, bsonCompare_eq, h, Except.map, CmpOp.holds]

/-! ### `$eq` against the three-way comparison -/

theorem numEq_not_lt (x y : Num) (h : Num.eq x y = true) : Num.lt x y = false := by
  simp only [Num.eq, beq_iff_eq] at h
  simp [Num.lt, h]

theorem num_three (x y : Num) :
    ((if Num.lt x y then Ordering.lt else if Num.eq x y then .eq else .gt) == .eq) = Num.eq x y := by
  cases he : Num.eq x y
  · cases Num.lt x y <;> simp
  · simp [numEq_not_lt x y he]

theorem natCmp_ne (a b : Nat) (h : a ≠ b) : (natCmp a b == .eq) = false := by
  simp only [natCmp, beq_eq_false_iff_ne, ne_eq]
  intro e
  exact h (Nat.compare_eq_eq.mp e)

theorem boolNat (a b : Bool) : (compare a.toNat b.toNat == .eq) = (a == b) := by
  cases a <;> cases b <;> decide

theorem strThree (a b : String) : (strCmp a b == .eq) = (a == b) := by
  by_cases h : a = b
  · subst h; simp [strCmp]
  · have : compare a b ≠ .eq := fun e => h (Std.compare_eq_iff_eq.mp e)
    have h1 : (compare a b == Ordering.eq) = false := by simpa using this
    have h2 : (a == b) = false := by simpa using h
    simp [strCmp, h1, h2]

theorem intThree (a b : Int) : (compare a b == .eq) = (a == b) := by
  by_cases h : a = b
  · subst h; simp
  · have : compare a b ≠ .eq := fun e => h (Int.compare_eq_eq.mp e)
    have h1 : (compare a b == Ordering.eq) = false := by simpa using this
    have h2 : (a == b) = false := by simpa using h
    simp [h1, h2]

theorem beq_comm_int (a b : Int) : (a == b) = (b == a) := by
  by_cases h : a = b
  · subst h; rfl
  · have h' : ¬ b = a := fun e => h e.symm
    have h1 : (a == b) = false := by simpa using h
    have h2 : (b == a) = false := by simpa using h'
    rw [h1, h2]

theorem numEq_comm' (x y : Num) : Num.eq x y = Num.eq y x := by
  simp only [Num.eq]; exact beq_comm_int _ _

/-- what the domain condition gives for a boolean against a number -/
theorem bool_num_ne (b : Bool) (n : Num) (h : is01 n = false) :
    Num.eq ⟨if b then 1 else 0, 0⟩ n = false := by
  simp only [is01, Bool.or_eq_false_iff] at h
  cases b
  · simpa [numEq_comm' n] using h.1
  · simpa [numEq_comm' n] using h.2

theorem tc_ne_cmp (a b : Val) (h : a.tc ≠ b.tc) (ha : a.isDoc = false ∨ b.isDoc = false)
    (hb : a.isArr = false ∨ b.isArr = false) :
    bsonCmp a b = .ok (natCmp a.tc b.tc) ∧ (natCmp a.tc b.tc == .eq) = false := by
  refine ⟨?_, natCmp_ne _ _ h⟩
  cases a <;> cases b <;> simp_all [bsonCmp, Val.tc, Val.isDoc, Val.isArr]

theorem cmpScalar_cases (a : Val) (h : cmpScalar a = true) :
    a = .null ∨ (∃ b, a = .bool b) ∨ (∃ i, a = .int i) ∨ (∃ m e, a = .dbl m e) ∨
    (∃ s, a = .str s) ∨ (∃ u, a = .date u none) := by
  cases a with
  | date u o => cases o <;> simp [cmpScalar] at h ⊢
  | _ => simp [cmpScalar] at h ⊢

/-- scalars: the comparison does not raise, and Python `==` is its "equal" outcome -/
theorem scalar_eq_cmp (a b : Val) (ha : cmpScalar a = true) (hb : cmpScalar b = true)
    (hc : boolNumClash a b = false) :
    ∃ o, bsonCmp a b = .ok o ∧ pyEq a b = (o == .eq) := by
  by_cases htc : a.tc = b.tc
  · -- same comparison class
    cases a with
    | null => cases b <;> simp [Val.tc] at htc; exact ⟨.eq, by simp [bsonCmp, leafCmp, Val.tc], by simp [pyEq]⟩
    | bool x =>
      cases b <;> simp [Val.tc] at htc
      rename_i y
      exact ⟨compare x.toNat y.toNat, by simp [bsonCmp, leafCmp, Val.tc], by simp [pyEq, boolNat]⟩
    | int i =>
      cases b <;> simp [Val.tc] at htc
      · rename_i j
        exact ⟨_, by simp [bsonCmp, leafCmp, Val.tc, Val.num?]; rfl, by
          rw [num_three]; simp [pyEq, Num.eq]⟩
      · rename_i m e
        exact ⟨_, by simp [bsonCmp, leafCmp, Val.tc, Val.num?]; rfl, by
          rw [num_three]; simp [pyEq]⟩
    | dbl m e =>
      cases b <;> simp [Val.tc] at htc
      · rename_i j
        exact ⟨_, by simp [bsonCmp, leafCmp, Val.tc, Val.num?]; rfl, by
          rw [num_three]; simp [pyEq, numEq_comm' ⟨j, 0⟩]⟩
      · rename_i m' e'
        exact ⟨_, by simp [bsonCmp, leafCmp, Val.tc, Val.num?]; rfl, by
          rw [num_three]; simp [pyEq]⟩
    | str x =>
      cases b <;> simp [Val.tc] at htc
      rename_i y
      exact ⟨strCmp x y, by simp [bsonCmp, leafCmp, Val.tc], by simp [pyEq, strThree]⟩
    | date u o =>
      cases o <;> simp [cmpScalar] at ha
      cases b <;> simp [Val.tc] at htc
      rename_i u' o'
      cases o' <;> simp [cmpScalar] at hb
      exact ⟨compare u u', by simp [bsonCmp, leafCmp, Val.tc], by simp [pyEq, intThree]⟩
    | oid n => simp [cmpScalar] at ha
    | doc fs => simp [cmpScalar] at ha
    | arr xs => simp [cmpScalar] at ha
  · -- different classes: never equal, unless a boolean meets 0/1 — which the domain excludes
    have hd : a.isDoc = false ∨ b.isDoc = false := by
      left; cases a <;> simp [cmpScalar] at ha <;> rfl
    have hr : a.isArr = false ∨ b.isArr = false := by
      left; cases a <;> simp [cmpScalar] at ha <;> rfl
    obtain ⟨h1, h2⟩ := tc_ne_cmp a b htc hd hr
    refine ⟨_, h1, ?_⟩
    rw [h2]
    clear h1 h2 hd hr
    rcases cmpScalar_cases a ha with rfl | ⟨x, rfl⟩ | ⟨i, rfl⟩ | ⟨m, e, rfl⟩ | ⟨s, rfl⟩ | ⟨u, rfl⟩ <;>
    rcases cmpScalar_cases b hb with rfl | ⟨y, rfl⟩ | ⟨j, rfl⟩ | ⟨m', e', rfl⟩ | ⟨s', rfl⟩ | ⟨u', rfl⟩ <;>
    first
      | rfl
      | (exfalso; exact htc rfl)
      | skip
    · simp only [boolNumClash, hasBool, has01, Bool.true_or, Bool.true_and, Bool.or_false] at hc
      have := bool_num_ne x ⟨j, 0⟩ (by simpa [is01, Num.eq] using hc)
      simpa [pyEq, Num.eq] using this
    · simp only [boolNumClash, hasBool, has01, Bool.true_or, Bool.true_and, Bool.or_false] at hc
      simpa [pyEq] using bool_num_ne x ⟨m', e'⟩ hc
    · simp only [boolNumClash, hasBool, has01, Bool.or_true, Bool.true_and, Bool.false_or,
        Bool.or_false] at hc
      have := bool_num_ne y ⟨i, 0⟩ (by simpa [is01, Num.eq] using hc)
      simpa [pyEq, Num.eq] using this
    · simp only [boolNumClash, hasBool, has01, Bool.or_true, Bool.true_and, Bool.false_or,
        Bool.or_false] at hc
      simpa [pyEq] using bool_num_ne y ⟨m, e⟩ hc

theorem hasBoolList_mem (xs : List Val) (x : Val) (hx : x ∈ xs) (h : hasBool x = true) :
    hasBoolList xs = true := by
  induction xs with
  | nil => cases hx
  | cons y r ih =>
    rcases List.mem_cons.mp hx with e | hr
    · subst e; simp [hasBoolList, h]
    · simp [hasBoolList, ih hr]

theorem has01List_mem (xs : List Val) (x : Val) (hx : x ∈ xs) (h : has01 x = true) :
    has01List xs = true := by
  induction xs with
  | nil => cases hx
  | cons y r ih =>
    rcases List.mem_cons.mp hx with e | hr
    · subst e; simp [has01List, h]
    · simp [has01List, ih hr]

/-- arrays of scalars -/
theorem list_eq_cmp (xs ys : List Val) (hx : ∀ x ∈ xs, cmpScalar x = true)
    (hy : ∀ y ∈ ys, cmpScalar y = true)
    (hc : ∀ x ∈ xs, ∀ y ∈ ys, boolNumClash x y = false) :
    ∃ o, bsonCmpList xs ys = .ok o ∧ pyEqList xs ys = (o == .eq) := by
  induction xs generalizing ys with
  | nil => cases ys <;> simp [bsonCmpList, pyEqList]
  | cons x xs ih =>
    cases ys with
    | nil => simp [bsonCmpList, pyEqList]
    | cons y ys =>
      obtain ⟨o, ho, he⟩ := scalar_eq_cmp x y (hx x (by simp)) (hy y (by simp))
        (hc x (by simp) y (by simp))
      cases hp : pyEq x y
      · refine ⟨o, by simp [bsonCmpList, hp, ho], ?_⟩
        rw [hp] at he
        simp [pyEqList, hp, ← he]
      · obtain ⟨o', ho', he'⟩ := ih ys (fun a ha => hx a (by simp [ha]))
          (fun b hb => hy b (by simp [hb])) (fun a ha b hb => hc a (by simp [ha]) b (by simp [hb]))
        exact ⟨o', by simp [bsonCmpList, hp, ho'], by simp [pyEqList, hp, he']⟩

theorem pyEq_arr_left (xs : List Val) (b : Val) (h : b.isArr = false) : pyEq (.arr xs) b = false := by
  cases b with
  | date u o => cases o <;> rfl
  | arr ys => simp [Val.isArr] at h
  | _ => rfl

theorem pyEq_arr_right (a : Val) (ys : List Val) (h : a.isArr = false) : pyEq a (.arr ys) = false := by
  cases a with
  | date u o => cases o <;> rfl
  | arr xs => simp [Val.isArr] at h
  | _ => rfl

/-- flat values (scalars and arrays of scalars) without a boolean/number clash: the comparison
    does not raise and Python `==` is exactly its "equal" outcome -/
theorem flat_eq_cmp (a b : Val) (ha : cmpFlat a = true) (hb : cmpFlat b = true)
    (hc : boolNumClash a b = false) :
    ∃ o, bsonCmp a b = .ok o ∧ pyEq a b = (o == .eq) := by
  cases a with
  | arr xs =>
    cases b with
    | arr ys =>
      simp only [cmpFlat, List.all_eq_true] at ha hb
      have hcl : ∀ x ∈ xs, ∀ y ∈ ys, boolNumClash x y = false := by
        intro x hx y hy
        simp only [boolNumClash, hasBool, has01, Bool.and_eq_false_iff, Bool.or_eq_false_iff] at hc ⊢
        rcases hc with ⟨h1, h2⟩ | ⟨h1, h2⟩
        · left
          constructor
          · cases h : hasBool x
            · rfl
            · rw [hasBoolList_mem xs x hx h] at h1; cases h1
          · cases h : hasBool y
            · rfl
            · rw [hasBoolList_mem ys y hy h] at h2; cases h2
        · right
          constructor
          · cases h : has01 x
            · rfl
            · rw [has01List_mem xs x hx h] at h1; cases h1
          · cases h : has01 y
            · rfl
            · rw [has01List_mem ys y hy h] at h2; cases h2
      obtain ⟨o, ho, he⟩ := list_eq_cmp xs ys ha hb hcl
      exact ⟨o, by simpa [bsonCmp] using ho, by simpa [pyEq] using he⟩
    | _ =>
      all_goals
        refine ⟨_, (tc_ne_cmp _ _ (by simp [Val.tc]) (by simp [Val.isDoc]) (by simp [Val.isArr])).1, ?_⟩
        rw [(tc_ne_cmp _ _ (by simp [Val.tc]) (by simp [Val.isDoc]) (by simp [Val.isArr])).2]
        exact pyEq_arr_left _ _ rfl
  | _ =>
    all_goals
      cases b with
      | arr ys =>
        refine ⟨_, (tc_ne_cmp _ _ (by simp [Val.tc]) (by simp [Val.isDoc]) (by simp [Val.isArr])).1, ?_⟩
        rw [(tc_ne_cmp _ _ (by simp [Val.tc]) (by simp [Val.isDoc]) (by simp [Val.isArr])).2]
        exact pyEq_arr_right _ _ rfl
      | _ => exact scalar_eq_cmp _ _ (by simpa [cmpFlat] using ha) (by simpa [cmpFlat] using hb) hc

/-- **cmp_ops_total** on the stated domain: exactly one of `$lt`, `$eq`, `$gt` holds -/
theorem cmp_ops_total (a b : Val) (ha : cmpFlat a = true) (hb : cmpFlat b = true)
    (hc : boolNumClash a b = false) :
    ∃ o : Ordering,
      compareOp "$lt" a b = .ok (.bool (o == .lt)) ∧
      compareOp "$eq" a b = .ok (.bool (o == .eq)) ∧
      compareOp "$gt" a b = .ok (.bool (o == .gt)) ∧
      compareOp "$ne" a b = .ok (.bool (o != .eq)) ∧
      compareOp "$lte" a b = .ok (.bool (o != .gt)) ∧
      compareOp "$gte" a b = .ok (.bool (o != .lt)) := by
  obtain ⟨o, ho, he⟩ := flat_eq_cmp a b ha hb hc
  obtain ⟨h1, h2, h3, h4⟩ := ordering_ops a b o ho
  refine ⟨o, h1, ?_, h2, ?_, h3, h4⟩
  · simp [compareOp, he]
  · simp [compareOp, he, bne]

end MongoModel.Proofs.C04
