/-
  Proofs.C12Sub — `proj_sub`: whatever the specification, a projected document is ⊑ the input.
-/
import MongoModel.Project
import Spec.ProjectDomain

namespace MongoModel.Proofs.C12
open MongoModel MongoModel.Spec.Proj

/-! ### the relation ⊑ -/

theorem embedAt_split {p : Val → Bool} {k : List Val → Bool} :
    ∀ {zs : List Val}, embedAt p k zs = true →
      ∃ pre y post, zs = pre ++ y :: post ∧ p y = true ∧ k post = true
  | [], h => by simp [embedAt] at h
  | z :: zs, h => by
    simp only [embedAt, Bool.or_eq_true, Bool.and_eq_true] at h
    rcases h with ⟨h1, h2⟩ | h
    · exact ⟨[], z, zs, rfl, h1, h2⟩
    · obtain ⟨pre, y, post, e, h1, h2⟩ := embedAt_split h
      exact ⟨z :: pre, y, post, by simp [e], h1, h2⟩

theorem subList_nil (ys : List Val) : subList [] ys = true := by
  cases ys <;> simp [subList]

theorem subList_skip {xs ys : List Val} (y : Val) (h : subList xs ys = true) :
    subList xs (y :: ys) = true := by
  cases xs with
  | nil => exact subList_nil _
  | cons x xs =>
    simp only [subList] at h ⊢
    simp [embedAt, h]

theorem subList_take {x y : Val} {xs ys : List Val} (h1 : sub x y = true)
    (h2 : subList xs ys = true) : subList (x :: xs) (y :: ys) = true := by
  simp [subList, embedAt, h1, h2]

theorem subList_prepend {xs ys : List Val} (pre : List Val) (h : subList xs ys = true) :
    subList xs (pre ++ ys) = true := by
  induction pre with
  | nil => simpa using h
  | cons a pre ih => exact subList_skip a ih

theorem subList_tail {x : Val} {xs zs : List Val} (h : subList (x :: xs) zs = true) :
    subList xs zs = true := by
  simp only [subList] at h
  obtain ⟨pre, y, post, e, _, h2⟩ := embedAt_split h
  subst e
  exact subList_prepend pre (subList_skip y h2)

/-- a sublist of an embedded list is embedded -/
theorem subList_of_sublist {ys xs : List Val} (hs : ys.Sublist xs) :
    ∀ {zs : List Val}, subList xs zs = true → subList ys zs = true := by
  induction hs with
  | slnil => intro zs _; exact subList_nil _
  | cons a _ ih => intro zs h; exact ih (subList_tail h)
  | cons_cons a _ ih =>
    intro zs h
    simp only [subList] at h
    obtain ⟨pre, y, post, e, h1, h2⟩ := embedAt_split h
    subst e
    exact subList_prepend pre (subList_take h1 (ih h2))

theorem subFields_iff (fs gs : Fields) :
    subFields fs gs = true ↔ ∀ kv ∈ fs, ∃ kw ∈ gs, kw.1 = kv.1 ∧ sub kv.2 kw.2 = true := by
  induction fs with
  | nil => simp [subFields]
  | cons kv r ih =>
    obtain ⟨k, v⟩ := kv
    simp only [subFields, Bool.and_eq_true, ih, List.any_eq_true, beq_iff_eq, List.mem_cons,
      forall_eq_or_imp]

mutual
  theorem sub_refl : ∀ v : Val, sub v v = true
    | .null => by simp [sub, Val.beq]
    | .bool _ => by simp [sub, Val.beq]
    | .int _ => by simp [sub, Val.beq]
    | .dbl _ _ => by simp [sub, Val.beq]
    | .str _ => by simp [sub, Val.beq]
    | .date _ _ => by simp [sub, Val.beq]
    | .oid _ => by simp [sub, Val.beq]
    | .doc fs => by
      simp only [sub]
      rw [subFields_iff]
      intro kv hkv
      exact ⟨kv, hkv, rfl, subFields_refl_aux fs kv hkv⟩
    | .arr xs => by
      simp only [sub]
      exact subList_refl xs
  theorem subFields_refl_aux : ∀ (fs : Fields) (kv : String × Val), kv ∈ fs → sub kv.2 kv.2 = true
    | [], _, h => by simp at h
    | (k, v) :: r, kv, h => by
      rcases List.mem_cons.mp h with e | h
      · subst e; exact sub_refl v
      · exact subFields_refl_aux r kv h
  theorem subList_refl : ∀ xs : List Val, subList xs xs = true
    | [] => subList_nil _
    | x :: xs => subList_take (sub_refl x) (subList_refl xs)
end

/-- `o ⊑ d` on field lists, as a proposition -/
def SubF (o d : Fields) : Prop := ∀ kv ∈ o, ∃ kw ∈ d, kw.1 = kv.1 ∧ sub kv.2 kw.2 = true

theorem subF_refl (d : Fields) : SubF d d := fun kv h => ⟨kv, h, rfl, sub_refl _⟩

theorem subF_nil (d : Fields) : SubF [] d := fun _ h => by simp at h

theorem sub_doc_iff (o d : Fields) : sub (.doc o) (.doc d) = true ↔ SubF o d := by
  simp only [sub]; exact subFields_iff o d

/-! ### dict helpers -/

theorem dget_mem {k : String} {v : Val} : ∀ {fs : Fields}, dget k fs = some v → (k, v) ∈ fs
  | [], h => by simp [dget] at h
  | (k', v') :: r, h => by
    simp only [dget] at h
    split at h
    · next e => cases h; subst e; simp
    · exact List.mem_cons_of_mem _ (dget_mem h)

theorem mem_derase {k : String} {kv : String × Val} : ∀ {fs : Fields}, kv ∈ derase k fs → kv ∈ fs
  | [], h => by simp [derase] at h
  | (k', v') :: r, h => by
    simp only [derase] at h
    split at h
    · exact List.mem_cons_of_mem _ h
    · rcases List.mem_cons.mp h with e | h
      · simp [e]
      · exact List.mem_cons_of_mem _ (mem_derase h)

theorem mem_dset {k : String} {v : Val} {kv : String × Val} :
    ∀ {fs : Fields}, kv ∈ dset k v fs → kv ∈ fs ∨ kv = (k, v)
  | [], h => by simp [dset] at h; exact Or.inr h
  | (k', v') :: r, h => by
    simp only [dset] at h
    split at h
    · rcases List.mem_cons.mp h with e | h
      · exact Or.inr e
      · exact Or.inl (List.mem_cons_of_mem _ h)
    · rcases List.mem_cons.mp h with e | h
      · exact Or.inl (by simp [e])
      · rcases mem_dset h with h | h
        · exact Or.inl (List.mem_cons_of_mem _ h)
        · exact Or.inr h

theorem subF_derase {o d : Fields} (k : String) (h : SubF o d) : SubF (derase k o) d :=
  fun kv hkv => h kv (mem_derase hkv)

theorem subF_dset {o d : Fields} {k : String} {v w : Val} (h : SubF o d) (hw : (k, w) ∈ d)
    (hv : sub v w = true) : SubF (dset k v o) d := by
  intro kv hkv
  rcases mem_dset hkv with h' | e
  · exact h kv h'
  · subst e; exact ⟨(k, w), hw, rfl, hv⟩

/-! ### the error monad -/

theorem bind_ok {α β : Type} {x : R α} {f : α → R β} {b : β} (h : (x >>= f) = .ok b) :
    ∃ a, x = .ok a ∧ f a = .ok b := by
  cases x with
  | error e => simp [bind, Except.bind] at h
  | ok a => exact ⟨a, rfl, h⟩

theorem pure_ok {α : Type} {a b : α} (h : (pure a : R α) = .ok b) : a = b := by
  simpa [pure, Except.pure] using h

theorem subF_skip {r rest : Fields} (kv : String × Val) (h : SubF r rest) : SubF r (kv :: rest) :=
  fun x hx => let ⟨kw, hm, e⟩ := h x hx; ⟨kw, List.mem_cons_of_mem _ hm, e⟩

theorem subF_keep {r rest : Fields} {k : String} {v' v : Val} (h : SubF r rest)
    (hv : sub v' v = true) : SubF ((k, v') :: r) ((k, v) :: rest) := by
  intro x hx
  rcases List.mem_cons.mp hx with e | hx
  · subst e; exact ⟨(k, v), by simp, rfl, hv⟩
  · exact subF_skip _ h x hx

theorem subF_ite {r rest : Fields} {k : String} {v : Val} (c : Bool) (h : SubF r rest) :
    SubF (if c = true then (k, v) :: r else r) ((k, v) :: rest) := by
  cases c
  · simpa using subF_skip _ h
  · simpa using subF_keep h (sub_refl v)

theorem subF_ite' {r rest : Fields} {k : String} {v : Val} (c : Bool) (h : SubF r rest) :
    SubF (if c = true then r else (k, v) :: r) ((k, v) :: rest) := by
  cases c
  · simpa using subF_keep h (sub_refl v)
  · simpa using subF_skip _ h

/-- the tail of the three "plain" branches of `fpFields` -/
theorem fp_plain {rest : Fields} {cs : PSpec} {incl : Bool} {k : String} {v : Val} {o : Fields}
    (ih : ∀ o, fpFields rest cs incl = .ok o → SubF o rest) :
    ((do let r ← fpFields rest cs incl; pure (if incl = true then (k, v) :: r else r)) = Except.ok o
      → SubF o ((k, v) :: rest)) ∧
    ((do let r ← fpFields rest cs incl; pure (if incl = true then r else (k, v) :: r)) = Except.ok o
      → SubF o ((k, v) :: rest)) := by
  constructor
  · intro h
    obtain ⟨r, h2, h⟩ := bind_ok h
    have := pure_ok h; subst this
    exact subF_ite incl (ih r h2)
  · intro h
    obtain ⟨r, h2, h⟩ := bind_ok h
    have := pure_ok h; subst this
    exact subF_ite' incl (ih r h2)

mutual
  theorem fpVal_sub : ∀ (v : Val) (cs : PSpec) (incl : Bool) (w : Val),
      fpVal v cs incl = .ok (some w) → sub w v = true
    | .doc fs, cs, incl, w, h => by
      simp only [fpVal] at h
      obtain ⟨o, h2, h⟩ := bind_ok h
      have := pure_ok h; cases this
      exact (sub_doc_iff _ _).mpr (fpFields_sub fs cs incl o h2)
    | .arr zs, cs, incl, w, h => by
      simp only [fpVal] at h
      obtain ⟨o, h2, h⟩ := bind_ok h
      have := pure_ok h; cases this
      simp only [sub]
      exact fpList_sub zs cs incl o h2
    | .null, cs, incl, w, h => by
      simp only [fpVal] at h
      cases incl <;> simp at h
      subst h; exact sub_refl _
    | .bool _, cs, incl, w, h => by
      simp only [fpVal] at h
      cases incl <;> simp at h
      subst h; exact sub_refl _
    | .int _, cs, incl, w, h => by
      simp only [fpVal] at h
      cases incl <;> simp at h
      subst h; exact sub_refl _
    | .dbl _ _, cs, incl, w, h => by
      simp only [fpVal] at h
      cases incl <;> simp at h
      subst h; exact sub_refl _
    | .str _, cs, incl, w, h => by
      simp only [fpVal] at h
      cases incl <;> simp at h
      subst h; exact sub_refl _
    | .date _ _, cs, incl, w, h => by
      simp only [fpVal] at h
      cases incl <;> simp at h
      subst h; exact sub_refl _
    | .oid _, cs, incl, w, h => by
      simp only [fpVal] at h
      cases incl <;> simp at h
      subst h; exact sub_refl _
  theorem fpFields_sub : ∀ (fs : Fields) (cs : PSpec) (incl : Bool) (o : Fields),
      fpFields fs cs incl = .ok o → SubF o fs
    | [], cs, incl, o, h => by
      simp only [fpFields] at h
      cases h; exact subF_nil _
    | (k, .arr xs) :: rest, cs, incl, o, h => by
      simp only [fpFields] at h
      split at h
      · obtain ⟨_, _, h⟩ := bind_ok h
        obtain ⟨ys, h1, h⟩ := bind_ok h
        obtain ⟨r, h2, h⟩ := bind_ok h
        have := pure_ok h; subst this
        refine subF_keep (fpFields_sub rest cs incl r h2) ?_
        simp only [sub]
        exact fpList_sub xs _ incl ys h1
      · exact (fp_plain (fpFields_sub rest cs incl)).1 h
      · exact (fp_plain (fpFields_sub rest cs incl)).2 h
    | (k, .doc fs) :: rest, cs, incl, o, h => by
      simp only [fpFields] at h
      split at h
      · obtain ⟨_, _, h⟩ := bind_ok h
        obtain ⟨o', h1, h⟩ := bind_ok h
        obtain ⟨r, h2, h⟩ := bind_ok h
        have := pure_ok h; subst this
        exact subF_keep (fpFields_sub rest cs incl r h2)
          ((sub_doc_iff _ _).mpr (fpFields_sub fs _ incl o' h1))
      · exact (fp_plain (fpFields_sub rest cs incl)).1 h
      · exact (fp_plain (fpFields_sub rest cs incl)).2 h
    | (k, .null) :: rest, cs, incl, o, h => by
      simp only [fpFields] at h
      split at h
      · exact (fp_plain (fpFields_sub rest cs incl)).2 h
      · exact (fp_plain (fpFields_sub rest cs incl)).1 h
      · exact (fp_plain (fpFields_sub rest cs incl)).2 h
    | (k, .bool _) :: rest, cs, incl, o, h => by
      simp only [fpFields] at h
      split at h
      · exact (fp_plain (fpFields_sub rest cs incl)).2 h
      · exact (fp_plain (fpFields_sub rest cs incl)).1 h
      · exact (fp_plain (fpFields_sub rest cs incl)).2 h
    | (k, .int _) :: rest, cs, incl, o, h => by
      simp only [fpFields] at h
      split at h
      · exact (fp_plain (fpFields_sub rest cs incl)).2 h
      · exact (fp_plain (fpFields_sub rest cs incl)).1 h
      · exact (fp_plain (fpFields_sub rest cs incl)).2 h
    | (k, .dbl _ _) :: rest, cs, incl, o, h => by
      simp only [fpFields] at h
      split at h
      · exact (fp_plain (fpFields_sub rest cs incl)).2 h
      · exact (fp_plain (fpFields_sub rest cs incl)).1 h
      · exact (fp_plain (fpFields_sub rest cs incl)).2 h
    | (k, .str _) :: rest, cs, incl, o, h => by
      simp only [fpFields] at h
      split at h
      · exact (fp_plain (fpFields_sub rest cs incl)).2 h
      · exact (fp_plain (fpFields_sub rest cs incl)).1 h
      · exact (fp_plain (fpFields_sub rest cs incl)).2 h
    | (k, .date _ _) :: rest, cs, incl, o, h => by
      simp only [fpFields] at h
      split at h
      · exact (fp_plain (fpFields_sub rest cs incl)).2 h
      · exact (fp_plain (fpFields_sub rest cs incl)).1 h
      · exact (fp_plain (fpFields_sub rest cs incl)).2 h
    | (k, .oid _) :: rest, cs, incl, o, h => by
      simp only [fpFields] at h
      split at h
      · exact (fp_plain (fpFields_sub rest cs incl)).2 h
      · exact (fp_plain (fpFields_sub rest cs incl)).1 h
      · exact (fp_plain (fpFields_sub rest cs incl)).2 h
  theorem fpList_sub : ∀ (xs : List Val) (cs : PSpec) (incl : Bool) (ys : List Val),
      fpList xs cs incl = .ok ys → subList ys xs = true
    | [], cs, incl, ys, h => by
      simp only [fpList] at h
      cases h; exact subList_nil _
    | x :: xs, cs, incl, ys, h => by
      simp only [fpList] at h
      obtain ⟨y, h1, h⟩ := bind_ok h
      obtain ⟨ys', h2, h⟩ := bind_ok h
      have := pure_ok h; subst this
      cases y with
      | some y => exact subList_take (fpVal_sub x cs incl y h1) (fpList_sub xs cs incl ys' h2)
      | none => exact subList_skip x (fpList_sub xs cs incl ys' h2)
end

/-! ### operators and the whole of `_copy_only_fields` -/

theorem pySlice_sublist (xs : List Val) (a b : Int) : (projSlice xs a b).Sublist xs := by
  unfold projSlice
  exact (List.take_sublist _ _).trans (List.drop_sublist _ _)

theorem slicePairNum_sublist {s l : Val} {xs ys : List Val}
    (h : slicePairNum s l xs = .ok ys) : ys.Sublist xs := by
  unfold slicePairNum at h
  simp only at h
  split at h
  · cases h
  · split at h
    · cases h; exact pySlice_sublist _ _ _
    · split at h
      · split at h
        · cases h; exact pySlice_sublist _ _ _
        · cases h
      · cases h

theorem sliceOp_sublist {sv : Val} {xs ys : List Val} (h : sliceOp sv xs = .ok ys) :
    ys.Sublist xs := by
  unfold sliceOp at h
  split at h
  · split at h
    · cases h
    · cases h
    · split at h
      · cases h; exact pySlice_sublist _ _ _
      · exact slicePairNum_sublist h
  · cases h
  · split at h
    · split at h <;> (cases h; exact pySlice_sublist _ _ _)
    · cases h

theorem firstMatch_mem {q : Val} : ∀ {xs : List Val} {x : Val},
    firstMatch q xs = .ok (some x) → x ∈ xs
  | [], x, h => by simp [firstMatch] at h
  | y :: ys, x, h => by
    simp only [firstMatch] at h
    obtain ⟨b, _, h⟩ := bind_ok h
    cases b
    · simp only [Bool.false_eq_true, if_false] at h
      exact List.mem_cons_of_mem _ (firstMatch_mem h)
    · simp only [if_true] at h
      have := pure_ok h; cases this; simp

/-- replacing the array held by a field of the copy by a sublist of it keeps the copy ⊑ -/
theorem subF_dset_sublist {dc doc : Fields} {field : String} {xs ys : List Val}
    (h : SubF dc doc) (hg : dget field dc = some (.arr xs)) (hs : ys.Sublist xs) :
    SubF (dset field (.arr ys) dc) doc := by
  obtain ⟨kw, hm, hk, hsub⟩ := h _ (dget_mem hg)
  obtain ⟨k', w⟩ := kw
  simp only at hk hsub
  subst hk
  cases w with
  | arr zs =>
    simp only [sub] at hsub
    exact subF_dset h hm (by simp only [sub]; exact subList_of_sublist hs hsub)
  | _ => simp [sub] at hsub

theorem applyOp_sub {doc dc dc' : Fields} {field : String} {op : Fields}
    (h : SubF dc doc) (ho : applyOp doc dc field op = .ok dc') : SubF dc' doc := by
  unfold applyOp at ho
  simp only at ho
  split at ho
  · cases ho; exact h
  · rename_i start dc0 hstart
    have h0 : SubF dc0 doc := by
      split at hstart
      · cases hstart; exact h
      · split at hstart
        · rename_i v hv
          cases hstart
          exact subF_dset h (dget_mem hv) (sub_refl v)
        · cases hstart
    obtain ⟨dc1, h1, ho⟩ := bind_ok ho
    have h1' : SubF dc1 doc := by
      split at h1
      · have := pure_ok h1; subst this; exact h0
      · split at h1
        · rename_i xs hxs
          obtain ⟨ys, hys, h1⟩ := bind_ok h1
          have := pure_ok h1; subst this
          exact subF_dset_sublist h0 hxs (sliceOp_sublist hys)
        · cases h1
    split at ho
    · have := pure_ok ho; subst this; exact h1'
    · split at ho
      · rename_i xs hxs
        obtain ⟨m, hm, ho⟩ := bind_ok ho
        split at ho
        · rename_i item
          have := pure_ok ho; subst this
          exact subF_dset_sublist h1' hxs (List.singleton_sublist.mpr (firstMatch_mem hm))
        · have := pure_ok ho; subst this
          exact subF_derase _ h1'
      · have := pure_ok ho; subst this
        exact subF_derase _ h1'

theorem applyOps_sub {doc : Fields} : ∀ {ops dc dc' : Fields},
    SubF dc doc → applyProjOps doc ops dc = .ok dc' → SubF dc' doc
  | [], dc, dc', h, ho => by simp only [applyProjOps] at ho; cases ho; exact h
  | (field, .doc op) :: r, dc, dc', h, ho => by
    simp only [applyProjOps] at ho
    obtain ⟨dc1, h1, ho⟩ := bind_ok ho
    exact applyOps_sub (applyOp_sub h h1) ho
  | (_, .null) :: _, _, _, _, ho => by simp [applyProjOps, unmodelled] at ho
  | (_, .bool _) :: _, _, _, _, ho => by simp [applyProjOps, unmodelled] at ho
  | (_, .int _) :: _, _, _, _, ho => by simp [applyProjOps, unmodelled] at ho
  | (_, .dbl _ _) :: _, _, _, _, ho => by simp [applyProjOps, unmodelled] at ho
  | (_, .str _) :: _, _, _, _, ho => by simp [applyProjOps, unmodelled] at ho
  | (_, .date _ _) :: _, _, _, _, ho => by simp [applyProjOps, unmodelled] at ho
  | (_, .oid _) :: _, _, _, _, ho => by simp [applyProjOps, unmodelled] at ho
  | (_, .arr _) :: _, _, _, _, ho => by simp [applyProjOps, unmodelled] at ho

theorem baseCopy_sub {doc plain dc : Fields} {idv : Val} {ka : Bool}
    (h : baseCopy doc plain idv ka = .ok dc) :
    SubF dc doc := by
  unfold baseCopy at h
  obtain ⟨mixed, hm, h⟩ := bind_ok h
  split at h
  · cases h
  · obtain ⟨dc0, hdc, h⟩ := bind_ok h
    have hdc' : SubF dc0 doc := by
      split at hdc
      · have := pure_ok hdc; subst this
        split
        · exact subF_nil _
        · exact subF_refl _
      · obtain ⟨cs, _, hdc⟩ := bind_ok hdc
        obtain ⟨_, _, hdc⟩ := bind_ok hdc
        exact fpFields_sub _ _ _ _ hdc
    have := pure_ok h; subst this
    split
    · exact subF_derase _ hdc'
    · unfold attachId
      split
      · rename_i v hv
        exact subF_dset hdc' (dget_mem hv) (sub_refl v)
      · exact hdc'

theorem copyWithDict_sub {doc fields o : Fields} (h : copyWithDict doc fields = .ok o) :
    SubF o doc := by
  unfold copyWithDict at h
  simp only at h
  obtain ⟨⟨ops, plain⟩, hx, h⟩ := bind_ok h
  simp only at h
  obtain ⟨dc, hdc, h⟩ := bind_ok h
  exact applyOps_sub (baseCopy_sub hdc) h

theorem proj_sub (p d o : Val) (h : copyOnlyFields d p = .ok o) : sub o d = true := by
  unfold copyOnlyFields at h
  split at h
  · rename_i doc
    split at h
    · cases h; exact sub_refl _
    · cases h; exact sub_refl _
    · cases h; exact sub_refl _
    · rename_i fields _
      cases hc : copyWithDict doc fields with
      | error e => simp [hc, Except.map] at h
      | ok o' =>
        simp [hc, Except.map] at h; subst h
        exact (sub_doc_iff _ _).mpr (copyWithDict_sub hc)
    · rename_i names _
      obtain ⟨fields, _, h⟩ := bind_ok h
      cases hc : copyWithDict doc fields with
      | error e => simp [hc, Except.map] at h
      | ok o' =>
        simp [hc, Except.map] at h; subst h
        exact (sub_doc_iff _ _).mpr (copyWithDict_sub hc)
    · simp [unmodelled] at h
  · simp [unmodelled] at h

end MongoModel.Proofs.C12
