/-
  Proofs.C09Expire — the expiry test against the oracle, and the structure of one expiry pass.
-/
import Spec.Ttl

namespace MongoModel.Proofs.C09Lemmas
open MongoModel MongoModel.Spec

/-! ### `minDate` is `earliestDate` -/

/-- the step function of the fold inside `minDate` -/
def minStep (acc : Option Int) (x : Val) : Option Int :=
  match x with
  | .date us none => (match acc with
    | none => some us
    | some a => some (if us < a then us else a))
  | _ => acc

def optMin (acc : Option Int) (m : Option Int) : Option Int :=
  match acc, m with
  | none, m => m
  | some a, none => some a
  | some a, some b => some (min a b)

theorem foldl_minStep (xs : List Val) (acc : Option Int) :
    xs.foldl minStep acc = optMin acc ((xs.filterMap naiveDate?).min?) := by
  induction xs generalizing acc with
  | nil => cases acc <;> simp [optMin]
  | cons x xs ih =>
    rw [List.foldl_cons, ih]
    cases hx : naiveDate? x with
    | none =>
      have : minStep acc x = acc := by
        unfold minStep
        split
        · simp [naiveDate?] at hx
        · rfl
      rw [this, List.filterMap_cons_none hx]
    | some us =>
      have hxe : x = .date us none := by
        unfold naiveDate? at hx
        split at hx
        · simp at hx; subst hx; rfl
        · simp at hx
      subst hxe
      rw [List.filterMap_cons_some hx, List.min?_cons]
      cases acc with
      | none =>
        cases hm : (List.filterMap naiveDate? xs).min? with
        | none => simp [minStep, optMin]
        | some m => simp [minStep, optMin]
      | some a =>
        cases hm : (List.filterMap naiveDate? xs).min? with
        | none =>
          simp only [minStep, optMin, Option.elim]
          congr 1
          omega
        | some m =>
          simp only [minStep, optMin, Option.elim]
          congr 1
          omega

theorem minDate_eq (o : Option Val) : minDate o = earliestDate o := by
  cases o with
  | none => rfl
  | some v =>
    cases v with
    | arr xs =>
      cases xs with
      | nil => simp [minDate, earliestDate, Val.truthy]
      | cons x xs =>
        have := foldl_minStep (x :: xs) none
        simp only [optMin] at this
        simp only [minDate, earliestDate, Val.truthy, List.isEmpty_cons, Bool.not_false,
          Bool.not_true, Bool.false_eq_true, if_false]
        exact this
    | date us off =>
      cases off <;> simp [minDate, earliestDate, Val.truthy]
    | _ => simp [minDate, earliestDate]

theorem meetsExpiry_eq (field : String) (secs now : Int) (d : Val) :
    meetsExpiry field secs now d = isExpired field secs now d := by
  cases d with
  | doc fs =>
    simp only [meetsExpiry, isExpired, minDate_eq]
    cases earliestDate (dget field fs) with
    | none => rfl
    | some us =>
      simp only [ge_iff_le]
      rw [decide_eq_decide]
      omega
  | _ => rfl

/-! ### one index of the pass -/

/-- what an index does in a pass: fail, nothing, or filter on `(field, secs)`; depends on the
    index only -/
def ixAction (ix : Index) : R (Option (String × Int)) :=
  match ix.ttl with
  | none => .ok none
  | some raw =>
    match ttlSeconds raw with
    | .error e => .error e
    | .ok none => .ok none
    | .ok (some secs) =>
      if ix.keys.length > 1 then .ok none
      else match ix.keys with
        | [] => .error .other
        | (field, _) :: _ => .ok (some (field, secs))

/-- the filtering done by a single-field TTL index -/
def filt (now : Int) (c : Coll) (field : String) (secs : Int) : Coll :=
  { c with docs := c.docs.filter (fun p => !meetsExpiry field secs now p.2) }

theorem expireIndex_eq (now : Int) (c : Coll) (ix : Index) :
    expireIndex now c ix =
      match ixAction ix with
      | .error e => .error e
      | .ok none => .ok c
      | .ok (some (f, s)) => .ok (filt now c f s) := by
  unfold expireIndex ixAction
  cases ix.ttl with
  | none => rfl
  | some raw =>
    simp only []
    cases ttlSeconds raw with
    | error e => rfl
    | ok o =>
      cases o with
      | none => rfl
      | some secs =>
        simp only [bind, Except.bind, pure, Except.pure]
        by_cases hl : ix.keys.length > 1
        · simp [hl]
        · simp only [hl, if_false]
          cases ix.keys with
          | nil => rfl
          | cons kv r => cases kv; rfl

theorem filt_of_clean (now : Int) (c : Coll) (f : String) (s : Int)
    (h : ∀ p ∈ c.docs, meetsExpiry f s now p.2 = false) : filt now c f s = c := by
  have h1 : c.docs.filter (fun p => !meetsExpiry f s now p.2) = c.docs := by
    rw [List.filter_eq_self]
    intro p hp
    simp [h p hp]
  unfold filt
  rw [h1]

theorem filt_clean (now : Int) (c : Coll) (f : String) (s : Int) :
    ∀ p ∈ (filt now c f s).docs, meetsExpiry f s now p.2 = false := by
  intro p hp
  simp only [filt, List.mem_filter] at hp
  simpa using hp.2

theorem filt_sublist (now : Int) (c : Coll) (f : String) (s : Int) :
    (filt now c f s).docs.Sublist c.docs := List.filter_sublist

theorem ixAction_some (ix : Index) (f : String) (s : Int) (h : ixAction ix = .ok (some (f, s))) :
    ∃ dir raw, ix.keys = [(f, dir)] ∧ ix.ttl = some raw ∧ ttlSeconds raw = .ok (some s) := by
  unfold ixAction at h
  cases ht : ix.ttl with
  | none => rw [ht] at h; cases h
  | some raw =>
    rw [ht] at h
    simp only [] at h
    cases hs : ttlSeconds raw with
    | error e => rw [hs] at h; cases h
    | ok o =>
      rw [hs] at h
      cases o with
      | none => cases h
      | some secs =>
        simp only [] at h
        by_cases hl : ix.keys.length > 1
        · simp [hl] at h
        · simp only [hl, if_false] at h
          cases hk : ix.keys with
          | nil => rw [hk] at h; cases h
          | cons kv r =>
            rw [hk] at h
            obtain ⟨k, d⟩ := kv
            simp only [Except.ok.injEq, Option.some.injEq, Prod.mk.injEq] at h
            obtain ⟨rfl, rfl⟩ := h
            cases r with
            | nil => exact ⟨d, raw, rfl, rfl, hs⟩
            | cons x r => rw [hk] at hl; simp at hl

theorem ixAction_single (ix : Index) (f : String) (dir raw : Val) (s : Int)
    (hk : ix.keys = [(f, dir)]) (hr : ix.ttl = some raw) (hs : ttlSeconds raw = .ok (some s)) :
    ixAction ix = .ok (some (f, s)) := by
  unfold ixAction
  rw [hr]
  simp only []
  rw [hs]
  simp [hk]

/-! ### the whole pass -/

/-- the pass over a list of indexes -/
def pass (now : Int) (l : List Index) (c : Coll) : R Coll := l.foldlM (expireIndex now) c

theorem expire_eq_pass (now : Int) (c : Coll) : expire now c = pass now c.ttlIndexes c := rfl

theorem pass_nil (now : Int) (c : Coll) : pass now [] c = .ok c := rfl

theorem pass_cons (now : Int) (ix : Index) (l : List Index) (c : Coll) :
    pass now (ix :: l) c =
      match ixAction ix with
      | .error e => .error e
      | .ok none => pass now l c
      | .ok (some (f, s)) => pass now l (filt now c f s) := by
  unfold pass
  rw [List.foldlM_cons, expireIndex_eq]
  cases ixAction ix with
  | error e => rfl
  | ok o =>
    cases o with
    | none => rfl
    | some fs => cases fs; rfl

/-- no document of `c` meets the expiry test of an index of `l` -/
def Clean (now : Int) (l : List Index) (c : Coll) : Prop :=
  ∀ ix ∈ l, ∀ f s, ixAction ix = .ok (some (f, s)) →
    ∀ p ∈ c.docs, meetsExpiry f s now p.2 = false

/-- no index of `l` fails -/
def NoFail (l : List Index) : Prop := ∀ ix ∈ l, ∀ e, ixAction ix ≠ .error e

/-- the fields a pass never touches -/
def SameMeta (c c' : Coll) : Prop :=
  c'.indexes = c.indexes ∧ c'.ttlIndexes = c.ttlIndexes ∧ c'.forceCreated = c.forceCreated ∧
  c'.nextOid = c.nextOid

theorem pass_ok (now : Int) (l : List Index) (c c' : Coll) (h : pass now l c = .ok c') :
    c'.docs.Sublist c.docs ∧ SameMeta c c' ∧ NoFail l ∧ Clean now l c' := by
  induction l generalizing c with
  | nil =>
    rw [pass_nil] at h
    cases h
    refine ⟨List.Sublist.refl _, ⟨rfl, rfl, rfl, rfl⟩, ?_, ?_⟩
    · intro ix hix; cases hix
    · intro ix hix; cases hix
  | cons ix l ih =>
    rw [pass_cons] at h
    cases ha : ixAction ix with
    | error e => rw [ha] at h; cases h
    | ok o =>
      cases o with
      | none =>
        rw [ha] at h
        obtain ⟨h1, h2, h3, h4⟩ := ih c h
        refine ⟨h1, h2, ?_, ?_⟩
        · intro ix' hix' e
          rcases List.mem_cons.1 hix' with rfl | hm
          · rw [ha]; intro hh; cases hh
          · exact h3 ix' hm e
        · intro ix' hix' f s hfs
          rcases List.mem_cons.1 hix' with rfl | hm
          · rw [ha] at hfs; cases hfs
          · exact h4 ix' hm f s hfs
      | some fs =>
        obtain ⟨f, s⟩ := fs
        rw [ha] at h
        obtain ⟨h1, h2, h3, h4⟩ := ih _ h
        refine ⟨h1.trans (filt_sublist now c f s), h2, ?_, ?_⟩
        · intro ix' hix' e
          rcases List.mem_cons.1 hix' with rfl | hm
          · rw [ha]; intro hh; cases hh
          · exact h3 ix' hm e
        · intro ix' hix' f' s' hfs
          rcases List.mem_cons.1 hix' with rfl | hm
          · rw [ha] at hfs
            cases hfs
            intro p hp
            exact filt_clean now c f s p (h1.subset hp)
          · exact h4 ix' hm f' s' hfs

theorem pass_of_clean (now : Int) (l : List Index) (c : Coll) (hn : NoFail l)
    (hc : Clean now l c) : pass now l c = .ok c := by
  induction l with
  | nil => rfl
  | cons ix l ih =>
    have hn' : NoFail l := fun ix' h' => hn ix' (List.mem_cons_of_mem _ h')
    have hc' : Clean now l c := fun ix' h' => hc ix' (List.mem_cons_of_mem _ h')
    rw [pass_cons]
    cases ha : ixAction ix with
    | error e => exact absurd ha (hn ix (List.mem_cons_self ..) e)
    | ok o =>
      cases o with
      | none => exact ih hn' hc'
      | some fs =>
        obtain ⟨f, s⟩ := fs
        simp only []
        rw [filt_of_clean now c f s (hc ix (List.mem_cons_self ..) f s ha)]
        exact ih hn' hc'

theorem expire_ok (now : Int) (c c' : Coll) (h : expire now c = .ok c') :
    c'.docs.Sublist c.docs ∧ SameMeta c c' := by
  rw [expire_eq_pass] at h
  obtain ⟨h1, h2, _, _⟩ := pass_ok now _ c c' h
  exact ⟨h1, h2⟩

theorem expire_idem (now : Int) (c c' : Coll) (h : expire now c = .ok c') :
    expire now c' = .ok c' := by
  rw [expire_eq_pass] at h
  obtain ⟨_, h2, h3, h4⟩ := pass_ok now _ c c' h
  rw [expire_eq_pass, h2.2.1]
  exact pass_of_clean now _ c' h3 h4

/-! ### the id counter is not looked at -/

theorem filt_nextOid (now : Int) (c : Coll) (f : String) (s : Int) (n : Nat) :
    filt now { c with nextOid := n } f s = { filt now c f s with nextOid := n } := rfl

theorem pass_nextOid (now : Int) (l : List Index) (c : Coll) (n : Nat) :
    pass now l { c with nextOid := n } =
      (match pass now l c with
       | .ok c' => .ok { c' with nextOid := n }
       | .error e => .error e) := by
  induction l generalizing c with
  | nil => rfl
  | cons ix l ih =>
    rw [pass_cons, pass_cons]
    cases ixAction ix with
    | error e => rfl
    | ok o =>
      cases o with
      | none => exact ih c
      | some fs =>
        obtain ⟨f, s⟩ := fs
        simp only []
        rw [filt_nextOid]
        exact ih _

theorem expire_nextOid (now : Int) (c c' : Coll) (n : Nat) (h : expire now c = .ok c') :
    expire now { c with nextOid := n } = .ok { c' with nextOid := n } := by
  rw [expire_eq_pass] at h
  rw [expire_eq_pass]
  show pass now c.ttlIndexes { c with nextOid := n } = _
  rw [pass_nextOid, h]

end MongoModel.Proofs.C09Lemmas
