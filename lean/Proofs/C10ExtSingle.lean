/-
  Proofs.C10ExtSingle — `find_one` and `find_one_and_*` pick their document in the shared
  selection (derived from Proofs/C14*.lean).
-/
import Spec.CountsExt
import Proofs.C14

namespace MongoModel.Proofs.C10Ext
open MongoModel MongoModel.Spec
open MongoModel.Proofs.C10Lemmas MongoModel.Proofs.C09Lemmas MongoModel.Proofs.C14Lemmas

/-- the first document in sort order exists iff something is selected -/
theorem firstSorted_none_iff (sort : Option SortSpec) (sel : List (Val × Val)) (t : Option Val)
    (h : firstSorted sort sel = .ok t) : t = none ↔ sel = [] := by
  unfold firstSorted at h
  cases hg : getDataset sort (sel.map (·.2)) with
  | error e => rw [hg] at h; cases h
  | ok sorted =>
    rw [hg] at h
    simp only [Except.map, Except.ok.injEq] at h
    subst h
    have hp := getDataset_perm sort _ sorted hg
    constructor
    · intro hn
      have : sorted = [] := List.head?_eq_none_iff.1 hn
      subst this
      have := hp.symm.eq_nil
      exact List.map_eq_nil_iff.1 this
    · intro hn
      subst hn
      have := hp.eq_nil
      subst this
      rfl

theorem find_one_in_selection (now : Int) (c c1 : Coll) (fs : Fields) (proj : Val)
    (sort : Option SortSpec) (sel : List (Val × Val)) (out : Option Val)
    (he : expire now c = .ok c1) (hne : c1.docs ≠ [])
    (hs : selectDocs (patchDT (.doc fs)) c1.docs = .ok sel)
    (h : (findOneColl now c (.doc fs) proj sort).2 = .ok out) :
    (out = none ↔ sel = []) ∧
    (∀ o, out = some o → ∃ p ∈ sel, firstSorted sort sel = .ok (some p.2) ∧
      copyOnlyFields p.2 proj = .ok o) := by
  obtain ⟨t, ht, hm⟩ := MongoModel.Proofs.C14.find_one_is_first_sorted now c c1 fs proj sort sel
    out he hne hs h
  have hiff := firstSorted_none_iff sort sel t ht
  cases t with
  | none =>
    dsimp only at hm
    subst hm
    exact ⟨⟨fun _ => hiff.1 rfl, fun _ => rfl⟩, fun o ho => by cases ho⟩
  | some d =>
    dsimp only at hm
    obtain ⟨hc, hsome⟩ := hm
    obtain ⟨p, hp, rfl⟩ := target_entry sort sel d ht
    constructor
    · constructor
      · intro ho; subst ho; cases hsome
      · intro hn; have := hiff.2 hn; cases this
    · intro o ho
      subst ho
      exact ⟨p, hp, ht, hc⟩

/-- the first read of `findAndModify` is `firstSorted` of the selection -/
theorem fam_first_read (now : Int) (c : Coll) (fs : Fields) (sort : Option SortSpec)
    (sel : List (Val × Val)) (hi : IdInv c) (hn : c.ttlIndexes = []) (hne : c.docs ≠ [])
    (hs : selectDocs (patchDT (.doc fs)) c.docs = .ok sel) :
    findOneColl now c (.doc fs) .null sort = (c, firstSorted sort sel) := by
  have he := expire_nil now c hn
  have hsub := select_sublist _ _ _ hs
  have hdoc : ∀ d ∈ sel.map (·.2), ∃ fs, d = Val.doc fs := by
    intro d hd
    obtain ⟨p, hp, rfl⟩ := List.mem_map.1 hd
    obtain ⟨id, hidp, _⟩ := hi.2 p (hsub.subset hp)
    cases hp2 : p.2 with
    | doc fs => exact ⟨fs, rfl⟩
    | _ => rw [hp2] at hidp; cases hidp
  rw [findOne_eq now c c fs .null sort sel he hne hs, headProj_null sort _ hdoc]
  rfl

theorem fam_target_in_selection (cfg : Cfg) (now : Int) (c c' : Coll) (fs : Fields) (proj : Val)
    (update : Option Val) (upsert after : Bool) (sort : Option SortSpec)
    (sel : List (Val × Val)) (ret : Option Val)
    (hne : c.docs ≠ []) (hi : IdInv c) (hg : GoodKeys c) (hn : c.ttlIndexes = [])
    (hna : ∀ p ∈ c.docs, p.1.isArr = false)
    (hs : selectDocs (patchDT (.doc fs)) c.docs = .ok sel)
    (hid : ∀ p ∈ sel, ∀ tid, idOf p.2 = some tid → isScalar tid = true ∧ patchDT tid = tid)
    (hda : update = none → upsert = false ∧ after = false)
    (h : findAndModify cfg now c (.doc fs) proj update upsert sort after = (c', .ok ret)) :
    (sel = [] → upsert = false → ret = none ∧ c'.docs = c.docs) ∧
    (sel ≠ [] → ∃ p ∈ sel, ∃ tid, idOf p.2 = some tid ∧
      firstSorted sort sel = .ok (some p.2) ∧ sameExcept tid c.docs c'.docs ∧
      (after = false → copyOnlyFields p.2 proj = .ok (ret.getD .null) ∧ ret.isSome)) := by
  have he := expire_nil now c hn
  constructor
  · intro hsel hup
    subst hsel hup
    exact MongoModel.Proofs.C14.fam_no_match_noop cfg now c c c' fs proj update sort after ret he
      hne hs h
  · intro hsel
    have hgo := findAndModify_go _ _ _ _ _ _ _ _ _ _ _ h
    have hr := fam_first_read now c fs sort sel hi hn hne hs
    cases ht : firstSorted sort sel with
    | error e =>
      rw [ht] at hr
      unfold findAndModify.go at hgo
      rw [hr] at hgo
      cases hgo
    | ok t =>
      cases t with
      | none => exact absurd ((firstSorted_none_iff sort sel none ht).1 rfl) hsel
      | some target =>
        obtain ⟨p, hp, rfl⟩ := target_entry sort sel target ht
        have hpc : p ∈ c.docs := (select_sublist _ _ _ hs).subset hp
        obtain ⟨tid, htid, _⟩ := hi.2 p hpc
        obtain ⟨hsc, hpt⟩ := hid p hp tid htid
        refine ⟨p, hp, tid, htid, rfl, ?_⟩
        cases update with
        | none =>
          obtain ⟨rfl, rfl⟩ := hda rfl
          obtain ⟨h1, _, h3, h4⟩ := MongoModel.Proofs.C14.fam_delete_spec_alt cfg now c c c' fs proj
            sort sel p.2 tid ret he hi hg hn hna hs ht htid hsc hpt h
          exact ⟨h1, fun _ => ⟨h3, h4⟩⟩
        | some u =>
          obtain ⟨h1, _, h3, _⟩ := MongoModel.Proofs.C14.fam_update_spec_alt cfg now c c c' fs proj
            u upsert after sort sel p.2 tid ret he hi hg hn hna hs ht htid hsc hpt h
          exact ⟨h1, h3⟩

end MongoModel.Proofs.C10Ext
