/-
  Proofs.C03ExtGroup — `$group` against the oracle `specGroupStage` / `specGroupStageSorted` of
  Spec/PipelineExt.lean on the domain `groupReasons = []`.
-/
import Proofs.C03ExtAvg
import Proofs.C03Spec
import Proofs.C04

namespace MongoModel.Pipe.Proofs
open MongoModel MongoModel.Pipe MongoModel.Spec MongoModel.Spec.Pipe MongoModel.Spec.Order
  MongoModel.Proofs.C11 MongoModel.Expr

/-! ### expressions: the C04 theorem -/

theorem evalExpr_of_reasons (e d : Val) (h : exprReasons e d = []) : evalExpr d e = specEval d e :=
  Proofs.C04.eval_eq_spec e d (by simp [exprInD, h])

theorem exprTags_nil (e : Val) (docs : List Val) (h : exprTags e docs = []) :
    ∀ d ∈ docs, exprReasons e d = [] := by
  intro d hd
  have := (flatMap_nil_iff' _ _).1 h d hd
  exact (tag_nil _ _).1 this

theorem exprValue_some (e d : Val) (r : Option Val) (h : exprValue e d = some r) :
    specEval d e = .ok r := by
  unfold exprValue at h
  cases hs : specEval d e with
  | error err => rw [hs] at h; cases h
  | ok r' => rw [hs] at h; cases h; rfl

theorem mapOpt_cons_some {α β} {f : α → Option β} {x : α} {xs : List α} {ys : List β}
    (h : mapOpt f (x :: xs) = some ys) :
    ∃ y r, f x = some y ∧ mapOpt f xs = some r ∧ ys = y :: r := by
  simp only [mapOpt] at h
  cases hx : f x with
  | none => simp [hx] at h
  | some y =>
    cases hr : mapOpt f xs with
    | none => simp [hx, hr] at h
    | some r =>
      simp only [hx, hr, Option.some.injEq] at h
      exact ⟨y, r, rfl, rfl, h.symm⟩

/-! ### keys -/

theorem keyed_eq_spec (idExpr : Val) : ∀ (docs : List Val) (kds : List (Val × Val)),
    (∀ d ∈ docs, exprReasons idExpr d = []) → specKeyed idExpr docs = some kds →
    keyed idExpr docs = .ok kds
  | [], kds, _, h => by simp [specKeyed, mapOpt] at h; subst h; rfl
  | d :: ds, kds, hD, h => by
    obtain ⟨y, r, h1, h2, rfl⟩ := mapOpt_cons_some h
    have ih := keyed_eq_spec idExpr ds r (fun x hx => hD x (List.mem_cons_of_mem _ hx)) h2
    cases hv : exprValue idExpr d with
    | none => simp [hv] at h1
    | some rv =>
      simp only [hv, Option.map_some, Option.some.injEq] at h1
      subst h1
      have := exprValue_some _ _ _ hv
      simp only [keyed, groupKey, evalExpr_of_reasons idExpr d (hD d List.mem_cons_self), this, ih]
      cases rv <;> rfl

/-! ### accumulator values -/

theorem accValues_eq_spec (fl : Bool) (e : Val) :
    ∀ (g : List Val) (vals : List (Option Val)),
    (∀ d ∈ g, exprReasons e d = []) → mapOpt (exprValue e) g = some vals →
    accValues fl e g = .ok (seenValues fl vals)
  | [], vals, _, h => by simp [mapOpt] at h; subst h; cases fl <;> rfl
  | d :: ds, vals, hD, h => by
    obtain ⟨y, r, h1, h2, rfl⟩ := mapOpt_cons_some h
    have ih := accValues_eq_spec fl e ds r (fun x hx => hD x (List.mem_cons_of_mem _ hx)) h2
    have := exprValue_some _ _ _ h1
    simp only [accValues, evalExpr_of_reasons e d (hD d List.mem_cons_self), this, ih]
    cases y <;> cases fl <;> simp [seenValues, specPush]

/-! ### one accumulator -/

theorem specInts_push (vals : List (Option Val)) :
    specInts ((specPush vals).map some) = specInts vals := by
  induction vals with
  | nil => rfl
  | cons v r ih =>
    simp only [specPush, specInts] at ih ⊢
    cases v with
    | none => simpa using ih
    | some x => cases x <;> simpa using ih

theorem specPush_push (vals : List (Option Val)) :
    specPush ((specPush vals).map some) = specPush vals := specPush_map_some _

theorem sumReasons_nil (vs : List Val) (h : sumReasons vs = []) : ∀ v ∈ vs, sumOk v = true := by
  intro v hv
  simp only [sumReasons] at h
  have h2 : vs.any isDblV = false := by
    cases hb : vs.any isDblV with
    | false => rfl
    | true => simp [hb] at h
  have b := List.any_eq_false.mp h2 v hv
  simpa [sumOk] using b

theorem seenValues_false (vals : List (Option Val)) : seenValues false vals = specPush vals := rfl

/-- every accumulator of the domain computes the oracle's value from what it sees of the values
    of its expression -/
theorem accApply_eq_spec (op : String) (vals : List (Option Val)) (v : Val)
    (hD : accReasons op vals = []) (hs : specAcc op vals = some v) :
    accApply op (seenValues (op = "$first" || op = "$last") vals) = .ok v := by
  by_cases h4 : op = "$first"
  · subst h4
    simp only [specAcc, show ¬ ("$first" = "$sum") by decide, show ¬ ("$first" = "$avg") by decide,
      show ¬ ("$first" = "$min") by decide, show ¬ ("$first" = "$max") by decide, if_false,
      if_true, Option.some.injEq] at hs
    simp only [decide_true, Bool.true_or, acc_first_seen, hs]
  by_cases h5 : op = "$last"
  · subst h5
    simp only [specAcc, show ¬ ("$last" = "$sum") by decide, show ¬ ("$last" = "$avg") by decide,
      show ¬ ("$last" = "$min") by decide, show ¬ ("$last" = "$max") by decide,
      show ¬ ("$last" = "$first") by decide, if_false, if_true, Option.some.injEq] at hs
    simp only [decide_true, Bool.or_true, acc_last_seen, hs]
  have hfl : (decide (op = "$first") || decide (op = "$last")) = false := by simp [h4, h5]
  rw [hfl, seenValues_false]
  by_cases h1 : op = "$sum"
  · subst h1
    simp only [specAcc, if_true, Option.some.injEq] at hs
    simp only [accReasons, if_true] at hD
    rw [acc_sum _ (sumReasons_nil _ hD), ← hs]
    simp only [specSumInt_eq, specInts_push]
  by_cases h2 : op = "$avg"
  · subst h2
    simp only [specAcc, show ¬ ("$avg" = "$sum") by decide, if_false, if_true] at hs
    simp only [accReasons, show ¬ ("$avg" = "$sum") by decide, if_false, if_true,
      List.append_eq_nil_iff, hs] at hD
    have hf : avgFits v = true := by
      cases hf : avgFits v with
      | true => rfl
      | false => simp [hf] at hD
    refine acc_avg _ (sumReasons_nil _ hD.1) v ?_ hf
    simp only [specAvgInt, specInts_push] at hs ⊢
    exact hs
  by_cases h3 : op = "$min" ∨ op = "$max"
  · have hone : (specPush vals).all orderScalar = true := by
      cases ho : (specPush vals).all orderScalar with
      | true => rfl
      | false => rcases h3 with rfl | rfl <;> simp [accReasons, ho] at hD
    rcases h3 with rfl | rfl
    · simp only [specAcc, show ¬ ("$min" = "$sum") by decide, show ¬ ("$min" = "$avg") by decide,
        if_false, if_true, Option.some.injEq] at hs
      simp only [accApply, show ¬ ("$min" = "$sum") by decide, show ¬ ("$min" = "$avg") by decide,
        show ¬ ("$min" = "$first") by decide, show ¬ ("$min" = "$last") by decide,
        if_false, if_true, acc_minmax false _ hone, ← hs]
      simp only [specExtremum_eq, specPush_push]
    · simp only [specAcc, show ¬ ("$max" = "$sum") by decide, show ¬ ("$max" = "$avg") by decide,
        show ¬ ("$max" = "$min") by decide, if_false, if_true, Option.some.injEq] at hs
      simp only [accApply, show ¬ ("$max" = "$sum") by decide, show ¬ ("$max" = "$avg") by decide,
        show ¬ ("$max" = "$first") by decide, show ¬ ("$max" = "$last") by decide,
        show ¬ ("$max" = "$min") by decide,
        if_false, if_true, acc_minmax true _ hone, ← hs]
      simp only [specExtremum_eq, specPush_push]
  have h3a : op ≠ "$min" := fun h => h3 (Or.inl h)
  have h3b : op ≠ "$max" := fun h => h3 (Or.inr h)
  by_cases h6 : op = "$push"
  · subst h6
    simp only [specAcc, show ¬ ("$push" = "$sum") by decide, show ¬ ("$push" = "$avg") by decide,
      show ¬ ("$push" = "$min") by decide, show ¬ ("$push" = "$max") by decide,
      show ¬ ("$push" = "$first") by decide, show ¬ ("$push" = "$last") by decide, if_false,
      if_true, Option.some.injEq] at hs
    rw [acc_push, hs]
  by_cases h7 : op = "$addToSet"
  · subst h7
    simp only [specAcc, show ¬ ("$addToSet" = "$sum") by decide,
      show ¬ ("$addToSet" = "$avg") by decide,
      show ¬ ("$addToSet" = "$min") by decide, show ¬ ("$addToSet" = "$max") by decide,
      show ¬ ("$addToSet" = "$first") by decide, show ¬ ("$addToSet" = "$last") by decide,
      show ¬ ("$addToSet" = "$push") by decide, if_false, if_true, Option.some.injEq] at hs
    rw [acc_addToSet, hs]
    intro x hx
    simp only [accReasons, show ¬ ("$addToSet" = "$sum") by decide,
      show ¬ ("$addToSet" = "$avg") by decide,
      show ¬ ("$addToSet" = "$min") by decide, show ¬ ("$addToSet" = "$max") by decide,
      show ¬ ("$addToSet" = "$first") by decide, show ¬ ("$addToSet" = "$last") by decide,
      show ¬ ("$addToSet" = "$push") by decide, Bool.or_self, decide_false, Bool.false_eq_true,
      if_false, if_true] at hD
    have := (flatMap_nil_iff' _ _).1 hD x hx
    simp only [setOk]
    cases hk : groupKeyOk x with
    | true => rfl
    | false => simp only [hk, Bool.false_eq_true, if_false] at this; split at this <;> simp at this
  · simp [specAcc, h1, h2, h3a, h3b, h4, h5, h6, h7] at hs

/-! ### the accumulator fields of one group -/

theorem accumulate_eq_spec : ∀ (options : Fields) (g : List Val) (fs : Fields),
    accFieldReasons options g = [] → specAccFields options g = some fs →
    accumulate options g = .ok fs ∧ ∀ kv ∈ fs, kv.1 ≠ "_id"
  | [], g, fs, _, hs => by simp [specAccFields] at hs; subst hs; exact ⟨rfl, by simp⟩
  | (name, spec) :: rest, g, fs, hD, hs => by
    by_cases hn : name = "_id"
    · simp only [accFieldReasons, specAccFields, hn, if_true] at hD hs
      simp only [accumulate, hn, if_true]
      exact accumulate_eq_spec rest g fs hD hs
    · simp only [accFieldReasons, specAccFields, hn, if_false, List.append_eq_nil_iff] at hD hs
      obtain ⟨hD1, hD2⟩ := hD
      match spec, hD1, hs with
      | .doc [(op, e)], hD1, hs =>
        simp only [List.append_eq_nil_iff] at hD1
        obtain ⟨htags, hacc⟩ := hD1
        cases hv : mapOpt (exprValue e) g with
        | none => simp [hv] at hs
        | some vals =>
          cases hr : specAccFields rest g with
          | none => simp [hv, hr] at hs
          | some r =>
            simp only [hv, hr] at hs hacc
            cases ha : specAcc op vals with
            | none => simp [ha] at hs
            | some v =>
              simp only [ha, Option.map_some, Option.some.injEq] at hs
              subst hs
              obtain ⟨ih1, ih2⟩ := accumulate_eq_spec rest g r hD2 hr
              refine ⟨?_, ?_⟩
              · simp only [accumulate, hn, if_false,
                  accValues_eq_spec _ e g vals (exprTags_nil e g htags) hv,
                  accApply_eq_spec op vals v hacc ha, ih1]
              · intro kv hkv
                rcases List.mem_cons.mp hkv with rfl | h
                · exact hn
                · exact ih2 kv h
      | .doc [], hD1, _ => simp at hD1
      | .doc (_ :: _ :: _), hD1, _ => simp at hD1
      | .null, hD1, _ => simp at hD1
      | .bool _, hD1, _ => simp at hD1
      | .int _, hD1, _ => simp at hD1
      | .dbl _ _, hD1, _ => simp at hD1
      | .str _, hD1, _ => simp at hD1
      | .date _ _, hD1, _ => simp at hD1
      | .oid _, hD1, _ => simp at hD1
      | .arr _, hD1, _ => simp at hD1

/-! ### the output documents -/

theorem dset_append_new (k : String) (v : Val) : ∀ (fs : Fields), (∀ kv ∈ fs, kv.1 ≠ k) →
    dset k v fs = fs ++ [(k, v)]
  | [], _ => rfl
  | (k', v') :: r, h => by
    have h1 : k' ≠ k := h (k', v') List.mem_cons_self
    simp only [dset, h1, if_false, List.cons_append,
      dset_append_new k v r (fun kv hkv => h kv (List.mem_cons_of_mem _ hkv))]

theorem idLast_group (k : Val) (fs : Fields) (h : ∀ kv ∈ fs, kv.1 ≠ "_id") :
    Spec.Proj.idLast (.doc (("_id", k) :: fs)) = .doc (dset "_id" k fs) := by
  rw [dset_append_new "_id" k fs h]
  have e1 : fs.filter (fun kv => kv.1 != "_id") = fs := by
    rw [List.filter_eq_self]; intro kv hkv; simpa using h kv hkv
  have e2 : fs.filter (fun kv => kv.1 == "_id") = [] := by
    rw [List.filter_eq_nil_iff]; intro kv hkv; simpa using h kv hkv
  simp [Spec.Proj.idLast, e1, e2]

theorem emitGroups_eq_spec (options : Fields) : ∀ (rs : List (Val × List Val)) (s : List Val),
    (∀ r ∈ rs, accFieldReasons options r.2 = []) → specGroupDocs options rs = some s →
    emitGroups options rs = .ok (s.map Spec.Proj.idLast)
  | [], s, _, hs => by simp [specGroupDocs, mapOpt] at hs; subst hs; rfl
  | (k, g) :: rest, s, hD, hs => by
    obtain ⟨y, r, h1, h2, rfl⟩ := mapOpt_cons_some hs
    cases hf : specAccFields options g with
    | none => simp [hf] at h1
    | some fs =>
      simp only [hf, Option.map_some, Option.some.injEq] at h1
      subst h1
      obtain ⟨a1, a2⟩ := accumulate_eq_spec options g fs (hD (k, g) List.mem_cons_self) hf
      have ih := emitGroups_eq_spec options rest r
        (fun x hx => hD x (List.mem_cons_of_mem _ hx)) h2
      simp only [emitGroups, a1, ih, List.map_cons, idLast_group k fs a2]

/-! ### the stage -/

theorem specKeyed_docs (idExpr : Val) : ∀ (docs : List Val) (kds : List (Val × Val)),
    specKeyed idExpr docs = some kds → kds.map (·.2) = docs
  | [], kds, h => by simp [specKeyed, mapOpt] at h; subst h; rfl
  | d :: ds, kds, h => by
    obtain ⟨y, r, h1, h2, rfl⟩ := mapOpt_cons_some h
    cases hv : exprValue idExpr d with
    | none => simp [hv] at h1
    | some rv =>
      simp only [hv, Option.map_some, Option.some.injEq] at h1
      subst h1
      simp [specKeyed_docs idExpr ds r h2]

theorem keyReasons_nil (k : Val) (h : Spec.Pipe.keyReasons k = []) : groupKeyOk k = true := by
  cases k <;> simp_all [Spec.Pipe.keyReasons, groupKeyOk]
  rename_i u o; cases o <;> simp_all

theorem specGroups_single (d : Val) (ds : List Val) :
    specGroups ((d :: ds).map (fun x => (Val.null, x))) = [(Val.null, d :: ds)] := by
  have e1 : (ds.map (fun x => (Val.null, x))).filter (fun p => keyEq Val.null p.1) =
      ds.map (fun x => (Val.null, x)) := by
    rw [List.filter_eq_self]; intro p hp
    obtain ⟨x, _, rfl⟩ := List.mem_map.mp hp
    exact keyEq_refl _
  have e2 : (ds.map (fun x => (Val.null, x))).filter (fun p => !keyEq Val.null p.1) = [] := by
    rw [List.filter_eq_nil_iff]; intro p hp
    obtain ⟨x, _, rfl⟩ := List.mem_map.mp hp
    simp [keyEq_refl]
  rw [List.map_cons, specGroups_cons, e1, e2]
  simp [specGroups_nil, Function.comp_def]

/-- the accumulator specifications the oracle reads pass the code's up-front validation -/
theorem validateAccs_of_specsOk : ∀ (options : Fields), accSpecsOk options = true →
    validateAccs options = .ok ()
  | [], _ => rfl
  | (name, spec) :: rest, h => by
    simp only [accSpecsOk, Bool.and_eq_true, Bool.or_eq_true, decide_eq_true_eq] at h
    obtain ⟨h1, h2⟩ := h
    have ih := validateAccs_of_specsOk rest h2
    by_cases hn : name = "_id"
    · simp only [validateAccs, hn, if_true, ih]
    · simp only [hn, false_or] at h1
      match spec, h1 with
      | .doc [(op, e)], h1 =>
        have hop : accNames.contains op = true := by
          simp only [specAccNames, List.contains_cons, List.contains_nil, Bool.or_false,
            Bool.or_eq_true, beq_iff_eq] at h1
          rcases h1 with h | h | h | h | h | h | h | h <;> subst h <;> decide
        simp only [validateAccs, hn, if_false, List.all_cons, List.all_nil, Bool.and_true, hop,
          if_true, ih]

/-- **`$group` = the oracle's sorted representative** on the domain -/
theorem group_eq_spec_sorted (opts : Val) (docs s : List Val)
    (hD : groupReasons opts docs = []) (hs : specGroupStageSorted opts docs = some s) :
    groupStage opts docs = .ok s := by
  match opts, hD, hs with
  | .doc options, hD, hs =>
    simp only [groupReasons, specGroupStageSorted] at hD hs
    have hok : accSpecsOk options = true := by
      cases h : accSpecsOk options with
      | true => rfl
      | false => simp [h] at hs
    simp only [hok, Bool.not_true, Bool.false_eq_true, if_false] at hs
    rw [groupStage_valid options docs (validateAccs_of_specsOk options hok)]
    cases hid : dget "_id" options with
    | none => simp [hid] at hs
    | some idExpr =>
      simp only [hid, List.append_eq_nil_iff] at hD hs
      obtain ⟨htags, hrest⟩ := hD
      cases hk : specKeyed idExpr docs with
      | none => simp [hk] at hs
      | some kds =>
        simp only [hk, Option.bind_some, List.append_eq_nil_iff] at hs hrest
        obtain ⟨hkeys, haccs⟩ := hrest
        have hK : ∀ p ∈ kds, groupKeyOk p.1 = true := fun p hp =>
          keyReasons_nil _ ((flatMap_nil_iff' _ _).1 hkeys p hp)
        have hkeyed := keyed_eq_spec idExpr docs kds (exprTags_nil idExpr docs htags) hk
        set ltp := fun a b : Val × Val => valLt a.1 b.1 with hltp
        set ltg := fun a b : Val × List Val => valLt a.1 b.1 with hltg
        cases hsd : specGroupDocs options (isort ltg (specGroups kds)) with
        | none => simp [hsd] at hs
        | some sd =>
          simp only [hsd, Option.map_some, Option.some.injEq] at hs
          subst hs
          have hall : ∀ r ∈ isort ltg (specGroups kds), accFieldReasons options r.2 = [] :=
            fun r hr => (flatMap_nil_iff' _ _).1 haccs r ((isort_perm ltg _).mem_iff.1 hr)
          have hemit := emitGroups_eq_spec options _ sd hall hsd
          by_cases ht : Expr.isNull idExpr = false
          · have hshallow : kds.all (fun kd => keyShallow kd.1) = true := by
              simp only [List.all_eq_true]; intro p hp; exact keyShallow_of_ok _ (hK p hp)
            have hperm : (isort ltp kds).Perm kds := isort_perm _ _
            have hKs : ∀ p ∈ isort ltp kds, groupKeyOk p.1 = true :=
              fun p hp => hK p (hperm.mem_iff.1 hp)
            have hruns := groupRuns_sorted_eq_spec _ (isort ltp kds) (Nat.le_refl _) hKs
              (isort_sorted strictWeak_pairs kds)
            simp only [groupBody, hid, ht, Bool.not_false, if_true, hkeyed, hshallow,
              Bool.not_true, Bool.false_eq_true, if_false, group_sort_eq kds hK]
            rw [hruns, specGroups_isort]
            exact hemit
          · -- a null `_id`: one group over a non-empty input, none over no input
            have hnull : idExpr = .null := by
              cases idExpr <;> simp_all [Expr.isNull]
            subst hnull
            have hkd : kds = docs.map (fun x => (Val.null, x)) := by
              have h2 := specKeyed_docs _ _ _ hk
              have h1 : ∀ p ∈ kds, p.1 = Val.null := by
                intro p hp
                have := (keyed_ok _ _ _ hkeyed).2 p hp
                simp only [groupKey, evalExpr, eval] at this
                exact (Except.ok.inj this).symm
              rw [← h2, List.map_map]
              conv => lhs; rw [← List.map_id kds]
              apply List.map_congr_left
              intro p hp
              simp [← h1 p hp]
            cases docs with
            | nil =>
              rw [hkd] at hemit
              simp only [groupBody, hid, Expr.isNull, Bool.not_true, Bool.false_eq_true,
                if_false, List.isEmpty_nil, if_true]
              simpa [specGroups_nil, isort] using hemit
            | cons d ds =>
              rw [hkd, specGroups_single] at hemit
              simp only [groupBody, hid, Expr.isNull, Bool.not_true, Bool.false_eq_true,
                if_false, List.isEmpty_cons]
              simpa [isort, insertBy] using hemit

/-! ### … and up to the order of the groups -/

theorem mapOpt_eq_filterMap {α β} (f : α → Option β) : ∀ (l : List α) (s : List β),
    mapOpt f l = some s → s = l.filterMap f ∧ ∀ x ∈ l, ∃ y, f x = some y
  | [], s, h => by simp [mapOpt] at h; subst h; simp
  | x :: xs, s, h => by
    obtain ⟨y, r, h1, h2, rfl⟩ := mapOpt_cons_some h
    obtain ⟨i1, i2⟩ := mapOpt_eq_filterMap f xs r h2
    refine ⟨by simp [h1, i1], ?_⟩
    intro z hz
    rcases List.mem_cons.mp hz with rfl | hz
    · exact ⟨y, h1⟩
    · exact i2 z hz

theorem mapOpt_of_all {α β} (f : α → Option β) : ∀ (l : List α),
    (∀ x ∈ l, ∃ y, f x = some y) → mapOpt f l = some (l.filterMap f)
  | [], _ => rfl
  | x :: xs, h => by
    obtain ⟨y, hy⟩ := h x List.mem_cons_self
    simp only [mapOpt, hy, mapOpt_of_all f xs (fun z hz => h z (List.mem_cons_of_mem _ hz)),
      List.filterMap_cons]

theorem mapOpt_perm {α β} (f : α → Option β) {l l' : List α} (hp : l'.Perm l) (s : List β)
    (h : mapOpt f l = some s) : ∃ s', mapOpt f l' = some s' ∧ s'.Perm s := by
  obtain ⟨h1, h2⟩ := mapOpt_eq_filterMap f l s h
  refine ⟨l'.filterMap f, mapOpt_of_all f l' (fun x hx => h2 x (hp.mem_iff.1 hx)), ?_⟩
  rw [h1]; exact hp.filterMap f

/-- the sorted representative holds the oracle's documents, in another order -/
theorem specGroupStageSorted_perm (opts : Val) (docs s : List Val)
    (hs : specGroupStage opts docs = some s) :
    ∃ s' : List Val, specGroupStageSorted opts docs = some (s'.map Spec.Proj.idLast) ∧ s'.Perm s := by
  cases opts with
  | doc options =>
    simp only [specGroupStage] at hs
    have hok : accSpecsOk options = true := by
      cases h : accSpecsOk options with
      | true => rfl
      | false => simp [h] at hs
    simp only [hok, Bool.not_true, Bool.false_eq_true, if_false] at hs
    cases hid : dget "_id" options with
    | none => simp [hid] at hs
    | some idExpr =>
      cases hk : specKeyed idExpr docs with
      | none => simp [hid, hk] at hs
      | some kds =>
        simp only [hid, hk, Option.bind_some] at hs
        obtain ⟨s', h1, h2⟩ := mapOpt_perm _
          (isort_perm (fun a b : Val × List Val => valLt a.1 b.1) (specGroups kds)) s hs
        refine ⟨s', ?_, h2⟩
        simp only [specGroupStageSorted, hok, Bool.not_true, Bool.false_eq_true, if_false, hid, hk,
          Option.bind_some]
        have : specGroupDocs options (isort (fun a b => valLt a.1 b.1) (specGroups kds)) = some s' := h1
        rw [this]; rfl
  | _ => simp [specGroupStage] at hs

/-- **`$group` = the oracle's groups as a multiset** (documents up to the place of `_id`) -/
theorem group_eq_spec_perm (opts : Val) (docs s : List Val)
    (hD : groupReasons opts docs = []) (hs : specGroupStage opts docs = some s) :
    ∃ out, groupStage opts docs = .ok out ∧ out.Perm (s.map Spec.Proj.idLast) := by
  obtain ⟨s', h1, h2⟩ := specGroupStageSorted_perm opts docs s hs
  exact ⟨s'.map Spec.Proj.idLast, group_eq_spec_sorted opts docs _ hD h1, h2.map _⟩

end MongoModel.Pipe.Proofs
