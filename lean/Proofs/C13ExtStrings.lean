/-
  Proofs.C13ExtStrings — dotted keys as strings and as component lists: `joinDots` and
  `splitDots` are inverse to each other (on dot-free components), so "the key `a.b` is a dotted
  prefix of the key `a.b.c`" can be said on either side.
-/
import Proofs.C13Seed
import Proofs.C02Frame

set_option linter.unusedVariables false
set_option linter.unusedSimpArgs false

namespace MongoModel.Proofs.C13Ext
open MongoModel MongoModel.Proofs.C13Lemmas

theorem intercalate_cons_cons' {α} (sep x y : List α) (l : List (List α)) :
    sep.intercalate (x :: y :: l) = x ++ sep ++ sep.intercalate (y :: l) := by
  simp [List.intercalate, List.intersperse]

theorem splitChars_join : ∀ (cs cur : List Char),
    ['.'].intercalate ((splitDotsChars cs cur).map String.toList) = cur.reverse ++ cs
  | [], cur => by simp [splitDotsChars]
  | c :: r, cur => by
    by_cases hc : c = '.'
    · subst hc
      simp only [splitDotsChars, if_true, List.map_cons]
      have hne := MongoModel.Proofs.C02Lemmas.splitDotsChars_ne_nil r []
      cases hs : splitDotsChars r [] with
      | nil => exact absurd hs hne
      | cons y l =>
        rw [List.map_cons, intercalate_cons_cons', ← List.map_cons, ← hs, splitChars_join r []]
        simp
    · simp only [splitDotsChars, hc, if_false]
      rw [splitChars_join r (c :: cur)]
      simp

theorem joinDots_splitDots (k : String) : joinDots (splitDots k) = k := by
  apply String.ext
  unfold joinDots splitDots
  rw [String.toList_intercalate]
  have : (".":String).toList = ['.'] := rfl
  rw [this, splitChars_join]
  simp

/-- the components of a split key hold no dot -/
theorem splitChars_nodot_parts : ∀ (cs cur : List Char), cur.contains '.' = false →
    ∀ p ∈ splitDotsChars cs cur, p.toList.contains '.' = false
  | [], cur, hcur, p, hp => by
    simp only [splitDotsChars, List.mem_singleton] at hp
    subst hp
    simpa using hcur
  | c :: r, cur, hcur, p, hp => by
    by_cases hc : c = '.'
    · subst hc
      simp only [splitDotsChars, if_true, List.mem_cons] at hp
      rcases hp with rfl | hp
      · simpa using hcur
      · exact splitChars_nodot_parts r [] rfl p hp
    · simp only [splitDotsChars, hc, if_false] at hp
      refine splitChars_nodot_parts r (c :: cur) ?_ p hp
      simp only [List.contains_cons, Bool.or_eq_false_iff, beq_eq_false_iff_ne, ne_eq]
      exact ⟨fun e => hc e.symm, hcur⟩

theorem splitDots_nodot_parts (k : String) : ∀ p ∈ splitDots k, p.toList.contains '.' = false :=
  splitChars_nodot_parts _ [] rfl

/-- splitting the dotted join of dot-free components gives them back -/
theorem splitDots_joinDots : ∀ (ps : List String), ps ≠ [] →
    (∀ p ∈ ps, p.toList.contains '.' = false) → splitDots (joinDots ps) = ps
  | [], h, _ => absurd rfl h
  | [p], _, hnd => by
    have : joinDots [p] = p := rfl
    rw [this]; exact splitDots_nodot p (hnd p (by simp))
  | p :: q :: r, _, hnd => by
    have ih := splitDots_joinDots (q :: r) (by simp) (fun x hx => hnd x (List.mem_cons_of_mem _ hx))
    have e : joinDots (p :: q :: r) = p ++ "." ++ joinDots (q :: r) := by
      unfold joinDots; exact String.intercalate_cons_cons
    rw [e]
    unfold splitDots at ih ⊢
    have : (p ++ "." ++ joinDots (q :: r)).toList = p.toList ++ '.' :: (joinDots (q :: r)).toList := by
      simp [String.toList_append]
    rw [this, splitChars_dot _ _ (hnd p (by simp)), ih]
    simp

/-- different keys split differently -/
theorem splitDots_inj {a b : String} (h : splitDots a = splitDots b) : a = b := by
  rw [← joinDots_splitDots a, ← joinDots_splitDots b, h]

theorem take_nodot (k : String) (i : Nat) : ∀ p ∈ (splitDots k).take i, p.toList.contains '.' = false :=
  fun p hp => splitDots_nodot_parts k p (List.mem_of_mem_take hp)

/-- the key spelled by the first `i` components of `k` (`0 < i`) splits into those components -/
theorem splitDots_join_take (k : String) (i : Nat) (hi : 0 < i) :
    splitDots (joinDots ((splitDots k).take i)) = (splitDots k).take i := by
  apply splitDots_joinDots _ _ (take_nodot k i)
  intro e
  have hne := MongoModel.Proofs.C02Lemmas.splitDotsChars_ne_nil k.toList []
  have : (splitDots k).take i = [] := e
  rw [List.take_eq_nil_iff] at this
  rcases this with h | h
  · omega
  · exact hne h

/-- membership in the recorded proper prefixes -/
theorem mem_properPrefixes {parts : List String} {key : String} :
    key ∈ properPrefixes parts ↔ ∃ i, 0 < i ∧ i < parts.length ∧ key = joinDots (parts.take i) := by
  simp only [properPrefixes, List.mem_map, List.mem_range]
  constructor
  · rintro ⟨j, hj, rfl⟩
    exact ⟨j + 1, by omega, by omega, rfl⟩
  · rintro ⟨i, h0, hi, rfl⟩
    exact ⟨i - 1, by omega, by congr 2; omega⟩

end MongoModel.Proofs.C13Ext
