/-
  Proofs.C03Acc — the accumulators of `$group` against the oracle's folds.
-/
import Proofs.C03Basic
import Spec.Pipeline

namespace MongoModel.Pipe.Proofs
open MongoModel MongoModel.Pipe MongoModel.Spec.Pipe

/-- what an accumulator sees of the values `rs` its expression takes (`none` = missing):
    `$first` / `$last` read a missing value as null, the others skip it -/
def seenValues (firstLast : Bool) (rs : List (Option Val)) : List Val :=
  if firstLast then rs.map (fun r => r.getD .null) else specPush rs

/-- `accValues` = the expression (evaluated like a computed field) on every document of the
    group in order; missing values skipped, or null for `$first` / `$last` -/
theorem accValues_ok (fl : Bool) (key : Val) : ∀ (g : List Val) (vs : List Val),
    accValues fl key g = .ok vs →
    ∃ rs : List (Option Val), List.Forall₂ (fun d r => Expr.evalExpr d key = .ok r) g rs ∧
      vs = seenValues fl rs
  | [], vs, h => by
    simp [accValues] at h; subst h
    exact ⟨[], List.Forall₂.nil, by cases fl <;> rfl⟩
  | d :: ds, vs, h => by
    simp only [accValues] at h
    cases hd : Expr.evalExpr d key with
    | error e => simp [hd] at h
    | ok r =>
      cases hr : accValues fl key ds with
      | error e => simp [hd, hr] at h
      | ok ws =>
        simp only [hd, hr, Except.ok.injEq] at h
        obtain ⟨rs, h1, h2⟩ := accValues_ok fl key ds ws hr
        refine ⟨r :: rs, List.Forall₂.cons hd h1, ?_⟩
        subst h; subst h2
        cases r <;> cases fl <;> simp [seenValues, specPush]

theorem acc_push (values : List Val) : accApply "$push" values = .ok (.arr values) := by
  simp [accApply]

theorem acc_first (values : List Val) :
    accApply "$first" values = .ok (specFirst (values.map some)) := by
  cases values <;> simp [accApply, specFirst]

theorem acc_last (values : List Val) :
    accApply "$last" values = .ok (specLast (values.map some)) := by
  simp only [accApply, specLast]
  simp only [show ("$last" = "$sum") = False by decide, show ("$last" = "$avg") = False by decide,
    show ("$last" = "$first") = False by decide, if_false]
  rw [List.getLast?_map]
  cases values.getLast? <;> rfl

/-- `$first` / `$last` over what they see of `rs`: the value on the first / last document, null
    when it is missing there -/
theorem acc_first_seen (rs : List (Option Val)) :
    accApply "$first" (seenValues true rs) = .ok (specFirst rs) := by
  cases rs with
  | nil => simp [accApply, seenValues, specFirst]
  | cons r t => cases r <;> simp [accApply, seenValues, specFirst]

theorem acc_last_seen (rs : List (Option Val)) :
    accApply "$last" (seenValues true rs) = .ok (specLast rs) := by
  simp only [accApply, specLast, seenValues, if_true]
  simp only [show ("$last" = "$sum") = False by decide, show ("$last" = "$avg") = False by decide,
    show ("$last" = "$first") = False by decide, if_false]
  rw [List.getLast?_map]
  cases rs.getLast? with
  | none => rfl
  | some r => cases r <;> rfl

theorem sumNums_ints : ∀ (is : List Int) (a : Int),
    Expr.sumNums (is.map Expr.PyNum.i) (.i a) = .ok (.i (is.foldl (· + ·) a))
  | [], a => rfl
  | i :: r, a => by
    simp only [List.map_cons, Expr.sumNums, Expr.PyNum.add, Expr.PyNum.check, bind, Except.bind,
      List.foldl_cons]
    exact sumNums_ints r (a + i)

theorem accNums_ints (is : List Int) : accNums (is.map Val.int) = is.map Expr.PyNum.i := by
  induction is with
  | nil => rfl
  | cons i r ih => simp [accNums, ih]

/-- `$sum` over integer values is their sum -/
theorem acc_sum_ints (is : List Int) :
    accApply "$sum" (is.map Val.int) = .ok (.int (specSumInt ((is.map Val.int).map some))) := by
  have hs : specSumInt ((is.map Val.int).map some) = is.foldl (· + ·) 0 := by
    simp only [specSumInt, List.map_map]
    congr 1
    induction is with
    | nil => rfl
    | cons i r ih => simp [ih]
  simp only [accApply, accSum, if_true, accNums_ints, sumNums_ints, Expr.PyNum.toVal, hs]

end MongoModel.Pipe.Proofs
