/-
  Proofs.C03Acc — the accumulators of `$group` against the oracle's folds.
-/
import Proofs.C03Basic
import Spec.Pipeline

namespace MongoModel.Pipe.Proofs
open MongoModel MongoModel.Pipe MongoModel.Spec.Pipe

/-- `accValues` = the expression on every document of the group in order, missing ones skipped -/
theorem accValues_ok (key : Val) : ∀ (g : List Val) (vs : List Val), accValues key g = .ok vs →
    ∃ rs : List (Option Val), List.Forall₂ (fun d r => Expr.evalExprStrict d key = .ok r) g rs ∧
      vs = specPush rs
  | [], vs, h => by simp [accValues] at h; subst h; exact ⟨[], List.Forall₂.nil, rfl⟩
  | d :: ds, vs, h => by
    simp only [accValues] at h
    cases hd : Expr.evalExprStrict d key with
    | error e => simp [hd] at h
    | ok r =>
      cases hr : accValues key ds with
      | error e => simp [hd, hr] at h
      | ok ws =>
        simp only [hd, hr, Except.ok.injEq] at h
        obtain ⟨rs, h1, h2⟩ := accValues_ok key ds ws hr
        refine ⟨r :: rs, List.Forall₂.cons hd h1, ?_⟩
        subst h; subst h2
        cases r <;> simp [specPush]

theorem acc_push (values : List Val) : accApply "$push" values = .ok (.arr values) := by
  simp [accApply]

theorem acc_first (values : List Val) :
    accApply "$first" values = .ok (specFirst (values.map some)) := by
  cases values <;> simp [accApply, Expr.groupingOnList, specFirst]

theorem acc_last (values : List Val) :
    accApply "$last" values = .ok (specLast (values.map some)) := by
  simp only [accApply, Expr.groupingOnList, specLast]
  simp only [show ("$last" = "$sum") = False by decide, show ("$last" = "$avg") = False by decide,
    show ("$last" = "$first") = False by decide, show ("$last" = "$min") = False by decide,
    show ("$last" = "$max") = False by decide, if_false, if_true, Bool.or_false,
    decide_false, decide_true, Bool.or_true, Bool.false_eq_true]
  rw [List.getLast?_map]
  cases values.getLast? <;> rfl

theorem sumNums_ints : ∀ (is : List Int) (a : Int),
    Expr.sumNums (is.map Expr.PyNum.i) (.i a) = .ok (.i (is.foldl (· + ·) a))
  | [], a => rfl
  | i :: r, a => by
    simp only [List.map_cons, Expr.sumNums, Expr.PyNum.add, Expr.PyNum.check, bind, Except.bind,
      List.foldl_cons]
    exact sumNums_ints r (a + i)

theorem numsOf_ints (is : List Int) : Expr.numsOf (is.map Val.int) = is.map Expr.PyNum.i := by
  induction is with
  | nil => rfl
  | cons i r ih => simp [Expr.numsOf, Expr.toPyNum, ih]

/-- `$sum` over integer values is their sum -/
theorem acc_sum_ints (is : List Int) :
    accApply "$sum" (is.map Val.int) = .ok (.int (specSumInt ((is.map Val.int).map some))) := by
  have hs : specSumInt ((is.map Val.int).map some) = is.foldl (· + ·) 0 := by
    simp only [specSumInt, List.map_map]
    congr 1
    induction is with
    | nil => rfl
    | cons i r ih => simp [ih]
  simp only [accApply, Expr.groupingOnList, if_true, Bool.true_or, decide_true, numsOf_ints,
    sumNums_ints, bind, Except.bind, Expr.PyNum.toVal, hs]

end MongoModel.Pipe.Proofs
