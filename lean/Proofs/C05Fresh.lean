/-
  Proofs.C05Fresh — without TTL indexes nothing expires: `insertDoc` appends exactly one entry.
-/
import Proofs.C05Update

set_option linter.unusedSimpArgs false
set_option linter.unusedVariables false

namespace MongoModel.Proofs.C05Lemmas
open MongoModel MongoModel.Spec

theorem expire_noTtl (now : Int) (c : Coll) (h : c.ttlIndexes = []) : expire now c = .ok c := by
  simp [expire, h, pure, Except.pure]

theorem iterDocuments_noTtl (now : Int) (c : Coll) (f : Val) (c' : Coll) (ms : List Val)
    (hn : c.ttlIndexes = []) (h : iterDocuments now c f = .ok (c', ms)) : c' = c := by
  unfold iterDocuments at h
  simp only [bind, Except.bind, expire_noTtl now c hn] at h
  split at h
  · split at h
    · cases h
    · split at h
      · cases h
      · simp [pure, Except.pure] at h; exact h.1.symm
  · split at h
    · cases h
    · simp [pure, Except.pure] at h; exact h.1.symm

theorem ensureUniques_noTtl (now : Int) (c : Coll) (d : Val) (c' : Coll)
    (hn : c.ttlIndexes = []) (h : ensureUniques now c d = .ok c') : c' = c := by
  unfold ensureUniques at h
  refine foldlM_inv (fun b => b = c) _ ?_ c.indexes c c' rfl h
  intro b ix r hb hf
  subst hb
  split at hf
  · simp [pure, Except.pure] at hf; exact hf.symm
  · simp only [bind, Except.bind] at hf
    split at hf
    · cases hf
    · split at hf
      · simp [pure, Except.pure] at hf; exact hf.symm
      · split at hf
        · cases hf
        · rename_i v hv
          obtain ⟨c2, ms⟩ := v
          simp only at hf
          split at hf
          · cases hf
          · simp [pure, Except.pure] at hf; subst hf
            exact iterDocuments_noTtl now b _ _ _ hn hv

theorem insertCore_fresh (now : Int) (c0 : Coll) (fs1 : Fields) (c' : Coll) (id : Val)
    (hn : c0.ttlIndexes = []) (hid : dhas "_id" fs1 = true)
    (h : insertCore now c0 fs1 = .ok (c', id)) :
    dget "_id" (patchFields fs1) = some id ∧ c0.hasKey id = false ∧
      c'.docs = c0.docs ++ [(id, patchDT (.doc fs1))] := by
  obtain ⟨h1, h2, c1, he, hf, hu⟩ := insertCore_spec now c0 fs1 c' id hid h
  rw [expire_noTtl now c0 hn] at he
  cases he
  have : c' = c0.storeDoc id (.doc (patchFields fs1)) := by
    apply ensureUniques_noTtl now _ _ _ _ hu
    simp [Coll.setDoc, hf, hn]
  subst this
  refine ⟨h1, hf, ?_⟩
  rw [storeDoc_fresh _ _ _ hf]
  simp [patchDT, patch]

end MongoModel.Proofs.C05Lemmas
