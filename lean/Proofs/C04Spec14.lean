/-
  Proofs.C04Spec14 — `eval_eq_spec`: `$cond` / `$switch` / `$let` documents.
-/
import Proofs.C04Spec13

set_option linter.unusedSimpArgs false
set_option linter.unnecessarySeqFocus false

namespace MongoModel.Proofs.C04
open MongoModel MongoModel.Expr MongoModel.Spec

theorem mode_shaped_doc (k : String) (gs : Fields)
    (hk : k ∈ ["$let", "$map", "$filter", "$cond", "$switch"]) : mode k (.doc gs) = .shaped := by
  simp only [List.mem_cons, List.mem_nil_iff, or_false] at hk
  rcases hk with rfl | rfl | rfl | rfl | rfl <;>
  simp [mode, dateOps, datePartOps, wholeOps, unaryArithOps, groupingOps]

theorem dhas_three (k : String) (k1 k2 k3 : String) (v1 v2 v3 : Val)
    (h : dhas k [(k1, v1), (k2, v2), (k3, v3)] = true) : k1 = k ∨ k2 = k ∨ k3 = k := by
  simp only [dhas, dget] at h
  by_cases a : k1 = k
  · exact Or.inl a
  · by_cases b : k2 = k
    · exact Or.inr (Or.inl b)
    · by_cases d : k3 = k
      · exact Or.inr (Or.inr d)
      · simp [a, b, d] at h

/-- three fields among which `if`, `then` and `else` occur: there is no other field -/
theorem cond_keys (gs : Fields) (h : (dhas "if" gs && dhas "then" gs && dhas "else" gs) = true)
    (hl : gs.length = 3) :
    gs.any (fun kv => !(["if", "then", "else"].contains kv.1)) = false := by
  match gs, hl with
  | [(k1, v1), (k2, v2), (k3, v3)], _ =>
    simp only [Bool.and_eq_true] at h
    have hi := dhas_three "if" k1 k2 k3 v1 v2 v3 h.1.1
    have ht := dhas_three "then" k1 k2 k3 v1 v2 v3 h.1.2
    have he := dhas_three "else" k1 k2 k3 v1 v2 v3 h.2
    rcases hi with rfl | rfl | rfl <;> rcases ht with ht | ht | ht <;>
      first
        | (exact absurd ht (by decide))
        | (subst ht
           rcases he with he | he | he <;>
             first
               | (exact absurd he (by decide))
               | (subst he; simp))

/-- `$cond: {if, then, else}` -/
theorem cond_doc_case (c : Ctx) (root : Val) (env : Env) (hr : EnvRel c root env) (gs : Fields)
    (hsub : AllSubFields Agrees gs)
    (hre : rAt root env "if" gs ++ rAt root env "then" gs ++ rAt root env "else" gs = [])
    (res : Option Val)
    (hres : (if (!(dhas "if" gs && dhas "then" gs && dhas "else" gs) || gs.length ≠ 3) = true then
          (Except.error Err.opFail : R (Option Val))
        else do
          if Spec.toBool (← sAt root env "if" gs) then sAt root env "then" gs
          else sAt root env "else" gs) = .ok res) :
    eval c (.doc [("$cond", .doc gs)]) = .ok res := by
  obtain ⟨h12, h4⟩ := append_nil2 hre
  obtain ⟨h2, h3⟩ := append_nil2 h12
  split at hres
  · cases hres
  · rename_i hcond
    have hcond' : (!(dhas "if" gs && dhas "then" gs && dhas "else" gs) || gs.length ≠ 3) = false := by
      simpa using hcond
    simp only [Bool.or_eq_false_iff, Bool.not_eq_false', decide_eq_false_iff_not, ne_eq,
      Decidable.not_not] at hcond'
    have hkeys0 := hcond'.1
    have hx := cond_keys gs hkeys0 hcond'.2
    have hkeys := hkeys0
    simp only [Bool.and_eq_true] at hkeys
    obtain ⟨vi, hvi⟩ := dhas_dget hkeys.1.1
    obtain ⟨vt, hvt⟩ := dhas_dget hkeys.1.2
    obtain ⟨ve, hve⟩ := dhas_dget hkeys.2
    have e1 := at_agree c root env hr "if" gs vi hvi hsub h2
    have e2 := at_agree c root env hr "then" gs vt hvt hsub h3
    have e3 := at_agree c root env hr "else" gs ve hve hsub h4
    rw [cond_doc c gs hkeys0 hx, e1, e2, e3]
    simpa [bind, Except.bind] using hres

/-- `$switch` -/
theorem switch_case (c : Ctx) (root : Val) (env : Env) (hr : EnvRel c root env) (gs : Fields)
    (hsub : AllSubFields Agrees gs)
    (hre : rBranchesAt root env gs ++
        (if dhas "default" gs = true then rAt root env "default" gs else []) = [])
    (res : Option Val)
    (hres : (match dget "branches" gs with
        | some (.arr bs) =>
          if (!branchesWf bs) = true then (Except.error Err.opFail : R (Option Val))
          else do
            match ← sBranchesAt root env gs with
            | some r => pure r
            | none => if dhas "default" gs = true then sAt root env "default" gs else .error .opFail
        | _ => (Except.error Err.opFail : R (Option Val))) = .ok res) :
    eval c (.doc [("$switch", .doc gs)]) = .ok res := by
  obtain ⟨h1, h2⟩ := append_nil2 hre
  cases hb : dget "branches" gs with
  | none => simp [hb] at hres
  | some w =>
    cases w with
    | arr bs =>
      simp only [hb] at hres
      cases hwf : branchesWf bs with
      | false => simp [hwf] at hres
      | true =>
        simp only [hwf, Bool.not_true, Bool.false_eq_true, if_false] at hres
        simp only [branchesWf, Bool.and_eq_true, Bool.not_eq_true'] at hwf
        have hne : bs ≠ [] := by intro e; subst e; simp at hwf
        have hsubb : AllSubList Agrees bs := (hsub.mem (dget_mem' hb)).items
        have hrb : rBranches root env bs = [] := by
          rw [← rBranchesAt_eq root env gs bs hb]; exact h1
        have hok : branchesOk bs = true := by
          simp only [branchesOk, List.all_eq_true]
          intro b hbm
          have := List.all_eq_true.mp hwf.2 b hbm
          cases b <;> simp at this ⊢
          exact this
        have hbr := branches_agree c root env hr bs hsubb hrb hok
        rw [switch_eq c gs bs hb hne hok,
          evalBranchesAt_eq c gs bs hb, hbr]
        rw [sBranchesAt_eq root env gs bs hb] at hres
        cases hsb : sBranches root env bs with
        | error e => simp [hsb, bind, Except.bind] at hres
        | ok ob =>
          simp only [hsb, bind, Except.bind] at hres ⊢
          cases ob with
          | some r => simpa [pure, Except.pure] using hres
          | none =>
            simp only at hres ⊢
            cases hd : dhas "default" gs with
            | false => simp [hd] at hres
            | true =>
              simp only [hd, if_true] at hres h2 ⊢
              obtain ⟨vd, hvd⟩ := dhas_dget hd
              rw [at_agree c root env hr "default" gs vd hvd hsub h2, hres]
    | _ => all_goals (simp [hb] at hres)

/-- how `eval` runs `$let` on any argument document -/
theorem let_unfold (c : Ctx) (gs : Fields) :
    eval c (.doc [("$let", .doc gs)]) =
      (if (!(dhas "vars" gs) || !(dhas "in" gs)) = true then .error .opFail
       else if gs.any (fun kv => !(["vars", "in"].contains kv.1)) = true then .error .opFail
       else match dget "vars" gs with
         | some (.doc vs) =>
           if (!(vs.all (fun kv => validVarName kv.1))) = true then .error .opFail
           else (evalVarsAt c gs).bind (fun bs => evalAt (c.bindAll bs) "in" gs)
         | _ => .error .opFail) := by
  rw [eval_shaped c "$let" _ (by decide) (by decide) (by decide) (by decide)
    (Or.inl (by decide)) (mode_shaped_doc "$let" gs (by simp))]
  simp only [evalOp, if_true]
  cases hv : dget "vars" gs with
  | none => simp
  | some w => cases w <;> simp <;> (try split) <;> (try split) <;> (try split) <;> rfl

/-- a name the rules accept is one the code accepts -/
theorem userVar_valid (s : String) (h : userVarName s = true) : validVarName s = true := by
  unfold userVarName at h
  unfold validVarName
  cases hl : s.toList with
  | nil => simp [hl] at h
  | cons ch r =>
    simp only [hl, Bool.and_eq_true] at h
    have h1 : isVarStart ch = true := by simpa [isVarStart, isLower, nonAscii] using h.1
    have h2 : r.all isVarChar = true := by
      rw [List.all_eq_true] at h ⊢
      intro x hx
      have := h.2 x hx
      simpa [isVarChar, isLower, isUpper, isDigitC, nonAscii] using this
    simp [h1, h2]

theorem dhas_two (k : String) (k1 k2 : String) (v1 v2 : Val)
    (h : dhas k [(k1, v1), (k2, v2)] = true) : k1 = k ∨ k2 = k := by
  simp only [dhas, dget] at h
  by_cases a : k1 = k
  · exact Or.inl a
  · by_cases b : k2 = k
    · exact Or.inr b
    · simp [a, b] at h

/-- two fields among which `vars` and `in` occur: there is no other field -/
theorem let_keys (gs : Fields) (h1 : dhas "vars" gs = true) (h2 : dhas "in" gs = true)
    (hl : gs.length = 2) : gs.any (fun kv => !(["vars", "in"].contains kv.1)) = false := by
  match gs, hl with
  | [(k1, v1), (k2, v2)], _ =>
    have hv := dhas_two "vars" k1 k2 v1 v2 h1
    have hi := dhas_two "in" k1 k2 v1 v2 h2
    rcases hv with rfl | rfl <;> rcases hi with hi | hi <;>
      first
        | (exact absurd hi (by decide))
        | (subst hi; simp)

/-- `$let` -/
theorem let_case (c : Ctx) (root : Val) (env : Env) (hr : EnvRel c root env) (gs : Fields)
    (hsub : AllSubFields Agrees gs)
    (hre : rVarsAt root env gs ++
        (match sVarsAt root env gs with
         | .ok bs => rAt root (bs.reverse ++ env) "in" gs
         | .error _ => []) = [])
    (res : Option Val)
    (hres : (match dget "vars" gs, dhas "in" gs with
        | some (.doc vs), true =>
          if gs.length ≠ 2 then (Except.error Err.opFail : R (Option Val))
          else if vs.any (fun kv => kv.1 = "CURRENT") = true then unmodelled
          else if (!(vs.all (fun kv => userVarName kv.1))) = true then .error .opFail
          else do
            let bs ← sVarsAt root env gs
            sAt root (bs.reverse ++ env) "in" gs
        | _, _ => (Except.error Err.opFail : R (Option Val))) = .ok res) :
    eval c (.doc [("$let", .doc gs)]) = .ok res := by
  obtain ⟨h2, h3⟩ := append_nil2 hre
  cases hv : dget "vars" gs with
  | none => simp [hv] at hres
  | some w =>
    cases w with
    | doc vs =>
      cases hin : dhas "in" gs with
      | false => simp [hv, hin] at hres
      | true =>
        simp only [hv, hin] at hres
        split at hres
        · cases hres
        · rename_i hlen'
          have hlen : gs.length = 2 := by simpa using hlen'
          split at hres
          · simp [unmodelled] at hres
          · split at hres
            · cases hres
            · rename_i hnames
              have hnames' : vs.all (fun kv => userVarName kv.1) = true := by
                simpa using hnames
              have hvalid : vs.all (fun kv => validVarName kv.1) = true := by
                rw [List.all_eq_true] at hnames' ⊢
                intro kv hkv
                exact userVar_valid kv.1 (hnames' kv hkv)
              rw [sVarsAt_eq root env gs vs hv] at hres h3
              rw [rVarsAt_eq root env gs vs hv] at h2
              have hsv : AllSubFields Agrees vs := (hsub.mem (dget_mem' hv)).fields
              obtain ⟨bs, hbs, hbs'⟩ := vars_agree c root env hr vs hsv h2
              simp only [hbs, bind, Except.bind] at hres h3
              have hvars : dhas "vars" gs = true := by simp [dhas, hv]
              rw [let_unfold, evalVarsAt_eq c gs vs hv, hbs']
              simp only [hvars, hin, Bool.not_true, Bool.or_self, Bool.false_eq_true, if_false, hv,
                let_keys gs hvars hin hlen, hvalid, Except.bind]
              obtain ⟨vin, hvin⟩ := dhas_dget hin
              have hr' := hr.bindAll bs
              rw [at_agree (c.bindAll bs) root _ hr' "in" gs vin hvin hsub h3, hres]
    | _ => all_goals (simp [hv] at hres)

end MongoModel.Proofs.C04
