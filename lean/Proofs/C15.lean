/-
  Proofs.C15 — lemmas and proofs behind Props/C15.lean.
-/
import Spec.Single
import Proofs.C15Loop

namespace MongoModel.Proofs.C15
open MongoModel MongoModel.Spec MongoModel.Proofs.C15Lemmas

theorem never_empty (cfg : Cfg) (now : Int) (c : Coll) (ordered : Bool) :
    bulkWrite cfg now c [] ordered = (c, .err .invalidOp) := by rfl

theorem unordered_eq_seq (cfg : Cfg) (now : Int) (c : Coll) (reqs : List Val)
    (hp : reqs.all plainRequest = true) (hv : bulkPrecheck reqs = .ok ())
    (hne : reqs ≠ [])
    (hw : ∀ e, (bulkWrite cfg now c reqs false).2 ≠ .err e) :
    (bulkWrite cfg now c reqs false).1 = seqOps cfg now (reqs.map asSingle) c := by
  rw [bulkWrite_loop cfg now c reqs false hv hne] at hw ⊢
  exact loop_unordered cfg now reqs hp hv 0 c {} hw

theorem ordered_eq_seq_prefix (cfg : Cfg) (now : Int) (c : Coll) (reqs : List Val)
    (hp : reqs.all plainRequest = true) (hv : bulkPrecheck reqs = .ok ()) (hne : reqs ≠ []) :
    ∃ k, k ≤ reqs.length ∧
      (bulkWrite cfg now c reqs true).1 = seqOps cfg now ((reqs.take k).map asSingle) c ∧
      ((bulkWrite cfg now c reqs true).2.isErr = false → k = reqs.length) := by
  rw [bulkWrite_loop cfg now c reqs true hv hne]
  exact loop_ordered cfg now reqs hp hv 0 c {}

theorem ordered_error_details (cfg : Cfg) (now : Int) (c : Coll) (reqs : List Val) (details : Val)
    (h : (bulkWrite cfg now c reqs true).2 = .bulkErr details) :
    ∃ k code rest, k < reqs.length ∧
      dget "writeErrors" (match details with | .doc fs => fs | _ => []) =
        some (.arr [.doc [("index", .int k), ("code", code)]]) ∧ details = .doc rest := by
  unfold bulkWrite at h
  split at h
  · cases h
  · split at h
    · cases h
    · obtain ⟨k, code, t', _, h2, h3, h4⟩ := loop_details cfg now reqs 0 c {} details rfl h
      refine ⟨k, code, _, by omega, ?_, h4⟩
      subst h4
      simp [BulkTotals.toVal, dget, h3]

theorem counts_are_sums (cfg : Cfg) (now : Int) (ordered : Bool) (reqs : List Val) (idx : Nat)
    (c : Coll) (t : BulkTotals) (r : Val) (c' : Coll) (f : BulkTotals → BulkTotals)
    (h1 : bulkOne cfg now c idx r = (c', .ok f)) :
    bulkLoop cfg now ordered (r :: reqs) idx c t = bulkLoop cfg now ordered reqs (idx + 1) c' (f t) ∧
    (f t).nInserted + (f t).nMatched + (f t).nRemoved + (f t).nUpserted
      ≥ t.nInserted + t.nMatched + t.nRemoved + t.nUpserted ∧
    (f t).errors = t.errors := by
  have hk := one_ok cfg now c c' idx r f h1
  refine ⟨?_, ok_counts hk t, ok_errors hk t⟩
  rw [loop_cons, h1]

theorem upserted_ids_by_op_index (cfg : Cfg) (now : Int) (c c' : Coll) (idx : Nat) (r : Val)
    (f : BulkTotals → BulkTotals) (t : BulkTotals)
    (h : bulkOne cfg now c idx r = (c', .ok f)) :
    (f t).upserted = t.upserted ∨
    ∃ id, (f t).upserted = t.upserted ++ [.doc [("index", .int idx), ("_id", id)]] :=
  ok_upserted (one_ok cfg now c c' idx r f h) t

end MongoModel.Proofs.C15
