/-
  Proofs.C02ExtFlat — a whole operator update succeeds with result `r` exactly when the run of
  its entries, one after the other, does (`flat_ok`; the converse `flat_ok_conv` needs the update
  to be well shaped: an unknown operator or a non-document argument has no entries but fails).
-/
import Proofs.C02ExtMain

set_option linter.unusedSimpArgs false
set_option linter.unusedVariables false

namespace MongoModel.Proofs.C02Lemmas
open MongoModel MongoModel.Spec

theorem except_bind_ok {α β : Type} {x : R α} {g : α → R β} {r : β} :
    (x >>= g) = Except.ok r ↔ ∃ s, x = .ok s ∧ g s = .ok r := by
  cases x with
  | error e => simp [bind, Except.bind]
  | ok s => simp [bind, Except.bind]

/-! ### the `updateFields` operators -/

theorem updateFields_singles (u : Updater) (now : Val) :
    ∀ (body : Fields) (d r : Val),
      body.foldlM (fun acc fv => updateFields u now (.doc [fv]) acc) d = .ok r ↔
        (body.any (fun kv => hasDollarPart kv.1) = false ∧
          body.foldlM (fun acc kv =>
            if !keyOk kv.1 then unmodelled
            else updateSingleField u now kv.2 (splitDots kv.1) acc) d = .ok r)
  | [], d, r => by simp [List.foldlM_nil]
  | (p, a) :: body, d, r => by
    simp only [List.foldlM_cons, List.any_cons, Bool.or_eq_false_iff, except_bind_ok,
      updateFields_single]
    by_cases h1 : hasDollarPart p = true
    · simp [h1, unmodelled]
    · simp only [h1, if_false, Bool.false_eq_true, Bool.not_eq_true] at h1 ⊢
      simp only [h1, true_and]
      constructor
      · rintro ⟨s, hs, hr⟩
        have := (updateFields_singles u now body s r).mp hr
        exact ⟨this.1, s, hs, this.2⟩
      · rintro ⟨hb, s, hs, hr⟩
        exact ⟨s, hs, (updateFields_singles u now body s r).mpr ⟨hb, hr⟩⟩

theorem updateFields_flat (u : Updater) (now : Val) (body : Fields) (d r : Val) :
    updateFields u now (.doc body) d = .ok r ↔
      body.foldlM (fun acc fv => updateFields u now (.doc [fv]) acc) d = .ok r := by
  rw [updateFields_singles]
  simp only [updateFields]
  by_cases h : body.any (fun kv => hasDollarPart kv.1) = true
  · simp [h, unmodelled]
  · simp only [h, if_false, Bool.false_eq_true]
    simp only [Bool.not_eq_true] at h
    simp [h]

theorem updateFields_nondoc (u : Updater) (now v d r : Val) (hv : ∀ body, v ≠ .doc body) :
    updateFields u now v d ≠ .ok r := by
  cases v <;> first | exact absurd rfl (hv _) | simp [updateFields]

/-! ### the in-line operators -/

theorem eachField_flat (f : Val → String → Val → R Val) (body : Fields) (d : Val) :
    eachField (.doc body) d f = body.foldlM (fun acc fv => eachField (.doc [fv]) acc f) d := by
  simp only [eachField]
  congr 1
  funext acc fv
  exact (eachField_single f fv.1 fv.2 acc).symm

theorem eachField_nondoc (f : Val → String → Val → R Val) (v d r : Val)
    (hv : ∀ body, v ≠ .doc body) : eachField v d f ≠ .ok r := by
  cases v <;> first | exact absurd rfl (hv _) | simp [eachField]

theorem foldlM_id_ok {σ : Type} (g : Val → σ → R Val) (hg : ∀ d s, g d s = .ok d) :
    ∀ (l : List σ) (d : Val), l.foldlM g d = .ok d
  | [], d => rfl
  | s :: l, d => by
    simp only [List.foldlM_cons, hg]
    exact foldlM_id_ok g hg l d

/-! ### one operator against its entries -/

theorem entriesOf_fold (spec now : Val) (wi : Bool) (k : String) (body : Fields) (d : Val) :
    (entriesOf k (.doc body)).foldlM (estep spec now wi) d =
      body.foldlM (fun acc fv => opRun spec now wi k (.doc [fv]) acc) d := by
  simp only [entriesOf, List.foldlM_map, estep]

theorem entriesOf_nondoc (k : String) (v : Val) (hv : ∀ body, v ≠ .doc body) :
    entriesOf k v = [] := by
  cases v <;> first | exact absurd rfl (hv _) | rfl

theorem opRun_flat_ok (spec now : Val) (wi : Bool) (k : String) (v d r : Val)
    (h : opRun spec now wi k v d = .ok r) :
    (entriesOf k v).foldlM (estep spec now wi) d = .ok r := by
  cases opKind spec now wi k with
  | fields u hk hop =>
    by_cases hv : ∃ body, v = .doc body
    · obtain ⟨body, rfl⟩ := hv
      rw [entriesOf_fold]
      simp only [hop] at h ⊢
      exact (updateFields_flat u now body d r).mp h
    · rw [hop] at h
      exact absurd h (updateFields_nondoc u now v d r (fun body e => hv ⟨body, e⟩))
  | each f hop hl =>
    by_cases hv : ∃ body, v = .doc body
    · obtain ⟨body, rfl⟩ := hv
      rw [entriesOf_fold]
      simp only [hop] at h ⊢
      rw [← eachField_flat]; exact h
    · rw [hop] at h
      exact absurd h (eachField_nondoc f v d r (fun body e => hv ⟨body, e⟩))
  | skip hop =>
    rw [hop] at h; cases h
    by_cases hv : ∃ body, v = .doc body
    · obtain ⟨body, rfl⟩ := hv
      rw [entriesOf_fold]
      exact foldlM_id_ok _ (fun d s => by simp only [hop]) _ _
    · rw [entriesOf_nondoc k v (fun body e => hv ⟨body, e⟩)]; rfl
  | unknown hk hop => rw [hop] at h; cases h

theorem opRun_flat_conv (spec now : Val) (wi : Bool) (k : String) (body : Fields) (d r : Val)
    (hk : operatorNames.contains k = true)
    (h : (entriesOf k (.doc body)).foldlM (estep spec now wi) d = .ok r) :
    opRun spec now wi k (.doc body) d = .ok r := by
  rw [entriesOf_fold] at h
  cases opKind spec now wi k with
  | fields u _ hop =>
    simp only [hop] at h ⊢
    exact (updateFields_flat u now body d r).mpr h
  | each f hop hl =>
    simp only [hop] at h ⊢
    rw [eachField_flat]; exact h
  | skip hop =>
    rw [foldlM_id_ok _ (fun d s => by simp only [hop]) _ _] at h
    rw [hop]; exact h
  | unknown hk' hop => rw [hk'] at hk; cases hk

/-! ### the whole update against its entries -/

theorem flat_ok (spec now : Val) (wi : Bool) :
    ∀ (ops : Fields) (d r : Val),
      ops.foldlM (fun acc kv => opRun spec now wi kv.1 kv.2 acc) d = .ok r →
      (entries ops).foldlM (estep spec now wi) d = .ok r
  | [], d, r, h => h
  | (k, v) :: rest, d, r, h => by
    simp only [List.foldlM_cons] at h
    obtain ⟨d1, h1, h2⟩ := except_bind_ok.mp h
    rw [entries_cons, List.foldlM_append]
    exact except_bind_ok.mpr ⟨d1, opRun_flat_ok spec now wi k v d d1 h1,
      flat_ok spec now wi rest d1 r h2⟩

theorem flat_ok_conv (spec now : Val) (wi : Bool) :
    ∀ (ops : Fields) (d r : Val), wellShaped ops = true →
      (entries ops).foldlM (estep spec now wi) d = .ok r →
      ops.foldlM (fun acc kv => opRun spec now wi kv.1 kv.2 acc) d = .ok r
  | [], d, r, _, h => h
  | (k, v) :: rest, d, r, hs, h => by
    simp only [wellShaped, List.all_cons, Bool.and_eq_true] at hs
    obtain ⟨⟨hk, hv⟩, hrest⟩ := hs
    rw [entries_cons, List.foldlM_append] at h
    obtain ⟨d1, h1, h2⟩ := except_bind_ok.mp h
    simp only [List.foldlM_cons]
    cases v with
    | doc body =>
      exact except_bind_ok.mpr ⟨d1, opRun_flat_conv spec now wi k body d d1 hk h1,
        flat_ok_conv spec now wi rest d1 r (by simpa only [wellShaped] using hrest) h2⟩
    | _ => simp at hv

end MongoModel.Proofs.C02Lemmas
