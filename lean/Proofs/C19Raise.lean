/-
  C19 — which actions raise.  In a conformant, disciplined program (any number of threads) an
  exception is raised only where the source says so: `d[key]` / `del d[key]` on a key that is not
  there, and the consumer of `documents` throwing into the generator.  In particular
  `d.pop(key, None)` — what `discard`, hence `Collection._delete`, and the expiry pass remove a
  document with — never raises, whoever removed the document meanwhile.
-/
import Proofs.C19Main
namespace MongoModel.RWLock

/-- the instructions that raise on their own account, and what they raise -/
def declaredRaise : Instr → Exc → Bool
  | .getItem .., .keyError => true
  | .delItem .., .keyError => true
  | .setItem _ .collHead, .keyError => true
  | .yield _, .thrown => true
  | _, _ => false

theorem raise_some_fault (th : Thread) (code : Code) (f : Fault) :
    ∃ g, (th.raise code (some f)).fault = some g := by
  simp only [Thread.raise]
  cases th.fault with
  | none => exact ⟨f, rfl⟩
  | some x => exact ⟨x, rfl⟩

/-- a non-protocol action that raises either is one of the declared ones or records a fault -/
theorem dictOp_raised {cfg : Cfg} {code sh th ins e} (h : dictOp cfg code sh th ins = some e)
    {x : Exc} (hx : e.raised = some x) :
    declaredRaise ins x = true ∨ ∃ g, e.th.fault = some g := by
  cases ins with
  | setItem d k =>
    cases k <;> simp only [dictOp, keyVal] at h <;> (repeat' split at h) <;>
      (simp only [Option.some.injEq] at h; subst h) <;>
      first
        | (simp at hx; done)
        | (simp at hx; subst hx; exact Or.inl rfl)
  | getItem d k =>
    simp only [dictOp] at h
    (repeat' split at h) <;> (simp only [Option.some.injEq] at h; subst h) <;>
      first
        | (simp at hx; done)
        | (simp at hx; subst hx; exact Or.inl rfl)
  | delItem d k n =>
    simp only [dictOp] at h
    (repeat' split at h) <;> (simp only [Option.some.injEq] at h; subst h) <;>
      first
        | (simp at hx; done)
        | (simp at hx; subst hx; exact Or.inl rfl)
  | yield n =>
    simp only [dictOp] at h
    (repeat' split at h) <;> (simp only [Option.some.injEq] at h; subst h) <;>
      first
        | (simp at hx; done)
        | (simp at hx; subst hx; exact Or.inl rfl)
  | _ =>
    simp only [dictOp] at h
    first
      | (simp at h; done)
      | ((repeat' split at h) <;> first
          | (simp at h; done)
          | (simp only [Option.some.injEq] at h; subst h;
             first
              | (simp at hx; done)
              | exact Or.inr (raise_some_fault _ _ _)))

/-- `d.pop(key, None)` never raises and never records a fault -/
theorem popItem_never_raises (cfg : Cfg) (code : Code) (sh : Shared) (th : Thread) (d : Dict)
    (k : Key) : ∃ e, dictOp cfg code sh th (.popItem d k) = some e ∧ e.raised = none ∧
      e.th.fault = th.fault := by
  simp only [dictOp]
  (repeat' split) <;> exact ⟨_, rfl, rfl, rfl⟩

theorem exec_raised {cfg : Cfg} {code sh th t ins e} (he : exec cfg code sh th t ins = some e)
    {x : Exc} (hx : e.raised = some x) :
    declaredRaise ins x = true ∨ ∃ g, e.th.fault = some g := by
  by_cases hp : isProto ins = true
  · rcases exec_proto hp he with ⟨lk', hpo, _, _, _⟩ | ⟨_, _, hth, _⟩
    · exfalso
      unfold exec at he
      rw [hpo] at he
      simp only [Option.some.injEq] at he
      subst he
      simp at hx
    · exact Or.inr (hth ▸ raise_some_fault _ _ _)
  · exact dictOp_raised (exec_dict (by simpa using hp) he) hx

/-- any N: whatever is raised in a reachable state of a conformant, disciplined program is raised
    by an instruction that declares it -/
theorem raises_declared {P : Protocol} {cfg : Cfg} (hc : cfg.conformant P = true)
    (hg : PGood P cfg.codes.length) (hd : cfg.disciplined = true) (s : State) (hr : Reach cfg s)
    (t : Nat) (x : Exc) (h : stepRaised cfg s t = some x) :
    ∃ th ins, s.ths[t]? = some th ∧ (cfg.code t)[th.pc]? = some ins ∧
      declaredRaise ins.op x = true := by
  unfold stepRaised at h
  split at h
  · simp at h
  · rename_i th hth
    split at h
    · simp at h
    · rename_i ins hins
      split at h
      · rename_i e he
        refine ⟨th, ins, hth, hins, ?_⟩
        rcases exec_raised he h with hdecl | ⟨g, hg'⟩
        · exact hdecl
        · exfalso
          have ht : t < s.ths.length := by
            rcases Nat.lt_or_ge t s.ths.length with h' | h'
            · exact h'
            · simp [List.getElem?_eq_none h'] at hth
          have hstep : step cfg s t = some
              { sh := e.sh,
                ths := if e.mutated then (s.ths.set t e.th).map markDirty
                       else s.ths.set t e.th } := by
            simp only [step, hth, hins, he]
          have hbad := (program_correct hc hg hd _ (Reach.step hr hstep)).1
          simp only [bad, Bool.or_eq_false_iff] at hbad
          have hf := hbad.1.2
          simp only [faulted, List.any_eq_false] at hf
          have hmem : e.th ∈ s.ths.set t e.th := List.mem_set ht e.th
          by_cases hm : e.mutated = true
          · have := hf (markDirty e.th) (by
              simp only [hm, if_true]; exact List.mem_map_of_mem hmem)
            rw [markDirty_fault, hg'] at this
            simp at this
          · have := hf e.th (by simpa [hm] using hmem)
            rw [hg'] at this
            simp at this
      · simp at h

/-- the instructions through which a vanished key shows -/
def keyedAccess : Instr → Bool
  | .getItem .. | .delItem .. | .setItem _ .collHead => true
  | _ => false

/-- no thread reads `d[key]` or does `del d[key]`: scans, membership tests, lengths, inserts,
    `discard`s, expiry passes, index creation -/
def Cfg.noKeyedAccess (cfg : Cfg) : Bool := cfg.codes.all fun c => c.all fun i => !keyedAccess i.op

theorem declared_keyed {ins : Instr} (h : declaredRaise ins .keyError = true) :
    keyedAccess ins = true := by
  cases ins <;> simp [declaredRaise] at h <;> try rfl
  rename_i d k
  cases k <;> simp [declaredRaise] at h
  rfl

theorem declared_not_runtime (ins : Instr) : declaredRaise ins .runtimeError = false := by
  cases ins <;> try rfl
  rename_i d k
  cases k <;> rfl

theorem no_keyed_access_quiet {P : Protocol} {cfg : Cfg} (hc : cfg.conformant P = true)
    (hg : PGood P cfg.codes.length) (hd : cfg.disciplined = true)
    (hq : cfg.noKeyedAccess = true) (s : State) (hr : Reach cfg s) (t : Nat) :
    stepRaised cfg s t = none ∨ stepRaised cfg s t = some .thrown := by
  cases hx : stepRaised cfg s t with
  | none => exact Or.inl rfl
  | some x =>
    obtain ⟨th, ins, _, hins, hdecl⟩ := raises_declared hc hg hd s hr t x hx
    have hmem : ins ∈ cfg.code t := List.mem_of_getElem? hins
    have hq' : keyedAccess ins.op = false := by
      simp only [Cfg.noKeyedAccess, List.all_eq_true] at hq
      cases hc' : cfg.codes[t]? with
      | none =>
        have : cfg.code t = [] := by simp [Cfg.code, hc']
        rw [this] at hmem; simp at hmem
      | some c =>
        have hcode : cfg.code t = c := by simp [Cfg.code, hc']
        rw [hcode] at hmem
        simpa using hq c (List.mem_of_getElem? hc') ins hmem
    cases x with
    | thrown => exact Or.inr rfl
    | keyError => rw [declared_keyed hdecl] at hq'; simp at hq'
    | runtimeError => rw [declared_not_runtime] at hdecl; simp at hdecl

end MongoModel.RWLock
