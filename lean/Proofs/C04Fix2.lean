/-
  Proofs.C04Fix2 — laws that the second batch of repairs of the expression evaluator made true
  (fce7e55 array literals, 9ff1475 one-item argument lists, f32e005 bare operands, 10aa9e1 booleans
  rejected, 9957044 `$let` variables bound to a missing value, b53c397 variable names, f19df5e field
  paths through arrays).
-/
import Proofs.C04Spec17

set_option linter.unusedSimpArgs false
set_option linter.unnecessarySeqFocus false

namespace MongoModel.Proofs.C04
open MongoModel MongoModel.Expr MongoModel.Spec

/-! ### array literals -/

/-- an array in expression position: each item is evaluated, a missing value gives a null item -/
theorem array_literal (c : Ctx) (xs : List Val) (vs : List (Option Val))
    (h : xs.map (eval c) = vs.map .ok) :
    eval c (.arr xs) = .ok (some (.arr (vs.map (·.getD .null)))) := by
  rw [eval_arr, evalItems_ok c xs vs h]; rfl

/-- an item that raises makes the array raise -/
theorem array_literal_error (c : Ctx) (pre post : List Val) (x : Val) (vs : List (Option Val))
    (e : Err) (h : pre.map (eval c) = vs.map .ok) (hx : eval c x = .error e) :
    eval c (.arr (pre ++ x :: post)) = .error e := by
  rw [eval_arr]
  have : evalItems c (pre ++ x :: post) = .error e := by
    induction pre generalizing vs with
    | nil => simp [evalItems, hx, bind, Except.bind]
    | cons p pre ih =>
      cases vs with
      | nil => simp at h
      | cons v vs =>
        simp only [List.map_cons, List.cons.injEq] at h
        simp [evalItems, h.1, ih vs h.2, bind, Except.bind]
  rw [this]; rfl

/-! ### one-item argument lists -/

/-- `{$op: [x]}` is `{$op: x}` for an operator that takes one argument and an `x` that is not
    itself written as a list -/
theorem unary_list_eq (c : Ctx) (k : String) (hk : unaryListOps.contains k = true) (x : Val)
    (hx : x.isArr = false) (h1 : classify k ≠ .plain) (h2 : classify k ≠ .unknown)
    (h3 : classify k ≠ .notImpl) (hv : variadicOps.contains k = false) :
    eval c (.doc [(k, .arr [x])]) = eval c (.doc [(k, x)]) := by
  rw [eval_op_unary_list c k x h1 h2 h3 hk,
    eval_op_plain c k x h1 h2 h3 (by rw [hx, Bool.and_false]) (by rw [hv]; rfl)]

/-- every operator that takes one argument is a known operator, and none is variadic -/
theorem unaryListOps_known (k : String) (hk : unaryListOps.contains k = true) :
    classify k ≠ .plain ∧ classify k ≠ .unknown ∧ classify k ≠ .notImpl ∧
      variadicOps.contains k = false := by
  simp only [unaryListOps, unaryArithOps, datePartOps, List.cons_append, List.nil_append,
    List.contains_cons, List.contains_nil, Bool.or_false, Bool.or_eq_true, beq_iff_eq] at hk
  rcases hk with rfl | rfl | rfl | rfl | rfl | rfl | rfl | rfl | rfl | rfl | rfl | rfl | rfl | rfl
    | rfl | rfl | rfl | rfl | rfl | rfl | rfl | rfl | rfl | rfl | rfl | rfl | rfl | rfl | rfl <;>
  decide

/-! ### booleans are not numbers -/

theorem unary_bool (k : String) (b : Bool) : unaryArithOpt k (some (.bool b)) = .error .opFail := rfl

theorem binary_bool_left (k : String) (b : Bool) (y : Val) (hy : isNull y = false) :
    binaryArith k (.bool b) y = .error .opFail := by
  have h0 : isNull (Val.bool b) = false := rfl
  simp only [binaryArith, h0, hy, isBoolV]
  simp

theorem binary_bool_right (k : String) (x : Val) (b : Bool) (hx : isNull x = false) :
    binaryArith k x (.bool b) = .error .opFail := by
  have h0 : isNull (Val.bool b) = false := rfl
  simp only [binaryArith, h0, hx, isBoolV]
  simp

theorem checkNums_bool (pre post : List Val) (b : Bool)
    (hpre : ∀ v ∈ pre, (toPyNumNB v).isSome = true) :
    checkNums (pre ++ .bool b :: post) = .error .opFail := by
  induction pre with
  | nil => simp [checkNums]
  | cons v pre ih =>
    have hv := hpre v (by simp)
    have ih' := ih (fun w hw => hpre w (by simp [hw]))
    cases hp : toPyNumNB v with
    | none => simp [hp] at hv
    | some n =>
      cases v <;> simp [toPyNumNB] at hp <;>
        simp [checkNums, toPyNum, ih', bind, Except.bind, pure, Except.pure]

theorem checkAdd_bool (pre post : List Val) (b : Bool) (d : Option Int)
    (hpre : ∀ v ∈ pre, (toPyNumNB v).isSome = true) :
    checkAdd (pre ++ .bool b :: post) d = .error .opFail := by
  induction pre with
  | nil => cases d <;> simp [checkAdd]
  | cons v pre ih =>
    have hv := hpre v (by simp)
    have ih' := ih (fun w hw => hpre w (by simp [hw]))
    cases hp : toPyNumNB v with
    | none => simp [hp] at hv
    | some n =>
      cases v <;> simp [toPyNumNB] at hp <;>
        simp [checkAdd, toPyNum, ih', bind, Except.bind, pure, Except.pure]

/-- `$add` / `$multiply`: a boolean after numbers is rejected -/
theorem nary_bool (op : String) (hop : op = "$add" ∨ op = "$multiply") (pre post : List Val)
    (b : Bool) (hpre : ∀ v ∈ pre, (toPyNumNB v).isSome = true) :
    naryArith op (pre ++ .bool b :: post) = .error .opFail := by
  have hne : (pre ++ Val.bool b :: post).isEmpty = false := by cases pre <;> simp
  rcases hop with rfl | rfl <;>
    simp [naryArith, hne, checkNums_bool pre post b hpre, checkAdd_bool pre post b none hpre, bind,
      Except.bind]

theorem elemAt_bool (a : Val) (b : Bool) (ha : isNull a = false) :
    arrayElemAtOp a (.bool b) = .error .opFail := by
  have h0 : isNull (Val.bool b) = false := rfl
  simp only [arrayElemAtOp, h0, ha, isBoolV]
  simp

/-! ### variables bound to a missing value -/

theorem var_bound_missing (c : Ctx) (name : String) (rest : List String)
    (h : c.miss.contains name = true) : evalVar c (name :: rest) = .ok none := by
  simp only [evalVar, List.headD_cons, h, if_true]

theorem bindOpt_none_miss (c : Ctx) (name : String) :
    (c.bindOpt name none).miss.contains name = true := by
  simp [Ctx.bindOpt]

/-! ### variable names -/

/-- the code's rule is the rules' rule, `CURRENT` apart -/
theorem validVarName_eq (s : String) :
    validVarName s = (decide (s = "CURRENT") || userVarName s) := by
  unfold validVarName userVarName
  cases s.toList with
  | nil => rfl
  | cons ch r =>
    have h1 : isVarStart ch = (isLower ch || nonAscii ch) := by
      simp [isVarStart, isLower, nonAscii]
    have h2 : r.all isVarChar =
        r.all (fun x => isLower x || isUpper x || isDigitC x || x == '_' || nonAscii x) := by
      congr 1
    simp only [h1, h2]

/-! ### field paths -/

/-- a numeric component still indexes an array: `$l.0` on `{l: [7]}` is 7 for the code, `[]` by
    the rules (no document of the array has a field `0`) -/
theorem path_index_witness :
    getDotGen ["l", "0"] (.doc [("l", .arr [.int 7])]) = .ok (some (.int 7)) ∧
    Spec.path ["l", "0"] (.doc [("l", .arr [.int 7])]) = .ok (some (.arr [])) := by
  constructor <;> rfl

end MongoModel.Proofs.C04
