/-
  Proofs.C12Agg — the `$project` stage: on its domain it is exactly the rule, hence agrees with
  the find path (`find_eq_agg`).
-/
import Proofs.C12Ops

namespace MongoModel.Proofs.C12
open MongoModel MongoModel.Spec.Proj

mutual
  theorem apFields_incl : ∀ (fs : Fields) (cs : PSpec) (ps : List Path), Rep cs ps →
      apFields fs cs true = inclFields fs ps
    | [], _, _, _ => by simp [apFields, inclFields]
    | (k, .arr xs) :: rest, cs, ps, hr => by
      have ih := apFields_incl rest cs ps hr
      cases ht : tget k cs with
      | none =>
        have hts := (hr.none_iff k).mp ht
        simp [apFields, inclFields, ht, hts, ih]
      | some t =>
        cases t with
        | leaf v =>
          have hts := (hr.leaf_iff k).mp ⟨v, ht⟩
          have hne : tailsOf k ps ≠ [] := fun e => by simp [e] at hts
          simp [apFields, inclFields, ht, hts, hne, ih]
        | node sub =>
          obtain ⟨h1, h2, h3⟩ := hr.node ht
          have ihl := apList_incl xs sub _ h3
          simp [apFields, inclFields, inclVal, ht, h1, h2, ih, ihl]
    | (k, .doc fs) :: rest, cs, ps, hr => by
      have ih := apFields_incl rest cs ps hr
      cases ht : tget k cs with
      | none =>
        have hts := (hr.none_iff k).mp ht
        simp [apFields, inclFields, ht, hts, ih]
      | some t =>
        cases t with
        | leaf v =>
          have hts := (hr.leaf_iff k).mp ⟨v, ht⟩
          have hne : tailsOf k ps ≠ [] := fun e => by simp [e] at hts
          simp [apFields, inclFields, ht, hts, hne, ih]
        | node sub =>
          obtain ⟨h1, h2, h3⟩ := hr.node ht
          have ihf := apFields_incl fs sub _ h3
          simp [apFields, inclFields, inclVal, ht, h1, h2, ih, ihf]
    | (k, .null) :: rest, cs, ps, hr => by
      have ih := apFields_incl rest cs ps hr
      cases ht : tget k cs with
      | none =>
        have hts := (hr.none_iff k).mp ht
        simp [apFields, inclFields, ht, hts, ih]
      | some t =>
        cases t with
        | leaf v =>
          have hts := (hr.leaf_iff k).mp ⟨v, ht⟩
          have hne : tailsOf k ps ≠ [] := fun e => by simp [e] at hts
          simp [apFields, inclFields, ht, hts, hne, ih]
        | node sub =>
          obtain ⟨h1, h2, h3⟩ := hr.node ht
          simp [apFields, inclFields, inclVal, ht, h1, h2, ih]
    | (k, .bool _) :: rest, cs, ps, hr => by
      have ih := apFields_incl rest cs ps hr
      cases ht : tget k cs with
      | none =>
        have hts := (hr.none_iff k).mp ht
        simp [apFields, inclFields, ht, hts, ih]
      | some t =>
        cases t with
        | leaf v =>
          have hts := (hr.leaf_iff k).mp ⟨v, ht⟩
          have hne : tailsOf k ps ≠ [] := fun e => by simp [e] at hts
          simp [apFields, inclFields, ht, hts, hne, ih]
        | node sub =>
          obtain ⟨h1, h2, h3⟩ := hr.node ht
          simp [apFields, inclFields, inclVal, ht, h1, h2, ih]
    | (k, .int _) :: rest, cs, ps, hr => by
      have ih := apFields_incl rest cs ps hr
      cases ht : tget k cs with
      | none =>
        have hts := (hr.none_iff k).mp ht
        simp [apFields, inclFields, ht, hts, ih]
      | some t =>
        cases t with
        | leaf v =>
          have hts := (hr.leaf_iff k).mp ⟨v, ht⟩
          have hne : tailsOf k ps ≠ [] := fun e => by simp [e] at hts
          simp [apFields, inclFields, ht, hts, hne, ih]
        | node sub =>
          obtain ⟨h1, h2, h3⟩ := hr.node ht
          simp [apFields, inclFields, inclVal, ht, h1, h2, ih]
    | (k, .dbl _ _) :: rest, cs, ps, hr => by
      have ih := apFields_incl rest cs ps hr
      cases ht : tget k cs with
      | none =>
        have hts := (hr.none_iff k).mp ht
        simp [apFields, inclFields, ht, hts, ih]
      | some t =>
        cases t with
        | leaf v =>
          have hts := (hr.leaf_iff k).mp ⟨v, ht⟩
          have hne : tailsOf k ps ≠ [] := fun e => by simp [e] at hts
          simp [apFields, inclFields, ht, hts, hne, ih]
        | node sub =>
          obtain ⟨h1, h2, h3⟩ := hr.node ht
          simp [apFields, inclFields, inclVal, ht, h1, h2, ih]
    | (k, .str _) :: rest, cs, ps, hr => by
      have ih := apFields_incl rest cs ps hr
      cases ht : tget k cs with
      | none =>
        have hts := (hr.none_iff k).mp ht
        simp [apFields, inclFields, ht, hts, ih]
      | some t =>
        cases t with
        | leaf v =>
          have hts := (hr.leaf_iff k).mp ⟨v, ht⟩
          have hne : tailsOf k ps ≠ [] := fun e => by simp [e] at hts
          simp [apFields, inclFields, ht, hts, hne, ih]
        | node sub =>
          obtain ⟨h1, h2, h3⟩ := hr.node ht
          simp [apFields, inclFields, inclVal, ht, h1, h2, ih]
    | (k, .date _ _) :: rest, cs, ps, hr => by
      have ih := apFields_incl rest cs ps hr
      cases ht : tget k cs with
      | none =>
        have hts := (hr.none_iff k).mp ht
        simp [apFields, inclFields, ht, hts, ih]
      | some t =>
        cases t with
        | leaf v =>
          have hts := (hr.leaf_iff k).mp ⟨v, ht⟩
          have hne : tailsOf k ps ≠ [] := fun e => by simp [e] at hts
          simp [apFields, inclFields, ht, hts, hne, ih]
        | node sub =>
          obtain ⟨h1, h2, h3⟩ := hr.node ht
          simp [apFields, inclFields, inclVal, ht, h1, h2, ih]
    | (k, .oid _) :: rest, cs, ps, hr => by
      have ih := apFields_incl rest cs ps hr
      cases ht : tget k cs with
      | none =>
        have hts := (hr.none_iff k).mp ht
        simp [apFields, inclFields, ht, hts, ih]
      | some t =>
        cases t with
        | leaf v =>
          have hts := (hr.leaf_iff k).mp ⟨v, ht⟩
          have hne : tailsOf k ps ≠ [] := fun e => by simp [e] at hts
          simp [apFields, inclFields, ht, hts, hne, ih]
        | node sub =>
          obtain ⟨h1, h2, h3⟩ := hr.node ht
          simp [apFields, inclFields, inclVal, ht, h1, h2, ih]
  theorem apList_incl : ∀ (xs : List Val) (cs : PSpec) (ps : List Path), Rep cs ps →
      apList xs cs true = inclList xs ps
    | [], _, _, _ => by simp [apList, inclList]
    | .doc fs :: xs, cs, ps, hr => by
      have ih := apList_incl xs cs ps hr
      have ihf := apFields_incl fs cs ps hr
      simp [apList, apVal, inclList, inclVal, ih, ihf]
    | .arr zs :: xs, cs, ps, hr => by
      have ih := apList_incl xs cs ps hr
      have ihl := apList_incl zs cs ps hr
      simp [apList, apVal, inclList, inclVal, ih, ihl]
    | .null :: xs, cs, ps, hr => by
      have ih := apList_incl xs cs ps hr
      simp [apList, apVal, inclList, inclVal, ih]
    | .bool _ :: xs, cs, ps, hr => by
      have ih := apList_incl xs cs ps hr
      simp [apList, apVal, inclList, inclVal, ih]
    | .int _ :: xs, cs, ps, hr => by
      have ih := apList_incl xs cs ps hr
      simp [apList, apVal, inclList, inclVal, ih]
    | .dbl _ _ :: xs, cs, ps, hr => by
      have ih := apList_incl xs cs ps hr
      simp [apList, apVal, inclList, inclVal, ih]
    | .str _ :: xs, cs, ps, hr => by
      have ih := apList_incl xs cs ps hr
      simp [apList, apVal, inclList, inclVal, ih]
    | .date _ _ :: xs, cs, ps, hr => by
      have ih := apList_incl xs cs ps hr
      simp [apList, apVal, inclList, inclVal, ih]
    | .oid _ :: xs, cs, ps, hr => by
      have ih := apList_incl xs cs ps hr
      simp [apList, apVal, inclList, inclVal, ih]
end

mutual
  theorem apFields_excl : ∀ (fs : Fields) (cs : PSpec) (ps : List Path), Rep cs ps →
      apFields fs cs false = exclFields fs ps
    | [], _, _, _ => by simp [apFields, exclFields]
    | (k, .arr xs) :: rest, cs, ps, hr => by
      have ih := apFields_excl rest cs ps hr
      cases ht : tget k cs with
      | none =>
        have hts := (hr.none_iff k).mp ht
        simp [apFields, exclFields, ht, hts, ih]
      | some t =>
        cases t with
        | leaf v =>
          have hts := (hr.leaf_iff k).mp ⟨v, ht⟩
          have hne : tailsOf k ps ≠ [] := fun e => by simp [e] at hts
          simp [apFields, exclFields, ht, hts, hne, ih]
        | node sub =>
          obtain ⟨h1, h2, h3⟩ := hr.node ht
          have ihl := apList_excl xs sub _ h3
          simp [apFields, exclFields, exclVal, ht, h1, h2, ih, ihl]
    | (k, .doc fs) :: rest, cs, ps, hr => by
      have ih := apFields_excl rest cs ps hr
      cases ht : tget k cs with
      | none =>
        have hts := (hr.none_iff k).mp ht
        simp [apFields, exclFields, ht, hts, ih]
      | some t =>
        cases t with
        | leaf v =>
          have hts := (hr.leaf_iff k).mp ⟨v, ht⟩
          have hne : tailsOf k ps ≠ [] := fun e => by simp [e] at hts
          simp [apFields, exclFields, ht, hts, hne, ih]
        | node sub =>
          obtain ⟨h1, h2, h3⟩ := hr.node ht
          have ihf := apFields_excl fs sub _ h3
          simp [apFields, exclFields, exclVal, ht, h1, h2, ih, ihf]
    | (k, .null) :: rest, cs, ps, hr => by
      have ih := apFields_excl rest cs ps hr
      cases ht : tget k cs with
      | none =>
        have hts := (hr.none_iff k).mp ht
        simp [apFields, exclFields, ht, hts, ih]
      | some t =>
        cases t with
        | leaf v =>
          have hts := (hr.leaf_iff k).mp ⟨v, ht⟩
          have hne : tailsOf k ps ≠ [] := fun e => by simp [e] at hts
          simp [apFields, exclFields, ht, hts, hne, ih]
        | node sub =>
          obtain ⟨h1, h2, h3⟩ := hr.node ht
          simp [apFields, exclFields, exclVal, ht, h1, h2, ih]
    | (k, .bool _) :: rest, cs, ps, hr => by
      have ih := apFields_excl rest cs ps hr
      cases ht : tget k cs with
      | none =>
        have hts := (hr.none_iff k).mp ht
        simp [apFields, exclFields, ht, hts, ih]
      | some t =>
        cases t with
        | leaf v =>
          have hts := (hr.leaf_iff k).mp ⟨v, ht⟩
          have hne : tailsOf k ps ≠ [] := fun e => by simp [e] at hts
          simp [apFields, exclFields, ht, hts, hne, ih]
        | node sub =>
          obtain ⟨h1, h2, h3⟩ := hr.node ht
          simp [apFields, exclFields, exclVal, ht, h1, h2, ih]
    | (k, .int _) :: rest, cs, ps, hr => by
      have ih := apFields_excl rest cs ps hr
      cases ht : tget k cs with
      | none =>
        have hts := (hr.none_iff k).mp ht
        simp [apFields, exclFields, ht, hts, ih]
      | some t =>
        cases t with
        | leaf v =>
          have hts := (hr.leaf_iff k).mp ⟨v, ht⟩
          have hne : tailsOf k ps ≠ [] := fun e => by simp [e] at hts
          simp [apFields, exclFields, ht, hts, hne, ih]
        | node sub =>
          obtain ⟨h1, h2, h3⟩ := hr.node ht
          simp [apFields, exclFields, exclVal, ht, h1, h2, ih]
    | (k, .dbl _ _) :: rest, cs, ps, hr => by
      have ih := apFields_excl rest cs ps hr
      cases ht : tget k cs with
      | none =>
        have hts := (hr.none_iff k).mp ht
        simp [apFields, exclFields, ht, hts, ih]
      | some t =>
        cases t with
        | leaf v =>
          have hts := (hr.leaf_iff k).mp ⟨v, ht⟩
          have hne : tailsOf k ps ≠ [] := fun e => by simp [e] at hts
          simp [apFields, exclFields, ht, hts, hne, ih]
        | node sub =>
          obtain ⟨h1, h2, h3⟩ := hr.node ht
          simp [apFields, exclFields, exclVal, ht, h1, h2, ih]
    | (k, .str _) :: rest, cs, ps, hr => by
      have ih := apFields_excl rest cs ps hr
      cases ht : tget k cs with
      | none =>
        have hts := (hr.none_iff k).mp ht
        simp [apFields, exclFields, ht, hts, ih]
      | some t =>
        cases t with
        | leaf v =>
          have hts := (hr.leaf_iff k).mp ⟨v, ht⟩
          have hne : tailsOf k ps ≠ [] := fun e => by simp [e] at hts
          simp [apFields, exclFields, ht, hts, hne, ih]
        | node sub =>
          obtain ⟨h1, h2, h3⟩ := hr.node ht
          simp [apFields, exclFields, exclVal, ht, h1, h2, ih]
    | (k, .date _ _) :: rest, cs, ps, hr => by
      have ih := apFields_excl rest cs ps hr
      cases ht : tget k cs with
      | none =>
        have hts := (hr.none_iff k).mp ht
        simp [apFields, exclFields, ht, hts, ih]
      | some t =>
        cases t with
        | leaf v =>
          have hts := (hr.leaf_iff k).mp ⟨v, ht⟩
          have hne : tailsOf k ps ≠ [] := fun e => by simp [e] at hts
          simp [apFields, exclFields, ht, hts, hne, ih]
        | node sub =>
          obtain ⟨h1, h2, h3⟩ := hr.node ht
          simp [apFields, exclFields, exclVal, ht, h1, h2, ih]
    | (k, .oid _) :: rest, cs, ps, hr => by
      have ih := apFields_excl rest cs ps hr
      cases ht : tget k cs with
      | none =>
        have hts := (hr.none_iff k).mp ht
        simp [apFields, exclFields, ht, hts, ih]
      | some t =>
        cases t with
        | leaf v =>
          have hts := (hr.leaf_iff k).mp ⟨v, ht⟩
          have hne : tailsOf k ps ≠ [] := fun e => by simp [e] at hts
          simp [apFields, exclFields, ht, hts, hne, ih]
        | node sub =>
          obtain ⟨h1, h2, h3⟩ := hr.node ht
          simp [apFields, exclFields, exclVal, ht, h1, h2, ih]
  theorem apList_excl : ∀ (xs : List Val) (cs : PSpec) (ps : List Path), Rep cs ps →
      apList xs cs false = exclList xs ps
    | [], _, _, _ => by simp [apList, exclList]
    | .doc fs :: xs, cs, ps, hr => by
      have ih := apList_excl xs cs ps hr
      have ihf := apFields_excl fs cs ps hr
      simp [apList, apVal, exclList, exclVal, ih, ihf]
    | .arr zs :: xs, cs, ps, hr => by
      have ih := apList_excl xs cs ps hr
      have ihl := apList_excl zs cs ps hr
      simp [apList, apVal, exclList, exclVal, ih, ihl]
    | .null :: xs, cs, ps, hr => by
      have ih := apList_excl xs cs ps hr
      simp [apList, apVal, exclList, exclVal, ih]
    | .bool _ :: xs, cs, ps, hr => by
      have ih := apList_excl xs cs ps hr
      simp [apList, apVal, exclList, exclVal, ih]
    | .int _ :: xs, cs, ps, hr => by
      have ih := apList_excl xs cs ps hr
      simp [apList, apVal, exclList, exclVal, ih]
    | .dbl _ _ :: xs, cs, ps, hr => by
      have ih := apList_excl xs cs ps hr
      simp [apList, apVal, exclList, exclVal, ih]
    | .str _ :: xs, cs, ps, hr => by
      have ih := apList_excl xs cs ps hr
      simp [apList, apVal, exclList, exclVal, ih]
    | .date _ _ :: xs, cs, ps, hr => by
      have ih := apList_excl xs cs ps hr
      simp [apList, apVal, exclList, exclVal, ih]
    | .oid _ :: xs, cs, ps, hr => by
      have ih := apList_excl xs cs ps hr
      simp [apList, apVal, exclList, exclVal, ih]
end


/-! ### the scan of the options -/

theorem isFlag_of_flagOf {v : Val} {b : Bool} (h : flagOf v = some b) : isFlag v = true := by
  unfold isFlag
  rw [flagOf_pyEq_one h, flagOf_pyEq_zero h]
  cases b <;> rfl

/-- some field other than `_id`, or a true `_id` flag -/
def anyIncl : Fields → Bool
  | [] => false
  | (k, v) :: r => (k != "_id" || v.truthy) || anyIncl r

/-- some field other than `_id` -/
def anyPlain : Fields → Bool
  | [] => false
  | (k, _) :: r => (k != "_id") || anyPlain r

theorem scan_incl : ∀ (rest : Fields) (m : PMethod) (acc : List String),
    (∀ kv ∈ rest, kv.1 ≠ "_id" → flagOf kv.2 = some true) →
    (∀ kv ∈ rest, kv.1 = "_id" → ∃ x, flagOf kv.2 = some x) →
    m ≠ .exc →
    aggScan rest m acc = .ok (
      (if (decide (m = .inc) || anyIncl rest) = true then .inc else .unset),
      acc ++ dkeys (rest.filter (fun kv => kv.1 != "_id")))
  | [], m, acc, _, _, hm => by
    cases m <;> simp_all [aggScan, dkeys, anyIncl, anyPlain]
  | (field, value) :: r, m, acc, h1, h2, hm => by
    have ih := fun m' acc' hm' => scan_incl r m' acc'
      (fun kv hkv => h1 kv (by simp [hkv])) (fun kv hkv => h2 kv (by simp [hkv])) hm'
    by_cases e : field = "_id"
    · subst e
      obtain ⟨x, hx⟩ := h2 ("_id", value) (by simp) rfl
      have hfl : isFlag value = true := isFlag_of_flagOf hx
      have ht : value.truthy = _ := flagOf_truthy hx
      cases m with
      | exc => exact absurd rfl hm
      | unset =>
        cases x
        · have := ih .unset acc (by decide)
          simpa [aggScan, hfl, ht, dkeys, anyIncl, anyPlain] using this
        · have := ih .inc acc (by decide)
          simpa [aggScan, hfl, ht, dkeys, anyIncl, anyPlain] using this
      | inc =>
        have := ih .inc acc (by decide)
        simpa [aggScan, hfl, ht, dkeys, anyIncl, anyPlain] using this
    · have hx := h1 (field, value) (by simp) e
      have hfl : isFlag value = true := isFlag_of_flagOf hx
      have ht : value.truthy = _ := flagOf_truthy hx
      cases m with
      | exc => exact absurd rfl hm
      | unset =>
        have := ih .inc (acc ++ [field]) (by decide)
        simpa [aggScan, hfl, ht, dkeys, e, anyIncl, anyPlain] using this
      | inc =>
        have := ih .inc (acc ++ [field]) (by decide)
        simpa [aggScan, hfl, ht, dkeys, e, anyIncl, anyPlain] using this

theorem scan_excl : ∀ (rest : Fields) (m : PMethod) (acc : List String),
    (∀ kv ∈ rest, flagOf kv.2 = some false) → m ≠ .inc →
    aggScan rest m acc = .ok (
      (if (decide (m = .exc) || anyPlain rest) = true then .exc else .unset),
      acc ++ dkeys (rest.filter (fun kv => kv.1 != "_id")))
  | [], m, acc, _, hm => by
    cases m <;> simp_all [aggScan, dkeys, anyIncl, anyPlain]
  | (field, value) :: r, m, acc, h1, hm => by
    have ih := fun m' acc' hm' => scan_excl r m' acc' (fun kv hkv => h1 kv (by simp [hkv])) hm'
    have hx := h1 (field, value) (by simp)
    have hfl : isFlag value = true := isFlag_of_flagOf hx
    have ht : value.truthy = _ := flagOf_truthy hx
    by_cases e : field = "_id"
    · subst e
      cases m with
      | inc => exact absurd rfl hm
      | unset =>
        have := ih .unset acc (by decide)
        simpa [aggScan, hfl, ht, dkeys, anyIncl, anyPlain] using this
      | exc =>
        have := ih .exc acc (by decide)
        simpa [aggScan, hfl, ht, dkeys, anyIncl, anyPlain] using this
    · cases m with
      | inc => exact absurd rfl hm
      | unset =>
        have := ih .exc (acc ++ [field]) (by decide)
        simpa [aggScan, hfl, ht, dkeys, e, anyIncl, anyPlain] using this
      | exc =>
        have := ih .exc (acc ++ [field]) (by decide)
        simpa [aggScan, hfl, ht, dkeys, e, anyIncl, anyPlain] using this

/-- an exclusion that has started stays one: `_id` may carry any flag (`_id: 1` is accepted) -/
theorem scan_excl_id : ∀ (rest : Fields) (acc : List String),
    (∀ kv ∈ rest, kv.1 ≠ "_id" → flagOf kv.2 = some false) →
    (∀ kv ∈ rest, kv.1 = "_id" → ∃ x, flagOf kv.2 = some x) →
    aggScan rest .exc acc = .ok (.exc, acc ++ dkeys (rest.filter (fun kv => kv.1 != "_id")))
  | [], acc, _, _ => by simp [aggScan, dkeys]
  | (field, value) :: r, acc, h1, h2 => by
    have ih := fun acc' => scan_excl_id r acc'
      (fun kv hkv => h1 kv (by simp [hkv])) (fun kv hkv => h2 kv (by simp [hkv]))
    by_cases e : field = "_id"
    · subst e
      obtain ⟨x, hx⟩ := h2 ("_id", value) (by simp) rfl
      have hfl : isFlag value = true := isFlag_of_flagOf hx
      have ht : value.truthy = _ := flagOf_truthy hx
      have h1' : pyEq value (.int 1) = _ := flagOf_pyEq_one hx
      have := ih acc
      cases x <;> simpa [aggScan, hfl, ht, h1', dkeys] using this
    · have hx := h1 (field, value) (by simp) e
      have hfl : isFlag value = true := isFlag_of_flagOf hx
      have ht : value.truthy = _ := flagOf_truthy hx
      have := ih (acc ++ [field])
      simpa [aggScan, hfl, ht, dkeys, e] using this

/-- the method the stage starts from: decided by the first field other than `_id` -/
theorem aggInit_not_exc : ∀ (l : Fields), (∀ kv ∈ l, kv.1 ≠ "_id" → kv.2.truthy = true) →
    aggInitMethod l ≠ .exc
  | [], _ => by simp [aggInitMethod]
  | (k, v) :: r, h => by
    by_cases e : k = "_id"
    · subst e
      simpa [aggInitMethod] using aggInit_not_exc r (fun kv hkv => h kv (by simp [hkv]))
    · have := h (k, v) (by simp) e
      simp only at this
      simp [aggInitMethod, e, this]

theorem aggInit_not_inc : ∀ (l : Fields), (∀ kv ∈ l, kv.1 ≠ "_id" → kv.2.truthy = false) →
    aggInitMethod l ≠ .inc
  | [], _ => by simp [aggInitMethod]
  | (k, v) :: r, h => by
    by_cases e : k = "_id"
    · subst e
      simpa [aggInitMethod] using aggInit_not_inc r (fun kv hkv => h kv (by simp [hkv]))
    · have := h (k, v) (by simp) e
      simp only at this
      simp [aggInitMethod, e, this]

theorem aggInit_exc : ∀ (l : Fields), (∀ kv ∈ l, kv.1 ≠ "_id" → kv.2.truthy = false) →
    l.filter (fun kv => kv.1 != "_id") ≠ [] → aggInitMethod l = .exc
  | [], _, hne => by simp at hne
  | (k, v) :: r, h, hne => by
    by_cases e : k = "_id"
    · subst e
      have hne' : r.filter (fun kv => kv.1 != "_id") ≠ [] := by simpa using hne
      simpa [aggInitMethod] using aggInit_exc r (fun kv hkv => h kv (by simp [hkv])) hne'
    · have := h (k, v) (by simp) e
      simp only at this
      simp [aggInitMethod, e, this]

/-! ### `_id` appended to the list of fields -/

theorem tailsOf_append (k : String) (a b : List Path) :
    tailsOf k (a ++ b) = tailsOf k a ++ tailsOf k b := by
  simp [tailsOf, List.filterMap_append]

theorem tailsOf_snoc_id {ps : List Path} (hid : tailsOf "_id" ps = []) (k : String) :
    tailsOf k (ps ++ [["_id"]]) = tailsOf k (["_id"] :: ps) := by
  rw [tailsOf_append, tailsOf_id_cons k ps]
  by_cases e : "_id" = k
  · subst e
    have h1 : tailsOf "_id" [["_id"]] = [[]] := by simp [tailsOf]
    rw [hid, h1]
    simp
  · have h1 : tailsOf k [["_id"]] = [] := by simp [tailsOf, e]
    rw [h1]
    simp [e]

theorem incl_congr {A B : List Path} (h : ∀ k, tailsOf k A = tailsOf k B) :
    ∀ fs : Fields, inclFields fs A = inclFields fs B
  | [] => by simp [inclFields]
  | (k, v) :: r => by simp only [inclFields, h k, incl_congr h r]

theorem excl_congr {A B : List Path} (h : ∀ k, tailsOf k A = tailsOf k B) :
    ∀ fs : Fields, exclFields fs A = exclFields fs B
  | [] => by simp [exclFields]
  | (k, v) :: r => by simp only [exclFields, h k, excl_congr h r]

/-! ### the stage -/

theorem dget_of_mem_nodup {k : String} {v : Val} : ∀ {l : Fields}, (dkeys l).Nodup → (k, v) ∈ l →
    dget k l = some v
  | [], _, h => by simp at h
  | (k', v') :: r, hn, h => by
    simp only [dkeys, List.map_cons, List.nodup_cons] at hn
    rcases List.mem_cons.mp h with e | h
    · cases e; simp [dget]
    · have : k' ≠ k := by
        intro e; subst e
        exact hn.1 (List.mem_map.mpr ⟨(k', v), h, rfl⟩)
      simp [dget, this, dget_of_mem_nodup (l := r) hn.2 h]

theorem anyIncl_of_mem : ∀ {l : Fields} {kv : String × Val}, kv ∈ l →
    (kv.1 ≠ "_id" ∨ kv.2.truthy = true) → anyIncl l = true
  | (k, v) :: r, kv, h, hc => by
    rcases List.mem_cons.mp h with e | h
    · subst e
      rcases hc with hc | hc <;> simp_all [anyIncl]
    · simp [anyIncl, anyIncl_of_mem h hc]

theorem noColl_snoc_id {ps : List Path} (h : NoColl ps) (hid : tailsOf "_id" ps = [])
    (hne : ∀ p ∈ ps, p ≠ []) : NoColl (ps ++ [["_id"]]) := by
  unfold NoColl at *
  rw [List.pairwise_append]
  refine ⟨h, by simp, ?_⟩
  intro p hp q hq
  simp only [List.mem_singleton] at hq
  subst hq
  have hhead : ∀ t, p ≠ "_id" :: t := by
    intro t e
    subst e
    have : t ∈ tailsOf "_id" ps := mem_tailsOf.mpr hp
    simp [hid] at this
  constructor
  · intro hpre
    obtain ⟨t, ht⟩ := hpre
    cases p with
    | nil => exact hne [] hp rfl
    | cons a r =>
      simp only [List.cons_append, List.cons.injEq] at ht
      exact hhead r (by rw [ht.1])
  · intro hpre
    obtain ⟨t, ht⟩ := hpre
    cases p with
    | nil => exact hne [] hp rfl
    | cons a r =>
      simp only [List.cons_append, List.cons.injEq] at ht
      exact hhead r (by rw [← ht.1])

theorem splitDots_id : splitDots "_id" = ["_id"] := by decide

/-- building the tree from the filter list and projecting one document -/
theorem agg_run (fs : Fields) (fl : List String) (b : Bool) (ps : List Path)
    (hfl : fl.map splitDots = ps) (hnc : NoColl ps) :
    (do let cs ← combineSpec true (fl.map (fun k => (splitDots k, Val.int 1)))
        [Val.doc fs].mapM (aggProjectDoc cs b)) =
      .ok [.doc (if b = true then inclFields fs ps else exclFields fs ps)] := by
  have hpaths : (fl.map (fun k => (splitDots k, Val.int 1))).map (·.1) = ps := by
    rw [← hfl]; simp [List.map_map, Function.comp_def]
  obtain ⟨cs, hcs, hrep⟩ := combine_rep true (maxLen (fl.map (fun k => (splitDots k, Val.int 1))))
    (fl.map (fun k => (splitDots k, Val.int 1))) (Nat.le_refl _)
    (by
      intro it hit
      obtain ⟨k, _, e⟩ := List.mem_map.mp hit
      subst e; exact splitDots_ne_nil _)
    (by rw [hpaths]; exact hnc)
  rw [hpaths] at hrep
  simp only [combineSpec, hcs, bind, Except.bind, List.mapM_cons, List.mapM_nil, aggProjectDoc,
    pure, Except.pure]
  cases b
  · rw [apFields_excl fs cs ps hrep]; rfl
  · rw [apFields_incl fs cs ps hrep]; rfl

/-- **the `$project` stage on its domain is the rule** -/
theorem agg_exact (p d : Val) (h : aggReasons p d = []) :
    ∃ s, project p d = some s ∧ aggProject [d] p = .ok [s] := by
  unfold aggReasons at h
  split at h
  · rename_i fs f r
    simp only [List.append_eq_nil_iff, ite_single_nil] at h
    obtain ⟨hk0, h⟩ := h
    have hk : (dkeys fs).Nodup := by
      have : nodupB (dkeys fs) = true := by simpa using hk0
      exact (nodupB_iff _).mp this
    -- the specification
    split at h
    · next hne => rw [h] at hne; simp at hne
    · next hne =>
      have hs : specReasons (f :: r) = [] := by simpa using hne
      split at h
      · cases h
      · next n hn =>
        have ok := specOk_of_reasons hs
        obtain ⟨idf, hreads, hkeep, hcase⟩ := normDict_some hn
        refine ⟨.doc (projectNorm n fs), by simp [project, hn], ?_⟩
        -- every value of the specification is a flag
        have hplainmem : ∀ kv ∈ (f :: r), kv.1 ≠ "_id" →
            kv ∈ (f :: r).filter (fun kv => kv.1 != "_id") := by
          intro kv hkv hne'
          exact List.mem_filter.mpr ⟨hkv, by simpa using hne'⟩
        have hidflag : ∀ kv ∈ (f :: r), kv.1 = "_id" → IdReads kv.2 idf := by
          intro kv hkv e
          obtain ⟨k, v⟩ := kv
          simp only at e; subst e
          have := dget_of_mem_nodup ok.nodup hkv
          simpa [this] using hreads
        have hnonid : ∀ kv ∈ (f :: r), kv.1 ≠ "_id" → flagOf kv.2 = some n.incl := by
          intro kv hkv hne'
          rcases hcase with ⟨hpl, _, _⟩ | ⟨_, _, hfl⟩
          · have := hplainmem kv hkv hne'
            rw [hpl] at this; simp at this
          · exact hfl kv (hplainmem kv hkv hne')
        have hidx' : ∀ kv ∈ (f :: r), kv.1 = "_id" → ∃ x, flagOf kv.2 = some x := by
          intro kv hkv e
          have := hidflag kv hkv e
          cases idf with
          | none => simp only [IdReads] at this; exact ⟨true, by rw [this]; rfl⟩
          | some x => exact ⟨x, this⟩
        have hall : (f :: r).all (fun kv => isFlag kv.2) = true := by
          simp only [List.all_eq_true]
          intro kv hkv
          by_cases e : kv.1 = "_id"
          · obtain ⟨x, hx⟩ := hidx' kv hkv e; exact isFlag_of_flagOf hx
          · exact isFlag_of_flagOf (hnonid kv hkv e)
        -- the scan
        have hscan : ∃ m, aggScan (f :: r) (aggInitMethod (f :: r)) [] =
            .ok (m, dkeys ((f :: r).filter (fun kv => kv.1 != "_id"))) ∧
            decide (m = PMethod.inc) = n.incl := by
          cases hb : n.incl with
          | true =>
            have hinit : aggInitMethod (f :: r) ≠ .exc :=
              aggInit_not_exc _ (fun kv hkv hne' => by
                have := hnonid kv hkv hne'
                rw [hb] at this
                exact flagOf_truthy this)
            have hsc := scan_incl (f :: r) (aggInitMethod (f :: r)) []
              (fun kv hkv hne' => by rw [← hb]; exact hnonid kv hkv hne') hidx' hinit
            have hany : anyIncl (f :: r) = true := by
              rcases hcase with ⟨hpl, hincl, _⟩ | ⟨hpl, _, _⟩
              · have e : f.1 = "_id" := by
                  apply Classical.byContradiction
                  intro e
                  have := hplainmem f (by simp) e
                  rw [hpl] at this; simp at this
                have hr := hidflag f (by simp) e
                refine anyIncl_of_mem (kv := f) (by simp) (Or.inr ?_)
                cases idf with
                | none => simp only [IdReads] at hr; rw [hr]; rfl
                | some x =>
                  simp only [IdReads] at hr
                  have : x = true := by
                    rw [hb] at hincl
                    cases x with
                    | true => rfl
                    | false => exact absurd hincl (by decide)
                  subst this; exact flagOf_truthy hr
              · obtain ⟨kv, hkv⟩ := List.exists_mem_of_ne_nil _ hpl
                have hm := List.mem_filter.mp hkv
                exact anyIncl_of_mem hm.1 (Or.inl (by simpa using hm.2))
            refine ⟨_, by simpa using hsc, ?_⟩
            simp [hany]
          | false =>
            have hnf : ∀ kv ∈ (f :: r), kv.1 ≠ "_id" → flagOf kv.2 = some false := by
              intro kv hkv e; rw [← hb]; exact hnonid kv hkv e
            rcases hcase with ⟨hpl, hincl, _⟩ | ⟨hpl, _, _⟩
            · -- only `_id`: its flag is false
              have hidf : idf = some false := by
                rw [hb] at hincl
                cases idf with
                | none => simp at hincl
                | some x => cases x <;> simp at hincl ⊢
              have hflags : ∀ kv ∈ (f :: r), flagOf kv.2 = some false := by
                intro kv hkv
                by_cases e : kv.1 = "_id"
                · have := hidflag kv hkv e; rw [hidf] at this; exact this
                · exact hnf kv hkv e
              have hninc : aggInitMethod (f :: r) ≠ .inc :=
                aggInit_not_inc _ (fun kv hkv e => flagOf_truthy (hnf kv hkv e))
              have hsc := scan_excl (f :: r) (aggInitMethod (f :: r)) [] hflags hninc
              refine ⟨_, by simpa using hsc, ?_⟩
              split <;> rfl
            · -- excluded fields: an exclusion from the start, whatever flag `_id` carries
              have hinit : aggInitMethod (f :: r) = .exc :=
                aggInit_exc _ (fun kv hkv e => flagOf_truthy (hnf kv hkv e)) hpl
              have hsc := scan_excl_id (f :: r) [] hnf hidx'
              rw [hinit]
              exact ⟨.exc, by simpa using hsc, rfl⟩
        obtain ⟨m, hscan, hm⟩ := hscan
        have hidinc : (!(pyEq ((dget "_id" (f :: r)).getD (.int 1)) (.int 0))) =
            (idf != some false) := by rw [idReads_zero hreads]; simp
        -- the filter list and its tree
        have hid := ok.noIdPath
        have hpathsne : ∀ p ∈ ((f :: r).filter (fun kv => kv.1 != "_id")).map
            (fun kv => splitDots kv.1), p ≠ [] := by
          intro p hp
          obtain ⟨kv, _, e⟩ := List.mem_map.mp hp
          subst e; exact splitDots_ne_nil _
        have hpaths : n.paths = ((f :: r).filter (fun kv => kv.1 != "_id")).map
            (fun kv => splitDots kv.1) := by
          rcases hcase with ⟨hpl, _, hp⟩ | ⟨_, hp, _⟩
          · rw [hp, hpl]; rfl
          · exact hp
        have hnc := noCollision_noColl _ ok.noColl
        have hfilter : aggFilterList (f :: r) = .ok (m,
            if (n.incl == (idf != some false)) = true
            then dkeys ((f :: r).filter (fun kv => kv.1 != "_id")) ++ ["_id"]
            else dkeys ((f :: r).filter (fun kv => kv.1 != "_id"))) := by
          simp only [aggFilterList, hscan, bind, Except.bind, pure, Except.pure, hidinc, hm]
        simp only [aggProject, hall, Bool.not_true, Bool.false_eq_true, if_false, hfilter, bind,
          Except.bind]
        by_cases heq : (n.incl == (idf != some false)) = true
        · simp only [heq, if_true]
          have hne' : (dkeys ((f :: r).filter (fun kv => kv.1 != "_id")) ++ ["_id"]).isEmpty
              = false := by simp
          rw [hne']
          simp only [Bool.false_eq_true, if_false, hm]
          have hkeep' : n.keepId = n.incl := by rw [hkeep]; simpa using (beq_iff_eq.mp heq).symm
          have := agg_run fs (dkeys ((f :: r).filter (fun kv => kv.1 != "_id")) ++ ["_id"]) n.incl
            (((f :: r).filter (fun kv => kv.1 != "_id")).map (fun kv => splitDots kv.1)
              ++ [["_id"]])
            (by simp [dkeys, List.map_map, Function.comp_def, splitDots_id])
            (noColl_snoc_id hnc hid hpathsne)
          simp only [bind, Except.bind] at this
          rw [this]
          simp only [projectNorm, hpaths, hkeep']
          rw [incl_congr (tailsOf_snoc_id hid), excl_congr (tailsOf_snoc_id hid)]
          cases n.incl <;> simp
        · simp only [heq, Bool.false_eq_true, if_false]
          have hplne : (f :: r).filter (fun kv => kv.1 != "_id") ≠ [] := by
            rcases hcase with ⟨_, hincl, _⟩ | ⟨hpl, _, _⟩
            · exfalso; apply heq; rw [hincl]; simp
            · exact hpl
          have hne' : (dkeys ((f :: r).filter (fun kv => kv.1 != "_id"))).isEmpty = false := by
            simp [dkeys, hplne]
          rw [hne']
          simp only [Bool.false_eq_true, if_false, hm]
          have hkeep' : n.keepId = !n.incl := by
            rw [hkeep]
            cases hb : n.incl <;> cases hk' : (idf != some false) <;> simp_all
          have := agg_run fs (dkeys ((f :: r).filter (fun kv => kv.1 != "_id"))) n.incl
            (((f :: r).filter (fun kv => kv.1 != "_id")).map (fun kv => splitDots kv.1))
            (by simp [dkeys, List.map_map, Function.comp_def]) hnc
          simp only [bind, Except.bind] at this
          rw [this]
          simp only [projectNorm, hpaths, hkeep']
          cases n.incl <;> simp
  · cases h

/-- **find_eq_agg**: the two separately coded projections agree on the common domain (the find
    path lists `_id` last in an inclusion) -/
theorem find_eq_agg (p d : Val) (hD : reasons p d = []) (hA : aggReasons p d = []) :
    ∃ a, aggProject [d] p = .ok [a] ∧
      copyOnlyFields d p = .ok (if modeOf p = some true then idLast a else a) := by
  obtain ⟨s, h1, h2⟩ := exact_main p d hD
  obtain ⟨s', h1', h2'⟩ := agg_exact p d hA
  rw [h1] at h1'; cases h1'
  exact ⟨s, h2', h2⟩

end MongoModel.Proofs.C12
