/-
  Proofs.C04Spec12 — `eval_eq_spec`: the operator cases and the induction.
-/
import Proofs.C04Spec11

set_option linter.unusedSimpArgs false
set_option linter.unnecessarySeqFocus false

namespace MongoModel.Proofs.C04
open MongoModel MongoModel.Expr MongoModel.Spec

theorem append_nil2 {α} {a b : List α} (h : a ++ b = []) : a = [] ∧ b = [] :=
  List.append_eq_nil_iff.mp h

theorem unproved_nil (k : String) (h : unproved k = []) : provedStrict.contains k = true := by
  unfold unproved at h
  cases h' : provedStrict.contains k with
  | true => rfl
  | false =>
    have : ¬ k ∈ provedStrict := by simpa using h'
    simp [this] at h

theorem singleton_if_nil {α} (c : Bool) (x : α) (h : (if c = true then [x] else []) = []) :
    c = false := by cases c <;> simp_all

/-- `{$op: [operands]}` -/
theorem op_list_case (c : Ctx) (root : Val) (env : Env) (hr : EnvRel c root env) (k : String)
    (xs : List Val) (hsub : AllSubList Agrees xs)
    (hre : rOperator root env [(k, .arr xs)] = [])
    (hok : okReasons (sOperator root env [(k, .arr xs)]) = []) :
    eval c (.doc [(k, .arr xs)]) = sOperator root env [(k, .arr xs)] := by
  obtain ⟨res, hres⟩ := okReasons_nil _ hok
  rw [hres]
  simp only [rOperator] at hre
  simp only [sOperator] at hres
  by_cases hlit : k = "$literal"
  · subst hlit
    simp at hres
    rw [literal_id, ← hres]
  · simp only [hlit, if_false] at hre hres
    by_cases hst : strictOps.contains k = true
    · simp only [hst, if_true] at hre hres
      obtain ⟨h12, h34⟩ := append_nil2 hre
      obtain ⟨h12, h3⟩ := append_nil2 h12
      obtain ⟨hunp, hlist⟩ := append_nil2 h12
      obtain ⟨vs, hv1, hv2⟩ := list_agree c root env hr xs hsub hlist
      have hsl := sList_ok root env xs vs hv1
      simp only [hsl] at h34 hres
      have hres' : applyStrict k vs = .ok res := by simpa [bind, Except.bind] using hres
      cases hu : unaryOps.contains k with
      | false => exact list_strict c hr.hign k (unproved_nil k hunp) hu xs vs hv2 h34 res hres'
      | true =>
        have htz : xs.any hasTzKeys = false := by
          have := singleton_if_nil _ _ h3
          rw [hu] at this
          simpa using this
        exact unary_list_strict c hr.hign k hu xs vs hv2 htz h34 res hres'
    · have hst' : strictOps.contains k = false := by simpa using hst
      simp only [hst', Bool.false_eq_true, if_false] at hre hres
      by_cases hand : k = "$and"
      · subst hand
        simp at hre hres
        obtain ⟨vs, hv1, hv2⟩ := list_agree c root env hr xs hsub hre.2
        rw [and_spec c xs vs hv2]
        rw [sAnd_ok root env xs vs hv1] at hres
        simpa [bind, Except.bind, pure, Except.pure] using hres
      · by_cases hor : k = "$or"
        · subst hor
          simp at hre hres
          obtain ⟨vs, hv1, hv2⟩ := list_agree c root env hr xs hsub hre
          rw [or_spec c xs vs hv2]
          rw [sOr_ok root env xs vs hv1] at hres
          simpa [bind, Except.bind, pure, Except.pure] using hres
        · by_cases hcond : k = "$cond"
          · subst hcond
            simp at hre hres
            obtain ⟨vs, hv1, hv2⟩ := list_agree c root env hr xs hsub hre
            match xs, hsub, hre, hv1, hv2, hres with
            | [a, b, d], hsub, hre, hv1, hv2, hres =>
              obtain ⟨va, vb, vd, hvs⟩ : ∃ va vb vd, vs = [va, vb, vd] := by
                match vs, hv1 with
                | [va, vb, vd], _ => exact ⟨va, vb, vd, rfl⟩
                | [], h => simp at h
                | [_], h => simp at h
                | [_, _], h => simp at h
                | _ :: _ :: _ :: _ :: _, h => simp at h
              subst hvs
              simp only [List.map_cons, List.map_nil, List.cons.injEq, and_true] at hv1 hv2
              rw [cond_list, hv2.1]
              simp only [sCond3, hv1.1, bind, Except.bind] at hres
              simp only [Except.bind]
              cases ht : Spec.toBool va
              · simp [ht] at hres ⊢; rw [hv2.2.2, ← hv1.2.2, hres]
              · simp [ht] at hres ⊢; rw [hv2.2.1, ← hv1.2.1, hres]
            | [], _, _, _, _, hres => simp [sCond3] at hres
            | [_], _, _, _, _, hres => simp [sCond3] at hres
            | [_, _], _, _, _, _, hres => simp [sCond3] at hres
            | _ :: _ :: _ :: _ :: _, _, _, _, _, hres => simp [sCond3] at hres
          · by_cases hifn : k = "$ifNull"
            · subst hifn
              simp at hre hres
              obtain ⟨vs, hv1, hv2⟩ := list_agree c root env hr xs hsub hre
              have hlen : ¬ xs.length < 2 := by
                intro hl
                simp [hl] at hres
              simp only [hlen, if_false] at hres
              rw [ifNull_list c xs (by omega), ifNull_agree c root env xs vs hv1 hv2 (by
                intro e; subst e; simp at hlen), hres]
            · exfalso
              simp [hand, hor, hcond, hifn] at hre

end MongoModel.Proofs.C04
