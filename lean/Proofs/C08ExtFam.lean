/-
  Proofs.C08ExtFam — a find_one_and_* that raises: the collection is "near" the one it started
  from, unless the write went through and the read-back of the AFTER document raised.
-/
import Spec.FailExt
import Proofs.C08Step

namespace MongoModel.Proofs.C08Lemmas
open MongoModel MongoModel.Spec

set_option linter.tactic.unusedName false

/-- `Untouched` is `Near` without a mark on the created flag -/
theorem untouched_near (now : Int) (c c' : Coll) (h : Untouched now c c') : Near now c c' := by
  obtain ⟨n, h | ⟨c1, h1, h⟩⟩ := h
  · exact ⟨false, by simp, .inl ⟨n, h⟩⟩
  · exact ⟨false, by simp, .inr ⟨n, c1, h1, h⟩⟩

/-- where existence is recorded (every reachable state) the mark changes nothing: `Near` is
    `Untouched` -/
theorem near_untouched (now : Int) (c c' : Coll) (hr : c.Recorded) (h : Near now c c') :
    Untouched now c c' := by
  rcases h.exact hr with ⟨n, h⟩ | ⟨n, c1, h1, h⟩
  · exact ⟨n, .inl h⟩
  · exact ⟨n, .inr ⟨c1, h1, h⟩⟩

theorem near_iter (now : Int) (c c1 : Coll) (f : Val) (ms : List Val)
    (h : iterDocuments now c f = .ok (c1, ms)) : Near now c c1 := by
  unfold iterDocuments at h
  cases h1 : expire now c with
  | error e => simp [h1, bind, Except.bind] at h
  | ok ca =>
    have n1 : Near now c ca := (Near.refl now c).expire h1
    have hi := expire_idem now c ca h1
    simp only [h1, hi, bind, Except.bind, pure, Except.pure] at h
    split at h
    · split at h
      · cases h
      · split at h
        · cases h
        · cases h; exact n1
    · split at h
      · cases h
      · cases h; exact n1

theorem near_findOne (now : Int) (c : Coll) (f proj : Val) (sort : Option SortSpec) :
    Near now c (findOneColl now c f proj sort).1 := by
  unfold findOneColl
  dsimp only
  split
  · exact Near.refl _ _
  · rename_i c1 ms hi
    exact near_iter now c c1 _ ms hi

theorem near_of_findOne_eq {now : Int} {c c' : Coll} {f proj : Val} {sort : Option SortSpec}
    {r : R (Option Val)} (h : findOneColl now c f proj sort = (c', r)) : Near now c c' := by
  have := near_findOne now c f proj sort
  rw [h] at this
  exact this

theorem fam_go_fail (cfg : Cfg) (now : Int) (c : Coll) (query proj : Val) (update : Option Val)
    (upsert : Bool) (sort : Option SortSpec) (after : Bool) (c' : Coll) (e : Err)
    (h : findAndModify.go cfg now c query proj update upsert sort after = (c', .error e)) :
    Near now c c' ∨ (after = true ∧ findAndModify.projOk proj = .ok () ∧ ∃ c3 v,
      findAndModify.go cfg now c query proj update upsert sort false = (c3, .ok v) ∧
      Near now c3 c') := by
  unfold findAndModify.go at h ⊢
  cases hf : findOneColl now c query .null sort with
  | mk c1 r1 =>
    have n1 : Near now c c1 := near_of_findOne_eq hf
    rw [hf] at h
    cases r1 with
    | error e1 => simp only at h; cases h; exact .inl n1
    | ok o =>
      cases o with
      | none =>
        simp only at h ⊢
        cases upsert with
        | false => simp at h
        | true =>
          simp only [Bool.not_true, Bool.false_eq_true, if_false] at h ⊢
          cases update with
          | none => simp at h
          | some u =>
            simp only at h ⊢
            cases hpo : findAndModify.projOk proj with
            | error ep => rw [hpo] at h; simp only at h; cases h; exact .inl n1
            | ok uu =>
            cases uu
            rw [hpo] at h
            simp only at h ⊢
            cases ha : applyUpdateColl cfg now c1 query u true false with
            | mk c2 r =>
              rw [ha] at h
              cases r with
              | error e2 =>
                simp only [Prod.mk.injEq, Except.error.injEq] at h
                obtain ⟨rfl, rfl⟩ := h
                exact .inl (n1.trans (near_applyUpdate cfg now c1 _ query u true _ ha))
              | ok res =>
                simp only at h ⊢
                cases after with
                | false => simp at h
                | true =>
                  simp only [if_true] at h
                  exact .inr ⟨rfl, trivial, c2, none, rfl, near_of_findOne_eq h⟩
      | some target =>
        simp -zeta only at h ⊢
        extract_lets idv q at h ⊢
        clear_value q
        clear idv
        cases hg : findOneColl now c1 q proj none with
        | mk c2 r2 =>
          have n2 : Near now c c2 := n1.trans (near_of_findOne_eq hg)
          rw [hg] at h
          cases r2 with
          | error e2 => simp only at h; cases h; exact .inl n2
          | ok old =>
            simp only at h ⊢
            cases update with
            | none =>
              simp only at h
              cases hd : deleteColl now c2 q false with
              | mk c3 r =>
                rw [hd] at h
                cases r with
                | ok n => simp at h
                | error e3 =>
                  simp only [Prod.mk.injEq, Except.error.injEq] at h
                  obtain ⟨rfl, rfl⟩ := h
                  have := near_delete now c2 _ _ false _ hd
                  subst this
                  exact .inl n2
            | some u =>
              simp only at h ⊢
              cases hpo : findAndModify.projOk proj with
              | error ep => rw [hpo] at h; simp only at h; cases h; exact .inl n2
              | ok uu =>
              cases uu
              rw [hpo] at h
              simp only at h ⊢
              cases ha : applyUpdateColl cfg now c2 q u upsert false with
              | mk c3 r =>
                rw [ha] at h
                cases r with
                | error e3 =>
                  simp only [Prod.mk.injEq, Except.error.injEq] at h
                  obtain ⟨rfl, rfl⟩ := h
                  exact .inl (n2.trans (near_applyUpdate cfg now c2 _ _ u upsert _ ha))
                | ok res =>
                  simp only at h ⊢
                  cases after with
                  | false => simp at h
                  | true =>
                    simp only [if_true] at h
                    exact .inr ⟨rfl, trivial, c3, old, rfl, near_of_findOne_eq h⟩

theorem fam_fail (cfg : Cfg) (now : Int) (c : Coll) (query proj : Val) (update : Option Val)
    (upsert : Bool) (sort : Option SortSpec) (after : Bool) (c' : Coll) (e : Err)
    (h : findAndModify cfg now c query proj update upsert sort after = (c', .error e)) :
    Near now c c' ∨ (after = true ∧ findAndModify.projOk proj = .ok () ∧ ∃ c3 v,
      findAndModify cfg now c query proj update upsert sort false = (c3, .ok v) ∧
      Near now c3 c') := by
  unfold findAndModify at h ⊢
  cases update with
  | none => exact fam_go_fail cfg now c query proj none upsert sort after c' e h
  | some u =>
    simp only at h ⊢
    split at h
    · rename_i ht
      simp only [ht]
      exact fam_go_fail cfg now c query proj (some u) upsert sort after c' e h
    · rename_i ht
      simp only [ht]
      split at h
      · cases h; exact .inl (Near.refl _ _)
      · rename_i hv
        exact fam_go_fail cfg now c query proj (some u) upsert sort after c' e h

/-! ### the step -/

/-- the body shared by the three find_one_and_* cases of `stepX` -/
def famStep (cfg : Cfg) (now : Int) (c : Coll) (query proj : Val) (update : Option Val)
    (sortV : Val) (upsert after : Bool) : Coll × Out :=
  match query with
  | .doc _ =>
    (match sortSpecOf sortV with
     | .error e => (c, .err e)
     | .ok sort =>
       let (c', r) := findAndModify cfg now c query proj update upsert sort after
       (c', match r with | .ok v => .val (optVal v) | .error e => .err e))
  | _ => (c, .err .typeErr)

theorem stepX_fau (cfg : Cfg) (now : Int) (c : Coll) (f u proj sortV up after : Val) :
    stepX cfg now c (.arr [.str "find_one_and_update", f, u, proj, sortV, up, after]) =
      match validateUpdate u with
      | .error e => (c, .err e)
      | .ok () => famStep cfg now c f proj (some u) sortV (boolOf up) (boolOf after) := rfl

theorem stepX_far (cfg : Cfg) (now : Int) (c : Coll) (f u proj sortV up after : Val) :
    stepX cfg now c (.arr [.str "find_one_and_replace", f, u, proj, sortV, up, after]) =
      match validateReplace u with
      | .error e => (c, .err e)
      | .ok () => famStep cfg now c f proj (some u) sortV (boolOf up) (boolOf after) := rfl

theorem stepX_fad (cfg : Cfg) (now : Int) (c : Coll) (f proj sortV : Val) :
    stepX cfg now c (.arr [.str "find_one_and_delete", f, proj, sortV]) =
      famStep cfg now c f proj none sortV false false := rfl

theorem famStep_fail (cfg : Cfg) (now : Int) (c : Coll) (query proj : Val) (update : Option Val)
    (sortV : Val) (upsert after : Bool)
    (h : (famStep cfg now c query proj update sortV upsert after).2.isErr = true) :
    Near now c (famStep cfg now c query proj update sortV upsert after).1 ∨
    (after = true ∧ findAndModify.projOk proj = .ok () ∧
      (famStep cfg now c query proj update sortV upsert false).2.isErr = false ∧
      Near now (famStep cfg now c query proj update sortV upsert false).1
        (famStep cfg now c query proj update sortV upsert after).1) := by
  unfold famStep at h ⊢
  split
  · rename_i fs
    split
    · exact .inl (Near.refl _ _)
    · rename_i sort hs
      simp only [hs] at h
      cases hf : findAndModify cfg now c (.doc fs) proj update upsert sort after with
      | mk c' r =>
        rw [hf] at h
        cases r with
        | ok v => simp [Out.isErr] at h
        | error e =>
          rcases fam_fail cfg now c (.doc fs) proj update upsert sort after c' e hf with
            hn | ⟨ha, hpo, c3, v, h3, hn⟩
          · exact .inl hn
          · refine .inr ⟨ha, hpo, ?_, ?_⟩
            · rw [h3]; rfl
            · rw [h3]; exact hn
  · exact .inl (Near.refl _ _)

/-- `find_one_and_update` / `_replace`: the operator names are checked before the target is
    looked for -/
theorem fam_precheck_before_lookup (cfg : Cfg) (now : Int) (c : Coll) (query proj : Val)
    (ufs : Fields) (upsert : Bool) (sort : Option SortSpec) (after : Bool) (e : Err)
    (hne : ufs ≠ []) (h : validateUpdateOperators ufs = .error e) :
    findAndModify cfg now c query proj (some (.doc ufs)) upsert sort after = (c, .error e) := by
  unfold findAndModify
  have ht : (Val.doc ufs).truthy = true := by
    cases ufs with
    | nil => exact absurd rfl hne
    | cons x xs => rfl
  simp only [ht, Bool.not_true, Bool.false_eq_true, if_false, h]

end MongoModel.Proofs.C08Lemmas
