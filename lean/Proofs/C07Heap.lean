/-
  Proofs.C07Heap — counting identities: the induction principle of `HVal`, multiplicity of an
  identity in values / child lists / lists of values, the indicator of a range of fresh
  identities, and what each copy primitive does to multiplicities.
-/
import MongoModel.Heap

set_option linter.unusedSimpArgs false
set_option linter.unusedVariables false

namespace MongoModel.Proofs.C07
open MongoModel MongoModel.Heap

/-! ### induction on heap values -/

theorem HVal.ind2 {P : HVal → Prop} {Q : Kids → Prop}
    (hatom : ∀ v, P (.atom v)) (hnode : ∀ id d kids, Q kids → P (.node id d kids))
    (hnil : Q []) (hcons : ∀ k v r, P v → Q r → Q ((k, v) :: r)) :
    (∀ v, P v) ∧ (∀ kids, Q kids) := by
  have hv : ∀ v, P v := fun v =>
    HVal.rec (motive_1 := P) (motive_2 := Q) (motive_3 := fun p => P p.2)
      hatom hnode hnil (fun hd tl h1 h2 => by obtain ⟨k, v⟩ := hd; exact hcons k v tl h1 h2)
      (fun _ _ h => h) v
  refine ⟨hv, ?_⟩
  intro kids
  induction kids with
  | nil => exact hnil
  | cons kv r ih => obtain ⟨k, v⟩ := kv; exact hcons k v r (hv v) ih

theorem Tpl.ind2 {P : Tpl → Prop} {Q : List (String × Tpl) → Prop}
    (hatom : ∀ v, P (.atom v)) (hpiece : ∀ pos src, P (.piece pos src))
    (hnode : ∀ d kids, Q kids → P (.node d kids))
    (hnil : Q []) (hcons : ∀ k t r, P t → Q r → Q ((k, t) :: r)) :
    (∀ t, P t) ∧ (∀ kids, Q kids) := by
  have hv : ∀ t, P t := fun t =>
    Tpl.rec (motive_1 := P) (motive_2 := Q) (motive_3 := fun p => P p.2)
      hatom hpiece hnode hnil (fun hd tl h1 h2 => by obtain ⟨k, v⟩ := hd; exact hcons k v tl h1 h2)
      (fun _ _ h => h) t
  refine ⟨hv, ?_⟩
  intro kids
  induction kids with
  | nil => exact hnil
  | cons kv r ih => obtain ⟨k, v⟩ := kv; exact hcons k v r (hv v) ih

/-! ### multiplicities -/

/-- how often identity `a` occurs in a value / a child list / a list of values -/
def cnt (a : Nat) (v : HVal) : Nat := v.ids.count a
def cntK (a : Nat) (k : Kids) : Nat := (idsKids k).count a
def cntL (a : Nat) (l : List HVal) : Nat := (idsL l).count a

/-- indicator of the range `[lo, hi)` -/
def ind (lo hi a : Nat) : Nat := if lo ≤ a ∧ a < hi then 1 else 0

@[simp] theorem cnt_atom (a : Nat) (v : Val) : cnt a (.atom v) = 0 := by simp [cnt, HVal.ids]

theorem cnt_node (a id : Nat) (d : Bool) (kids : Kids) :
    cnt a (.node id d kids) = (if id = a then 1 else 0) + cntK a kids := by
  simp [cnt, cntK, HVal.ids, List.count_cons]; omega

@[simp] theorem cntK_nil (a : Nat) : cntK a [] = 0 := by simp [cntK, idsKids]

@[simp] theorem cntK_cons (a : Nat) (k : String) (v : HVal) (r : Kids) :
    cntK a ((k, v) :: r) = cnt a v + cntK a r := by
  simp [cntK, cnt, idsKids, List.count_append]

theorem cntK_cons' (a : Nat) (kv : String × HVal) (r : Kids) :
    cntK a (kv :: r) = cnt a kv.2 + cntK a r := by
  obtain ⟨k, v⟩ := kv; simp

theorem idsKids_append (k1 k2 : Kids) : idsKids (k1 ++ k2) = idsKids k1 ++ idsKids k2 := by
  induction k1 with
  | nil => simp [idsKids]
  | cons kv r ih => obtain ⟨k, v⟩ := kv; simp [idsKids, ih]

@[simp] theorem cntK_append (a : Nat) (k1 k2 : Kids) : cntK a (k1 ++ k2) = cntK a k1 + cntK a k2 := by
  simp [cntK, idsKids_append, List.count_append]

@[simp] theorem cntL_nil (a : Nat) : cntL a [] = 0 := by simp [cntL, idsL]

@[simp] theorem cntL_cons (a : Nat) (v : HVal) (r : List HVal) :
    cntL a (v :: r) = cnt a v + cntL a r := by
  simp [cntL, cnt, idsL, List.count_append]

theorem idsL_append (l1 l2 : List HVal) : idsL (l1 ++ l2) = idsL l1 ++ idsL l2 := by
  induction l1 with
  | nil => simp [idsL]
  | cons v r ih => simp [idsL, ih]

@[simp] theorem cntL_append (a : Nat) (l1 l2 : List HVal) :
    cntL a (l1 ++ l2) = cntL a l1 + cntL a l2 := by
  simp [cntL, idsL_append, List.count_append]

theorem mem_ids_iff (a : Nat) (v : HVal) : a ∈ v.ids ↔ 0 < cnt a v := by
  simp [cnt, List.count_pos_iff]

theorem mem_idsL_iff (a : Nat) (l : List HVal) : a ∈ idsL l ↔ 0 < cntL a l := by
  simp [cntL, List.count_pos_iff]

theorem mem_idsKids_iff (a : Nat) (k : Kids) : a ∈ idsKids k ↔ 0 < cntK a k := by
  simp [cntK, List.count_pos_iff]

/-! ### the indicator -/

theorem ind_le_one (lo hi a : Nat) : ind lo hi a ≤ 1 := by unfold ind; split <;> omega

theorem ind_pos {lo hi a : Nat} (h : 0 < ind lo hi a) : lo ≤ a ∧ a < hi := by
  unfold ind at h; split at h
  · assumption
  · omega

@[simp] theorem ind_self (n a : Nat) : ind n n a = 0 := by unfold ind; split <;> omega

theorem ind_of_lt {lo hi a : Nat} (h : a < lo) : ind lo hi a = 0 := by
  unfold ind; split <;> omega

theorem ind_of_ge {lo hi a : Nat} (h : hi ≤ a) : ind lo hi a = 0 := by
  unfold ind; split <;> omega

theorem ind_split {lo m hi : Nat} (a : Nat) (h1 : lo ≤ m) (h2 : m ≤ hi) :
    ind lo m a + ind m hi a = ind lo hi a := by
  unfold ind; split <;> split <;> split <;> omega

theorem ind_mono {lo hi lo' hi' : Nat} (a : Nat) (h1 : lo' ≤ lo) (h2 : hi ≤ hi') :
    ind lo hi a ≤ ind lo' hi' a := by
  unfold ind; split <;> split <;> omega

theorem ind_single (n a : Nat) : (if n = a then 1 else 0) = ind n (n + 1) a := by
  unfold ind; split <;> split <;> omega

/-! ### `rebuild` (= `copyField` = `deepcopy`) -/

theorem rebuild_spec :
    (∀ v n, n ≤ (rebuild v n).2 ∧ (∀ a, cnt a (rebuild v n).1 = ind n (rebuild v n).2 a) ∧
        (rebuild v n).1.erase = v.erase) ∧
    (∀ k n, n ≤ (rebuildKids k n).2 ∧ (∀ a, cntK a (rebuildKids k n).1 = ind n (rebuildKids k n).2 a) ∧
        eraseKids (rebuildKids k n).1 = eraseKids k) := by
  apply HVal.ind2
  · intro v n
    refine ⟨by simp [rebuild], ?_, by simp [rebuild]⟩
    intro a; simp [rebuild]
  · intro id d kids ih n
    obtain ⟨h1, h2, h3⟩ := ih (n + 1)
    refine ⟨by simp [rebuild]; omega, ?_, by simp [rebuild, HVal.erase, h3]⟩
    intro a
    simp only [rebuild, cnt_node, h2 a, ind_single]
    exact ind_split a (by omega) h1
  · intro n
    refine ⟨by simp [rebuildKids], ?_, by simp [rebuildKids]⟩
    intro a; simp [rebuildKids]
  · intro k v r ihv ihr n
    obtain ⟨h1, h2, h3⟩ := ihv n
    obtain ⟨g1, g2, g3⟩ := ihr (rebuild v n).2
    refine ⟨by simp [rebuildKids]; omega, ?_, by simp [rebuildKids, eraseKids, h3, g3]⟩
    intro a
    simp only [rebuildKids, cntK_cons, h2 a, g2 a]
    exact ind_split a h1 g1

/-! ### every primitive: counter grows, value kept, identities conserved -/

theorem shallow_mono (v : HVal) (n : Nat) : n ≤ (shallow v n).2 := by
  cases v <;> simp [shallow]

theorem run_mono (p : Prim) (v : HVal) (n : Nat) : n ≤ (p.run v n).2 := by
  cases p <;> simp [Prim.run, copyField, deepcopy, noCopy]
  · exact (rebuild_spec.1 v n).1
  · exact (rebuild_spec.1 v n).1
  · exact (rebuild_spec.1 v n).1
  · exact shallow_mono v n

theorem run_erase (p : Prim) (v : HVal) (n : Nat) : (p.run v n).1.erase = v.erase := by
  cases p <;> simp [Prim.run, copyField, deepcopy, noCopy]
  · exact (rebuild_spec.1 v n).2.2
  · exact (rebuild_spec.1 v n).2.2
  · exact (rebuild_spec.1 v n).2.2
  · cases v <;> simp [shallow, HVal.erase]

theorem run_atom (p : Prim) (x : Val) (n : Nat) : p.run (.atom x) n = (.atom x, n) := by
  cases p <;> simp [Prim.run, copyField, deepcopy, noCopy, rebuild, shallow]

/-- a deep primitive returns fresh identities only, each once -/
theorem run_deep (p : Prim) (hp : p.deep = true) (v : HVal) (n : Nat) (a : Nat) :
    cnt a (p.run v n).1 = ind n (p.run v n).2 a := by
  cases p <;> simp [Prim.deep] at hp <;> simp [Prim.run, copyField, deepcopy] <;>
    exact (rebuild_spec.1 v n).2.1 a

/-- no primitive multiplies an identity of its input; what it adds is fresh -/
theorem run_sub (p : Prim) (v : HVal) (n : Nat) (a : Nat) :
    cnt a (p.run v n).1 ≤ cnt a v + ind n (p.run v n).2 a := by
  cases p
  · rw [run_deep _ (by rfl)]; omega
  · rw [run_deep _ (by rfl)]; omega
  · rw [run_deep _ (by rfl)]; omega
  · cases v with
    | atom x => simp [Prim.run, shallow]
    | node id d kids =>
      simp only [Prim.run, shallow, cnt_node, ind_single]
      omega
  · simp [Prim.run, noCopy]

/-! ### chains -/

theorem chain_mono (c : List Prim) : ∀ (v : HVal) (n : Nat), n ≤ (runChain c v n).2 := by
  induction c with
  | nil => intro v n; simp [runChain]
  | cons p c ih =>
    intro v n; simp only [runChain]
    exact Nat.le_trans (run_mono p v n) (ih _ _)

theorem chain_erase (c : List Prim) : ∀ (v : HVal) (n : Nat), (runChain c v n).1.erase = v.erase := by
  induction c with
  | nil => intro v n; simp [runChain]
  | cons p c ih => intro v n; simp only [runChain]; rw [ih, run_erase]

theorem chain_atom (c : List Prim) : ∀ (x : Val) (n : Nat), runChain c (.atom x) n = (.atom x, n) := by
  induction c with
  | nil => intro x n; simp [runChain]
  | cons p c ih => intro x n; simp only [runChain, run_atom, ih]

theorem chain_sub (c : List Prim) : ∀ (v : HVal) (n : Nat) (a : Nat),
    cnt a (runChain c v n).1 ≤ cnt a v + ind n (runChain c v n).2 a := by
  induction c with
  | nil => intro v n a; simp [runChain]
  | cons p c ih =>
    intro v n a
    simp only [runChain]
    have h1 := ih (p.run v n).1 (p.run v n).2 a
    have h2 := run_sub p v n a
    have h3 := ind_split a (run_mono p v n) (chain_mono c (p.run v n).1 (p.run v n).2)
    omega

/-- a chain with a deep primitive in it returns fresh identities only, each at most once -/
theorem chain_deep (c : List Prim) : ∀ (hc : chainDeep c = true) (v : HVal) (n : Nat) (a : Nat),
    cnt a (runChain c v n).1 ≤ ind n (runChain c v n).2 a := by
  induction c with
  | nil => intro hc; simp [chainDeep] at hc
  | cons p c ih =>
    intro hc v n a
    simp only [runChain]
    have hm1 := run_mono p v n
    have hm2 := chain_mono c (p.run v n).1 (p.run v n).2
    by_cases hp : p.deep = true
    · have h1 := chain_sub c (p.run v n).1 (p.run v n).2 a
      have h2 := run_deep p hp v n a
      have h3 := ind_split a hm1 hm2
      omega
    · have hc' : chainDeep c = true := by
        simp [chainDeep, List.any_cons] at hc
        rcases hc with h | h
        · exact absurd h hp
        · simpa [chainDeep] using h
      have h1 := ih hc' (p.run v n).1 (p.run v n).2 a
      have h2 := ind_mono (lo := (p.run v n).2) (hi := (runChain c (p.run v n).1 (p.run v n).2).2)
        (lo' := n) (hi' := (runChain c (p.run v n).1 (p.run v n).2).2) a hm1 (Nat.le_refl _)
      omega

end MongoModel.Proofs.C07
