/-
  Proofs.C10ExtLazy — `update_one` evaluates the filter lazily (known finding `lazy-raise`): its
  target is the first document the matcher accepts, and nothing after it is looked at.
-/
import Spec.CountsExt
import Proofs.C10
import Proofs.C05

namespace MongoModel.Proofs.C10Ext
open MongoModel MongoModel.Spec
open MongoModel.Proofs.C10Lemmas MongoModel.Proofs.C09Lemmas

theorem select_cons_false (spec : Val) (p : Val × Val) (l more : List (Val × Val))
    (hb : filterApplies spec p.2 = .ok false) (hm : selectDocs spec l = .ok more) :
    selectDocs spec (p :: l) = .ok more := by
  simp only [selectDocs, hb, hm, bind, Except.bind, pure, Except.pure]
  rfl

theorem lazy_loop (now : Int) (spec document nowV : Val) (T : List Index) :
    ∀ (rest : List (Val × Val)) (c : Coll) (matched updated : Nat) (c' : Coll) (m' u' : Nat),
      DK rest → LInv now T rest c →
      updateLoop now spec document nowV false rest c matched updated = (c', .ok (m', u')) →
      (∃ pre q post, rest = pre ++ q :: post ∧ selectDocs spec pre = .ok [] ∧
        filterApplies spec q.2 = .ok true ∧ m' = matched + 1) ∨
      (selectDocs spec rest = .ok [] ∧ m' = matched) := by
  intro rest
  induction rest with
  | nil =>
    intro c matched updated c' m' u' _ _ h
    simp only [updateLoop, Prod.mk.injEq, Except.ok.injEq] at h
    exact .inr ⟨rfl, h.2.1.symm⟩
  | cons kv rest ih =>
    intro c matched updated c' m' u' hd hinv h
    have hl := hinv.lookup
    have hd' : DK rest := (List.pairwise_cons.1 hd).2
    obtain ⟨key, v⟩ := kv
    have hl' : c.lookup key = some v := hl
    rw [updateLoop, hl'] at h
    dsimp only at h
    cases hb : filterApplies spec v with
    | error e => rw [hb] at h; cases h
    | ok b =>
      rw [hb] at h
      cases b with
      | false =>
        dsimp only at h
        rcases ih c matched updated c' m' u' hd' hinv.tail h with
          ⟨pre, q, post, h1, h2, h3, h4⟩ | ⟨h1, h2⟩
        · exact .inl ⟨(key, v) :: pre, q, post, by rw [h1]; rfl,
            select_cons_false spec (key, v) pre [] hb h2, h3, h4⟩
        · exact .inr ⟨select_cons_false spec (key, v) rest [] hb h1, h2⟩
      | true =>
        left
        refine ⟨[], (key, v), rest, rfl, rfl, hb, ?_⟩
        dsimp only at h
        cases ha : applyUpdate spec document nowV false v with
        | error e => rw [ha] at h; cases h
        | ok new =>
          rw [ha] at h
          dsimp only at h
          by_cases hc : pyEq new v = true
          · rw [if_pos hc] at h
            cases hu : ensureUniques now (c.setDoc key new) new with
            | error e => rw [hu] at h; cases h
            | ok c2 =>
              rw [hu] at h
              simp only [Bool.false_eq_true, if_false, Prod.mk.injEq, Except.ok.injEq] at h
              exact h.2.1.symm
          · rw [if_neg hc] at h
            generalize (!pyEqOpt _ _) = q at h
            cases q with
            | true => cases h
            | false =>
              simp only [Bool.false_eq_true, if_false] at h
              cases hu : ensureUniques now (c.setDoc key new) new with
              | error e => rw [hu] at h; cases h
              | ok c2 =>
                rw [hu] at h
                simp only [Prod.mk.injEq, Except.ok.injEq] at h
                exact h.2.1.symm

/-- `update_one` (no upsert) that succeeds: its target is the first stored document the matcher
    accepts; the documents after it are not evaluated -/
theorem update_one_lazy (cfg : Cfg) (now : Int) (c c1 c' : Coll) (fs : Fields) (u : Val)
    (res : UpdateResult)
    (he : expire now c = .ok c1) (hne : c1.docs ≠ []) (hk : KeysDistinct c) (hg : GoodKeys c)
    (h : applyUpdateColl cfg now c (.doc fs) u false false = (c', .ok res)) :
    (∃ pre q post, c1.docs = pre ++ q :: post ∧ selectDocs (patchDT (.doc fs)) pre = .ok [] ∧
      filterApplies (patchDT (.doc fs)) q.2 = .ok true ∧ res.n = 1) ∨
    (selectDocs (patchDT (.doc fs)) c1.docs = .ok [] ∧ res.n = 0) := by
  unfold applyUpdateColl at h
  extract_lets spec document nowV at h
  have hspec : spec = .doc (patchFields fs) := patch_doc fs
  have hspec' : patchDT (.doc fs) = spec := rfl
  rw [hspec']
  clear_value spec document nowV
  subst hspec
  rw [MongoModel.Proofs.C10.pre_eq now c c1 _ he hne] at h
  split at h
  · rename_i _ _ ss dfs hss
    split at h
    · cases h
    · dsimp only at h
      generalize hloop : updateLoop now (Val.doc (patchFields fs)) (Val.doc dfs) nowV false
        c1.docs c1 0 0 = lr at h
      obtain ⟨c3, r⟩ := lr
      dsimp only at h
      cases r with
      | error e => cases h
      | ok mu =>
        obtain ⟨matched, updated⟩ := mu
        simp only [Bool.not_false, Bool.true_or, if_true, Prod.mk.injEq, Except.ok.injEq] at h
        obtain ⟨_, rfl⟩ := h
        have hinv := MongoModel.Proofs.C10.linv_start now c c1 he hk hg
        rcases lazy_loop now _ (.doc dfs) nowV c1.ttlIndexes c1.docs c1 0 0 c3 matched updated
          hinv.dk hinv hloop with ⟨pre, q, post, h1, h2, h3, h4⟩ | ⟨h1, h2⟩
        · exact .inl ⟨pre, q, post, h1, h2, h3, by simpa using h4⟩
        · exact .inr ⟨h1, by simpa using h2⟩
  · cases h

/-! ### the natural statement is false: known finding `lazy-raise` -/

def cLazy : Coll :=
  { docs := [(.int 1, .doc [("_id", .int 1), ("c", .int 3)]),
             (.int 2, .doc [("_id", .int 2), ("c", .int 4)])] }

/-- `{$or: [{c: 3}, {c: {$in: 1}}]}`: the second branch raises, but only where the first fails -/
def fLazy : Fields := [("$or", .arr [.doc [("c", .int 3)], .doc [("c", .doc [("$in", .int 1)])]])]

theorem cLazy_inv : IdInv cLazy := by
  refine ⟨?_, ?_⟩
  · unfold KeysDistinct cLazy
    simp only [List.pairwise_cons, List.mem_cons, List.not_mem_nil, or_false, forall_eq,
      List.Pairwise.nil, and_true, false_imp_iff, implies_true]
    decide
  · intro p hp
    simp only [cLazy, List.mem_cons, List.not_mem_nil, or_false] at hp
    rcases hp with rfl | rfl
    · exact ⟨_, rfl, by decide⟩
    · exact ⟨_, rfl, by decide⟩

theorem cLazy_good : GoodKeys cLazy := fun p hp => by
  simp only [cLazy, List.mem_cons, List.not_mem_nil, or_false] at hp
  rcases hp with rfl | rfl
  · exact ⟨MongoModel.Proofs.C05.scalar_symm _ rfl, by decide⟩
  · exact ⟨MongoModel.Proofs.C05.scalar_symm _ rfl, by decide⟩

theorem update_one_selection_defined_false :
    ¬ (∀ (cfg : Cfg) (now : Int) (c c1 c' : Coll) (fs : Fields) (u : Val) (res : UpdateResult),
        expire now c = .ok c1 → c1.docs ≠ [] → IdInv c → GoodKeys c →
        applyUpdateColl cfg now c (.doc fs) u false false = (c', .ok res) →
        ∃ sel, selectDocs (patchDT (.doc fs)) c1.docs = .ok sel ∧ res.n = min sel.length 1) := by
  intro H
  have k1 : (match applyUpdateColl {} 0 cLazy (.doc fLazy) (.doc [("$set", .doc [("x", .int 1)])])
      false false with
      | (_, .ok _) => true
      | _ => false) = true := by decide +kernel
  have k2 : (match selectDocs (patchDT (.doc fLazy)) cLazy.docs with
      | .error _ => true
      | _ => false) = true := by decide +kernel
  generalize hx : applyUpdateColl {} 0 cLazy (.doc fLazy) (.doc [("$set", .doc [("x", .int 1)])])
    false false = x at k1
  obtain ⟨c', r⟩ := x
  cases r with
  | error e => simp at k1
  | ok res =>
    obtain ⟨sel, hs, _⟩ := H {} 0 cLazy cLazy c' fLazy _ res rfl (by simp [cLazy]) cLazy_inv
      cLazy_good hx
    rw [hs] at k2
    simp at k2

end MongoModel.Proofs.C10Ext
