/-
  Proofs.C17Hist — well-formedness of every reachable state, the abstraction function, and the
  refinement over whole histories.
-/
import Proofs.C17Refine

set_option linter.unusedSimpArgs false

namespace MongoModel.Proofs.C17
open MongoModel MongoModel.Catalog MongoModel.Spec.Catalog

/-! ### every step keeps the state well formed (no domain hypothesis) -/

theorem wfs_renameStep {sv : Server} (h : WFs sv) (d n n' : String) (dt : Bool) :
    WFs (Catalog.renameStep sv d n n' dt).1 := by
  have w1 : WFs (sv.setColl d n (sv.coll d n)) := wfs_setColl h _ _ _
  have w2 : WFs ((sv.setColl d n (sv.coll d n)).setColl d n'
      ((sv.setColl d n (sv.coll d n)).coll d n')) := wfs_setColl w1 _ _ _
  have w3 := wfs_setColl w2 d n' Coll.empty
  simp only [Catalog.renameStep]
  by_cases hv : validName n' = true
  swap
  · simp only [hv, Bool.not_false, if_true]; exact h
  simp only [hv, Bool.not_true, Bool.false_eq_true, if_false]
  split
  · exact h
  split
  · exact w1
  · split
    · cases dt with
      | true =>
        simp only [if_true]
        exact wfs_setDb w3 d (wfdb_renameIn (wfdb_db w3 d) n n')
      | false => simp only [Bool.false_eq_true, if_false]; exact w2
    · exact wfs_setDb w2 d (wfdb_renameIn (wfdb_db w2 d) n n')

theorem wf_setStore {w : World} (h : WF w) (i : Nat) {sv : Server} (hs : WFs sv)
    (hr : RecS sv) : WF (w.setStore i sv) := by
  refine ⟨?_, h.2.1, ?_⟩
  · intro j; simp only [World.setStore, upd_apply]; split
    · exact hs
    · exact h.1 j
  · intro j; simp only [World.setStore, upd_apply]; split
    · exact hr
    · exact h.2.2 j

theorem wf_addDbCache {w : World} (h : WF w) (c : Nat) (d : String) : WF (addDbCache w c d) := by
  unfold addDbCache; split <;> exact h

theorem wf_addCollCache {w : World} (h : WF w) (c : Nat) (d n : String) (hv : validName n = true) :
    WF (addCollCache w c d n) := by
  unfold addCollCache; split
  · exact h
  · refine ⟨h.1, ?_, h.2.2⟩
    intro c' d' n' hm
    simp only [upd2] at hm
    split at hm
    · rcases List.mem_append.mp hm with hm | hm
      · exact h.2.1 c d n' hm
      · simp at hm; rw [hm]; exact hv
    · exact h.2.1 c' d' n' hm

theorem wf_init : WF World.init := by
  refine ⟨fun _ => wfs_nil, ?_, fun _ => recS_nil⟩
  intro c d n hm; simp [World.init] at hm

theorem wf_dropDatabaseStep (σ : Nat → Nat) {w : World} (c : Nat) (d : String) (h : WF w) :
    WF (dropDatabaseStep σ w c d).1 := by
  simp only [dropDatabaseStep]
  have wx : WFs ((w.store (σ c)).touchDb d) := wfs_touchDb (h.1 _) d
  have rx : RecS ((w.store (σ c)).touchDb d) := recS_touchDb (h.2.2 _) d
  split
  · exact wf_addDbCache (wf_setStore h _ (wfs_setDb wx d (wfdb_dropAll (wfdb_db wx d)))
      (recS_dropAll rx d)) c d
  · exact wf_setStore h _ wx rx

theorem wf_step (σ : Nat → Nat) (w : World) (op : Op) (h : WF w) : WF (Catalog.step σ w op).1 := by
  cases op with
  | getDb c d =>
    simp only [Catalog.step]; split
    · exact h
    · exact wf_addDbCache (wf_setStore h _ (wfs_touchDb (h.1 _) d) (recS_touchDb (h.2.2 _) d)) c d
  | getColl hh n =>
    simp only [Catalog.step, unob]; split
    · exact h
    · split
      · exact h
      · split
        · exact h
        · rename_i hv; exact wf_addCollCache h _ _ _ (by simpa using hv)
  | coll hh o =>
    simp only [Catalog.step, unob]; split
    · exact h
    · exact wf_setStore h _ (wfs_setColl (h.1 _) _ _ _)
        (recS_setColl (h.2.2 _) _ _ (collOp_recorded o _ (h.2.2 _ _ _)))
  | collRename hh n' dt =>
    simp only [Catalog.step, unob]; split
    · exact h
    · exact wf_setStore h _ (wfs_renameStep (h.1 _) _ _ _ _) (recS_renameStep (h.2.2 _) _ _ _ _)
  | createCollection hh n =>
    simp only [Catalog.step, unob]; split
    · exact h
    · split
      · exact h
      · rename_i hv
        split
        · exact h
        · exact wf_addCollCache (wf_setStore h _ (wfs_setColl (h.1 _) _ _ _)
            (recS_setColl (h.2.2 _) _ _ (recorded_of_flag rfl))) _ _ _ (by simpa using hv)
  | dropCollection hh t =>
    cases t with
    | byName n =>
      simp only [Catalog.step, unob]; split
      · exact h
      · exact wf_setStore h _ (wfs_setColl (h.1 _) _ _ _)
          (recS_setColl (h.2.2 _) _ _ recorded_empty)
    | byHandle h' =>
      simp only [Catalog.step, unob]; split
      · exact h
      · exact wf_setStore h _ (wfs_setColl (h.1 _) _ _ _)
          (recS_setColl (h.2.2 _) _ _ recorded_empty)
  | renameCollection hh n n' dt =>
    simp only [Catalog.step, unob]; split
    · exact h
    · exact wf_setStore h _ (wfs_renameStep (h.1 _) _ _ _ _) (recS_renameStep (h.2.2 _) _ _ _ _)
  | listCollectionNames hh f =>
    cases f with
    | none => simp only [Catalog.step, unob]; split <;> exact h
    | some f =>
      simp only [Catalog.step, unob]; split
      · exact h
      · split <;> exact h
  | listDatabaseNames c => exact h
  | dropDatabase c t =>
    cases t with
    | byName d => simp only [Catalog.step]; exact wf_dropDatabaseStep σ c d h
    | byHandle hh =>
      simp only [Catalog.step, unob]
      split
      · exact h
      · exact wf_dropDatabaseStep σ c hh.db h

theorem wf_run (σ : Nat → Nat) (ops : List Op) : ∀ (w : World), WF w → WF (Catalog.run σ w ops).1 := by
  induction ops with
  | nil => intro w h; exact h
  | cons op ops ih => intro w h; exact ih _ (wf_step σ w op h)

/-! ### the abstraction function relates every well-formed state to an oracle state -/

theorem alGet?_absDb_ne (d d' n : String) (db : DbStore) (h : d' ≠ d) :
    alGet? (d', n) (absDb d db) = none := by
  apply (alGet?_eq_none_iff _ _).mpr
  intro hm
  simp only [alKeys, absDb, List.mem_map, List.mem_filterMap] at hm
  obtain ⟨⟨k, sc⟩, ⟨p, _, hp⟩, hk⟩ := hm
  cases hts : toS p.2 with
  | none => rw [hts] at hp; simp at hp
  | some x =>
    rw [hts] at hp; simp at hp
    simp at hk
    rw [← hp.1] at hk
    exact h (Prod.ext_iff.mp hk).1.symm

theorem alGet?_absDb (d n : String) (db : DbStore) (h : WFdb db) :
    alGet? (d, n) (absDb d db) = (alGet? n db).bind toS := by
  induction db with
  | nil => simp [absDb, alGet?]
  | cons p r ih =>
    obtain ⟨a, c⟩ := p
    have hr : WFdb r := by
      unfold WFdb alKeys at h ⊢; exact (List.nodup_cons.mp h).2
    have ha : a ∉ alKeys r := by
      unfold WFdb alKeys at h; exact (List.nodup_cons.mp h).1
    have ih := ih hr
    unfold absDb at ih ⊢
    simp only [List.filterMap_cons]
    by_cases han : a = n
    · subst han
      have hnone : alGet? a r = none := (alGet?_eq_none_iff _ _).mpr ha
      cases hts : toS c with
      | none => simp [alGet?, hts, ih, hnone]
      | some sc => simp [alGet?, hts]
    · have hne : ¬ ((d, a) = (d, n)) := fun e => han (Prod.ext_iff.mp e).2
      cases hts : toS c with
      | none => simp [alGet?, han, ih]
      | some sc => simp [alGet?, han, hne, ih]

theorem alGet?_absServer (sv : Server) (h : WFs sv) (d n : String) :
    alGet? (d, n) (absServer sv) = toS (sv.coll d n) := by
  induction sv with
  | nil => simp [absServer, alGet?, Server.coll, Server.db, toS_empty]
  | cons p r ih =>
    obtain ⟨a, db⟩ := p
    have hr : WFs r := by
      refine ⟨?_, fun q hq => h.2 q (List.mem_cons_of_mem _ hq)⟩
      have := h.1; unfold alKeys at this ⊢; exact (List.nodup_cons.mp this).2
    have ha : a ∉ alKeys r := by
      have := h.1; unfold alKeys at this; exact (List.nodup_cons.mp this).1
    have hdb : WFdb db := h.2 (a, db) List.mem_cons_self
    have ih := ih hr
    unfold absServer at ih ⊢
    simp only [List.flatMap_cons]
    rw [alGet?_append]
    by_cases had : a = d
    · subst had
      rw [alGet?_absDb a n db hdb, ih]
      have hnone : alGet? a r = none := (alGet?_eq_none_iff _ _).mpr ha
      have : Server.coll r a n = Coll.empty := by simp [Server.coll, Server.db, hnone, alGet?]
      rw [this, toS_empty]
      simp only [Server.coll, Server.db, alGet?, if_true, Option.getD_some]
      cases alGet? n db with
      | none => simp [toS_empty]
      | some c => simp
    · rw [alGet?_absDb_ne a d n db (fun e => had e.symm), ih]
      simp [Server.coll, Server.db, alGet?, had]

theorem mem_keys_absDb {d : String} {db : DbStore} {k : Ns} (h : k ∈ alKeys (absDb d db)) :
    k.1 = d ∧ k.2 ∈ alKeys db := by
  simp only [alKeys, absDb, List.mem_map, List.mem_filterMap] at h
  obtain ⟨⟨k', sc⟩, ⟨p, hp1, hp⟩, hk⟩ := h
  cases hts : toS p.2 with
  | none => rw [hts] at hp; simp at hp
  | some x =>
    rw [hts] at hp; simp at hp hk
    rw [← hk, ← hp.1]
    exact ⟨rfl, List.mem_map.mpr ⟨p, hp1, rfl⟩⟩

theorem swf_absDb (d : String) (db : DbStore) (h : WFdb db) : SWF (absDb d db) := by
  induction db with
  | nil => simp [SWF, absDb, alKeys]
  | cons p r ih =>
    obtain ⟨a, c⟩ := p
    have hr : WFdb r := by
      unfold WFdb alKeys at h ⊢; exact (List.nodup_cons.mp h).2
    have ha : a ∉ alKeys r := by
      unfold WFdb alKeys at h; exact (List.nodup_cons.mp h).1
    have ih := ih hr
    unfold SWF absDb at ih ⊢
    simp only [List.filterMap_cons]
    cases hts : toS c with
    | none => simpa using ih
    | some sc =>
      simp only [Option.map_some, alKeys, List.map_cons, List.nodup_cons]
      refine ⟨?_, ih⟩
      intro hm
      exact ha (mem_keys_absDb (d := d) (db := r) hm).2

theorem swf_absServer (sv : Server) (h : WFs sv) : SWF (absServer sv) := by
  induction sv with
  | nil => simp [SWF, absServer, alKeys]
  | cons p r ih =>
    obtain ⟨a, db⟩ := p
    have hr : WFs r := by
      refine ⟨?_, fun q hq => h.2 q (List.mem_cons_of_mem _ hq)⟩
      have := h.1; unfold alKeys at this ⊢; exact (List.nodup_cons.mp this).2
    have ha : a ∉ alKeys r := by
      have := h.1; unfold alKeys at this; exact (List.nodup_cons.mp this).1
    have hdb : WFdb db := h.2 (a, db) List.mem_cons_self
    have ih := ih hr
    unfold SWF absServer at ih ⊢
    simp only [List.flatMap_cons, alKeys, List.map_append]
    refine List.nodup_append.mpr ⟨swf_absDb a db hdb, ih, ?_⟩
    intro k hk k' hk' e
    subst e
    have h1 := (mem_keys_absDb (d := a) (db := db) hk).1
    -- k is also a key of the abstraction of some later database
    simp only [List.mem_map, List.mem_flatMap] at hk'
    obtain ⟨⟨k2, sc⟩, ⟨q, hq, hq2⟩, hk2⟩ := hk'
    have h2 := (mem_keys_absDb (d := q.1) (db := q.2)
      (List.mem_map.mpr ⟨(k2, sc), hq2, rfl⟩)).1
    simp at hk2 h2
    rw [hk2] at h2
    apply ha
    rw [← h1, h2]
    exact List.mem_map.mpr ⟨q, hq, rfl⟩

theorem rel_abs {w : World} (h : WF w) : Rel w (abs w) :=
  ⟨h, fun i => swf_absServer _ (h.1 i), fun i d n => (alGet?_absServer _ (h.1 i) d n).symm⟩

/-- two oracle states related to the same model state denote the same maps -/
theorem rel_functional {w : World} {s s' : SWorld} (h : Rel w s) (h' : Rel w s') : SEq s s' := by
  intro i k
  obtain ⟨d, n⟩ := k
  rw [← h.2.2 i d n, ← h'.2.2 i d n]

/-! ### whole histories -/

theorem run_refines (σ : Nat → Nat) (ops : List Op) : ∀ (w : World) (s : SWorld),
    Rel w s → histInD σ w ops = true →
    Rel (Catalog.run σ w ops).1 (Spec.Catalog.run σ s ops).1 ∧
    OutsEquiv (Catalog.run σ w ops).2 (Spec.Catalog.run σ s ops).2 := by
  induction ops with
  | nil => intro w s hR _; exact ⟨hR, trivial⟩
  | cons op ops ih =>
    intro w s hR hD
    simp only [histInD, Bool.and_eq_true] at hD
    have hs := step_refines σ w s op hR hD.1
    have := ih _ _ hs.1 hD.2
    exact ⟨this.1, hs.2, this.2⟩

theorem rel_init : Rel World.init SWorld.init :=
  ⟨wf_init, fun _ => by simp [SWF, SWorld.init, alKeys], fun i d n => by
    simp [World.init, SWorld.init, Server.coll, Server.db, alGet?, toS_empty]⟩

end MongoModel.Proofs.C17
