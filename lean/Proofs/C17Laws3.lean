/-
  Proofs.C17Laws3 — world-level forms of the rename and drop laws.
-/
import Proofs.C17Laws2

set_option linter.unusedSimpArgs false

namespace MongoModel.Proofs.C17
open MongoModel MongoModel.Catalog MongoModel.Spec.Catalog

theorem step_rename (σ : Nat → Nat) (w : World) (h : DbH) (n n' : String) (dt : Bool)
    (hob : obtainedDb w h = true) :
    Catalog.step σ w (.renameCollection h n n' dt) =
      (w.setStore (σ h.client) (Catalog.renameStep (w.store (σ h.client)) h.db n n' dt).1,
       (Catalog.renameStep (w.store (σ h.client)) h.db n n' dt).2) := by
  simp [Catalog.step, hob]

/-- `coll.rename(n')` is `coll.database.rename_collection(coll.name, n')` -/
theorem coll_rename_eq (σ : Nat → Nat) (w : World) (h : CollH) (n' : String) (dt : Bool)
    (hob : obtainedColl w h = true) :
    Catalog.step σ w (.collRename h n' dt) = Catalog.step σ w (.renameCollection h.dbh h.coll n' dt) := by
  have hdb : obtainedDb w h.dbh = true := by
    unfold obtainedColl at hob; simp only [Bool.and_eq_true] at hob; exact hob.1
  have hdb' : obtainedDb w ⟨h.client, h.db⟩ = true := hdb
  simp [Catalog.step, hob, hdb', CollH.dbh]

theorem rename_moves_world (σ : Nat → Nat) (w : World) (h : DbH) (n n' : String) (dt : Bool)
    (hob : obtainedDb w h = true) (hv : validName n' = true) (hne : n ≠ n')
    (hsrc : created w (σ h.client) h.db n = true)
    (ht : created w (σ h.client) h.db n' = false ∨ dt = true) :
    (Catalog.step σ w (.renameCollection h n n' dt)).2 = .ok ∧
    ((Catalog.step σ w (.renameCollection h n n' dt)).1.store (σ h.client)).coll h.db n'
      = (w.store (σ h.client)).coll h.db n ∧
    ((Catalog.step σ w (.renameCollection h n n' dt)).1.store (σ h.client)).coll h.db n
      = Coll.empty ∧
    (∀ d' m, ¬ (d' = h.db ∧ (m = n ∨ m = n')) →
      ((Catalog.step σ w (.renameCollection h n n' dt)).1.store (σ h.client)).coll d' m
        = (w.store (σ h.client)).coll d' m) ∧
    (∀ j, j ≠ σ h.client → (Catalog.step σ w (.renameCollection h n n' dt)).1.store j = w.store j) := by
  rw [step_rename σ w h n n' dt hob]
  have := renameStep_moves (w.store (σ h.client)) h.db n n' dt hv hne hsrc ht
  simp only [store_setStore, if_true]
  refine ⟨this.1, this.2.1, this.2.2.1, this.2.2.2, ?_⟩
  intro j hj; simp [hj]

theorem rename_errors_world (σ : Nat → Nat) (w : World) (h : DbH) (n n' : String) (dt : Bool)
    (hob : obtainedDb w h = true)
    (hcase : validName n' = false ∨ n = n' ∨ created w (σ h.client) h.db n = false ∨
      (created w (σ h.client) h.db n' = true ∧ dt = false)) :
    (∃ e, (Catalog.step σ w (.renameCollection h n n' dt)).2 = .err e ∧
      (e = .invalidName ↔ validName n' = false)) ∧
    ∀ j d' m, ((Catalog.step σ w (.renameCollection h n n' dt)).1.store j).coll d' m
      = (w.store j).coll d' m := by
  rw [step_rename σ w h n n' dt hob]
  by_cases hv : validName n' = true
  swap
  · have hv' : validName n' = false := by simpa using hv
    rw [renameStep_invalid _ _ _ _ _ hv']
    refine ⟨⟨.invalidName, rfl, by simp [hv']⟩, ?_⟩
    intro j d' m; simp only [store_setStore]; split
    · rename_i hj; rw [hj]
    · rfl
  by_cases hnn : n = n'
  · subst hnn
    rw [renameStep_self _ _ _ _ hv]
    refine ⟨⟨.opFail, rfl, by simp [hv]⟩, ?_⟩
    intro j d' m; simp only [store_setStore]; split
    · rename_i hj; rw [hj]
    · rfl
  by_cases hsrc : created w (σ h.client) h.db n = true
  swap
  · have hs' : ((w.store (σ h.client)).coll h.db n).isCreated = false := by
      unfold created at hsrc; simpa using hsrc
    have := renameStep_no_source (w.store (σ h.client)) h.db n n' dt hv hs'
    refine ⟨⟨.opFail, this.1, by simp [hv]⟩, ?_⟩
    intro j d' m; simp only [store_setStore]; split
    · rename_i hj; rw [hj]; exact this.2 d' m
    · rfl
  rcases hcase with hc | hc | hc | ⟨hc, hdt⟩
  · rw [hv] at hc; simp at hc
  · exact absurd hc hnn
  · rw [hsrc] at hc; simp at hc
  · subst hdt
    have := renameStep_target_exists (w.store (σ h.client)) h.db n n' hv hsrc hc
    refine ⟨⟨.opFail, this.1, by simp [hv]⟩, ?_⟩
    intro j d' m; simp only [store_setStore]; split
    · rename_i hj; rw [hj]; exact this.2 d' m
    · rfl

theorem drop_empties (σ : Nat → Nat) (w : World) (op : Op) (h : CollH) (hdrop : Drops σ w op h) :
    (Catalog.step σ w op).2 = .ok ∧
    ((Catalog.step σ w op).1.store (σ h.client)).coll h.db h.coll = Coll.empty := by
  rcases hdrop with ⟨hd, rfl, hobd, hσ, hdb⟩ | ⟨h', rfl, hobh, hσ, hdb, hn⟩ | ⟨c, rfl, hσ⟩ |
    ⟨hd, h', rfl, hobd, hobh, hσ, hdb, hn⟩ | ⟨c, hd, rfl, hobd, hσ, hdb⟩
  · have := drop_by_name_empties σ w hd h.coll hobd
    rw [hσ, hdb] at this; exact this
  · have := coll_drop_empties σ w h' hobh
    rw [hσ, hdb, hn] at this; exact this
  · have := drop_database_empties σ w c h.db h.coll
    rw [hσ] at this; exact this
  · have := drop_by_handle_empties σ w hd h' hobd hobh
    rw [hσ, hdb, hn] at this; exact this
  · have := drop_database_by_handle_empties σ w c hd h.coll hobd
    rw [hσ, hdb] at this; exact this

/-- after any of the drops, every obtained handle onto the dropped name works from empty -/
theorem drop_then_usable (σ : Nat → Nat) (w : World) (op : Op) (h : CollH)
    (hob : obtainedColl w h = true) (hdrop : Drops σ w op h) :
    (Catalog.step σ w op).2 = .ok ∧
    (Catalog.step σ (Catalog.step σ w op).1 (.coll h .find)).2 = .ids [] ∧
    (Catalog.step σ (Catalog.step σ w op).1 (.coll h .indexInformation)).2 = .indexes [] ∧
    ∀ id, (Catalog.step σ (Catalog.step σ w op).1 (.coll h (.insert id))).2 = .ok ∧
      (Catalog.step σ (Catalog.step σ (Catalog.step σ w op).1 (.coll h (.insert id))).1
        (.coll h .find)).2 = .ids [id] := by
  have hob' : obtainedColl (Catalog.step σ w op).1 h = true := obtainedColl_step σ w op h hob
  have key := drop_empties σ w op h hdrop
  exact ⟨key.1, empty_handle_usable σ _ h hob' key.2⟩

/-- and the dropped name is no longer listed -/
theorem dropped_not_listed (σ : Nat → Nat) (w : World) (op : Op) (h : CollH) (hw : WF w)
    (hdrop : Drops σ w op h) :
    created (Catalog.step σ w op).1 (σ h.client) h.db h.coll = false ∧
    h.coll ∉ ((Catalog.step σ w op).1.store (σ h.client)).listColls h.db := by
  have key := drop_empties σ w op h hdrop
  have hc : created (Catalog.step σ w op).1 (σ h.client) h.db h.coll = false := by
    unfold created; rw [key.2]; rfl
  refine ⟨hc, ?_⟩
  intro hm
  have := (mem_listColls ((wf_step σ w op hw).1 _) _ _).mp hm
  unfold created at hc; rw [hc] at this; simp at this

/-- a filtered listing is the unfiltered listing, filtered -/
theorem filtered_listing (σ : Nat → Nat) (w : World) (h : DbH) (f : NameFilter)
    (hob : obtainedDb w h = true) (hf : f.falsy = false) :
    Catalog.step σ w (.listCollectionNames h (some f)) =
      (w, .names (((w.store (σ h.client)).listColls h.db).filter f.applies)) := by
  simp only [Catalog.step, hob, hf, Bool.not_true, Bool.false_eq_true, if_false,
    Server.listCollsFiltered, Server.listColls, List.filter_filter]

/-! ### existence is recorded: emptying a collection does not remove it -/

/-- in every well-formed state a collection exists iff its store carries the flag -/
theorem created_eq_flag {w : World} (hw : WF w) (i : Nat) (d n : String) :
    created w i d n = ((w.store i).coll d n).forceCreated :=
  isCreated_eq_flag (hw.2.2 i d n)

theorem collOp_deleteAll_dropIndexes (c : Coll) :
    (collOp .dropIndexes (collOp .deleteAll c).1).1 = ⟨[], [], c.forceCreated⟩ := rfl

/-- an existing collection emptied of all its documents and of all its indexes still exists: it
    finds nothing, `index_information()` shows exactly `_id_`, and it is still listed with its
    database -/
theorem emptied_still_exists (σ : Nat → Nat) (w : World) (h : CollH) (hw : WF w)
    (hob : obtainedColl w h = true) (hex : created w (σ h.client) h.db h.coll = true) :
    let w' := (Catalog.run σ w [.coll h .deleteAll, .coll h .dropIndexes]).1
    created w' (σ h.client) h.db h.coll = true ∧
    (Catalog.step σ w' (.coll h .find)).2 = .ids [] ∧
    (Catalog.step σ w' (.coll h .indexInformation)).2 = .indexes [("_id_", idIndex)] ∧
    h.db ∈ (w'.store (σ h.client)).listDbs ∧
    (isSystem h.coll = false → h.coll ∈ (w'.store (σ h.client)).listColls h.db) := by
  intro w'
  have hw' : WF w' := wf_run σ _ w hw
  have hob1 : obtainedColl (Catalog.step σ w (.coll h .deleteAll)).1 h = true :=
    obtainedColl_step σ w _ h hob
  have hob' : obtainedColl w' h = true := obtainedColl_run σ _ h w hob
  have hf : ((w.store (σ h.client)).coll h.db h.coll).forceCreated = true := by
    rw [← created_eq_flag hw]; exact hex
  have hc : (w'.store (σ h.client)).coll h.db h.coll = ⟨[], [], true⟩ := by
    show ((Catalog.step σ (Catalog.step σ w (.coll h .deleteAll)).1 (.coll h .dropIndexes)).1.store
      (σ h.client)).coll h.db h.coll = _
    rw [step_coll σ _ h .dropIndexes hob1, step_coll σ w h .deleteAll hob]
    simp only [store_setStore, if_true, coll_setColl, and_self]
    rw [collOp_deleteAll_dropIndexes, hf]
  have hcr : created w' (σ h.client) h.db h.coll = true := by
    unfold created; rw [hc]; rfl
  refine ⟨hcr, ?_, ?_, created_listed hw' _ _ _ hcr⟩
  · rw [step_coll σ w' h .find hob', hc]; rfl
  · rw [step_coll σ w' h .indexInformation hob', hc]; rfl

theorem reachable_wf (σ : Nat → Nat) (w : World) (h : Reachable σ w) : WF w := by
  obtain ⟨ops, rfl⟩ := h
  exact wf_run σ ops _ wf_init

theorem step_refinement_abs (σ : Nat → Nat) (w : World) (op : Op) (hw : WF w)
    (hD : inD σ w op = true) :
    SEq (abs (Catalog.step σ w op).1) (Spec.Catalog.step σ (abs w) op).1 ∧
    OutEquiv (Catalog.step σ w op).2 (Spec.Catalog.step σ (abs w) op).2 := by
  have hs := step_refines σ w (abs w) op (rel_abs hw) hD
  exact ⟨rel_functional (rel_abs hs.1.1) hs.1, hs.2⟩

theorem index_information_exact_run (σ : Nat → Nat) (ops : List Op) (h : CollH)
    (hD : histInD σ World.init ops = true)
    (hob : obtainedColl (Catalog.run σ World.init ops).1 h = true) :
    (Catalog.step σ (Catalog.run σ World.init ops).1 (.coll h .indexInformation)).2 =
      .indexes (match alGet? (h.db, h.coll) ((Spec.Catalog.run σ SWorld.init ops).1 (σ h.client)) with
        | some c => ("_id_", idIndex) :: c.indexes
        | none => []) :=
  index_information_of_rel σ (run_refines σ ops _ _ rel_init hD).1 h hob

end MongoModel.Proofs.C17
