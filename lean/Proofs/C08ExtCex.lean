/-
  Proofs.C08ExtCex — witnesses: writes that raise AFTER having changed the collection.
-/
import Proofs.C08Ext

namespace MongoModel.Proofs.C08Ext
open MongoModel MongoModel.Spec MongoModel.Proofs.C08Lemmas

/-- an `Untouched` collection has the documents it had, or those the expiry pass leaves -/
theorem untouched_docs_nottl (now : Int) (c c' : Coll) (hn : c.ttlIndexes = [])
    (h : Untouched now c c') : c'.docs = c.docs := by
  have he : expire now c = .ok c := by unfold expire; rw [hn]; rfl
  rcases (untouched_observable now c c' h).2.2.2.2 with h | ⟨c1, h1, h⟩
  · exact h
  · rw [he] at h1; cases h1; exact h

def famWitnessColl : Coll :=
  { docs := [(.int 1, .doc [("_id", .int 1), ("a", .arr [.int 1, .int 2])])], forceCreated := true }

/-- `find_one_and_update({_id: 1}, {$set: {a: 5}}, projection={a: {$slice: 1}},
    return_document=AFTER)`: the projection is fine in itself and fine on the document as it is
    (`a` is an array); the update turns `a` into a number, THEN the read-back raises
    OperationFailure (`$slice` of a non-array) — known finding `fam-after-projection-on-result` -/
def famWitnessOp : Val :=
  .arr [.str "find_one_and_update", .doc [("_id", .int 1)], .doc [("$set", .doc [("a", .int 5)])],
        .doc [("a", .doc [("$slice", .int 1)])], .null, .bool false, .bool true]

/-- the `a` of the first stored document is the integer `n` -/
def firstAIs (docs : List (Val × Val)) (n : Int) : Bool :=
  match docs with
  | (_, .doc fs) :: _ => (match dget "a" fs with | some (.int i) => i == n | _ => false)
  | _ => false

theorem fam_witness :
    famOp famWitnessOp = true ∧ (stepX {} 0 famWitnessColl famWitnessOp).2.isErr = true ∧
    firstAIs (stepX {} 0 famWitnessColl famWitnessOp).1.docs 5 = true ∧
    firstAIs famWitnessColl.docs 5 = false ∧
    projAcceptable (famProj famWitnessOp) = true := by decide +kernel

theorem fam_failed_noop_full_fails :
    ¬ (∀ (cfg : Cfg) (now : Int) (c : Coll) (op : Val), c.Recorded → famOp op = true →
      (stepX cfg now c op).2.isErr = true → Untouched now c (stepX cfg now c op).1) := by
  intro h
  have hu := h {} 0 famWitnessColl famWitnessOp (fun _ => rfl) fam_witness.1 fam_witness.2.1
  have hd := untouched_docs_nottl 0 famWitnessColl _ rfl hu
  have hl := fam_witness.2.2.1
  rw [hd, fam_witness.2.2.2.1] at hl
  cases hl

/-! ### the repaired finding `fam-after-projection-error` (library commit 7781c66)

A projection that is refused whatever the document — here one mixing inclusion and exclusion — used
to be met, on the upsert path, only by the read-back after the write: the call raised with the
upsert done.  `_find_and_modify` now applies the projection to the empty document before it
writes.  The former witness, kept as a regression example: the call raises and nothing is
written. -/

def famRepairedColl : Coll :=
  { docs := [(.int 1, .doc [("_id", .int 1), ("a", .int 1)])], forceCreated := true }

/-- `find_one_and_update({_id: 7}, {$set: {a: 5}}, projection={a: 1, b: 0}, upsert=True,
    return_document=AFTER)` -/
def famRepairedOp : Val :=
  .arr [.str "find_one_and_update", .doc [("_id", .int 7)], .doc [("$set", .doc [("a", .int 5)])],
        .doc [("a", .int 1), ("b", .int 0)], .null, .bool true, .bool true]

theorem fam_repaired :
    famOp famRepairedOp = true ∧ projAcceptable (famProj famRepairedOp) = false ∧
    (stepX {} 0 famRepairedColl famRepairedOp).2.isErr = true ∧
    (stepX {} 0 famRepairedColl famRepairedOp).1.docs == famRepairedColl.docs := by decide +kernel

/-! ### `UpdateMany` inside a bulk: the documents updated before the failing one stay updated -/

def manyWitnessColl : Coll :=
  { docs := [(.int 1, .doc [("_id", .int 1), ("a", .int 1)]),
             (.int 2, .doc [("_id", .int 2), ("a", .str "x")])], forceCreated := true }

def manyWitnessReq : Val :=
  .arr [.str "UpdateMany", .doc [], .doc [("$inc", .doc [("a", .int 1)])], .bool false]

theorem many_witness :
    requestFailed (bulkOne {} 0 manyWitnessColl 0 manyWitnessReq).2 = true ∧
    firstAIs (bulkOne {} 0 manyWitnessColl 0 manyWitnessReq).1.docs 2 = true ∧
    firstAIs manyWitnessColl.docs 2 = false := by decide +kernel

theorem bulk_failed_request_noop_full_fails :
    ¬ (∀ (cfg : Cfg) (now : Int) (c c' : Coll) (idx : Nat) (req : Val) (o : BulkOut),
      c.Recorded → bulkOne cfg now c idx req = (c', o) → requestFailed o = true →
      Untouched now c c') := by
  intro h
  have hu := h {} 0 manyWitnessColl (bulkOne {} 0 manyWitnessColl 0 manyWitnessReq).1 0
    manyWitnessReq (bulkOne {} 0 manyWitnessColl 0 manyWitnessReq).2 (fun _ => rfl) rfl
    many_witness.1
  have hd := untouched_docs_nottl 0 manyWitnessColl _ rfl hu
  have h1 := many_witness.2.1
  rw [hd, many_witness.2.2] at h1
  cases h1

/-! ### non-vacuity helpers -/

/-- scalar store keys behave -/
theorem goodKeys_of_scalar (c : Coll) (h : c.docs.all (fun p => isScalar p.1) = true) :
    GoodKeys c := by
  intro p hp
  have := List.all_eq_true.1 h p hp
  exact ⟨C05Lemmas.scalar_symm' _ this, C05Lemmas.scalar_refl _ this⟩

/-- four documents, the third of which cannot be incremented -/
def granColl : Coll :=
  { docs := [(.int 1, .doc [("_id", .int 1), ("a", .int 1)]),
             (.int 2, .doc [("_id", .int 2), ("a", .int 2)]),
             (.int 3, .doc [("_id", .int 3), ("a", .str "x")]),
             (.int 4, .doc [("_id", .int 4), ("a", .int 4)])], forceCreated := true }

theorem witness_colls_recorded :
    famWitnessColl.Recorded ∧ manyWitnessColl.Recorded ∧ granColl.Recorded :=
  ⟨fun _ => rfl, fun _ => rfl, fun _ => rfl⟩

theorem famRepairedColl_recorded : famRepairedColl.Recorded := fun _ => rfl

theorem granColl_hyps : granColl.ttlIndexes = [] ∧ KeysDistinct granColl ∧ GoodKeys granColl := by
  refine ⟨rfl, ?_, goodKeys_of_scalar _ (by decide)⟩
  unfold KeysDistinct granColl
  decide +kernel

end MongoModel.Proofs.C08Ext
