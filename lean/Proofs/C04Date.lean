/-
  Proofs.C04Date — the civil-date functions behind the date-part operators: `civilFromDays` is
  inverted by `daysFromCivil` for every day number, and every part lies in its range.
-/
import Proofs.C04Cmp
import Mathlib.Tactic.IntervalCases

set_option linter.unusedSimpArgs false

namespace MongoModel.Proofs.C04
open MongoModel MongoModel.Expr

/-- month in 1..12 and day in 1..31, for every day number -/
theorem civil_ranges (z : Int) :
    1 ≤ (civilFromDays z).2.1 ∧ (civilFromDays z).2.1 ≤ 12 ∧
    1 ≤ (civilFromDays z).2.2 ∧ (civilFromDays z).2.2 ≤ 31 := by
  simp only [civilFromDays]
  split <;> omega

/-- the year of the 400-year era and the day of that year, from the day of the era
    (0 … 146096): split by 4-year blocks (and by century where a block straddles one) -/
theorem yoe_doy (doe : Int) (h0 : 0 ≤ doe) (h1 : doe ≤ 146096) :
    0 ≤ (doe - doe / 1460 + doe / 36524 - doe / 146096) / 365 ∧
    (doe - doe / 1460 + doe / 36524 - doe / 146096) / 365 ≤ 399 ∧
    0 ≤ doe - (365 * ((doe - doe / 1460 + doe / 36524 - doe / 146096) / 365) +
        (doe - doe / 1460 + doe / 36524 - doe / 146096) / 365 / 4 -
        (doe - doe / 1460 + doe / 36524 - doe / 146096) / 365 / 100) ∧
    doe - (365 * ((doe - doe / 1460 + doe / 36524 - doe / 146096) / 365) +
        (doe - doe / 1460 + doe / 36524 - doe / 146096) / 365 / 4 -
        (doe - doe / 1460 + doe / 36524 - doe / 146096) / 365 / 100) ≤ 365 := by
  generalize hy : (doe - doe / 1460 + doe / 36524 - doe / 146096) / 365 = yoe
  generalize hc : doe / 1460 = c at hy
  have hc0 : 0 ≤ c := by omega
  have hc1 : c ≤ 100 := by omega
  interval_cases c <;>
    first
      | omega
      | (have hd : doe / 36524 = 0 ∨ doe / 36524 = 1 ∨ doe / 36524 = 2 ∨ doe / 36524 = 3 ∨
            doe / 36524 = 4 := by omega
         rcases hd with hd | hd | hd | hd | hd <;> omega)

theorem roundtrip_core (era doe yoe doy mp : Int)
    (hy0 : 0 ≤ yoe) (hy1 : yoe ≤ 399) (hd0 : 0 ≤ doy) (hd1 : doy ≤ 365)
    (hdoy : doy = doe - (365 * yoe + yoe / 4 - yoe / 100))
    (hmp : mp = (5 * doy + 2) / 153) :
    daysFromCivil (yoe + era * 400 + (if (if mp < 10 then mp + 3 else mp - 9) ≤ 2 then 1 else 0))
      (if mp < 10 then mp + 3 else mp - 9) (doy - (153 * mp + 2) / 5 + 1)
      = era * 146097 + doe - 719468 := by
  have hm0 : 0 ≤ mp := by omega
  have hm1 : mp ≤ 11 := by omega
  by_cases hlt : mp < 10
  · have hm : ¬ (mp + 3 ≤ 2) := by omega
    simp only [hlt, if_true, hm, if_false, daysFromCivil]
    have e1 : (yoe + era * 400 + 0) / 400 = era := by omega
    have e2 : (yoe + era * 400 + 0) % 400 = yoe := by omega
    have hgt : mp + 3 > 2 := by omega
    simp only [hgt, if_true, e1, e2]
    omega
  · have hm : mp - 9 ≤ 2 := by omega
    simp only [hlt, if_false, hm, if_true, daysFromCivil]
    have e1 : (yoe + era * 400 + 1 - 1) / 400 = era := by omega
    have e2 : (yoe + era * 400 + 1 - 1) % 400 = yoe := by omega
    have hgt : ¬ (mp - 9 > 2) := by omega
    simp only [hgt, if_false, e1, e2]
    omega

/-- **civil_roundtrip**: converting a day number to (year, month, day) and back is the identity -/
theorem civil_roundtrip (z : Int) :
    daysFromCivil (civilFromDays z).1 (civilFromDays z).2.1 (civilFromDays z).2.2 = z := by
  have h0 : 0 ≤ (z + 719468) % 146097 := by omega
  have h1 : (z + 719468) % 146097 ≤ 146096 := by omega
  obtain ⟨y0, y1, d0, d1⟩ := yoe_doy _ h0 h1
  have := roundtrip_core ((z + 719468) / 146097) ((z + 719468) % 146097) _ _ _ y0 y1 d0 d1 rfl rfl
  simp only [civilFromDays]
  rw [this]
  omega

/-! ### ranges of the date parts -/

theorem usOfDay_range (us : Int) : 0 ≤ usOfDay us ∧ usOfDay us < 86400000000 := by
  simp only [usOfDay, usPerDay]; omega

/-- hour 0..23, minute and second 0..59, millisecond 0..999, day of week 1..7, month 1..12,
    day of month 1..31 — for every instant -/
theorem datePart_ranges (us : Int) :
    (∃ h, datePart "$hour" us = .ok (.int h) ∧ 0 ≤ h ∧ h ≤ 23) ∧
    (∃ m, datePart "$minute" us = .ok (.int m) ∧ 0 ≤ m ∧ m ≤ 59) ∧
    (∃ s, datePart "$second" us = .ok (.int s) ∧ 0 ≤ s ∧ s ≤ 59) ∧
    (∃ ms, datePart "$millisecond" us = .ok (.int ms) ∧ 0 ≤ ms ∧ ms ≤ 999) ∧
    (∃ w, datePart "$dayOfWeek" us = .ok (.int w) ∧ 1 ≤ w ∧ w ≤ 7) ∧
    (∃ m, datePart "$month" us = .ok (.int m) ∧ 1 ≤ m ∧ m ≤ 12) ∧
    (∃ d, datePart "$dayOfMonth" us = .ok (.int d) ∧ 1 ≤ d ∧ d ≤ 31) := by
  have hr := usOfDay_range us
  have hc := civil_ranges (dayOf us)
  refine ⟨⟨usOfDay us / 3600000000, by simp [datePart], by omega, by omega⟩,
    ⟨usOfDay us / 60000000 % 60, by simp [datePart], by omega, by omega⟩,
    ⟨usOfDay us / 1000000 % 60, by simp [datePart], by omega, by omega⟩,
    ⟨usOfDay us % 1000000 / 1000, by simp [datePart], by omega, by omega⟩,
    ⟨(dayOf us + 4) % 7 + 1, by simp [datePart], by omega, by omega⟩,
    ⟨(civilFromDays (dayOf us)).2.1, by simp [datePart], hc.1, hc.2.1⟩,
    ⟨(civilFromDays (dayOf us)).2.2, by simp [datePart], hc.2.2.1, hc.2.2.2⟩⟩

/-- the time of day is recovered from its parts -/
theorem time_parts_recompose (us : Int) :
    usOfDay us = (usOfDay us / 3600000000) * 3600000000 + (usOfDay us / 60000000 % 60) * 60000000
      + (usOfDay us / 1000000 % 60) * 1000000 + usOfDay us % 1000000 := by
  have := usOfDay_range us
  omega

/-- and the instant from the day number and the time of day -/
theorem day_time_recompose (us : Int) : us = dayOf us * usPerDay + usOfDay us := by
  simp only [dayOf, usOfDay, usPerDay]; omega

end MongoModel.Proofs.C04
