/-
  Proofs.C10ExtInsert — `deleted_count` is the drop in size; `inserted_id(s)` are exactly the
  `_id`s of the appended documents.
-/
import Mathlib.Data.List.Forall2
import Spec.CountsExt
import Proofs.C10ExtMatch
import Proofs.C05
import Proofs.C09Ops

namespace MongoModel.Proofs.C10Ext
open MongoModel MongoModel.Spec
open MongoModel.Proofs.C10Lemmas MongoModel.Proofs.C09Lemmas MongoModel.Proofs.C05Lemmas

/-! ### delete -/

theorem delete_count_eq_size_drop (now : Int) (c c1 : Coll) (fs : Fields) (multi : Bool) (n : Nat)
    (he : expire now c = .ok c1) (hi : IdInv c) (hg : GoodKeys c)
    (h : (deleteColl now c (.doc fs) multi).2 = .ok n) :
    (deleteColl now c (.doc fs) multi).1.docs.length + n = c1.docs.length := by
  by_cases hemp : c1.docs = []
  · have hit := iter_empty now c c1 (patchDT (.doc fs)) he hemp
    unfold deleteColl at h ⊢
    rw [patch_doc_twice] at h ⊢
    rw [patch_doc] at h ⊢ hit
    dsimp only at h ⊢
    rw [hit] at h ⊢
    generalize filterApplies (Val.doc (patchFields fs)) (Val.doc []) = r at h ⊢
    cases r with
    | error e => cases h
    | ok b =>
      dsimp only at h ⊢
      cases multi <;> (simp at h ⊢; omega)
  · cases hs : selectDocs (patchDT (.doc fs)) c1.docs with
    | error e =>
      exfalso
      unfold deleteColl at h
      rw [patch_doc_twice] at h
      have hit := iter_eq now c c1 (patchDT (.doc fs)) he hemp
      rw [hs] at hit
      rw [patch_doc] at h hit
      dsimp only at h
      rw [hit] at h
      cases h
    | ok sel =>
      cases multi with
      | true =>
        obtain ⟨h1, _, h3⟩ := MongoModel.Proofs.C10.delete_many_eq_find now c c1 fs sel he hemp hi hg hs
        rw [h1] at h
        cases h
        exact h3
      | false =>
        obtain ⟨h1, h3⟩ := MongoModel.Proofs.C10.delete_one_eq_find now c c1 fs sel he hemp hi hg hs
        rw [h1] at h
        cases h
        exact h3

/-! ### insert -/

theorem insertCore_appends (now : Int) (c0 : Coll) (fs1 : Fields) (c' : Coll) (id : Val)
    (hn : c0.ttlIndexes = []) (hid : dhas "_id" fs1 = true)
    (h : insertCore now c0 fs1 = .ok (c', id)) :
    c'.docs = c0.docs ++ [(id, patchDT (.doc fs1))] ∧ idOf (patchDT (.doc fs1)) = some id ∧
      c'.ttlIndexes = [] ∧ c0.hasKey id = false := by
  obtain ⟨h1, h2, h3⟩ := insertCore_fresh now c0 fs1 c' id hn hid h
  refine ⟨h3, by rw [patch_doc]; exact h1, ?_, h2⟩
  obtain ⟨_, _, c1, he, _, hu⟩ := insertCore_spec now c0 fs1 c' id hid h
  rw [expire_noTtl now c0 hn] at he
  cases he
  have := ensureUniques_noTtl now _ _ c' (by rw [storeDoc_ttlIndexes, setDoc_ttl]; exact hn) hu
  rw [this, storeDoc_ttlIndexes, setDoc_ttl]
  exact hn

theorem insertDoc_appends (now : Int) (c c' : Coll) (d id : Val) (hn : c.ttlIndexes = [])
    (h : insertDoc now c d = .ok (c', id)) :
    c'.docs = c.docs ++ [(id, storedForm d id)] ∧ idOf (storedForm d id) = some id ∧
      c'.ttlIndexes = [] ∧ c.hasKey id = false := by
  cases d with
  | doc fs =>
    rw [C05Lemmas.insertDoc_eq] at h
    by_cases hh : dhas "_id" fs = true
    · rw [if_pos hh] at h
      have := insertCore_appends now c fs c' id hn hh h
      simpa only [storedForm, hh, if_true] using this
    · rw [if_neg hh] at h
      have hh' : dhas "_id" (dset "_id" (.oid c.nextOid) fs) = true := by
        simp [dhas, dget_dset_self]
      obtain ⟨h1, _, _⟩ := insertCore_fresh now { c with nextOid := c.nextOid + 1 } _ c' id hn hh' h
      rw [dget_patchFields, dget_dset_self] at h1
      simp [patchDT, patch] at h1
      subst h1
      obtain ⟨g1, g2, g3, g4⟩ := insertCore_appends now { c with nextOid := c.nextOid + 1 } _ c' _ hn hh' h
      simp only [storedForm, hh, Bool.false_eq_true, if_false]
      exact ⟨g1, g2, g3, g4⟩
  | _ => simp [insertDoc] at h

theorem insert_one_id (cfg : Cfg) (now : Int) (c c' : Coll) (d out : Val) (hn : c.ttlIndexes = [])
    (h : stepColl cfg now c (.arr [.str "insert_one", d]) = (c', .val out)) :
    c'.docs = c.docs ++ [(out, storedForm d out)] ∧ idOf (storedForm d out) = some out ∧
      c.hasKey out = false := by
  simp only [stepColl] at h
  cases d with
  | doc fs =>
    dsimp only at h
    cases hins : insertDoc now c (.doc fs) with
    | error e => rw [hins] at h; cases h
    | ok r =>
      obtain ⟨c2, id⟩ := r
      rw [hins] at h
      cases h
      obtain ⟨h1, h2, _, h4⟩ := insertDoc_appends now c c' (.doc fs) out hn hins
      exact ⟨h1, h2, h4⟩
  | _ => cases h

/-- once a write error was collected the batch cannot answer a value -/
theorem loop_errs_noval (now : Int) (ordered : Bool) :
    ∀ (ds : List Val) (idx : Nat) (c : Coll) (ids errs : List Val) (n : Nat) (c' : Coll) (out : Val),
      errs ≠ [] → insertManyLoop now ordered ds idx c ids errs n ≠ (c', .val out) := by
  intro ds
  induction ds with
  | nil =>
    intro idx c ids errs n c' out hne h
    simp only [insertManyLoop, insertManyDone] at h
    cases errs with
    | nil => exact hne rfl
    | cons e es => simp at h
  | cons d rest ih =>
    intro idx c ids errs n c' out hne h
    rw [insertManyLoop_cons] at h
    cases hins : insertDoc now c d with
    | ok r =>
      obtain ⟨c2, id⟩ := r
      rw [hins] at h
      exact ih _ _ _ _ _ _ _ hne h
    | error e =>
      rw [hins] at h
      dsimp only at h
      split at h
      · split at h
        · simp only [insertManyDone] at h
          split at h
          · rename_i hemp
            simp at hemp
          · cases h
        · exact ih _ _ _ _ _ _ _ (by simp) h
      · cases h

theorem insert_many_loop (now : Int) (ordered : Bool) :
    ∀ (ds : List Val) (idx : Nat) (c : Coll) (ids : List Val) (n : Nat) (c' : Coll) (out : Val),
      c.ttlIndexes = [] →
      insertManyLoop now ordered ds idx c ids [] n = (c', .val out) →
      ∃ new, c'.docs = c.docs ++ new ∧ out = .arr (ids ++ new.map (·.1)) ∧
        List.Forall₂ (fun d (p : Val × Val) => p.2 = storedForm d p.1 ∧ idOf p.2 = some p.1) ds new := by
  intro ds
  induction ds with
  | nil =>
    intro idx c ids n c' out _ h
    simp only [insertManyLoop, insertManyDone, List.isEmpty_nil, if_true, Prod.mk.injEq,
      Out.val.injEq] at h
    obtain ⟨rfl, rfl⟩ := h
    exact ⟨[], by simp, by simp, .nil⟩
  | cons d rest ih =>
    intro idx c ids n c' out hn h
    rw [insertManyLoop_cons] at h
    cases hins : insertDoc now c d with
    | ok r =>
      obtain ⟨c2, id⟩ := r
      rw [hins] at h
      dsimp only at h
      obtain ⟨h1, h2, h3, _⟩ := insertDoc_appends now c c2 d id hn hins
      obtain ⟨new, g1, g2, g3⟩ := ih _ _ _ _ _ _ h3 h
      refine ⟨(id, storedForm d id) :: new, ?_, ?_, .cons ⟨rfl, h2⟩ g3⟩
      · rw [g1, h1]; simp
      · rw [g2]; simp
    | error e =>
      exfalso
      rw [hins] at h
      dsimp only at h
      split at h
      · split at h
        · simp [insertManyDone] at h
        · exact loop_errs_noval now ordered _ _ _ _ _ _ _ _ (by simp) h
      · cases h

theorem insert_many_ids (cfg : Cfg) (now : Int) (c c' : Coll) (ds : List Val) (ordered out : Val)
    (hn : c.ttlIndexes = [])
    (h : stepColl cfg now c (.arr [.str "insert_many", .arr ds, ordered]) = (c', .val out)) :
    ∃ new, c'.docs = c.docs ++ new ∧ out = .arr (new.map (·.1)) ∧
      List.Forall₂ (fun d (p : Val × Val) => p.2 = storedForm d p.1 ∧ idOf p.2 = some p.1) ds new := by
  simp only [stepColl] at h
  split at h
  · cases h
  · split at h
    · cases h
    · obtain ⟨new, h1, h2, h3⟩ := insert_many_loop now (boolOf ordered) ds 0 c [] 0 c' out hn h
      exact ⟨new, h1, by simpa using h2, h3⟩

end MongoModel.Proofs.C10Ext
