/-
  Proofs.C03Spec — the model's stages equal the oracle's on the domain D
  (Spec/Pipeline.lean, Spec/PipelineDomain.lean).
-/
import Proofs.C03Stages
import Proofs.C03Docs
import Proofs.C03Project
import Props.C01
import Props.C12
import Proofs.C18
import Spec.PipelineDomain

namespace MongoModel.Pipe.Proofs
open MongoModel MongoModel.Pipe MongoModel.Spec.Pipe MongoModel.Proofs.C11

mutual
  theorem normal_patch : ∀ v : Val, allDatesB normalB v = true → patch v = v
    | .null, _ => rfl
    | .bool _, _ => rfl
    | .int _, _ => rfl
    | .dbl _ _, _ => rfl
    | .str _, _ => rfl
    | .oid _, _ => rfl
    | .date us off, h => by
      apply MongoModel.Proofs.C18.patch_fixes_normal
      simp only [allDatesB, normalB, Bool.and_eq_true, beq_iff_eq, Option.isNone_iff_eq_none] at h
      exact ⟨h.1, h.2⟩
    | .doc fs, h => by
      simp only [allDatesB] at h
      simp [patch, normal_patchFields fs h]
    | .arr xs, h => by
      simp only [allDatesB] at h
      simp [patch, normal_patchList xs h]
  theorem normal_patchFields : ∀ fs : Fields, allDatesFB normalB fs = true → patchFields fs = fs
    | [], _ => rfl
    | (k, v) :: r, h => by
      simp only [allDatesFB, Bool.and_eq_true] at h
      simp [patchFields, normal_patch v h.1, normal_patchFields r h.2]
  theorem normal_patchList : ∀ xs : List Val, allDatesLB normalB xs = true → patchList xs = xs
    | [], _ => rfl
    | x :: r, h => by
      simp only [allDatesLB, Bool.and_eq_true] at h
      simp [patchList, normal_patch x h.1, normal_patchList r h.2]
end

theorem normalV_patch (v : Val) (h : normalV v = true) : patch v = v := normal_patch v h

/-! ### `$match` -/

theorem matchAll_eq_spec (f : Val) (hf : patch f = f) : ∀ (docs s : List Val),
    (∀ d ∈ docs, patch d = d ∧ Spec.inD f d = true) → specMatchAll f docs = some s →
    filterR (fun d => filterApplies (patch f) (patch d)) docs = .ok s
  | [], s, _, h => by simp [specMatchAll] at h; subst h; rfl
  | d :: ds, s, hD, h => by
    simp only [specMatchAll] at h
    obtain ⟨hd, hin⟩ := hD d (List.mem_cons_self)
    have himpl : filterApplies f d = Spec.specMatches f d :=
      MongoModel.Props.C01.matches_eq_spec_partial f d hin
    cases hs : Spec.specMatches f d with
    | error e => simp [hs] at h
    | ok b =>
      cases hr : specMatchAll f ds with
      | none => simp [hs, hr] at h
      | some r =>
        simp only [hs, hr, Option.some.injEq] at h
        have ih := matchAll_eq_spec f hf ds r (fun x hx => hD x (List.mem_cons_of_mem _ hx)) hr
        simp only [hf] at ih ⊢
        simp only [filterR, hd, himpl, hs, ih, h]

theorem match_eq_spec (f : Val) (hf : patch f = f) (docs s : List Val)
    (hE : docs = [] → Spec.inD f (.doc []) = true)
    (hD : ∀ d ∈ docs, patch d = d ∧ Spec.inD f d = true) (h : specMatch f docs = some s) :
    matchStage f docs = .ok s := by
  cases docs with
  | nil =>
    have himpl : filterApplies f (.doc []) = Spec.specMatches f (.doc []) :=
      MongoModel.Props.C01.matches_eq_spec_partial f (.doc []) (hE rfl)
    simp only [specMatch] at h
    simp only [matchStage, hf, himpl]
    cases hs : Spec.specMatches f (.doc []) with
    | error e => simp [hs] at h
    | ok b => simp only [hs, Option.some.injEq] at h; subst h; rfl
  | cons d ds => exact matchAll_eq_spec f hf (d :: ds) s hD h

/-! ### `$sort` -/

theorem specSortSpec_some : ∀ (fs : Fields) (spec : SortSpec), specSortSpec fs = some spec →
    fs = spec.map (fun kd => (kd.1, Val.int kd.2))
  | [], spec, h => by simp [specSortSpec] at h; subst h; rfl
  | (k, v) :: r, spec, h => by
    cases v with
    | int i =>
      simp only [specSortSpec] at h
      split at h
      · cases hr : specSortSpec r with
        | none => simp [hr] at h
        | some sp =>
          simp only [hr, Option.map_some, Option.some.injEq] at h
          subst h
          simp [specSortSpec_some r sp hr]
      · cases h
    | _ => simp [specSortSpec] at h

theorem sort_eq_spec (fs : Fields) (spec : SortSpec) (docs : List Val)
    (hs : specSortSpec fs = some spec) (hD : Spec.Order.specReasons spec docs = []) :
    sortStage (.doc fs) docs = .ok (Spec.Order.sortDocs (some spec) docs) := by
  have hok := specOk_of_reasons spec docs hD
  rw [specSortSpec_some fs spec hs]
  simp only [sortStage, sortFields_int, aggSort_eq_spec spec docs hok, Spec.Order.sortDocs]
  cases hl : Spec.Order.loneNatural spec with
  | none => rfl
  | some dir =>
    have := loneNatural_some hl
    subst this
    have := (hok ("$natural", dir) (List.mem_singleton.mpr rfl)).1
    rw [show ("$natural", dir).1 = "$natural" from rfl, natural_startsWithDollar] at this
    cases this

/-! ### `$count`, `$skip`, `$limit` -/

theorem count_eq_spec (s : String) (docs : List Val) (hn : countName s = true) :
    countStage (.str s) docs =
      .ok (if docs.isEmpty then [] else [.doc [(s, .int docs.length)]]) := by
  simp only [countName, Bool.and_eq_true, Bool.not_eq_true', decide_eq_true_eq, ne_eq] at hn
  obtain ⟨⟨h1, h2⟩, h3⟩ := hn
  have h3' : '.' ∉ s.toList := by simpa using h3
  cases hd : docs.isEmpty <;> simp [countStage, h1, h2, h3', hd]

/-! ### `$unwind` on a top-level field -/

theorem splitDotsChars_nodot : ∀ (cs cur : List Char), cs.contains '.' = false →
    splitDotsChars cs cur = [String.ofList (cur.reverse ++ cs)]
  | [], cur, _ => by simp [splitDotsChars]
  | c :: r, cur, h => by
    simp only [List.contains_cons, Bool.or_eq_false_iff, beq_eq_false_iff_ne, ne_eq] at h
    have hc : ¬ c = '.' := fun e => h.1 e.symm
    simp only [splitDotsChars, hc, if_false]
    rw [splitDotsChars_nodot r (c :: cur) h.2]
    simp

theorem splitDots_ofList (r : List Char) (h : r.contains '.' = false) :
    splitDots (String.ofList r) = [String.ofList r] := by
  simp [splitDots, splitDotsChars_nodot _ _ h]

theorem dset_same (k : String) (v : Val) : ∀ fs : Fields, dget k fs = some v → dset k v fs = fs
  | [], h => by simp [dget] at h
  | (k', v') :: r, h => by
    by_cases hk : k' = k
    · simp [dget, hk] at h; subst h; simp [dset, hk]
    · simp [dget, hk] at h; simp [dset, hk, dset_same k v r h]

theorem nestedSet_eq_setNested : ∀ (parts : List String) (v : Val) (g : Fields),
    nestedSet g parts v = setNested parts v g
  | [], _, _ => rfl
  | [_], _, _ => rfl
  | k :: k' :: ks, v, g => by
    simp only [nestedSet, setNested]
    rw [nestedSet_eq_setNested (k' :: ks)]
    cases dget k g with
    | none => rfl
    | some x => cases x <;> rfl

/-- what `setNested` writes can be read back along the same name … -/
theorem getNested_setNested : ∀ (ks : List String) (v : Val) (fs : Fields), ks ≠ [] →
    getNested ks (setNested ks v fs) = some v
  | [], _, _, h => absurd rfl h
  | [k], v, fs, _ => by simp [getNested, setNested, dget_dset_self]
  | k :: k' :: ks, v, fs, _ => by
    simp only [getNested, setNested, dget_dset_self]
    exact getNested_setNested (k' :: ks) v _ (by simp)

/-- … and no other top-level field changes -/
theorem dget_setNested_other (k0 k : String) (h : k ≠ k0) : ∀ (ks : List String) (v : Val)
    (fs : Fields), dget k (setNested (k0 :: ks) v fs) = dget k fs
  | [], v, fs => by simp [setNested, dget_dset_other k0 k v h]
  | k' :: ks, v, fs => by simp [setNested, dget_dset_other k0 k _ h]

/-- the item (and the index, where one is asked for) written by the code = the oracle's fields -/
theorem unwindItem_any (f : String) (pres : Bool) (ix : Option String) (fs : Fields)
    (idx : Option Nat) (item : Val) (hf : splitDots f = [f]) :
    unwindItem ⟨f, pres, ix⟩ (.doc fs) idx item =
      .ok (.doc (withIndex ix (match idx with | some i => .int i | none => .null)
        (dset f item fs))) := by
  cases ix with
  | none => simp [unwindItem, setByDot, hf, setByDotParts, withIndex]
  | some n =>
    simp only [unwindItem, setByDot, hf, setByDotParts, withIndex, setIndex,
      nestedSet_eq_setNested]
    cases idx <;> rfl

theorem unwindItems_any (f : String) (pres : Bool) (ix : Option String) (fs : Fields)
    (hf : splitDots f = [f]) : ∀ (i : Nat) (xs : List Val),
      unwindItems ⟨f, pres, ix⟩ (.doc fs) i xs =
        .ok ((xs.zipIdx i).map (fun xi => .doc (withIndex ix (.int xi.2) (dset f xi.1 fs))))
  | _, [] => rfl
  | i, x :: xs => by
    simp only [unwindItems, unwindItem_any f pres ix fs _ x hf,
      unwindItems_any f pres ix fs hf (i + 1) xs, List.zipIdx_cons, List.map_cons]

theorem preserved_any (f : String) (pres : Bool) (ix : Option String) (fs : Fields) :
    preserved ⟨f, pres, ix⟩ (.doc fs) = .ok (.doc (withIndex ix .null fs)) := by
  cases ix with
  | none => rfl
  | some n => simp [preserved, setIndex, withIndex, nestedSet_eq_setNested]

theorem unwindDoc_eq_spec (f : String) (pres : Bool) (ix : Option String) (fs : Fields)
    (hf : splitDots f = [f]) :
    unwindDoc ⟨f, pres, ix⟩ (.doc fs) = .ok (specUnwindDoc f pres ix (.doc fs)) := by
  simp only [unwindDoc, getByDot, hf, getByDotParts, specUnwindDoc]
  cases hg : dget f fs with
  | none => cases pres <;> simp [preserved_any, Except.map]
  | some v =>
    cases v with
    | null => cases pres <;> simp [preserved_any, Except.map]
    | arr xs =>
      cases xs with
      | nil =>
        cases pres
        · simp
        · simp [delByDot, hf, delByDotParts, dhas, hg, Except.map, preserved_any]
      | cons x r => simp only [unwindItems_any f pres ix fs hf 0 (x :: r)]
    | _ => simp [unwindItem_any f pres ix fs none _ hf, dset_same f _ fs hg, Except.map]

theorem flatMapR_ok_of (f : Val → R (List Val)) (g : Val → List Val) : ∀ (docs : List Val),
    (∀ d ∈ docs, f d = .ok (g d)) → flatMapR f docs = .ok (docs.flatMap g)
  | [], _ => rfl
  | d :: ds, h => by
    simp only [flatMapR, h d (List.mem_cons_self),
      flatMapR_ok_of f g ds (fun x hx => h x (List.mem_cons_of_mem _ hx)), List.flatMap_cons]

theorem fieldRef_some (v : Val) (f : String) (h : fieldRef v = some f) :
    unwindPath v = .ok f ∧ splitDots f = [f] := by
  cases v with
  | str s =>
    simp only [fieldRef] at h
    split at h
    · rename_i r hr
      split at h
      · cases h
      · rename_i hc
        cases h
        simp only [Bool.or_eq_true, not_or, Bool.not_eq_true] at hc
        refine ⟨?_, splitDots_ofList r hc.1.2⟩
        simp [unwindPath, hr]
    · cases h
  | _ => simp [fieldRef] at h

theorem indexName_ne_empty (f n : String) (h : indexName f n = true) : n ≠ "" := by
  intro he
  subst he
  have hs : splitDots "" = [""] := by decide
  simp [indexName, hs] at h

theorem unwindArgs_some (opts : Val) (f : String) (pres : Bool) (ix : Option String)
    (h : unwindArgs opts = some (f, pres, ix)) :
    unwindOpts opts = .ok ⟨f, pres, ix⟩ ∧ splitDots f = [f] := by
  cases opts with
  | doc o =>
    simp only [unwindArgs] at h
    split at h
    · cases h
    · split at h
      · rename_i p hp
        cases hfr : fieldRef p with
        | none => simp [hfr] at h
        | some f' =>
          obtain ⟨hpath, hsplit⟩ := fieldRef_some p f' hfr
          simp only [hfr, Option.bind_some] at h
          cases hix : dget "includeArrayIndex" o with
          | some v =>
            rw [hix] at h
            cases v with
            | str n =>
              simp only at h
              by_cases hn : indexName f' n = true
              · have hne := indexName_ne_empty f' n hn
                simp only [hn, if_true, Option.bind_some] at h
                cases hpr : dget "preserveNullAndEmptyArrays" o with
                | none =>
                  rw [hpr] at h; simp only [Option.some.injEq, Prod.mk.injEq] at h
                  obtain ⟨rfl, rfl, rfl⟩ := h
                  exact ⟨by simp [unwindOpts, hp, hpath, hpr, hix, hne], hsplit⟩
                | some v =>
                  rw [hpr] at h
                  cases v with
                  | bool b =>
                    simp only [Option.some.injEq, Prod.mk.injEq] at h
                    obtain ⟨rfl, rfl, rfl⟩ := h
                    exact ⟨by simp [unwindOpts, hp, hpath, hpr, hix, hne, Val.truthy], hsplit⟩
                  | _ => simp at h
              · simp [hn] at h
            | _ => simp at h
          | none =>
            rw [hix] at h
            simp only [Option.bind_some] at h
            cases hpr : dget "preserveNullAndEmptyArrays" o with
            | none =>
              rw [hpr] at h; simp only [Option.some.injEq, Prod.mk.injEq] at h
              obtain ⟨rfl, rfl, rfl⟩ := h
              exact ⟨by simp [unwindOpts, hp, hpath, hpr, hix], hsplit⟩
            | some v =>
              rw [hpr] at h
              cases v with
              | bool b =>
                simp only [Option.some.injEq, Prod.mk.injEq] at h
                obtain ⟨rfl, rfl, rfl⟩ := h
                exact ⟨by simp [unwindOpts, hp, hpath, hpr, hix, Val.truthy], hsplit⟩
              | _ => simp at h
      · cases h
  | str st =>
    simp only [unwindArgs] at h
    cases hfr : fieldRef (.str st) with
    | none => simp [hfr] at h
    | some f' =>
      obtain ⟨hpath, hsplit⟩ := fieldRef_some _ f' hfr
      simp only [hfr, Option.map_some, Option.some.injEq, Prod.mk.injEq] at h
      obtain ⟨rfl, rfl, rfl⟩ := h
      exact ⟨by simp [unwindOpts, hpath, Except.map], hsplit⟩
  | null => simp [unwindArgs, fieldRef] at h
  | bool _ => simp [unwindArgs, fieldRef] at h
  | int _ => simp [unwindArgs, fieldRef] at h
  | dbl _ _ => simp [unwindArgs, fieldRef] at h
  | date _ _ => simp [unwindArgs, fieldRef] at h
  | oid _ => simp [unwindArgs, fieldRef] at h
  | arr _ => simp [unwindArgs, fieldRef] at h

theorem unwind_eq_spec (opts : Val) (f : String) (pres : Bool) (ix : Option String)
    (docs : List Val)
    (ha : unwindArgs opts = some (f, pres, ix)) (hd : ∀ d ∈ docs, ∃ fs, d = .doc fs) :
    unwindStage opts docs = .ok (docs.flatMap (specUnwindDoc f pres ix)) := by
  obtain ⟨ho, hf⟩ := unwindArgs_some opts f pres ix ha
  simp only [unwindStage, ho]
  apply flatMapR_ok_of
  intro d hdm
  obtain ⟨fs, rfl⟩ := hd d hdm
  exact unwindDoc_eq_spec f pres ix fs hf

/-! ### `$project` (inclusion / exclusion) -/

/-- the part of `aggProject` that does not look at the documents -/
def aggPrep : Val → R (PSpec × Bool)
  | .doc options =>
    if !(options.all (fun kv => isFlag kv.2)) then unmodelled
    else
      match aggFilterList options with
      | .error e => .error e
      | .ok (m, fl) =>
        if fl.isEmpty then .error .typeErr
        else
          match combineSpec true (fl.map (fun k => (splitDots k, Val.int 1))) with
          | .error e => .error e
          | .ok cs => .ok (cs, decide (m = .inc))
  | _ => unmodelled

theorem aggProject_prep (docs : List Val) (p : Val) :
    aggProject docs p =
      (match aggPrep p with
       | .error e => .error e
       | .ok (cs, b) => mapR (aggProjectDoc cs b) docs) := by
  cases p with
  | doc options =>
    simp only [aggProject, aggPrep, bind, Except.bind]
    split
    · rfl
    · cases aggFilterList options with
      | error e => rfl
      | ok mf =>
        obtain ⟨m, fl⟩ := mf
        simp only
        split
        · rfl
        · cases combineSpec true (List.map (fun k => (splitDots k, Val.int 1)) fl) with
          | error e => rfl
          | ok cs => simp only [mapM_eq_mapR]
  | _ => rfl

theorem mapOpt_some {α β} {f : α → Option β} : ∀ {xs : List α} {ys : List β},
    mapOpt f xs = some ys → List.Forall₂ (fun x y => f x = some y) xs ys
  | [], ys, h => by simp [mapOpt] at h; subst h; exact List.Forall₂.nil
  | x :: xs, ys, h => by
    simp only [mapOpt] at h
    cases hx : f x with
    | none => simp [hx] at h
    | some y =>
      cases hr : mapOpt f xs with
      | none => simp [hx, hr] at h
      | some r =>
        simp only [hx, hr, Option.some.injEq] at h
        subst h
        exact List.Forall₂.cons hx (mapOpt_some hr)

theorem project_eq_spec (options : Fields) (docs s : List Val)
    (hflags : options.all (fun kv => isFlag kv.2) = true)
    (h0 : Spec.Proj.aggReasons (.doc options) (.doc []) = [])
    (hD : ∀ d ∈ docs, Spec.Proj.aggReasons (.doc options) d = [])
    (hs : mapOpt (Spec.Proj.project (.doc options)) docs = some s) :
    projectStage (.doc options) docs = .ok s := by
  rw [projectStage_flags options docs hflags, aggProject_prep]
  obtain ⟨s0, _, hw⟩ := MongoModel.Proofs.C12.agg_exact (.doc options) (.doc []) h0
  rw [aggProject_prep] at hw
  cases hp : aggPrep (.doc options) with
  | error e => rw [hp] at hw; cases hw
  | ok cb =>
    obtain ⟨cs, b⟩ := cb
    simp only
    apply mapR_ok_iff.2
    have hf := mapOpt_some hs
    clear hs hw
    induction hf with
    | nil => exact List.Forall₂.nil
    | @cons d y ds ys hdy _ ih =>
      refine List.Forall₂.cons ?_ (ih (fun x hx => hD x (List.mem_cons_of_mem _ hx)))
      obtain ⟨sd, h1, h2⟩ := MongoModel.Proofs.C12.agg_exact (.doc options) d (hD d (List.mem_cons_self))
      rw [h1] at hdy; cases hdy
      rw [aggProject_prep, hp] at h2
      simp only [mapR] at h2
      cases hx : aggProjectDoc cs b d with
      | error e => simp [hx] at h2
      | ok y' => simp [hx] at h2; rw [h2]

/-! ### every stage the oracle speaks about, and pipelines of them -/

theorem flatMap_nil_iff' {α} (l : List α) (f : α → List String) :
    l.flatMap f = [] ↔ ∀ x ∈ l, f x = [] := List.flatMap_eq_nil_iff

theorem tag_nil (t : String) (rs : List String) : tag t rs = [] ↔ rs = [] := by
  simp [tag]

/-- the count the handlers read is the count the rules read: an integer, or a double that holds
    a whole number -/
theorem stageCount_eq_spec (v : Val) : stageCount v = sliceCount v := by
  cases v <;> rfl

theorem stage_eq_spec (db : Db) (op : String) (opts : Val) (docs s : List Val)
    (hD : stageReasons op opts docs = []) (hs : specStage op opts docs = some s) :
    simpleStage db op opts docs = .ok s := by
  by_cases h1 : op = "$match"
  · subst h1
    simp only [stageReasons, if_true, List.append_eq_nil_iff, flatMap_nil_iff', tag_nil] at hD
    simp only [specStage, if_true] at hs
    obtain ⟨⟨hf, hE⟩, hdocs⟩ := hD
    have hf' : normalV opts = true := by
      by_cases h : normalV opts = true
      · exact h
      · simp [h] at hf
    show matchStage opts docs = .ok s
    refine match_eq_spec opts (normalV_patch opts hf') docs s ?_ ?_ hs
    · intro he
      subst he
      simp only [List.isEmpty_nil, if_true, tag_nil] at hE
      simp [Spec.inD, hE]
    intro d hd
    obtain ⟨hn, hr⟩ := hdocs d hd
    have hn' : normalV d = true := by
      by_cases h : normalV d = true
      · exact h
      · simp [h] at hn
    exact ⟨normalV_patch d hn', by simp [Spec.inD, hr]⟩
  by_cases h2 : op = "$sort"
  · subst h2
    simp only [stageReasons, specStage, if_true] at hD hs
    simp only [show ¬ ("$sort" = "$match") by decide, if_false] at hD hs
    cases opts with
    | doc fs =>
      simp only at hD hs
      split at hs
      · cases hs
      · cases hsp : specSortSpec fs with
        | none => simp [hsp] at hs
        | some spec =>
          simp only [hsp, Option.map_some, Option.some.injEq, tag_nil] at hs hD
          subst hs
          exact sort_eq_spec fs spec docs hsp hD
    | _ => simp at hs
  by_cases h3 : op = "$skip"
  · subst h3
    simp only [specStage, show ¬ ("$skip" = "$match") by decide,
      show ¬ ("$skip" = "$sort") by decide, if_false, if_true] at hs
    show skipStage opts docs = .ok s
    cases hc : sliceCount opts with
    | none => simp [hc] at hs
    | some k =>
      simp only [hc] at hs
      split at hs
      · rename_i hk
        cases hs
        rw [skipStage_count opts k docs ((stageCount_eq_spec opts).trans hc), if_pos hk]
      · cases hs
  by_cases h4 : op = "$limit"
  · subst h4
    simp only [specStage, show ¬ ("$limit" = "$match") by decide,
      show ¬ ("$limit" = "$sort") by decide, show ¬ ("$limit" = "$skip") by decide,
      if_false, if_true] at hs
    show limitStage opts docs = .ok s
    cases hc : sliceCount opts with
    | none => simp [hc] at hs
    | some k =>
      simp only [hc] at hs
      split at hs
      · rename_i hk
        cases hs
        rw [limitStage_count opts k docs ((stageCount_eq_spec opts).trans hc), if_pos hk]
      · cases hs
  by_cases h5 : op = "$count"
  · subst h5
    simp only [specStage, stageReasons, show ¬ ("$count" = "$match") by decide,
      show ¬ ("$count" = "$sort") by decide, show ¬ ("$count" = "$skip") by decide,
      show ¬ ("$count" = "$limit") by decide, decide_false, Bool.or_self, Bool.false_eq_true, if_false, if_true] at hs hD
    cases opts with
    | str nm =>
      simp only at hs
      split at hs
      · rename_i hn
        simp only [Option.some.injEq] at hs
        subst hs
        exact count_eq_spec nm docs hn
      · cases hs
    | _ => simp at hs
  by_cases h6 : op = "$project"
  · subst h6
    simp only [specStage, stageReasons, show ¬ ("$project" = "$match") by decide,
      show ¬ ("$project" = "$sort") by decide, show ¬ ("$project" = "$skip") by decide,
      show ¬ ("$project" = "$limit") by decide, decide_false, Bool.or_self, Bool.false_eq_true, show ¬ ("$project" = "$count") by decide,
      if_false, if_true] at hs hD
    cases opts with
    | doc options =>
      simp only [List.append_eq_nil_iff, flatMap_nil_iff', tag_nil] at hD
      obtain ⟨⟨hfl, h0⟩, hdocs⟩ := hD
      have hfl' : options.all (fun kv => isFlag kv.2) = true := by
        by_cases h : options.all (fun kv => isFlag kv.2) = true
        · exact h
        · simp [h] at hfl
      exact project_eq_spec options docs s hfl' h0 hdocs hs
    | _ => simp at hD
  by_cases h7 : op = "$unwind"
  · subst h7
    simp only [specStage, stageReasons, show ¬ ("$unwind" = "$match") by decide,
      show ¬ ("$unwind" = "$sort") by decide, show ¬ ("$unwind" = "$skip") by decide,
      show ¬ ("$unwind" = "$limit") by decide, decide_false, Bool.or_self, Bool.false_eq_true, show ¬ ("$unwind" = "$count") by decide,
      show ¬ ("$unwind" = "$project") by decide, if_false, if_true] at hs hD
    cases ha : unwindArgs opts with
    | none => simp [ha] at hs
    | some a =>
      obtain ⟨f, pres, ix⟩ := a
      simp only [ha, Option.map_some, Option.some.injEq, flatMap_nil_iff'] at hs hD
      subst hs
      show unwindStage opts docs = _
      refine unwind_eq_spec opts f pres ix docs ha ?_
      intro d hd
      have := hD d hd
      cases d with
      | doc fs => exact ⟨fs, rfl⟩
      | _ => simp at this
  · simp [specStage, h1, h2, h3, h4, h5, h6, h7] at hs

/-- the oracle never speaks about `$facet`, so on D every stage is a simple one -/
theorem specStage_not_facet (opts : Val) (docs : List Val) : specStage "$facet" opts docs = none := by
  simp [specStage]

theorem pipeline_eq_spec (db : Db) : ∀ (p : List Val) (docs s : List Val),
    pipelineReasons p docs = [] → specPipeline p docs = some s → runPipeline db p docs = .ok s
  | [], docs, s, _, hs => by simp [specPipeline] at hs; subst hs; rfl
  | st :: rest, docs, s, hD, hs => by
    match st, hD, hs with
    | .doc [(op, opts)], hD, hs =>
      simp only [pipelineReasons, List.append_eq_nil_iff] at hD
      simp only [specPipeline] at hs
      cases hst : specStage op opts docs with
      | none => simp [hst] at hs
      | some out =>
        simp only [hst, Option.bind_some] at hs hD
        have hne : op ≠ "$facet" := by
          intro h; subst h; rw [specStage_not_facet] at hst; cases hst
        have h1 := stage_eq_spec db op opts docs out hD.1 hst
        simp only [runPipeline, runStage_single, runOp_simple db op opts docs hne, h1]
        exact pipeline_eq_spec db rest out s hD.2 hs

/-! ### `Collection.aggregate` normalises the datetimes of its pipeline -/

theorem normPipeline_normal (stages : List Val) : ∀ st ∈ normPipeline stages, normalV st = true := by
  intro st hst
  have h := (MongoModel.Proofs.C18.allDatesL_iff Normal (patchList stages)).1
    (MongoModel.Proofs.C18.patchList_normal stages) st hst
  exact (MongoModel.Proofs.C18.allNormalB_iff st).2 h

theorem normPipeline_idem (stages : List Val) :
    normPipeline (normPipeline stages) = normPipeline stages :=
  MongoModel.Proofs.C18.patchList_idem stages

theorem normPipeline_fixes (stages : List Val) (h : ∀ st ∈ stages, normalV st = true) :
    normPipeline stages = stages := by
  apply MongoModel.Proofs.C18.patchList_fixes_normal
  exact (MongoModel.Proofs.C18.allDatesL_iff Normal stages).2
    (fun st hst => (MongoModel.Proofs.C18.allNormalB_iff st).1 (h st hst))

/-! ### what MongoDB rejects, the code refuses -/

/-- a `$limit` / `$skip` / `$count` argument MongoDB refuses makes the handler raise
    OperationFailure, whatever the input -/
theorem argRejected_opFail (db : Db) (op : String) (opts : Val) (docs : List Val)
    (h : argRejected op opts = true) : simpleStage db op opts docs = .error .opFail := by
  unfold argRejected at h
  by_cases h1 : op = "$limit"
  · subst h1
    show limitStage opts docs = .error .opFail
    simp only [if_true] at h
    cases hc : sliceCount opts with
    | none => exact limitStage_nocount opts docs ((stageCount_eq_spec opts).trans hc)
    | some n =>
      simp only [hc, decide_eq_true_eq] at h
      rw [limitStage_count opts n docs ((stageCount_eq_spec opts).trans hc),
        if_neg (Int.not_lt.mpr h)]
  by_cases h2 : op = "$skip"
  · subst h2
    show skipStage opts docs = .error .opFail
    simp only [show ¬ ("$skip" = "$limit") by decide, if_false, if_true] at h
    cases hc : sliceCount opts with
    | none => exact skipStage_nocount opts docs ((stageCount_eq_spec opts).trans hc)
    | some n =>
      simp only [hc, decide_eq_true_eq] at h
      rw [skipStage_count opts n docs ((stageCount_eq_spec opts).trans hc),
        if_neg (Int.not_le.mpr h)]
  by_cases h3 : op = "$count"
  · subst h3
    show countStage opts docs = .error .opFail
    cases opts with
    | str s =>
      simp only [show ¬ ("$count" = "$limit") by decide, show ¬ ("$count" = "$skip") by decide,
        if_false, if_true, countName, Bool.not_and, Bool.or_eq_true, Bool.not_eq_true',
        decide_eq_false_iff_not, ne_eq, not_not, Bool.not_not] at h
      simp only [countStage]
      rcases h with (h | h) | h
      · simp [h]
      · by_cases he : s = "" <;> simp [he, h]
      · have h' : '.' ∈ s.toList := by simpa using h
        by_cases he : s = "" <;> by_cases hd : startsWithDollar s = true <;> simp [he, hd, h']
    | _ => rfl
  · simp [h1, h2, h3] at h

/-- a stage MongoDB rejects — not a one-field document, or a refused argument — makes the code
    raise (a Python error: the model does express these cases) -/
theorem runStage_rejected (db : Db) (st : Val) (docs : List Val) (h : stageRejected st = true) :
    ∃ e, e ≠ Err.unmodelled ∧ runStage db st docs = .error e := by
  cases st with
  | doc fs =>
    match fs, h with
    | [], _ => exact ⟨.opFail, by decide, rfl⟩
    | [(op, opts)], h =>
      simp only [stageRejected] at h
      have hne : op ≠ "$facet" := by
        intro he; subst he; simp [argRejected] at h
      refine ⟨.opFail, by decide, ?_⟩
      rw [runStage_single, runOp_simple db op opts docs hne]
      exact argRejected_opFail db op opts docs h
    | _ :: _ :: _, _ => exact ⟨.opFail, by decide, by simp [runStage, runOps]⟩
  | str s =>
    by_cases hl : s.length = 1
    · exact ⟨.attrErr, by decide, by simp [runStage, hl]⟩
    · exact ⟨.opFail, by decide, by simp [runStage, hl]⟩
  | arr xs =>
    by_cases hl : xs.length = 1
    · exact ⟨.attrErr, by decide, by simp [runStage, hl]⟩
    · exact ⟨.opFail, by decide, by simp [runStage, hl]⟩
  | null => exact ⟨.typeErr, by decide, rfl⟩
  | bool _ => exact ⟨.typeErr, by decide, rfl⟩
  | int _ => exact ⟨.typeErr, by decide, rfl⟩
  | dbl _ _ => exact ⟨.typeErr, by decide, rfl⟩
  | date _ _ => exact ⟨.typeErr, by decide, rfl⟩
  | oid _ => exact ⟨.typeErr, by decide, rfl⟩

/-- a pipeline holding a rejected stage never answers documents -/
theorem runPipeline_rejected (db : Db) : ∀ (p docs : List Val), p.any stageRejected = true →
    ∀ out, runPipeline db p docs ≠ .ok out
  | [], _, h, _ => by simp at h
  | st :: rest, docs, h, out => by
    simp only [runPipeline]
    cases hr : runStage db st docs with
    | error e => simp
    | ok docs' =>
      simp only [List.any_cons, Bool.or_eq_true] at h
      rcases h with h | h
      · obtain ⟨e, _, he⟩ := runStage_rejected db st docs h
        rw [he] at hr; cases hr
      · exact runPipeline_rejected db rest docs' h out

/-- on EVERY argument the oracle of `$skip` / `$limit` speaks (documents or rejected) and the
    case lies in the domain -/
theorem slice_spec_total (op : String) (o : Val) (docs : List Val)
    (hop : op = "$skip" ∨ op = "$limit") :
    (∃ v, specStageV op o docs = some v) ∧ stageReasons op o docs = [] := by
  rcases hop with rfl | rfl
  · refine ⟨?_, by simp [stageReasons]⟩
    cases hc : sliceCount o with
    | none => exact ⟨.rejected, by simp [specStageV, argRejected, hc]⟩
    | some n =>
      by_cases hn : 0 ≤ n
      · exact ⟨.docs (docs.drop n.toNat), by
          simp [specStageV, argRejected, specStage, hc, hn, Int.not_lt.mpr hn]⟩
      · exact ⟨.rejected, by simp [specStageV, argRejected, hc, Int.not_le.mp hn]⟩
  · refine ⟨?_, by simp [stageReasons]⟩
    cases hc : sliceCount o with
    | none => exact ⟨.rejected, by simp [specStageV, argRejected, hc]⟩
    | some n =>
      by_cases hn : 0 < n
      · exact ⟨.docs (docs.take n.toNat), by
          simp [specStageV, argRejected, specStage, hc, hn, Int.not_le.mpr hn]⟩
      · exact ⟨.rejected, by simp [specStageV, argRejected, hc, Int.not_lt.mp hn]⟩

theorem stageV_eq_spec (db : Db) (op : String) (opts : Val) (docs : List Val) (v : Verdict)
    (hD : stageReasons op opts docs = []) (hs : specStageV op opts docs = some v) :
    v.agrees (simpleStage db op opts docs) := by
  unfold specStageV at hs
  split at hs
  · rename_i hr
    cases hs
    intro out
    rw [argRejected_opFail db op opts docs hr]
    simp
  · cases hst : specStage op opts docs with
    | none => simp [hst] at hs
    | some s =>
      simp only [hst, Option.map_some, Option.some.injEq] at hs
      subst hs
      exact stage_eq_spec db op opts docs s hD hst

theorem pipelineV_eq_spec (db : Db) (p docs : List Val) (v : Verdict)
    (hD : pipelineReasonsV p docs = []) (hs : specPipelineV p docs = some v) :
    v.agrees (runPipeline db p docs) := by
  unfold specPipelineV at hs
  unfold pipelineReasonsV at hD
  split at hs
  · rename_i hr
    cases hs
    exact runPipeline_rejected db p docs hr
  · rename_i hr
    simp only [hr] at hD
    cases hsp : specPipeline p docs with
    | none => simp [hsp] at hs
    | some s =>
      simp only [hsp, Option.map_some, Option.some.injEq] at hs
      subst hs
      exact pipeline_eq_spec db p docs s hD hsp

end MongoModel.Pipe.Proofs
