/-
  Proofs.C17Coll — one collection: the handle operations of the model against the oracle's.
-/
import Proofs.C17AL

namespace MongoModel.Proofs.C17
open MongoModel MongoModel.Catalog MongoModel.Spec.Catalog

theorem alUpsert_ne_nil {α β : Type} [DecidableEq α] (k : α) (v : β) (l : List (α × β)) :
    alUpsert k v l ≠ [] := by
  cases l with
  | nil => simp [alUpsert]
  | cons p r => obtain ⟨a, b⟩ := p; simp only [alUpsert]; split <;> simp

theorem isCreated_false_iff (c : Coll) : c.isCreated = false ↔ c = Coll.empty := by
  obtain ⟨docs, idx, f⟩ := c
  cases docs <;> cases idx <;> cases f <;> simp [Coll.isCreated, Coll.empty]

theorem toS_empty : toS Coll.empty = none := by simp [toS, Coll.isCreated, Coll.empty]

theorem toS_eq_none_iff (c : Coll) : toS c = none ↔ c.isCreated = false := by
  unfold toS; split <;> simp [*]

theorem toS_isSome (c : Coll) : (toS c).isSome = c.isCreated := by
  unfold toS; split <;> simp [*]

theorem toS_created {c : Coll} (h : c.isCreated = true) : toS c = some ⟨c.docs, c.indexes⟩ := by
  simp [toS, h]

/-! ### existence is recorded -/

theorem recorded_empty : Coll.empty.recorded = true := rfl

/-- a store in which existence is recorded has its flag set or is the empty store -/
theorem recorded_cases {c : Coll} (h : c.recorded = true) :
    c.forceCreated = true ∨ c = Coll.empty := by
  obtain ⟨docs, idx, f⟩ := c
  cases f
  · cases docs <;> cases idx <;> simp_all [Coll.recorded, Coll.empty]
  · exact Or.inl rfl

theorem recorded_of_flag {c : Coll} (h : c.forceCreated = true) : c.recorded = true := by
  simp [Coll.recorded, h]

theorem isCreated_of_flag {c : Coll} (h : c.forceCreated = true) : c.isCreated = true := by
  simp [Coll.isCreated, h]

/-- where existence is recorded, `is_created` is the flag -/
theorem isCreated_eq_flag {c : Coll} (h : c.recorded = true) : c.isCreated = c.forceCreated := by
  rcases recorded_cases h with hf | he
  · rw [isCreated_of_flag hf, hf]
  · subst he; rfl

/-- no handle operation but `drop` ever resets the flag -/
theorem collOp_flag (o : CollOp) (c : Coll) (hd : o.isDrop = false)
    (hf : c.forceCreated = true) : (collOp o c).1.forceCreated = true := by
  cases o with
  | drop => simp [CollOp.isDrop] at hd
  | find => exact hf
  | indexInformation => exact hf
  | insert id => simp only [collOp]; split <;> simp [hf]
  | deleteOne id => simp only [collOp]; split <;> simp [hf]
  | deleteAll => simp [collOp, hf]
  | createIndex nm info =>
    simp only [collOp]
    cases alGet? (nm.getD (genIndexName info.key)) c.indexes with
    | none => rfl
    | some ex => simp only []; split <;> simp [hf]
  | dropIndex r => simp only [collOp]; split <;> simp [hf]
  | dropIndexes => simp [collOp, hf]

/-- every handle operation keeps existence recorded -/
theorem collOp_recorded (o : CollOp) (c : Coll) (h : c.recorded = true) :
    (collOp o c).1.recorded = true := by
  by_cases hd : o.isDrop = true
  · cases o <;> simp [CollOp.isDrop] at hd
    exact recorded_empty
  rcases recorded_cases h with hf | he
  · exact recorded_of_flag (collOp_flag o c (by simpa using hd) hf)
  · subst he
    cases o with
    | createIndex nm info => simp [collOp, Coll.empty, Coll.recorded, alGet?]
    | dropIndex r => simp [collOp, Coll.empty, Coll.recorded, alHas, alGet?]
    | _ => simp [collOp, Coll.empty, Coll.recorded]

/-- on a store in which existence is recorded, a handle operation acts on the abstraction
    exactly as the oracle says, with the same output: nothing but `drop` makes it vanish -/
theorem collOp_refines (o : CollOp) (c : Coll) (h : c.recorded = true) :
    toS (collOp o c).1 = (scollOp o (toS c)).1 ∧ (collOp o c).2 = (scollOp o (toS c)).2 := by
  rcases recorded_cases h with hf | he
  · have hc : c.isCreated = true := isCreated_of_flag hf
    rw [toS_created hc]
    cases o with
    | find => simp [collOp, scollOp, toS, hc]
    | indexInformation => simp [collOp, scollOp, toS, hc]
    | insert id =>
      simp only [collOp, scollOp]
      split
      · simp [toS, hc]
      · simp [toS, Coll.isCreated]
    | deleteOne id =>
      simp only [collOp, scollOp]
      split
      · simp [toS, Coll.isCreated, hf]
      · simp [toS, hc]
    | deleteAll => simp [collOp, scollOp, toS, Coll.isCreated, hf]
    | createIndex nm info =>
      simp only [collOp, scollOp]
      generalize nm.getD (genIndexName info.key) = name
      cases hg : alGet? name c.indexes with
      | none => simp [toS, Coll.isCreated]
      | some ex => by_cases he : ex = info <;> simp [he, toS, Coll.isCreated, hf]
    | dropIndex r =>
      simp only [collOp, scollOp]
      split
      · simp [toS, Coll.isCreated, hf]
      · simp [toS, hc]
    | dropIndexes => simp [collOp, scollOp, toS, Coll.isCreated, hf]
    | drop => simp [collOp, scollOp, toS_empty]
  · subst he
    rw [toS_empty]
    cases o with
    | find => simp [collOp, scollOp, toS, Coll.empty, Coll.isCreated]
    | indexInformation => simp [collOp, scollOp, toS, Coll.empty, Coll.isCreated]
    | insert id => simp [collOp, scollOp, toS, Coll.empty, Coll.isCreated]
    | deleteOne id => simp [collOp, scollOp, toS, Coll.empty, Coll.isCreated]
    | deleteAll => simp [collOp, scollOp, toS, Coll.empty, Coll.isCreated]
    | createIndex nm info =>
      simp [collOp, scollOp, toS, Coll.empty, Coll.isCreated, alGet?, alUpsert]
    | dropIndex r => simp [collOp, scollOp, toS, Coll.empty, Coll.isCreated, alHas, alGet?]
    | dropIndexes => simp [collOp, scollOp, toS, Coll.empty, Coll.isCreated]
    | drop => simp [collOp, scollOp, toS, Coll.empty, Coll.isCreated]

end MongoModel.Proofs.C17
