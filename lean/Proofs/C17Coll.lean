/-
  Proofs.C17Coll — one collection: the handle operations of the model against the oracle's.
-/
import Proofs.C17AL

namespace MongoModel.Proofs.C17
open MongoModel MongoModel.Catalog MongoModel.Spec.Catalog

theorem alUpsert_ne_nil {α β : Type} [DecidableEq α] (k : α) (v : β) (l : List (α × β)) :
    alUpsert k v l ≠ [] := by
  cases l with
  | nil => simp [alUpsert]
  | cons p r => obtain ⟨a, b⟩ := p; simp only [alUpsert]; split <;> simp

theorem isCreated_false_iff (c : Coll) : c.isCreated = false ↔ c = Coll.empty := by
  obtain ⟨docs, idx, f⟩ := c
  cases docs <;> cases idx <;> cases f <;> simp [Coll.isCreated, Coll.empty]

theorem toS_empty : toS Coll.empty = none := by simp [toS, Coll.isCreated, Coll.empty]

theorem toS_eq_none_iff (c : Coll) : toS c = none ↔ c.isCreated = false := by
  unfold toS; split <;> simp [*]

theorem toS_isSome (c : Coll) : (toS c).isSome = c.isCreated := by
  unfold toS; split <;> simp [*]

theorem toS_created {c : Coll} (h : c.isCreated = true) : toS c = some ⟨c.docs, c.indexes⟩ := by
  simp [toS, h]

/-- a step that does not make an existing collection vanish acts on the abstraction exactly as
    the oracle says, with the same output -/
theorem collOp_refines (o : CollOp) (c : Coll)
    (h : (!o.isDrop && c.isCreated && !(collOp o c).1.isCreated) = false) :
    toS (collOp o c).1 = (scollOp o (toS c)).1 ∧ (collOp o c).2 = (scollOp o (toS c)).2 := by
  by_cases hc : c.isCreated = true
  · rw [toS_created hc]
    simp only [hc, Bool.and_true] at h
    cases o with
    | find => simp [collOp, scollOp, toS, hc]
    | indexInformation => simp [collOp, scollOp, toS, hc]
    | insert id =>
      simp only [collOp, scollOp]
      split
      · simp [toS, hc]
      · simp [toS, Coll.isCreated]
    | deleteOne id =>
      simp only [collOp, scollOp] at h ⊢
      split
      · rename_i hm
        simp only [hm, if_true, CollOp.isDrop, Bool.not_false, Bool.true_and,
          Bool.not_eq_false'] at h
        simp [toS, h]
      · simp [toS, hc]
    | deleteAll =>
      simp only [collOp, scollOp, CollOp.isDrop, Bool.not_false, Bool.true_and,
        Bool.not_eq_false'] at h ⊢
      simp [toS, h]
    | createIndex nm info =>
      simp only [collOp, scollOp]
      generalize nm.getD (genIndexName info.key) = name
      have hup : ({ c with indexes := alUpsert name info c.indexes } : Coll).isCreated = true := by
        have := alUpsert_ne_nil name info c.indexes
        cases hu : alUpsert name info c.indexes with
        | nil => exact absurd hu this
        | cons p r => simp [Coll.isCreated]
      cases hg : alGet? name c.indexes with
      | none => simp [toS, hup]
      | some ex => by_cases he : ex = info <;> simp [he, toS, hup, hc]
    | dropIndex r =>
      simp only [collOp, scollOp] at h ⊢
      split
      · rename_i hm
        simp only [hm, if_true, CollOp.isDrop, Bool.not_false, Bool.true_and,
          Bool.not_eq_false'] at h
        simp [toS, h]
      · simp [toS, hc]
    | dropIndexes =>
      simp only [collOp, scollOp, CollOp.isDrop, Bool.not_false, Bool.true_and,
        Bool.not_eq_false'] at h ⊢
      simp [toS, h]
    | drop => simp [collOp, scollOp, toS_empty]
  · have hc' : c.isCreated = false := by simpa using hc
    have he := (isCreated_false_iff c).mp hc'
    subst he
    rw [toS_empty]
    cases o with
    | find => simp [collOp, scollOp, toS, Coll.empty, Coll.isCreated]
    | indexInformation => simp [collOp, scollOp, toS, Coll.empty, Coll.isCreated]
    | insert id => simp [collOp, scollOp, toS, Coll.empty, Coll.isCreated]
    | deleteOne id => simp [collOp, scollOp, toS, Coll.empty, Coll.isCreated]
    | deleteAll => simp [collOp, scollOp, toS, Coll.empty, Coll.isCreated]
    | createIndex nm info =>
      simp [collOp, scollOp, toS, Coll.empty, Coll.isCreated, alGet?, alUpsert]
    | dropIndex r => simp [collOp, scollOp, toS, Coll.empty, Coll.isCreated, alHas, alGet?]
    | dropIndexes => simp [collOp, scollOp, toS, Coll.empty, Coll.isCreated]
    | drop => simp [collOp, scollOp, toS, Coll.empty, Coll.isCreated]

end MongoModel.Proofs.C17
