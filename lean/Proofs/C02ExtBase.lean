/-
  Proofs.C02ExtBase — the abstract part of "a whole update is the pointwise combination of its
  entries": steps that read and write a document only at a set `H` of top-level keys (`Local`),
  their sequential composition, and the two fold theorems (`fold_pointwise`, `fold_error_iff`).

  Documents of the model may hold a key twice, so "the document at key `k`" is the list of ALL
  entries with that key (`proj k`), not only the first one (`dget k`).
-/
import Proofs.C02Frame

set_option linter.unusedSimpArgs false
set_option linter.unusedVariables false

namespace MongoModel.Proofs.C02Lemmas
open MongoModel MongoModel.Spec

/-! ### the part of a document at one key -/

/-- all entries of `fs` under the key `k`, in order -/
def proj (k : String) (fs : Fields) : Fields := fs.filter (fun kv => kv.1 = k)

theorem proj_cons (k : String) (kv : String × Val) (r : Fields) :
    proj k (kv :: r) = if kv.1 = k then kv :: proj k r else proj k r := by
  simp only [proj, List.filter_cons, decide_eq_true_eq]

theorem dget_proj (k : String) : ∀ fs : Fields, dget k (proj k fs) = dget k fs
  | [] => rfl
  | (k', v) :: r => by
    rw [proj_cons]
    by_cases e : k' = k
    · simp [dget, e]
    · simp only [e, if_false, dget]; exact dget_proj k r

theorem dget_of_proj {k : String} {fs gs : Fields} (h : proj k fs = proj k gs) :
    dget k fs = dget k gs := by
  rw [← dget_proj k fs, ← dget_proj k gs, h]

theorem proj_dset_other {k p : String} (v : Val) (h : k ≠ p) :
    ∀ fs : Fields, proj k (dset p v fs) = proj k fs
  | [] => by
    have : ¬ p = k := fun e => h e.symm
    simp [dset, proj, this]
  | (k', v') :: r => by
    simp only [dset]
    split
    · rename_i e; subst e
      have : ¬ k' = k := fun e => h e.symm
      simp [proj_cons, this]
    · simp only [proj_cons, proj_dset_other v h r]

theorem proj_derase_other {k p : String} (h : k ≠ p) :
    ∀ fs : Fields, proj k (derase p fs) = proj k fs
  | [] => by simp [derase]
  | (k', v') :: r => by
    simp only [derase]
    split
    · rename_i e; subst e
      have : ¬ k' = k := fun e => h e.symm
      simp [proj_cons, this]
    · simp only [proj_cons, proj_derase_other h r]

theorem proj_dset_same (p : String) (v : Val) :
    ∀ fs : Fields, proj p (dset p v fs) = dset p v (proj p fs)
  | [] => by simp [dset, proj]
  | (k', v') :: r => by
    by_cases e : k' = p
    · subst e; simp [dset, proj_cons]
    · simp only [dset, e, if_false, proj_cons]; exact proj_dset_same p v r

theorem proj_derase_same (p : String) :
    ∀ fs : Fields, proj p (derase p fs) = derase p (proj p fs)
  | [] => by simp [derase, proj]
  | (k', v') :: r => by
    by_cases e : k' = p
    · subst e; simp [derase, proj_cons]
    · simp only [derase, e, if_false, proj_cons]; exact proj_derase_same p r

/-! ### agreement and frames -/

/-- `fs` and `gs` hold the same entries under every key of `H` -/
def Agree (H : List String) (fs gs : Fields) : Prop := ∀ k, k ∈ H → proj k fs = proj k gs

/-- outside `H` the document `fs'` holds what `fs` held -/
def FrameP (H : List String) (fs fs' : Fields) : Prop := ∀ k, k ∉ H → proj k fs' = proj k fs

theorem Agree.refl (H : List String) (fs : Fields) : Agree H fs fs := fun _ _ => rfl

theorem Agree.symm {H : List String} {fs gs : Fields} (h : Agree H fs gs) : Agree H gs fs :=
  fun k hk => (h k hk).symm

theorem Agree.trans {H : List String} {fs gs hs : Fields} (h1 : Agree H fs gs)
    (h2 : Agree H gs hs) : Agree H fs hs := fun k hk => (h1 k hk).trans (h2 k hk)

theorem Agree.mono {H H' : List String} {fs gs : Fields} (h : Agree H fs gs)
    (hs : ∀ k, k ∈ H' → k ∈ H) : Agree H' fs gs := fun k hk => h k (hs k hk)

theorem Agree.dget {H : List String} {fs gs : Fields} (h : Agree H fs gs) {k : String}
    (hk : k ∈ H) : dget k fs = dget k gs := dget_of_proj (h k hk)

theorem FrameP.refl (H : List String) (fs : Fields) : FrameP H fs fs := fun _ _ => rfl

/-- a frame away from `H'` keeps agreement on `H'` -/
theorem FrameP.agree {H H' : List String} {fs fs' : Fields} (h : FrameP H fs fs')
    (hd : ∀ k, k ∈ H' → k ∉ H) : Agree H' fs' fs := fun k hk => h k (hd k hk)

/-! ### local steps -/

/-- the outcomes of one step on two documents: the same error, or two documents that agree on
    `H` and are unchanged outside `H` -/
inductive Rel (H : List String) (fs gs : Fields) : R Val → R Val → Prop
  | err (e : Err) : Rel H fs gs (.error e) (.error e)
  | ok (fs' gs' : Fields) : Agree H fs' gs' → FrameP H fs fs' → FrameP H gs gs' →
      Rel H fs gs (.ok (.doc fs')) (.ok (.doc gs'))

/-- `F` reads and writes a document only at the top-level keys `H`: on documents that agree on
    `H` it fails alike or yields documents that agree on `H`, each unchanged outside `H` -/
def Local (H : List String) (F : Val → R Val) : Prop :=
  ∀ fs gs, Agree H fs gs → Rel H fs gs (F (.doc fs)) (F (.doc gs))

theorem Local.id (H : List String) : Local H (fun d => .ok d) :=
  fun fs gs h => .ok fs gs h (FrameP.refl _ _) (FrameP.refl _ _)

theorem Local.fail (H : List String) (e : Err) : Local H (fun _ => .error e) :=
  fun _ _ _ => .err e

theorem Local.congr {H : List String} {F G : Val → R Val} (h : Local H F)
    (he : ∀ d, G d = F d) : Local H G := by
  intro fs gs ha
  rw [he, he]; exact h fs gs ha

/-- a successful local step yields a document, unchanged outside `H` -/
theorem Local.frame {H : List String} {F : Val → R Val} (hF : Local H F) {fs : Fields} {d' : Val}
    (h : F (.doc fs) = .ok d') : ∃ fs', d' = .doc fs' ∧ FrameP H fs fs' := by
  have hr := hF fs fs (Agree.refl _ _)
  rw [h] at hr
  cases hr with
  | ok fs' gs' _ hf _ => exact ⟨fs', rfl, hf⟩

theorem Local.comp {H H' : List String} {F G : Val → R Val} (hF : Local H F) (hG : Local H' G) :
    Local (H ++ H') (fun d => (F d).bind G) := by
  intro fs gs ha
  have ha1 : Agree H fs gs := ha.mono (fun k hk => List.mem_append_left _ hk)
  have hr := hF fs gs ha1
  -- case analysis on the two outcomes of `F`
  generalize hx : F (.doc fs) = x at hr
  generalize hy : F (.doc gs) = y at hr
  show Rel (H ++ H') fs gs ((F (.doc fs)).bind G) ((F (.doc gs)).bind G)
  rw [hx, hy]
  cases hr with
  | err e => exact .err e
  | ok fs1 gs1 hag hf1 hg1 =>
    have ha2 : Agree H' fs1 gs1 := by
      intro k hk
      by_cases hkH : k ∈ H
      · exact hag k hkH
      · rw [hf1 k hkH, hg1 k hkH]; exact ha k (List.mem_append_right _ hk)
    have hr2 := hG fs1 gs1 ha2
    show Rel (H ++ H') fs gs (G (.doc fs1)) (G (.doc gs1))
    generalize G (.doc fs1) = x2 at hr2
    generalize G (.doc gs1) = y2 at hr2
    cases hr2 with
    | err e => exact .err e
    | ok fs2 gs2 hag2 hf2 hg2 =>
      refine .ok fs2 gs2 ?_ ?_ ?_
      · intro k hk
        by_cases hk' : k ∈ H'
        · exact hag2 k hk'
        · have hkH : k ∈ H := by
            rcases List.mem_append.mp hk with h | h
            · exact h
            · exact absurd h hk'
          rw [hf2 k hk', hg2 k hk']; exact hag k hkH
      · intro k hk
        simp only [List.mem_append, not_or] at hk
        rw [hf2 k hk.2, hf1 k hk.1]
      · intro k hk
        simp only [List.mem_append, not_or] at hk
        rw [hg2 k hk.2, hg1 k hk.1]

/-- a step that is local at `H` is local at any larger set -/
theorem Local.mono {H H' : List String} {F : Val → R Val} (hF : Local H F)
    (hs : ∀ k, k ∈ H → k ∈ H') : Local H' F := by
  intro fs gs ha
  have hr := hF fs gs (ha.mono hs)
  generalize F (.doc fs) = x at hr
  generalize F (.doc gs) = y at hr
  cases hr with
  | err e => exact .err e
  | ok fs1 gs1 hag hf1 hg1 =>
    refine .ok fs1 gs1 ?_ (fun k hk => hf1 k (fun h => hk (hs k h)))
      (fun k hk => hg1 k (fun h => hk (hs k h)))
    intro k hk
    by_cases hkH : k ∈ H
    · exact hag k hkH
    · rw [hf1 k hkH, hg1 k hkH]; exact ha k hk

end MongoModel.Proofs.C02Lemmas

namespace MongoModel.Proofs.C02Lemmas
open MongoModel MongoModel.Spec

/-! ### folds of local steps -/

variable {σ : Type}

theorem fold_local (step : Val → σ → R Val) (hs : σ → List String) :
    ∀ (l : List σ), (∀ s, s ∈ l → Local (hs s) (fun d => step d s)) →
      Local (l.flatMap hs) (fun d => l.foldlM step d)
  | [], _ => by
    simp only [List.flatMap_nil, List.foldlM_nil]
    exact Local.id []
  | s :: l, h => by
    have h1 : Local (hs s) (fun d => step d s) := h s (List.mem_cons_self ..)
    have h2 := fold_local step hs l (fun s' hs' => h s' (List.mem_cons_of_mem _ hs'))
    have := h1.comp h2
    simp only [List.flatMap_cons]
    refine this.congr ?_
    intro d
    simp only [List.foldlM_cons]
    rfl

/-- **pointwise**: when the addressed key sets are pairwise disjoint (`Nodup` of their
    concatenation), a successful fold yields, at the keys of each step, what that step alone
    yields on (any document agreeing with) the ORIGINAL document -/
theorem fold_pointwise (step : Val → σ → R Val) (hs : σ → List String) :
    ∀ (l : List σ), (∀ s, s ∈ l → Local (hs s) (fun d => step d s)) → (l.flatMap hs).Nodup →
      ∀ (fs gs : Fields) (d' : Val), Agree (l.flatMap hs) fs gs →
        l.foldlM step (.doc fs) = .ok d' →
        ∃ fs', d' = .doc fs' ∧ ∀ s, s ∈ l →
          ∃ gs1, step (.doc gs) s = .ok (.doc gs1) ∧ Agree (hs s) fs' gs1
  | [], _, _, fs, gs, d', _, h => by
    simp only [List.foldlM_nil, pure, Except.pure] at h
    cases h
    exact ⟨fs, rfl, fun s hs' => absurd hs' (by simp)⟩
  | s :: l, hl, hnd, fs, gs, d', ha, h => by
    simp only [List.flatMap_cons] at hnd ha
    have hdisj : ∀ k, k ∈ l.flatMap hs → k ∉ hs s := by
      intro k hk hk'
      exact (List.nodup_append.mp hnd).2.2 k hk' k hk rfl
    have hnd2 : (l.flatMap hs).Nodup := (List.nodup_append.mp hnd).2.1
    have h1 : Local (hs s) (fun d => step d s) := hl s (List.mem_cons_self ..)
    have hl2 : ∀ s', s' ∈ l → Local (hs s') (fun d => step d s') :=
      fun s' hs' => hl s' (List.mem_cons_of_mem _ hs')
    simp only [List.foldlM_cons] at h
    obtain ⟨d1, hd1, hrest⟩ := bind_ok h
    have hr := h1 fs gs (ha.mono (fun k hk => List.mem_append_left _ hk))
    simp only [hd1] at hr
    generalize hy : step (.doc gs) s = y at hr
    cases hr with
    | ok fs1 gs1 hag hf1 hg1 =>
      -- the rest of the fold leaves the keys of `s` alone
      obtain ⟨fs', rfl, hfr⟩ := (fold_local step hs l hl2).frame hrest
      have ha2 : Agree (l.flatMap hs) fs1 gs := by
        intro k hk
        rw [hf1 k (hdisj k hk)]
        exact ha k (List.mem_append_right _ hk)
      obtain ⟨fs'', e, hall⟩ := fold_pointwise step hs l hl2 hnd2 fs1 gs _ ha2 hrest
      cases e
      refine ⟨fs', rfl, ?_⟩
      intro s' hs'
      rcases List.mem_cons.mp hs' with rfl | hs'
      · refine ⟨gs1, hy, ?_⟩
        intro k hk
        rw [hfr k (fun hk' => hdisj k hk' hk)]
        exact hag k hk
      · exact hall s' hs'

/-- **errors**: under the same disjointness the fold fails exactly when some step alone fails on
    (any document agreeing with) the original document -/
theorem fold_error_iff (step : Val → σ → R Val) (hs : σ → List String) :
    ∀ (l : List σ), (∀ s, s ∈ l → Local (hs s) (fun d => step d s)) → (l.flatMap hs).Nodup →
      ∀ (fs gs : Fields), Agree (l.flatMap hs) fs gs →
        ((∃ e, l.foldlM step (.doc fs) = .error e) ↔
          ∃ s, s ∈ l ∧ ∃ e, step (.doc gs) s = .error e)
  | [], _, _, fs, gs, _ => by
    simp [List.foldlM_nil, pure, Except.pure]
  | s :: l, hl, hnd, fs, gs, ha => by
    simp only [List.flatMap_cons] at hnd ha
    have hdisj : ∀ k, k ∈ l.flatMap hs → k ∉ hs s := by
      intro k hk hk'
      exact (List.nodup_append.mp hnd).2.2 k hk' k hk rfl
    have hnd2 : (l.flatMap hs).Nodup := (List.nodup_append.mp hnd).2.1
    have h1 : Local (hs s) (fun d => step d s) := hl s (List.mem_cons_self ..)
    have hl2 : ∀ s', s' ∈ l → Local (hs s') (fun d => step d s') :=
      fun s' hs' => hl s' (List.mem_cons_of_mem _ hs')
    have hr := h1 fs gs (ha.mono (fun k hk => List.mem_append_left _ hk))
    simp only [List.foldlM_cons]
    beta_reduce at hr
    generalize hx : step (.doc fs) s = x at hr ⊢
    generalize hy : step (.doc gs) s = y at hr
    cases hr with
    | err e =>
      constructor
      · intro _; exact ⟨s, List.mem_cons_self .., e, hy⟩
      · intro _; exact ⟨e, rfl⟩
    | ok fs1 gs1 hag hf1 hg1 =>
      have ha2 : Agree (l.flatMap hs) fs1 gs := by
        intro k hk
        rw [hf1 k (hdisj k hk)]
        exact ha k (List.mem_append_right _ hk)
      have ih := fold_error_iff step hs l hl2 hnd2 fs1 gs ha2
      constructor
      · intro h
        obtain ⟨s', hs', he⟩ := ih.mp h
        exact ⟨s', List.mem_cons_of_mem _ hs', he⟩
      · rintro ⟨s', hs', e, he⟩
        rcases List.mem_cons.mp hs' with rfl | hs'
        · rw [hy] at he; cases he
        · exact ih.mpr ⟨s', hs', e, he⟩

end MongoModel.Proofs.C02Lemmas
