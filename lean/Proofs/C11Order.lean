/-
  Proofs.C11Order — the oracle's key order `Spec.Order.keyLt` is a strict weak order on *all*
  sort keys (proved by an order embedding into the lexicographic product ℕ ×ₗ ℕ ×ₗ ℚ ×ₗ String:
  rank, BSON type, numeric payload, string payload; numbers compared by cross multiplication
  are compared as rationals m / 2^e).
-/
import Mathlib.Tactic.Linarith
import Mathlib.Tactic.Positivity
import Mathlib.Data.Prod.Lex
import Mathlib.Data.String.Basic
import Mathlib.Algebra.Order.Field.Basic
import Mathlib.Data.Rat.Defs
import Proofs.C11Sort
import Spec.Order

namespace MongoModel.Proofs.C11
open MongoModel MongoModel.Spec.Order

/-- a comparison that is the pull-back of `<` on a linear order is a strict weak order -/
theorem strictWeak_of_embedding {α β : Type} [LinearOrder β] (lt : α → α → Bool) (f : α → β)
    (h : ∀ a b, lt a b = true ↔ f a < f b) : StrictWeak lt := by
  have hf : ∀ a b, lt a b = false ↔ f b ≤ f a := by
    intro a b
    rw [← not_lt, ← h]; simp
  constructor
  · intro a b hab
    rw [hf]; exact le_of_lt ((h a b).mp hab)
  · intro a b c h1 h2
    rw [hf] at h1 h2 ⊢
    exact le_trans h1 h2

theorem numLt_iff (a b : Num) :
    Num.lt a b = true ↔ (a.m : ℚ) / 2 ^ a.e < (b.m : ℚ) / 2 ^ b.e := by
  rw [div_lt_div_iff₀ (by positivity) (by positivity)]
  simp only [Num.lt, decide_eq_true_eq]
  exact_mod_cast Iff.rfl

def payloadQ : Val → ℚ
  | .bool b => if b then 1 else 0
  | .int i => i
  | .dbl m e => (m : ℚ) / 2 ^ e
  | .date u o => (dateUtc u o : ℤ)
  | .oid n => n
  | _ => 0

def payloadS : Val → String
  | .str s => s
  | _ => ""

def embV (v : Val) : ℕ ×ₗ ℚ ×ₗ String := toLex (typeOrder v, toLex (payloadQ v, payloadS v))

def emb (k : SortKey) : ℕ ×ₗ ℕ ×ₗ ℚ ×ₗ String := toLex (k.rank, embV k.val)

theorem valLt_iff (a b : Val) : valLt a b = true ↔ embV a < embV b := by
  unfold valLt embV
  rw [Prod.Lex.toLex_lt_toLex]
  by_cases ht : typeOrder a = typeOrder b
  · simp only [ht, ne_eq, not_true_eq_false, if_false, lt_self_iff_false, false_or, true_and]
    rw [Prod.Lex.toLex_lt_toLex]
    cases a <;> cases b <;> simp [typeOrder] at ht <;>
      simp [payloadQ, payloadS, numLt_iff]
    case bool.bool x y => cases x <;> cases y <;> simp
  · simp [ht]

theorem keyLt_iff (a b : SortKey) : Spec.Order.keyLt a b = true ↔ emb a < emb b := by
  unfold Spec.Order.keyLt emb
  rw [Prod.Lex.toLex_lt_toLex]
  by_cases hr : a.rank = b.rank
  · simp [hr, valLt_iff]
  · simp [hr]

/-- the oracle's key order is a strict weak order (on every pair of keys, no domain needed) -/
theorem strictWeak_keyLt : StrictWeak Spec.Order.keyLt :=
  strictWeak_of_embedding Spec.Order.keyLt emb keyLt_iff

/-- hence so is the order of two documents under one `(key, direction)` -/
theorem strictWeak_docLt1 (kd : String × Int) : StrictWeak (docLt1 kd) := by
  by_cases h : kd.2 < 0
  · have : docLt1 kd = fun a b => Spec.Order.keyLt (docKey kd.1 true b) (docKey kd.1 true a) := by
      funext a b; simp [docLt1, h]
    rw [this]
    exact strictWeak_of_embedding _ (fun d => OrderDual.toDual (emb (docKey kd.1 true d)))
      (fun a b => by rw [keyLt_iff]; rfl)
  · have : docLt1 kd = fun a b => Spec.Order.keyLt (docKey kd.1 false a) (docKey kd.1 false b) := by
      funext a b; simp [docLt1, h]
    rw [this]
    exact strictWeak_of_embedding _ (fun d => emb (docKey kd.1 false d)) (fun a b => keyLt_iff _ _)

end MongoModel.Proofs.C11
