/-
  Proofs.C04Spec6 — `eval_eq_spec`, part 6: arrays, strings, date parts on evaluated operands;
  how `eval` runs a list handler and a whole-argument handler.
-/
import Proofs.C04Spec5

set_option linter.unusedSimpArgs false
set_option linter.unnecessarySeqFocus false

namespace MongoModel.Proofs.C04
open MongoModel MongoModel.Expr MongoModel.Spec

theorem arrays_nulled (vs : List (Option Val)) (xss : List (List Val)) (h : arrays vs = some xss) :
    nulled vs = xss.map .arr := by
  induction vs generalizing xss with
  | nil => simp [arrays] at h; subst h; rfl
  | cons v r ih =>
    cases v with
    | none => simp [arrays] at h
    | some x =>
      cases x <;> simp [arrays] at h
      obtain ⟨ys, hy, rfl⟩ := h
      simp [nulled, ← ih ys hy]

theorem concatArrays_pure (vs : List (Option Val)) (r : Val) (hs : concatArraysS vs = .ok r) :
    concatArraysOp (nulled vs) = .ok r := by
  unfold concatArraysS at hs
  by_cases hn : vs.any nullish = true
  · simp only [hn, if_true] at hs
    split at hs
    · rename_i hall
      cases hs
      apply concatArrays_null
      · intro v hv
        simp only [nulled, List.mem_map] at hv
        obtain ⟨o, ho, rfl⟩ := hv
        have := List.all_eq_true.mp hall o ho
        cases o with
        | none => left; rfl
        | some x => cases x <;> simp [nullish] at this <;> simp [isNull, Val.isArr]
      · obtain ⟨o, ho, hnl⟩ := List.any_eq_true.mp hn
        simp only [nulled, List.mem_map]
        refine ⟨o, ho, ?_⟩
        cases o with
        | none => rfl
        | some x => cases x <;> simp [nullish] at hnl; rfl
    · simp [unmodelled] at hs
  · have hn' : vs.any nullish = false := by simpa using hn
    simp only [hn', Bool.false_eq_true, if_false] at hs
    cases ha : arrays vs with
    | none => simp [ha] at hs
    | some xss =>
      simp only [ha] at hs
      cases hs
      rw [arrays_nulled vs xss ha]
      exact concatArrays_append xss

theorem strings_nulled (vs : List (Option Val)) (ss : List String) (h : strings vs = some ss) :
    nulled vs = ss.map .str := by
  induction vs generalizing ss with
  | nil => simp [strings] at h; subst h; rfl
  | cons v r ih =>
    cases v with
    | none => simp [strings] at h
    | some x =>
      cases x <;> simp [strings] at h
      obtain ⟨ys, hy, rfl⟩ := h
      simp [nulled, ← ih ys hy]

theorem concat_pure (vs : List (Option Val)) (r : Val) (hs : concatS vs = .ok r) :
    concatOp (nulled vs) = .ok r := by
  unfold concatS at hs
  by_cases hn : vs.any nullish = true
  · simp only [hn, if_true] at hs
    split at hs
    · rename_i hall
      cases hs
      have h1 : (nulled vs).any isNull = true := by
        obtain ⟨o, ho, hnl⟩ := List.any_eq_true.mp hn
        apply List.any_eq_true.mpr
        refine ⟨o.getD .null, by simp only [nulled, List.mem_map]; exact ⟨o, ho, rfl⟩, ?_⟩
        cases o with
        | none => rfl
        | some x => cases x <;> simp [nullish] at hnl; rfl
      have h2 : (nulled vs).any (fun v => !isNull v && !isStr v) = false := by
        apply List.any_eq_false.mpr
        intro v hv
        simp only [nulled, List.mem_map] at hv
        obtain ⟨o, ho, rfl⟩ := hv
        have := List.all_eq_true.mp hall o ho
        cases o with
        | none => simp [isNull]
        | some x => cases x <;> simp [nullish] at this <;> simp [isNull, isStr]
      simp [concatOp, h1, h2]
    · simp [unmodelled] at hs
  · have hn' : vs.any nullish = false := by simpa using hn
    simp only [hn', Bool.false_eq_true, if_false] at hs
    cases ha : strings vs with
    | none => simp [ha] at hs
    | some ss =>
      simp only [ha] at hs
      cases hs
      rw [strings_nulled vs ss ha]
      exact concat_strings ss

/-- `$arrayElemAt`: a null or missing operand gives null -/
theorem elemAt_pure (a i : Option Val) (r : Option Val)
    (hs : elemAt a i = .ok r) : arrayElemAtOp (a.getD .null) (i.getD .null) = .ok r := by
  unfold elemAt at hs
  by_cases hn : (nullish a || nullish i) = true
  · simp only [hn, if_true] at hs
    simp [arrayElemAtOp, isNull_getD, hn, hs]
  · have hn' : (nullish a || nullish i) = false := by simpa using hn
    simp only [hn', Bool.false_eq_true, if_false] at hs
    have hn2 : (isNull (a.getD .null) || isNull (i.getD .null)) = false := by
      simpa [isNull_getD] using hn'
    simp only [arrayElemAtOp, hn2, Bool.false_eq_true, if_false]
    simp only [Bool.or_eq_false_iff] at hn'
    cases a with
    | none => simp [nullish] at hn'
    | some x =>
      cases i with
      | none => simp [nullish] at hn'
      | some y =>
        simp only [Option.getD_some]
        cases x with
        | arr xs =>
          cases y with
          | int n =>
            simp only at hs
            simp only [isBoolV, Bool.false_eq_true, if_false, intLike, pyIndex]
            split at hs
            · rename_i h; simpa [h] using hs
            · rename_i h
              split at hs
              · rename_i h'; simpa [h, h'] using hs
              · rename_i h'; simpa [h, h'] using hs
          | dbl m e => simp [unmodelled] at hs
          | _ => simp at hs
        | _ => simp at hs

theorem datePart_pure (k : String) (hk : datePartOps.contains k = true) (v : Val) (r : Val)
    (hs : datePartS k (some v) = .ok r) : dateOp k v = .ok r := by
  unfold datePartS at hs
  have hk' : k ∈ datePartOps := by simpa using hk
  cases v with
  | null => simpa [nullish, dateOp, hk'] using hs
  | date u o =>
    simp only [nullish, Bool.false_eq_true, if_false] at hs
    cases o with
    | none => simpa [dateOp, hk'] using hs
    | some off => simp [unmodelled] at hs
  | _ => simp [nullish] at hs

/-! ### `$strcasecmp`, `$toLower`, `$toUpper`, `$toString` -/

theorem cmp3 (x y : String) :
    (if x = y then (0 : Int) else if x < y then -1 else 1) =
      (match compare x y with | .lt => -1 | .eq => 0 | .gt => 1) := by
  have hc : compare x y = compareOfLessAndEq x y := rfl
  rw [hc]
  by_cases hxy : x = y
  · subst hxy
    simp [compareOfLessAndEq, String.lt_irrefl]
  · by_cases hlt : x < y <;> simp [compareOfLessAndEq, hxy, hlt]

/-- one operand of `$strcasecmp` as the rules read it -/
def upperS (v : Option Val) : R String :=
  if nullish v then .ok "" else match v with | some (.str s) => asciiUpper s | _ => unmodelled

theorem strcasecmpS_eq (a b : Option Val) :
    strcasecmpS a b = (upperS a).bind (fun x => (upperS b).bind (fun y =>
      .ok (.int (match compare x y with | .lt => -1 | .eq => 0 | .gt => 1)))) := rfl

theorem upperArg_pure (a : Option Val) (x : String) (h : upperS a = .ok x) :
    upperArg (a.getD .null) = .ok x := by
  unfold upperS at h
  cases a with
  | none => simpa [nullish, upperArg] using h
  | some v =>
    cases v <;> simp [nullish, unmodelled] at h <;>
      simp [upperArg, pyStr, h, bind, Except.bind]

theorem strcasecmp_pure (a b : Option Val) (r : Val) (hs : strcasecmpS a b = .ok r) :
    strcasecmpOp (a.getD .null) (b.getD .null) = .ok r := by
  rw [strcasecmpS_eq] at hs
  cases hx : upperS a with
  | error e => simp [hx, Except.bind] at hs
  | ok x =>
    cases hy : upperS b with
    | error e => simp [hx, hy, Except.bind] at hs
    | ok y =>
      simp only [hx, hy, Except.bind] at hs
      simp only [strcasecmpOp, upperArg_pure a x hx, upperArg_pure b y hy, bind, Except.bind, pure,
        Except.pure, cmp3]
      exact hs

/-- `$toLower` / `$toUpper` on the outcome of the parse (`none` = missing) -/
theorem case_pure (upper : Bool) (a : Option Val) (r : Val) (hs : caseS upper a = .ok r) :
    (match a with
     | none => (.ok (.str "") : R Val)
     | some v => caseOp upper v) = .ok r := by
  unfold caseS at hs
  cases a with
  | none => simpa [nullish] using hs
  | some v =>
    cases v <;> simp [nullish, unmodelled] at hs <;>
      simp [caseOp, pyStr, hs, bind, Except.bind]
    cases upper <;> simp only [Bool.false_eq_true, if_false, if_true] at hs ⊢
    · cases h : asciiLower _ <;> simp_all [Functor.map, Except.map, bind, Except.bind, pure, Except.pure]
    · cases h : asciiUpper _ <;> simp_all [Functor.map, Except.map, bind, Except.bind, pure, Except.pure]

/-- `$toString` on the outcome of the parse -/
theorem toString_pure (a : Option Val) (r : Val) (hs : toStringS a = .ok r) :
    (match a with
     | none => (.ok .null : R Val)
     | some v => toStringOp v) = .ok r := by
  unfold toStringS at hs
  cases a with
  | none => simpa [nullish] using hs
  | some v =>
    cases v with
    | date u o =>
      cases o with
      | none => simpa [nullish, toStringOp] using hs
      | some off => simp [nullish, unmodelled] at hs
    | _ =>
      all_goals
        simp [nullish, unmodelled] at hs <;>
          simp [toStringOp, pyStr, hs, bind, Except.bind, pure, Except.pure]

/-! ### how `eval` runs the handlers -/

/-- an operator that takes one argument never has a handler that takes its argument apart -/
theorem unary_not_shaped (k : String) (v : Val) (h : unaryListOps.contains k = true) :
    mode k v ≠ .shaped := by
  simp only [unaryListOps, unaryArithOps, datePartOps, List.cons_append, List.nil_append,
    List.contains_cons, List.contains_nil, Bool.or_false, Bool.or_eq_true, beq_iff_eq] at h
  rcases h with rfl | rfl | rfl | rfl | rfl | rfl | rfl | rfl | rfl | rfl | rfl | rfl | rfl | rfl
    | rfl | rfl | rfl | rfl | rfl | rfl | rfl | rfl | rfl | rfl | rfl | rfl | rfl | rfl | rfl <;>
  simp [mode, dateOps, datePartOps, wholeOps, unaryArithOps, groupingOps] <;>
  (try split) <;> simp

/-- a handler that parses its whole argument (the argument is not a list, the operator not a
    variadic one) -/
theorem eval_whole (c : Ctx) (k : String) (v : Val) (cls : OpClass) (hc : classify k = cls)
    (h1 : cls ≠ .plain) (h2 : cls ≠ .unknown) (h3 : cls ≠ .notImpl) (hm : mode k v = .whole)
    (ha : v.isArr = false) (hv : variadicOps.contains k = false) :
    eval c (.doc [(k, v)]) = (eval c v).bind (applyWhole c.ign k) := by
  subst hc
  exact eval_whole' c k v h1 h2 h3 (Or.inr ha) (Or.inl hv) hm

/-- a handler that takes a list of operands, all parsed before it looks at any -/
theorem eval_list (c : Ctx) (k : String) (xs : List Val) (cls : OpClass) (hc : classify k = cls)
    (h1 : cls ≠ .plain) (h2 : cls ≠ .unknown) (h3 : cls ≠ .notImpl)
    (hm : mode k (.arr xs) = .shaped) (har : arityErr k xs.length = none)
    (hl : listOps.contains k = true) :
    eval c (.doc [(k, .arr xs)]) =
      (evalList c (nullOnMissing c.ign k) xs).bind (fun r =>
        match r with
        | none => if k = "$split" then .ok (some .null) else .ok none
        | some vals => applyList k vals) := by
  subst hc
  have hu : unaryListOps.contains k = false := by
    cases hu : unaryListOps.contains k with
    | false => rfl
    | true => exact absurd hm (unary_not_shaped k _ hu)
  rw [eval_shaped c k _ h1 h2 h3 hu (Or.inr rfl) hm]
  have hl' : k ∈ listOps := by simpa using hl
  simp [evalOp, har, hl', bind, Except.bind, pure, Except.pure]
  rfl

end MongoModel.Proofs.C04
