/-
  Proofs.C04Spec6 — `eval_eq_spec`, part 6: arrays, strings, date parts on evaluated operands;
  how `eval` runs a list handler and a whole-argument handler.
-/
import Proofs.C04Spec5

set_option linter.unusedSimpArgs false
set_option linter.unnecessarySeqFocus false

namespace MongoModel.Proofs.C04
open MongoModel MongoModel.Expr MongoModel.Spec

theorem arrays_nulled (vs : List (Option Val)) (xss : List (List Val)) (h : arrays vs = some xss) :
    nulled vs = xss.map .arr := by
  induction vs generalizing xss with
  | nil => simp [arrays] at h; subst h; rfl
  | cons v r ih =>
    cases v with
    | none => simp [arrays] at h
    | some x =>
      cases x <;> simp [arrays] at h
      obtain ⟨ys, hy, rfl⟩ := h
      simp [nulled, ← ih ys hy]

theorem concatArrays_pure (vs : List (Option Val)) (r : Val) (hs : concatArraysS vs = .ok r) :
    concatArraysOp (nulled vs) = .ok r := by
  unfold concatArraysS at hs
  by_cases hn : vs.any nullish = true
  · simp only [hn, if_true] at hs
    split at hs
    · rename_i hall
      cases hs
      apply concatArrays_null
      · intro v hv
        simp only [nulled, List.mem_map] at hv
        obtain ⟨o, ho, rfl⟩ := hv
        have := List.all_eq_true.mp hall o ho
        cases o with
        | none => left; rfl
        | some x => cases x <;> simp [nullish] at this <;> simp [isNull, Val.isArr]
      · obtain ⟨o, ho, hnl⟩ := List.any_eq_true.mp hn
        simp only [nulled, List.mem_map]
        refine ⟨o, ho, ?_⟩
        cases o with
        | none => rfl
        | some x => cases x <;> simp [nullish] at hnl; rfl
    · simp [unmodelled] at hs
  · have hn' : vs.any nullish = false := by simpa using hn
    simp only [hn', Bool.false_eq_true, if_false] at hs
    cases ha : arrays vs with
    | none => simp [ha] at hs
    | some xss =>
      simp only [ha] at hs
      cases hs
      rw [arrays_nulled vs xss ha]
      exact concatArrays_append xss

theorem strings_nulled (vs : List (Option Val)) (ss : List String) (h : strings vs = some ss) :
    nulled vs = ss.map .str := by
  induction vs generalizing ss with
  | nil => simp [strings] at h; subst h; rfl
  | cons v r ih =>
    cases v with
    | none => simp [strings] at h
    | some x =>
      cases x <;> simp [strings] at h
      obtain ⟨ys, hy, rfl⟩ := h
      simp [nulled, ← ih ys hy]

theorem concat_pure (vs : List (Option Val)) (r : Val) (hs : concatS vs = .ok r) :
    concatOp (nulled vs) = .ok r := by
  unfold concatS at hs
  by_cases hn : vs.any nullish = true
  · simp only [hn, if_true] at hs
    split at hs
    · cases hs
      have : (nulled vs).any isNull = true := by
        obtain ⟨o, ho, hnl⟩ := List.any_eq_true.mp hn
        apply List.any_eq_true.mpr
        refine ⟨o.getD .null, by simp only [nulled, List.mem_map]; exact ⟨o, ho, rfl⟩, ?_⟩
        cases o with
        | none => rfl
        | some x => cases x <;> simp [nullish] at hnl; rfl
      simp [concatOp, this]
    · simp [unmodelled] at hs
  · have hn' : vs.any nullish = false := by simpa using hn
    simp only [hn', Bool.false_eq_true, if_false] at hs
    cases ha : strings vs with
    | none => simp [ha] at hs
    | some ss =>
      simp only [ha] at hs
      cases hs
      rw [strings_nulled vs ss ha]
      exact concat_strings ss

theorem elemAt_pure (x y : Val) (hb : isBoolO (some y) = false) (r : Option Val)
    (hnx : nullish (some x) = false) (hny : nullish (some y) = false)
    (hs : elemAt (some x) (some y) = .ok r) : arrayElemAtOp x y = .ok r := by
  unfold elemAt at hs
  simp only [hnx, hny, Bool.or_self, Bool.false_eq_true, if_false] at hs
  cases x with
  | arr xs =>
    cases y with
    | int n =>
      simp only at hs
      simp only [arrayElemAtOp, intLike, pyIndex]
      split at hs
      · rename_i h; simpa [h] using hs
      · rename_i h
        split at hs
        · rename_i h'; simpa [h, h'] using hs
        · rename_i h'; simpa [h, h'] using hs
    | dbl m e => simp [unmodelled] at hs
    | bool b => simp [isBoolO] at hb
    | _ => simp at hs
  | _ => simp at hs

theorem datePart_pure (k : String) (hk : datePartOps.contains k = true) (v : Val) (r : Val)
    (hn : nullish (some v) = false) (hs : datePartS k (some v) = .ok r) : dateOp k v = .ok r := by
  unfold datePartS at hs
  simp only [hn, Bool.false_eq_true, if_false] at hs
  cases v with
  | date u o =>
    cases o with
    | none =>
      have hk' : k ∈ datePartOps := by simpa using hk
      simpa [dateOp, hk'] using hs
    | some off => simp [unmodelled] at hs
  | _ => simp at hs

/-! ### how `eval` runs the handlers -/

/-- a handler that parses its whole argument -/
theorem eval_whole (c : Ctx) (k : String) (v : Val) (cls : OpClass) (hc : classify k = cls)
    (h1 : cls ≠ .plain) (h2 : cls ≠ .unknown) (h3 : cls ≠ .notImpl) (hm : mode k v = .whole) :
    eval c (.doc [(k, v)]) = (eval c v).bind (applyWhole c.ign k) := by
  simp only [eval, List.length_singleton, Nat.lt_irrefl, decide_false, Bool.false_and,
    Bool.false_eq_true, if_false, evalDoc, hc]
  cases cls <;> simp at h1 h2 h3 <;> simp [hm, bind, Except.bind]

/-- a handler that takes a list of operands, all parsed before it looks at any -/
theorem eval_list (c : Ctx) (k : String) (xs : List Val) (cls : OpClass) (hc : classify k = cls)
    (h1 : cls ≠ .plain) (h2 : cls ≠ .unknown) (h3 : cls ≠ .notImpl)
    (hm : mode k (.arr xs) = .shaped) (har : arityErr k xs.length = none)
    (hl : listOps.contains k = true) :
    eval c (.doc [(k, .arr xs)]) =
      (evalList c (usesParseMany k && c.ign) xs).bind (fun r =>
        match r with
        | none => if k = "$split" then .ok (some .null) else .ok none
        | some vals => applyList k vals) := by
  simp only [eval, List.length_singleton, Nat.lt_irrefl, decide_false, Bool.false_and,
    Bool.false_eq_true, if_false, evalDoc, hc]
  have hl' : k ∈ listOps := by simpa using hl
  cases cls <;> simp at h1 h2 h3 <;>
    simp [hm, evalOp, har, hl', bind, Except.bind, pure, Except.pure] <;> rfl

end MongoModel.Proofs.C04
