/-
  Proofs.C03Project — `$project`: on a plain inclusion / exclusion specification the stage of the
  pipeline model is the `aggProject` of MongoModel.Project (the function C12 proves equal to the
  find projection); the stage keeps one output per input.
-/
import Proofs.C03Basic

namespace MongoModel.Pipe.Proofs
open MongoModel MongoModel.Pipe

theorem mapM_eq_mapR {α β} (f : α → R β) : ∀ l : List α, l.mapM f = mapR f l
  | [] => rfl
  | x :: xs => by
    simp only [List.mapM_cons, mapR, bind, Except.bind, pure, Except.pure, mapM_eq_mapR f xs]
    cases f x with
    | error e => rfl
    | ok y => cases mapR f xs <;> rfl

theorem isInclusionFlag_eq (v : Val) : Expr.isInclusionFlag v = isFlag v := by
  cases v with
  | null => rfl
  | bool b => cases b <;> rfl
  | int i =>
    show ((0 == i) || ((1 == i) || (((if true = true then (1 : Int) else 0) == i) ||
      (((if false = true then (1 : Int) else 0) == i) || false)))) = ((i == 0) || (i == 1))
    by_cases h0 : i = 0
    · subst h0; rfl
    · by_cases h1 : i = 1
      · subst h1; rfl
      · have h0' : ¬ (0 : Int) = i := fun h => h0 h.symm
        have h1' : ¬ (1 : Int) = i := fun h => h1 h.symm
        have e1 : (0 == i) = false := by simpa using h0'
        have e2 : (1 == i) = false := by simpa using h1'
        have e3 : (i == 0) = false := by simpa using h0
        have e4 : (i == 1) = false := by simpa using h1
        simp only [if_true, Bool.false_eq_true, if_false, e1, e2, e3, e4, Bool.or_false]
  | dbl m e =>
    show (Num.eq ⟨0, 0⟩ ⟨m, e⟩ || (Num.eq ⟨1, 0⟩ ⟨m, e⟩ ||
      (Num.eq ⟨if true = true then 1 else 0, 0⟩ ⟨m, e⟩ ||
        (Num.eq ⟨if false = true then 1 else 0, 0⟩ ⟨m, e⟩ || false)))) =
      (Num.eq ⟨0, 0⟩ ⟨m, e⟩ || Num.eq ⟨1, 0⟩ ⟨m, e⟩)
    simp only [if_true, Bool.false_eq_true, if_false, Bool.or_false]
    cases Num.eq ⟨0, 0⟩ ⟨m, e⟩ <;> cases Num.eq ⟨1, 0⟩ ⟨m, e⟩ <;> rfl
  | str s => rfl
  | date u off => cases off <;> rfl
  | oid n => rfl
  | doc fs => rfl
  | arr xs => rfl

/-- the method bookkeeping shared by the two loops -/
def methodStep (m : PMethod) (field : String) (value : Val) : R PMethod :=
  if m = .unset && (field != "_id" || value.truthy) then
    .ok (if value.truthy then .inc else .exc)
  else if m = .inc && !value.truthy && field != "_id" then .error .opFail
  else if m = .exc && value.truthy && (field != "_id" || !(pyEq value (.int 1))) then
    .error .opFail
  else .ok m

theorem projStep_flag (docs : List Val) (m : PMethod) (acc : List String) (field : String)
    (value : Val) (hv : isFlag value = true) :
    projStep docs ⟨m, acc, none⟩ field value =
      (match methodStep m field value with
       | .error e => .error e
       | .ok m' => .ok ⟨m', if field != "_id" then acc ++ [field] else acc, none⟩) := by
  unfold projStep methodStep
  simp only [isInclusionFlag_eq, hv, if_true]
  rfl

theorem aggScan_cons (field : String) (value : Val) (r : Fields) (m : PMethod) (acc : List String)
    (hv : isFlag value = true) :
    aggScan ((field, value) :: r) m acc =
      (match methodStep m field value with
       | .error e => .error e
       | .ok m' => aggScan r m' (if field != "_id" then acc ++ [field] else acc)) := by
  unfold methodStep
  simp only [aggScan, hv, Bool.not_true, Bool.false_eq_true, if_false]
  rfl

/-- on flag values the loop of the stage is the scan of `aggProject`, and computes nothing -/
theorem projLoop_flags (docs : List Val) : ∀ (options : Fields) (m : PMethod) (acc : List String),
    options.all (fun kv => isFlag kv.2) = true →
    projLoop docs options ⟨m, acc, none⟩ =
      (match aggScan options m acc with
       | .error e => .error e
       | .ok (m', fl) => .ok ⟨m', fl, none⟩)
  | [], m, acc, _ => rfl
  | (field, value) :: rest, m, acc, h => by
    simp only [List.all_cons, Bool.and_eq_true] at h
    obtain ⟨hv, hr⟩ := h
    rw [projLoop, projStep_flag docs m acc field value hv, aggScan_cons field value rest m acc hv]
    cases methodStep m field value with
    | error e => rfl
    | ok m' => exact projLoop_flags docs rest _ _ hr

/-- **`$project` with a plain inclusion / exclusion specification is `aggProject`** — the
    function `Props.C12.find_eq_agg` proves equal to the find projection -/
theorem projectStage_flags (options : Fields) (docs : List Val)
    (h : options.all (fun kv => isFlag kv.2) = true) :
    projectStage (.doc options) docs = aggProject docs (.doc options) := by
  have hl := projLoop_flags docs options (aggInitMethod options) [] h
  simp only [projectStage, projectStageOpt, aggProject, h, Bool.not_true, Bool.false_eq_true,
    if_false, aggFilterList, bind, Except.bind, pure, Except.pure]
  cases hs : aggScan options (aggInitMethod options) [] with
  | error e =>
    rw [hs] at hl
    have hl' : projLoop docs options { method := aggInitMethod options } = .error e := hl
    simp only [hl']
  | ok mf =>
    obtain ⟨m, fl⟩ := mf
    rw [hs] at hl
    have hl' : projLoop docs options { method := aggInitMethod options } = .ok ⟨m, fl, none⟩ := hl
    simp only [hl', beq_iff_eq, List.isEmpty_iff, Option.map_none]
    generalize (if decide (m = PMethod.inc) = !pyEq ((dget "_id" options).getD (Val.int 1)) (Val.int 0)
      then fl ++ ["_id"] else fl) = fl'
    cases fl' with
    | nil => simp
    | cons f r =>
      simp only [reduceCtorEq, if_false]
      cases hc : combineSpec true (List.map (fun k => (splitDots k, Val.int 1)) (f :: r)) with
      | error e => rfl
      | ok cs =>
        simp only [mapM_eq_mapR]
        cases mapR (aggProjectDoc cs (decide (m = PMethod.inc))) docs <;> rfl

end MongoModel.Pipe.Proofs
