/-
  Proofs.C13ExtId2 — the three sources of the upserted `_id`: the filter, the replacement, a
  fresh ObjectId.
-/
import Proofs.C13ExtId

set_option linter.unusedVariables false
set_option linter.unusedSimpArgs false

namespace MongoModel.Proofs.C13Ext
open MongoModel MongoModel.Spec MongoModel.Proofs.C05Lemmas MongoModel.Proofs.C10Lemmas
  MongoModel.Proofs.C13Lemmas MongoModel.Proofs.C02Lemmas

theorem dget_patch_some {k : String} {fs : Fields} {v : Val} (h : dget k fs = some v) :
    dget k (patchFields fs) = some (patch v) := by
  rw [MongoModel.Proofs.C18.dget_patchFields, h]; rfl

theorem dget_patch_none {k : String} {fs : Fields} (h : dget k fs = none) :
    dget k (patchFields fs) = none := by
  rw [MongoModel.Proofs.C18.dget_patchFields, h]; rfl

/-- an update that leaves `_id` alone has no top-level `_id` -/
theorem leavesId_no_id (u : Fields) (h : leavesId u = true) : dget "_id" u = none := by
  simp only [leavesId, Bool.or_eq_true, Bool.and_eq_true, Bool.not_eq_true'] at h
  rcases h with ⟨h1, _⟩ | ⟨_, h2⟩
  · exact dget_nodollar_none "_id" id_nodollar u (opUpdate_parts h1).1
  · simp only [dhas] at h2
    cases hg : dget "_id" u with
    | none => rfl
    | some w => simp [hg] at h2

/-- the filter's `_id` is the upserted `_id` -/
theorem upsert_id_from_filter (cfg : Cfg) (now : Int) (c c1 c' : Coll) (ss ufs : Fields)
    (multi : Bool) (sel : List (Val × Val)) (r : UpdateResult) (id v : Val)
    (he : expire now c = .ok c1) (hne : c1.docs ≠ []) (hn : c.ttlIndexes = [])
    (hi : IdInv c) (hg : GoodKeys c)
    (hk : plainKeys ss = true) (hd : (dkeys ss).Nodup)
    (hv : dget "_id" ss = some v) (hsv : isScalar v = true) (hl : leavesId ufs = true)
    (hs : selectDocs (patchDT (.doc ss)) c1.docs = .ok sel)
    (h : applyUpdateColl cfg now c (.doc ss) (.doc ufs) true multi = (c', .ok r))
    (hup : r.upserted = some id) : id = patchDT v := by
  have hidv : (upsertIdv (patchFields ss) (patchFields ufs) c).1 = patch v :=
    upsertIdv_from_filter _ _ _ _ (dget_patch_some hv)
  obtain ⟨spec', sf, bf, hsf, hap, hfin⟩ := upsert_id_core cfg now c c1 c' ss ufs multi sel r id
    he hne hn hi hg hk hd hs h hup (by rw [hidv]; exact isScalar_patch v hsv)
  rw [hidv] at hsf
  obtain ⟨bf', hb, hx⟩ := leavesId_keeps _ _ _ _ _ _ _ (leavesId_patch ufs hl) hsf hap
  cases hb
  rw [hfin _ hx, MongoModel.Proofs.C18.patch_idem]

/-- no `_id` in the filter, none in the update: a fresh ObjectId -/
theorem upsert_id_fresh (cfg : Cfg) (now : Int) (c c1 c' : Coll) (ss ufs : Fields)
    (multi : Bool) (sel : List (Val × Val)) (r : UpdateResult) (id : Val)
    (he : expire now c = .ok c1) (hne : c1.docs ≠ []) (hn : c.ttlIndexes = [])
    (hi : IdInv c) (hg : GoodKeys c)
    (hk : plainKeys ss = true) (hd : (dkeys ss).Nodup)
    (hv : dget "_id" ss = none) (hl : leavesId ufs = true)
    (hs : selectDocs (patchDT (.doc ss)) c1.docs = .ok sel)
    (h : applyUpdateColl cfg now c (.doc ss) (.doc ufs) true multi = (c', .ok r))
    (hup : r.upserted = some id) : id = .oid c.nextOid := by
  have hidv : (upsertIdv (patchFields ss) (patchFields ufs) c).1 = .oid c.nextOid := by
    simp [upsertIdv, dget_patch_none hv, dget_patch_none (leavesId_no_id ufs hl)]
  obtain ⟨spec', sf, bf, hsf, hap, hfin⟩ := upsert_id_core cfg now c c1 c' ss ufs multi sel r id
    he hne hn hi hg hk hd hs h hup (by rw [hidv]; rfl)
  rw [hidv] at hsf
  obtain ⟨bf', hb, hx⟩ := leavesId_keeps _ _ _ _ _ _ _ (leavesId_patch ufs hl) hsf hap
  cases hb
  rw [hfin _ hx]; rfl

/-- no `_id` in the filter, a replacement carrying `_id = w`: `w` -/
theorem upsert_id_from_replacement (cfg : Cfg) (now : Int) (c c1 c' : Coll) (ss ufs : Fields)
    (multi : Bool) (sel : List (Val × Val)) (r : UpdateResult) (id w : Val)
    (he : expire now c = .ok c1) (hne : c1.docs ≠ []) (hn : c.ttlIndexes = [])
    (hi : IdInv c) (hg : GoodKeys c)
    (hk : plainKeys ss = true) (hd : (dkeys ss).Nodup)
    (hv : dget "_id" ss = none)
    (hr : isReplacement ufs = true) (hw : dget "_id" ufs = some w) (hsw : isScalar w = true)
    (hnd : (dkeys ufs).Nodup)
    (hs : selectDocs (patchDT (.doc ss)) c1.docs = .ok sel)
    (h : applyUpdateColl cfg now c (.doc ss) (.doc ufs) true multi = (c', .ok r))
    (hup : r.upserted = some id) : id = patchDT w := by
  have hidv : (upsertIdv (patchFields ss) (patchFields ufs) c).1 = patch w := by
    simp [upsertIdv, dget_patch_none hv, dget_patch_some hw]
  obtain ⟨spec', sf, bf, hsf, hap, hfin⟩ := upsert_id_core cfg now c c1 c' ss ufs multi sel r id
    he hne hn hi hg hk hd hs h hup (by rw [hidv]; exact isScalar_patch w hsw)
  obtain ⟨bf', hb, hx⟩ := replacement_sets_id _ _ _ _ _ _ _ _ (isReplacement_patch ufs hr)
    (dget_patch_some hw) (by rw [dkeys_patchFields]; exact hnd) hsf hap
  cases hb
  rw [hfin _ hx, MongoModel.Proofs.C18.patch_idem]

end MongoModel.Proofs.C13Ext
