/-
  Proofs.C01Main — the main theorem of C01: on D the matcher and the oracle agree.
-/
import Proofs.C01Cond

set_option linter.unusedSimpArgs false

namespace MongoModel.Proofs.C01Lemmas
open MongoModel MongoModel.Spec

theorem allMatch_conj (qs : List Val) (d : Val) (bs : List Bool)
    (h : qs.map (matchVal · d) = bs.map .ok) : allMatch qs d = .ok (bs.all id) := by
  induction qs generalizing bs with
  | nil => cases bs <;> simp_all [allMatch]
  | cons q qs ih =>
    cases bs with
    | nil => simp at h
    | cons b bs =>
      simp only [List.map_cons, List.cons.injEq] at h
      rw [allMatch, h.1, ih bs h.2]
      rfl

theorem anyMatch_disj (qs : List Val) (d : Val) (bs : List Bool)
    (h : qs.map (matchVal · d) = bs.map .ok) : anyMatch qs d = .ok (bs.any id) := by
  induction qs generalizing bs with
  | nil => cases bs <;> simp_all [anyMatch]
  | cons q qs ih =>
    cases bs with
    | nil => simp at h
    | cons b bs =>
      simp only [List.map_cons, List.cons.injEq] at h
      rw [anyMatch, h.1, ih bs h.2]
      rfl

/-- the statement proved by induction on the filter -/
def Agree (nb : Bool) (d : Val) (f : Val) : Prop :=
  Clean nb f → valReasons f d = [] → ∃ b, applyVal f d = .ok b ∧ matchVal f d = .ok b

theorem list_agree (nb : Bool) (d : Val) (qs : List Val) (ih : ∀ q, q ∈ qs → Agree nb d q)
    (hc : ∀ q, q ∈ qs → Clean nb q) (hr : listReasons qs d = []) :
    ∃ bs : List Bool, qs.map (applyVal · d) = bs.map .ok ∧ qs.map (matchVal · d) = bs.map .ok := by
  induction qs with
  | nil => exact ⟨[], rfl, rfl⟩
  | cons q qs ih2 =>
    simp only [listReasons, List.append_eq_nil_iff] at hr
    obtain ⟨b, h1, h2⟩ := ih q (by simp) (hc q (by simp)) hr.1
    obtain ⟨bs, h3, h4⟩ := ih2 (fun q hm => ih q (by simp [hm])) (fun q hm => hc q (by simp [hm])) hr.2
    exact ⟨b :: bs, by simp [h1, h3], by simp [h2, h4]⟩

theorem keyOk_ne_empty {key : String} (h : keyOk key = true) : key ≠ "" := by
  intro e; subst e; revert h; decide


/-! ### the head item of a filter, as non-recursive functions -/

def headReasons (key : String) (c : Val) (d : Val) : List String :=
  if key = "$comment" then []
  else if key = "$and" || key = "$or" || key = "$nor" then
    (match c with
    | .arr (q :: qs) => listReasons (q :: qs) d
    | _ => ["malformed"])
  else if key.startsWith "$" then ["malformed"]
  else
    (match cands (splitDots key) d with
    | .ok _ => []
    | .error _ => ["badkey"]) ++ condReasons c (reach (splitDots key) d)

theorem fieldsReasons_cons (key : String) (c : Val) (rest : Fields) (d : Val) :
    fieldsReasons ((key, c) :: rest) d = headReasons key c d ++ fieldsReasons rest d := by
  cases c with
  | arr xs => cases xs <;> rfl
  | _ => rfl

def matchHead (key : String) (c : Val) (d : Val) : R Bool :=
  if key = "$comment" then pure true
  else if key = "$and" then (match c with
    | .arr (q :: qs) => allMatch (q :: qs) d
    | _ => .error .opFail)
  else if key = "$or" then (match c with
    | .arr (q :: qs) => anyMatch (q :: qs) d
    | _ => .error .opFail)
  else if key = "$nor" then (match c with
    | .arr (q :: qs) => (anyMatch (q :: qs) d).map (!·)
    | _ => .error .opFail)
  else if key = "$expr" then unmodelled
  else if key.startsWith "$" then .error .opFail
  else condHolds c (reach (splitDots key) d)

theorem matchFields_cons (key : String) (c : Val) (rest : Fields) (d : Val) :
    matchFields ((key, c) :: rest) d = (do
      let here ← matchHead key c d
      let more ← matchFields rest d
      pure (here && more)) := by
  cases c with
  | arr xs => cases xs <;> rfl
  | _ => rfl

def applyHead (key : String) (search : Val) (d : Val) : R Bool :=
  if key = "$comment" then .ok true
  else if logicalKeys.contains key && key != "$not" then
    if !search.truthy then .error .opFail
    else (match search with
      | .arr qs =>
        if key = "$or" then anyApply qs d
        else if key = "$and" then allApply qs d
        else norApply qs d
      | .doc _ | .str _ => .error .opFail
      | _ => .error .typeErr)
  else if key = "$expr" then Expr.exprFilter search d
  else if topLevelOperators.contains key then .error .notImpl
  else if key.startsWith "$" then .error .opFail
  else applyKey search key d

theorem applyFields_cons (key : String) (c : Val) (rest : Fields) (d : Val) :
    applyFields ((key, c) :: rest) d = (do
      let ok ← applyHead key c d
      if ok then applyFields rest d else pure false) := by
  have step : ∀ (X : R Bool), (applyFields ((key, c) :: rest) d =
      if key = "$comment" then applyFields rest d
      else if logicalKeys.contains key && key != "$not" then
        if !c.truthy then .error .opFail
        else do
          let ok ← X
          if ok then applyFields rest d else pure false
      else if key = "$expr" then do
        if (← Expr.exprFilter c d) then applyFields rest d else pure false
      else if topLevelOperators.contains key then .error .notImpl
      else if key.startsWith "$" then .error .opFail
      else do
        let ok ← applyKey c key d
        if ok then applyFields rest d else pure false) →
      (applyHead key c d =
      if key = "$comment" then .ok true
      else if logicalKeys.contains key && key != "$not" then
        if !c.truthy then .error .opFail
        else X
      else if key = "$expr" then Expr.exprFilter c d
      else if topLevelOperators.contains key then .error .notImpl
      else if key.startsWith "$" then .error .opFail
      else applyKey c key d) → applyFields ((key, c) :: rest) d = (do
      let ok ← applyHead key c d
      if ok then applyFields rest d else pure false) := by
    intro X h1 h2
    rw [h1, h2]
    repeat' split
    all_goals rfl
  cases c with
  | arr xs => exact step _ rfl rfl
  | doc gs => exact step _ rfl rfl
  | str s => exact step _ rfl rfl
  | _ => exact step _ rfl rfl

theorem logical_agree (nb : Bool) (d : Val) (key : String) (c : Val)
    (hk : key = "$and" ∨ key = "$or" ∨ key = "$nor")
    (ih : ∀ xs, c = .arr xs → ∀ q, q ∈ xs → Agree nb d q) (hcc : Clean nb c)
    (hr : (match c with
      | .arr (q :: qs) => listReasons (q :: qs) d
      | _ => ["malformed"]) = []) :
    ∃ b, applyHead key c d = .ok b ∧ matchHead key c d = .ok b := by
  match c, ih, hcc, hr with
  | .arr (q :: qs), ih, hcc, hr =>
    obtain ⟨bs, h1, h2⟩ := list_agree nb d (q :: qs) (ih _ rfl)
      (fun x hm => (hered_clean nb).arr _ x hcc hm) hr
    rcases hk with rfl | rfl | rfl
    · exact ⟨bs.all id, by simpa [applyHead, logicalKeys, Val.truthy] using and_is_conj _ d bs h1,
        by simpa [matchHead] using allMatch_conj _ d bs h2⟩
    · exact ⟨bs.any id, by simpa [applyHead, logicalKeys, Val.truthy] using or_is_disj _ d bs h1,
        by simpa [matchHead] using anyMatch_disj _ d bs h2⟩
    · refine ⟨!(bs.any id), by simpa [applyHead, logicalKeys, Val.truthy] using nor_is_neg_disj _ d bs h1, ?_⟩
      simp only [matchHead, String.reduceEq, ↓reduceIte, anyMatch_disj _ d bs h2]
      rfl
  | .arr [], _, _, hr => simp at hr
  | .null, _, _, hr => simp at hr
  | .bool _, _, _, hr => simp at hr
  | .int _, _, _, hr => simp at hr
  | .dbl _ _, _, _, hr => simp at hr
  | .str _, _, _, hr => simp at hr
  | .date _ _, _, _, hr => simp at hr
  | .oid _, _, _, hr => simp at hr
  | .doc _, _, _, hr => simp at hr

/-- the matcher splits every key at its dots, whatever the components are -/
theorem candsKey_eq_cands (key : String) (d : Val) :
    candsKey key d = cands (splitDots key) d := rfl

/-- (kept for the modules that use it; the hypothesis is no longer needed) -/
theorem candsKey_of_keyOk {key : String} (d : Val) (_h : keyOk key = true) :
    candsKey key d = cands (splitDots key) d := rfl

theorem head_agree (nb : Bool) (d : Val) (hd : Clean nb d) (key : String) (c : Val)
    (ih : ∀ xs, c = .arr xs → ∀ q, q ∈ xs → Agree nb d q) (hcc : Clean nb c)
    (hr : headReasons key c d = []) :
    ∃ b, applyHead key c d = .ok b ∧ matchHead key c d = .ok b := by
  by_cases hcm : key = "$comment"
  · subst hcm; exact ⟨true, by simp [applyHead], by simp [matchHead, pure, Except.pure]⟩
  by_cases hl : key = "$and" ∨ key = "$or" ∨ key = "$nor"
  · have : (decide (key = "$and") || decide (key = "$or") || decide (key = "$nor")) = true := by
      rcases hl with h | h | h <;> subst h <;> decide
    simp only [headReasons, hcm, ↓reduceIte, this] at hr
    exact logical_agree nb d key c hl ih hcc hr
  · have hl' : (decide (key = "$and") || decide (key = "$or") || decide (key = "$nor")) = false := by
      simp only [not_or] at hl
      simp [hl.1, hl.2.1, hl.2.2]
    simp only [not_or] at hl
    simp only [headReasons, hcm, ↓reduceIte, hl', Bool.false_eq_true] at hr
    by_cases hs : key.startsWith "$" = true
    · simp [hs] at hr
    simp only [hs, Bool.false_eq_true, ↓reduceIte] at hr
    have hs' : key.startsWith "$" = false := by simpa using hs
    simp only [List.append_eq_nil_iff] at hr
    obtain ⟨hr1, hr2⟩ := hr
    have hck : candsKey key d = .ok (reach (splitDots key) d) := by
      rw [candsKey_eq_cands]
      cases hcd : cands (splitDots key) d with
      | error e => simp [hcd] at hr1
      | ok cs' => rw [cands_eq_reach _ _ _ hcd]
    have hcs : CandsAll (Clean nb) (reach (splitDots key) d) := by
      intro cnd hm v hv; subst hv
      exact reach_hered (hered_clean nb) _ d hd v hm
    obtain ⟨b, h1, h2⟩ := cond_spec nb c key d _ hck hr2 hcc hcs
    have n1 : key ≠ "$not" := ne_of_not_dollar hs' (by decide +kernel)
    have n2 : key ≠ "$expr" := ne_of_not_dollar hs' (by decide +kernel)
    have n3 : key ≠ "$text" := ne_of_not_dollar hs' (by decide +kernel)
    have n4 : key ≠ "$where" := ne_of_not_dollar hs' (by decide +kernel)
    have n5 : key ≠ "$jsonSchema" := ne_of_not_dollar hs' (by decide +kernel)
    refine ⟨b, ?_, ?_⟩
    · simp [applyHead, hcm, logicalKeys, topLevelOperators, hl.1, hl.2.1, hl.2.2, n1, n2, n3, n4, n5,
        Ne.symm hl.1, Ne.symm hl.2.1, Ne.symm hl.2.2, Ne.symm n1, Ne.symm n2, Ne.symm n3, Ne.symm n4,
        Ne.symm n5, hs', h1]
    · simp [matchHead, hcm, hl.1, hl.2.1, hl.2.2, n2, hs', h2]

theorem fields_agree (nb : Bool) (d : Val) (hd : Clean nb d) (fs : Fields)
    (ih : ∀ k v, (k, v) ∈ fs → ∀ xs, v = .arr xs → ∀ q, q ∈ xs → Agree nb d q)
    (hc : ∀ k v, (k, v) ∈ fs → Clean nb v)
    (hr : fieldsReasons fs d = []) :
    ∃ b, applyFields fs d = .ok b ∧ matchFields fs d = .ok b := by
  induction fs with
  | nil => exact ⟨true, by simp [applyFields], by simp [matchFields]⟩
  | cons kv rest ih2 =>
    obtain ⟨key, c⟩ := kv
    rw [fieldsReasons_cons] at hr
    simp only [List.append_eq_nil_iff] at hr
    obtain ⟨hr1, hr2⟩ := hr
    obtain ⟨br, hb1, hb2⟩ := ih2 (fun k v hm => ih k v (by simp [hm]))
      (fun k v hm => hc k v (by simp [hm])) hr2
    obtain ⟨b, hh1, hh2⟩ := head_agree nb d hd key c (ih key c (by simp)) (hc key c (by simp)) hr1
    refine ⟨b && br, ?_, ?_⟩
    · rw [applyFields_cons, hh1]
      cases b <;> simp [bind, Except.bind, hb1, pure, Except.pure]
    · rw [matchFields_cons, hh2, hb2]; rfl

theorem agree_all (nb : Bool) (d : Val) (hd : Clean nb d) : ∀ f, Agree nb d f := by
  have key : ∀ f, Agree nb d f ∧ (∀ xs, f = .arr xs → ∀ q, q ∈ xs → Agree nb d q) := by
    intro f
    induction f using Val.ind with
    | hdoc fs ih =>
      refine ⟨?_, by intro xs e; cases e⟩
      intro hc hr
      simp only [valReasons] at hr
      simp only [applyVal, matchVal]
      exact fields_agree nb d hd fs (fun k v hm => (ih k v hm).2)
        (fun k v hm => (hered_clean nb).doc fs k v hc hm) hr
    | harr xs ih =>
      refine ⟨by intro _ hr; simp [valReasons] at hr, ?_⟩
      intro ys e q hm
      cases e
      exact (ih q hm).1
    | _ => exact ⟨by intro _ hr; simp [valReasons] at hr, by intro xs e; cases e⟩
  exact fun f => (key f).1

theorem matches_eq_spec (f d : Val) (h : inD f d = true) :
    filterApplies f d = specMatches f d := by
  simp only [inD, reasons, List.isEmpty_iff, List.append_eq_nil_iff] at h
  obtain ⟨⟨hA, hB⟩, hV⟩ := h
  have hB' : hasAware f = false ∧ hasAware d = false := by
    by_cases hb : (hasAware f || hasAware d) = true
    · simp [hb] at hB
    · simpa using hb
  have hA' : (hasBool f = false ∧ hasBool d = false) ∨ (has01 f = false ∧ has01 d = false) := by
    by_cases ha : ((hasBool f || hasBool d) && (has01 f || has01 d)) = true
    · simp [ha] at hA
    · simp only [Bool.and_eq_true, Bool.or_eq_true, not_and, not_or] at ha
      by_cases hb : hasBool f = true ∨ hasBool d = true
      · right; simpa using ha hb
      · left; simpa using hb
  have main : ∃ b, applyVal f d = .ok b ∧ matchVal f d = .ok b := by
    rcases hA' with ⟨h1, h2⟩ | ⟨h1, h2⟩
    · exact agree_all true d ⟨h2, hB'.2⟩ f ⟨h1, hB'.1⟩ hV
    · exact agree_all false d ⟨h2, hB'.2⟩ f ⟨h1, hB'.1⟩ hV
  obtain ⟨b, h1, h2⟩ := main
  simp only [filterApplies, specMatches, h1, h2]

/-! ### an unknown operator: the matcher rejects it as the rules do, whatever the key reaches -/

theorem opsHold_unknown (op : String) (sv : Val) (cs : List (Option Val))
    (hunk : unknownOp op = true) :
    opsHold [(op, sv)] cs =
      .error (if notImplementedOperators.contains op then .notImpl else .opFail) := by
  simp only [unknownOp, operatorMapKeys, List.contains_cons, List.contains_nil, Bool.or_false,
    Bool.not_eq_true', Bool.and_eq_true, Bool.or_eq_false_iff, beq_eq_false_iff_ne, ne_eq,
    bne_iff_ne] at hunk
  obtain ⟨⟨h1, h2, h3, h4, h5, h6, h7, h8, h9, h10, h11, h12, h13, h14⟩, h15⟩ := hunk
  have hl : leafHolds op sv cs =
      .error (if notImplementedOperators.contains op then .notImpl else .opFail) := by
    simp only [leafHolds, h1, h2, h4, h5, h6, h7, h9, h10, h11, h12, h13, h14, ↓reduceIte]
    split <;> rfl
  cases sv <;> simp [opsHold, h3, h8, h15, hl, bind, Except.bind]

theorem unknown_single_eq_spec (key op : String) (sv d : Val)
    (hk : key.startsWith "$" = false) (hop : op.startsWith "$" = true)
    (hunk : unknownOp op = true) :
    ∃ e, (e = .opFail ∨ e = .notImpl) ∧
      filterApplies (.doc [(key, .doc [(op, sv)])]) d = .error e ∧
      specMatches (.doc [(key, .doc [(op, sv)])]) d = .error e := by
  have n0 : key ≠ "$comment" := ne_of_not_dollar hk (by decide +kernel)
  have n1 : key ≠ "$not" := ne_of_not_dollar hk (by decide +kernel)
  have n2 : key ≠ "$expr" := ne_of_not_dollar hk (by decide +kernel)
  have n3 : key ≠ "$text" := ne_of_not_dollar hk (by decide +kernel)
  have n4 : key ≠ "$where" := ne_of_not_dollar hk (by decide +kernel)
  have n5 : key ≠ "$jsonSchema" := ne_of_not_dollar hk (by decide +kernel)
  have n6 : key ≠ "$and" := ne_of_not_dollar hk (by decide +kernel)
  have n7 : key ≠ "$or" := ne_of_not_dollar hk (by decide +kernel)
  have n8 : key ≠ "$nor" := ne_of_not_dollar hk (by decide +kernel)
  have hops : isOpsFilter (.doc [(op, sv)]) = true := by simp [isOpsFilter, hop]
  have hopt : ((dkeys [(op, sv)]).contains "$options" && (dkeys [(op, sv)]).contains "$regex") = false := by
    by_cases h : op = "$options"
    · subst h; simp [dkeys]
    · simp [dkeys, Ne.symm h]
  have hchk : checkUnknownOps (dkeys [(op, sv)]) =
      .error (if notImplementedOperators.contains op then .notImpl else .opFail) := by
    have hu : (!(operatorMapKeys.contains op) && op != "$not") = true := hunk
    simp only [checkUnknownOps, dkeys, List.map_cons, List.map_nil, List.filter_cons, hu, ↓reduceIte,
      List.filter_nil, List.isEmpty_cons, Bool.false_eq_true, List.any_cons, List.any_nil,
      Bool.or_false]
    split <;> rfl
  refine ⟨if notImplementedOperators.contains op then .notImpl else .opFail, ?_, ?_, ?_⟩
  · split <;> simp
  · have ha := applyKey_check_err [(op, sv)] key d _ hops hopt hchk
    simp only [filterApplies, applyVal]
    rw [applyFields_cons]
    simp [applyHead, n0, logicalKeys, topLevelOperators, n1, n2, n3, n4, n5, n6, n7, n8,
      Ne.symm n1, Ne.symm n2, Ne.symm n3, Ne.symm n4, Ne.symm n5, Ne.symm n6, Ne.symm n7,
      Ne.symm n8, hk, ha, bind, Except.bind]
  · simp only [specMatches, matchVal]
    rw [matchFields_cons]
    simp [matchHead, n0, n2, n6, n7, n8, hk, condHolds, isOps, hop, opsHold_unknown op sv _ hunk,
      bind, Except.bind]

end MongoModel.Proofs.C01Lemmas
