/-
  Proofs.C13Seed — the upsert seed: `splitDots` on undotted / once-dotted keys, `expandDots` on
  plain filters, `discardOps` on scalars, operator documents and `{$eq: x}`.
-/
import Spec.Single
import Spec.Match

set_option linter.unusedVariables false
set_option linter.unusedSimpArgs false

namespace MongoModel.Proofs.C13Lemmas
open MongoModel MongoModel.Spec

/-! ### `splitDots` -/
theorem splitChars_nodot (cs : List Char) (h : cs.contains '.' = false) :
    ∀ cur, splitDotsChars cs cur = [String.ofList (cur.reverse ++ cs)] := by
  induction cs with
  | nil => intro cur; simp [splitDotsChars]
  | cons c r ih =>
    intro cur
    simp only [List.contains_cons, Bool.or_eq_false_iff, beq_eq_false_iff_ne, ne_eq] at h
    have hc : c ≠ '.' := fun e => h.1 e.symm
    simp only [splitDotsChars, hc, if_false]
    rw [ih h.2]
    simp

theorem splitChars_dot (as bs : List Char) (h : as.contains '.' = false) :
    ∀ cur, splitDotsChars (as ++ '.' :: bs) cur =
      String.ofList (cur.reverse ++ as) :: splitDotsChars bs [] := by
  induction as with
  | nil => intro cur; simp [splitDotsChars]
  | cons c r ih =>
    intro cur
    simp only [List.contains_cons, Bool.or_eq_false_iff, beq_eq_false_iff_ne, ne_eq] at h
    have hc : c ≠ '.' := fun e => h.1 e.symm
    simp only [List.cons_append, splitDotsChars, hc, if_false]
    rw [ih h.2]
    simp

theorem splitDots_nodot (k : String) (h : k.toList.contains '.' = false) : splitDots k = [k] := by
  unfold splitDots
  rw [splitChars_nodot _ h]
  simp

theorem splitDots_two (a b : String) (ha : a.toList.contains '.' = false)
    (hb : b.toList.contains '.' = false) : splitDots (a ++ "." ++ b) = [a, b] := by
  unfold splitDots
  have : (a ++ "." ++ b).toList = a.toList ++ '.' :: b.toList := by
    simp [String.toList_append]
  rw [this, splitChars_dot _ _ ha, splitChars_nodot _ hb]
  simp

/-- one step of `expandDots`: the state is the accumulated document, the keys stated so far and
    the proper prefixes recorded so far -/
def edStep (st : Fields × List String × List String) (kv : String × Val) :
    R (Fields × List String × List String) :=
  if st.2.1.contains kv.1 || st.2.2.contains kv.1 then .error .writeErr
  else
    (expandOne (st.2.1 ++ [kv.1]) st.2.2 kv.2 (splitDots kv.1) [] st.1).map
      (fun acc' => (acc', st.2.1 ++ [kv.1], st.2.2 ++ properPrefixes (splitDots kv.1)))

theorem expandDots_eq (doc : Fields) : expandDots doc = (doc.foldlM edStep ([], [], [])).map (·.1) := rfl

theorem dset_fresh (k : String) (v : Val) (acc : Fields) (h : k ∉ dkeys acc) :
    dset k v acc = acc ++ [(k, v)] := by
  induction acc with
  | nil => rfl
  | cons p r ih =>
    obtain ⟨k', v'⟩ := p
    simp only [dkeys, List.map_cons, List.mem_cons, not_or] at h
    have hne : ¬ k' = k := fun e => h.1 e.symm
    simp only [dset, hne, if_false, List.cons_append]
    rw [ih h.2]

theorem edStep_plain (acc : Fields) (k : String) (v : Val) (hk : k.toList.contains '.' = false)
    (hf : k ∉ dkeys acc) :
    edStep (acc, dkeys acc, []) (k, v) = .ok (acc ++ [(k, v)], dkeys (acc ++ [(k, v)]), []) := by
  unfold edStep
  have hc : (dkeys acc).contains k = false := by simpa using hf
  simp only [hc, List.contains_nil, Bool.or_self, Bool.false_eq_true, if_false,
    splitDots_nodot k hk, expandOne, Except.map]
  rw [dset_fresh k v acc hf]
  simp [dkeys, properPrefixes]

theorem fold_plain (ss : Fields) :
    ∀ acc : Fields, (∀ kv ∈ ss, kv.1.toList.contains '.' = false) → (dkeys (acc ++ ss)).Nodup →
      ss.foldlM edStep (acc, dkeys acc, []) = .ok (acc ++ ss, dkeys (acc ++ ss), []) := by
  induction ss with
  | nil => intro acc _ _; simp [pure, Except.pure]
  | cons kv r ih =>
    intro acc hp hn
    obtain ⟨k, v⟩ := kv
    have hf : k ∉ dkeys acc := by
      simp only [dkeys, List.map_append, List.map_cons] at hn ⊢
      have := List.nodup_append.1 hn
      intro hm
      exact this.2.2 _ hm _ (List.mem_cons_self ..) rfl
    rw [List.foldlM_cons, edStep_plain acc k v (hp _ (List.mem_cons_self ..)) hf]
    simp only [bind, Except.bind]
    have e : acc ++ (k, v) :: r = (acc ++ [(k, v)]) ++ r := by simp
    rw [e] at hn ⊢
    exact ih _ (fun kv h => hp kv (List.mem_cons_of_mem _ h)) hn

theorem expandDots_plain (ss : Fields) (hp : ∀ kv ∈ ss, kv.1.toList.contains '.' = false)
    (hd : (dkeys ss).Nodup) : expandDots ss = .ok ss := by
  rw [expandDots_eq]
  have := fold_plain ss [] hp (by simpa using hd)
  simp only [dkeys, List.map_nil, List.nil_append] at this
  rw [this]; rfl

theorem expandDots_two (a b : String) (v : Val)
    (ha : a.toList.contains '.' = false) (hb : b.toList.contains '.' = false) :
    expandDots [(a ++ "." ++ b, v)] = .ok [(a, .doc [(b, v)])] := by
  rw [expandDots_eq]
  simp only [List.foldlM_cons, List.foldlM_nil, edStep, splitDots_two a b ha hb]
  have hj : joinDots [a] = a := rfl
  have hne : ¬ a = a ++ "." ++ b := by
    intro e
    have := congrArg String.length e
    have h1 : (".":String).length = 1 := rfl
    simp only [String.length_append, h1] at this
    omega
  simp [expandOne, dget, dset, bind, Except.bind, pure, Except.pure, Except.map, hj, hne]

/-! ### `discardOps` -/

theorem dget_dset_self' (k : String) (v : Val) : ∀ fs : Fields, dget k (dset k v fs) = some v := by
  intro fs
  induction fs with
  | nil => simp [dset, dget]
  | cons p r ih =>
    obtain ⟨k', v'⟩ := p
    by_cases h : k' = k
    · simp [dset, dget, h]
    · simp [dset, dget, h, ih]

theorem dget_dset_other (k k' : String) (v : Val) (hne : k' ≠ k) :
    ∀ fs : Fields, dget k (dset k' v fs) = dget k fs := by
  intro fs
  induction fs with
  | nil => simp [dset, dget, hne]
  | cons p r ih =>
    obtain ⟨k2, v2⟩ := p
    by_cases h : k2 = k'
    · subst h; simp [dset, dget, hne]
    · by_cases h2 : k2 = k
      · subst h2; simp [dset, dget, h]
      · simp [dset, dget, h, h2, ih]

/-- what `discardFields` accumulates when no key is an operator -/
def keep : Fields → Fields → Fields
  | [], acc => acc
  | (k, v) :: r, acc =>
    if (discardOps v).2 then keep r acc else keep r (dset k (discardOps v).1 acc)

theorem discardFields_plain (ss : Fields) :
    ∀ acc, (∀ kv ∈ ss, kv.1.startsWith "$" = false) →
      discardFields ss acc = (.doc (keep ss acc), (keep ss acc).isEmpty) := by
  induction ss with
  | nil => intro acc _; simp [discardFields, keep]
  | cons p r ih =>
    intro acc h
    obtain ⟨k, v⟩ := p
    have hk : k.startsWith "$" = false := h (k, v) (List.mem_cons_self ..)
    have hne : ¬ k = "$eq" := by
      intro e; subst e
      exact absurd hk (by decide +kernel)
    have hr := fun acc => ih acc (fun kv hm => h kv (List.mem_cons_of_mem _ hm))
    rw [discardFields]
    simp only [hne, if_false, hk, Bool.false_eq_true, keep]
    cases hd : (discardOps v).2 with
    | true => simp only [if_true]; exact hr acc
    | false => simp only [Bool.false_eq_true, if_false]; exact hr _

theorem dget_keep_absent (k : String) (ss : Fields) :
    ∀ acc, k ∉ dkeys ss → dget k (keep ss acc) = dget k acc := by
  induction ss with
  | nil => intro acc _; rfl
  | cons p r ih =>
    intro acc h
    obtain ⟨k', v'⟩ := p
    simp only [dkeys, List.map_cons, List.mem_cons, not_or] at h
    have h2 : k ∉ dkeys r := h.2
    simp only [keep]
    split
    · exact ih acc h2
    · rw [ih _ h2, dget_dset_other k k' _ (fun e => h.1 e.symm)]

theorem dget_keep (k : String) (v : Val) (ss : Fields) :
    ∀ acc, (dkeys ss).Nodup → dget k ss = some v →
      dget k (keep ss acc) = if (discardOps v).2 then dget k acc else some (discardOps v).1 := by
  induction ss with
  | nil => intro acc _ h; simp [dget] at h
  | cons p r ih =>
    intro acc hn h
    obtain ⟨k', v'⟩ := p
    simp only [dkeys, List.map_cons, List.nodup_cons] at hn
    by_cases hk : k' = k
    · subst hk
      simp only [dget, if_true, Option.some.injEq] at h
      subst h
      have h2 : k' ∉ dkeys r := hn.1
      simp only [keep]
      split
      · exact dget_keep_absent k' r acc h2
      · rw [dget_keep_absent k' r _ h2, dget_dset_self']
    · simp only [dget, hk, if_false] at h
      simp only [keep]
      split
      · exact ih acc hn.2 h
      · rw [ih _ hn.2 h, dget_dset_other k k' _ hk]

theorem discardOps_scalar (v : Val) (h : isScalar v = true) : discardOps v = (v, false) := by
  cases v <;> first | rfl | simp [isScalar] at h

theorem discardFields_ops (ops : Fields) (h : ops.all (fun kv => kv.1.startsWith "$") = true)
    (he : dget "$eq" ops = none) : discardFields ops [] = (.doc [], true) := by
  induction ops with
  | nil => simp [discardFields]
  | cons p r ih =>
    obtain ⟨k, v⟩ := p
    simp only [List.all_cons, Bool.and_eq_true] at h
    by_cases hk : k = "$eq"
    · simp [dget, hk] at he
    · simp only [dget, hk, if_false] at he
      rw [discardFields]
      simp only [hk, if_false, h.1, if_true]
      exact ih h.2 he

theorem discardOps_ops (ops : Fields) (h : isOps ops = true) (he : dget "$eq" ops = none) :
    discardOps (.doc ops) = (.doc [], true) := by
  simp only [isOps, Bool.and_eq_true, Bool.not_eq_true'] at h
  rw [discardOps]
  simp only [h.1, Bool.false_eq_true, if_false]
  exact discardFields_ops ops h.2 he

theorem discardOps_eq (x : Val) : discardOps (.doc [("$eq", x)]) = (x, false) := by
  rw [discardOps]
  simp [discardFields]

theorem seed_plain (ss : Fields) (hk : ss.all (fun kv => !kv.1.toList.contains '.' && !kv.1.startsWith "$") = true)
    (hd : (dkeys ss).Nodup) :
    (∀ k v, dget k ss = some v → isScalar v = true →
        dget k (match (discardOps (.doc ss)).1 with | .doc fs => fs | _ => []) = some v) ∧
    (∀ k ops, dget k ss = some (.doc ops) → isOps ops = true → dget "$eq" ops = none →
        dget k (match (discardOps (.doc ss)).1 with | .doc fs => fs | _ => []) = none) ∧
    (∀ k x, dget k ss = some (.doc [("$eq", x)]) →
        dget k (match (discardOps (.doc ss)).1 with | .doc fs => fs | _ => []) = some x) := by
  have hp : ∀ kv ∈ ss, kv.1.startsWith "$" = false := by
    intro kv hm
    have := List.all_eq_true.1 hk kv hm
    simp only [Bool.and_eq_true, Bool.not_eq_true'] at this
    exact this.2
  have hdis : (match (discardOps (.doc ss)).1 with | .doc fs => fs | _ => []) = keep ss [] := by
    rw [discardOps]
    cases ss with
    | nil => rfl
    | cons p r =>
      simp only [List.isEmpty_cons, Bool.false_eq_true, if_false]
      rw [discardFields_plain _ _ hp]
  rw [hdis]
  refine ⟨?_, ?_, ?_⟩
  · intro k v h hs
    rw [dget_keep k v ss [] hd h, discardOps_scalar v hs]; rfl
  · intro k ops h ho he
    rw [dget_keep k _ ss [] hd h, discardOps_ops ops ho he]; rfl
  · intro k x h
    rw [dget_keep k _ ss [] hd h, discardOps_eq]; rfl

/-! ### the keys of `dset` and of `keep`; the seed of a filter with plain keys -/

theorem dkeys_dset (k : String) (x : Val) : ∀ fs : Fields,
    dkeys (dset k x fs) = if k ∈ dkeys fs then dkeys fs else dkeys fs ++ [k]
  | [] => by simp [dset, dkeys]
  | (k', v') :: r => by
    by_cases e : k' = k
    · subst e; simp [dset, dkeys]
    · have ih := dkeys_dset k x r
      simp only [dkeys] at ih ⊢
      simp only [dset, e, if_false, List.map_cons, ih, List.mem_cons, Ne.symm e, false_or]
      split <;> simp [*]

theorem nodup_dset (k : String) (x : Val) (fs : Fields) (h : (dkeys fs).Nodup) :
    (dkeys (dset k x fs)).Nodup := by
  rw [dkeys_dset]
  split
  · exact h
  · rename_i hk
    exact List.nodup_append.2 ⟨h, by simp, fun a ha b hb => by
      simp only [List.mem_singleton] at hb; subst hb; intro e; subst e; exact hk ha⟩

theorem mem_dkeys_dset {k k' : String} {x : Val} {fs : Fields} (h : k' ∈ dkeys (dset k x fs)) :
    k' = k ∨ k' ∈ dkeys fs := by
  rw [dkeys_dset] at h
  split at h
  · exact Or.inr h
  · rcases List.mem_append.1 h with h | h
    · exact Or.inr h
    · exact Or.inl (by simpa using h)

theorem keep_nodup (ss : Fields) : ∀ acc, (dkeys acc).Nodup → (dkeys (keep ss acc)).Nodup := by
  induction ss with
  | nil => intro acc h; exact h
  | cons p r ih =>
    obtain ⟨k, v⟩ := p
    intro acc h
    simp only [keep]
    split
    · exact ih acc h
    · exact ih _ (nodup_dset k _ acc h)

theorem keep_keys (ss : Fields) : ∀ acc k, k ∈ dkeys (keep ss acc) → k ∈ dkeys acc ∨ k ∈ dkeys ss := by
  induction ss with
  | nil => intro acc k h; exact Or.inl h
  | cons p r ih =>
    obtain ⟨k0, v⟩ := p
    intro acc k h
    simp only [keep] at h
    simp only [dkeys, List.map_cons, List.mem_cons]
    split at h
    · rcases ih acc k h with h | h
      · exact Or.inl h
      · exact Or.inr (Or.inr h)
    · rcases ih _ k h with h | h
      · rcases mem_dkeys_dset h with rfl | h
        · exact Or.inr (Or.inl rfl)
        · exact Or.inl h
      · exact Or.inr (Or.inr h)

/-- the equality conditions `_discard_operators` leaves of a filter without operator keys -/
theorem discard_is_keep (ss : Fields) (hp : ∀ kv ∈ ss, kv.1.startsWith "$" = false) :
    (discardOps (.doc ss)).1 = .doc (keep ss []) := by
  rw [discardOps]
  cases ss with
  | nil => rfl
  | cons p r =>
    simp only [List.isEmpty_cons, Bool.false_eq_true, if_false]
    rw [discardFields_plain _ _ hp]

/-- `_expand_dots` leaves what `_discard_operators` keeps of a filter with undotted keys as it is -/
theorem expandDots_keep_plain (ss' : Fields) (hk : ∀ kv ∈ ss', kv.1.toList.contains '.' = false) :
    expandDots (keep ss' []) = .ok (keep ss' []) := by
  apply expandDots_plain (keep ss' []) _ (keep_nodup ss' [] (by simp [dkeys]))
  intro kv hm
  have hmem : kv.1 ∈ dkeys (keep ss' []) := List.mem_map.2 ⟨kv, hm, rfl⟩
  rcases keep_keys ss' [] kv.1 hmem with h | h
  · simp [dkeys] at h
  · obtain ⟨kv', hm', e⟩ := List.mem_map.1 h
    rw [← e]; exact hk kv' hm'

/-- **the seed of a filter whose keys are plain field names** (no dot, no leading `$`; `ss'` is the
    filter with the chosen `_id`): what `_discard_operators` leaves, unchanged by `_expand_dots` -/
theorem seedOfPlain (ss' : Fields)
    (hk : ∀ kv ∈ ss', kv.1.toList.contains '.' = false ∧ kv.1.startsWith "$" = false) :
    (match (discardOps (.doc ss')).1 with
      | .doc eqs => (expandDots eqs).map Val.doc
      | _ => .error .attrErr) = .ok (.doc (keep ss' [])) := by
  rw [discard_is_keep ss' (fun kv hm => (hk kv hm).2)]
  simp only
  rw [expandDots_keep_plain ss' (fun kv hm => (hk kv hm).1)]
  rfl

theorem upsertSeed_plain (ss : Fields) (idv : Val)
    (hk : ∀ kv ∈ dset "_id" idv ss, kv.1.toList.contains '.' = false ∧ kv.1.startsWith "$" = false) :
    upsertSeed ss idv = .ok (.doc (keep (dset "_id" idv ss) [])) := by
  unfold upsertSeed
  exact seedOfPlain _ hk

end MongoModel.Proofs.C13Lemmas
