/-
  Proofs.C15Loop — `bulkLoop` against the one-at-a-time fold.
-/
import Proofs.C15Ok

namespace MongoModel.Proofs.C15Lemmas
open MongoModel MongoModel.Spec

theorem seqOps_cons (cfg : Cfg) (now : Int) (op : Val) (ops : List Val) (c : Coll) :
    seqOps cfg now (op :: ops) c = seqOps cfg now ops (stepColl cfg now c op).1 := rfl

theorem loop_nil_fst (cfg : Cfg) (now : Int) (ordered : Bool) (idx : Nat) (c : Coll) (t : BulkTotals) :
    (bulkLoop cfg now ordered [] idx c t).1 = c := by
  rw [bulkLoop]; split <;> rfl

def errEntry (idx : Nat) (e : Err) : Val := .doc [("index", .int idx), ("code", errCode e)]

theorem loop_cons (cfg : Cfg) (now : Int) (ordered : Bool) (r : Val) (rest : List Val) (idx : Nat)
    (c : Coll) (t : BulkTotals) :
    bulkLoop cfg now ordered (r :: rest) idx c t =
      match bulkOne cfg now c idx r with
      | (c', .ok f) => bulkLoop cfg now ordered rest (idx + 1) c' (f t)
      | (c', .writeErr e) =>
        if ordered then (c', .bulkErr ({ t with errors := t.errors ++ [errEntry idx e] }).toVal)
        else bulkLoop cfg now ordered rest (idx + 1) c' { t with errors := t.errors ++ [errEntry idx e] }
      | (c', .abort e) => (c', .err e) := by
  rw [bulkLoop]; rfl

theorem plain_cons {r : Val} {rest : List Val} (h : (r :: rest).all plainRequest = true) :
    Plain r ∧ rest.all plainRequest = true := by
  simp only [List.all_cons, Bool.and_eq_true] at h
  exact ⟨plain_of h.1, h.2⟩

theorem loop_unordered (cfg : Cfg) (now : Int) (reqs : List Val)
    (hp : reqs.all plainRequest = true) (hv : bulkPrecheck reqs = .ok ()) :
    ∀ (idx : Nat) (c : Coll) (t : BulkTotals),
      (∀ e, (bulkLoop cfg now false reqs idx c t).2 ≠ .err e) →
      (bulkLoop cfg now false reqs idx c t).1 = seqOps cfg now (reqs.map asSingle) c := by
  induction reqs with
  | nil => intro idx c t _; rw [loop_nil_fst]; rfl
  | cons r rest ih =>
    obtain ⟨hp1, hpr⟩ := plain_cons hp
    obtain ⟨hv1, hvr⟩ := precheck_cons hv
    intro idx c t hw
    rw [List.map_cons, seqOps_cons, ← one_fst cfg now c idx hp1 hv1]
    rw [loop_cons] at hw ⊢
    cases hb : bulkOne cfg now c idx r with
    | mk c' o =>
      rw [hb] at hw
      cases o with
      | ok f => exact ih hpr hvr _ _ _ hw
      | writeErr e =>
        simp only [Bool.false_eq_true, if_false] at hw ⊢
        exact ih hpr hvr _ _ _ hw
      | abort e => exact absurd rfl (hw e)

theorem loop_ordered (cfg : Cfg) (now : Int) (reqs : List Val)
    (hp : reqs.all plainRequest = true) (hv : bulkPrecheck reqs = .ok ()) :
    ∀ (idx : Nat) (c : Coll) (t : BulkTotals),
      ∃ k, k ≤ reqs.length ∧
        (bulkLoop cfg now true reqs idx c t).1 = seqOps cfg now ((reqs.take k).map asSingle) c ∧
        ((bulkLoop cfg now true reqs idx c t).2.isErr = false → k = reqs.length) := by
  induction reqs with
  | nil =>
    intro idx c t
    exact ⟨0, Nat.le_refl _, by rw [loop_nil_fst]; rfl, fun _ => rfl⟩
  | cons r rest ih =>
    obtain ⟨hp1, hpr⟩ := plain_cons hp
    obtain ⟨hv1, hvr⟩ := precheck_cons hv
    intro idx c t
    have h1 := one_fst cfg now c idx hp1 hv1
    rw [loop_cons]
    cases hb : bulkOne cfg now c idx r with
    | mk c' o =>
      rw [hb] at h1
      cases o with
      | ok f =>
        obtain ⟨k, hk, hst, hfin⟩ := ih hpr hvr (idx + 1) c' (f t)
        refine ⟨k + 1, by simpa using hk, ?_, ?_⟩
        · rw [List.take_succ_cons, List.map_cons, seqOps_cons, ← h1]; exact hst
        · intro h; simp [hfin h]
      | writeErr e =>
        refine ⟨1, by simp, ?_, ?_⟩
        · rw [List.take_succ_cons, List.take_zero, List.map_cons, seqOps_cons, ← h1]; rfl
        · simp [Out.isErr]
      | abort e =>
        refine ⟨1, by simp, ?_, ?_⟩
        · rw [List.take_succ_cons, List.take_zero, List.map_cons, seqOps_cons, ← h1]; rfl
        · simp [Out.isErr]

/-- an ordered loop started without errors reports exactly the error it stopped at -/
theorem loop_details (cfg : Cfg) (now : Int) (reqs : List Val) :
    ∀ (idx : Nat) (c : Coll) (t : BulkTotals) (details : Val), t.errors = [] →
      (bulkLoop cfg now true reqs idx c t).2 = .bulkErr details →
      ∃ (k : Nat) (code : Val) (t' : BulkTotals), idx ≤ k ∧ k < idx + reqs.length ∧
        t'.errors = [.doc [("index", .int k), ("code", code)]] ∧ details = t'.toVal := by
  induction reqs with
  | nil =>
    intro idx c t details ht h
    rw [bulkLoop] at h; simp [ht] at h
  | cons r rest ih =>
    intro idx c t details ht h
    rw [loop_cons] at h
    cases hb : bulkOne cfg now c idx r with
    | mk c' o =>
      rw [hb] at h
      cases o with
      | ok f =>
        have hf : (f t).errors = [] := by
          rw [ok_errors (one_ok cfg now c c' idx r f hb) t]; exact ht
        obtain ⟨k, code, t', h1, h2, h3, h4⟩ := ih (idx + 1) c' (f t) details hf h
        exact ⟨k, code, t', by omega, by simp only [List.length_cons]; omega, h3, h4⟩
      | writeErr e =>
        simp only [if_true, Out.bulkErr.injEq] at h
        refine ⟨idx, errCode e, _, Nat.le_refl _, by simp, ?_, h.symm⟩
        simp [ht, errEntry]
      | abort e => cases h

theorem bulkWrite_loop (cfg : Cfg) (now : Int) (c : Coll) (reqs : List Val) (ordered : Bool)
    (hv : bulkPrecheck reqs = .ok ()) (hne : reqs ≠ []) :
    bulkWrite cfg now c reqs ordered = bulkLoop cfg now ordered reqs 0 c {} := by
  unfold bulkWrite
  rw [hv]
  cases reqs with
  | nil => exact absurd rfl hne
  | cons r rest => rfl

end MongoModel.Proofs.C15Lemmas
