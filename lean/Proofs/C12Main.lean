/-
  Proofs.C12Main — assembling `incl_exact` / `excl_exact`: from "no reason to be outside D"
  to "the find-path projection is the rule".
-/
import Proofs.C12Id

namespace MongoModel.Proofs.C12
open MongoModel MongoModel.Spec.Proj

/-! ### small facts -/

theorem splitDotsChars_ne_nil : ∀ (cs cur : List Char), splitDotsChars cs cur ≠ []
  | [], cur => by simp [splitDotsChars]
  | c :: r, cur => by
    simp only [splitDotsChars]
    split
    · simp
    · exact splitDotsChars_ne_nil r _

theorem splitDots_ne_nil (s : String) : splitDots s ≠ [] := splitDotsChars_ne_nil _ _

theorem noCollision_noColl : ∀ ps : List Path, noCollision ps = true → NoColl ps
  | [], _ => List.Pairwise.nil
  | p :: r, h => by
    simp only [noCollision, Bool.and_eq_true, List.all_eq_true, Bool.not_eq_true',
      List.isPrefixOf_iff_prefix] at h
    refine List.Pairwise.cons ?_ (noCollision_noColl r h.2)
    intro q hq
    have := h.1 q hq
    constructor
    · intro hp; simp [List.isPrefixOf_iff_prefix.mpr hp] at this
    · intro hp; simp [List.isPrefixOf_iff_prefix.mpr hp] at this

theorem flagOf_cases {v : Val} {b : Bool} (h : flagOf v = some b) :
    v = .bool b ∨ (v = .int 1 ∧ b = true) ∨ (v = .int 0 ∧ b = false) := by
  cases v with
  | bool c => simp only [flagOf, Option.some.injEq] at h; subst h; exact Or.inl rfl
  | int i =>
    simp only [flagOf] at h
    split at h
    · next e => cases h; exact Or.inr (Or.inl ⟨by rw [e], rfl⟩)
    · split at h
      · next e => cases h; exact Or.inr (Or.inr ⟨by rw [e], rfl⟩)
      · cases h
  | _ => simp [flagOf] at h

theorem flagOf_pyEq {v w : Val} {b : Bool} (hv : flagOf v = some b) (hw : flagOf w = some b) :
    pyEq v w = true := by
  rcases flagOf_cases hv with e | ⟨e, e'⟩ | ⟨e, e'⟩ <;>
  rcases flagOf_cases hw with f | ⟨f, f'⟩ | ⟨f, f'⟩ <;> subst e <;> subst f <;>
  (try subst e') <;> (try subst f') <;> (try cases b) <;> simp_all [pyEq]

theorem flagOf_truthy {v : Val} {b : Bool} (hv : flagOf v = some b) : v.truthy = b := by
  rcases flagOf_cases hv with e | ⟨e, e'⟩ | ⟨e, e'⟩ <;> subst e <;> (try subst e') <;>
  simp [Val.truthy]

theorem flagOf_pyEq_one {v : Val} {b : Bool} (hv : flagOf v = some b) :
    pyEq v (.int 1) = b := by
  rcases flagOf_cases hv with e | ⟨e, e'⟩ | ⟨e, e'⟩ <;> subst e <;> (try subst e') <;>
  (try cases b) <;> simp [pyEq]

theorem flagOf_pyEq_zero {v : Val} {b : Bool} (hv : flagOf v = some b) :
    pyEq v (.int 0) = !b := by
  rcases flagOf_cases hv with e | ⟨e, e'⟩ | ⟨e, e'⟩ <;> subst e <;> (try subst e') <;>
  (try cases b) <;> simp [pyEq]

theorem flagOf_notArr {v : Val} {b : Bool} (hv : flagOf v = some b) : v.isArr = false := by
  rcases flagOf_cases hv with e | ⟨e, _⟩ | ⟨e, _⟩ <;> subst e <;> rfl

theorem flagOf_notDoc {v : Val} {b : Bool} (hv : flagOf v = some b) : v.isDoc = false := by
  rcases flagOf_cases hv with e | ⟨e, _⟩ | ⟨e, _⟩ <;> subst e <;> rfl

theorem extractOps_plain : ∀ {l : Fields}, (∀ kv ∈ l, kv.2.isDoc = false) →
    extractOps l = .ok ([], l)
  | [], _ => rfl
  | (k, v) :: r, h => by
    have h1 := h (k, v) (by simp)
    have ih := extractOps_plain (l := r) (fun kv hkv => h kv (by simp [hkv]))
    cases v <;> simp_all [extractOps, Val.isDoc, bind, Except.bind, pure, Except.pure]

theorem derase_eq_filter : ∀ {l : Fields}, (dkeys l).Nodup →
    derase "_id" l = l.filter (fun kv => kv.1 != "_id")
  | [], _ => rfl
  | (k, v) :: r, h => by
    simp only [dkeys, List.map_cons, List.nodup_cons] at h
    by_cases e : k = "_id"
    · subst e
      have : NoId r := fun kv hkv e' => h.1 (List.mem_map.mpr ⟨kv, hkv, e'⟩)
      simp [derase, noId_filter_ne this]
    · simp [derase, e, derase_eq_filter (l := r) h.2]

theorem allSome_map {α β} (f : α → Option β) : ∀ {l : List α} {out : List β},
    allSome (l.map f) = some out → l.map f = out.map some
  | [], out, h => by simp [allSome] at h; subst h; rfl
  | a :: r, out, h => by
    simp only [List.map_cons, allSome] at h
    cases hfa : f a with
    | none => simp [hfa, allSome] at h
    | some b =>
      simp only [hfa, allSome] at h
      cases hr : allSome (r.map f) with
      | none => simp [hr] at h
      | some out' =>
        simp [hr] at h; subst h
        simp [hfa, allSome_map f hr]

theorem mixedValues_flags {vs : List Val} {b : Bool} (h : ∀ v ∈ vs, flagOf v = some b) :
    mixedValues vs = .ok false := by
  have harr : vs.any Val.isArr = false := by
    simp only [List.any_eq_false]
    intro v hv; simp [flagOf_notArr (h v hv)]
  cases vs with
  | nil => simp [mixedValues]
  | cons v r =>
    have : r.all (pyEq v) = true := by
      simp only [List.all_eq_true]
      intro w hw
      exact flagOf_pyEq (h v (by simp)) (h w (by simp [hw]))
    simp [mixedValues, harr, this]

theorem applyOps_nil (doc dc : Fields) : applyProjOps doc [] dc = .ok dc := rfl

theorem maxLen_itemsOf_le (plain : Fields) : maxLen (itemsOf plain) ≤ maxLen (itemsOf plain) :=
  Nat.le_refl _

/-! ### the copy by the plain fields, `_id` re-attached -/

/-- `_id` listed last, on field lists -/
def idLastF (l : Fields) : Fields :=
  l.filter (fun kv => kv.1 != "_id") ++ l.filter (fun kv => kv.1 == "_id")

theorem idLast_doc (l : Fields) : idLast (.doc l) = .doc (idLastF l) := rfl

theorem idLastF_perm (l : Fields) : (idLastF l).Perm l := by
  unfold idLastF
  have := List.filter_append_perm (fun kv : String × Val => kv.1 != "_id") l
  refine List.Perm.trans ?_ this
  apply List.Perm.append_left
  apply List.Perm.of_eq
  apply List.filter_congr
  intro kv _
  cases h : kv.1 == "_id" <;> simp_all

/-- the value found under `_id` in the specification (default 1) reads as the flag `idf` -/
def IdReads (idv : Val) (idf : Option Bool) : Prop :=
  match idf with
  | none => idv = .int 1
  | some x => flagOf idv = some x

theorem idReads_one {idv : Val} {idf : Option Bool} (h : IdReads idv idf) :
    pyEq idv (.int 1) = (idf != some false) := by
  cases idf with
  | none => simp only [IdReads] at h; subst h; simp [pyEq]
  | some x => simp only [IdReads] at h; rw [flagOf_pyEq_one h]; cases x <;> rfl

theorem idReads_zero {idv : Val} {idf : Option Bool} (h : IdReads idv idf) :
    pyEq idv (.int 0) = !(idf != some false) := by
  cases idf with
  | none => simp only [IdReads] at h; subst h; simp [pyEq]
  | some x => simp only [IdReads] at h; rw [flagOf_pyEq_zero h]; cases x <;> rfl

/-- re-attaching `_id` to an inclusion copy -/
theorem attach_incl {fs : Fields} {ps : List Path} (hk : (dkeys fs).Nodup)
    (hid : tailsOf "_id" ps = []) :
    attachId fs (inclFields fs ps) = idLastF (inclFields fs (["_id"] :: ps)) := by
  have hno := incl_noId hid fs
  unfold idLastF attachId
  rw [incl_id_filter_ne hid, incl_id_filter_eq hid, filter_id_of_nodup hk]
  cases hg : dget "_id" fs with
  | none => simp
  | some v => simp [noId_dset v hno]

theorem drop_incl {fs : Fields} {ps : List Path} (hid : tailsOf "_id" ps = []) :
    derase "_id" (inclFields fs ps) = idLastF (inclFields fs ps) := by
  have hno := incl_noId hid fs
  unfold idLastF
  rw [noId_derase hno, noId_filter_ne hno, noId_filter_eq hno]; simp

theorem attach_excl {fs : Fields} {ps : List Path} (hid : tailsOf "_id" ps = []) :
    attachId fs (exclFields fs ps) = exclFields fs ps := by
  unfold attachId
  cases hg : dget "_id" fs with
  | none => rfl
  | some v =>
    have : dget "_id" (exclFields fs ps) = some v := by rw [excl_dget_id hid, hg]
    simp [dset_same this]

theorem base_empty {fs : Fields} {idv : Val} {idf : Option Bool} (hk : (dkeys fs).Nodup)
    (hidv : IdReads idv idf) :
    baseCopy fs [] idv false = .ok (if (idf != some false) = true
      then idLastF (inclFields fs [["_id"]]) else exclFields fs [["_id"]]) := by
  have hid : tailsOf "_id" ([] : List Path) = [] := rfl
  have hincl : inclFields fs [] = [] := by
    induction fs with
    | nil => rfl
    | cons kv r ih =>
      simp only [dkeys, List.map_cons, List.nodup_cons] at hk
      obtain ⟨k, v⟩ := kv
      simp [inclFields, tailsOf, ih hk.2]
  unfold baseCopy
  simp only [List.map_nil, mixedValues, List.any_nil, Bool.false_eq_true, if_false, bind,
    Except.bind, pure, Except.pure, idReads_one hidv, idReads_zero hidv]
  cases hkeep : (idf != some false)
  · simp only [Bool.false_eq_true, if_false, Bool.not_false, if_true, Bool.false_and,
      Bool.and_true]
    rw [← excl_id_erase hid hk, excl_nil]
  · simp only [if_true, Bool.not_true, Bool.false_eq_true, if_false, Bool.not_false,
      Bool.and_true]
    have := attach_incl hk hid
    rw [hincl] at this
    rw [this]

theorem base_plain {fs plain : Fields} {idv : Val} {idf : Option Bool} {b : Bool} (ka : Bool)
    (hk : (dkeys fs).Nodup) (hidv : IdReads idv idf) (hne : plain ≠ [])
    (hfl : ∀ kv ∈ plain, flagOf kv.2 = some b)
    (hnc : NoColl (plain.map (fun kv => splitDots kv.1)))
    (hnd : NoDollar (plain.map (fun kv => splitDots kv.1)))
    (hid : tailsOf "_id" (plain.map (fun kv => splitDots kv.1)) = []) :
    baseCopy fs plain idv ka = .ok (
      if b = true then
        idLastF (inclFields fs (if (idf != some false) = true
          then ["_id"] :: plain.map (fun kv => splitDots kv.1)
          else plain.map (fun kv => splitDots kv.1)))
      else exclFields fs (if (idf != some false) = true
          then plain.map (fun kv => splitDots kv.1)
          else ["_id"] :: plain.map (fun kv => splitDots kv.1))) := by
  have hpaths : (itemsOf plain).map (·.1) = plain.map (fun kv => splitDots kv.1) := by
    simp [itemsOf]
  obtain ⟨cs, hcs, hrep⟩ := combine_rep false (maxLen (itemsOf plain)) (itemsOf plain) (Nat.le_refl _)
    (by
      intro it hit
      obtain ⟨kv, _, e⟩ := List.mem_map.mp hit
      subst e; exact splitDots_ne_nil _)
    (by rw [hpaths]; exact hnc)
  rw [hpaths] at hrep
  have hmix := mixedValues_flags (vs := plain.map (·.2)) (b := b) (by
    intro v hv
    obtain ⟨kv, hkv, e⟩ := List.mem_map.mp hv
    subst e; exact hfl kv hkv)
  cases plain with
  | nil => exact absurd rfl hne
  | cons kv0 rest =>
    obtain ⟨k0, v0⟩ := kv0
    have hv0 : v0.truthy = b := flagOf_truthy (hfl (k0, v0) (by simp))
    unfold baseCopy
    simp only [hmix, combineSpec, hcs, guard_ok hrep hnd, hv0, bind, Except.bind, pure,
      Except.pure, Bool.false_eq_true, if_false, idReads_zero hidv]
    cases b
    · rw [fpFields_excl fs cs _ hrep hnd]
      simp only [Bool.false_eq_true, if_false]
      cases hkeep : (idf != some false)
      · simp only [Bool.not_false, if_true, Bool.false_eq_true, if_false]
        rw [excl_id_erase hid hk]
      · simp only [Bool.not_true, Bool.false_eq_true, if_false, if_true]
        rw [attach_excl hid]
    · rw [fpFields_incl fs cs _ hrep hnd]
      simp only [if_true]
      cases hkeep : (idf != some false)
      · simp only [Bool.not_false, if_true, Bool.false_eq_true, if_false]
        rw [drop_incl hid]
      · simp only [Bool.not_true, Bool.false_eq_true, if_false, if_true]
        rw [attach_incl hk hid]

/-! ### reading the domain -/

theorem ite_single_nil {c : Prop} [Decidable c] {x : String} :
    (if c then [x] else ([] : List String)) = [] ↔ ¬ c := by
  by_cases h : c <;> simp [h]

structure SpecOk (fields : Fields) : Prop where
  noDoc : ∀ kv ∈ fields, kv.2.isDoc = false
  nodup : (dkeys fields).Nodup
  noColl : noCollision ((fields.filter (fun kv => kv.1 != "_id")).map (fun kv => splitDots kv.1))
    = true
  noDollar : NoDollar ((fields.filter (fun kv => kv.1 != "_id")).map (fun kv => splitDots kv.1))
  noIdPath : tailsOf "_id"
    ((fields.filter (fun kv => kv.1 != "_id")).map (fun kv => splitDots kv.1)) = []

theorem specOk_of_reasons {fields : Fields} (h : specReasons fields = []) : SpecOk fields := by
  unfold specReasons at h
  simp only [List.append_eq_nil_iff, ite_single_nil] at h
  obtain ⟨⟨⟨⟨⟨⟨⟨⟨h1, _⟩, _⟩, _⟩, h5⟩, h6⟩, _⟩, h8⟩, h9⟩ := h
  refine ⟨?_, ?_, ?_, ?_, ?_⟩
  · intro kv hkv
    cases hd : kv.2.isDoc with
    | false => rfl
    | true => exact absurd (List.any_eq_true.mpr ⟨kv, hkv, hd⟩) h1
  · have : nodupB (dkeys fields) = true := by simpa using h5
    exact (nodupB_iff _).mp this
  · simpa using h6
  · intro p hp hd
    apply h8
    simp only [List.any_eq_true]
    exact ⟨p, hp, "$", hd, by decide⟩
  · apply List.eq_nil_iff_forall_not_mem.mpr
    intro t ht
    apply h9
    simp only [List.any_eq_true]
    exact ⟨"_id" :: t, mem_tailsOf.mp ht, by simp⟩

theorem normDict_some {fields : Fields} {n : Norm} (hn : normDict fields = some n) :
    ∃ idf, IdReads ((dget "_id" fields).getD (.int 1)) idf ∧ n.keepId = (idf != some false) ∧
      ((fields.filter (fun kv => kv.1 != "_id") = [] ∧ n.incl = (idf != some false) ∧
          n.paths = []) ∨
       (fields.filter (fun kv => kv.1 != "_id") ≠ [] ∧
          n.paths = (fields.filter (fun kv => kv.1 != "_id")).map (fun kv => splitDots kv.1) ∧
          ∀ kv ∈ fields.filter (fun kv => kv.1 != "_id"), flagOf kv.2 = some n.incl)) := by
  unfold normDict at hn
  simp only at hn
  split at hn
  · rename_i idf flags hid hfl
    have hreads : IdReads ((dget "_id" fields).getD (.int 1)) idf := by
      cases hg : dget "_id" fields with
      | none => simp only [hg] at hid; cases hid; simp [IdReads]
      | some v =>
        simp only [hg] at hid
        cases hf : flagOf v with
        | none => simp [hf] at hid
        | some x => simp [hf] at hid; subst hid; simpa [IdReads] using hf
    have hmap := allSome_map (fun kv : String × Val => flagOf kv.2)
      (l := fields.filter (fun kv => kv.1 != "_id")) (by simpa [List.map_map] using hfl)
    split at hn
    · cases hn
    · split at hn
      · cases hn
        refine ⟨idf, hreads, rfl, Or.inl ⟨?_, rfl, rfl⟩⟩
        simpa using hmap
      · rename_i b r
        split at hn
        · rename_i hall
          cases hn
          refine ⟨idf, hreads, rfl, Or.inr ⟨?_, rfl, ?_⟩⟩
          · intro e; rw [e] at hmap; simp at hmap
          · intro kv hkv
            have : flagOf kv.2 ∈ (b :: r).map some := by
              rw [← hmap]; exact List.mem_map.mpr ⟨kv, hkv, rfl⟩
            obtain ⟨x, hx, e⟩ := List.mem_map.mp this
            rcases List.mem_cons.mp hx with e' | hx'
            · rw [← e, e']
            · have := (List.all_eq_true.mp hall) x hx'
              rw [← e]; simpa using this
        · cases hn
  · cases hn

theorem mem_derase' {k : String} {kv : String × Val} {fs : Fields} (h : kv ∈ derase k fs) :
    kv ∈ fs := mem_derase h

/-- **the dict form**: on D, `_copy_only_fields` is the rule -/
theorem exact_dict {fs fields : Fields} {n : Norm} (hk : (dkeys fs).Nodup)
    (hs : specReasons fields = []) (hn : normDict fields = some n) :
    copyWithDict fs fields = .ok (if n.incl = true then idLastF (projectNorm n fs)
      else projectNorm n fs) := by
  have ok := specOk_of_reasons hs
  obtain ⟨idf, hreads, hkeep, hcase⟩ := normDict_some hn
  have hx : extractOps (derase "_id" fields) = .ok ([], fields.filter (fun kv => kv.1 != "_id")) := by
    rw [extractOps_plain (fun kv hkv => ok.noDoc kv (mem_derase hkv)), derase_eq_filter ok.nodup]
  unfold copyWithDict
  have hka : (!(dhas "_id" fields) && onlySlices []) = false := by simp [onlySlices]
  simp only [hx, bind, Except.bind, hka]
  rcases hcase with ⟨hpl, hincl, hpaths⟩ | ⟨hpl, hpaths, hfl⟩
  · rw [hpl, base_empty hk hreads]
    simp only [applyOps_nil, projectNorm, hincl, hpaths, hkeep]
    cases (idf != some false) <;> simp
  · rw [base_plain false hk hreads hpl hfl (noCollision_noColl _ ok.noColl) ok.noDollar ok.noIdPath]
    simp only [applyOps_nil, projectNorm, hpaths, hkeep]
    cases n.incl <;> simp

theorem dset_absent {k : String} {v : Val} : ∀ {l : Fields}, k ∉ dkeys l → dset k v l = l ++ [(k, v)]
  | [], _ => rfl
  | (k', v') :: r, h => by
    simp only [dkeys, List.map_cons, List.mem_cons, not_or] at h
    have e : ¬ k' = k := fun x => h.1 x.symm
    simp [dset, e, dset_absent (l := r) h.2]

theorem fieldsListToDict_eq : ∀ (names : List Val) (acc fields : Fields),
    listToDict names = some fields → (dkeys (acc ++ fields)).Nodup →
    fieldsListToDict names acc = .ok (acc ++ fields)
  | [], acc, fields, h, _ => by simp [listToDict] at h; subst h; simp [fieldsListToDict]
  | .str s :: r, acc, fields, h, hn => by
    simp only [listToDict] at h
    cases hr : listToDict r with
    | none => simp [hr] at h
    | some fields' =>
      simp [hr] at h; subst h
      have hs : s ∉ dkeys acc := by
        simp only [dkeys, List.map_append, List.map_cons] at hn
        have := (List.nodup_append.mp hn).2.2
        intro hm
        exact this s hm s (by simp) rfl
      simp only [fieldsListToDict, dset_absent hs]
      have := fieldsListToDict_eq r (acc ++ [(s, .int 1)]) fields' hr (by simpa using hn)
      simpa using this
  | .null :: _, _, _, h, _ => by simp [listToDict] at h
  | .bool _ :: _, _, _, h, _ => by simp [listToDict] at h
  | .int _ :: _, _, _, h, _ => by simp [listToDict] at h
  | .dbl _ _ :: _, _, _, h, _ => by simp [listToDict] at h
  | .date _ _ :: _, _, _, h, _ => by simp [listToDict] at h
  | .oid _ :: _, _, _, h, _ => by simp [listToDict] at h
  | .doc _ :: _, _, _, h, _ => by simp [listToDict] at h
  | .arr _ :: _, _, _, h, _ => by simp [listToDict] at h

/-! ### the theorem -/

theorem reasons_dict {fields : Fields}
    (h : (let rs := specReasons fields
          if !rs.isEmpty then rs
          else match normDict fields with
            | none => ["malformed"]
            | some _ => []) = []) :
    specReasons fields = [] ∧ ∃ n, normDict fields = some n := by
  simp only at h
  split at h
  · next hne => rw [h] at hne; simp at hne
  · next hne =>
    have hs : specReasons fields = [] := by simpa using hne
    refine ⟨hs, ?_⟩
    split at h
    · cases h
    · next n hn => exact ⟨n, hn⟩

theorem exact_fields {fs fields : Fields} (hk : (dkeys fs).Nodup)
    (h : (let rs := specReasons fields
          if !rs.isEmpty then rs
          else match normDict fields with
            | none => ["malformed"]
            | some _ => []) = []) :
    ∃ n, normDict fields = some n ∧
      (copyWithDict fs fields).map Val.doc = .ok (if n.incl = true
        then idLast (.doc (projectNorm n fs)) else .doc (projectNorm n fs)) := by
  obtain ⟨hs, n, hn⟩ := reasons_dict h
  refine ⟨n, hn, ?_⟩
  rw [exact_dict hk hs hn]
  cases n.incl <;> simp [Except.map, idLast_doc]

theorem exact_main (p d : Val) (h : reasons p d = []) :
    ∃ s, project p d = some s ∧
      copyOnlyFields d p = .ok (if modeOf p = some true then idLast s else s) := by
  cases d with
  | doc fs =>
    simp only [reasons, List.append_eq_nil_iff, ite_single_nil] at h
    obtain ⟨hk0, h⟩ := h
    have hk : (dkeys fs).Nodup := by
      have : nodupB (dkeys fs) = true := by simpa using hk0
      exact (nodupB_iff _).mp this
    cases p with
    | null => exact ⟨.doc fs, rfl, by simp [copyOnlyFields, modeOf]⟩
    | doc fields =>
      cases fields with
      | nil => exact ⟨.doc fs, rfl, by simp [copyOnlyFields, modeOf]⟩
      | cons f r =>
        simp only [dictForm] at h
        obtain ⟨n, hn, hc⟩ := exact_fields hk h
        refine ⟨.doc (projectNorm n fs), by simp [project, hn], ?_⟩
        simp only [copyOnlyFields, modeOf, hn, Option.map_some, hc]
        cases n.incl <;> simp
    | arr names =>
      cases names with
      | nil => exact ⟨.doc fs, rfl, by simp [copyOnlyFields, modeOf]⟩
      | cons x xs =>
        simp only [dictForm] at h
        cases hl : listToDict (x :: xs) with
        | none => simp [hl] at h
        | some fields =>
          simp only [hl] at h
          obtain ⟨n, hn, hc⟩ := exact_fields hk h
          have hnd : (dkeys fields).Nodup := (specOk_of_reasons (reasons_dict h).1).nodup
          have hfl := fieldsListToDict_eq (x :: xs) [] fields hl (by simpa using hnd)
          refine ⟨.doc (projectNorm n fs), by simp [project, hl, hn], ?_⟩
          simp only [copyOnlyFields, modeOf, hl, hn, Option.bind_some, Option.map_some, hfl,
            List.nil_append, bind, Except.bind, hc]
          cases n.incl <;> simp
    | _ => simp [dictForm] at h
  | _ => simp [reasons] at h

end MongoModel.Proofs.C12
