/-
  Proofs.C18Provenance — where can a datetime in a written document come from?

  A library of "provenance" lemmas: every container-building primitive an updater uses either
  *preserves* `AllDates P` (the result holds only datetimes that were in the arguments) or
  *inherits* it (a part of a value satisfying `AllDates P` satisfies it).  The store-level
  invariant

      DateInv s := ∀ d ∈ s, AllDates Normal d

  is then proved operator by operator by composing them: the operands were `patch`ed on entry
  (`patch_normal`), the stored document satisfies the invariant, the result is built from the two
  by `dset` / `derase` / list surgery.  `dateInv_foldl` is the plug: give it a step function and
  the per-step preservation, get the invariant for every reachable state.

  `writeAt` at the end is a worked composition (a generic dotted-path writer with null padding),
  not the model of any particular mongomock updater.
-/
import Proofs.C18

namespace MongoModel.Proofs.C18
open MongoModel

variable {P : DatePred}

/-! ### leaves -/

theorem allDates_null : AllDates P .null := by simp [AllDates]
theorem allDates_bool (b : Bool) : AllDates P (.bool b) := by simp [AllDates]
theorem allDates_int (i : Int) : AllDates P (.int i) := by simp [AllDates]
theorem allDates_dbl (m : Int) (e : Nat) : AllDates P (.dbl m e) := by simp [AllDates]
theorem allDates_str (s : String) : AllDates P (.str s) := by simp [AllDates]
theorem allDates_oid (n : Nat) : AllDates P (.oid n) := by simp [AllDates]

/-- any value without a datetime in it (numbers produced by `$inc`, fresh ObjectIds, …) -/
theorem allDates_of_no_dates (v : Val) (h : datesOf v = []) : AllDates P v := by
  rw [allDates_iff_dates, h]; simp

theorem allDates_doc_iff (fs : Fields) : AllDates P (.doc fs) ↔ ∀ kv ∈ fs, AllDates P kv.2 := by
  simp [AllDates, allDatesF_iff]

theorem allDates_arr_iff (xs : List Val) : AllDates P (.arr xs) ↔ ∀ x ∈ xs, AllDates P x := by
  simp [AllDates, allDatesL_iff]

theorem allDates_empty_doc : AllDates P (.doc []) := by simp [AllDates, AllDatesF]
theorem allDates_empty_arr : AllDates P (.arr []) := by simp [AllDates, AllDatesL]

/-! ### the master lemmas: a container built from members of good containers is good -/

theorem allDatesL_of_forall_mem {xs : List Val} (h : ∀ x ∈ xs, AllDates P x) : AllDatesL P xs :=
  (allDatesL_iff P xs).2 h

theorem allDatesL_mem {xs : List Val} (h : AllDatesL P xs) {x : Val} (hx : x ∈ xs) :
    AllDates P x :=
  (allDatesL_iff P xs).1 h x hx

theorem allDatesF_of_forall_mem {fs : Fields} (h : ∀ kv ∈ fs, AllDates P kv.2) : AllDatesF P fs :=
  (allDatesF_iff P fs).2 h

theorem allDatesF_mem {fs : Fields} (h : AllDatesF P fs) {kv : String × Val} (hx : kv ∈ fs) :
    AllDates P kv.2 :=
  (allDatesF_iff P fs).1 h kv hx

/-- every element of `ys` is an element of `xs` or good by itself -/
theorem allDatesL_of_subset {xs ys : List Val} (hxs : AllDatesL P xs)
    (h : ∀ y ∈ ys, y ∈ xs ∨ AllDates P y) : AllDatesL P ys :=
  allDatesL_of_forall_mem fun y hy => (h y hy).elim (allDatesL_mem hxs) id

theorem allDatesF_of_subset {fs gs : Fields} (hfs : AllDatesF P fs)
    (h : ∀ kv ∈ gs, kv ∈ fs ∨ AllDates P kv.2) : AllDatesF P gs :=
  allDatesF_of_forall_mem fun kv hkv => (h kv hkv).elim (allDatesF_mem hfs) id

/-! ### documents: dget / dset / derase and friends -/

theorem mem_of_dget {k : String} : ∀ {fs : Fields} {v : Val}, dget k fs = some v → (k, v) ∈ fs
  | [], _, h => by simp [dget] at h
  | (k', v') :: r, v, h => by
    by_cases hk : k' = k
    · simp [dget, hk] at h; simp [hk, h]
    · simp only [dget, hk, if_false] at h
      exact List.mem_cons_of_mem _ (mem_of_dget h)

theorem allDatesF_dget {k : String} {fs : Fields} {v : Val} (h : AllDatesF P fs)
    (hg : dget k fs = some v) : AllDates P v :=
  allDatesF_mem h (mem_of_dget hg)

/-- `d[k]` of a good document is good -/
theorem allDates_dget {k : String} {fs : Fields} {v : Val} (h : AllDates P (.doc fs))
    (hg : dget k fs = some v) : AllDates P v := by
  simp only [AllDates] at h; exact allDatesF_dget h hg

/-- `d.get(k, {})` -/
theorem allDates_dget_getD {k : String} {fs : Fields} {dflt : Val} (h : AllDates P (.doc fs))
    (hd : AllDates P dflt) : AllDates P ((dget k fs).getD dflt) := by
  cases hg : dget k fs with
  | none => simpa using hd
  | some v => simpa using allDates_dget h hg

theorem mem_dset {k : String} {v : Val} : ∀ {fs : Fields} {kv : String × Val},
    kv ∈ dset k v fs → kv ∈ fs ∨ kv = (k, v)
  | [], kv, h => by simp [dset] at h; exact Or.inr h
  | (k', v') :: r, kv, h => by
    by_cases hk : k' = k
    · simp only [dset, hk, if_true, List.mem_cons] at h
      rcases h with h | h
      · exact Or.inr h
      · exact Or.inl (List.mem_cons_of_mem _ h)
    · simp only [dset, hk, if_false, List.mem_cons] at h
      rcases h with h | h
      · exact Or.inl (by simp [h])
      · rcases mem_dset h with h | h
        · exact Or.inl (List.mem_cons_of_mem _ h)
        · exact Or.inr h

theorem allDatesF_dset {k : String} {v : Val} {fs : Fields} (h : AllDatesF P fs)
    (hv : AllDates P v) : AllDatesF P (dset k v fs) :=
  allDatesF_of_subset h fun kv hkv => (mem_dset hkv).imp id (fun (e : kv = (k, v)) => by rw [e]; exact hv)

/-- `d[k] = v` -/
theorem allDates_dset {k : String} {v : Val} {fs : Fields} (h : AllDates P (.doc fs))
    (hv : AllDates P v) : AllDates P (.doc (dset k v fs)) := by
  simp only [AllDates] at h ⊢; exact allDatesF_dset h hv

theorem mem_derase {k : String} : ∀ {fs : Fields} {kv : String × Val},
    kv ∈ derase k fs → kv ∈ fs
  | [], _, h => by simp [derase] at h
  | (k', v') :: r, kv, h => by
    by_cases hk : k' = k
    · simp only [derase, hk, if_true] at h; exact List.mem_cons_of_mem _ h
    · simp only [derase, hk, if_false, List.mem_cons] at h
      rcases h with h | h
      · simp [h]
      · exact List.mem_cons_of_mem _ (mem_derase h)

theorem allDatesF_derase {k : String} {fs : Fields} (h : AllDatesF P fs) :
    AllDatesF P (derase k fs) :=
  allDatesF_of_subset h fun _ hkv => Or.inl (mem_derase hkv)

/-- `d.pop(k, None)` / `del d[k]` -/
theorem allDates_derase {k : String} {fs : Fields} (h : AllDates P (.doc fs)) :
    AllDates P (.doc (derase k fs)) := by
  simp only [AllDates] at h ⊢; exact allDatesF_derase h

/-- `d[dst] = d.pop(src)` (`$rename`) -/
theorem allDates_rename {src dst : String} {fs : Fields} {v : Val} (h : AllDates P (.doc fs))
    (hg : dget src fs = some v) : AllDates P (.doc (dset dst v (derase src fs))) :=
  allDates_dset (allDates_derase h) (allDates_dget h hg)

/-- `dict(a, **b)` / `a.update(b)` seen as a fold of `dset` -/
theorem allDatesF_foldl_dset {fs : Fields} : ∀ (gs : Fields), AllDatesF P fs → AllDatesF P gs →
    AllDatesF P (gs.foldl (fun acc kv => dset kv.1 kv.2 acc) fs)
  | [], h, _ => h
  | (k, v) :: r, h, hg => by
    simp only [AllDatesF] at hg
    exact allDatesF_foldl_dset (fs := dset k v fs) r (allDatesF_dset h hg.1) hg.2

theorem allDatesF_append {fs gs : Fields} (h : AllDatesF P fs) (hg : AllDatesF P gs) :
    AllDatesF P (fs ++ gs) :=
  allDatesF_of_forall_mem fun _ hkv =>
    (List.mem_append.1 hkv).elim (allDatesF_mem h) (allDatesF_mem hg)

theorem allDatesF_filter {fs : Fields} (p : String × Val → Bool) (h : AllDatesF P fs) :
    AllDatesF P (fs.filter p) :=
  allDatesF_of_subset h fun _ hkv => Or.inl (List.mem_filter.1 hkv).1

/-- rebuilding a document value by value with a function that preserves `AllDates P` -/
theorem allDatesF_map_values {fs : Fields} (f : String → Val → Val)
    (hf : ∀ k v, AllDates P v → AllDates P (f k v)) (h : AllDatesF P fs) :
    AllDatesF P (fs.map (fun kv => (kv.1, f kv.1 kv.2))) :=
  allDatesF_of_forall_mem fun kv hkv => by
    obtain ⟨kv', hm, rfl⟩ := List.mem_map.1 hkv
    exact hf _ _ (allDatesF_mem h hm)

/-! ### arrays -/

theorem allDates_arr_of {xs : List Val} (h : AllDatesL P xs) : AllDates P (.arr xs) := by
  simpa [AllDates] using h

theorem allDatesL_of_arr {xs : List Val} (h : AllDates P (.arr xs)) : AllDatesL P xs := by
  simpa [AllDates] using h

/-- `xs + ys`, `xs += ys` (`$push $each`, `$addToSet $each`) -/
theorem allDatesL_append {xs ys : List Val} (h : AllDatesL P xs) (hy : AllDatesL P ys) :
    AllDatesL P (xs ++ ys) :=
  allDatesL_of_forall_mem fun _ hx =>
    (List.mem_append.1 hx).elim (allDatesL_mem h) (allDatesL_mem hy)

/-- `xs.append(v)` (`$push`, `$addToSet`) -/
theorem allDatesL_concat {xs : List Val} {v : Val} (h : AllDatesL P xs) (hv : AllDates P v) :
    AllDatesL P (xs ++ [v]) :=
  allDatesL_append h (by simp [AllDatesL, hv])

theorem allDatesL_cons {xs : List Val} {v : Val} (hv : AllDates P v) (h : AllDatesL P xs) :
    AllDatesL P (v :: xs) := by
  simp [AllDatesL, hv, h]

/-- `xs[:n]` -/
theorem allDatesL_take {xs : List Val} (n : Nat) (h : AllDatesL P xs) : AllDatesL P (xs.take n) :=
  allDatesL_of_subset h fun _ hy => Or.inl (List.mem_of_mem_take hy)

/-- `xs[n:]` -/
theorem allDatesL_drop {xs : List Val} (n : Nat) (h : AllDatesL P xs) : AllDatesL P (xs.drop n) :=
  allDatesL_of_subset h fun _ hy => Or.inl (List.mem_of_mem_drop hy)

/-- `xs[0:p] + each + xs[p:]` (`$push` with `$position`) -/
theorem allDatesL_insert_at {xs each : List Val} (p : Nat) (h : AllDatesL P xs)
    (he : AllDatesL P each) : AllDatesL P (xs.take p ++ each ++ xs.drop p) :=
  allDatesL_append (allDatesL_append (allDatesL_take p h) he) (allDatesL_drop p h)

/-- `[x for x in xs if …]` (`$pull`, `$pullAll`, the `not in` test of `$addToSet`) -/
theorem allDatesL_filter {xs : List Val} (p : Val → Bool) (h : AllDatesL P xs) :
    AllDatesL P (xs.filter p) :=
  allDatesL_of_subset h fun _ hy => Or.inl (List.mem_filter.1 hy).1

theorem allDatesL_reverse {xs : List Val} (h : AllDatesL P xs) : AllDatesL P xs.reverse :=
  allDatesL_of_subset h fun _ hy => Or.inl (List.mem_reverse.1 hy)

/-- any rearrangement (`sorted(…)` of `$push $sort`) -/
theorem allDatesL_perm {xs ys : List Val} (hp : xs.Perm ys) (h : AllDatesL P xs) :
    AllDatesL P ys :=
  allDatesL_of_subset h fun _ hy => Or.inl (hp.mem_iff.2 hy)

theorem allDatesL_mergeSort {xs : List Val} (le : Val → Val → Bool) (h : AllDatesL P xs) :
    AllDatesL P (xs.mergeSort le) :=
  allDatesL_perm (List.mergeSort_perm xs le).symm h

/-- `xs.pop()` -/
theorem allDatesL_dropLast {xs : List Val} (h : AllDatesL P xs) : AllDatesL P xs.dropLast :=
  allDatesL_of_subset h fun _ hy => Or.inl (List.dropLast_subset _ hy)

/-- `xs.pop(0)` -/
theorem allDatesL_tail {xs : List Val} (h : AllDatesL P xs) : AllDatesL P xs.tail :=
  allDatesL_of_subset h fun _ hy => Or.inl (List.mem_of_mem_tail hy)

/-- `del xs[i]` -/
theorem allDatesL_eraseIdx {xs : List Val} (i : Nat) (h : AllDatesL P xs) :
    AllDatesL P (xs.eraseIdx i) :=
  allDatesL_of_subset h fun _ hy => Or.inl (List.mem_of_mem_eraseIdx hy)

/-- `xs.remove(v)` -/
theorem allDatesL_erase_first {xs : List Val} (p : Val → Bool) (h : AllDatesL P xs) :
    AllDatesL P (xs.eraseP p) :=
  allDatesL_of_subset h fun _ hy => Or.inl (List.mem_of_mem_eraseP hy)

/-- `xs[i] = v` -/
theorem allDatesL_set {xs : List Val} {v : Val} (i : Nat) (h : AllDatesL P xs)
    (hv : AllDates P v) : AllDatesL P (xs.set i v) :=
  allDatesL_of_subset h fun y hy => (List.mem_or_eq_of_mem_set hy).imp id (fun (e : y = v) => by rw [e]; exact hv)

/-- `[None] * n` -/
theorem allDatesL_replicate_null (n : Nat) : AllDatesL P (List.replicate n .null) :=
  allDatesL_of_forall_mem fun x hx => by
    rw [(List.mem_replicate.1 hx).2]; exact allDates_null

/-- set at an index beyond the end: pad with nulls, then the value -/
theorem allDatesL_pad_set {xs : List Val} {v : Val} (n : Nat) (h : AllDatesL P xs)
    (hv : AllDates P v) : AllDatesL P (xs ++ List.replicate n .null ++ [v]) :=
  allDatesL_concat (allDatesL_append h (allDatesL_replicate_null n)) hv

/-- `xs[i]` -/
theorem allDatesL_getElem? {xs : List Val} {i : Nat} {x : Val} (h : AllDatesL P xs)
    (hx : xs[i]? = some x) : AllDates P x :=
  allDatesL_mem h (List.mem_of_getElem? hx)

theorem allDatesL_getD {xs : List Val} (i : Nat) {dflt : Val} (h : AllDatesL P xs)
    (hd : AllDates P dflt) : AllDates P (xs[i]?.getD dflt) := by
  cases hx : xs[i]? with
  | none => simpa using hd
  | some x => simpa using allDatesL_getElem? h hx

theorem allDatesL_listGet? {xs : List Val} {i : Int} {x : Val} (h : AllDatesL P xs)
    (hx : listGet? xs i = some x) : AllDates P x := by
  unfold listGet? at hx
  split at hx
  · cases hx
  · exact allDatesL_getElem? h hx

theorem allDatesL_head? {xs : List Val} {x : Val} (h : AllDatesL P xs) (hx : xs.head? = some x) :
    AllDates P x :=
  allDatesL_mem h (List.mem_of_head? hx)

theorem allDatesL_getLast? {xs : List Val} {x : Val} (h : AllDatesL P xs)
    (hx : xs.getLast? = some x) : AllDates P x :=
  allDatesL_mem h (List.mem_of_getLast? hx)

/-- rebuilding an array item by item with a function that preserves `AllDates P` -/
theorem allDatesL_map {xs : List Val} (f : Val → Val) (hf : ∀ v, AllDates P v → AllDates P (f v))
    (h : AllDatesL P xs) : AllDatesL P (xs.map f) :=
  allDatesL_of_forall_mem fun y hy => by
    obtain ⟨x, hm, rfl⟩ := List.mem_map.1 hy
    exact hf _ (allDatesL_mem h hm)

theorem allDatesL_flatten {xss : List (List Val)} (h : ∀ xs ∈ xss, AllDatesL P xs) :
    AllDatesL P xss.flatten :=
  allDatesL_of_forall_mem fun y hy => by
    obtain ⟨xs, hm, hy⟩ := List.mem_flatten.1 hy
    exact allDatesL_mem (h xs hm) hy

/-! ### path access -/

/-- `get_value_by_dot`: whatever a path reaches inside a good value is good -/
theorem allDates_getByDotParts : ∀ (ps : List String) (d x : Val), AllDates P d →
    getByDotParts ps d = .ok x → AllDates P x
  | [], d, x, h, hx => by simp [getByDotParts] at hx; exact hx ▸ h
  | p :: ps, d, x, h, hx => by
    cases d with
    | doc fs =>
      simp only [getByDotParts] at hx
      cases hg : dget p fs with
      | none => simp [hg] at hx
      | some v =>
        simp only [hg] at hx
        exact allDates_getByDotParts ps v x (allDates_dget h hg) hx
    | arr xs =>
      simp only [getByDotParts] at hx
      cases hp : pyInt? p with
      | none => simp [hp] at hx
      | some i =>
        simp only [hp] at hx
        by_cases hi : i < 0
        · simp [hi, unmodelled] at hx
        · simp only [hi, if_false] at hx
          cases hg : xs[i.toNat]? with
          | none => simp [hg] at hx
          | some v =>
            simp only [hg] at hx
            exact allDates_getByDotParts ps v x (allDatesL_getElem? (allDatesL_of_arr h) hg) hx
    | _ => simp [getByDotParts] at hx

/-! ### values that enter through a patched argument -/

theorem allDates_dset_patch {k : String} (v : Val) {fs : Fields}
    (h : AllDates Normal (.doc fs)) : AllDates Normal (.doc (dset k (patch v) fs)) :=
  allDates_dset h (patch_normal v)

theorem allDatesL_concat_patch {xs : List Val} (v : Val) (h : AllDatesL Normal xs) :
    AllDatesL Normal (xs ++ [patch v]) :=
  allDatesL_concat h (patch_normal v)

/-- a part of a patched argument (an operand under `$set`, an item of `$each`, …) -/
theorem allDates_part_of_patched {ps : List String} {u x : Val}
    (h : getByDotParts ps (patch u) = .ok x) : AllDates Normal x :=
  allDates_getByDotParts ps (patch u) x (patch_normal u) h

/-- a clock value is normal once patched — what `$currentDate` has to store -/
theorem now_normal (us : Int) (off : Option Int) : AllDates Normal (patch (.date us off)) :=
  patch_normal _

/-- and is *not* normal when stored as it comes, unless it happens to be naive with whole
    milliseconds (the `$currentDate` finding) -/
theorem raw_now_normal_iff (us : Int) (off : Option Int) :
    AllDates Normal (.date us off) ↔ off = none ∧ us % 1000 = 0 := by
  simp [AllDates, Normal]

/-! ### the store-level invariant -/

theorem dateInv_nil : DateInv [] := by simp [DateInv]

/-- insert: the stored document is the patched argument -/
theorem dateInv_insert {s : List Val} (d : Val) (h : DateInv s) : DateInv (s ++ [patch d]) := by
  intro x hx
  rcases List.mem_append.1 hx with hx | hx
  · exact h x hx
  · simp only [List.mem_singleton] at hx; exact hx ▸ patch_normal d

theorem dateInv_append {s t : List Val} (h : DateInv s) (ht : DateInv t) : DateInv (s ++ t) := by
  intro x hx
  exact (List.mem_append.1 hx).elim (h x) (ht x)

/-- update / replace in place: position `i` receives a good document -/
theorem dateInv_set {s : List Val} (i : Nat) {d : Val} (h : DateInv s) (hd : AllDates Normal d) :
    DateInv (s.set i d) := by
  intro x hx
  exact (List.mem_or_eq_of_mem_set hx).elim (h x) (fun e => e ▸ hd)

/-- delete -/
theorem dateInv_filter {s : List Val} (p : Val → Bool) (h : DateInv s) : DateInv (s.filter p) :=
  fun x hx => h x (List.mem_filter.1 hx).1

theorem dateInv_eraseIdx {s : List Val} (i : Nat) (h : DateInv s) : DateInv (s.eraseIdx i) :=
  fun x hx => h x (List.mem_of_mem_eraseIdx hx)

/-- update_many: every document goes through a function that preserves the invariant -/
theorem dateInv_map {s : List Val} (f : Val → Val)
    (hf : ∀ d, AllDates Normal d → AllDates Normal (f d)) (h : DateInv s) : DateInv (s.map f) := by
  intro x hx
  obtain ⟨d, hm, rfl⟩ := List.mem_map.1 hx
  exact hf d (h d hm)

/-- what a reader sees: documents of a good store are good (find, find_one, `$match`, …) -/
theorem dateInv_read {s : List Val} {d : Val} (h : DateInv s) (hd : d ∈ s) : AllDates Normal d :=
  h d hd

/-- a good store is a fixed point of normalisation: re-patching what is stored (as `$match`
    does) changes nothing -/
theorem dateInv_patch_id {s : List Val} (h : DateInv s) : s.map patch = s := by
  conv => rhs; rw [← List.map_id s]
  exact List.map_congr_left fun d hd => patch_fixes_normal d (h d hd)

/-- **the plug**: any state machine whose steps preserve the invariant keeps it along every
    history -/
theorem dateInv_foldl {σ Op : Type} (docs : σ → List Val) (step : σ → Op → σ)
    (hstep : ∀ s op, DateInv (docs s) → DateInv (docs (step s op))) :
    ∀ (ops : List Op) (s : σ), DateInv (docs s) → DateInv (docs (ops.foldl step s))
  | [], _, h => h
  | op :: ops, s, h => dateInv_foldl docs step hstep ops (step s op) (hstep s op h)

/-! ### a worked composition: a dotted-path writer with null padding -/

/-- write `v` at path `ps` inside `d`: descend through documents (creating `{}` for a missing key or a null) and arrays
    (numeric component; pad with nulls past the end), rebuild on the way back -/
def writeAt : List String → Val → Val → Val
  | [], v, _ => v
  | p :: ps, v, .null => .doc [(p, writeAt ps v .null)]
  | p :: ps, v, .doc fs => .doc (dset p (writeAt ps v ((dget p fs).getD (.doc []))) fs)
  | p :: ps, v, .arr xs =>
    match pyInt? p with
    | none => .arr xs
    | some i =>
      if i < 0 then .arr xs
      else if i.toNat < xs.length then .arr (xs.set i.toNat (writeAt ps v (xs[i.toNat]?.getD .null)))
      else .arr (xs ++ List.replicate (i.toNat - xs.length) .null ++ [writeAt ps v .null])
  | _ :: _, _, d => d

theorem allDates_writeAt : ∀ (ps : List String) (v d : Val), AllDates P v → AllDates P d →
    AllDates P (writeAt ps v d)
  | [], v, d, hv, _ => by simpa [writeAt] using hv
  | p :: ps, v, d, hv, hd => by
    cases d with
    | null =>
      simp only [writeAt, AllDates, AllDatesF, and_true]
      exact allDates_writeAt ps v _ hv allDates_null
    | doc fs =>
      simp only [writeAt]
      exact allDates_dset hd
        (allDates_writeAt ps v _ hv (allDates_dget_getD hd allDates_empty_doc))
    | arr xs =>
      simp only [writeAt]
      cases pyInt? p with
      | none => exact hd
      | some i =>
        simp only
        split
        · exact hd
        · split
          · exact allDates_arr_of (allDatesL_set _ (allDatesL_of_arr hd)
              (allDates_writeAt ps v _ hv (allDatesL_getD _ (allDatesL_of_arr hd) allDates_null)))
          · exact allDates_arr_of (allDatesL_pad_set _ (allDatesL_of_arr hd)
              (allDates_writeAt ps v _ hv allDates_null))
    | _ => simpa [writeAt] using hd

/-- composed with `patch` on entry and the stored invariant: a `$set`-like write keeps a stored
    document normal -/
theorem writeAt_patched_normal (ps : List String) (operand d : Val) (hd : AllDates Normal d) :
    AllDates Normal (writeAt ps (patch operand) d) :=
  allDates_writeAt ps _ d (patch_normal operand) hd

end MongoModel.Proofs.C18
