/-
  Proofs.C10 — lemmas and proofs behind Props/C10.lean.
-/
import Spec.Counts
import Proofs.C10Keys
import Proofs.C10Update

namespace MongoModel.Proofs.C10
open MongoModel MongoModel.Spec
open MongoModel.Proofs.C10Lemmas MongoModel.Proofs.C09Lemmas

theorem find_is_selection (now : Int) (c c1 : Coll) (fs : Fields) (he : expire now c = .ok c1)
    (hne : c1.docs ≠ []) :
    (findColl now c (.doc fs)).2 = (selectDocs (patchDT (.doc fs)) c1.docs).map (·.map (·.2)) := by
  simp only [findColl]
  rw [iter_eq now c c1 _ he hne]
  cases selectDocs (patchDT (.doc fs)) c1.docs <;> rfl

theorem count_eq_find (now : Int) (c : Coll) (fs : Fields) :
    (countColl now c (.doc fs) 0 none).2 = (findColl now c (.doc fs)).2.map (fun ms => (ms.length : Int)) := by
  simp only [countColl, findColl]
  cases iterDocuments now c (patchDT (.doc fs)) with
  | error e => rfl
  | ok r =>
    obtain ⟨c1, ms⟩ := r
    simp only [Except.map, Except.ok.injEq]
    omega

theorem count_skip_limit (now : Int) (c : Coll) (fs : Fields) (skip lim : Int) (hl : 0 < lim) :
    (countColl now c (.doc fs) skip (some (.int lim))).2 =
      (findColl now c (.doc fs)).2.map (fun ms => min (max ((ms.length : Int) - skip) 0) lim) := by
  have hl' : ¬ lim ≤ 0 := by omega
  simp only [countColl, findColl, hl', if_false]
  cases iterDocuments now c (patchDT (.doc fs)) with
  | error e => rfl
  | ok r =>
    obtain ⟨c1, ms⟩ := r
    rfl

theorem delete_eq (now : Int) (c c1 : Coll) (fs : Fields) (sel : List (Val × Val)) (multi : Bool)
    (he : expire now c = .ok c1) (hne : c1.docs ≠ [])
    (hs : selectDocs (patchDT (.doc fs)) c1.docs = .ok sel) :
    deleteColl now c (.doc fs) multi =
      (((((if multi then sel else sel.take 1).map (·.2)).filterMap idOf).foldl
            (fun acc k => acc.delDoc k) c1),
       .ok (((if multi then sel else sel.take 1).map (·.2)).filterMap idOf).length) := by
  unfold deleteColl
  rw [patch_doc_twice]
  have hi := iter_eq now c c1 (patchDT (.doc fs)) he hne
  rw [hs] at hi
  rw [patch_doc] at hi ⊢
  simp only [hi, Except.map]
  cases multi
  · simp only [Bool.false_eq_true, if_false, List.map_take]
    rfl
  · simp only [if_true]
    rfl

theorem inv_expired (now : Int) (c c1 : Coll) (he : expire now c = .ok c1) (hi : IdInv c)
    (hg : GoodKeys c) : DK c1.docs ∧ GK c1.docs ∧ KI c1.docs := by
  have hsub := (expire_ok now c c1 he).1
  exact ⟨DK.sublist hi.1 hsub, GK.subset hg (fun p hp => hsub.subset hp),
    KI.subset hi.2 (fun p hp => hsub.subset hp)⟩

theorem delete_many_eq_find (now : Int) (c c1 : Coll) (fs : Fields) (sel : List (Val × Val))
    (he : expire now c = .ok c1) (hne : c1.docs ≠ []) (hi : IdInv c) (hg : GoodKeys c)
    (hs : selectDocs (patchDT (.doc fs)) c1.docs = .ok sel) :
    (deleteColl now c (.doc fs) true).2 = .ok sel.length ∧
    (deleteColl now c (.doc fs) true).1.docs = c1.docs.filter (fun p => !sel.any (fun q => pyEq q.1 p.1)) ∧
    (deleteColl now c (.doc fs) true).1.docs.length + sel.length = c1.docs.length := by
  obtain ⟨hd, hgk, hk⟩ := inv_expired now c c1 he hi hg
  rw [delete_eq now c c1 fs sel true he hne hs]
  simp only [if_true]
  obtain ⟨h1, h2, h3⟩ := delete_victims c1 sel (select_sublist _ _ _ hs) hd hgk hk
  exact ⟨by rw [h1], h2, h3⟩

theorem delete_one_eq_find (now : Int) (c c1 : Coll) (fs : Fields) (sel : List (Val × Val))
    (he : expire now c = .ok c1) (hne : c1.docs ≠ []) (hi : IdInv c) (hg : GoodKeys c)
    (hs : selectDocs (patchDT (.doc fs)) c1.docs = .ok sel) :
    (deleteColl now c (.doc fs) false).2 = .ok (min sel.length 1) ∧
    (deleteColl now c (.doc fs) false).1.docs.length + min sel.length 1 = c1.docs.length := by
  obtain ⟨hd, hgk, hk⟩ := inv_expired now c c1 he hi hg
  rw [delete_eq now c c1 fs sel false he hne hs]
  simp only [Bool.false_eq_true, if_false]
  obtain ⟨h1, _, h3⟩ := delete_victims c1 (sel.take 1)
    ((List.take_sublist 1 sel).trans (select_sublist _ _ _ hs)) hd hgk hk
  have hl : (sel.take 1).length = min sel.length 1 := by
    rw [List.length_take]; omega
  rw [hl] at h1 h3
  exact ⟨by rw [h1], h3⟩

theorem pre_eq (now : Int) (c c1 : Coll) (spec : Val) (he : expire now c = .ok c1)
    (hne : c1.docs ≠ []) :
    (do
      let c1 ← expire now c
      if c1.docs.isEmpty then
        let _ ← filterApplies spec (.doc [])
      expire now c1) = Except.ok c1 := by
  have hemp : c1.docs.isEmpty = false := by
    cases hd : c1.docs with
    | nil => exact absurd hd hne
    | cons a l => rfl
  rw [he]
  simp only [bind, Except.bind, hemp, Bool.false_eq_true, if_false]
  exact expire_idem now c c1 he

theorem linv_start (now : Int) (c c1 : Coll) (he : expire now c = .ok c1) (hk : KeysDistinct c)
    (hg : GoodKeys c) : LInv now c1.ttlIndexes c1.docs c1 := by
  have he' := he
  rw [expire_eq_pass] at he'
  obtain ⟨hsub, hmeta, _, hclean⟩ := pass_ok now _ c c1 he'
  refine ⟨DK.sublist hk hsub, GK.subset hg (fun p hp => hsub.subset hp), rfl, ?_⟩
  intro p hp
  refine ⟨hp, ?_⟩
  intro ix hix f s hfs
  rw [hmeta.2.1] at hix
  exact hclean ix hix f s hfs p hp

theorem update_count (cfg : Cfg) (now : Int) (c c1 c' : Coll) (fs : Fields) (u : Val)
    (sel : List (Val × Val)) (res : UpdateResult) (multi : Bool)
    (he : expire now c = .ok c1) (hne : c1.docs ≠ []) (hk : KeysDistinct c) (hg : GoodKeys c)
    (hs : selectDocs (patchDT (.doc fs)) c1.docs = .ok sel)
    (h : applyUpdateColl cfg now c (.doc fs) u false multi = (c', .ok res)) :
    res.n = (if multi then sel.length else min sel.length 1) ∧ res.nModified ≤ res.n ∧
      res.upserted = none := by
  unfold applyUpdateColl at h
  extract_lets spec document nowV at h
  have hspec : spec = .doc (patchFields fs) := patch_doc fs
  have hs' : selectDocs spec c1.docs = .ok sel := hs
  clear_value spec document nowV
  subst hspec
  rw [pre_eq now c c1 _ he hne] at h
  split at h
  · rename_i _ _ ss dfs hss
    split at h
    · cases h
    · dsimp only at h
      generalize hloop : updateLoop now (Val.doc (patchFields fs)) (Val.doc dfs) nowV multi
        c1.docs c1 0 0 = lr at h
      obtain ⟨c3, r⟩ := lr
      dsimp only at h
      cases r with
      | error e => cases h
      | ok mu =>
        obtain ⟨matched, updated⟩ := mu
        simp only [Bool.not_false, Bool.true_or, if_true, Prod.mk.injEq, Except.ok.injEq] at h
        obtain ⟨_, rfl⟩ := h
        have hinv := linv_start now c c1 he hk hg
        obtain ⟨h1, h2⟩ := loop_count now _ (.doc dfs) nowV multi c1.ttlIndexes c1.docs c1 0 0
          c3 matched updated sel hinv.dk hinv hs' hloop (Nat.le_refl 0)
        refine ⟨by simpa using h1, ?_, rfl⟩
        dsimp only
        split <;> omega
  · cases h

theorem update_many_matched_eq_find (cfg : Cfg) (now : Int) (c c1 c' : Coll) (fs : Fields) (u : Val)
    (sel : List (Val × Val)) (res : UpdateResult)
    (he : expire now c = .ok c1) (hne : c1.docs ≠ []) (hi : IdInv c) (hg : GoodKeys c)
    (hs : selectDocs (patchDT (.doc fs)) c1.docs = .ok sel)
    (h : applyUpdateColl cfg now c (.doc fs) u false true = (c', .ok res)) :
    res.n = sel.length ∧ res.nModified ≤ res.n ∧ res.upserted = none := by
  simpa using update_count cfg now c c1 c' fs u sel res true he hne hi.1 hg hs h

/-- corrected `update_one_target_iff`: store keys are pairwise distinct and well behaved -/
theorem update_one_target_iff_alt (cfg : Cfg) (now : Int) (c c1 c' : Coll) (fs : Fields) (u : Val)
    (sel : List (Val × Val)) (res : UpdateResult)
    (he : expire now c = .ok c1) (hne : c1.docs ≠ []) (hk : KeysDistinct c) (hg : GoodKeys c)
    (hs : selectDocs (patchDT (.doc fs)) c1.docs = .ok sel)
    (h : applyUpdateColl cfg now c (.doc fs) u false false = (c', .ok res)) :
    res.n = min sel.length 1 := by
  simpa using (update_count cfg now c c1 c' fs u sel res false he hne hk hg hs h).1

/-- the same under the hypotheses of `update_many_matched_eq_find` -/
theorem update_one_target_iff_alt' (cfg : Cfg) (now : Int) (c c1 c' : Coll) (fs : Fields) (u : Val)
    (sel : List (Val × Val)) (res : UpdateResult)
    (he : expire now c = .ok c1) (hne : c1.docs ≠ []) (hi : IdInv c) (hg : GoodKeys c)
    (hs : selectDocs (patchDT (.doc fs)) c1.docs = .ok sel)
    (h : applyUpdateColl cfg now c (.doc fs) u false false = (c', .ok res)) :
    res.n = min sel.length 1 :=
  update_one_target_iff_alt cfg now c c1 c' fs u sel res he hne hi.1 hg hs h

/-! ### the counterexample to `update_one_target_iff` as stated

Two documents stored under the same key `1` (so `KeysDistinct` fails): the filter `{a: 2}` selects
the second one, but the loop looks both snapshot entries up by key, finds the first document both
times, and matches nothing. -/

def cexColl : Coll :=
  { docs := [(.int 1, .doc [("_id", .int 1), ("a", .int 1)]),
             (.int 1, .doc [("_id", .int 1), ("a", .int 2)])] }

def cexUpdate : Val := .doc [("$set", .doc [("x", .int 1)])]

theorem update_one_target_iff_counterexample :
    ¬ (∀ (cfg : Cfg) (now : Int) (c c1 c' : Coll) (fs : Fields) (u : Val)
        (sel : List (Val × Val)) (res : UpdateResult),
        expire now c = .ok c1 → c1.docs ≠ [] →
        selectDocs (patchDT (.doc fs)) c1.docs = .ok sel →
        applyUpdateColl cfg now c (.doc fs) u false false = (c', .ok res) →
        res.n = min sel.length 1) := by
  intro H
  have k1 : (match applyUpdateColl {} 0 cexColl (.doc [("a", .int 2)]) cexUpdate false false with
      | (_, .ok r) => r.n == 0
      | _ => false) = true := by decide +kernel
  have k2 : (match selectDocs (patchDT (.doc [("a", .int 2)])) cexColl.docs with
      | .ok sel => sel.length == 1
      | _ => false) = true := by decide +kernel
  generalize hx : applyUpdateColl {} 0 cexColl (.doc [("a", .int 2)]) cexUpdate false false = x at k1
  obtain ⟨c', r⟩ := x
  cases r with
  | error e => simp at k1
  | ok res =>
    generalize hy : selectDocs (patchDT (.doc [("a", .int 2)])) cexColl.docs = y at k2
    cases y with
    | error e => simp at k2
    | ok sel =>
      simp only [beq_iff_eq] at k1 k2
      have := H {} 0 cexColl cexColl c' [("a", .int 2)] cexUpdate sel res rfl (by simp [cexColl]) hy hx
      rw [k1, k2] at this
      cases this

end MongoModel.Proofs.C10
