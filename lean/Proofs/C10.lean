/-
  Proofs.C10 — lemmas and proofs behind Props/C10.lean.
-/
import Spec.Counts

namespace MongoModel.Proofs.C10
open MongoModel MongoModel.Spec

theorem find_is_selection (now : Int) (c c1 : Coll) (fs : Fields) (he : expire now c = .ok c1)
    (hne : c1.docs ≠ []) :
    (findColl now c (.doc fs)).2 = (selectDocs (patchDT (.doc fs)) c1.docs).map (·.map (·.2)) := by sorry

theorem count_eq_find (now : Int) (c : Coll) (fs : Fields) :
    (countColl now c (.doc fs) 0 none).2 = (findColl now c (.doc fs)).2.map (fun ms => (ms.length : Int)) := by sorry

theorem count_skip_limit (now : Int) (c : Coll) (fs : Fields) (skip lim : Int) (hl : 0 < lim) :
    (countColl now c (.doc fs) skip (some (.int lim))).2 =
      (findColl now c (.doc fs)).2.map (fun ms => min (max ((ms.length : Int) - skip) 0) lim) := by sorry

theorem delete_many_eq_find (now : Int) (c c1 : Coll) (fs : Fields) (sel : List (Val × Val))
    (he : expire now c = .ok c1) (hne : c1.docs ≠ []) (hi : IdInv c) (hg : GoodKeys c)
    (hs : selectDocs (patchDT (.doc fs)) c1.docs = .ok sel) :
    (deleteColl now c (.doc fs) true).2 = .ok sel.length ∧
    (deleteColl now c (.doc fs) true).1.docs = c1.docs.filter (fun p => !sel.any (fun q => pyEq q.1 p.1)) ∧
    (deleteColl now c (.doc fs) true).1.docs.length + sel.length = c1.docs.length := by sorry

theorem delete_one_eq_find (now : Int) (c c1 : Coll) (fs : Fields) (sel : List (Val × Val))
    (he : expire now c = .ok c1) (hne : c1.docs ≠ []) (hi : IdInv c) (hg : GoodKeys c)
    (hs : selectDocs (patchDT (.doc fs)) c1.docs = .ok sel) :
    (deleteColl now c (.doc fs) false).2 = .ok (min sel.length 1) ∧
    (deleteColl now c (.doc fs) false).1.docs.length + min sel.length 1 = c1.docs.length := by sorry

theorem update_many_matched_eq_find (cfg : Cfg) (now : Int) (c c1 c' : Coll) (fs : Fields) (u : Val)
    (sel : List (Val × Val)) (res : UpdateResult)
    (he : expire now c = .ok c1) (hne : c1.docs ≠ []) (hi : IdInv c) (hg : GoodKeys c)
    (hs : selectDocs (patchDT (.doc fs)) c1.docs = .ok sel)
    (h : applyUpdateColl cfg now c (.doc fs) u false true = (c', .ok res)) :
    res.n = sel.length ∧ res.nModified ≤ res.n ∧ res.upserted = none := by sorry

theorem update_one_target_iff (cfg : Cfg) (now : Int) (c c1 c' : Coll) (fs : Fields) (u : Val)
    (sel : List (Val × Val)) (res : UpdateResult)
    (he : expire now c = .ok c1) (hne : c1.docs ≠ [])
    (hs : selectDocs (patchDT (.doc fs)) c1.docs = .ok sel)
    (h : applyUpdateColl cfg now c (.doc fs) u false false = (c', .ok res)) :
    res.n = min sel.length 1 := by sorry

end MongoModel.Proofs.C10
