/-
  C19 — soundness of the kernel-checked certificates of the lock-protocol machine
  (`MongoModel/RWLockProto.lean`): a certificate that passes `pcheckCert` contains every
  reachable state, hence no reachable state is bad or deadlocked (`closed_set_sound`).
-/
import MongoModel.RWLockProto
namespace MongoModel.RWLock

/-! ### packed code lists -/

theorem fieldAt_eq (k i : Nat) : fieldAt k i = k / 256 ^ i % 256 := by
  unfold fieldAt
  show (k >>> (8 * i)) &&& 255 = _
  rw [Nat.shiftRight_eq_div_pow, show (255 : Nat) = 2 ^ 8 - 1 by rfl,
    Nat.and_two_pow_sub_one_eq_mod, Nat.pow_mul]

theorem packL_cons (b : Nat) (bs : List Nat) : packL (b :: bs) = b + 256 * packL bs := rfl

theorem fieldAt_packL : ∀ (bs : List Nat) (i : Nat), (∀ b ∈ bs, b < 256) →
    fieldAt (packL bs) i = bs.getD i 0
  | [], i, _ => by simp [fieldAt_eq, packL]
  | b :: bs, 0, h => by
    have hb : b < 256 := h b (by simp)
    rw [fieldAt_eq, packL_cons]; simp; omega
  | b :: bs, i + 1, h => by
    have hb : b < 256 := h b (by simp)
    have ih := fieldAt_packL bs i (fun x hx => h x (by simp [hx]))
    rw [fieldAt_eq] at ih ⊢
    rw [packL_cons, Nat.pow_succ, Nat.mul_comm (256 ^ i), ← Nat.div_div_eq_div_mul]
    have : (b + 256 * packL bs) / 256 = packL bs := by omega
    rw [this, ih]; simp

theorem allSmall_iff (bs : List Nat) : allSmall bs = true ↔ ∀ b ∈ bs, b < 256 := by
  simp [allSmall, Nat.blt_eq]

theorem n2b_b2n (b : Bool) : n2b (b2n b) = b := by cases b <;> rfl

theorem b2n_lt (b : Bool) : b2n b < 2 := by cases b <;> decide

theorem decInt_encInt (i : Int) : decInt (encInt i) = i := by
  cases i with
  | ofNat n =>
    have h1 : Nat.mod (Nat.mul 2 n) 2 = 0 := by show 2 * n % 2 = 0; omega
    have h2 : Nat.div (Nat.mul 2 n) 2 = n := by show 2 * n / 2 = n; omega
    simp only [encInt, decInt, h1, h2]; rfl
  | negSucc n =>
    have h1 : Nat.mod (Nat.add (Nat.mul 2 n) 1) 2 = 1 := by show (2 * n + 1) % 2 = 1; omega
    have h2 : Nat.div (Nat.add (Nat.mul 2 n) 1) 2 = n := by show (2 * n + 1) / 2 = n; omega
    simp only [encInt, decInt, h1, h2]; rfl

theorem decPhase_encPhase (p : Phase) : decPhase (encPhase p) = p := by
  cases p with
  | out => rfl
  | body w => cases w <;> rfl
  | acq w j =>
    have hw := b2n_lt w
    have h1 : Nat.mod (encPhase (.acq w j)) 4 = 2 := by
      show (2 + 4 * (b2n w + 4 * j)) % 4 = 2; omega
    have h2 : Nat.mod (Nat.div (encPhase (.acq w j)) 4) 2 = b2n w := by
      show (2 + 4 * (b2n w + 4 * j)) / 4 % 2 = b2n w; omega
    have h3 : Nat.div (encPhase (.acq w j)) 16 = j := by
      show (2 + 4 * (b2n w + 4 * j)) / 16 = j; omega
    simp only [decPhase, h1, h2, h3, n2b_b2n]; rfl
  | rel w r j =>
    have hw := b2n_lt w
    have hr := b2n_lt r
    have h1 : Nat.mod (encPhase (.rel w r j)) 4 = 3 := by
      show (3 + 4 * (b2n w + 2 * b2n r + 4 * j)) % 4 = 3; omega
    have h2 : Nat.mod (Nat.div (encPhase (.rel w r j)) 4) 2 = b2n w := by
      show (3 + 4 * (b2n w + 2 * b2n r + 4 * j)) / 4 % 2 = b2n w; omega
    have h3 : Nat.mod (Nat.div (encPhase (.rel w r j)) 8) 2 = b2n r := by
      show (3 + 4 * (b2n w + 2 * b2n r + 4 * j)) / 8 % 2 = b2n r; omega
    have h4 : Nat.div (encPhase (.rel w r j)) 16 = j := by
      show (3 + 4 * (b2n w + 2 * b2n r + 4 * j)) / 16 = j; omega
    simp only [decPhase, h1, h2, h3, h4, n2b_b2n]; rfl

/-! ### decoding what was encoded -/

theorem posFrom_eq (k : Nat) : ∀ (ps : List Phase) (i : Nat),
    (∀ j, j < ps.length → fieldAt k (i + j) = encPhase (ps.getD j .out)) →
    posFrom k i ps.length = ps
  | [], _, _ => rfl
  | p :: ps, i, h => by
    have h0 := h 0 (by simp)
    have ih := posFrom_eq k ps (i + 1) (fun j hj => by
      have := h (j + 1) (by simpa using hj)
      simpa [Nat.add_assoc, Nat.add_comm 1 j] using this)
    simp only [List.length_cons, posFrom]
    simp only [Nat.add_zero, List.getD_cons_zero] at h0
    rw [h0, decPhase_encPhase]
    exact congrArg _ ih

theorem pdecodeK_pencodeL (s : PState) (n : Nat) (hl : s.lk.locks.length = 5)
    (hn : s.pos.length = n) (hs : allSmall (pencodeL s) = true) :
    pdecodeK n (packL (pencodeL s)) = s := by
  obtain ⟨⟨locks, rc, wc⟩, pos⟩ := s
  simp only at hl hn
  match locks, hl with
  | [a, b, c, d, e], _ =>
    have hsm := (allSmall_iff _).1 hs
    have hf : ∀ i, fieldAt (packL (pencodeL ⟨⟨[a, b, c, d, e], rc, wc⟩, pos⟩)) i
        = (pencodeL ⟨⟨[a, b, c, d, e], rc, wc⟩, pos⟩).getD i 0 := fun i => fieldAt_packL _ i hsm
    have hpos : posFrom (packL (pencodeL ⟨⟨[a, b, c, d, e], rc, wc⟩, pos⟩)) 13 n = pos := by
      subst hn
      apply posFrom_eq
      intro j hj
      rw [hf]
      simp only [pencodeL]
      have : (13 + j) = j + 13 := by omega
      rw [this]
      simp only [List.getD_cons_succ]
      simp [List.getD_eq_getElem?_getD, hj]
    simp only [pdecodeK, hf, hpos]
    simp only [pencodeL, List.getD_cons_succ, List.getD_cons_zero, decInt_encInt]

/-! ### certificates -/

theorem bsearch_has (W blob x : Nat) : ∀ (f : List Unit) (lo hi cnt : Nat), hi ≤ cnt →
    bsearch W blob x f lo hi = true → ∃ j, j < cnt ∧ keyAt W blob j = x
  | [], _, _, _, _, h => by simp [bsearch] at h
  | _ :: f, lo, hi, cnt, hc, h => by
    unfold bsearch at h
    by_cases h1 : Nat.ble hi lo = true
    · simp [h1] at h
    · have hlt : lo < hi := by
        simp only [Nat.ble_eq] at h1
        omega
      have hmid : (Nat.div (Nat.add lo hi) 2) < hi := by
        show (lo + hi) / 2 < hi
        omega
      simp only [h1, cond_false] at h
      by_cases h2 : Nat.beq (keyAt W blob (Nat.div (Nat.add lo hi) 2)) x = true
      · exact ⟨_, Nat.lt_of_lt_of_le hmid hc, Nat.eq_of_beq_eq_true h2⟩
      · simp only [h2, cond_false] at h
        by_cases h3 : Nat.blt x (keyAt W blob (Nat.div (Nat.add lo hi) 2)) = true
        · simp only [h3, cond_true] at h
          exact bsearch_has W blob x f lo _ cnt (Nat.le_trans (Nat.le_of_lt hmid) hc) h
        · simp only [h3, cond_false] at h
          exact bsearch_has W blob x f _ hi cnt hc h

theorem Cert.mem_has (W x : Nat) : ∀ (C : Cert), Cert.mem W x C = true → Cert.Has W C x
  | [], h => by simp [Cert.mem] at h
  | [l], h => by
    obtain ⟨j, hj, hk⟩ := bsearch_has W l.blob x fuel32 0 l.cnt l.cnt (Nat.le_refl _) h
    exact ⟨l, by simp, j, hj, hk⟩
  | l :: l' :: rest, h => by
    unfold Cert.mem at h
    by_cases h1 : Nat.blt x l'.lo = true
    · simp only [h1, cond_true] at h
      obtain ⟨j, hj, hk⟩ := bsearch_has W l.blob x fuel32 0 l.cnt l.cnt (Nat.le_refl _) h
      exact ⟨l, by simp, j, hj, hk⟩
    · simp only [h1, cond_false] at h
      obtain ⟨m, hm, j, hj, hk⟩ := Cert.mem_has W x (l' :: rest) h
      exact ⟨m, List.mem_cons_of_mem _ hm, j, hj, hk⟩

theorem leafAll_spec (W : Nat) (p : Nat → Bool) (blob : Nat) : ∀ (cnt : Nat),
    leafAll W p blob cnt = true → ∀ j, j < cnt → p (keyAt W blob j) = true
  | 0, _, j, hj => absurd hj (Nat.not_lt_zero _)
  | c + 1, h, j, hj => by
    simp only [leafAll, Bool.and_eq_true] at h
    by_cases hjc : j = c
    · subst hjc; exact h.1
    · exact leafAll_spec W p blob c h.2 j (by omega)

theorem Cert.all_has (W : Nat) (p : Nat → Bool) (C : Cert) (h : Cert.all W p C = true)
    (k : Nat) (hk : Cert.Has W C k) : p k = true := by
  obtain ⟨l, hl, j, hj, hkj⟩ := hk
  simp only [Cert.all, List.all_eq_true] at h
  have := leafAll_spec W p l.blob l.cnt (h l hl) j hj
  rwa [hkj] at this

/-! ### the machine preserves the shape of states -/

theorem acquire_len {re lk t l lk'} (h : acquire re lk t l = some lk') :
    lk'.locks.length = lk.locks.length := by
  unfold acquire at h
  simp only at h
  split at h <;> split at h <;> (try split at h) <;> simp at h <;> subst h <;> simp [Locks.setLock]

theorem release_len {re lk t l lk'} (h : release re lk t l = some lk') :
    lk'.locks.length = lk.locks.length := by
  unfold release at h
  simp only at h
  split at h <;> split at h <;> (try split at h) <;> simp at h <;> subst h <;> simp [Locks.setLock]

theorem setCtr_len (lk : Locks) (c : Ctr) (v : Int) : (lk.setCtr c v).locks.length = lk.locks.length := by
  cases c <;> rfl

theorem protoOp_ok_len {re lk t ins lk'} (h : protoOp re lk t ins = some (.ok lk')) :
    lk'.locks.length = lk.locks.length := by
  cases ins <;> simp only [protoOp, Option.some.injEq, reduceCtorEq] at h
  case acq l =>
    simp only [acqRes] at h
    split at h <;> simp at h
    subst h; exact acquire_len ‹_›
  case rel l =>
    simp only [relRes] at h
    split at h <;> simp at h
    subst h; exact release_len ‹_›
  case inc c => cases h; exact setCtr_len _ _ _
  case dec c => cases h; exact setCtr_len _ _ _
  case acqIf c k l =>
    split at h
    · simp only [acqRes] at h
      split at h <;> simp at h
      subst h; exact acquire_len ‹_›
    · cases h; rfl
  case relIf c k l =>
    split at h
    · simp only [relRes] at h
      split at h <;> simp at h
      subst h; exact release_len ‹_›
    · cases h; rfl

theorem pstep_len {P s t lab s'} (h : pstep P s t lab = some s') :
    s'.lk.locks.length = s.lk.locks.length ∧ s'.pos.length = s.pos.length := by
  unfold pstep at h
  split at h
  · simp at h
  · rename_i p hp
    cases lab with
    | begin w =>
      simp only at h
      split at h <;> simp at h
      subst h; simp [PState.setPos]
    | leave r =>
      simp only at h
      split at h <;> simp at h
      subst h; simp [PState.setPos]
    | op =>
      simp only at h
      split at h
      · simp at h
      · rename_i ins hi
        split at h
        · rename_i lk' hk
          simp at h; subst h
          exact ⟨protoOp_ok_len hk, by simp⟩
        · simp at h; subst h; simp [PState.setPos]
        · simp at h

theorem labsAt_complete {P s t lab s'} (h : pstep P s t lab = some s') :
    ∃ p, s.pos[t]? = some p ∧ lab ∈ labsAt p := by
  unfold pstep at h
  split at h
  · simp at h
  · rename_i p hp
    refine ⟨p, hp, ?_⟩
    cases lab with
    | begin w =>
      simp only at h
      split at h
      · rename_i hout
        have : p = .out := by simpa using hout
        subst this; cases w <;> simp [labsAt]
      · simp at h
    | leave r =>
      simp only at h
      split at h
      · cases r <;> simp [labsAt]
      · simp at h
    | op =>
      simp only at h
      cases p with
      | out => simp [instrAt] at h
      | body w => simp [instrAt] at h
      | acq w j => simp [labsAt]
      | rel w r j => simp [labsAt]

theorem allIdx_spec {α} (p : Nat → α → Bool) : ∀ (xs : List α) (i : Nat),
    allIdx p i xs = true → ∀ j x, xs[j]? = some x → p (i + j) x = true
  | [], _, _, j, x, hx => by simp at hx
  | y :: ys, i, h, j, x, hx => by
    simp only [allIdx, Bool.and_eq_true] at h
    cases j with
    | zero => simp at hx; subst hx; simpa using h.1
    | succ j =>
      simp at hx
      have := allIdx_spec p ys (Nat.add i 1) h.2 j x hx
      have e : Nat.add i 1 + j = i + (j + 1) := by show i + 1 + j = _; omega
      rwa [e] at this

/-! ### soundness -/

theorem psuccIn_holds {C : Cert} {n : Nat} {s' : PState} (hl : s'.lk.locks.length = 5)
    (hn : s'.pos.length = n) (h : psuccIn C n s' = true) : C.Holds n s' := by
  simp only [psuccIn, Bool.and_eq_true] at h
  exact ⟨hl, hn, h.1, Cert.mem_has _ _ _ h.2⟩

theorem pinit_len (n : Nat) : (pinit n).lk.locks.length = 5 ∧ (pinit n).pos.length = n := by
  simp [pinit, Locks.init]

theorem holds_checked {P : Protocol} {C : Cert} {n : Nat}
    (hall : Cert.all (keyWidth n) (pcheckKey P C n) C = true) {s : PState} (hs : C.Holds n s) :
    pcheckState P C n s = true := by
  obtain ⟨hl, hn, hsm, hk⟩ := hs
  have := Cert.all_has _ _ C hall _ hk
  rwa [pcheckKey, pdecodeK_pencodeL s n hl hn hsm] at this

theorem holds_step {P : Protocol} {C : Cert} {n : Nat}
    (hall : Cert.all (keyWidth n) (pcheckKey P C n) C = true) {s : PState} (hs : C.Holds n s)
    {t : Nat} {lab : Lab} {s' : PState} (hstep : pstep P s t lab = some s') : C.Holds n s' := by
  have hc := holds_checked hall hs
  simp only [pcheckState, Bool.and_eq_true] at hc
  obtain ⟨p, hp, hlab⟩ := labsAt_complete hstep
  have := allIdx_spec _ _ _ hc.2 t p hp
  simp only [Nat.zero_add, List.all_eq_true] at this
  have h2 := this lab hlab
  rw [hstep] at h2
  have hlen := pstep_len hstep
  exact psuccIn_holds (by rw [hlen.1]; exact hs.1) (by rw [hlen.2]; exact hs.2.1) h2

theorem holds_good {P : Protocol} {C : Cert} {n : Nat}
    (hall : Cert.all (keyWidth n) (pcheckKey P C n) C = true) {s : PState} (hs : C.Holds n s) :
    pbad P s = false ∧ pdeadlocked P s = false := by
  have hc := holds_checked hall hs
  simp only [pcheckState, Bool.and_eq_true, Bool.not_eq_true'] at hc
  exact ⟨hc.1.1, hc.1.2⟩

/-- a set of states that contains the initial state and is closed under every action of every
    thread contains every state reachable by executions of any length -/
theorem reach_holds {P : Protocol} {C : Cert} {n : Nat}
    (hinit : psuccIn C n (pinit n) = true)
    (hall : Cert.all (keyWidth n) (pcheckKey P C n) C = true) :
    ∀ s, PReach P n s → C.Holds n s := by
  intro s hr
  induction hr with
  | init => exact psuccIn_holds (pinit_len n).1 (pinit_len n).2 hinit
  | step _ hstep ih => exact holds_step hall ih hstep

theorem closed_set_sound' {P : Protocol} {C : Cert} {n : Nat} (h : pcheckCert P C n = true) :
    ∀ s, PReach P n s → pbad P s = false ∧ pdeadlocked P s = false := by
  simp only [pcheckCert, Bool.and_eq_true] at h
  exact fun s hr => holds_good h.2 (reach_holds h.1 h.2 s hr)

/-- the certificate may be checked leaf range by leaf range -/
theorem all_of_parts {P : Protocol} {C : Cert} {n sz k : Nat} (hsz : 0 < sz)
    (hk : C.length ≤ k * sz) (hparts : ∀ i, i < k → pcheckPart P C n sz i = true) :
    Cert.all (keyWidth n) (pcheckKey P C n) C = true := by
  simp only [Cert.all, List.all_eq_true]
  intro l hl
  obtain ⟨j, hj, rfl⟩ := List.getElem_of_mem hl
  have hi : j / sz < k := by
    apply Nat.div_lt_of_lt_mul
    rw [Nat.mul_comm]; omega
  have hp := hparts (j / sz) hi
  simp only [pcheckPart, Cert.all, List.all_eq_true] at hp
  apply hp
  have hmod : j - j / sz * sz < sz := by
    have := Nat.mod_lt j hsz
    have h2 := Nat.div_add_mod j sz
    rw [Nat.mul_comm] at h2
    omega
  have hle : j / sz * sz ≤ j := by
    have h2 := Nat.div_add_mod j sz
    rw [Nat.mul_comm] at h2
    omega
  have hlen : j - j / sz * sz < ((C.drop (j / sz * sz)).take sz).length := by
    simp only [List.length_take, List.length_drop]
    omega
  have : ((C.drop (j / sz * sz)).take sz)[j - j / sz * sz] = C[j] := by
    simp only [List.getElem_take, List.getElem_drop]
    congr 1
    omega
  rw [← this]
  exact List.getElem_mem _

end MongoModel.RWLock
